//! `impl`: interprets the operation lines of the correspondence protocol against the real pelite,
//! one answer line per operation line (DESIGN.md appendix B).
mod util;
#[macro_use]
mod ops_img;
mod ops_pure;
mod ops_typed;
mod ops_rich;
mod ops_convert;
mod ops_pattern;
mod ops_version;
mod ops_scan;
mod ops_walk;
mod ops_imports;
mod ops_exports;
mod ops_dirs;
mod ops_json;
mod ops_iter;
mod ops_res;
mod ops_patsem;
mod layout_all;
mod ops_fields;
// MOD-MARKER (add `mod ops_<m>;` above this line)

use std::cell::RefCell;
use std::io::{self, BufRead, Write};
use std::panic;

thread_local! { static LAST_PANIC: RefCell<String> = RefCell::new(String::new()); }

pub struct State {
	pub img: Option<util::Guarded>,
}

fn dispatch(st: &mut State, line: &str) -> String {
	let mut it = line.splitn(2, ' ');
	let fam = it.next().unwrap_or("");
	let rest = it.next().unwrap_or("");
	if fam == "img" { return ops_img::img(st, rest); }
	// each module returns None for families that are not its own
	None
		.or_else(|| ops_pure::dispatch(st, fam, rest))
		.or_else(|| ops_img::dispatch(st, fam, rest))
		.or_else(|| ops_json::dispatch(st, fam, rest))
		.or_else(|| ops_typed::dispatch(st, fam, rest))
		.or_else(|| ops_rich::dispatch(st, fam, rest))
		.or_else(|| ops_convert::dispatch(st, fam, rest))
		.or_else(|| ops_pattern::dispatch(st, fam, rest))
		.or_else(|| ops_version::dispatch(st, fam, rest))
		.or_else(|| ops_scan::dispatch(st, fam, rest))
		.or_else(|| ops_walk::dispatch(st, fam, rest))
		.or_else(|| ops_imports::dispatch(st, fam, rest))
		.or_else(|| ops_exports::dispatch(st, fam, rest))
		.or_else(|| ops_dirs::dispatch(st, fam, rest))
		.or_else(|| ops_iter::dispatch(st, fam, rest))
		.or_else(|| ops_res::dispatch(st, fam, rest))
		.or_else(|| ops_patsem::dispatch(st, fam, rest))
		.or_else(|| ops_fields::dispatch(st, fam, rest))
		// DISPATCH-MARKER (add `.or_else(|| ops_<m>::dispatch(st, fam, rest))` above this line)
		.unwrap_or_else(|| "bad-op".to_string())
}

fn main() {
	panic::set_hook(Box::new(|info| {
		let loc = info.location().map(|l| format!("{}:{}", l.file(), l.line())).unwrap_or_default();
		let msg = if let Some(s) = info.payload().downcast_ref::<&str>() { s.to_string() } else if let Some(s) = info.payload().downcast_ref::<String>() { s.clone() } else { String::new() };
		let msg: String = msg.chars().take(80).map(|c| if c == '\n' { ' ' } else { c }).collect();
		LAST_PANIC.with(|p| *p.borrow_mut() = format!("@{} {}", loc, msg));
	}));
	let stdin = io::stdin();
	let stdout = io::stdout();
	let mut st = State { img: None };
	for line in stdin.lock().lines() {
		let line = line.expect("read");
		let line = line.trim_end();
		if line.is_empty() || line.starts_with('#') { continue; }
		let ans = match panic::catch_unwind(panic::AssertUnwindSafe(|| dispatch(&mut st, line))) {
			Ok(s) => s,
			Err(_) => format!("panic {}", LAST_PANIC.with(|p| p.borrow().clone())),
		};
		// an answer of many megabytes (a length that was not clamped somewhere) is cut: its class and its first
		// megabytes are all the comparison needs, and the reader must not be made to swallow gigabytes
		let ans = if ans.len() > (4 << 20) { let mut cut = 4 << 20; while !ans.is_char_boundary(cut) { cut -= 1; } format!("{} …CUT({} bytes)", &ans[..cut], ans.len()) } else { ans };
		let mut o = stdout.lock();
		writeln!(o, "{}", ans).unwrap();
		o.flush().unwrap();
	}
}
