//! `impl`: interprets the operation lines of the correspondence protocol against the real pelite,
//! one answer line per operation line (DESIGN.md appendix B).
mod util;
mod ops_pure;
#[macro_use]
mod ops_img;

use std::cell::RefCell;
use std::io::{self, BufRead, Write};
use std::panic;

thread_local! { static LAST_PANIC: RefCell<String> = RefCell::new(String::new()); }

pub struct State {
	pub img: Option<util::Guarded>,
}

fn dispatch(st: &mut State, line: &str) -> String {
	let mut it = line.splitn(2, ' ');
	let fam = it.next().unwrap_or("");
	let rest = it.next().unwrap_or("");
	match fam {
		"strings" => ops_pure::strings(rest),
		"relocs_raw" => ops_pure::relocs_raw(rest),
		"relocs_build" => ops_pure::relocs_build(rest),
		"img" => ops_img::img(st, rest),
		"from_bytes" => ops_img::from_bytes(st, rest),
		"hdr" => ops_img::hdr(st, rest),
		"hdrw" => ops_img::hdrw(st, rest),
		"r2f" | "f2r" | "r2v" | "v2r" => ops_img::addr(st, fam, rest),
		"slice" => ops_img::slice(st, rest),
		"read" => ops_img::read(st, rest),
		"secbytes" => ops_img::secbytes(st, rest),
		"byrva" | "byname" => ops_img::bysec(st, fam, rest),
		_ => "bad-op".to_string(),
	}
}

fn main() {
	panic::set_hook(Box::new(|info| {
		let loc = info.location().map(|l| format!("{}:{}", l.file(), l.line())).unwrap_or_default();
		let msg = if let Some(s) = info.payload().downcast_ref::<&str>() { s.to_string() } else if let Some(s) = info.payload().downcast_ref::<String>() { s.clone() } else { String::new() };
		let msg: String = msg.chars().take(80).map(|c| if c == '\n' { ' ' } else { c }).collect();
		LAST_PANIC.with(|p| *p.borrow_mut() = format!("@{} {}", loc, msg));
	}));
	let stdin = io::stdin();
	let stdout = io::stdout();
	let mut st = State { img: None };
	for line in stdin.lock().lines() {
		let line = line.expect("read");
		let line = line.trim_end();
		if line.is_empty() || line.starts_with('#') { continue; }
		let ans = match panic::catch_unwind(panic::AssertUnwindSafe(|| dispatch(&mut st, line))) {
			Ok(s) => s,
			Err(_) => format!("panic {}", LAST_PANIC.with(|p| p.borrow().clone())),
		};
		let mut o = stdout.lock();
		writeln!(o, "{}", ans).unwrap();
		o.flush().unwrap();
	}
}
