//! `to_view` / `to_file` (C06); `img_to_view` / `img_to_file` replace the current image by the result.
use crate::util::*;
use crate::State;

const CAP: u32 = 16 * 1024 * 1024;

fn convert(st: &State, fam: &str, k: &str) -> (Option<Vec<u8>>, String) {
	let g = match st.img.as_ref() { Some(g) => g, None => return (None, "noimg".to_string()) };
	let bytes = g.bytes();
	let to_view = fam == "to_view" || fam == "img_to_view";
	macro_rules! go {
		($ctor:path, $pe:ident, $conv:ident) => {{
			use pelite::$pe::Pe;
			match $ctor(bytes) {
				Ok(p) => {
					if p.optional_header().SizeOfImage > CAP { return (None, "toolarge".to_string()); }
					let out = p.$conv();
					let ans = format!("ok len={} fnv={}", out.len(), digest(&out));
					(Some(out), ans)
				},
				Err(e) => (None, format!("noimg {}", errname(e))),
			}
		}};
	}
	match (k, to_view) {
		("f32", true) => go!(pelite::pe32::PeFile::from_bytes, pe32, to_view),
		("f64", true) => go!(pelite::pe64::PeFile::from_bytes, pe64, to_view),
		("v32", false) => go!(pelite::pe32::PeView::from_bytes, pe32, to_file),
		("v64", false) => go!(pelite::pe64::PeView::from_bytes, pe64, to_file),
		_ => (None, "bad-op".to_string()),
	}
}

pub fn dispatch(st: &mut State, fam: &str, rest: &str) -> Option<String> {
	match fam {
		"to_view" | "to_file" => Some(convert(st, fam, rest.trim()).1),
		"img_to_view" | "img_to_file" => {
			let (out, ans) = convert(st, fam, rest.trim());
			if let Some(out) = out {
				st.img = None;
				st.img = Some(Guarded::new(&out, 0, true));
			}
			Some(ans)
		},
		_ => None,
	}
}
