//! Small directory decoders (C15): debug, TLS, load config, exception, security.
//!   debug <k> dump | tls <k> dump | loadcfg <k> dump | exc <k> dump | exc <k> lookup <pc> | security <k> dump | dirs_layout
//!   pogo_hist <hex> <history>
//! References print as off:len relative to the buffer, strings as hex, values decimal.
//! Sub-results inside a dump line: `off:len…` when ok, `!ErrorKind` when not.
use crate::ops_img::tref;
use crate::util::*;
use crate::State;
use pelite::image::*;
use pelite::pe64::debug::{CodeView, Entry};
use pelite::util::CStr;
use pelite::Wrap;
use std::mem::{align_of, offset_of, size_of};

fn er(e: pelite::Error) -> String { format!("err {}", errname(e)) }
fn cs(g: &Guarded, c: &CStr) -> String { let b = c.c_str(); g.rf(b.as_ptr(), b.len()) }
fn ob(g: &Guarded, d: Option<&[u8]>) -> String { match d { Some(b) => g.rf(b.as_ptr(), b.len()), None => "none".to_string() } }
fn rb(g: &Guarded, r: pelite::Result<&[u8]>) -> String { match r { Ok(b) => g.rf(b.as_ptr(), b.len()), Err(e) => format!("!{}", errname(e)) } }
fn r32(g: &Guarded, r: pelite::Result<&u32>) -> String { match r { Ok(x) => format!("{}={}", tref(g, x, 4), *x), Err(e) => format!("!{}", errname(e)) } }

fn entry_str(g: &Guarded, e: pelite::Result<Entry>) -> String {
	match e {
		Err(e) => format!("!{}", errname(e)),
		Ok(Entry::CodeView(cv)) => match cv {
			CodeView::Cv20 { image, .. } => format!("cv20(img={},sig={},off={},ts={},guid=none,age={},fmt={},name={})",
				tref(g, image, 16), image.CvSignature, image.Offset, image.TimeDateStamp, cv.age(), hex(cv.format().as_bytes()), cs(g, cv.pdb_file_name())),
			CodeView::Cv70 { image, .. } => {
				let sig: &GUID = &image.Signature;
				let guid = unsafe { std::slice::from_raw_parts(sig as *const GUID as *const u8, 16) };
				// (the GUID also as its `Display` text: the form a CodeView record's GUID is reported in)
				format!("cv70(img={},sig={},off=none,ts=none,guid={}={}:{},age={},fmt={},name={})",
					tref(g, image, 24), image.CvSignature, tref(g, sig, 16), hex(guid), hex(format!("{}", sig).as_bytes()), cv.age(), hex(cv.format().as_bytes()), cs(g, cv.pdb_file_name()))
			},
		},
		Ok(Entry::Dbg(d)) => { let im = d.image(); format!("dbg(img={},dt={},len={},uni={})", tref(g, im, 12), im.DataType, im.Length, im.Unicode) },
		Ok(Entry::Pgo(pgo)) => {
			let im = pgo.image();
			let items: Vec<String> = pgo.into_iter().map(|it| format!("{}:{}:{}", it.rva, it.size, cs(g, it.name))).collect();
			format!("pgo(img={},[{}])", tref(g, im.as_ptr(), im.len() * 4), items.join(","))
		},
		Ok(Entry::Unknown(d)) => format!("unk({})", ob(g, d)),
	}
}

fn dir_str(g: &Guarded, im: &IMAGE_DEBUG_DIRECTORY, data: Option<&[u8]>, entry: pelite::Result<Entry>) -> String {
	format!("{{hdr={} ch={} ts={} ver={}.{} ty={} sz={} aord={} ptr={} data={} entry={}}}",
		tref(g, im, 28), im.Characteristics, im.TimeDateStamp, im.Version.Major, im.Version.Minor, im.Type, im.SizeOfData,
		im.AddressOfRawData, im.PointerToRawData, ob(g, data), entry_str(g, entry))
}

fn debug_dump(st: &State, k: &str) -> String {
	with_any!(st, k, g, p => {
		match p.debug() {
			Err(e) => er(e),
			Ok(dbg) => {
				let im = dbg.image();
				let pdb = match dbg.pdb_file_name() { Some(c) => cs(g, c), None => "none".to_string() };
				let mut ents = Vec::new();
				for dir in dbg { ents.push(dir_str(g, dir.image(), dir.data(), dir.entry())); }
				format!("ok dir={} n={} pdb={} [{}]", tref(g, im.as_ptr(), im.len() * 28), im.len(), pdb, ents.join(";"))
			},
		}
	})
}

trait Desc { fn desc(&self, g: &Guarded) -> String; }
impl<'a> Desc for &'a IMAGE_TLS_DIRECTORY32 {
	fn desc(&self, g: &Guarded) -> String { format!("img={} start={} end={} index={} cb={} zero={} chars={}", tref(g, *self, 24), self.StartAddressOfRawData, self.EndAddressOfRawData, self.AddressOfIndex, self.AddressOfCallBacks, self.SizeOfZeroFill, self.Characteristics) }
}
impl<'a> Desc for &'a IMAGE_TLS_DIRECTORY64 {
	fn desc(&self, g: &Guarded) -> String { format!("img={} start={} end={} index={} cb={} zero={} chars={}", tref(g, *self, 40), self.StartAddressOfRawData, self.EndAddressOfRawData, self.AddressOfIndex, self.AddressOfCallBacks, self.SizeOfZeroFill, self.Characteristics) }
}
impl<'a> Desc for &'a IMAGE_LOAD_CONFIG_DIRECTORY32 {
	fn desc(&self, g: &Guarded) -> String { format!("img={} size={} cookie_va={} table_va={} count={}", tref(g, *self, size_of::<IMAGE_LOAD_CONFIG_DIRECTORY32>()), self.Size, self.SecurityCookie, self.SEHandlerTable, self.SEHandlerCount) }
}
impl<'a> Desc for &'a IMAGE_LOAD_CONFIG_DIRECTORY64 {
	fn desc(&self, g: &Guarded) -> String { format!("img={} size={} cookie_va={} table_va={} count={}", tref(g, *self, size_of::<IMAGE_LOAD_CONFIG_DIRECTORY64>()), self.Size, self.SecurityCookie, self.SEHandlerTable, self.SEHandlerCount) }
}
impl<'a> Desc for &'a [u32] {
	fn desc(&self, g: &Guarded) -> String { format!("{}[{}]", tref(g, self.as_ptr(), self.len() * 4), self.iter().map(|x| x.to_string()).collect::<Vec<_>>().join(",")) }
}
impl<'a> Desc for &'a [u64] {
	fn desc(&self, g: &Guarded) -> String { format!("{}[{}]", tref(g, self.as_ptr(), self.len() * 8), self.iter().map(|x| x.to_string()).collect::<Vec<_>>().join(",")) }
}
impl<A: Desc, B: Desc> Desc for Wrap<A, B> {
	fn desc(&self, g: &Guarded) -> String { match self { Wrap::T32(a) => a.desc(g), Wrap::T64(b) => b.desc(g) } }
}
fn rd<T: Desc>(g: &Guarded, r: pelite::Result<T>) -> String { match r { Ok(x) => x.desc(g), Err(e) => format!("!{}", errname(e)) } }

fn tls_dump(st: &State, k: &str) -> String {
	with_any!(st, k, g, p => {
		match p.tls() {
			Err(e) => er(e),
			Ok(tls) => format!("ok {} raw={} slot={} cbs={}", tls.image().desc(g), rb(g, tls.raw_data()), r32(g, tls.slot()), rd(g, tls.callbacks())),
		}
	})
}

fn loadcfg_dump(st: &State, k: &str) -> String {
	with_any!(st, k, g, p => {
		match p.load_config() {
			Err(e) => er(e),
			Ok(lc) => format!("ok {} cookie={} table={}", lc.image().desc(g), r32(g, lc.security_cookie()), rd(g, lc.se_handler_table())),
		}
	})
}

fn exc_dump(st: &State, k: &str) -> String {
	with_specific!(st, k, g, p => {
		match p.exception() {
			Err(e) => er(e),
			Ok(exc) => {
				let im = exc.image();
				let mut fns = Vec::new();
				for f in exc.functions() {
					let rf = f.image();
					let uw = match f.unwind_info() {
						Err(e) => format!("!{}", errname(e)),
						Ok(ui) => { let c = ui.unwind_codes(); format!("{}(ver={},flags={},prolog={},freg={},foff={},codes={})", tref(g, ui.image(), 4), ui.version(), ui.flags(), ui.size_of_prolog(), ui.frame_register(), ui.frame_offset(), tref(g, c.as_ptr(), c.len() * 2)) },
					};
					fns.push(format!("{{rf={} {}:{}:{} bytes={} uw={}}}", tref(g, rf, 12), rf.BeginAddress, rf.EndAddress, rf.UnwindData, rb(g, f.bytes()), uw));
				}
				format!("ok img={} n={} sorted={} [{}]", tref(g, im.as_ptr(), im.len() * 12), im.len(), exc.check_sorted() as u8, fns.join(";"))
			},
		}
	})
}

fn exc_lookup(st: &State, k: &str, pc: u32) -> String {
	with_specific!(st, k, g, p => {
		match p.exception() {
			Err(e) => er(e),
			Ok(exc) => {
				let f = match exc.lookup_function_entry(pc) { Some(f) => tref(g, f.image(), 12), None => "none".to_string() };
				match exc.index_of(pc) { Ok(i) => format!("ok found={} fn={}", i, f), Err(i) => format!("ok notfound={} fn={}", i, f) }
			},
		}
	})
}

fn security_dump(st: &State, k: &str) -> String {
	with_any!(st, k, g, p => {
		match p.security() {
			Err(e) => er(e),
			Ok(sec) => {
				let im = sec.image();
				let d = sec.certificate_data();
				format!("ok img={} len={} rev={} type={} data={}", tref(g, im, 8), im.dwLength, im.wRevision, sec.certificate_type(), g.rf(d.as_ptr(), d.len()))
			},
		}
	})
}

/// size_of / align_of / offset_of of the structs whose layout the model hard-codes (Model/Dirs.lean)
fn layout() -> String {
	type T32 = IMAGE_TLS_DIRECTORY32; type T64 = IMAGE_TLS_DIRECTORY64;
	type L32 = IMAGE_LOAD_CONFIG_DIRECTORY32; type L64 = IMAGE_LOAD_CONFIG_DIRECTORY64;
	type D = IMAGE_DEBUG_DIRECTORY;
	format!("ok tls32={}/{}:{}:{}:{}:{}:{}:{} tls64={}/{}:{}:{}:{}:{}:{}:{} lc32={}/{}:{}:{}:{} lc64={}/{}:{}:{}:{} dbg={}/{}:{}:{}:{}:{}:{}:{}:{}:{}:{} cv20={}/{}:{}:{}:{} cv70={}/{}:{}:{} misc={}/{}:{}:{}:{} rf={}/{}:{}:{}:{} uw={}/{}:{}:{}:{}:{} uc={}/{} cert={}/{}:{}:{}:{}:{} va32={}/{} va64={}/{}",
		size_of::<T32>(), align_of::<T32>(), offset_of!(T32, StartAddressOfRawData), offset_of!(T32, EndAddressOfRawData), offset_of!(T32, AddressOfIndex), offset_of!(T32, AddressOfCallBacks), offset_of!(T32, SizeOfZeroFill), offset_of!(T32, Characteristics),
		size_of::<T64>(), align_of::<T64>(), offset_of!(T64, StartAddressOfRawData), offset_of!(T64, EndAddressOfRawData), offset_of!(T64, AddressOfIndex), offset_of!(T64, AddressOfCallBacks), offset_of!(T64, SizeOfZeroFill), offset_of!(T64, Characteristics),
		size_of::<L32>(), align_of::<L32>(), offset_of!(L32, SecurityCookie), offset_of!(L32, SEHandlerTable), offset_of!(L32, SEHandlerCount),
		size_of::<L64>(), align_of::<L64>(), offset_of!(L64, SecurityCookie), offset_of!(L64, SEHandlerTable), offset_of!(L64, SEHandlerCount),
		size_of::<D>(), align_of::<D>(), offset_of!(D, Characteristics), offset_of!(D, TimeDateStamp), offset_of!(D, Version) + offset_of!(IMAGE_VERSION<u16>, Major), offset_of!(D, Version) + offset_of!(IMAGE_VERSION<u16>, Minor), offset_of!(D, Type), offset_of!(D, SizeOfData), offset_of!(D, AddressOfRawData), offset_of!(D, PointerToRawData), IMAGE_DEBUG_TYPE_CODEVIEW * 10000 + IMAGE_DEBUG_TYPE_MISC * 100 + IMAGE_DEBUG_TYPE_POGO,
		size_of::<IMAGE_DEBUG_CV_INFO_PDB20>(), align_of::<IMAGE_DEBUG_CV_INFO_PDB20>(), offset_of!(IMAGE_DEBUG_CV_INFO_PDB20, Offset), offset_of!(IMAGE_DEBUG_CV_INFO_PDB20, TimeDateStamp), offset_of!(IMAGE_DEBUG_CV_INFO_PDB20, Age),
		size_of::<IMAGE_DEBUG_CV_INFO_PDB70>(), align_of::<IMAGE_DEBUG_CV_INFO_PDB70>(), offset_of!(IMAGE_DEBUG_CV_INFO_PDB70, Signature), offset_of!(IMAGE_DEBUG_CV_INFO_PDB70, Age),
		size_of::<IMAGE_DEBUG_MISC>(), align_of::<IMAGE_DEBUG_MISC>(), offset_of!(IMAGE_DEBUG_MISC, DataType), offset_of!(IMAGE_DEBUG_MISC, Length), offset_of!(IMAGE_DEBUG_MISC, Unicode),
		size_of::<RUNTIME_FUNCTION>(), align_of::<RUNTIME_FUNCTION>(), offset_of!(RUNTIME_FUNCTION, BeginAddress), offset_of!(RUNTIME_FUNCTION, EndAddress), offset_of!(RUNTIME_FUNCTION, UnwindData),
		size_of::<UNWIND_INFO>(), align_of::<UNWIND_INFO>(), offset_of!(UNWIND_INFO, VersionFlags), offset_of!(UNWIND_INFO, SizeOfProlog), offset_of!(UNWIND_INFO, CountOfCodes), offset_of!(UNWIND_INFO, FrameRegisterOffset),
		size_of::<UNWIND_CODE>(), align_of::<UNWIND_CODE>(),
		size_of::<WIN_CERTIFICATE>(), align_of::<WIN_CERTIFICATE>(), offset_of!(WIN_CERTIFICATE, dwLength), offset_of!(WIN_CERTIFICATE, wRevision), offset_of!(WIN_CERTIFICATE, wCertificateType), offset_of!(WIN_CERTIFICATE, bCertificate),
		size_of::<pelite::pe32::Va>(), align_of::<pelite::pe32::Va>(), size_of::<pelite::pe64::Va>(), align_of::<pelite::pe64::Va>())
}

/// pogo_hist <hex> <history>   history = comma list of next | nth:K | count | hint | clone (as relocs_hist):
/// the calls run on the `PgoIter` of a `Pgo` over the data (whole dwords, dword aligned, flush against the guard page)
fn pogo_hist(rest: &str) -> String {
	use pelite::pe64::debug::{Pgo, PgoItem};
	let a: Vec<&str> = rest.trim().split(' ').collect();
	if a.len() != 2 { return "bad-op".to_string(); }
	let raw = unhex(a[0]);
	let n = raw.len() / 4 * 4;
	let g = Guarded::new(&raw[..n], (16 - n % 16) % 16, true);
	let bytes = g.bytes();
	let image: &[u32] = unsafe { std::slice::from_raw_parts(bytes.as_ptr() as *const u32, n / 4) };
	let pgo = Pgo { image };
	let fmt = |it: &PgoItem| format!("{}:{}:{}", it.rva, it.size, cs(&g, it.name));
	let item = |o: Option<PgoItem>| o.map(|it| fmt(&it)).unwrap_or_else(|| "None".to_string());
	let mut it = pgo.iter();
	let mut res = Vec::new();
	for h in a[1].split(',') {
		match h {
			"next" => res.push(item(it.next())),
			"count" => res.push(it.clone().count().to_string()),
			"hint" => { let (lo, hi) = it.size_hint(); res.push(format!("{}..{}", lo, hi.map_or("None".to_string(), |h| h.to_string()))); },
			"clone" => { it = it.clone(); res.push(format!("[{}]", it.clone().map(|x| fmt(&x)).collect::<Vec<_>>().join(","))); },
			_ if h.starts_with("nth:") => res.push(item(it.nth(num(&h[4..]) as usize))),
			_ => {},
		}
	}
	// fused: drain, then keep asking
	let mut k = 0usize;
	while it.next().is_some() { k += 1; if k > n + 2 { return "diverge".to_string(); } }
	let fused = it.next().is_none() && it.next().is_none();
	format!("ok {} fused={}", res.join(";"), fused as u8)
}

pub fn dispatch(st: &mut State, fam: &str, rest: &str) -> Option<String> {
	let a: Vec<&str> = rest.split(' ').collect();
	Some(match (fam, a.len()) {
		("debug", 2) if a[1] == "dump" => debug_dump(st, a[0]),
		("tls", 2) if a[1] == "dump" => tls_dump(st, a[0]),
		("loadcfg", 2) if a[1] == "dump" => loadcfg_dump(st, a[0]),
		("exc", 2) if a[1] == "dump" => exc_dump(st, a[0]),
		("exc", 3) if a[1] == "lookup" => exc_lookup(st, a[0], num(a[2]) as u32),
		("security", 2) if a[1] == "dump" => security_dump(st, a[0]),
		("dirs_layout", _) => layout(),
		("pogo_hist", _) => pogo_hist(rest),
		("debug", _) | ("tls", _) | ("loadcfg", _) | ("exc", _) | ("security", _) => "bad-op".to_string(),
		_ => return None,
	})
}
