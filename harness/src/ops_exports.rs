//! Export directory (C08): `exports <k> dump`, `exports <k> by` and `export <k> <query> <args…>` on
//! the current image.
//! Everything goes through `with_any!` (format specific types and the `Wrap` API under the same
//! method names) except `proc`, which the wrappers do not offer (`with_specific!`).
//! `exports <k> by`: `image()` / `dll_name()` / `ordinal_base()` called on the `By` (format specific:
//! through `Deref<Target = Exports>`; `wf` / `wv`: the wrapper's own `By::{image, dll_name, ordinal_base}`).
//! `export <k> symfwd <index|ordinal|hint|name> <arg>`: the lookup, then `Export::symbol()` and
//! `Export::forward()` of its answer.
use crate::util::*;
use crate::State;
use pelite::pe64::imports::Import;
use pelite::util::CStr;
use pelite::pe64::exports::Export;

fn er(e: pelite::Error) -> String { format!("err {}", errname(e)) }
fn ec(e: pelite::Error) -> String { format!("err:{}", errname(e)) }

/// `Symbol(<rva>)@off:len` / `Forward(<hex>)@off:len`
fn exp(g: &Guarded, e: Export) -> String {
	match e {
		Export::Symbol(rva) => {
			let mis = if (rva as *const u32 as usize) % 4 != 0 { "!MISALIGNED" } else { "" };
			format!("Symbol({})@{}{}", *rva, g.rf(rva as *const u32 as *const u8, 4), mis)
		},
		Export::Forward(s) => { let b = s.c_str(); format!("Forward({})@{}", hex(s.as_ref()), g.rf(b.as_ptr(), b.len())) },
	}
}
fn rexp(g: &Guarded, r: pelite::Result<Export>) -> String {
	match r { Ok(e) => format!("ok {}", exp(g, e)), Err(e) => er(e) }
}
/// item form (no spaces): the export or `err:Kind`
fn iexp(g: &Guarded, r: pelite::Result<Export>) -> String {
	match r { Ok(e) => exp(g, e), Err(e) => ec(e) }
}
fn cstr(g: &Guarded, r: pelite::Result<&CStr>) -> String {
	match r { Ok(s) => { let b = s.c_str(); format!("{}@{}", hex(s.as_ref()), g.rf(b.as_ptr(), b.len())) }, Err(e) => ec(e) }
}
fn tab<T: Copy + Into<u64>>(g: &Guarded, t: &[T]) -> String {
	let mis = if (t.as_ptr() as usize) % std::mem::align_of::<T>() != 0 { "!MISALIGNED" } else { "" };
	let v: Vec<String> = t.iter().map(|&x| format!("{}", x.into())).collect();
	format!("[{}]@{}{}", v.join(","), g.rf(t.as_ptr() as *const u8, t.len() * std::mem::size_of::<T>()), mis)
}
fn rtab<T: Copy + Into<u64>>(g: &Guarded, r: pelite::Result<&[T]>) -> String {
	match r { Ok(t) => { let mis = if (t.as_ptr() as usize) % std::mem::align_of::<T>() != 0 { "!MISALIGNED" } else { "" };
		format!("{}{}", g.rf(t.as_ptr() as *const u8, t.len() * std::mem::size_of::<T>()), mis) }, Err(e) => ec(e) }
}
/// query name + NUL as a CStr (cut at the first NUL, like any C string argument)
fn with_nul(name: &[u8]) -> Vec<u8> { let mut v = name.to_vec(); v.push(0); v }

fn dump(st: &State, k: &str) -> String {
	with_any!(st, k, g, p => {
		match p.exports() {
			Err(e) => er(e),
			Ok(e) => {
				let im = e.image();
				let mis = if (im as *const _ as usize) % 4 != 0 { "!MISALIGNED" } else { "" };
				let mut s = format!("ok img={}{} dll={} base={} fns={} names={} idx={}",
					g.rf(im as *const _ as *const u8, 40), mis, cstr(g, e.dll_name()), e.ordinal_base(),
					rtab(g, e.functions()), rtab(g, e.names()), rtab(g, e.name_indices()));
				match e.by() {
					Err(e) => { s += &format!(" by={}", ec(e)); },
					Ok(by) => {
						let sorted = match by.check_sorted() { Ok(b) => format!("{}", b), Err(e) => ec(e) };
						s += &format!(" by=ok F={} N={} I={} sorted={}", tab(g, by.functions()), tab(g, by.names()), tab(g, by.name_indices()), sorted);
						let it: Vec<String> = by.iter().map(|r| iexp(g, r)).collect();
						s += &format!(" iter=[{}]", it.join(";"));
						let it: Vec<String> = by.iter_names().map(|(n, r)| format!("({},{})", cstr(g, n), iexp(g, r))).collect();
						s += &format!(" iter_names=[{}]", it.join(";"));
						let it: Vec<String> = by.iter_name_indices().map(|(n, i)| format!("({},{})", cstr(g, n), i)).collect();
						s += &format!(" iter_name_indices=[{}]", it.join(";"));
					},
				}
				s
			},
		}
	})
}

/// `exports <k> by`: the directory header, the library name and the ordinal base as the `By` hands them out
fn by_head(st: &State, k: &str) -> String {
	with_any!(st, k, g, p => {
		let by = match p.exports().and_then(|e| e.by()) { Ok(by) => by, Err(e) => return er(e) };
		let im = by.image();
		let mis = if (im as *const _ as usize) % 4 != 0 { "!MISALIGNED" } else { "" };
		format!("ok img={}{} dll={} base={}", g.rf(im as *const _ as *const u8, 40), mis, cstr(g, by.dll_name()), by.ordinal_base())
	})
}

/// `sym=some:<rva>|none fwd=some:<hex>@off:len|none`: `Export::symbol()` and `Export::forward()`
fn symfwd(g: &Guarded, r: pelite::Result<Export>) -> String {
	match r {
		Ok(e) => format!("ok sym={} fwd={}",
			match e.symbol() { Some(rva) => format!("some:{}", rva), None => "none".to_string() },
			match e.forward() { Some(s) => format!("some:{}", cstr(g, Ok(s))), None => "none".to_string() }),
		Err(e) => er(e),
	}
}

fn query(st: &State, a: &[&str]) -> String {
	let k = a[0];
	let q = a[1];
	let args = &a[2..];
	if q == "proc" {
		if args.len() < 2 { return "bad-op".to_string(); }
		let name = if args[0] == "name" { unhex(args[1]) } else if args[0] == "byname" && args.len() == 3 { with_nul(&unhex(args[2])) } else { Vec::new() };
		return with_specific!(st, k, g, p => {
			let _ = g;
			#[allow(unused_imports)] use pelite::pe32::exports::GetProcAddress as _;
			#[allow(unused_imports)] use pelite::pe64::exports::GetProcAddress as _;
			let r = match args[0] {
				"name" => p.get_proc_address(&name[..]),
				"ordinal" => p.get_proc_address(num(args[1]) as u16),
				"byname" => match CStr::from_bytes(&name) { Some(c) => p.get_proc_address(Import::ByName { hint: num(args[1]) as usize, name: c }), None => return "bad-op".to_string() },
				"byordinal" => p.get_proc_address(Import::ByOrdinal { ord: num(args[1]) as u16 }),
				_ => return "bad-op".to_string(),
			};
			match r { Ok(va) => format!("ok {}", va as u64), Err(e) => er(e) }
		});
	}
	if q == "get" {
		// get_export through the convenience trait (format specific) / get_export_by_* (wrappers)
		if args.len() < 2 { return "bad-op".to_string(); }
		let name = if args[0] == "name" { unhex(args[1]) } else if args[0] == "byname" && args.len() == 3 { with_nul(&unhex(args[2])) } else { Vec::new() };
		let kind = match k.find('@') { Some(i) => &k[..i], None => k };
		if kind == "wf" || kind == "wv" {
			let g = match st.img.as_ref() { Some(g) => g, None => return "noimg".to_string() };
			macro_rules! go { ($w:expr) => { match $w { Err(e) => format!("noimg {}", errname(e)), Ok(w) => {
				let r = match args[0] {
					"name" => w.get_export_by_name(&name[..]),
					"ordinal" => w.get_export_by_ordinal(num(args[1]) as u16),
					"byname" => match CStr::from_bytes(&name) { Some(c) => w.get_export_by_import(Import::ByName { hint: num(args[1]) as usize, name: c }), None => return "bad-op".to_string() },
					"byordinal" => w.get_export_by_import(Import::ByOrdinal { ord: num(args[1]) as u16 }),
					_ => return "bad-op".to_string(),
				};
				rexp(g, r)
			} } } }
			return if kind == "wf" { go!(pelite::PeFile::from_bytes(g.bytes())) } else { go!(pelite::PeView::from_bytes(g.bytes())) };
		}
		return with_specific!(st, k, g, p => {
			#[allow(unused_imports)] use pelite::pe32::exports::GetProcAddress as _;
			#[allow(unused_imports)] use pelite::pe64::exports::GetProcAddress as _;
			let r = match args[0] {
				"name" => p.get_export(&name[..]),
				"ordinal" => p.get_export(num(args[1]) as u16),
				"byname" => match CStr::from_bytes(&name) { Some(c) => p.get_export(Import::ByName { hint: num(args[1]) as usize, name: c }), None => return "bad-op".to_string() },
				"byordinal" => p.get_export(Import::ByOrdinal { ord: num(args[1]) as u16 }),
				_ => return "bad-op".to_string(),
			};
			rexp(g, r)
		});
	}
	with_any!(st, k, g, p => {
		let by = match p.exports().and_then(|e| e.by()) { Ok(by) => by, Err(e) => return er(e) };
		match (q, args.len()) {
			("ordinal", 1) => rexp(g, by.ordinal(num(args[0]) as u16)),
			("index", 1) => rexp(g, by.index(num(args[0]) as usize)),
			("hint", 1) => rexp(g, by.hint(num(args[0]) as usize)),
			("name", 1) => rexp(g, by.name(&unhex(args[0])[..])),
			("name_linear", 1) => rexp(g, by.name_linear(&unhex(args[0])[..])),
			("hint_name", 2) => rexp(g, by.hint_name(num(args[0]) as usize, &unhex(args[1])[..])),
			("import", 3) if args[0] == "byname" => { let n = with_nul(&unhex(args[2]));
				match CStr::from_bytes(&n) { Some(c) => rexp(g, by.import(Import::ByName { hint: num(args[1]) as usize, name: c })), None => "bad-op".to_string() } },
			("import", 2) if args[0] == "byordinal" => rexp(g, by.import(Import::ByOrdinal { ord: num(args[1]) as u16 })),
			("symfwd", 2) if args[0] == "ordinal" => symfwd(g, by.ordinal(num(args[1]) as u16)),
			("symfwd", 2) if args[0] == "index" => symfwd(g, by.index(num(args[1]) as usize)),
			("symfwd", 2) if args[0] == "hint" => symfwd(g, by.hint(num(args[1]) as usize)),
			("symfwd", 2) if args[0] == "name" => symfwd(g, by.name(&unhex(args[1])[..])),
			("name_of_hint", 1) => match by.name_of_hint(num(args[0]) as usize) { Ok(s) => format!("ok {}", cstr(g, Ok(s))), Err(e) => er(e) },
			("name_lookup", 1) => match by.name_lookup(num(args[0]) as usize) {
				Ok(Import::ByName { hint, name }) => format!("ok ByName({},{})", hint, cstr(g, Ok(name))),
				Ok(Import::ByOrdinal { ord }) => format!("ok ByOrdinal({})", ord),
				Err(e) => er(e) },
			_ => "bad-op".to_string(),
		}
	})
}

pub fn dispatch(st: &mut State, fam: &str, rest: &str) -> Option<String> {
	let a: Vec<&str> = rest.split(' ').collect();
	Some(match fam {
		"exports" if a.len() == 2 && a[1] == "dump" => dump(st, a[0]),
		"exports" if a.len() == 2 && a[1] == "by" => by_head(st, a[0]),
		"export" if a.len() >= 3 => query(st, &a),
		"exports" | "export" => "bad-op".to_string(),
		_ => return None,
	})
}
