//! `fields <STRUCT> <hex>`: the bytes copied into a value of the named struct of `pelite::image` and every field read
//! back through its NAME (code generated from the current `src/image.rs` by vlib/layoutgen.py: `layout_all.rs`).
use crate::util::*;
use crate::State;

pub fn dispatch(_st: &mut State, fam: &str, rest: &str) -> Option<String> {
	if fam != "fields" { return None; }
	let a: Vec<&str> = rest.split(' ').collect();
	if a.len() != 2 { return Some("bad-op".to_string()); }
	let data = unhex(a[1]);
	Some(match crate::layout_all::fields_dump(a[0], &data) { Some(s) => format!("ok {}", s), None => "bad-op".to_string() })
}
