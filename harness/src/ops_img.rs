//! Operation families that work on the current image (`img` line) through a constructed view.
//! `k` selects the constructor: f32 f64 v32 v64 (format specific), wf wv (format agnostic wrappers);
//! views accept an overridden base address as `v64@<base>`.
use crate::util::*;
use crate::State;
use pelite::Wrap;

/// Expands `$body` once per concrete view type; `$p` is the constructed view.
/// Only methods that exist under the same name on all six types may be used in `$body`.
#[macro_export]
macro_rules! with_any {
	($st:expr, $k:expr, $g:ident, $p:ident => $body:expr) => {{
		match $st.img.as_ref() { None => "noimg".to_string(), Some($g) => {
		let bytes = $g.bytes();
		let (kind, base) = match $k.find('@') { Some(i) => (&$k[..i], Some($crate::util::num(&$k[i + 1..]))), None => (&$k[..], None) };
		#[allow(unused_variables)] let base: Option<u64> = base;
		match kind {
			"f32" => match pelite::pe32::PeFile::from_bytes(bytes) { Ok($p) => { #[allow(unused_imports)] use pelite::pe32::{Pe, PeObject}; #[allow(dead_code)] type VaT = u32; $body }, Err(e) => format!("noimg {}", $crate::util::errname(e)) },
			"f64" => match pelite::pe64::PeFile::from_bytes(bytes) { Ok($p) => { #[allow(unused_imports)] use pelite::pe64::{Pe, PeObject}; #[allow(dead_code)] type VaT = u64; $body }, Err(e) => format!("noimg {}", $crate::util::errname(e)) },
			"v32" => match pelite::pe32::PeView::from_bytes(bytes) { Ok($p) => { #[allow(unused_imports)] use pelite::pe32::{Pe, PeObject}; #[allow(dead_code)] type VaT = u32; let $p = match base { Some(b) => $p.set_base_address(b as u32), None => $p }; $body }, Err(e) => format!("noimg {}", $crate::util::errname(e)) },
			"v64" => match pelite::pe64::PeView::from_bytes(bytes) { Ok($p) => { #[allow(unused_imports)] use pelite::pe64::{Pe, PeObject}; #[allow(dead_code)] type VaT = u64; let $p = match base { Some(b) => $p.set_base_address(b), None => $p }; $body }, Err(e) => format!("noimg {}", $crate::util::errname(e)) },
			"wf" => match pelite::PeFile::from_bytes(bytes) { Ok($p) => { $body }, Err(e) => format!("noimg {}", $crate::util::errname(e)) },
			"wv" => match pelite::PeView::from_bytes(bytes) { Ok($p) => { $body }, Err(e) => format!("noimg {}", $crate::util::errname(e)) },
			_ => "bad-op".to_string(),
		} } }
	}};
}

/// Like `with_any` but the wrappers are unwrapped first: `$body` sees a format specific view
/// (for the part of the API the wrappers do not offer).
#[macro_export]
macro_rules! with_specific {
	($st:expr, $k:expr, $g:ident, $p:ident => $body:expr) => {{
		match $st.img.as_ref() { None => "noimg".to_string(), Some($g) => {
		let bytes = $g.bytes();
		let (kind, base) = match $k.find('@') { Some(i) => (&$k[..i], Some($crate::util::num(&$k[i + 1..]))), None => (&$k[..], None) };
		#[allow(unused_variables)] let base: Option<u64> = base;
		match kind {
			"f32" => match pelite::pe32::PeFile::from_bytes(bytes) { Ok($p) => { #[allow(unused_imports)] use pelite::pe32::{Pe, PeObject}; #[allow(dead_code)] type VaT = u32; $body }, Err(e) => format!("noimg {}", $crate::util::errname(e)) },
			"f64" => match pelite::pe64::PeFile::from_bytes(bytes) { Ok($p) => { #[allow(unused_imports)] use pelite::pe64::{Pe, PeObject}; #[allow(dead_code)] type VaT = u64; $body }, Err(e) => format!("noimg {}", $crate::util::errname(e)) },
			"v32" => match pelite::pe32::PeView::from_bytes(bytes) { Ok($p) => { #[allow(unused_imports)] use pelite::pe32::{Pe, PeObject}; #[allow(dead_code)] type VaT = u32; let $p = match base { Some(b) => $p.set_base_address(b as u32), None => $p }; $body }, Err(e) => format!("noimg {}", $crate::util::errname(e)) },
			"v64" => match pelite::pe64::PeView::from_bytes(bytes) { Ok($p) => { #[allow(unused_imports)] use pelite::pe64::{Pe, PeObject}; #[allow(dead_code)] type VaT = u64; let $p = match base { Some(b) => $p.set_base_address(b), None => $p }; $body }, Err(e) => format!("noimg {}", $crate::util::errname(e)) },
			"wf" => match pelite::PeFile::from_bytes(bytes) {
				Ok(pelite::Wrap::T32($p)) => { #[allow(unused_imports)] use pelite::pe32::{Pe, PeObject}; #[allow(dead_code)] type VaT = u32; $body },
				Ok(pelite::Wrap::T64($p)) => { #[allow(unused_imports)] use pelite::pe64::{Pe, PeObject}; #[allow(dead_code)] type VaT = u64; $body },
				Err(e) => format!("noimg {}", $crate::util::errname(e)) },
			"wv" => match pelite::PeView::from_bytes(bytes) {
				Ok(pelite::Wrap::T32($p)) => { #[allow(unused_imports)] use pelite::pe32::{Pe, PeObject}; #[allow(dead_code)] type VaT = u32; $body },
				Ok(pelite::Wrap::T64($p)) => { #[allow(unused_imports)] use pelite::pe64::{Pe, PeObject}; #[allow(dead_code)] type VaT = u64; $body },
				Err(e) => format!("noimg {}", $crate::util::errname(e)) },
			_ => "bad-op".to_string(),
		} } }
	}};
}

pub fn rs(g: &Guarded, r: pelite::Result<&[u8]>) -> String {
	match r { Ok(b) => format!("ok {}", g.rf(b.as_ptr(), b.len())), Err(e) => format!("err {}", errname(e)) }
}
/// reference to a typed object: offset:len plus a marker when it is not aligned for its type
pub fn tref<T>(g: &Guarded, p: *const T, bytes: usize) -> String {
	let mis = if (p as usize) % std::mem::align_of::<T>() != 0 { "!MISALIGNED" } else { "" };
	format!("{}{}", g.rf(p as *const u8, bytes), mis)
}

/// img <align16> <s|e> <hex>
pub fn img(st: &mut State, rest: &str) -> String {
	let a: Vec<&str> = rest.split(' ').collect();
	let data = unhex(a[2]);
	st.img = None;
	st.img = Some(Guarded::new(&data, num(a[0]) as usize, a[1] == "e"));
	"ok".to_string()
}

/// from_bytes <k>
pub fn from_bytes(st: &State, rest: &str) -> String {
	let k = rest.trim();
	let g = match st.img.as_ref() { Some(g) => g, None => return "noimg".to_string() };
	let bytes = g.bytes();
	let r = match k {
		"f32" => pelite::pe32::PeFile::from_bytes(bytes).map(|_| "32"),
		"f64" => pelite::pe64::PeFile::from_bytes(bytes).map(|_| "64"),
		"v32" => pelite::pe32::PeView::from_bytes(bytes).map(|_| "32"),
		"v64" => pelite::pe64::PeView::from_bytes(bytes).map(|_| "64"),
		"wf" => pelite::PeFile::from_bytes(bytes).map(|w| match w { Wrap::T32(_) => "32", Wrap::T64(_) => "64" }),
		"wv" => pelite::PeView::from_bytes(bytes).map(|w| match w { Wrap::T32(_) => "32", Wrap::T64(_) => "64" }),
		_ => return "bad-op".to_string(),
	};
	match r { Ok(s) => format!("ok {}", s), Err(e) => format!("err {}", errname(e)) }
}

/// hdr <k> : every header accessor as a reference + the derived values
pub fn hdr(st: &State, rest: &str) -> String {
	let k = rest.trim();
	with_specific!(st, k, g, p => {
		let dos = p.dos_header();
		let di = p.dos_image();
		let nt = p.nt_headers();
		let fh = p.file_header();
		let oh = p.optional_header();
		let dd = p.data_directory();
		let sh = p.section_headers().image();
		let h = p.headers();
		let hi = h.image();
		let cr = h.code_range();
		let ir = h.image_range();
		format!("ok dos={} dosimg={} nt={} fh={} opt={} dd={} sec={} himg={} csum={} code={}..{} image={}..{} base={}",
			tref(g, dos, 64), g.rf(di.as_ptr(), di.len()), tref(g, nt, std::mem::size_of_val(nt)), tref(g, fh, 20), tref(g, oh, std::mem::size_of_val(oh)),
			tref(g, dd.as_ptr(), dd.len() * 8), tref(g, sh.as_ptr(), sh.len() * 40), g.rf(hi.as_ptr(), hi.len()),
			h.check_sum(), cr.start, cr.end, ir.start, ir.end, p.image_base() as u64)
	})
}

/// hdrw <k> : the same through the wrapper API (only what the wrappers offer)
pub fn hdrw(st: &State, rest: &str) -> String {
	let k = rest.trim();
	with_any!(st, k, g, p => {
		let dos = p.dos_header();
		let di = p.dos_image();
		let fh = p.file_header();
		let dd = p.data_directory();
		let sh = p.section_headers().image();
		format!("ok dos={} dosimg={} fh={} dd={} sec={}",
			tref(g, dos, 64), g.rf(di.as_ptr(), di.len()), tref(g, fh, 20),
			tref(g, dd.as_ptr(), dd.len() * 8), tref(g, sh.as_ptr(), sh.len() * 40))
	})
}

fn ru64<T: Into<u64>>(r: pelite::Result<T>) -> String {
	match r { Ok(v) => format!("ok {}", v.into()), Err(e) => format!("err {}", errname(e)) }
}

/// r2f <k> <rva> | f2r <k> <off> | r2v <k> <rva> | v2r <k> <va>
pub fn addr(st: &State, fam: &str, rest: &str) -> String {
	let a: Vec<&str> = rest.split(' ').collect();
	let (k, x) = (a[0], num(a[1]));
	with_specific!(st, k, g, p => {
		let _ = g;
		match fam {
			"r2f" => ru64(p.rva_to_file_offset(x as u32).map(|v| v as u64)),
			"f2r" => ru64(p.file_offset_to_rva(x as usize)),
			"r2v" => ru64(p.rva_to_va(x as u32).map(|v| v as u64)),
			"v2r" => ru64(p.va_to_rva(x as _)),
			_ => "bad-op".to_string(),
		}
	})
}

/// slice <k> <rva> <min> <align>
pub fn slice(st: &State, rest: &str) -> String {
	let a: Vec<&str> = rest.split(' ').collect();
	let (k, rva, min, al) = (a[0], num(a[1]) as u32, num(a[2]) as usize, num(a[3]) as usize);
	with_any!(st, k, g, p => rs(g, p.slice(rva, min, al)))
}
/// read <k> <va> <min> <align>
pub fn read(st: &State, rest: &str) -> String {
	let a: Vec<&str> = rest.split(' ').collect();
	let (k, va, min, al) = (a[0], num(a[1]), num(a[2]) as usize, num(a[3]) as usize);
	with_specific!(st, k, g, p => rs(g, p.read(va as _, min, al)))
}
/// secbytes <k> <index>
pub fn secbytes(st: &State, rest: &str) -> String {
	let a: Vec<&str> = rest.split(' ').collect();
	let (k, i) = (a[0], num(a[1]) as usize);
	with_any!(st, k, g, p => {
		match p.section_headers().image().get(i) { Some(s) => rs(g, p.get_section_bytes(s)), None => "nosec".to_string() }
	})
}
/// byrva <k> <rva> ; byname <k> <hexname>
pub fn bysec(st: &State, fam: &str, rest: &str) -> String {
	let a: Vec<&str> = rest.split(' ').collect();
	let k = a[0];
	with_any!(st, k, g, p => {
		let _ = g;
		let sh = p.section_headers();
		let r = if fam == "byrva" { sh.by_rva(num(a[1]) as u32) } else { sh.by_name(&unhex(a[1])[..]) };
		match r {
			Some(s) => { let idx = (s as *const _ as usize - sh.image().as_ptr() as usize) / 40; format!("ok {}", idx) },
			None => "none".to_string(),
		}
	})
}

pub fn dispatch(st: &mut State, fam: &str, rest: &str) -> Option<String> {
	Some(match fam {
		"from_bytes" => from_bytes(st, rest),
		"hdr" => hdr(st, rest),
		"hdrw" => hdrw(st, rest),
		"r2f" | "f2r" | "r2v" | "v2r" => addr(st, fam, rest),
		"slice" => slice(st, rest),
		"read" => read(st, rest),
		"secbytes" => secbytes(st, rest),
		"byrva" | "byname" => bysec(st, fam, rest),
		_ => return None,
	})
}
