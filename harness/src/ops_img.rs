//! Operation families that work on the current image (`img` line) through a constructed view.
//! `k` selects the constructor: f32 f64 v32 v64 (format specific), wf wv (format agnostic wrappers);
//! views accept an overridden base address as `v64@<base>`.
use crate::util::*;
use crate::State;
use pelite::Wrap;

/// Expands `$body` once per concrete view type; `$p` is the constructed view.
/// Only methods that exist under the same name on all six types may be used in `$body`.
#[macro_export]
macro_rules! with_any {
	($st:expr, $k:expr, $g:ident, $p:ident => $body:expr) => {{
		match $st.img.as_ref() { None => "noimg".to_string(), Some($g) => {
		let bytes = $g.bytes();
		let (kind, base) = match $k.find('@') { Some(i) => (&$k[..i], Some($crate::util::num(&$k[i + 1..]))), None => (&$k[..], None) };
		#[allow(unused_variables)] let base: Option<u64> = base;
		match kind {
			"f32" => match pelite::pe32::PeFile::from_bytes(bytes) { Ok($p) => { #[allow(unused_imports)] use pelite::pe32::{Pe, PeObject}; #[allow(dead_code)] type VaT = u32; $body }, Err(e) => format!("noimg {}", $crate::util::errname(e)) },
			"f64" => match pelite::pe64::PeFile::from_bytes(bytes) { Ok($p) => { #[allow(unused_imports)] use pelite::pe64::{Pe, PeObject}; #[allow(dead_code)] type VaT = u64; $body }, Err(e) => format!("noimg {}", $crate::util::errname(e)) },
			"v32" => match pelite::pe32::PeView::from_bytes(bytes) { Ok($p) => { #[allow(unused_imports)] use pelite::pe32::{Pe, PeObject}; #[allow(dead_code)] type VaT = u32; let $p = match base { Some(b) => $p.set_base_address(b as u32), None => $p }; $body }, Err(e) => format!("noimg {}", $crate::util::errname(e)) },
			"v64" => match pelite::pe64::PeView::from_bytes(bytes) { Ok($p) => { #[allow(unused_imports)] use pelite::pe64::{Pe, PeObject}; #[allow(dead_code)] type VaT = u64; let $p = match base { Some(b) => $p.set_base_address(b), None => $p }; $body }, Err(e) => format!("noimg {}", $crate::util::errname(e)) },
			"wf" => match pelite::PeFile::from_bytes(bytes) { Ok($p) => { $body }, Err(e) => format!("noimg {}", $crate::util::errname(e)) },
			"wv" => match pelite::PeView::from_bytes(bytes) { Ok($p) => { $body }, Err(e) => format!("noimg {}", $crate::util::errname(e)) },
			_ => "bad-op".to_string(),
		} } }
	}};
}

/// Like `with_any` but the wrappers are unwrapped first: `$body` sees a format specific view
/// (for the part of the API the wrappers do not offer).
#[macro_export]
macro_rules! with_specific {
	($st:expr, $k:expr, $g:ident, $p:ident => $body:expr) => {{
		match $st.img.as_ref() { None => "noimg".to_string(), Some($g) => {
		let bytes = $g.bytes();
		let (kind, base) = match $k.find('@') { Some(i) => (&$k[..i], Some($crate::util::num(&$k[i + 1..]))), None => (&$k[..], None) };
		#[allow(unused_variables)] let base: Option<u64> = base;
		match kind {
			"f32" => match pelite::pe32::PeFile::from_bytes(bytes) { Ok($p) => { #[allow(unused_imports)] use pelite::pe32::{Pe, PeObject}; #[allow(dead_code)] type VaT = u32; $body }, Err(e) => format!("noimg {}", $crate::util::errname(e)) },
			"f64" => match pelite::pe64::PeFile::from_bytes(bytes) { Ok($p) => { #[allow(unused_imports)] use pelite::pe64::{Pe, PeObject}; #[allow(dead_code)] type VaT = u64; $body }, Err(e) => format!("noimg {}", $crate::util::errname(e)) },
			"v32" => match pelite::pe32::PeView::from_bytes(bytes) { Ok($p) => { #[allow(unused_imports)] use pelite::pe32::{Pe, PeObject}; #[allow(dead_code)] type VaT = u32; let $p = match base { Some(b) => $p.set_base_address(b as u32), None => $p }; $body }, Err(e) => format!("noimg {}", $crate::util::errname(e)) },
			"v64" => match pelite::pe64::PeView::from_bytes(bytes) { Ok($p) => { #[allow(unused_imports)] use pelite::pe64::{Pe, PeObject}; #[allow(dead_code)] type VaT = u64; let $p = match base { Some(b) => $p.set_base_address(b), None => $p }; $body }, Err(e) => format!("noimg {}", $crate::util::errname(e)) },
			"wf" => match pelite::PeFile::from_bytes(bytes) {
				Ok(pelite::Wrap::T32($p)) => { #[allow(unused_imports)] use pelite::pe32::{Pe, PeObject}; #[allow(dead_code)] type VaT = u32; $body },
				Ok(pelite::Wrap::T64($p)) => { #[allow(unused_imports)] use pelite::pe64::{Pe, PeObject}; #[allow(dead_code)] type VaT = u64; $body },
				Err(e) => format!("noimg {}", $crate::util::errname(e)) },
			"wv" => match pelite::PeView::from_bytes(bytes) {
				Ok(pelite::Wrap::T32($p)) => { #[allow(unused_imports)] use pelite::pe32::{Pe, PeObject}; #[allow(dead_code)] type VaT = u32; $body },
				Ok(pelite::Wrap::T64($p)) => { #[allow(unused_imports)] use pelite::pe64::{Pe, PeObject}; #[allow(dead_code)] type VaT = u64; $body },
				Err(e) => format!("noimg {}", $crate::util::errname(e)) },
			_ => "bad-op".to_string(),
		} } }
	}};
}

pub fn rs(g: &Guarded, r: pelite::Result<&[u8]>) -> String {
	match r { Ok(b) => format!("ok {}", g.rf(b.as_ptr(), b.len())), Err(e) => format!("err {}", errname(e)) }
}
/// reference to a typed object: offset:len plus a marker when it is not aligned for its type
pub fn tref<T>(g: &Guarded, p: *const T, bytes: usize) -> String {
	let mis = if (p as usize) % std::mem::align_of::<T>() != 0 { "!MISALIGNED" } else { "" };
	format!("{}{}", g.rf(p as *const u8, bytes), mis)
}

/// img <align16> <s|e> <hex>
pub fn img(st: &mut State, rest: &str) -> String {
	let a: Vec<&str> = rest.split(' ').collect();
	let data = unhex(a[2]);
	st.img = None;
	st.img = Some(Guarded::new(&data, num(a[0]) as usize, a[1] == "e"));
	"ok".to_string()
}

/// from_bytes <k>
pub fn from_bytes(st: &State, rest: &str) -> String {
	let k = rest.trim();
	let g = match st.img.as_ref() { Some(g) => g, None => return "noimg".to_string() };
	let bytes = g.bytes();
	let r = match k {
		"f32" => pelite::pe32::PeFile::from_bytes(bytes).map(|_| "32"),
		"f64" => pelite::pe64::PeFile::from_bytes(bytes).map(|_| "64"),
		"v32" => pelite::pe32::PeView::from_bytes(bytes).map(|_| "32"),
		"v64" => pelite::pe64::PeView::from_bytes(bytes).map(|_| "64"),
		"wf" => pelite::PeFile::from_bytes(bytes).map(|w| match w { Wrap::T32(_) => "32", Wrap::T64(_) => "64" }),
		"wv" => pelite::PeView::from_bytes(bytes).map(|w| match w { Wrap::T32(_) => "32", Wrap::T64(_) => "64" }),
		_ => return "bad-op".to_string(),
	};
	match r { Ok(s) => format!("ok {}", s), Err(e) => format!("err {}", errname(e)) }
}

/// hdr <k> : every header accessor as a reference + the derived values
pub fn hdr(st: &State, rest: &str) -> String {
	let k = rest.trim();
	with_specific!(st, k, g, p => {
		let dos = p.dos_header();
		let di = p.dos_image();
		let nt = p.nt_headers();
		let fh = p.file_header();
		let oh = p.optional_header();
		let dd = p.data_directory();
		let sh = p.section_headers().image();
		let h = p.headers();
		let hi = h.image();
		let cr = h.code_range();
		let ir = h.image_range();
		// the same object as a `&dyn PeObject` trait object (the forwarding impl of pe.rs): image, alignment kind,
		// base and one address conversion have to be those of the object itself; a difference is appended to the answer
		fn via<'a, P: Pe<'a>>(p: P) -> (u64, usize, usize, bool, Option<u64>, Option<u32>) {
			let b = p.image_base();
			(b as u64, p.image().as_ptr() as usize, p.image().len(), match p.align() { pelite::Align::File => true, pelite::Align::Section => false },
				p.rva_to_va(0x10).ok().map(|v| v as u64), p.va_to_rva(b.wrapping_add(0x10)).ok())
		}
		let o: &dyn PeObject = &p;
		let dynflag = if via(o) == via(p) { "" } else { " DYN-OBJECT-DIFFERS" };
		format!("ok dos={} dosimg={} nt={} fh={} opt={} dd={} sec={} himg={} csum={} code={}..{} image={}..{} base={}{}",
			tref(g, dos, 64), g.rf(di.as_ptr(), di.len()), tref(g, nt, std::mem::size_of_val(nt)), tref(g, fh, 20), tref(g, oh, std::mem::size_of_val(oh)),
			tref(g, dd.as_ptr(), dd.len() * 8), tref(g, sh.as_ptr(), sh.len() * 40), g.rf(hi.as_ptr(), hi.len()),
			h.check_sum(), cr.start, cr.end, ir.start, ir.end, p.image_base() as u64, dynflag)
	})
}

/// hdrw <k> : the same through the wrapper API (only what the wrappers offer)
pub fn hdrw(st: &State, rest: &str) -> String {
	let k = rest.trim();
	with_any!(st, k, g, p => {
		let dos = p.dos_header();
		let di = p.dos_image();
		let fh = p.file_header();
		let dd = p.data_directory();
		let sh = p.section_headers().image();
		format!("ok dos={} dosimg={} fh={} dd={} sec={}",
			tref(g, dos, 64), g.rf(di.as_ptr(), di.len()), tref(g, fh, 20),
			tref(g, dd.as_ptr(), dd.len() * 8), tref(g, sh.as_ptr(), sh.len() * 40))
	})
}

fn ru64<T: Into<u64>>(r: pelite::Result<T>) -> String {
	match r { Ok(v) => format!("ok {}", v.into()), Err(e) => format!("err {}", errname(e)) }
}

/// r2f <k> <rva> | f2r <k> <off> | r2v <k> <rva> | v2r <k> <va>
pub fn addr(st: &State, fam: &str, rest: &str) -> String {
	let a: Vec<&str> = rest.split(' ').collect();
	let (k, x) = (a[0], num(a[1]));
	with_specific!(st, k, g, p => {
		let _ = g;
		match fam {
			"r2f" => ru64(p.rva_to_file_offset(x as u32).map(|v| v as u64)),
			"f2r" => ru64(p.file_offset_to_rva(x as usize)),
			"r2v" => ru64(p.rva_to_va(x as u32).map(|v| v as u64)),
			"v2r" => ru64(p.va_to_rva(x as _)),
			_ => "bad-op".to_string(),
		}
	})
}

/// slice <k> <rva> <min> <align>
pub fn slice(st: &State, rest: &str) -> String {
	let a: Vec<&str> = rest.split(' ').collect();
	let (k, rva, min, al) = (a[0], num(a[1]) as u32, num(a[2]) as usize, num(a[3]) as usize);
	with_any!(st, k, g, p => rs(g, p.slice(rva, min, al)))
}
/// read <k> <va> <min> <align>
pub fn read(st: &State, rest: &str) -> String {
	let a: Vec<&str> = rest.split(' ').collect();
	let (k, va, min, al) = (a[0], num(a[1]), num(a[2]) as usize, num(a[3]) as usize);
	with_specific!(st, k, g, p => rs(g, p.read(va as _, min, al)))
}
/// secbytes <k> <index>
pub fn secbytes(st: &State, rest: &str) -> String {
	let a: Vec<&str> = rest.split(' ').collect();
	let (k, i) = (a[0], num(a[1]) as usize);
	with_any!(st, k, g, p => {
		match p.section_headers().image().get(i) { Some(s) => rs(g, p.get_section_bytes(s)), None => "nosec".to_string() }
	})
}
/// byrva <k> <rva> ; byname <k> <hexname>
pub fn bysec(st: &State, fam: &str, rest: &str) -> String {
	let a: Vec<&str> = rest.split(' ').collect();
	let k = a[0];
	with_any!(st, k, g, p => {
		let _ = g;
		let sh = p.section_headers();
		let r = if fam == "byrva" { sh.by_rva(num(a[1]) as u32) } else { sh.by_name(&unhex(a[1])[..]) };
		match r {
			Some(s) => { let idx = (s as *const _ as usize - sh.image().as_ptr() as usize) / 40; format!("ok {}", idx) },
			None => "none".to_string(),
		}
	})
}

/// secname <k> <i>: `SectionHeader::name()` and `name_bytes()` of the i-th section
pub fn secname(st: &State, rest: &str) -> String {
	let a: Vec<&str> = rest.split(' ').collect();
	if a.len() != 2 { return "bad-op".to_string(); }
	let (k, i) = (a[0], num(a[1]) as usize);
	with_any!(st, k, g, p => {
		let _ = g;
		match p.section_headers().iter().nth(i) {
			Some(s) => {
				let nm = match s.name() { Ok(x) => format!("str {}", hex(x.as_bytes())), Err(b) => format!("raw {}", hex(b)) };
				let (vr, fr) = (s.virtual_range(), s.file_range());
				format!("ok {} bytes={} vr={}..{} fr={}..{}", nm, hex(s.name_bytes()), vr.start, vr.end, fr.start, fr.end)
			},
			None => "nosec".to_string(),
		}
	})
}

// ---------------------------------------------------------------------------------------------
// second audit round: `slice_bytes` / `read_bytes`, and every header accessor through the API of
// the constructed object itself (`hdrw2`: for `wf` / `wv` that is `Wrap::headers()`,
// `Wrap::nt_headers()`, `Wrap::optional_header()` and the methods of src/wrap/headers.rs)

/// slice_bytes <k> <rva>      (`Pe::slice_bytes` / `Wrap::slice_bytes`)
pub fn slice_bytes(st: &State, rest: &str) -> String {
	let a: Vec<&str> = rest.split(' ').collect();
	if a.len() != 2 { return "bad-op".to_string(); }
	let (k, rva) = (a[0], num(a[1]) as u32);
	with_any!(st, k, g, p => rs(g, p.slice_bytes(rva)))
}
/// read_bytes <k> <va>        (`Pe::read_bytes`; the wrappers have no VA based API)
pub fn read_bytes(st: &State, rest: &str) -> String {
	let a: Vec<&str> = rest.split(' ').collect();
	if a.len() != 2 { return "bad-op".to_string(); }
	let (k, va) = (a[0], num(a[1]));
	with_specific!(st, k, g, p => rs(g, p.read_bytes(va as _)))
}

/// What `nt_headers()` / `optional_header()` hand out: a reference to the struct of one format, or the
/// wrappers' `Wrap<&…32, &…64>`.  Printed as `<bits>@off:len` plus the fields read THROUGH that reference.
pub trait HdrShow { fn show(&self, g: &Guarded) -> String; }
impl<'a> HdrShow for &'a pelite::image::IMAGE_NT_HEADERS32 {
	fn show(&self, g: &Guarded) -> String { let sig = self.Signature; format!("32@{} sig={}", tref(g, *self as *const pelite::image::IMAGE_NT_HEADERS32, std::mem::size_of::<pelite::image::IMAGE_NT_HEADERS32>()), sig) }
}
impl<'a> HdrShow for &'a pelite::image::IMAGE_NT_HEADERS64 {
	fn show(&self, g: &Guarded) -> String { let sig = self.Signature; format!("64@{} sig={}", tref(g, *self as *const pelite::image::IMAGE_NT_HEADERS64, std::mem::size_of::<pelite::image::IMAGE_NT_HEADERS64>()), sig) }
}
impl<'a> HdrShow for &'a pelite::image::IMAGE_OPTIONAL_HEADER32 {
	fn show(&self, g: &Guarded) -> String {
		let (magic, soi, soh, ib, n) = (self.Magic, self.SizeOfImage, self.SizeOfHeaders, self.ImageBase, self.NumberOfRvaAndSizes);
		format!("32@{} magic={} soi={} soh={} ibase={} nrva={}", tref(g, *self as *const pelite::image::IMAGE_OPTIONAL_HEADER32, std::mem::size_of::<pelite::image::IMAGE_OPTIONAL_HEADER32>()), magic, soi, soh, ib as u64, n)
	}
}
impl<'a> HdrShow for &'a pelite::image::IMAGE_OPTIONAL_HEADER64 {
	fn show(&self, g: &Guarded) -> String {
		let (magic, soi, soh, ib, n) = (self.Magic, self.SizeOfImage, self.SizeOfHeaders, self.ImageBase, self.NumberOfRvaAndSizes);
		format!("64@{} magic={} soi={} soh={} ibase={} nrva={}", tref(g, *self as *const pelite::image::IMAGE_OPTIONAL_HEADER64, std::mem::size_of::<pelite::image::IMAGE_OPTIONAL_HEADER64>()), magic, soi, soh, ib, n)
	}
}
impl<A: HdrShow, B: HdrShow> HdrShow for Wrap<A, B> {
	fn show(&self, g: &Guarded) -> String { match self { Wrap::T32(a) => a.show(g), Wrap::T64(b) => b.show(g) } }
}

/// hdrw2 <k> : every header accessor through the API of the object `k` constructs (`with_any!`: the
/// wrappers are NOT unwrapped), in the notation of `hdr` — the answers for `wf` / `wv` and for the
/// format specific constructor on the same image are comparable token by token
pub fn hdrw2(st: &State, rest: &str) -> String {
	let k = rest.trim();
	with_any!(st, k, g, p => {
		let dos = p.dos_header();
		let di = p.dos_image();
		let nt = p.nt_headers();
		let fh = p.file_header();
		let oh = p.optional_header();
		let dd = p.data_directory();
		let sh = p.section_headers().image();
		let h = p.headers();
		let hi = h.image();
		let cr = h.code_range();
		let ir = h.image_range();
		let pi = h.pe().image();
		let al = match h.pe().align() { pelite::Align::File => "F", pelite::Align::Section => "S" };
		format!("ok dos={} dosimg={} nt={} fh={} opt={} dd={} sec={} himg={} csum={} code={}..{} image={}..{} peimg={} align={}",
			tref(g, dos, 64), g.rf(di.as_ptr(), di.len()), nt.show(g), tref(g, fh, 20), oh.show(g),
			tref(g, dd.as_ptr(), dd.len() * 8), tref(g, sh.as_ptr(), sh.len() * 40), g.rf(hi.as_ptr(), hi.len()),
			h.check_sum(), cr.start, cr.end, ir.start, ir.end, g.rf(pi.as_ptr(), pi.len()), al)
	})
}

pub fn dispatch(st: &mut State, fam: &str, rest: &str) -> Option<String> {
	Some(match fam {
		"slice_bytes" => slice_bytes(st, rest),
		"read_bytes" => read_bytes(st, rest),
		"hdrw2" => hdrw2(st, rest),
		"from_bytes" => from_bytes(st, rest),
		"hdr" => hdr(st, rest),
		"hdrw" => hdrw(st, rest),
		"r2f" | "f2r" | "r2v" | "v2r" => addr(st, fam, rest),
		"slice" => slice(st, rest),
		"read" => read(st, rest),
		"secbytes" => secbytes(st, rest),
		"byrva" | "byname" => bysec(st, fam, rest),
		"secname" => secname(st, rest),
		_ => return None,
	})
}
