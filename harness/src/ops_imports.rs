//! Import directory and IAT (C09): `imports <k> dump`, `iat <k> dump`.
//! One canonical, space-free dump per op (see `Driver/Imports.lean` for the grammar); the same body is
//! expanded for the four format specific views and the two format agnostic wrappers (`with_any!`).
//! A trailing token after `dump` (the generator's expectation) is ignored here.
use crate::ops_img::tref;
use crate::util::*;
use crate::State;
use pelite::pe64::imports::Import;
use pelite::Wrap;

/// `&Va` of either width, or the wrapper's `Wrap<&u32, &u64>`
trait VaRef {
	fn rf(&self, g: &Guarded) -> String;
	fn val(&self) -> u64;
}
impl<'a> VaRef for &'a u32 {
	fn rf(&self, g: &Guarded) -> String { tref(g, *self as *const u32, 4) }
	fn val(&self) -> u64 { **self as u64 }
}
impl<'a> VaRef for &'a u64 {
	fn rf(&self, g: &Guarded) -> String { tref(g, *self as *const u64, 8) }
	fn val(&self) -> u64 { **self }
}
impl<A: VaRef, B: VaRef> VaRef for Wrap<A, B> {
	fn rf(&self, g: &Guarded) -> String { match self { Wrap::T32(a) => a.rf(g), Wrap::T64(b) => b.rf(g) } }
	fn val(&self) -> u64 { match self { Wrap::T32(a) => a.val(), Wrap::T64(b) => b.val() } }
}

/// `&[Va]` of either width, or the wrapper's `Wrap<&[u32], &[u64]>`
trait VaSlice {
	fn rf(&self, g: &Guarded) -> String;
	fn count(&self) -> usize;
}
impl<'a> VaSlice for &'a [u32] {
	fn rf(&self, g: &Guarded) -> String { tref(g, self.as_ptr(), self.len() * 4) }
	fn count(&self) -> usize { self.len() }
}
impl<'a> VaSlice for &'a [u64] {
	fn rf(&self, g: &Guarded) -> String { tref(g, self.as_ptr(), self.len() * 8) }
	fn count(&self) -> usize { self.len() }
}
impl<A: VaSlice, B: VaSlice> VaSlice for Wrap<A, B> {
	fn rf(&self, g: &Guarded) -> String { match self { Wrap::T32(a) => a.rf(g), Wrap::T64(b) => b.rf(g) } }
	fn count(&self) -> usize { match self { Wrap::T32(a) => a.count(), Wrap::T64(b) => b.count() } }
}

/// item of `IAT::iter()`
trait IatItem<'a> {
	fn parts(self, g: &Guarded) -> (String, u64, pelite::Result<Import<'a>>);
}
impl<'a, R: VaRef> IatItem<'a> for (R, pelite::Result<Import<'a>>) {
	fn parts(self, g: &Guarded) -> (String, u64, pelite::Result<Import<'a>>) { (self.0.rf(g), self.0.val(), self.1) }
}
impl<'a, A: IatItem<'a>, B: IatItem<'a>> IatItem<'a> for Wrap<A, B> {
	fn parts(self, g: &Guarded) -> (String, u64, pelite::Result<Import<'a>>) { match self { Wrap::T32(a) => a.parts(g), Wrap::T64(b) => b.parts(g) } }
}

fn cstr(g: &Guarded, r: pelite::Result<&pelite::util::CStr>) -> String {
	match r {
		Ok(c) => { let b = c.c_str(); format!("{}:{}", g.rf(b.as_ptr(), b.len()), hex(c.as_ref())) },
		Err(e) => format!("!{}", errname(e)),
	}
}
fn import(g: &Guarded, r: pelite::Result<Import<'_>>) -> String {
	match r {
		Ok(Import::ByName { hint, name }) => format!("n{}@{}", hint, cstr(g, Ok(name))),
		Ok(Import::ByOrdinal { ord }) => format!("o{}", ord),
		Err(e) => format!("!{}", errname(e)),
	}
}

/// imports <k> dump
fn imports(st: &State, k: &str) -> String {
	with_any!(st, k, g, p => {
		match p.imports() {
			Err(e) => format!("err {}", errname(e)),
			Ok(imps) => {
				let image = imps.image();
				let mut out = format!("ok img={};n={}", tref(g, image.as_ptr(), image.len() * 20), imps.iter().count());
				for desc in imps {
					let di = desc.image();
					out += &format!(";{{d={},oft={},ft={},name={}", tref(g, di as *const _, 20), di.OriginalFirstThunk, di.FirstThunk, cstr(g, desc.dll_name()));
					out += ",int=";
					match desc.int() {
						Err(e) => out += &format!("!{}", errname(e)),
						Ok(it) => { let v: Vec<String> = it.map(|r| import(g, r)).collect(); out += &format!("[{}]", v.join("/")); },
					}
					out += ",iat=";
					match desc.iat() {
						Err(e) => out += &format!("!{}", errname(e)),
						Ok(it) => { let v: Vec<String> = it.map(|va| format!("{}={}", va.rf(g), va.val())).collect(); out += &format!("[{}]", v.join("/")); },
					}
					out += "}";
				}
				out
			},
		}
	})
}

/// iat <k> dump
fn iat(st: &State, k: &str) -> String {
	with_any!(st, k, g, p => {
		match p.iat() {
			Err(e) => format!("err {}", errname(e)),
			Ok(iat) => {
				let image = iat.image();
				let v: Vec<String> = iat.iter().map(|item| { let (rf, val, imp) = item.parts(g); format!("{}={}>{}", rf, val, import(g, imp)) }).collect();
				format!("ok img={};n={};[{}]", image.rf(g), image.count(), v.join("/"))
			},
		}
	})
}

pub fn dispatch(st: &mut State, fam: &str, rest: &str) -> Option<String> {
	if fam != "imports" && fam != "iat" { return None; }
	let a: Vec<&str> = rest.split(' ').collect();
	if a.len() < 2 || a[1] != "dump" { return Some("bad-op".to_string()); }
	Some(if fam == "imports" { imports(st, a[0]) } else { iat(st, a[0]) })
}
