//! `iter <k> <source> <history> [want_n=<n>]` (C18): runs a call history on one of the library's iterators and,
//! beside it, on a VecDeque holding the iterator's items; answers every call's result and whether the two agreed.
//!
//! history = comma list of
//!   next | back | nth:K | len | hint | count
//!   clone   continue on a clone, dropping the original
//!   fork    clone the current copy and keep BOTH alive (each with its own deque)
//!   sw      switch to the next live copy (round robin): calls interleave between the copies
//!
//! answer: `ok n=<N> deque_same=<b> fused=<b> [imglen_same=<b>] [layout_same=<b>] [twin_same=<b>] [want_n_same=<b>]
//!          copies=<c> ids=<items> results=[…]`
//!   n            number of items of the fresh iterator
//!   deque_same   every call on every live copy answered what the same call on that copy's deque answers
//!   fused        every copy, drained, keeps answering None (and len 0)
//!   imglen_same  `Iter::image().len()` (imports / debug iterators) = items left, after every call
//!   layout_same  the items are the records the directory's header announces, at their places (resource
//!                directories, section table): built from the header, not from the iterator
//!   twin_same    wrapper sources (`w…`, k = wf | wv): the iterator of the WRAPPER and the iterator of the
//!                format-specific view inside it answered the same item / the same RAW size hint / the same
//!                count at every history position
//!   ids          the canonical items in order, `;` separated (`#<fnv>` of that text when longer than 600 bytes):
//!                the item notation of the modules' `dump` operations, compared with them by class C18
//!   results      per call: `len=N`, `hint=lo:hi` (RAW size hint, `-` = None), `count=N`, `fork`, `sw`, `cloned`,
//!                else the first 6 digits of the FNV digest of the canonical item (`None` = exhausted)
use crate::ops_img::tref;
use crate::ops_walk::{imp_s, Canon};
use crate::util::*;
use crate::State;
use pelite::pe64::exports::Export;
use pelite::pe64::imports::Import;
use pelite::util::CStr;
use pelite::Wrap;
use std::cell::Cell;
use std::collections::VecDeque;
use std::rc::Rc;

// ---- canonical items (the notation of the dump operations: ops_imports.rs, ops_exports.rs, ops_dirs.rs, ops_json.rs)
/// the iterators that expose what is left of their directory: `Iter::image().len()`
trait ImageLen { fn image_len(&self) -> usize; }
macro_rules! canon_items {
	($m:ident) => {
		impl<'a, P: pelite::$m::Pe<'a>> Canon for pelite::$m::imports::Desc<'a, P> { fn canon(&self, g: &Guarded) -> String { tref(g, self.image(), 20) } }
		impl<'a, P: pelite::$m::Pe<'a>> Canon for pelite::$m::debug::Dir<'a, P> { fn canon(&self, g: &Guarded) -> String { tref(g, self.image(), 28) } }
		impl<'a, P: pelite::$m::Pe<'a>> Canon for pelite::$m::exception::Function<'a, P> { fn canon(&self, g: &Guarded) -> String { tref(g, self.image(), 12) } }
		impl<'a, P: pelite::$m::Pe<'a>> ImageLen for pelite::$m::imports::Iter<'a, P> { fn image_len(&self) -> usize { self.image().len() } }
		impl<'a, P: pelite::$m::Pe<'a>> ImageLen for pelite::$m::debug::Iter<'a, P> { fn image_len(&self) -> usize { self.image().len() } }
	};
}
canon_items!(pe32);
canon_items!(pe64);
fn iexp(g: &Guarded, r: &pelite::Result<Export>) -> String {
	match r {
		Ok(Export::Symbol(rva)) => format!("Symbol({})@{}", **rva, tref(g, *rva as *const u32, 4)),
		Ok(Export::Forward(s)) => { let b = s.c_str(); format!("Forward({})@{}", hex(s.as_ref()), g.rf(b.as_ptr(), b.len())) },
		Err(e) => format!("err:{}", errname(*e)),
	}
}
fn ecstr(g: &Guarded, r: &pelite::Result<&CStr>) -> String {
	match r { Ok(s) => { let b = s.c_str(); format!("{}@{}", hex(s.as_ref()), g.rf(b.as_ptr(), b.len())) }, Err(e) => format!("err:{}", errname(*e)) }
}
impl<'a> Canon for pelite::Result<Export<'a>> { fn canon(&self, g: &Guarded) -> String { iexp(g, self) } }
impl<'a> Canon for (pelite::Result<&'a CStr>, pelite::Result<Export<'a>>) { fn canon(&self, g: &Guarded) -> String { format!("({},{})", ecstr(g, &self.0), iexp(g, &self.1)) } }
impl<'a> Canon for (pelite::Result<&'a CStr>, usize) { fn canon(&self, g: &Guarded) -> String { format!("({},{})", ecstr(g, &self.0), self.1) } }
impl<'a> Canon for pelite::Result<Import<'a>> { fn canon(&self, g: &Guarded) -> String { imp_s(g, *self) } }
impl Canon for pelite::rich_structure::RichRecord { fn canon(&self, _g: &Guarded) -> String { format!("{}:{}:{}", self.product, self.build, self.count) } }
impl<'a> Canon for pelite::base_relocs::Block<'a> {
	fn canon(&self, g: &Guarded) -> String { let im = self.image(); let w = self.words(); format!("{}@{}+{}/{}", im.VirtualAddress, g.rf(im as *const _ as *const u8, 8), im.SizeOfBlock, g.rf(w.as_ptr() as *const u8, w.len() * 2)) }
}
impl<'a> Canon for pelite::pe64::debug::PgoItem<'a> { fn canon(&self, g: &Guarded) -> String { let b = self.name.c_str(); format!("{}:{}:{}", self.rva, self.size, g.rf(b.as_ptr(), b.len())) } }
impl<'a> Canon for pelite::resources::DirectoryEntry<'a> { fn canon(&self, g: &Guarded) -> String { tref(g, self.image(), 8) } }
impl<'a> Canon for &'a pelite::pe64::headers::SectionHeader { fn canon(&self, g: &Guarded) -> String { tref(g, *self as *const pelite::pe64::headers::SectionHeader, 40) } }

// ---- what an iterator type offers beyond `Iterator + Clone`
struct Caps<'c, I: Iterator> {
	back: Option<&'c dyn Fn(&mut I) -> Option<I::Item>>,
	len: Option<&'c dyn Fn(&I) -> usize>,
	/// `Iter::image().len()`
	image_len: Option<&'c dyn Fn(&I) -> usize>,
	/// the items as the directory's header announces them
	layout: Option<Vec<String>>,
	/// set to false by a `Pair` whose two sides disagreed
	twin: Option<Rc<Cell<bool>>>,
}
fn fwd<'c, I: Iterator>() -> Caps<'c, I> { Caps { back: None, len: None, image_len: None, layout: None, twin: None } }
fn de<'c, I: DoubleEndedIterator + ExactSizeIterator>() -> Caps<'c, I> {
	Caps { back: Some(&|it: &mut I| it.next_back()), len: Some(&|it: &I| it.len()), image_len: None, layout: None, twin: None }
}

fn de_img<'c, I: DoubleEndedIterator + ExactSizeIterator + ImageLen>() -> Caps<'c, I> { let mut c = de::<I>(); c.image_len = Some(&|it: &I| it.image_len()); c }

fn opt(o: Option<String>) -> String { o.unwrap_or_else(|| "None".to_string()) }
fn hint_s(h: (usize, Option<usize>)) -> String { format!("hint={}:{}", h.0, h.1.map_or("-".to_string(), |x| x.to_string())) }

/// the history on the iterator and on the deque(s) of its items
fn run<I: Iterator + Clone, F: Fn(&I::Item) -> String>(it: I, f: F, caps: Caps<I>, hist: &str, want_n: Option<usize>) -> String {
	let mut dq0 = VecDeque::new();
	for x in it.clone() { dq0.push_back(f(&x)); if dq0.len() > 70000 { return "toolong".to_string(); } }
	let n0 = dq0.len();
	let ids = { let t = dq0.iter().cloned().collect::<Vec<_>>().join(";"); if t.is_empty() { "-".to_string() } else if t.len() > 600 { format!("#{}", digest(t.as_bytes())) } else { t } };
	let layout_same = caps.layout.as_ref().map(|l| l.iter().eq(dq0.iter()));
	let mut copies: Vec<(I, VecDeque<String>)> = vec![(it, dq0)];
	let mut cur = 0usize;
	let mut res = Vec::new();
	let (mut same, mut imglen_same) = (true, true);
	for h in hist.split(',') {
		let (it, dq) = { let c = &mut copies[cur]; (&mut c.0, &mut c.1) };
		let item = |x: Option<I::Item>| opt(x.map(|x| f(&x)));
		let mut raw = None;
		let (a, b) = match h {
			"next" => (item(it.next()), opt(dq.pop_front())),
			"back" => match caps.back { Some(bk) => (item(bk(it)), opt(dq.pop_back())), None => ("skip".to_string(), "skip".to_string()) },
			"len" => match caps.len { Some(ln) => { let a = format!("len={}", ln(it)); raw = Some(a.clone()); (a, format!("len={}", dq.len())) }, None => ("skip".to_string(), "skip".to_string()) },
			"count" => { let a = format!("count={}", it.clone().count()); raw = Some(a.clone()); (a, format!("count={}", dq.len())) },
			"hint" => {
				let hnt = it.size_hint();
				raw = Some(hint_s(hnt));
				// exact-size iterators: the hint IS the number of items left; the others: a valid bracket
				if caps.len.is_some() { (hint_s(hnt), hint_s((dq.len(), Some(dq.len())))) }
				else { ((hnt.0 <= dq.len() && hnt.1.map_or(true, |x| dq.len() <= x)).to_string(), "true".to_string()) }
			},
			"clone" => { let c = it.clone(); *it = c; raw = Some("cloned".to_string()); ("cloned".to_string(), "cloned".to_string()) },
			"fork" => { let c = (it.clone(), dq.clone()); if copies.len() < 8 { copies.push(c); } raw = Some("fork".to_string()); ("fork".to_string(), "fork".to_string()) },
			"sw" => { cur = (cur + 1) % copies.len(); raw = Some("sw".to_string()); ("sw".to_string(), "sw".to_string()) },
			_ if h.starts_with("nth:") => { let k = num(&h[4..]) as usize; let a = item(it.nth(k)); for _ in 0..std::cmp::min(k, dq.len()) { dq.pop_front(); } (a, opt(dq.pop_front())) },
			_ => ("skip".to_string(), "skip".to_string()),
		};
		if a != b { same = false; }
		if let Some(il) = caps.image_len { for c in copies.iter() { if il(&c.0) != c.1.len() { imglen_same = false; } } }
		res.push(match raw { Some(r) => r, None => if a == "None" || a == "skip" { a } else { digest(a.as_bytes())[..6].to_string() } });
	}
	// fused: after the history, drain every live copy and keep asking
	let ncopies = copies.len();
	let mut fused = true;
	for (mut it, mut dq) in copies {
		loop { match it.next() { Some(x) => { if Some(f(&x)) != dq.pop_front() { same = false; } }, None => break } }
		if !dq.is_empty() { same = false; }
		fused &= it.next().is_none() && it.next().is_none();
		if let Some(bk) = caps.back { fused &= bk(&mut it).is_none(); }
		if let Some(ln) = caps.len { fused &= ln(&it) == 0; }
		if let Some(il) = caps.image_len { if il(&it) != 0 { imglen_same = false; } }
	}
	let mut out = format!("ok n={} deque_same={} fused={}", n0, same as u8, fused as u8);
	if caps.image_len.is_some() { out += &format!(" imglen_same={}", imglen_same as u8); }
	if let Some(l) = layout_same { out += &format!(" layout_same={}", l as u8); }
	if let Some(t) = caps.twin.as_ref() { out += &format!(" twin_same={}", t.get() as u8); }
	if let Some(w) = want_n { out += &format!(" want_n_same={}", (w == n0) as u8); }
	out + &format!(" copies={} ids={} results=[{}]", ncopies, ids, res.join(","))
}

/// the iterator of the WRAPPER beside the iterator of the format-specific view inside it: every call goes to both,
/// the answers (canonical items, RAW size hints, counts) must be equal; the item handed on is the wrapper's
struct Pair<'g, W, S> { w: W, s: S, g: &'g Guarded, same: Rc<Cell<bool>> }
impl<'g, W: Clone, S: Clone> Clone for Pair<'g, W, S> { fn clone(&self) -> Self { Pair { w: self.w.clone(), s: self.s.clone(), g: self.g, same: self.same.clone() } } }
impl<'g, W: Iterator, S: Iterator> Pair<'g, W, S> where W::Item: Canon, S::Item: Canon {
	fn both(&self, a: Option<W::Item>, b: Option<S::Item>) -> Option<String> {
		let (a, b) = (a.map(|x| x.canon(self.g)), b.map(|x| x.canon(self.g)));
		if a != b { self.same.set(false); }
		a
	}
}
impl<'g, W: Iterator, S: Iterator> Iterator for Pair<'g, W, S> where W::Item: Canon, S::Item: Canon {
	type Item = String;
	fn next(&mut self) -> Option<String> { let (a, b) = (self.w.next(), self.s.next()); self.both(a, b) }
	fn nth(&mut self, n: usize) -> Option<String> { let (a, b) = (self.w.nth(n), self.s.nth(n)); self.both(a, b) }
	fn size_hint(&self) -> (usize, Option<usize>) { let (a, b) = (self.w.size_hint(), self.s.size_hint()); if a != b { self.same.set(false); } a }
	fn count(self) -> usize { let (a, b) = (self.w.count(), self.s.count()); if a != b { self.same.set(false); } a }
}
fn run_pair<W: Iterator + Clone, S: Iterator + Clone>(g: &Guarded, w: W, s: S, hist: &str, want_n: Option<usize>) -> String where W::Item: Canon, S::Item: Canon {
	let same = Rc::new(Cell::new(true));
	let mut caps = fwd();
	caps.twin = Some(same.clone());
	run(Pair { w, s, g, same }, |x: &String| x.clone(), caps, hist, want_n)
}
/// both sides must fail alike before there is an iterator
fn pair_err<A, B>(a: &pelite::Result<A>, b: &pelite::Result<B>) -> Option<String> {
	match (a, b) {
		(Ok(_), Ok(_)) => None,
		(Err(x), Err(y)) if x == y => Some(format!("err {}", errname(*x))),
		(x, y) => Some(format!("ok n=0 deque_same=1 fused=1 twin_same=0 wrapper={} specific={}", x.as_ref().err().map_or("Ok", |e| errname(*e)), y.as_ref().err().map_or("Ok", |e| errname(*e)))),
	}
}

/// wrapper sources: `$w` is the wrapper, `$q` the format-specific view inside it
macro_rules! with_wrap_pair {
	($st:expr, $k:expr, $g:ident, $w:ident, $q:ident => $body:expr) => {{
		match $st.img.as_ref() { None => "noimg".to_string(), Some($g) => {
			macro_rules! arms { ($ctor:expr) => { match $ctor {
				Err(e) => format!("noimg {}", errname(e)),
				Ok($w) => match $w {
					Wrap::T32($q) => { #[allow(unused_imports)] use pelite::pe32::{Pe, PeObject}; $body },
					Wrap::T64($q) => { #[allow(unused_imports)] use pelite::pe64::{Pe, PeObject}; $body },
				},
			} } }
			match $k { "wf" => arms!(pelite::PeFile::from_bytes($g.bytes())), "wv" => arms!(pelite::PeView::from_bytes($g.bytes())), _ => "bad-op".to_string() }
		} }
	}};
}

/// `res_all@0.2`: the path of entry indices from the root to the directory whose entries are iterated
fn descend<'a>(root: pelite::resources::Directory<'a>, path: &str) -> Option<pelite::resources::Directory<'a>> {
	let mut d = root;
	if path.is_empty() { return Some(d); }
	for t in path.split('.') {
		match d.entries().nth(num(t) as usize)?.entry() { Ok(pelite::resources::Entry::Directory(sub)) => d = sub, _ => return None }
	}
	Some(d)
}

/// `iter <v32|v64> module -`: the unsafe constructor `PeView::module(base)` (an image already mapped at `base`) beside
/// its documented equivalent `from_bytes(&bytes[..SizeOfImage]).set_base_address(base)`: same bytes, same base address,
/// same address conversions and the same `get_proc_address` answers.  Only called when the buffer holds SizeOfImage
/// bytes (the precondition of `module`); file kinds have no such constructor.
pub trait ModuleTwin { fn module_twin(&self, bytes: &[u8]) -> String; }
macro_rules! impl_module_twin { ($m:ident, $va:ty) => {
	impl<'a> ModuleTwin for pelite::$m::PeView<'a> {
		fn module_twin(&self, bytes: &[u8]) -> String {
			use pelite::$m::{Pe, PeObject, PeView};
			use pelite::$m::exports::GetProcAddress;
			let soi = self.optional_header().SizeOfImage as usize;
			if soi > bytes.len() || soi == 0 { return "ok n=0 deque_same=1 fused=1 twin_same=1 skipped".to_string(); }
			let m = unsafe { PeView::module(bytes.as_ptr()) };
			let t = match PeView::from_bytes(&bytes[..soi]) { Ok(t) => t.set_base_address(bytes.as_ptr() as usize as $va), Err(_) => return "ok n=0 deque_same=1 fused=1 twin_same=1 skipped".to_string() };
			let mut same = m.image().as_ptr() == t.image().as_ptr() && m.image().len() == t.image().len() && m.image_base() == t.image_base();
			for r in [1u32, 0x1000, (soi as u32).wrapping_sub(1), soi as u32] {
				same &= format!("{:?}", m.rva_to_va(r)) == format!("{:?}", t.rva_to_va(r));
				if let Ok(va) = t.rva_to_va(r) { same &= format!("{:?}", m.va_to_rva(va)) == format!("{:?}", t.va_to_rva(va)); }
			}
			let mut n = 0usize;
			if let (Ok(bm), Ok(bt)) = (m.exports().and_then(|e| e.by()), t.exports().and_then(|e| e.by())) {
				for (a, b) in bm.iter_names().zip(bt.iter_names()).take(16) {
					if let (Ok(na), Ok(nb)) = (a.0, b.0) {
						n += 1;
						same &= format!("{:?}", m.get_proc_address(na)) == format!("{:?}", t.get_proc_address(nb));
					}
				}
				for ord in 0..8u16 { same &= format!("{:?}", m.get_proc_address(bm.ordinal_base().wrapping_add(ord))) == format!("{:?}", t.get_proc_address(bt.ordinal_base().wrapping_add(ord))); }
			}
			format!("ok n={} deque_same=1 fused=1 twin_same={}", n, same as u8)
		}
	}
	impl<'a> ModuleTwin for pelite::$m::PeFile<'a> { fn module_twin(&self, _bytes: &[u8]) -> String { "bad-op".to_string() } }
} }
impl_module_twin!(pe32, u32);
impl_module_twin!(pe64, u64);

pub fn dispatch(st: &mut State, fam: &str, rest: &str) -> Option<String> {
	if fam != "iter" { return None; }
	let a: Vec<&str> = rest.split(' ').collect();
	if a.len() < 3 { return Some("bad-op".to_string()); }
	let (k, src, hist) = (a[0], a[1], a[2]);
	let want_n = a[3..].iter().find_map(|t| t.strip_prefix("want_n=")).map(|x| num(x) as usize);
	let (src, arg) = match src.find('@') { Some(i) => (&src[..i], &src[i + 1..]), None => (src, "") };
	let er = |e: pelite::Error| format!("err {}", errname(e));
	Some(if src.starts_with('w') {
		// the iterators the format-agnostic wrappers hand out (src/wrap/*.rs), each beside its format-specific twin
		let idx = if arg.is_empty() { 0 } else { num(arg) as usize };
		with_wrap_pair!(st, k, g, w, q => match src {
			"wimports" | "wimports_into" => { let (a, b) = (w.imports(), q.imports()); match pair_err(&a, &b) { Some(e) => e, None => { let (a, b) = (a.unwrap(), b.unwrap());
				if src == "wimports" { run_pair(g, a.iter(), b.iter(), hist, want_n) } else { run_pair(g, a.into_iter(), b.into_iter(), hist, want_n) } } } },
			"wdebug" | "wdebug_into" => { let (a, b) = (w.debug(), q.debug()); match pair_err(&a, &b) { Some(e) => e, None => { let (a, b) = (a.unwrap(), b.unwrap());
				if src == "wdebug" { run_pair(g, a.iter(), b.iter(), hist, want_n) } else { run_pair(g, a.into_iter(), b.into_iter(), hist, want_n) } } } },
			"wiat" => { let (a, b) = (w.iat(), q.iat()); match pair_err(&a, &b) { Some(e) => e, None => run_pair(g, a.unwrap().iter(), b.unwrap().iter(), hist, want_n) } },
			"wint" | "wdesc_iat" => { let (a, b) = (w.imports(), q.imports()); match pair_err(&a, &b) { Some(e) => e, None => match (a.unwrap().iter().nth(idx), b.unwrap().iter().nth(idx)) {
				(Some(dw), Some(ds)) => if src == "wint" { let (a, b) = (dw.int(), ds.int()); match pair_err(&a, &b) { Some(e) => e, None => run_pair(g, a.unwrap(), b.unwrap(), hist, want_n) } }
					else { let (a, b) = (dw.iat(), ds.iat()); match pair_err(&a, &b) { Some(e) => e, None => run_pair(g, a.unwrap(), b.unwrap(), hist, want_n) } },
				(None, None) => "none".to_string(),
				_ => "ok n=0 deque_same=1 fused=1 twin_same=0 descriptor-count".to_string(),
			} } },
			"wexports" | "wexp_names" | "wexp_indices" => { let (a, b) = (w.exports().and_then(|e| e.by()), q.exports().and_then(|e| e.by())); match pair_err(&a, &b) { Some(e) => e, None => { let (a, b) = (a.unwrap(), b.unwrap()); match src {
				"wexports" => run_pair(g, a.iter(), b.iter(), hist, want_n), "wexp_names" => run_pair(g, a.iter_names(), b.iter_names(), hist, want_n), _ => run_pair(g, a.iter_name_indices(), b.iter_name_indices(), hist, want_n) } } } },
			_ => "bad-op".to_string(),
		})
	} else {
		with_specific!(st, k, g, p => { match src {
			"module" => p.module_twin(g.bytes()),
			"imports" | "imports_into" => match p.imports() { Ok(i) => run(if src == "imports" { i.iter() } else { i.into_iter() }, |x| x.canon(g), de_img(), hist, want_n), Err(e) => er(e) },
			"debug" | "debug_into" => match p.debug() { Ok(i) => run(if src == "debug" { i.iter() } else { i.into_iter() }, |x| x.canon(g), de_img(), hist, want_n), Err(e) => er(e) },
			"int" | "desc_iat" => match p.imports() { Ok(i) => match i.iter().nth(if arg.is_empty() { 0 } else { num(arg) as usize }) {
				Some(d) => if src == "int" { match d.int() { Ok(it) => run(it, |x| x.canon(g), de(), hist, want_n), Err(e) => er(e) } } else { match d.iat() { Ok(it) => run(it, |x| x.canon(g), de(), hist, want_n), Err(e) => er(e) } },
				None => "none".to_string() }, Err(e) => er(e) },
			"rich" => match p.rich_structure() { Ok(r) => run(r.records(), |x| x.canon(g), de(), hist, want_n), Err(e) => er(e) },
			"relocs" => match p.base_relocs() { Ok(r) => run(r.iter_blocks(), |x| x.canon(g), fwd(), hist, want_n), Err(e) => er(e) },
			"pogo" | "pogo_into" => match p.debug() { Ok(d) => match d.iter().filter_map(|dir| dir.entry().ok().and_then(|e| e.as_pgo())).next() {
				Some(pgo) => run(if src == "pogo" { pgo.iter() } else { pgo.into_iter() }, |x| x.canon(g), fwd(), hist, want_n), None => "none".to_string() }, Err(e) => er(e) },
			"exports" | "exp_names" | "exp_indices" => match p.exports().and_then(|e| e.by()) { Ok(by) => match src {
				"exports" => run(by.iter(), |x| x.canon(g), fwd(), hist, want_n), "exp_names" => run(by.iter_names(), |x| x.canon(g), fwd(), hist, want_n), _ => run(by.iter_name_indices(), |x| x.canon(g), fwd(), hist, want_n) }, Err(e) => er(e) },
			"res_all" | "res_named" | "res_id" => match p.resources().and_then(|r| r.root()) { Ok(root) => match descend(root, arg) {
				Some(d) => {
					// the records the header announces: NumberOfNamedEntries named ones, then NumberOfIdEntries id ones, 8 bytes each, behind the 16-byte header
					let im = d.image();
					let (nn, ni) = (im.NumberOfNamedEntries as usize, im.NumberOfIdEntries as usize);
					let at = |i: usize| g.rf((im as *const _ as *const u8).wrapping_add(16 + 8 * i), 8);
					match src {
						"res_all" => { let mut c = de(); c.layout = Some((0..nn + ni).map(at).collect()); run(d.entries(), |x| x.canon(g), c, hist, want_n) },
						"res_named" => { let mut c = de(); c.layout = Some((0..nn).map(at).collect()); run(d.named_entries(), |x| x.canon(g), c, hist, want_n) },
						_ => { let mut c = de(); c.layout = Some((nn..nn + ni).map(at).collect()); run(d.id_entries(), |x| x.canon(g), c, hist, want_n) },
					}
				},
				None => "none".to_string() }, Err(e) => er(e) },
			"iat" => match p.iat() { Ok(i) => run(i.iter(), |x| x.canon(g), de(), hist, want_n), Err(e) => er(e) },
			"exc" => match p.exception() { Ok(x) => run(x.functions(), |x| x.canon(g), de(), hist, want_n), Err(e) => er(e) },
			"sections" | "sections_into" => {
				let sh = p.section_headers();
				let mut c = de();
				c.layout = Some((0..sh.image().len()).map(|i| g.rf((sh.image().as_ptr() as *const u8).wrapping_add(40 * i), 40)).collect());
				run(if src == "sections" { sh.iter() } else { sh.into_iter() }, |x| x.canon(g), c, hist, want_n)
			},
			"strings" => match p.section_headers().iter().next().and_then(|s| p.get_section_bytes(s).ok()) { Some(b) => run(pelite::strings::Config::default().enumerate(0x1000, b), |x| format!("{:?}", x), fwd(), hist, want_n), None => "none".to_string() },
			_ => "bad-op".to_string(),
		} })
	})
}
