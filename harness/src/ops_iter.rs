//! `iter <k> <source> <history>` (C18): runs a call history on one of the library's iterators and,
//! beside it, on a VecDeque holding the iterator's items; answers every call's result and whether
//! the two agreed.  history = comma list of next | back | nth:K | len | hint | count | clone
//! (`clone` = continue on a clone, dropping the original).
use crate::util::*;
use crate::State;
use std::collections::VecDeque;
use std::fmt::Debug;

fn items_of<I: Iterator + Clone>(it: &I) -> Option<VecDeque<String>> where I::Item: Debug {
	let mut v = VecDeque::new();
	for x in it.clone() { v.push_back(format!("{:?}", x)); if v.len() > 20000 { return None; } }
	Some(v)
}
fn opt(o: Option<String>) -> String { o.unwrap_or_else(|| "None".to_string()) }

/// forward-only iterators (no ExactSize, no DoubleEnded)
fn run_fwd<I: Iterator + Clone>(mut it: I, hist: &str) -> String where I::Item: Debug {
	let mut dq = match items_of(&it) { Some(d) => d, None => return "toolong".to_string() };
	let n0 = dq.len();
	let mut res = Vec::new();
	let mut same = true;
	for h in hist.split(',') {
		let (a, b) = match h {
			"next" => (opt(it.next().map(|x| format!("{:?}", x))), opt(dq.pop_front())),
			"count" => (it.clone().count().to_string(), dq.len().to_string()),
			"hint" => { let (lo, hi) = it.size_hint(); let ok = lo <= dq.len() && hi.map_or(true, |h| dq.len() <= h); (format!("hint:{}", ok), "hint:true".to_string()) },
			"clone" => { it = it.clone(); ("cloned".to_string(), "cloned".to_string()) },
			_ if h.starts_with("nth:") => { let k = num(&h[4..]) as usize; let a = opt(it.nth(k).map(|x| format!("{:?}", x))); for _ in 0..std::cmp::min(k, dq.len()) { dq.pop_front(); } (a, opt(dq.pop_front())) },
			_ => ("skip".to_string(), "skip".to_string()),
		};
		if a != b { same = false; }
		res.push(digest(a.as_bytes())[..6].to_string());
	}
	// fused: after the history, drain and keep asking
	while it.next().is_some() {}
	let fused = it.next().is_none() && it.next().is_none();
	format!("ok n={} deque_same={} fused={} results=[{}]", n0, same as u8, fused as u8, res.join(","))
}

/// exact-size double-ended iterators
fn run_de<I: DoubleEndedIterator + ExactSizeIterator + Clone>(mut it: I, hist: &str) -> String where I::Item: Debug {
	let mut dq = match items_of(&it) { Some(d) => d, None => return "toolong".to_string() };
	let n0 = dq.len();
	let mut res = Vec::new();
	let mut same = true;
	for h in hist.split(',') {
		let (a, b) = match h {
			"next" => (opt(it.next().map(|x| format!("{:?}", x))), opt(dq.pop_front())),
			"back" => (opt(it.next_back().map(|x| format!("{:?}", x))), opt(dq.pop_back())),
			"len" => (it.len().to_string(), dq.len().to_string()),
			"count" => (it.clone().count().to_string(), dq.len().to_string()),
			"hint" => (format!("{:?}", it.size_hint()), format!("{:?}", (dq.len(), Some(dq.len())))),
			"clone" => { it = it.clone(); ("cloned".to_string(), "cloned".to_string()) },
			_ if h.starts_with("nth:") => { let k = num(&h[4..]) as usize; let a = opt(it.nth(k).map(|x| format!("{:?}", x))); for _ in 0..std::cmp::min(k, dq.len()) { dq.pop_front(); } (a, opt(dq.pop_front())) },
			_ => ("skip".to_string(), "skip".to_string()),
		};
		if a != b { same = false; }
		res.push(digest(a.as_bytes())[..6].to_string());
	}
	while it.next().is_some() {}
	let fused = it.next().is_none() && it.next_back().is_none() && it.len() == 0;
	format!("ok n={} deque_same={} fused={} results=[{}]", n0, same as u8, fused as u8, res.join(","))
}

pub fn dispatch(st: &mut State, fam: &str, rest: &str) -> Option<String> {
	if fam != "iter" { return None; }
	let a: Vec<&str> = rest.split(' ').collect();
	if a.len() != 3 { return Some("bad-op".to_string()); }
	let (k, src, hist) = (a[0], a[1], a[2]);
	Some(match src {
		// through the format-agnostic wrappers (Wrap<I32, I64> only offers `next`)
		"wimports" | "wdebug" => with_any!(st, k, g, p => { let _ = g; match src {
			"wimports" => match p.imports() { Ok(i) => run_fwd(i.iter().map(|d| format!("{:?}", d)), hist), Err(e) => format!("err {}", errname(e)) },
			_ => match p.debug() { Ok(i) => run_fwd(i.iter().map(|d| format!("{:?}", d)), hist), Err(e) => format!("err {}", errname(e)) },
		} }),
		_ => with_specific!(st, k, g, p => { let _ = g; match src {
			"imports" => match p.imports() { Ok(i) => run_de(i.iter(), hist), Err(e) => format!("err {}", errname(e)) },
			"debug" => match p.debug() { Ok(i) => run_de(i.iter(), hist), Err(e) => format!("err {}", errname(e)) },
			"rich" => match p.rich_structure() { Ok(r) => run_de(r.records(), hist), Err(e) => format!("err {}", errname(e)) },
			"relocs" => match p.base_relocs() { Ok(r) => run_fwd(r.iter_blocks(), hist), Err(e) => format!("err {}", errname(e)) },
			"pogo" => match p.debug() { Ok(d) => match d.iter().filter_map(|dir| dir.entry().ok().and_then(|e| e.as_pgo())).next() { Some(pgo) => run_fwd(pgo.iter(), hist), None => "none".to_string() }, Err(e) => format!("err {}", errname(e)) },
			"exports" | "exp_names" | "exp_indices" => match p.exports().and_then(|e| e.by()) { Ok(by) => match src {
				"exports" => run_fwd(by.iter(), hist), "exp_names" => run_fwd(by.iter_names(), hist), _ => run_fwd(by.iter_name_indices(), hist) }, Err(e) => format!("err {}", errname(e)) },
			"res_all" | "res_named" | "res_id" => match p.resources().and_then(|r| r.root()) { Ok(root) => match src {
				"res_all" => run_de(root.entries(), hist), "res_named" => run_de(root.named_entries(), hist), _ => run_de(root.id_entries(), hist) }, Err(e) => format!("err {}", errname(e)) },
			"iat" => match p.iat() { Ok(i) => run_de(i.iter(), hist), Err(e) => format!("err {}", errname(e)) },
			"exc" => match p.exception() { Ok(x) => run_de(x.functions(), hist), Err(e) => format!("err {}", errname(e)) },
			"sections" => run_de(p.section_headers().iter(), hist),
			"strings" => match p.section_headers().iter().next().and_then(|s| p.get_section_bytes(s).ok()) { Some(b) => run_fwd(pelite::strings::Config::default().enumerate(0x1000, b), hist), None => "none".to_string() },
			_ => "bad-op".to_string(),
		} }),
	})
}
