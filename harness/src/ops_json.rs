//! `json <k>` (serialization succeeds and re-parses), `jsonsub <k>` (the modelled subset of the
//! JSON rendering, extracted from what serde_json actually produced), `relocs <k> dump`.
use crate::util::*;
use crate::State;
use serde_json::Value;

fn num_of(v: &Value) -> String {
	match v { Value::Number(n) => n.to_string(), Value::Null => "-".to_string(), other => format!("?{}", other) }
}

fn sub(v: &Value) -> String {
	let h = &v["headers"];
	let nt = &h["NtHeaders"];
	let (fh, opt) = (&nt["FileHeader"], &nt["OptionalHeader"]);
	let dd: Vec<String> = h["DataDirectory"].as_array().map(|a| a.iter().map(|d| format!("{}:{}", num_of(&d["VirtualAddress"]), num_of(&d["Size"]))).collect()).unwrap_or_default();
	let sec: Vec<String> = h["SectionHeaders"].as_array().map(|a| a.iter().map(|s| format!("{}:{}:{}:{}:{}", num_of(&s["VirtualSize"]), num_of(&s["VirtualAddress"]), num_of(&s["SizeOfRawData"]), num_of(&s["PointerToRawData"]), num_of(&s["Characteristics"]))).collect()).unwrap_or_default();
	let det = &h["details"];
	let dds: Vec<String> = det["DataDirectory.Sections"].as_array().map(|a| a.iter().map(num_of).collect()).unwrap_or_default();
	let relocs = match &v["base_relocs"] {
		Value::Null => "-".to_string(),
		r => {
			let rv = r["rvas"].as_array().cloned().unwrap_or_default();
			let ty = r["types"].as_array().cloned().unwrap_or_default();
			if rv.len() != ty.len() { "?len".to_string() } else { format!("[{}]", rv.iter().zip(ty.iter()).map(|(a, b)| format!("{}:{}", num_of(a), num_of(b))).collect::<Vec<_>>().join(",")) }
		},
	};
	format!("ok dos.e_lfanew={} fh.nsec={} fh.soh={} opt.magic={} opt.code={}+{} opt.base={} opt.soi={} opt.soh={} opt.csum={} opt.nrva={} dd=[{}] sec=[{}] det.csum={} det.ddsec=[{}] relocs={}",
		num_of(&h["DosHeader"]["e_lfanew"]), num_of(&fh["NumberOfSections"]), num_of(&fh["SizeOfOptionalHeader"]), num_of(&opt["Magic"]),
		num_of(&opt["BaseOfCode"]), num_of(&opt["SizeOfCode"]), num_of(&opt["ImageBase"]), num_of(&opt["SizeOfImage"]), num_of(&opt["SizeOfHeaders"]),
		num_of(&opt["CheckSum"]), num_of(&opt["NumberOfRvaAndSizes"]), dd.join(","), sec.join(","), num_of(&det["OptionalHeader.CheckSum"]), dds.join(","), relocs)
}

pub fn dispatch(st: &mut State, fam: &str, rest: &str) -> Option<String> {
	let a: Vec<&str> = rest.split(' ').collect();
	Some(match (fam, a.len()) {
		("json", 1) => { let k = a[0]; with_any!(st, k, g, p => { let _ = g; match serde_json::to_string(&p) {
			Ok(js) => match serde_json::from_str::<Value>(&js) { Ok(v) => format!("ok len={} keys={}", js.len(), v.as_object().map(|o| o.len()).unwrap_or(0)), Err(e) => format!("malformed {}", e) },
			Err(e) => format!("fail {}", e) } }) },
		("jsonsub", 1) => { let k = a[0]; with_any!(st, k, g, p => { let _ = g; match serde_json::to_value(&p) { Ok(v) => sub(&v), Err(e) => format!("fail {}", e) } }) },
		("relocs", 2) if a[1] == "dump" => { let k = a[0]; with_any!(st, k, g, p => match p.base_relocs() {
			Ok(br) => {
				let mut blocks = Vec::new();
				let mut flat = Vec::new();
				for b in br.iter_blocks() {
					let im = b.image(); let w = b.words();
					blocks.push(format!("{}@{}+{}/{}", im.VirtualAddress, g.rf(im as *const _ as *const u8, 8), im.SizeOfBlock, g.rf(w.as_ptr() as *const u8, w.len() * 2)));
					if blocks.len() > 200000 { return Some("diverge".to_string()); }
				}
				br.for_each(|rva, ty| flat.push(format!("{}:{}", rva, ty)));
				format!("ok image={} blocks=[{}] flat=[{}]", g.rf(br.image().as_ptr(), br.image().len()), blocks.join(","), flat.join(","))
			},
			Err(e) => format!("err {}", errname(e)),
		}) },
		_ => return None,
	})
}
