//! `json <k>` (serialization succeeds and re-parses), `jsonsub <k>` (the modelled subset of the
//! header part of the JSON rendering, extracted from what serde_json actually produced),
//! `jsonsub <k> <field>` (one top-level member of the document, whole, in canonical text),
//! `jsontext <k> <field>` (the exact text of that member, hex),
//! `relocs <k> dump`.
use crate::util::*;
use crate::State;
use serde_json::Value;

/// The text `serde_json::to_string` produced, read back by this file's own strict reader into a tree
/// that keeps the member order and duplicate keys (`serde_json::Value` sorts and merges them).
enum J { Null, Bool(bool), Num(String), Str(Vec<u8>), Arr(Vec<J>), Obj(Vec<(Vec<u8>, J)>) }

struct Rd<'a> { s: &'a [u8], i: usize }
impl<'a> Rd<'a> {
	fn peek(&self) -> Option<u8> { self.s.get(self.i).copied() }
	fn ws(&mut self) { while let Some(b' ') | Some(b'\t') | Some(b'\n') | Some(b'\r') = self.peek() { self.i += 1; } }
	fn eat(&mut self, lit: &[u8]) -> Result<(), String> {
		if self.s[self.i..].starts_with(lit) { self.i += lit.len(); Ok(()) } else { Err(format!("expected {:?} at {}", String::from_utf8_lossy(lit), self.i)) }
	}
	fn hex4(&mut self) -> Result<u32, String> {
		let h = self.s.get(self.i..self.i + 4).ok_or("short \\u")?;
		let t = std::str::from_utf8(h).map_err(|e| e.to_string())?;
		if !t.bytes().all(|b| b.is_ascii_hexdigit()) { return Err(format!("bad \\u at {}", self.i)); }
		self.i += 4;
		u32::from_str_radix(t, 16).map_err(|e| e.to_string())
	}
	fn string(&mut self) -> Result<Vec<u8>, String> {
		self.eat(b"\"")?;
		let mut out = Vec::new();
		loop {
			let b = self.peek().ok_or("unterminated string")?;
			self.i += 1;
			match b {
				b'"' => break,
				b'\\' => {
					let e = self.peek().ok_or("unterminated escape")?;
					self.i += 1;
					match e {
						b'"' => out.push(b'"'), b'\\' => out.push(b'\\'), b'/' => out.push(b'/'),
						b'b' => out.push(8), b'f' => out.push(12), b'n' => out.push(10), b'r' => out.push(13), b't' => out.push(9),
						b'u' => {
							let mut c = self.hex4()?;
							if (0xD800..0xDC00).contains(&c) {
								self.eat(b"\\u")?;
								let lo = self.hex4()?;
								if !(0xDC00..0xE000).contains(&lo) { return Err("unpaired surrogate".to_string()); }
								c = 0x10000 + ((c - 0xD800) << 10) + (lo - 0xDC00);
							}
							let ch = char::from_u32(c).ok_or("bad scalar")?;
							let mut buf = [0u8; 4];
							out.extend_from_slice(ch.encode_utf8(&mut buf).as_bytes());
						},
						_ => return Err(format!("bad escape at {}", self.i)),
					}
				},
				0..=0x1f => return Err(format!("raw control byte at {}", self.i - 1)),
				_ => out.push(b),
			}
		}
		if std::str::from_utf8(&out).is_err() { return Err("string is not UTF-8".to_string()); }
		Ok(out)
	}
	fn val(&mut self, depth: usize) -> Result<J, String> {
		if depth > 200 { return Err("too deep".to_string()); }
		self.ws();
		let r = match self.peek().ok_or("unexpected end")? {
			b'n' => { self.eat(b"null")?; J::Null },
			b't' => { self.eat(b"true")?; J::Bool(true) },
			b'f' => { self.eat(b"false")?; J::Bool(false) },
			b'"' => J::Str(self.string()?),
			b'[' => {
				self.i += 1; self.ws();
				let mut v = Vec::new();
				if self.peek() == Some(b']') { self.i += 1; } else { loop {
					v.push(self.val(depth + 1)?); self.ws();
					match self.peek() { Some(b',') => self.i += 1, Some(b']') => { self.i += 1; break; }, _ => return Err(format!("expected , or ] at {}", self.i)) }
				} }
				J::Arr(v)
			},
			b'{' => {
				self.i += 1; self.ws();
				let mut v = Vec::new();
				if self.peek() == Some(b'}') { self.i += 1; } else { loop {
					self.ws();
					let k = self.string()?; self.ws(); self.eat(b":")?;
					let x = self.val(depth + 1)?; v.push((k, x)); self.ws();
					match self.peek() { Some(b',') => self.i += 1, Some(b'}') => { self.i += 1; break; }, _ => return Err(format!("expected , or }} at {}", self.i)) }
				} }
				J::Obj(v)
			},
			b'-' | b'0'..=b'9' => {
				let st = self.i;
				while let Some(b'-') | Some(b'+') | Some(b'.') | Some(b'e') | Some(b'E') | Some(b'0'..=b'9') = self.peek() { self.i += 1; }
				let t = std::str::from_utf8(&self.s[st..self.i]).unwrap();
				// the JSON number grammar: -? (0 | [1-9][0-9]*) (. [0-9]+)? ([eE] [+-]? [0-9]+)?
				let b = t.as_bytes(); let mut j = 0;
				if b.get(j) == Some(&b'-') { j += 1; }
				match b.get(j) { Some(b'0') => j += 1, Some(b'1'..=b'9') => { while let Some(b'0'..=b'9') = b.get(j) { j += 1; } }, _ => return Err(format!("bad number {}", t)) }
				if b.get(j) == Some(&b'.') { j += 1; let s0 = j; while let Some(b'0'..=b'9') = b.get(j) { j += 1; } if j == s0 { return Err(format!("bad number {}", t)); } }
				if let Some(b'e') | Some(b'E') = b.get(j) { j += 1; if let Some(b'+') | Some(b'-') = b.get(j) { j += 1; } let s0 = j; while let Some(b'0'..=b'9') = b.get(j) { j += 1; } if j == s0 { return Err(format!("bad number {}", t)); } }
				if j != b.len() { return Err(format!("bad number {}", t)); }
				J::Num(t.to_string())
			},
			c => return Err(format!("unexpected byte {:#x} at {}", c, self.i)),
		};
		Ok(r)
	}
}

fn read_json(text: &str) -> Result<J, String> {
	let mut rd = Rd { s: text.as_bytes(), i: 0 };
	let v = rd.val(0)?;
	rd.ws();
	if rd.i != rd.s.len() { return Err(format!("trailing bytes at {}", rd.i)); }
	Ok(v)
}

/// canonical token of a string: `'text` when it is non-empty and made of [A-Za-z0-9_.$@+#-] only, else `x<hex>`
fn tok(s: &[u8]) -> String {
	let safe = |b: u8| b.is_ascii_alphanumeric() || b"_.$@+#-".contains(&b);
	if !s.is_empty() && s.iter().all(|&b| safe(b)) { format!("'{}", std::str::from_utf8(s).unwrap()) }
	else { let mut o = String::from("x"); for b in s { o.push_str(&format!("{:02x}", b)); } o }
}

/// canonical text of a tree (the Lean driver prints the same for the model's value)
fn canon(j: &J, out: &mut String) {
	match j {
		J::Null => out.push_str("null"),
		J::Bool(b) => out.push_str(if *b { "true" } else { "false" }),
		J::Num(n) => out.push_str(n),
		J::Str(s) => out.push_str(&tok(s)),
		J::Arr(v) => { out.push('['); for (i, x) in v.iter().enumerate() { if i > 0 { out.push(','); } canon(x, out); } out.push(']'); },
		J::Obj(v) => { out.push('{'); for (i, (k, x)) in v.iter().enumerate() { if i > 0 { out.push(','); } out.push_str(&tok(k)); out.push(':'); canon(x, out); } out.push('}'); },
	}
}

/// `jsontext <k> <field>`: the exact bytes serde_json wrote for the named top-level member (hex)
fn member_text(text: &str, field: &str) -> String {
	let mut rd = Rd { s: text.as_bytes(), i: 0 };
	let r: Result<Option<(usize, usize)>, String> = (|| {
		rd.eat(b"{")?;
		if rd.peek() == Some(b'}') { return Ok(None); }
		loop {
			let k = rd.string()?; rd.eat(b":")?;
			let st = rd.i;
			rd.val(1)?;
			if k == field.as_bytes() { return Ok(Some((st, rd.i))); }
			match rd.peek() { Some(b',') => rd.i += 1, Some(b'}') => return Ok(None), _ => return Err(format!("expected , or }} at {}", rd.i)) }
		}
	})();
	match r {
		Err(e) => format!("malformed {}", e),
		Ok(None) => "missing".to_string(),
		Ok(Some((a, b))) => format!("ok {}", hex(&text.as_bytes()[a..b])),
	}
}

/// `jsonsub <k> <field>`: the named top-level member of the real document
fn sub_field(text: &str, field: &str) -> String {
	match read_json(text) {
		Err(e) => format!("malformed {}", e),
		Ok(J::Obj(members)) => match members.iter().find(|(k, _)| k == field.as_bytes()) {
			Some((_, x)) => { let mut o = String::from("ok "); canon(x, &mut o); o },
			None => "missing".to_string(),
		},
		Ok(_) => "malformed not an object".to_string(),
	}
}

fn num_of(v: &Value) -> String {
	match v { Value::Number(n) => n.to_string(), Value::Null => "-".to_string(), other => format!("?{}", other) }
}

fn sub(v: &Value) -> String {
	let h = &v["headers"];
	let nt = &h["NtHeaders"];
	let (fh, opt) = (&nt["FileHeader"], &nt["OptionalHeader"]);
	let dd: Vec<String> = h["DataDirectory"].as_array().map(|a| a.iter().map(|d| format!("{}:{}", num_of(&d["VirtualAddress"]), num_of(&d["Size"]))).collect()).unwrap_or_default();
	let sec: Vec<String> = h["SectionHeaders"].as_array().map(|a| a.iter().map(|s| format!("{}:{}:{}:{}:{}", num_of(&s["VirtualSize"]), num_of(&s["VirtualAddress"]), num_of(&s["SizeOfRawData"]), num_of(&s["PointerToRawData"]), num_of(&s["Characteristics"]))).collect()).unwrap_or_default();
	let det = &h["details"];
	let dds: Vec<String> = det["DataDirectory.Sections"].as_array().map(|a| a.iter().map(num_of).collect()).unwrap_or_default();
	let relocs = match &v["base_relocs"] {
		Value::Null => "-".to_string(),
		r => {
			let rv = r["rvas"].as_array().cloned().unwrap_or_default();
			let ty = r["types"].as_array().cloned().unwrap_or_default();
			if rv.len() != ty.len() { "?len".to_string() } else { format!("[{}]", rv.iter().zip(ty.iter()).map(|(a, b)| format!("{}:{}", num_of(a), num_of(b))).collect::<Vec<_>>().join(",")) }
		},
	};
	format!("ok dos.e_lfanew={} fh.nsec={} fh.soh={} opt.magic={} opt.code={}+{} opt.base={} opt.soi={} opt.soh={} opt.csum={} opt.nrva={} dd=[{}] sec=[{}] det.csum={} det.ddsec=[{}] relocs={}",
		num_of(&h["DosHeader"]["e_lfanew"]), num_of(&fh["NumberOfSections"]), num_of(&fh["SizeOfOptionalHeader"]), num_of(&opt["Magic"]),
		num_of(&opt["BaseOfCode"]), num_of(&opt["SizeOfCode"]), num_of(&opt["ImageBase"]), num_of(&opt["SizeOfImage"]), num_of(&opt["SizeOfHeaders"]),
		num_of(&opt["CheckSum"]), num_of(&opt["NumberOfRvaAndSizes"]), dd.join(","), sec.join(","), num_of(&det["OptionalHeader.CheckSum"]), dds.join(","), relocs)
}

pub fn dispatch(st: &mut State, fam: &str, rest: &str) -> Option<String> {
	let a: Vec<&str> = rest.split(' ').collect();
	Some(match (fam, a.len()) {
		("json", 1) => { let k = a[0]; with_any!(st, k, g, p => { let _ = g; match serde_json::to_string(&p) {
			Ok(js) => match serde_json::from_str::<Value>(&js) { Ok(v) => format!("ok len={} keys={}", js.len(), v.as_object().map(|o| o.len()).unwrap_or(0)), Err(e) => format!("malformed {}", e) },
			Err(e) => format!("fail {}", e) } }) },
		("jsonsub", 1) => { let k = a[0]; with_any!(st, k, g, p => { let _ = g; match serde_json::to_value(&p) { Ok(v) => sub(&v), Err(e) => format!("fail {}", e) } }) },
		("jsonsub", 2) => { let k = a[0]; with_any!(st, k, g, p => { let _ = g; match serde_json::to_string(&p) { Ok(js) => sub_field(&js, a[1]), Err(e) => format!("fail {}", e) } }) },
		("jsontext", 2) => { let k = a[0]; with_any!(st, k, g, p => { let _ = g; match serde_json::to_string(&p) { Ok(js) => member_text(&js, a[1]), Err(e) => format!("fail {}", e) } }) },
		("relocs", 2) if a[1] == "dump" => { let k = a[0]; with_any!(st, k, g, p => match p.base_relocs() {
			Ok(br) => {
				let mut blocks = Vec::new();
				let mut flat = Vec::new();
				for b in br.iter_blocks() {
					let im = b.image(); let w = b.words();
					blocks.push(format!("{}@{}+{}/{}", im.VirtualAddress, g.rf(im as *const _ as *const u8, 8), im.SizeOfBlock, g.rf(w.as_ptr() as *const u8, w.len() * 2)));
					if blocks.len() > br.image().len() / 8 { return Some(format!("diverge relocs: {} blocks from a directory of {} bytes, only {} block headers fit", blocks.len(), br.image().len(), br.image().len() / 8)); }
				}
				br.for_each(|rva, ty| flat.push(format!("{}:{}", rva, ty)));
				format!("ok image={} blocks=[{}] flat=[{}]", g.rf(br.image().as_ptr(), br.image().len()), blocks.join(","), flat.join(","))
			},
			Err(e) => format!("err {}", errname(e)),
		}) },
		_ => return None,
	})
}
