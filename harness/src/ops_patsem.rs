//! C11 (semantic half): pattern STRING -> `pelite::pattern::parse` -> `Scanner::exec` on the current image.
//! ```text
//! pat_sem <k> <hex of the UTF-8 bytes of the pattern string> <cursor rva> <nsave>
//!    -> ok <0|1> save=[..]  |  err <ParsePatErrorKind> <pos>  |  err NotUtf8
//! ```
//! (`pat_ref`, the raw-buffer variant, is model only: `impl Scan for &[u8]` is private to the crate.)
use crate::util::*;
use crate::State;
use pelite::pattern;

fn fmt_save(save: &[u32]) -> String {
	format!("[{}]", save.iter().map(|x| x.to_string()).collect::<Vec<_>>().join(","))
}
fn b01(b: bool) -> &'static str { if b { "1" } else { "0" } }

/// copy of `ops_pattern::err_str` (private there): `ParsePatError`'s fields are private, take them from
/// its `Debug` text
fn err_str(e: &pattern::ParsePatError) -> String {
	let dbg = format!("{:?}", e);
	let kind = dbg.split("kind: ").nth(1).and_then(|s| s.split(',').next()).unwrap_or("?").trim().to_string();
	let pos = dbg.split("position: ").nth(1).map(|s| s.trim_end_matches(|c: char| !c.is_ascii_digit()).to_string()).unwrap_or_else(|| "?".to_string());
	format!("err {} {}", kind, pos)
}

/// the pattern string -> atoms, or the canonical error answer
fn parse_pat(hexs: &str) -> Result<Vec<pattern::Atom>, String> {
	let data = unhex(hexs);
	// the string sits flush against a guard page: an over-read of the parser faults
	let gs = Guarded::new(&data, 0, true);
	let s = match std::str::from_utf8(gs.bytes()) { Ok(s) => s, Err(_) => return Err("err NotUtf8".to_string()) };
	pattern::parse(s).map_err(|e| err_str(&e))
}

/// pat_sem <k> <hex pattern string> <cursor> <nsave>
/// (order as in the model's driver: the view is constructed first, then the string is parsed)
fn pat_sem(st: &State, rest: &str) -> String {
	let a: Vec<&str> = rest.split(' ').collect();
	if a.len() != 4 { return "bad-op".to_string(); }
	let (k, cursor, nsave) = (a[0], num(a[2]) as u32, num(a[3]) as usize);
	with_any!(st, k, g, p => {
		let _ = g;
		match parse_pat(a[1]) {
			Err(e) => e,
			Ok(pat) => {
				let mut save = vec![0u32; nsave];
				let r = p.scanner().exec(cursor, &pat, &mut save);
				format!("ok {} save={}", b01(r), fmt_save(&save))
			},
		}
	})
}

pub fn dispatch(st: &mut State, fam: &str, rest: &str) -> Option<String> {
	Some(match fam {
		"pat_sem" => pat_sem(st, rest),
		_ => return None,
	})
}
