//! Pattern parser operations: `pat_parse <hex of the UTF-8 bytes of the string>`.
use crate::util::*;
use pelite::pattern::{self, Atom};

/// canonical atom text: the variant name and, where there is one, the decimal argument
/// (identical to `Atom.show` of the Lean model)
pub fn atom_str(a: &Atom) -> String {
	use pelite::pattern::Atom::*;
	match *a {
		Byte(x) => format!("Byte({})", x),
		Save(x) => format!("Save({})", x),
		Push(x) => format!("Push({})", x),
		Pop => "Pop".to_string(),
		Fuzzy(x) => format!("Fuzzy({})", x),
		Skip(x) => format!("Skip({})", x),
		Back(x) => format!("Back({})", x),
		Rangext(x) => format!("Rangext({})", x),
		Many(x) => format!("Many({})", x),
		Jump1 => "Jump1".to_string(),
		Jump4 => "Jump4".to_string(),
		Ptr => "Ptr".to_string(),
		Pir(x) => format!("Pir({})", x),
		VTypeName => "VTypeName".to_string(),
		Check(x) => format!("Check({})", x),
		Aligned(x) => format!("Aligned({})", x),
		ReadI8(x) => format!("ReadI8({})", x),
		ReadU8(x) => format!("ReadU8({})", x),
		ReadI16(x) => format!("ReadI16({})", x),
		ReadU16(x) => format!("ReadU16({})", x),
		ReadI32(x) => format!("ReadI32({})", x),
		ReadU32(x) => format!("ReadU32({})", x),
		Zero(x) => format!("Zero({})", x),
		Case(x) => format!("Case({})", x),
		Break(x) => format!("Break({})", x),
		Nop => "Nop".to_string(),
	}
}

pub fn atoms_str(atoms: &[Atom]) -> String {
	if atoms.is_empty() { return "-".to_string(); }
	atoms.iter().map(atom_str).collect::<Vec<_>>().join(",")
}

/// `ParsePatError`'s fields are private: take them from its `Debug` text
/// `ParsePatError { kind: StackError, position: 2 }` (the `Display` wording is nobody's contract)
fn err_str(e: &pattern::ParsePatError) -> String {
	let dbg = format!("{:?}", e);
	let kind = dbg.split("kind: ").nth(1).and_then(|s| s.split(',').next()).unwrap_or("?").trim().to_string();
	let pos = dbg.split("position: ").nth(1).map(|s| s.trim_end_matches(|c: char| !c.is_ascii_digit()).to_string()).unwrap_or_else(|| "?".to_string());
	format!("err {} {}", kind, pos)
}

/// pat_parse <hex>
pub fn pat_parse(rest: &str) -> String {
	let data = unhex(rest.trim());
	// the string sits flush against a guard page: an over-read of the parser faults
	let g = Guarded::new(&data, 0, true);
	let s = match std::str::from_utf8(g.bytes()) { Ok(s) => s, Err(_) => return "err NotUtf8".to_string() };
	match pattern::parse(s) {
		Ok(atoms) => format!("ok save_len={} atoms={}", pattern::save_len(&atoms), atoms_str(&atoms)),
		Err(e) => err_str(&e),
	}
}

pub fn dispatch(_st: &mut crate::State, fam: &str, rest: &str) -> Option<String> {
	Some(match fam {
		"pat_parse" => pat_parse(rest),
		_ => return None,
	})
}
