//! Operation families that take their bytes inline (no image).
use crate::util::*;
use pelite::strings::Config;

/// strings <min_length> <min_length_nul> <strict 0|1> <base> <hex>
pub fn strings(rest: &str) -> String {
	let a: Vec<&str> = rest.split(' ').collect();
	let cfg = Config { min_length: num(a[0]) as u8, min_length_nul: num(a[1]) as u8, strict_nul: a[2] == "1", ..Config::default() };
	let base = num(a[3]) as u32;
	let data = unhex(a[4]);
	let g = Guarded::new(&data, 0, true);
	let mut out = Vec::new();
	let mut it = cfg.enumerate(base, g.bytes());
	let mut n = 0usize;
	while let Some(f) = it.next() {
		out.push(format!("{}:{}:{}", g.rf(f.string.as_ptr(), f.string.len()), f.address, f.has_nul as u8));
		n += 1;
		if n > data.len() + 2 { return "diverge".to_string(); }
	}
	// fused at the end
	let again = it.next().is_none() && it.next().is_none();
	format!("ok [{}] fused={}", out.join(","), again as u8)
}

/// strings_hist <min_length> <min_length_nul> <strict 0|1> <base> <hex> <history>
/// history = comma list of next | nth:K | count | hint | clone   (as relocs_hist)
pub fn strings_hist(rest: &str) -> String {
	let a: Vec<&str> = rest.split(' ').collect();
	if a.len() != 6 { return "bad-op".to_string(); }
	let cfg = Config { min_length: num(a[0]) as u8, min_length_nul: num(a[1]) as u8, strict_nul: a[2] == "1", ..Config::default() };
	let base = num(a[3]) as u32;
	let data = unhex(a[4]);
	let g = Guarded::new(&data, 0, true);
	let fmt = |f: &pelite::strings::Found| format!("{}:{}:{}", g.rf(f.string.as_ptr(), f.string.len()), f.address, f.has_nul as u8);
	let item = |o: Option<pelite::strings::Found>| o.map(|f| fmt(&f)).unwrap_or_else(|| "None".to_string());
	let mut it = cfg.enumerate(base, g.bytes());
	let mut res = Vec::new();
	for h in a[5].split(',') {
		match h {
			"next" => res.push(item(it.next())),
			"count" => res.push(it.clone().count().to_string()),
			"hint" => { let (lo, hi) = it.size_hint(); res.push(format!("{}..{}", lo, hi.map_or("None".to_string(), |h| h.to_string()))); },
			"clone" => { it = it.clone(); res.push(format!("[{}]", it.clone().map(|f| fmt(&f)).collect::<Vec<_>>().join(","))); },
			_ if h.starts_with("nth:") => res.push(item(it.nth(num(&h[4..]) as usize))),
			_ => {},
		}
	}
	let mut n = 0usize;
	while it.next().is_some() { n += 1; if n > data.len() + 2 { return "diverge".to_string(); } }
	let fused = it.next().is_none() && it.next().is_none();
	format!("ok {} fused={}", res.join(";"), fused as u8)
}

/// relocs_raw <hex>   (buffer placed 4-aligned)
pub fn relocs_raw(rest: &str) -> String {
	relocs_at(4, rest.trim())
}

/// relocs_rawat <align16> <hex>   (buffer placed at an address that is align16 mod 16)
pub fn relocs_rawat(rest: &str) -> String {
	let a: Vec<&str> = rest.trim().split(' ').collect();
	if a.len() != 2 { return "bad-op".to_string(); }
	relocs_at(num(a[0]) as usize % 16, a[1])
}

fn fmt_block(g: &Guarded, b: &pelite::base_relocs::Block) -> String {
	let im = b.image();
	let w = b.words();
	format!("{}@{}+{}/{}", im.VirtualAddress, g.rf(im as *const _ as *const u8, 8), im.SizeOfBlock, g.rf(w.as_ptr() as *const u8, w.len() * 2))
}

fn relocs_at(align16: usize, hx: &str) -> String {
	let data = unhex(hx);
	let g = Guarded::new(&data, align16, true);
	let r = match pelite::base_relocs::BaseRelocs::parse(g.bytes()) { Ok(r) => r, Err(e) => return format!("err {}", errname(e)) };
	let mut blocks = Vec::new();
	let mut flat_it = Vec::new();
	let mut n = 0usize;
	for b in r.iter_blocks() {
		blocks.push(fmt_block(&g, &b));
		for word in b.words() {
			let ty = b.type_of(word);
			if ty != 0 { flat_it.push((b.rva_of(word), ty)); }
		}
		n += 1;
		// C03: every block consumes at least its 8-byte header, so at most len/8 blocks (the smallest record size)
		if n > data.len() / 8 { return format!("diverge relocs: {} blocks from {} bytes, only {} block headers fit", n, data.len(), data.len() / 8); }
	}
	let mut flat_fold = Vec::new();
	r.for_each(|rva, ty| flat_fold.push((rva, ty)));
	let folded = r.fold(0u64, |acc, rva, ty| acc.wrapping_mul(31).wrapping_add(rva as u64 * 16 + ty as u64));
	let expect = flat_fold.iter().fold(0u64, |acc, &(rva, ty)| acc.wrapping_mul(31).wrapping_add(rva as u64 * 16 + ty as u64));
	let f = |v: &Vec<(u32, u8)>| v.iter().map(|(a, b)| format!("{}:{}", a, b)).collect::<Vec<_>>().join(",");
	format!("ok blocks=[{}] flat=[{}] foreach_same={} fold_same={}", blocks.join(","), f(&flat_it), (flat_it == flat_fold) as u8, (folded == expect) as u8)
}

/// relocs_hist <hex> <history>   history = comma list of next | nth:K | count | hint | clone
/// (`count` = `it.clone().count()`, `clone` = continue on a clone and list what it still yields)
pub fn relocs_hist(rest: &str) -> String {
	let a: Vec<&str> = rest.trim().split(' ').collect();
	if a.len() != 2 { return "bad-op".to_string(); }
	let data = unhex(a[0]);
	let g = Guarded::new(&data, 4, true);
	let r = match pelite::base_relocs::BaseRelocs::parse(g.bytes()) { Ok(r) => r, Err(e) => return format!("err {}", errname(e)) };
	let mut it = r.iter_blocks();
	let mut res = Vec::new();
	let item = |o: Option<pelite::base_relocs::Block>| o.map(|b| fmt_block(&g, &b)).unwrap_or_else(|| "None".to_string());
	for h in a[1].split(',') {
		match h {
			"next" => res.push(item(it.next())),
			"count" => res.push(it.clone().count().to_string()),
			"hint" => { let (lo, hi) = it.size_hint(); res.push(format!("{}..{}", lo, hi.map_or("None".to_string(), |h| h.to_string()))); },
			"clone" => { it = it.clone(); res.push(format!("[{}]", it.clone().map(|b| fmt_block(&g, &b)).collect::<Vec<_>>().join(","))); },
			_ if h.starts_with("nth:") => res.push(item(it.nth(num(&h[4..]) as usize))),
			_ => {},
		}
	}
	// fused: drain, then keep asking
	let mut n = 0usize;
	while it.next().is_some() { n += 1; if n > data.len() + 2 { return "diverge".to_string(); } }
	let fused = it.next().is_none() && it.next().is_none();
	format!("ok {} fused={}", res.join(";"), fused as u8)
}

/// relocs_build <rva:ty,rva:ty,...>   ('-' for none)
pub fn relocs_build(rest: &str) -> String {
	let mut rvas = Vec::new();
	let mut types = Vec::new();
	let rest = rest.trim();
	if rest != "-" {
		for p in rest.split(',') {
			let mut q = p.split(':');
			rvas.push(num(q.next().unwrap()) as u32);
			types.push(num(q.next().unwrap()) as u8);
		}
	}
	let out = pelite::base_relocs::build(&rvas, &types);
	// parse it back with the real parser (placed 4-aligned between guard pages)
	let g = Guarded::new(&out, 4, true);
	let mut flat = Vec::new();
	match pelite::base_relocs::BaseRelocs::parse(g.bytes()) {
		Ok(r) => r.for_each(|rva, ty| flat.push(format!("{}:{}", rva, ty))),
		Err(e) => return format!("ok {} reparse=err {}", hex(&out), errname(e)),
	}
	format!("ok {} flat=[{}]", hex(&out), flat.join(","))
}

/// fmt_cstr <hex>  (bytes of the string without the NUL; a NUL is appended)
pub fn fmt_cstr(rest: &str) -> String {
	let mut data = unhex(rest.trim());
	data.push(0);
	let g = Guarded::new(&data, 0, true);
	match pelite::util::CStr::from_bytes(g.bytes()) {
		Some(c) => format!("ok dbg={} disp={}", hex(format!("{:?}", c).as_bytes()), hex(format!("{}", c).as_bytes())),
		None => "none".to_string(),
	}
}

/// ptr <32|64> <at|offset|member|text> <address> [<size> <i> | <offset>]
/// the typed addresses `pe32::Ptr<T>`, `pe64::Ptr<T>` (`Pir<T>` is behind the non-default feature `unstable`): new address and its Display text
/// (`size` selects the element type of `Ptr<[T]>::at`; offsets are given in two's complement of the width)
pub fn ptr_op(rest: &str) -> String {
	let a: Vec<&str> = rest.trim().split(' ').collect();
	if a.len() < 3 { return "bad-op".to_string(); }
	let va = num(a[2]);
	macro_rules! at_by_size { ($P:ident, $va:expr, $size:expr, $i:expr) => { match $size {
		1 => $P::<[u8]>::from($va).at($i).into_raw() as u64, 2 => $P::<[u16]>::from($va).at($i).into_raw() as u64,
		4 => $P::<[u32]>::from($va).at($i).into_raw() as u64, 8 => $P::<[u64]>::from($va).at($i).into_raw() as u64,
		3 => $P::<[[u8; 3]]>::from($va).at($i).into_raw() as u64, 16 => $P::<[[u8; 16]]>::from($va).at($i).into_raw() as u64,
		20 => $P::<[[u8; 20]]>::from($va).at($i).into_raw() as u64, 40 => $P::<[[u8; 40]]>::from($va).at($i).into_raw() as u64,
		_ => return "bad-op".to_string() } } }
	match (a[0], a[1], a.len()) {
		("32", "at", 5) => { use pelite::pe32::Ptr; let r = at_by_size!(Ptr, va as u32, num(a[3]), num(a[4]) as usize); format!("ok {} text={}", r, hex(format!("{}", Ptr::<()>::from(r as u32)).as_bytes())) },
		("64", "at", 5) => { use pelite::pe64::Ptr; let r = at_by_size!(Ptr, va, num(a[3]), num(a[4]) as usize); format!("ok {} text={}", r, hex(format!("{}", Ptr::<()>::from(r)).as_bytes())) },
		("32", "offset", 4) => { use pelite::pe32::Ptr; let p = Ptr::<u8>::from(va as u32).offset::<u16>(num(a[3]) as u32 as i32); format!("ok {} text={}", p.into_raw(), hex(format!("{}", p).as_bytes())) },
		("64", "offset", 4) => { use pelite::pe64::Ptr; let p = Ptr::<u8>::from(va).offset::<u16>(num(a[3]) as i64); format!("ok {} text={}", p.into_raw(), hex(format!("{}", p).as_bytes())) },
		("32", "member", 4) => { use pelite::pe32::Ptr; let p = Ptr::<u32>::member(va as u32, num(a[3]) as u32); format!("ok {} text={}", p.into_raw(), hex(format!("{:?}", p).as_bytes())) },
		("64", "member", 4) => { use pelite::pe64::Ptr; let p = Ptr::<u32>::member(va, num(a[3]) as u32); format!("ok {} text={}", p.into_raw(), hex(format!("{:?}", p).as_bytes())) },
		("32", "text", 3) => { use pelite::pe32::Ptr; let p = Ptr::<u32>::from(va as u32); format!("ok {} text={}", p.into_raw(), hex(format!("{}", p).as_bytes())) },
		("64", "text", 3) => { use pelite::pe64::Ptr; let p = Ptr::<u32>::from(va); format!("ok {} text={}", p.into_raw(), hex(format!("{:?}", p).as_bytes())) },
		_ => "bad-op".to_string(),
	}
}

pub fn dispatch(_st: &mut crate::State, fam: &str, rest: &str) -> Option<String> {
	Some(match fam {
		"fmt_cstr" => fmt_cstr(rest),
		"ptr" => ptr_op(rest),
		"strings" => strings(rest),
		"strings_hist" => strings_hist(rest),
		"relocs_raw" => relocs_raw(rest),
		"relocs_rawat" => relocs_rawat(rest),
		"relocs_hist" => relocs_hist(rest),
		"relocs_build" => relocs_build(rest),
		_ => return None,
	})
}
