//! `res` family: src/resources/{mod,find,group,art}.rs through `Pe::resources()` of the current
//! image, or through `Resources::new` on inline section bytes (`res_raw`).
//!
//!     res <k> dump | fsck | fmt | manifest | icons | cursors | version
//!     res <k> find <path-hex> | fmtdir <path-hex> | fsckdir <path-hex>
//!     res <k> get <dirpath-hex> <name|->            (`-` = first / first_data / first_dir)
//!     res <k> find_resource <type> <name> [<lang>]
//!     grp_write <k> <group-name> [cursor]
//!     grp_write_chunk <k> <group-name> [cursor] <n>   (`write` into a sink accepting at most n bytes per call)
//!     res_raw <dirVA> <hex section> [<sub> args…]     (default sub: all)
//!     res_rawat <a16> <dirVA> <hex section> [<sub> args…]   (section at an address that is a16 mod 16)
//!
//! names: `i:<id>` = Name::Id, `w:<utf-16 units, 4 hex digits each>` = Name::Wide, `s:<utf-8 hex>` = Name::Str.
//! Tokens starting with `want=` (python oracle) or `tree=` (Lean specification) are ignored here.
use crate::util::*;
use crate::State;
use pelite::resources::group::GroupResource;
use pelite::resources::{DataEntry, Directory, DirectoryEntry, Entry, FindError, Name, Resources};
use std::os::unix::ffi::OsStrExt;

const DEPTH_CAP: usize = 6;
const COUNT_CAP: usize = 400;

fn hexw(ws: &[u16]) -> String {
	if ws.is_empty() { return "-".to_string(); }
	ws.iter().map(|w| format!("{:04x}", w)).collect()
}
fn unhexw(s: &str) -> Vec<u16> {
	if s == "-" || s.is_empty() { return Vec::new(); }
	let b = s.as_bytes();
	(0..b.len() / 4).map(|i| u16::from_str_radix(std::str::from_utf8(&b[i * 4..i * 4 + 4]).unwrap(), 16).expect("bad hex word")).collect()
}
fn ferr(e: FindError) -> &'static str {
	match e {
		FindError::Pe(e) => errname(e),
		FindError::Bad8Path => "Bad8Path",
		FindError::NotFound => "NotFound",
		FindError::NoRootPath => "NoRootPath",
		FindError::UnDataEntry => "UnDataEntry",
		FindError::UnDirectory => "UnDirectory",
	}
}
fn name_s(g: &Guarded, n: Name<'_>) -> String {
	match n {
		Name::Id(id) => format!("#{}", id),
		Name::Wide(ws) => format!("w{}@{}", hexw(ws), g.rf(ws.as_ptr() as *const u8, ws.len() * 2)),
		Name::Str(s) => format!("s{}", hex(s.as_bytes())),
	}
}
fn bytes_s(g: &Guarded, r: Result<&[u8], pelite::Error>) -> String {
	match r { Ok(b) => format!("{}#{}", g.rf(b.as_ptr(), b.len()), digest(b)), Err(e) => format!("!{}", errname(e)) }
}
fn dir_s(g: &Guarded, d: &Directory<'_>) -> String {
	let im = d.image();
	format!("D@{}[{},{}]", crate::ops_img::tref(g, im, 16), im.NumberOfNamedEntries, im.NumberOfIdEntries)
}
fn data_s(g: &Guarded, de: &DataEntry<'_>) -> String {
	format!("F@{}({},cp={},size={})", crate::ops_img::tref(g, de.image(), 16), bytes_s(g, de.bytes()), de.code_page(), de.size())
}
fn entry_s(g: &Guarded, e: &Entry<'_>) -> String {
	match e { Entry::Directory(d) => dir_s(g, d), Entry::DataEntry(de) => data_s(g, de) }
}
fn fres<T>(r: Result<T, FindError>, f: impl Fn(&T) -> String) -> String {
	match r { Ok(v) => format!("ok {}", f(&v)), Err(e) => format!("err {}", ferr(e)) }
}
/// the same with `:` instead of a space (for results embedded in a longer answer)
fn fres_c<T>(r: Result<T, FindError>, f: impl Fn(&T) -> String) -> String {
	match r { Ok(v) => format!("ok:{}", f(&v)), Err(e) => format!("err:{}", ferr(e)) }
}

enum OwnedName { Id(u32), Wide(Vec<u16>), Str(String) }
impl OwnedName {
	fn parse(s: &str) -> Option<OwnedName> {
		if let Some(x) = s.strip_prefix("i:") { Some(OwnedName::Id(num(x) as u32)) }
		else if let Some(x) = s.strip_prefix("w:") { Some(OwnedName::Wide(unhexw(x))) }
		else if let Some(x) = s.strip_prefix("s:") { String::from_utf8(unhex(x)).ok().map(OwnedName::Str) }
		else { None }
	}
	fn get(&self) -> Name<'_> {
		match self { OwnedName::Id(n) => Name::Id(*n), OwnedName::Wide(w) => Name::Wide(&w[..]), OwnedName::Str(s) => Name::Str(&s[..]) }
	}
}

fn dump_dir(g: &Guarded, d: &Directory<'_>, depth: usize, count: &mut usize, out: &mut String) {
	let all: Vec<*const u8> = d.entries().map(|e| e.image() as *const _ as *const u8).collect();
	let split: Vec<*const u8> = d.named_entries().chain(d.id_entries()).map(|e| e.image() as *const _ as *const u8).collect();
	out.push_str(&format!("{{split={};", (all == split) as u8));
	for e in d.entries() {
		if *count == 0 { out.push('~'); break; }
		*count -= 1;
		dump_entry(g, &e, depth, count, out);
		out.push(',');
	}
	out.push('}');
}
fn dump_entry(g: &Guarded, e: &DirectoryEntry<'_>, depth: usize, count: &mut usize, out: &mut String) {
	match e.name() { Ok(n) => out.push_str(&name_s(g, n)), Err(err) => out.push_str(&format!("!{}", errname(err))) }
	out.push(':');
	match e.entry() {
		Ok(Entry::Directory(c)) => {
			out.push_str(&dir_s(g, &c));
			if depth + 1 < DEPTH_CAP { dump_dir(g, &c, depth + 1, count, out); } else { out.push('^'); }
		},
		Ok(Entry::DataEntry(de)) => out.push_str(&data_s(g, &de)),
		Err(err) => out.push_str(&format!("{}!{}", if e.is_dir() { "D" } else { "F" }, errname(err))),
	}
}
fn dump(g: &Guarded, r: Resources<'_>) -> String {
	let root = match r.root() { Ok(d) => d, Err(e) => return format!("err {}", errname(e)) };
	let mut out = format!("ok {}", dir_s(g, &root));
	let mut count = COUNT_CAP;
	dump_dir(g, &root, 0, &mut count, &mut out);
	out
}

/// The tree printer embeds `Display` of `pelite::Error` for entries it cannot read; the wording of those
/// messages is nobody's contract, so each message is replaced by the canonical token `<E:Kind>` (the model
/// prints the same token) before the text is digested.
fn canon_errors(s: &str) -> String {
	use pelite::Error::*;
	let mut all: Vec<(String, &'static str)> = [Null, Bounds, ZeroFill, Unmapped, Misaligned, BadMagic, PeMagic, Insanity, Invalid, Overflow, Encoding, Aliasing]
		.iter().map(|&e| (format!("{}", e), errname(e))).collect();
	all.sort_by(|a, b| b.0.len().cmp(&a.0.len()));
	let mut out = s.to_string();
	for (text, name) in all {
		if !text.is_empty() { out = out.replace(&text, &format!("<E:{}>", name)); }
	}
	out
}
fn text_s(s: &str) -> String {
	let s = &canon_errors(s);
	format!("{} lines={} len={}", digest(s.as_bytes()), s.bytes().filter(|&b| b == b'\n').count(), s.len())
}

fn group_s(g: &Guarded, grp: &GroupResource<'_>) -> String {
	let hdr = grp.header();
	let es = grp.entries();
	let imgs: Vec<String> = es.iter().take(8).map(|e| format!("{}:{}:{}", e.nId, e.bytes_in_resource(), match grp.image(e.nId) { Ok(b) => format!("{}#{}", g.rf(b.as_ptr(), b.len()), digest(b)), Err(e) => format!("!{}", ferr(e)) })).collect();
	format!("(ty={},n={},@{},es={},img=[{}])", hdr.idType, hdr.idCount, g.rf(hdr as *const _ as *const u8, 6), g.rf(es.as_ptr() as *const u8, es.len() * 14), imgs.join(";"))
}
fn groups<'a>(g: &Guarded, it: impl Iterator<Item = Result<(Name<'a>, GroupResource<'a>), FindError>>) -> String {
	let items: Vec<String> = it.take(COUNT_CAP).map(|r| match r { Ok((n, grp)) => format!("{}={}", name_s(g, n), group_s(g, &grp)), Err(e) => format!("!{}", ferr(e)) }).collect();
	format!("ok [{}]", items.join(","))
}

/// a sink that accepts at most `per_call` bytes per `write` call (a pipe, a cursor over a short buffer)
struct ChunkSink { received: Vec<u8>, per_call: usize, calls: usize }
impl std::io::Write for ChunkSink {
	fn write(&mut self, buf: &[u8]) -> std::io::Result<usize> {
		self.calls += 1;
		let k = buf.len().min(self.per_call);
		self.received.extend_from_slice(&buf[..k]);
		Ok(k)
	}
	fn flush(&mut self) -> std::io::Result<()> { Ok(()) }
}

fn path_of(hexs: &str) -> Vec<u8> { unhex(hexs) }

fn run(g: &Guarded, r: Resources<'_>, a: &[&str]) -> String {
	let a: Vec<&str> = a.iter().cloned().filter(|x| !x.is_empty() && !x.starts_with("want=") && !x.starts_with("tree=") && !x.starts_with("canon=") && !x.starts_with("local=")).collect();
	match (a.get(0).cloned().unwrap_or("all"), a.len()) {
		("all", _) => format!("fsck={} fmt={} dump={}", match r.fsck() { Ok(()) => "ok".to_string(), Err(e) => format!("err:{}", errname(e)) }, text_s(&format!("{}", r)), dump(g, r)),
		("dump", 1) => dump(g, r),
		("fsck", 1) => match r.fsck() { Ok(()) => "ok".to_string(), Err(e) => format!("err {}", errname(e)) },
		("fmt", 1) => format!("ok {}", text_s(&format!("{}", r))),
		("find", 2) => {
			let pb = path_of(a[1]);
			let path = std::path::Path::new(std::ffi::OsStr::from_bytes(&pb));
			format!("{} data={} dir={}", fres(r.find(path), |e| entry_s(g, e)), fres_c(r.find_data(path), |d| data_s(g, d)), fres_c(r.find_dir(path), |d| dir_s(g, d)))
		},
		("fmtdir", 2) | ("fsckdir", 2) | ("get", 3) | ("dfind", 3) => {
			let pb = path_of(a[1]);
			let path = std::path::Path::new(std::ffi::OsStr::from_bytes(&pb));
			let d = match r.find_dir(path) { Ok(d) => d, Err(e) => return format!("nodir {}", ferr(e)) };
			match a[0] {
				"fmtdir" => format!("ok {}", text_s(&format!("{}", d))),
				"fsckdir" => {
					let es: Vec<String> = d.entries().take(16).map(|e| match e.fsck() { Ok(()) => "ok".to_string(), Err(e) => errname(e).to_string() }).collect();
					format!("{} entries=[{}]", match d.fsck() { Ok(()) => "ok".to_string(), Err(e) => format!("err {}", errname(e)) }, es.join(","))
				},
				"dfind" => {
					let qb = path_of(a[2]);
					let q = std::path::Path::new(std::ffi::OsStr::from_bytes(&qb));
					format!("{} data={} dir={}", fres(d.find(q), |e| entry_s(g, e)), fres_c(d.find_data(q), |d| data_s(g, d)), fres_c(d.find_dir(q), |d| dir_s(g, d)))
				},
				_ => {
					if a[2] == "-" {
						format!("{} data={} dir={}", fres(d.first(), |e| entry_s(g, e)), fres_c(d.first_data(), |d| data_s(g, d)), fres_c(d.first_dir(), |d| dir_s(g, d)))
					} else {
						let n = match OwnedName::parse(a[2]) { Some(n) => n, None => return "bad-op".to_string() };
						format!("{} data={} dir={}", fres(d.get(n.get()), |e| entry_s(g, e)), fres_c(d.get_data(n.get()), |d| data_s(g, d)), fres_c(d.get_dir(n.get()), |d| dir_s(g, d)))
					}
				},
			}
		},
		("find_resource", 3) | ("find_resource", 4) => {
			let ns: Vec<OwnedName> = match a[1..].iter().map(|s| OwnedName::parse(s)).collect::<Option<Vec<_>>>() { Some(v) => v, None => return "bad-op".to_string() };
			if ns.len() == 2 {
				let p = [ns[0].get(), ns[1].get()];
				format!("{} dir={}", fres(r.find_resource(&p), |b| format!("{}#{}", g.rf(b.as_ptr(), b.len()), digest(b))), fres_c(r.find_resources(&p), |d| dir_s(g, d)))
			} else {
				let p = [ns[0].get(), ns[1].get(), ns[2].get()];
				fres(r.find_resource_ex(&p), |b| format!("{}#{}", g.rf(b.as_ptr(), b.len()), digest(b)))
			}
		},
		("manifest", 1) => fres(r.manifest(), |s| format!("{}#{}", g.rf(s.as_ptr(), s.len()), digest(s.as_bytes()))),
		("icons", 1) => groups(g, r.icons()),
		("cursors", 1) => groups(g, r.cursors()),
		("version", 1) => {
			let vi = match r.version_info() { Ok(_) => "ok".to_string(), Err(e) => format!("err:{}", ferr(e)) };
			format!("{} vi={}", fres(r.find_resource(&[Name::VERSION, Name::Id(1)]), |b| format!("{}#{}", g.rf(b.as_ptr(), b.len()), digest(b))), vi)
		},
		("grp_write_chunk", 3) | ("grp_write_chunk", 4) => {
			// `write` into a sink whose `io::Write::write` accepts at most `n` bytes per call
			let n = match OwnedName::parse(a[1]) { Some(n) => n, None => return "bad-op".to_string() };
			let cursor = a.len() == 4;
			if cursor && a[2] != "cursor" { return "bad-op".to_string(); }
			let per_call = num(a[a.len() - 1]) as usize;
			let found = if cursor { r.cursors().take(COUNT_CAP).filter_map(Result::ok).find(|(nm, _)| *nm == n.get()) } else { r.icons().take(COUNT_CAP).filter_map(Result::ok).find(|(nm, _)| *nm == n.get()) };
			match found {
				Some((_, grp)) => {
					let mut sink = ChunkSink { received: Vec::new(), per_call, calls: 0 };
					match grp.write(&mut sink) { Ok(()) => format!("ok {}", hex(&sink.received)), Err(_) => "err io".to_string() }
				},
				None => "none".to_string(),
			}
		},
		("grp_write", 2) | ("grp_write", 3) => {
			let n = match OwnedName::parse(a[1]) { Some(n) => n, None => return "bad-op".to_string() };
			let cursor = a.get(2) == Some(&"cursor");
			let found = if cursor { r.cursors().take(COUNT_CAP).filter_map(Result::ok).find(|(nm, _)| *nm == n.get()) } else { r.icons().take(COUNT_CAP).filter_map(Result::ok).find(|(nm, _)| *nm == n.get()) };
			match found {
				Some((_, grp)) => {
					let mut v = Vec::new();
					match grp.write(&mut v) { Ok(()) => format!("ok {}", hex(&v)), Err(_) => "err io".to_string() }
				},
				None => "none".to_string(),
			}
		},
		_ => "bad-op".to_string(),
	}
}

/// res <k> <sub> [args]
fn res(st: &State, rest: &str) -> String {
	let a: Vec<&str> = rest.split(' ').collect();
	if a.len() < 2 { return "bad-op".to_string(); }
	let k = a[0];
	with_any!(st, k, g, p => match p.resources() { Ok(r) => run(g, r, &a[1..]), Err(e) => format!("err {}", errname(e)) })
}
/// grp_write <k> <name> [cursor]
fn grp_write(st: &State, rest: &str) -> String {
	let a: Vec<&str> = rest.split(' ').collect();
	if a.len() < 2 { return "bad-op".to_string(); }
	let k = a[0];
	let mut sub = vec!["grp_write"];
	sub.extend_from_slice(&a[1..]);
	with_any!(st, k, g, p => match p.resources() { Ok(r) => run(g, r, &sub), Err(e) => format!("err {}", errname(e)) })
}
/// grp_write_chunk <k> <name> [cursor] <n>
fn grp_write_chunk(st: &State, rest: &str) -> String {
	let a: Vec<&str> = rest.split(' ').collect();
	if a.len() < 3 { return "bad-op".to_string(); }
	let k = a[0];
	let mut sub = vec!["grp_write_chunk"];
	sub.extend_from_slice(&a[1..]);
	with_any!(st, k, g, p => match p.resources() { Ok(r) => run(g, r, &sub), Err(e) => format!("err {}", errname(e)) })
}
/// res_raw <dirVA> <hex section> [<sub> args…]
fn res_raw(rest: &str) -> String {
	let a: Vec<&str> = rest.split(' ').collect();
	if a.len() < 2 { return "bad-op".to_string(); }
	let data = unhex(a[1]);
	// 4-aligned as `Pe::resources` guarantees, flush against the trailing guard page
	let g = Guarded::new(&data, 4, true);
	let dir = pelite::image::IMAGE_DATA_DIRECTORY { VirtualAddress: num(a[0]) as u32, Size: data.len() as u32 };
	let r = Resources::new(g.bytes(), &dir);
	run(&g, r, &a[2..])
}

/// res_rawat <a16> <dirVA> <hex section> [<sub> args…]: `Resources::new` on a slice placed at an address that is
/// `a16` mod 16 (the public constructor accepts any slice; an address that is not a multiple of 4 makes the
/// accessors dereference misaligned pointers: a checked build aborts, recorded as `crash`)
fn res_rawat(rest: &str) -> String {
	let a: Vec<&str> = rest.split(' ').collect();
	if a.len() < 3 { return "bad-op".to_string(); }
	let data = unhex(a[2]);
	let g = Guarded::new(&data, num(a[0]) as usize % 16, true);
	let dir = pelite::image::IMAGE_DATA_DIRECTORY { VirtualAddress: num(a[1]) as u32, Size: data.len() as u32 };
	let r = Resources::new(g.bytes(), &dir);
	run(&g, r, &a[3..])
}

/// nameeq <a> <b>: the public comparisons of `resources::Name` (`PartialEq`, `PartialEq<str>`, `PartialEq<u32>`,
/// the `From` conversions), no image involved
fn nameeq(rest: &str) -> String {
	let a: Vec<&str> = rest.split(' ').collect();
	if a.len() != 2 { return "bad-op".to_string(); }
	let (x, y) = match (OwnedName::parse(a[0]), OwnedName::parse(a[1])) { (Some(x), Some(y)) => (x, y), _ => return "bad-op".to_string() };
	// through the `From` impls where they exist (u16 ids, wide strings, Rust strings)
	fn via_from<'a>(o: &'a OwnedName) -> Name<'a> {
		match o { OwnedName::Id(n) if *n <= 0xFFFF => Name::from(*n as u16), OwnedName::Id(n) => Name::Id(*n), OwnedName::Wide(w) => Name::from(&w[..]), OwnedName::Str(s) => Name::from(&s[..]) }
	}
	let (nx, ny) = (via_from(&x), via_from(&y));
	let s = match &y { OwnedName::Str(t) => ((nx == *t.as_str()) as u8).to_string(), _ => "-".to_string() };
	let u = match &y { OwnedName::Id(m) => ((nx == *m) as u8).to_string(), _ => "-".to_string() };
	format!("ok eq={} rev={} str={} u32={}", (nx == ny) as u8, (ny == nx) as u8, s, u)
}

pub fn dispatch(st: &mut State, fam: &str, rest: &str) -> Option<String> {
	Some(match fam {
		"nameeq" => nameeq(rest),
		"res" => res(st, rest),
		"grp_write" => grp_write(st, rest),
		"grp_write_chunk" => grp_write_chunk(st, rest),
		"res_raw" => res_raw(rest),
		"res_rawat" => res_rawat(rest),
		_ => return None,
	})
}
