//! Rich header operations (property C16; `rich_iter` also serves C18).
//!
//! `RichStructure::try_from` is crate private: everything goes through `Pe::rich_structure` of a
//! constructed view.  The `*_raw` / `rich_encode` / `rich_rt` / `rich_iter` families take the DOS
//! area inline and append a fixed minimal PE32 NT header (`NT_HDR`) so that `PeFile::from_bytes`
//! accepts the buffer; the DOS area must start with `MZ` and its `e_lfanew` must equal its length.
use crate::util::*;
use crate::State;
use pelite::rich_structure::{RichRecord, RichStructure};

/// minimal PE32 NT headers: no sections, no data directories, SizeOfHeaders = 0
const NT_HDR: &str = "504500004c010000000000000000000000000000600002010b0100000000000000000000000000000000000000000000000000000000400000100000000200000400000000000000040000000000000000100000000000000000000003000000000010000010000000001000001000000000000000000000";

const DANS: u32 = 0x536e6144;
const RICH: u32 = 0x68636952;

fn rec(r: &RichRecord) -> String { format!("{}:{}:{}", r.product, r.build, r.count) }
fn recs<I: Iterator<Item = RichRecord>>(it: I) -> String { it.map(|r| rec(&r)).collect::<Vec<_>>().join(",") }

fn parse_recs(s: &str) -> Vec<RichRecord> {
	if s == "-" { return Vec::new(); }
	s.split(',').map(|t| {
		let mut q = t.split(':');
		let product = num(q.next().unwrap()) as u16;
		let build = num(q.next().unwrap()) as u16;
		let count = num(q.next().unwrap()) as u32;
		RichRecord { build, product, count }
	}).collect()
}

fn words_hex(w: &[u32]) -> String {
	let mut b = Vec::with_capacity(w.len() * 4);
	for x in w { b.extend_from_slice(&x.to_le_bytes()); }
	hex(&b)
}

fn enc_res(r: Result<usize, usize>) -> String { match r { Ok(n) => format!("Ok:{}", n), Err(n) => format!("Err:{}", n) } }

/// canonical dump of a parsed structure
fn dump(g: &Guarded, rich: &RichStructure) -> String {
	let im = rich.image();
	let key = rich.xor_key();
	let csum = rich.checksum();
	let it = rich.records();
	let n = it.len();
	let list: Vec<RichRecord> = it.collect();
	// re-encode the decoded records into a destination of exactly the size of the found header
	let need = rich.encode(&list, &mut []);
	let mut dest = vec![0xdeadbeefu32; im.len()];
	let enc = rich.encode(&list, &mut dest);
	let same = enc.is_ok() && dest[..] == im[..];
	format!("ok img={} key={} csum={} n={} recs=[{}] need={} enc={} reenc={}",
		g.rf(im.as_ptr() as *const u8, im.len() * 4), key, csum, n, recs(list.iter().cloned()), enc_res(need), enc_res(enc), same as u8)
}

fn with_rich<F: FnOnce(&Guarded, &RichStructure) -> String>(g: &Guarded, f: F) -> String {
	use pelite::pe32::{Pe, PeFile};
	match PeFile::from_bytes(g.bytes()) {
		Ok(p) => match p.rich_structure() { Ok(r) => f(g, &r), Err(e) => format!("err {}", errname(e)) },
		Err(e) => format!("noimg {}", errname(e)),
	}
}

fn wrap(dos: &[u8]) -> Guarded {
	let mut data = dos.to_vec();
	data.extend_from_slice(&unhex(NT_HDR));
	Guarded::new(&data, 0, true)
}

/// rich <k> : on the current image; `wf` / `wv` go through `Wrap::rich_structure` of the WRAPPER
/// (`with_any!`: the body is expanded on the wrapper type itself, nothing is unwrapped first)
pub fn rich(st: &State, rest: &str) -> String {
	let k = rest.trim();
	with_any!(st, k, g, p => match p.rich_structure() { Ok(r) => dump(g, &r), Err(e) => format!("err {}", errname(e)) })
}

/// rich_raw <hex of the DOS area>
pub fn rich_raw(rest: &str) -> String {
	let g = wrap(&unhex(rest.trim()));
	with_rich(&g, |g, r| dump(g, r))
}

/// rich_codec <key> <product> <build> <count> : encode, then decode the result
pub fn rich_codec(rest: &str) -> String {
	let a: Vec<&str> = rest.split(' ').collect();
	let key = num(a[0]) as u32;
	let r = RichRecord { product: num(a[1]) as u16, build: num(a[2]) as u16, count: num(a[3]) as u32 };
	let e = r.encode(key);
	let d = RichRecord::decode(key, &e);
	format!("ok enc={},{} dec={}", e[0], e[1], rec(&d))
}

/// rich_decode <key> <w0> <w1> : decode, then encode the result
pub fn rich_decode(rest: &str) -> String {
	let a: Vec<&str> = rest.split(' ').collect();
	let key = num(a[0]) as u32;
	let w = [num(a[1]) as u32, num(a[2]) as u32];
	let d = RichRecord::decode(key, &w);
	let e = d.encode(key);
	format!("ok dec={} enc={},{}", rec(&d), e[0], e[1])
}

/// the stub with `e_lfanew` set to `4 * total` dwords, followed by `tail`
fn stub_image(stub: &[u8], tail: &[u32]) -> Vec<u8> {
	let mut dos = stub.to_vec();
	let total = (stub.len() / 4 + tail.len()) as u32 * 4;
	dos[60..64].copy_from_slice(&total.to_le_bytes());
	for x in tail { dos.extend_from_slice(&x.to_le_bytes()); }
	dos
}

/// a structure whose `dos_stub` is the given stub: the stub followed by an empty header with key 1
fn bootstrap(stub: &[u8]) -> Guarded {
	wrap(&stub_image(stub, &[DANS ^ 1, 1, 1, 1, RICH, 1]))
}

/// rich_encode <stubhex> <records> <destlen> : `encode` on a structure with that stub
pub fn rich_encode(rest: &str) -> String {
	let a: Vec<&str> = rest.split(' ').collect();
	let stub = unhex(a[0]);
	if stub.len() < 64 || stub.len() % 4 != 0 { return "bad-op".to_string(); }
	let records = parse_recs(a[1]);
	let destlen = num(a[2]) as usize;
	let g = bootstrap(&stub);
	with_rich(&g, |_g, r| {
		let mut dest = vec![0xdeadbeefu32; destlen];
		match r.encode(&records, &mut dest) {
			Ok(n) => format!("ok Ok:{} dest={}", n, words_hex(&dest)),
			Err(n) => format!("ok Err:{} dest={}", n, if dest.iter().all(|&x| x == 0xdeadbeef) { "untouched" } else { "MODIFIED" }),
		}
	})
}

/// rich_rt <stubhex> <records> <pad> : encode the records behind the stub with the library, parse the
/// result with the library, dump it
pub fn rich_rt(rest: &str) -> String {
	let a: Vec<&str> = rest.split(' ').collect();
	let stub = unhex(a[0]);
	if stub.len() < 64 || stub.len() % 4 != 0 { return "bad-op".to_string(); }
	let records = parse_recs(a[1]);
	let pad = num(a[2]) as usize;
	let g = bootstrap(&stub);
	let mut dest = vec![0xdeadbeefu32; records.len() * 2 + 6 + pad];
	let r1 = with_rich(&g, |_g, r| enc_res(r.encode(&records, &mut dest)));
	if !r1.starts_with("Ok:") { return format!("bootstrap {}", r1); }
	let g2 = wrap(&stub_image(&stub, &dest));
	with_rich(&g2, |g, r| dump(g, r))
}

/// rich_iter <hex of the DOS area> <history> : history = comma list of
/// next | next_back | nth:K | len | size_hint | count | clone | rev
pub fn rich_iter(rest: &str) -> String {
	let a: Vec<&str> = rest.split(' ').collect();
	let g = wrap(&unhex(a[0]));
	let hist = a[1];
	with_rich(&g, |_g, r| {
		let mut it = r.records();
		let mut out = Vec::new();
		let o = |x: Option<RichRecord>| match x { Some(r) => rec(&r), None => "none".to_string() };
		if hist != "-" {
			for h in hist.split(',') {
				out.push(match h {
					"next" => o(it.next()),
					"next_back" => o(it.next_back()),
					"len" => format!("{}", it.len()),
					"size_hint" => { let (lo, hi) = it.size_hint(); format!("{}..{}", lo, hi.map(|x| x.to_string()).unwrap_or("inf".to_string())) },
					"count" => format!("{}", it.clone().count()),
					"clone" => format!("[{}]", recs(it.clone())),
					"rev" => format!("[{}]", recs(it.clone().rev())),
					_ => match h.strip_prefix("nth:") { Some(k) => o(it.nth(num(k) as usize)), None => "bad-op".to_string() },
				});
			}
		}
		format!("ok {}", out.join(";"))
	})
}

pub fn dispatch(st: &mut State, fam: &str, rest: &str) -> Option<String> {
	Some(match fam {
		"rich" => rich(st, rest),
		"rich_raw" => rich_raw(rest),
		"rich_codec" => rich_codec(rest),
		"rich_decode" => rich_decode(rest),
		"rich_encode" => rich_encode(rest),
		"rich_rt" => rich_rt(rest),
		"rich_iter" => rich_iter(rest),
		_ => return None,
	})
}
