//! Pattern interpreter and scanner on the current image (C10; C02/C03 of the module).
//! ```text
//! pat_exec   <k> <atoms> <cursor> <nsave>     -> ok <0|1> save=[..]
//! scan       <k> <atoms> <lo> <hi> <nsave>    -> ok [c{save..};..] range=<start>..<end> hits=<n> more=<0|1>
//! scan_code  <k> <atoms> <nsave>
//! finds      <k> <atoms> <lo> <hi> <nsave>    -> ok <0|1> save=[..]
//! finds_code <k> <atoms> <nsave>
//! ```
//! `atoms` = comma separated canonical atom texts (`Byte(18)`), `-` for the empty pattern.
//! Everything goes through `p.scanner()`; for k = wf / wv that is the wrapper API of
//! src/wrap/scanner.rs.  (`impl Scan for &[u8]` is private and used by a unit test only: it is not
//! reachable from the public API, so there is no `exec_raw` operation.)
use crate::util::*;
use crate::State;
use pelite::pattern::Atom;

/// both sides stop after this many reported matches
const SCAN_CAP: usize = 64;

fn parse_atom(t: &str) -> Option<Atom> {
	use pelite::pattern::Atom::*;
	let (name, arg) = match t.find('(') {
		Some(i) => {
			if !t.ends_with(')') { return None; }
			let a = &t[i + 1..t.len() - 1];
			if a.is_empty() || !a.bytes().all(|c| c.is_ascii_digit()) { return None; }
			(&t[..i], Some(a.parse::<u64>().ok()?))
		},
		None => (t, None),
	};
	let u = |x: Option<u64>| -> Option<u8> { let x = x?; if x < 256 { Some(x as u8) } else { None } };
	Some(match (name, arg) {
		("Byte", a @ Some(_)) => Byte(u(a)?),
		("Save", a @ Some(_)) => Save(u(a)?),
		("Push", a @ Some(_)) => Push(u(a)?),
		("Pop", None) => Pop,
		("Fuzzy", a @ Some(_)) => Fuzzy(u(a)?),
		("Skip", a @ Some(_)) => Skip(u(a)?),
		("Back", a @ Some(_)) => Back(u(a)?),
		("Rangext", a @ Some(_)) => Rangext(u(a)?),
		("Many", a @ Some(_)) => Many(u(a)?),
		("Jump1", None) => Jump1,
		("Jump4", None) => Jump4,
		("Ptr", None) => Ptr,
		("Pir", a @ Some(_)) => Pir(u(a)?),
		("VTypeName", None) => VTypeName,
		("Check", a @ Some(_)) => Check(u(a)?),
		("Aligned", a @ Some(_)) => Aligned(u(a)?),
		("ReadI8", a @ Some(_)) => ReadI8(u(a)?),
		("ReadU8", a @ Some(_)) => ReadU8(u(a)?),
		("ReadI16", a @ Some(_)) => ReadI16(u(a)?),
		("ReadU16", a @ Some(_)) => ReadU16(u(a)?),
		("ReadI32", a @ Some(_)) => ReadI32(u(a)?),
		("ReadU32", a @ Some(_)) => ReadU32(u(a)?),
		("Zero", a @ Some(_)) => Zero(u(a)?),
		("Case", a @ Some(_)) => Case(u(a)?),
		("Break", a @ Some(_)) => Break(u(a)?),
		("Nop", None) => Nop,
		_ => return None,
	})
}

fn parse_atoms(s: &str) -> Option<Vec<Atom>> {
	if s == "-" { return Some(Vec::new()); }
	s.split(',').map(parse_atom).collect()
}

fn fmt_save(save: &[u32]) -> String {
	format!("[{}]", save.iter().map(|x| x.to_string()).collect::<Vec<_>>().join(","))
}
fn fmt_hit(save: &[u32]) -> String {
	let c = match save.first() { Some(c) => c.to_string(), None => "-".to_string() };
	format!("{}{{{}}}", c, save.iter().map(|x| x.to_string()).collect::<Vec<_>>().join(","))
}
fn b01(b: bool) -> &'static str { if b { "1" } else { "0" } }

/// pat_exec <k> <atoms> <cursor> <nsave>
fn pat_exec(st: &State, rest: &str) -> String {
	let a: Vec<&str> = rest.split(' ').collect();
	if a.len() != 4 { return "bad-op".to_string(); }
	let pat = match parse_atoms(a[1]) { Some(p) => p, None => return "bad-op".to_string() };
	let (k, cursor, nsave) = (a[0], num(a[2]) as u32, num(a[3]) as usize);
	with_any!(st, k, g, p => {
		let _ = g;
		let mut save = vec![0u32; nsave];
		let r = p.scanner().exec(cursor, &pat, &mut save);
		format!("ok {} save={}", b01(r), fmt_save(&save))
	})
}

/// scan <k> <atoms> <lo> <hi> <nsave> | scan_code <k> <atoms> <nsave>
fn scan(st: &State, rest: &str, code: bool) -> String {
	let a: Vec<&str> = rest.split(' ').collect();
	if a.len() != if code { 3 } else { 5 } { return "bad-op".to_string(); }
	let pat = match parse_atoms(a[1]) { Some(p) => p, None => return "bad-op".to_string() };
	let k = a[0];
	let (lo, hi, nsave) = if code { (0, 0, num(a[2]) as usize) } else { (num(a[2]) as u32, num(a[3]) as u32, num(a[4]) as usize) };
	with_any!(st, k, g, p => {
		let _ = g;
		let mut save = vec![0u32; nsave];
		let scanner = p.scanner();
		let mut matches = if code { scanner.matches_code(&pat) } else { scanner.matches(&pat, lo..hi) };
		let mut hits = Vec::new();
		let mut exhausted = false;
		for _ in 0..SCAN_CAP {
			// C03 (anchor `Matches.range.start`): the remaining range strictly shrinks with every reported match —
			// all three strategies leave `range.start` beyond the reported cursor — so the number of matches is
			// bounded by the number of start positions (Thm/C03Scan.lean: C03_scan_progress); a reported match that leaves it where it was repeats forever.
			let before = matches.range().start;
			if matches.next(&mut save) {
				hits.push(fmt_hit(&save));
				let after = matches.range().start;
				if after <= before {
					return format!("diverge scan: Matches::next reported a match and left range.start at {} (was {}): the same candidate is examined again without bound", after, before);
				}
			} else { exhausted = true; break; }
		}
		let r = matches.range();
		format!("ok [{}] range={}..{} hits={} more={}", hits.join(";"), r.start, r.end, matches.hits(), b01(!exhausted))
	})
}

/// finds <k> <atoms> <lo> <hi> <nsave> | finds_code <k> <atoms> <nsave>
fn finds(st: &State, rest: &str, code: bool) -> String {
	let a: Vec<&str> = rest.split(' ').collect();
	if a.len() != if code { 3 } else { 5 } { return "bad-op".to_string(); }
	let pat = match parse_atoms(a[1]) { Some(p) => p, None => return "bad-op".to_string() };
	let k = a[0];
	let (lo, hi, nsave) = if code { (0, 0, num(a[2]) as usize) } else { (num(a[2]) as u32, num(a[3]) as u32, num(a[4]) as usize) };
	with_any!(st, k, g, p => {
		let _ = g;
		let mut save = vec![0u32; nsave];
		let scanner = p.scanner();
		let r = if code { scanner.finds_code(&pat, &mut save) } else { scanner.finds(&pat, lo..hi, &mut save) };
		format!("ok {} save={}", b01(r), fmt_save(&save))
	})
}

pub fn dispatch(st: &mut State, fam: &str, rest: &str) -> Option<String> {
	Some(match fam {
		"pat_exec" => pat_exec(st, rest),
		"scan" => scan(st, rest, false),
		"scan_code" => scan(st, rest, true),
		"finds" => finds(st, rest, false),
		"finds_code" => finds(st, rest, true),
		_ => return None,
	})
}
