//! Typed read family (C05): derva / derva_copy / derva_into / derva_slice / derva_slice_s / derva_slice_f / derva_c_str
//! and the deref twins through `Ptr`.
use crate::ops_img::tref;
use crate::util::*;
use crate::State;

macro_rules! by_type {
	($t:expr, $T:ident => $body:expr) => {
		match $t {
			"u8" => { type $T = u8; $body },
			"u16" => { type $T = u16; $body },
			"u32" => { type $T = u32; $body },
			"u64" => { type $T = u64; $body },
			_ => "bad-op".to_string(),
		}
	};
}
/// element types whose size exceeds their alignment (only meaningful for the reference-returning reads)
macro_rules! by_struct {
	($t:expr, $T:ident => $body:expr) => {
		match $t {
			"dd" => { type $T = pelite::image::IMAGE_DATA_DIRECTORY; $body },
			"sh" => { type $T = pelite::image::IMAGE_SECTION_HEADER; $body },
			"b16" => { type $T = [u8; 16]; $body },
			_ => "bad-op".to_string(),
		}
	};
}

fn er(e: pelite::Error) -> String { format!("err {}", errname(e)) }

/// the callable of `derva_slice_f` / `deref_slice_f`: `ge:<x>` = the stateless `|e| *e >= x`;
/// `count:<n>` = a STATEFUL `FnMut` that counts its calls and answers true on the n-th one, whatever
/// the element (never for n = 0).  Returns (is_count, operand).
fn parse_pred(p: &str) -> Option<(bool, u64)> {
	let (k, v) = p.split_once(':')?;
	match k { "ge" => Some((false, num(v))), "count" => Some((true, num(v))), _ => None }
}

pub fn dispatch(st: &mut State, fam: &str, rest: &str) -> Option<String> {
	if !(fam.starts_with("derva") || fam.starts_with("deref")) { return None; }
	let a: Vec<&str> = rest.split(' ').collect();
	let is_va = fam.starts_with("deref");
	let base = &fam[5..];
	let k = a[0];
	if a.len() >= 3 && matches!(a[1], "dd" | "sh" | "b16") {
		// struct element types: `derva`/`deref` (no value printed) and `derva_slice`/`deref_slice`
		let (t, x) = (a[1], num(a[2]));
		return Some(match (base, a.len()) {
			("", 3) => if is_va { with_specific!(st, k, g, p => by_struct!(t, T => match p.deref::<T>((x as VaT).into()) { Ok(r) => format!("ok {}", tref(g, r, std::mem::size_of::<T>())), Err(e) => er(e) })) }
				else { with_any!(st, k, g, p => by_struct!(t, T => match p.derva::<T>(x as u32) { Ok(r) => format!("ok {}", tref(g, r, std::mem::size_of::<T>())), Err(e) => er(e) })) },
			("_slice", 4) => { let len = num(a[3]) as usize;
				if is_va { with_specific!(st, k, g, p => by_struct!(t, T => match p.deref_slice::<T>((x as VaT).into(), len) { Ok(r) => format!("ok {}", tref(g, r.as_ptr(), r.len() * std::mem::size_of::<T>())), Err(e) => er(e) })) }
				else { with_any!(st, k, g, p => by_struct!(t, T => match p.derva_slice::<T>(x as u32, len) { Ok(r) => format!("ok {}", tref(g, r.as_ptr(), r.len() * std::mem::size_of::<T>())), Err(e) => er(e) })) } },
			// derva_copy / deref_copy of a composite type (size > alignment): the copied VALUE as its bytes
			("_copy", 3) => {
				fn bytes_of<T>(v: &T) -> String { hex(unsafe { std::slice::from_raw_parts(v as *const T as *const u8, std::mem::size_of::<T>()) }) }
				if is_va { with_specific!(st, k, g, p => { let _ = g; by_struct!(t, T => match p.deref_copy::<T>((x as VaT).into()) { Ok(r) => format!("ok {}", bytes_of(&r)), Err(e) => er(e) }) }) }
				else { with_any!(st, k, g, p => { let _ = g; by_struct!(t, T => match p.derva_copy::<T>(x as u32) { Ok(r) => format!("ok {}", bytes_of(&r)), Err(e) => er(e) }) }) } },
			// derva_slice_f / deref_slice_f <k> <t> <x> count:<n> on the struct element types (the value is not looked at)
			("_slice_f", 4) => { let (is_count, pv) = match parse_pred(a[3]) { Some(p) => p, None => return Some("bad-op".to_string()) };
				if !is_count { return Some("bad-op".to_string()); }
				if is_va { with_specific!(st, k, g, p => by_struct!(t, T => { let mut calls = 0u64; match p.deref_slice_f::<T, _>((x as VaT).into(), |_e: &T| { calls += 1; calls == pv }) { Ok(r) => format!("ok {}", tref(g, r.as_ptr(), r.len() * std::mem::size_of::<T>())), Err(e) => er(e) } })) }
				else { with_any!(st, k, g, p => by_struct!(t, T => { let mut calls = 0u64; match p.derva_slice_f::<T, _>(x as u32, |_e: &T| { calls += 1; calls == pv }) { Ok(r) => format!("ok {}", tref(g, r.as_ptr(), r.len() * std::mem::size_of::<T>())), Err(e) => er(e) } })) } },
			_ => "bad-op".to_string(),
		});
	}
	Some(match (base, a.len()) {
		("", 3) => { let (t, x) = (a[1], num(a[2]));
			if is_va { with_specific!(st, k, g, p => by_type!(t, T => match p.deref::<T>((x as VaT).into()) { Ok(r) => format!("ok {} val={}", tref(g, r, std::mem::size_of::<T>()), *r as u64), Err(e) => er(e) })) }
			else { with_any!(st, k, g, p => by_type!(t, T => match p.derva::<T>(x as u32) { Ok(r) => format!("ok {} val={}", tref(g, r, std::mem::size_of::<T>()), *r as u64), Err(e) => er(e) })) } },
		("_copy", 3) => { let (t, x) = (a[1], num(a[2]));
			if is_va { with_specific!(st, k, g, p => { let _ = g; by_type!(t, T => match p.deref_copy::<T>((x as VaT).into()) { Ok(r) => format!("ok {}", r as u64), Err(e) => er(e) }) }) }
			else { with_any!(st, k, g, p => { let _ = g; by_type!(t, T => match p.derva_copy::<T>(x as u32) { Ok(r) => format!("ok {}", r as u64), Err(e) => er(e) }) }) } },
		("_into", 3) => { let (len, x) = (num(a[1]) as usize, num(a[2]));
			if len > (1 << 20) { return Some("toolarge".to_string()); }
			let mut dest = vec![0xAAu8; len];
			// the copying read is documented to be byte-wise and alignment-free whatever the destination type: the
			// same request with a [u16] / [u32] / [u64] destination of the same byte length has to give the same
			// answer; the first variant that deviates from the [u8] one is what this operation answers
			if is_va { with_specific!(st, k, g, p => { let _ = g;
				let first = match p.deref_into::<[u8]>((x as VaT).into(), &mut dest[..]) { Ok(()) => format!("ok {}", hex(&dest)), Err(e) => er(e) };
				macro_rules! call { ($W:ty) => { |d: &mut [$W]| p.deref_into::<[$W]>((x as VaT).into(), d) } }
				let mut ans = first.clone();
				macro_rules! one { ($W:ty) => {{ let w = std::mem::size_of::<$W>();
					if ans == first && len % w == 0 {
						let mut d = vec![0 as $W; len / w];
						for b in unsafe { std::slice::from_raw_parts_mut(d.as_mut_ptr() as *mut u8, len) } { *b = 0xAA; }
						let r: pelite::Result<()> = (call!($W))(&mut d[..]);
						let a = match r { Ok(()) => format!("ok {}", hex(unsafe { std::slice::from_raw_parts(d.as_ptr() as *const u8, len) })), Err(e) => er(e) };
						if a != first { ans = a; }
					} }} }
				one!(u16); one!(u32); one!(u64);
				ans }) }
			else { with_any!(st, k, g, p => { let _ = g;
				let first = match p.derva_into::<[u8]>(x as u32, &mut dest[..]) { Ok(()) => format!("ok {}", hex(&dest)), Err(e) => er(e) };
				macro_rules! call { ($W:ty) => { |d: &mut [$W]| p.derva_into::<[$W]>(x as u32, d) } }
				let mut ans = first.clone();
				macro_rules! one { ($W:ty) => {{ let w = std::mem::size_of::<$W>();
					if ans == first && len % w == 0 {
						let mut d = vec![0 as $W; len / w];
						for b in unsafe { std::slice::from_raw_parts_mut(d.as_mut_ptr() as *mut u8, len) } { *b = 0xAA; }
						let r: pelite::Result<()> = (call!($W))(&mut d[..]);
						let a = match r { Ok(()) => format!("ok {}", hex(unsafe { std::slice::from_raw_parts(d.as_ptr() as *const u8, len) })), Err(e) => er(e) };
						if a != first { ans = a; }
					} }} }
				one!(u16); one!(u32); one!(u64);
				ans }) } },
		("_slice", 4) => { let (t, x, len) = (a[1], num(a[2]), num(a[3]) as usize);
			if is_va { with_specific!(st, k, g, p => by_type!(t, T => match p.deref_slice::<T>((x as VaT).into(), len) { Ok(r) => format!("ok {}", tref(g, r.as_ptr(), r.len() * std::mem::size_of::<T>())), Err(e) => er(e) })) }
			else { with_any!(st, k, g, p => by_type!(t, T => match p.derva_slice::<T>(x as u32, len) { Ok(r) => format!("ok {}", tref(g, r.as_ptr(), r.len() * std::mem::size_of::<T>())), Err(e) => er(e) })) } },
		("_slice_s", 4) => { let (t, x, s) = (a[1], num(a[2]), num(a[3]));
			if is_va { with_specific!(st, k, g, p => by_type!(t, T => match p.deref_slice_s::<T>((x as VaT).into(), s as T) { Ok(r) => format!("ok {}", tref(g, r.as_ptr(), r.len() * std::mem::size_of::<T>())), Err(e) => er(e) })) }
			else { with_any!(st, k, g, p => by_type!(t, T => match p.derva_slice_s::<T>(x as u32, s as T) { Ok(r) => format!("ok {}", tref(g, r.as_ptr(), r.len() * std::mem::size_of::<T>())), Err(e) => er(e) })) } },
		// derva_slice_f / deref_slice_f <k> <t> <x> <pred>: pred = ge:<x> | count:<n> (see `parse_pred`)
		("_slice_f", 4) => { let (t, x) = (a[1], num(a[2]));
			let (is_count, pv) = match parse_pred(a[3]) { Some(p) => p, None => return Some("bad-op".to_string()) };
			if is_va { with_specific!(st, k, g, p => by_type!(t, T => { let mut calls = 0u64; match p.deref_slice_f::<T, _>((x as VaT).into(), |e: &T| { calls += 1; if is_count { calls == pv } else { (*e as u64) >= pv } }) { Ok(r) => format!("ok {}", tref(g, r.as_ptr(), r.len() * std::mem::size_of::<T>())), Err(e) => er(e) } })) }
			else { with_any!(st, k, g, p => by_type!(t, T => { let mut calls = 0u64; match p.derva_slice_f::<T, _>(x as u32, |e: &T| { calls += 1; if is_count { calls == pv } else { (*e as u64) >= pv } }) { Ok(r) => format!("ok {}", tref(g, r.as_ptr(), r.len() * std::mem::size_of::<T>())), Err(e) => er(e) } })) } },
		("_cstr", 2) => { let x = num(a[1]);
			if is_va { with_specific!(st, k, g, p => match p.deref_c_str((x as VaT).into()) { Ok(c) => { let b = c.c_str(); format!("ok {}", g.rf(b.as_ptr(), b.len())) }, Err(e) => er(e) }) }
			else { with_any!(st, k, g, p => match p.derva_c_str(x as u32) { Ok(c) => { let b = c.c_str(); format!("ok {}", g.rf(b.as_ptr(), b.len())) }, Err(e) => er(e) }) } },
		_ => "bad-op".to_string(),
	})
}
