//! `ver` family: src/resources/version_info.rs against a block placed 4-aligned between guard pages.
//!
//!     ver <hex of the block bytes> <query> [args] [tree=...]      (tree= is for the model side only)
//!     verat <align16> <hex> <query> [args]
//!
//! queries: events | events_skip <n> | events_skip2 <fmask> <tmask> | fixed | translation
//!        | value <LLLLCCCC> <key utf-16 hex> | strings <LLLLCCCC> | file_info | source | langparse
//!
//! `events_skip2 <fmask> <tmask>`: the recording visitor DECLINES (returns `false` from) the i-th
//! `file_info` callback iff bit i of `fmask` is set and the j-th `string_table` callback iff bit j of
//! `tmask` is set (i, j count the callbacks of that kind from 0, declined ones included; bits >= 64 are
//! not set).  A declined callback is recorded, `visit` must not descend into it.
use crate::util::*;
use pelite::image::VS_FIXEDFILEINFO;
use pelite::resources::version_info::{Language, VersionInfo, Visit};

fn hexw(ws: &[u16]) -> String {
	if ws.is_empty() { return "-".to_string(); }
	ws.iter().map(|w| format!("{:04x}", w)).collect()
}
fn unhexw(s: &str) -> Vec<u16> {
	if s == "-" || s.is_empty() { return Vec::new(); }
	let b = s.as_bytes();
	(0..b.len() / 4).map(|i| u16::from_str_radix(std::str::from_utf8(&b[i * 4..i * 4 + 4]).unwrap(), 16).expect("bad hex word")).collect()
}
fn sl(g: &Guarded, ws: &[u16]) -> String {
	format!("{}={}", g.rf(ws.as_ptr() as *const u8, ws.len() * 2), hexw(ws))
}
fn utf8(s: &str) -> String { hex(s.as_bytes()) }
fn langs(g: &Guarded, l: &[Language]) -> String {
	let body = l.iter().map(|l| format!("{}:{}", l.lang_id, l.charset_id)).collect::<Vec<_>>().join(",");
	let r = g.rf(l.as_ptr() as *const u8, l.len() * 4);
	if r == "static" { format!("static[{}]", body) } else { format!("{}[{}]", r, body) }
}
fn parse_lang(s: &str) -> Language {
	let n = u32::from_str_radix(s, 16).expect("bad language");
	Language { lang_id: (n >> 16) as u16, charset_id: n as u16 }
}

/// records every callback of `Visit`
struct Recorder<'g> { g: &'g Guarded, out: Vec<String>, skip: usize, fmask: u64, tmask: u64, nf: usize, nt: usize }
fn mask_bit(m: u64, i: usize) -> bool { i < 64 && (m >> i) & 1 == 1 }
impl<'a, 'g> Visit<'a> for Recorder<'g> {
	fn version_info(&mut self, key: &'a [u16], fixed: Option<&'a VS_FIXEDFILEINFO>) -> bool {
		let f = match fixed { Some(f) => self.g.rf(f as *const _ as *const u8, 52), None => "none".to_string() };
		self.out.push(format!("V({},{})", sl(self.g, key), f));
		// a user visitor may decline a root: `visit` then goes on to the next one
		if self.skip > 0 { self.skip -= 1; return false; }
		true
	}
	fn file_info(&mut self, key: &'a [u16]) -> bool {
		self.out.push(format!("F({})", sl(self.g, key)));
		// a user visitor may decline a block: `visit` then goes on to the next one
		let decline = mask_bit(self.fmask, self.nf);
		self.nf += 1;
		!decline
	}
	fn string_table(&mut self, lang: &'a [u16]) -> bool {
		self.out.push(format!("T({})", sl(self.g, lang)));
		// a user visitor may decline a string table: `visit` then goes on to the next one
		let decline = mask_bit(self.tmask, self.nt);
		self.nt += 1;
		!decline
	}
	fn string(&mut self, key: &'a [u16], value: &'a [u16]) { self.out.push(format!("S({},{})", sl(self.g, key), sl(self.g, value))); }
	fn var(&mut self, key: &'a [u16], value: &'a [u16]) { self.out.push(format!("R({},{})", sl(self.g, key), sl(self.g, value))); }
	fn enter_scope(&mut self, depth: usize) { self.out.push(format!("{{{}", depth)); }
	fn exit_scope(&mut self, depth: usize) { self.out.push(format!("}}{}", depth)); }
}

fn run(align16: usize, rest: &str) -> String {
	let a: Vec<&str> = rest.split(' ').filter(|x| !x.is_empty() && !x.starts_with("tree=")).collect();
	if a.len() < 2 { return "bad-op".to_string(); }
	let data = unhex(a[0]);
	// flush against the trailing guard page: any read past the block faults
	let g = Guarded::new(&data, align16, true);
	if a[1] == "langparse" {
		// the block's words are the language string itself
		let words: Vec<u16> = data.chunks_exact(2).map(|c| u16::from_le_bytes([c[0], c[1]])).collect();
		return match Language::parse(&words) { Ok(l) => format!("ok {}:{}", l.lang_id, l.charset_id), Err(_) => "err".to_string() };
	}
	let vi = match VersionInfo::try_from(g.bytes()) { Ok(v) => v, Err(e) => return format!("err {}", errname(e)) };
	match (a[1], a.len()) {
		("events", 2) => {
			let mut r = Recorder { g: &g, out: Vec::new(), skip: 0, fmask: 0, tmask: 0, nf: 0, nt: 0 };
			vi.visit(&mut r);
			format!("ok {}", r.out.join(";"))
		},
		("events_skip", 3) => {
			let mut r = Recorder { g: &g, out: Vec::new(), skip: num(a[2]) as usize, fmask: 0, tmask: 0, nf: 0, nt: 0 };
			vi.visit(&mut r);
			format!("ok {}", r.out.join(";"))
		},
		("events_skip2", 4) => {
			let mut r = Recorder { g: &g, out: Vec::new(), skip: 0, fmask: num(a[2]) as u64, tmask: num(a[3]) as u64, nf: 0, nt: 0 };
			vi.visit(&mut r);
			format!("ok {}", r.out.join(";"))
		},
		("fixed", 2) => match vi.fixed() {
			Some(f) => {
				let ws = unsafe { std::slice::from_raw_parts(f as *const _ as *const u16, 26) };
				format!("ok {}", sl(&g, ws))
			},
			None => "ok none".to_string(),
		},
		("translation", 2) => format!("ok {}", langs(&g, vi.translation())),
		("value", 4) => {
			let key = String::from_utf16_lossy(&unhexw(a[3]));
			match vi.value(parse_lang(a[2]), &key) { Some(s) => format!("ok {}", utf8(&s)), None => "ok none".to_string() }
		},
		("strings", 3) => {
			let mut out = Vec::new();
			vi.strings(parse_lang(a[2]), |k, v| out.push(format!("{}={}", utf8(k), utf8(v))));
			format!("ok [{}]", out.join(","))
		},
		("file_info", 2) => {
			let fi = vi.file_info();
			let f = match fi.fixed { Some(f) => g.rf(f as *const _ as *const u8, 52), None => "none".to_string() };
			let mut ls: Vec<_> = fi.strings.iter().collect();
			ls.sort_by_key(|(l, _)| (l.lang_id, l.charset_id));
			let maps: Vec<String> = ls.iter().map(|(l, m)| {
				let mut kv: Vec<_> = m.iter().collect();
				kv.sort();
				format!("{:04x}{:04x}:[{}]", l.lang_id, l.charset_id, kv.iter().map(|(k, v)| format!("{}={}", utf8(k), utf8(v))).collect::<Vec<_>>().join(","))
			}).collect();
			format!("ok fixed={} langs={} strings={{{}}}", f, langs(&g, fi.langs), maps.join(";"))
		},
		("source", 2) => format!("ok {}", utf8(&vi.source_code())),
		_ => "bad-op".to_string(),
	}
}

pub fn dispatch(_st: &mut crate::State, fam: &str, rest: &str) -> Option<String> {
	Some(match fam {
		"ver" => run(4, rest),
		"verat" => {
			let mut it = rest.splitn(2, ' ');
			let al = num(it.next().unwrap_or("0")) as usize;
			run(al, it.next().unwrap_or(""))
		},
		_ => return None,
	})
}
