//! `walk <k>`: calls every accessor, iterator (front to back), formatter and the serializer reachable
//! from a constructed view and answers `ok items=<n> fnv=<digest of everything printed>`.
//! Its purpose is the direct C01/C02/C03 oracle (crash / panic / hang) over the WHOLE library,
//! modelled or not; the digest is informative (the model cannot reproduce it).
use crate::util::*;
use crate::State;
use std::fmt::Write;

/// every reference the walk hands out must lie inside the buffer and be aligned
pub struct Acc<'g> { pub g: &'g Guarded, pub out: String, pub items: usize, pub bad: Vec<String> }
impl<'g> Acc<'g> {
	pub fn bytes(&mut self, what: &str, b: &[u8]) {
		self.items += 1;
		let r = self.g.rf(b.as_ptr(), b.len());
		if r.starts_with("OUTSIDE") { self.bad.push(format!("{} {}", what, r)); }
		let _ = write!(self.out, "{}={};", what, r);
	}
	pub fn obj<T>(&mut self, what: &str, p: *const T, size: usize) {
		self.items += 1;
		let r = self.g.rf(p as *const u8, size);
		if r.starts_with("OUTSIDE") { self.bad.push(format!("{} {}", what, r)); }
		if (p as usize) % std::mem::align_of::<T>() != 0 { self.bad.push(format!("{} MISALIGNED", what)); }
		let _ = write!(self.out, "{}={};", what, r);
	}
	pub fn txt(&mut self, what: &str, s: String) { self.items += 1; let _ = write!(self.out, "{}={};", what, s); }
}

fn walk_resources(acc: &mut Acc, res: pelite::resources::Resources) {
	use pelite::resources::*;
	acc.txt("res.fsck", format!("{:?}", res.fsck()));
	acc.txt("res.display", format!("{}", res));
	acc.txt("res.debug", format!("{:?}", res));
	fn dir(acc: &mut Acc, d: Directory, depth: u32, budget: &mut u32) {
		if depth > 5 || *budget == 0 { return; }
		let _ = format!("{:?}", d);
		acc.obj("res.dir", d.image(), 16);
		let ne = d.named_entries().count();
		let ie = d.id_entries().count();
		acc.txt("res.counts", format!("{}+{}", ne, ie));
		for e in d.entries() {
			if *budget == 0 { return; }
			*budget -= 1;
			acc.obj("res.entry", e.image(), 8);
			acc.txt("res.name", format!("{:?}", e.name()));
			let _ = format!("{:?}", e);
			match e.entry() {
				Ok(Entry::Directory(sub)) => dir(acc, sub, depth + 1, budget),
				Ok(Entry::DataEntry(data)) => {
					acc.obj("res.data", data.image(), 16);
					let _ = format!("{:?}", data);
					acc.txt("res.cp", format!("{} {}", data.size(), data.code_page()));
					if let Ok(b) = data.bytes() { acc.bytes("res.bytes", b); }
				},
				Err(e) => acc.txt("res.err", format!("{:?}", e)),
			}
		}
	}
	if let Ok(root) = res.root() {
		acc.txt("res.root.display", format!("{}", root));
		let mut budget = 3000;
		dir(acc, root, 0, &mut budget);
	}
	match res.manifest() { Ok(m) => acc.bytes("res.manifest", m.as_bytes()), Err(e) => acc.txt("res.manifest", format!("{:?}", e)) }
	for (i, r) in res.icons().chain(res.cursors()).enumerate() {
		if i > 64 { break; }
		match r {
			Ok((name, group)) => {
				acc.txt("res.group", format!("{} {:?}", name, group));
				acc.obj("res.group.hdr", group.header(), 6);
				for e in group.entries() {
					acc.obj("res.group.entry", e, 14);
					if let Ok(b) = group.image(e.nId) { acc.bytes("res.group.image", b); }
				}
				let mut v = Vec::new();
				let r = group.write(&mut v);
				acc.txt("res.group.write", format!("{:?} {} {}", r.is_ok(), v.len(), digest(&v)));
			},
			Err(e) => acc.txt("res.group.err", format!("{:?}", e)),
		}
	}
	match res.version_info() {
		Ok(vi) => {
			acc.txt("ver.debug", format!("{:?}", vi));
			if let Some(f) = vi.fixed() { acc.obj("ver.fixed", f, 52); }
			let tr = vi.translation();
			acc.obj("ver.translation", tr.as_ptr(), tr.len() * 4);
			for &lang in tr.iter().take(8) {
				let mut n = 0;
				vi.strings(lang, |k, v| { n += k.len() + v.len(); });
				acc.txt("ver.strings", format!("{:?} {}", lang, n));
				acc.txt("ver.value", format!("{:?}", vi.value(lang, "ProductName")));
			}
			let fi = vi.file_info();
			acc.txt("ver.file_info", format!("{}", format!("{:?}", fi).len()));
			acc.txt("ver.source", format!("{}", vi.source_code().len()));
		},
		Err(e) => acc.txt("ver.err", format!("{:?}", e)),
	}
}

fn walk_security(acc: &mut Acc, r: pelite::Result<pelite::security::Security>) {
	match r {
		Ok(s) => {
			acc.txt("sec.debug", format!("{:?}", s));
			acc.obj("sec.image", s.image(), 8);
			acc.txt("sec.type", format!("{}", s.certificate_type()));
			acc.bytes("sec.data", s.certificate_data());
		},
		Err(e) => acc.txt("sec.err", format!("{:?}", e)),
	}
}

fn walk_rich(acc: &mut Acc, r: pelite::Result<pelite::rich_structure::RichStructure>) {
	match r {
		Ok(rich) => {
			acc.txt("rich.debug", format!("{:?}", rich));
			let im = rich.image();
			acc.obj("rich.image", im.as_ptr(), im.len() * 4);
			acc.txt("rich.key", format!("{} {}", rich.xor_key(), rich.checksum()));
			let recs: Vec<_> = rich.records().collect();
			acc.txt("rich.records", format!("{:?}", recs));
			let mut enc = vec![0u32; im.len()];
			acc.txt("rich.encode", format!("{:?}", rich.encode(&recs, &mut enc)));
			acc.txt("rich.iter", format!("{:?} {:?}", rich.records().len(), rich.records().rev().next()));
		},
		Err(e) => acc.txt("rich.err", format!("{:?}", e)),
	}
}

fn walk_relocs(acc: &mut Acc, r: pelite::Result<pelite::base_relocs::BaseRelocs>) {
	match r {
		Ok(br) => {
			acc.txt("relocs.debug", format!("{:?}", br));
			acc.bytes("relocs.image", br.image());
			let mut n = 0usize;
			for b in br.iter_blocks() {
				n += 1;
				if n > 100000 { acc.bad.push("relocs: too many blocks".to_string()); break; }
				acc.obj("relocs.block", b.image(), 8);
				let w = b.words();
				acc.obj("relocs.words", w.as_ptr(), w.len() * 2);
				let _ = format!("{:?}", b);
			}
			let mut h = 0u64;
			br.for_each(|rva, ty| h = h.wrapping_mul(31).wrapping_add(rva as u64 * 16 + ty as u64));
			acc.txt("relocs.fold", format!("{}", h));
		},
		Err(e) => acc.txt("relocs.err", format!("{:?}", e)),
	}
}

macro_rules! walk_body {
	($acc:ident, $p:ident, $bits:expr) => {{
		// headers
		$acc.obj("dos", $p.dos_header(), 64);
		$acc.bytes("dosimg", $p.dos_image());
		let nt = $p.nt_headers();
		$acc.obj("nt", nt, std::mem::size_of_val(nt));
		$acc.txt("nt.debug", format!("{:?} {:?}", $p.dos_header(), nt));
		$acc.obj("fh", $p.file_header(), 20);
		let dd = $p.data_directory();
		$acc.obj("dd", dd.as_ptr(), dd.len() * 8);
		let sh = $p.section_headers();
		$acc.obj("sec", sh.image().as_ptr(), sh.image().len() * 40);
		$acc.txt("sec.debug", format!("{:?}", sh));
		for s in sh.iter() {
			$acc.txt("sec.name", format!("{:?} {:?} {:?} {:?}", s.name(), s.name_bytes(), s.virtual_range(), s.file_range()));
			if let Ok(b) = $p.get_section_bytes(s) { $acc.bytes("sec.bytes", b); }
		}
		let h = $p.headers();
		$acc.bytes("himg", h.image());
		$acc.txt("hdr", format!("{} {:?} {:?}", h.check_sum(), h.code_range(), h.image_range()));
		// directories
		walk_rich(&mut $acc, $p.rich_structure());
		match $p.exports() {
			Ok(exp) => {
				$acc.txt("exp.debug", format!("{:?}", exp));
				$acc.obj("exp.image", exp.image(), 40);
				$acc.txt("exp.name", format!("{:?} {}", exp.dll_name(), exp.ordinal_base()));
				match exp.by() {
					Ok(by) => {
						$acc.txt("exp.by", format!("{:?} {:?}", by, by.check_sorted()));
						$acc.obj("exp.functions", by.functions().as_ptr(), by.functions().len() * 4);
						$acc.obj("exp.names", by.names().as_ptr(), by.names().len() * 4);
						$acc.obj("exp.idx", by.name_indices().as_ptr(), by.name_indices().len() * 2);
						for (i, e) in by.iter().enumerate().take(2000) { $acc.txt("exp.fn", format!("{:?} {:?}", e, by.name_lookup(i))); }
						for (n, e) in by.iter_names().take(2000) {
							$acc.txt("exp.nm", format!("{:?} {:?}", n, e));
							if let Ok(n) = n { $acc.txt("exp.lookup", format!("{:?} {:?}", by.name(n), by.name_linear(n))); }
						}
						for (n, i) in by.iter_name_indices().take(2000) { $acc.txt("exp.ni", format!("{:?} {}", n, i)); }
						$acc.txt("exp.ord", format!("{:?} {:?} {:?}", by.ordinal(exp.ordinal_base()), by.ordinal(0), by.ordinal(0xffff)));
					},
					Err(e) => $acc.txt("exp.by.err", format!("{:?}", e)),
				}
			},
			Err(e) => $acc.txt("exp.err", format!("{:?}", e)),
		}
		match $p.imports() {
			Ok(imp) => {
				$acc.txt("imp.debug", format!("{:?}", imp));
				$acc.obj("imp.image", imp.image().as_ptr(), imp.image().len() * 20);
				for d in imp.iter().take(500) {
					$acc.obj("imp.desc", d.image(), 20);
					$acc.txt("imp.desc.debug", format!("{:?} {:?}", d, d.dll_name()));
					if let Ok(iat) = d.iat() { let sl = iat.as_slice(); $acc.obj("imp.iat", sl.as_ptr(), sl.len() * ($bits / 8)); }
					match d.int() { Ok(int) => for i in int.take(5000) { $acc.txt("imp.int", format!("{:?}", i)); }, Err(e) => $acc.txt("imp.int.err", format!("{:?}", e)) }
				}
			},
			Err(e) => $acc.txt("imp.err", format!("{:?}", e)),
		}
		match $p.iat() {
			Ok(iat) => {
				$acc.obj("iat.image", iat.image().as_ptr(), iat.image().len() * ($bits / 8));
				for (va, imp) in iat.iter().take(5000) { $acc.txt("iat.entry", format!("{} {:?}", *va as u64, imp)); }
			},
			Err(e) => $acc.txt("iat.err", format!("{:?}", e)),
		}
		walk_relocs(&mut $acc, $p.base_relocs());
		match $p.debug() {
			Ok(dbg) => {
				$acc.txt("dbg.debug", format!("{:?} {:?}", dbg, dbg.pdb_file_name()));
				$acc.obj("dbg.image", dbg.image().as_ptr(), dbg.image().len() * 28);
				for dir in dbg.iter().take(500) {
					$acc.obj("dbg.dir", dir.image(), 28);
					if let Some(b) = dir.data() { $acc.bytes("dbg.data", b); }
					$acc.txt("dbg.entry", format!("{:?} {:?}", dir, dir.entry()));
					if let Ok(e) = dir.entry() {
						if let Some(cv) = e.as_code_view() { $acc.txt("dbg.cv", format!("{} {} {:?}", cv.format(), cv.age(), cv.pdb_file_name())); }
						if let Some(pgo) = e.as_pgo() { for s in pgo.iter().take(5000) { $acc.txt("dbg.pgo", format!("{:?}", s)); } }
					}
				}
			},
			Err(e) => $acc.txt("dbg.err", format!("{:?}", e)),
		}
		match $p.tls() {
			Ok(tls) => {
				$acc.txt("tls.debug", format!("{:?}", tls));
				$acc.obj("tls.image", tls.image(), std::mem::size_of_val(tls.image()));
				if let Ok(b) = tls.raw_data() { $acc.bytes("tls.raw", b); }
				if let Ok(s) = tls.slot() { $acc.obj("tls.slot", s, 4); }
				if let Ok(c) = tls.callbacks() { $acc.obj("tls.callbacks", c.as_ptr(), c.len() * ($bits / 8)); }
			},
			Err(e) => $acc.txt("tls.err", format!("{:?}", e)),
		}
		match $p.load_config() {
			Ok(lc) => {
				$acc.txt("lc.debug", format!("{:?}", lc));
				if let Ok(c) = lc.security_cookie() { $acc.obj("lc.cookie", c, 4); }
				if let Ok(t) = lc.se_handler_table() { $acc.obj("lc.seh", t.as_ptr(), t.len() * ($bits / 8)); }
			},
			Err(e) => $acc.txt("lc.err", format!("{:?}", e)),
		}
		walk_security(&mut $acc, $p.security());
		match $p.exception() {
			Ok(exc) => {
				$acc.txt("exc.debug", format!("{:?} {}", exc, exc.check_sorted()));
				$acc.obj("exc.image", exc.image().as_ptr(), exc.image().len() * 12);
				for f in exc.functions().take(3000) {
					$acc.txt("exc.fn", format!("{:?}", f));
					if let Ok(b) = f.bytes() { $acc.bytes("exc.bytes", b); }
					if let Ok(ui) = f.unwind_info() {
						$acc.txt("exc.ui", format!("{:?} {} {} {} {} {}", ui, ui.version(), ui.flags(), ui.size_of_prolog(), ui.frame_register(), ui.frame_offset()));
						let uc = ui.unwind_codes();
						$acc.obj("exc.codes", uc.as_ptr(), uc.len() * 2);
					}
					let im = f.image();
					$acc.txt("exc.lookup", format!("{:?} {:?}", exc.index_of(im.BeginAddress), exc.lookup_function_entry(im.EndAddress).is_some()));
				}
			},
			Err(e) => $acc.txt("exc.err", format!("{:?}", e)),
		}
		match $p.resources() {
			Ok(res) => walk_resources(&mut $acc, res),
			Err(e) => $acc.txt("res.err", format!("{:?}", e)),
		}
		// scanner: one pattern per strategy over the code range and over everything
		{
			use pelite::pattern::Atom::*;
			let sc = $p.scanner();
			let mut save = [0u32; 4];
			for pat in [&[Save(0), Byte(0xE8), Push(4), Jump4, Save(1), Pop, Save(2)][..], &[Save(0), Skip(1), Byte(0)][..], &[Save(0), Byte(0x48), Byte(0x8B), Byte(0), Byte(0), Byte(0x90)][..]] {
				let mut m = sc.matches_code(pat);
				let mut n = 0;
				while m.next(&mut save) { n += 1; if n >= 200 { break; } }
				let mut m = sc.matches(pat, 0..u32::max_value());
				let mut n2 = 0;
				while m.next(&mut save) { n2 += 1; if n2 >= 200 { break; } }
				$acc.txt("scan", format!("{} {} {}", n, n2, sc.finds_code(pat, &mut save)));
			}
		}
		// strings in every section
		for s in $p.section_headers().iter().take(8) {
			if let Ok(b) = $p.get_section_bytes(s) {
				let n = pelite::strings::Config::default().enumerate(s.VirtualAddress, &b[..std::cmp::min(b.len(), 1 << 16)]).count();
				$acc.txt("strings", format!("{}", n));
			}
		}
		// serializer
		match serde_json::to_string(&$p) {
			Ok(js) => { let ok = serde_json::from_str::<serde_json::Value>(&js).is_ok(); $acc.txt("json", format!("{} {} {}", js.len(), digest(js.as_bytes()), ok)); if !ok { $acc.bad.push("json not well formed".to_string()); } },
			Err(e) => { $acc.txt("json.err", format!("{}", e)); $acc.bad.push(format!("json serialization failed: {}", e)); },
		}
	}};
}

// =================================================================================================
// The format-agnostic wrapper API (src/wrap/*.rs) as a canonical item stream (property C19):
// `wrap_stream!` calls every method the wrappers offer — wrap/pe.rs, headers.rs, sections.rs,
// exports.rs, imports.rs, debug.rs, tls.rs, load_config.rs, scanner.rs — and prints what they hand
// out in canonical text (references as off:len, values decimal, strings hex; never Debug/Display of a
// library type).  The SAME macro body is expanded on the wrapper types (`walk wf|wv`) and on the four
// format-specific types (`walk f32|…`): the digest of the stream is what class C19 compares between
// the wrapper and the specific view it selected.
// =================================================================================================
use crate::ops_img::{rs, tref};
use pelite::image::*;
use pelite::pe64::debug::Entry;
use pelite::pe64::exports::Export;
use pelite::pe64::imports::Import;
use pelite::util::CStr;
use pelite::Wrap;

/// canonical text of a value the wrapper API hands out: the same text for `T` and for the `Wrap` holding it
pub trait Canon { fn canon(&self, g: &Guarded) -> String; }
macro_rules! canon_struct_ref {
	($($t:ty),*) => { $(impl<'a> Canon for &'a $t { fn canon(&self, g: &Guarded) -> String { tref(g, *self as *const $t, std::mem::size_of::<$t>()) } })* };
}
canon_struct_ref!(IMAGE_NT_HEADERS32, IMAGE_NT_HEADERS64, IMAGE_OPTIONAL_HEADER32, IMAGE_OPTIONAL_HEADER64,
	IMAGE_TLS_DIRECTORY32, IMAGE_TLS_DIRECTORY64, IMAGE_LOAD_CONFIG_DIRECTORY32, IMAGE_LOAD_CONFIG_DIRECTORY64);
impl<'a> Canon for &'a u32 { fn canon(&self, g: &Guarded) -> String { format!("{}={}", tref(g, *self as *const u32, 4), **self) } }
impl<'a> Canon for &'a u64 { fn canon(&self, g: &Guarded) -> String { format!("{}={}", tref(g, *self as *const u64, 8), **self) } }
impl<'a> Canon for &'a [u32] { fn canon(&self, g: &Guarded) -> String { format!("{}[{}]", tref(g, self.as_ptr(), self.len() * 4), self.iter().map(|x| x.to_string()).collect::<Vec<_>>().join(",")) } }
impl<'a> Canon for &'a [u64] { fn canon(&self, g: &Guarded) -> String { format!("{}[{}]", tref(g, self.as_ptr(), self.len() * 8), self.iter().map(|x| x.to_string()).collect::<Vec<_>>().join(",")) } }
impl<'a, R: Canon> Canon for (R, pelite::Result<Import<'a>>) { fn canon(&self, g: &Guarded) -> String { format!("{}>{}", self.0.canon(g), imp_s(g, self.1)) } }
impl<A: Canon, B: Canon> Canon for Wrap<A, B> { fn canon(&self, g: &Guarded) -> String { match self { Wrap::T32(a) => a.canon(g), Wrap::T64(b) => b.canon(g) } } }

pub fn rcanon<T: Canon>(g: &Guarded, r: pelite::Result<T>) -> String { match r { Ok(x) => x.canon(g), Err(e) => format!("!{}", errname(e)) } }
pub fn cstr_s(g: &Guarded, r: pelite::Result<&CStr>) -> String {
	match r { Ok(c) => { let b = c.c_str(); format!("{}:{}", g.rf(b.as_ptr(), b.len()), hex(c.as_ref())) }, Err(e) => format!("!{}", errname(e)) }
}
pub fn imp_s(g: &Guarded, r: pelite::Result<Import<'_>>) -> String {
	match r {
		Ok(Import::ByName { hint, name }) => format!("n{}@{}", hint, cstr_s(g, Ok(name))),
		Ok(Import::ByOrdinal { ord }) => format!("o{}", ord),
		Err(e) => format!("!{}", errname(e)),
	}
}
pub fn exp_s(g: &Guarded, r: pelite::Result<Export<'_>>) -> String {
	match r {
		Ok(Export::Symbol(rva)) => format!("Symbol({})@{}", *rva, tref(g, rva as *const u32, 4)),
		Ok(Export::Forward(s)) => { let b = s.c_str(); format!("Forward({})@{}", hex(s.as_ref()), g.rf(b.as_ptr(), b.len())) },
		Err(e) => format!("err:{}", errname(e)),
	}
}
fn rslice<T>(g: &Guarded, r: pelite::Result<&[T]>) -> String {
	match r { Ok(t) => tref(g, t.as_ptr(), t.len() * std::mem::size_of::<T>()), Err(e) => format!("!{}", errname(e)) }
}
fn obytes(g: &Guarded, d: Option<&[u8]>) -> String { match d { Some(b) => g.rf(b.as_ptr(), b.len()), None => "none".to_string() } }
/// a debug directory entry, interpreted (the same `Entry` type through both APIs); also its `as_*` projections
pub fn entry_s(g: &Guarded, e: pelite::Result<Entry>) -> String {
	match e {
		Err(e) => format!("!{}", errname(e)),
		Ok(en) => {
			let proj = format!("{}{}{}{}", en.as_code_view().is_some() as u8, en.as_dbg().is_some() as u8, en.as_pgo().is_some() as u8, en.as_unknown().is_some() as u8);
			match en {
				Entry::CodeView(cv) => format!("cv({},fmt={},age={},name={})", proj, hex(cv.format().as_bytes()), cv.age(), cstr_s(g, Ok(cv.pdb_file_name()))),
				Entry::Dbg(d) => format!("dbg({},img={})", proj, tref(g, d.image(), 12)),
				Entry::Pgo(pgo) => {
					let im = pgo.image();
					let items: Vec<String> = pgo.iter().take(5000).map(|it| format!("{}:{}:{}", it.rva, it.size, cstr_s(g, Ok(it.name)))).collect();
					format!("pgo({},img={},[{}])", proj, tref(g, im.as_ptr(), im.len() * 4), items.join(","))
				},
				Entry::Unknown(d) => format!("unk({},{})", proj, obytes(g, d)),
			}
		},
	}
}

/// `exc <k> dump` text of an exception directory (the format of ops_dirs.rs `exc_dump`)
macro_rules! exc_dump_text {
	($g:expr, $exc:expr) => {{
		let (g, exc) = ($g, $exc);
		let im = exc.image();
		let mut fns = Vec::new();
		for f in exc.functions() {
			let rf = f.image();
			let uw = match f.unwind_info() {
				Err(e) => format!("!{}", errname(e)),
				Ok(ui) => { let c = ui.unwind_codes(); format!("{}(ver={},flags={},prolog={},freg={},foff={},codes={})", tref(g, ui.image(), 4), ui.version(), ui.flags(), ui.size_of_prolog(), ui.frame_register(), ui.frame_offset(), tref(g, c.as_ptr(), c.len() * 2)) },
			};
			let by = match f.bytes() { Ok(b) => g.rf(b.as_ptr(), b.len()), Err(e) => format!("!{}", errname(e)) };
			fns.push(format!("{{rf={} {}:{}:{} bytes={} uw={}}}", tref(g, rf, 12), rf.BeginAddress, rf.EndAddress, rf.UnwindData, by, uw));
		}
		format!("ok img={} n={} sorted={} [{}]", tref(g, im.as_ptr(), im.len() * 12), im.len(), exc.check_sorted() as u8, fns.join(";"))
	}};
}
/// `exc <k> lookup <pc>` text (the format of ops_dirs.rs `exc_lookup`)
macro_rules! exc_lookup_text {
	($g:expr, $exc:expr, $pc:expr) => {{
		let (g, exc, pc) = ($g, $exc, $pc);
		let f = match exc.lookup_function_entry(pc) { Some(f) => tref(g, f.image(), 12), None => "none".to_string() };
		match exc.index_of(pc) { Ok(i) => format!("ok found={} fn={}", i, f), Err(i) => format!("ok notfound={} fn={}", i, f) }
	}};
}
macro_rules! canon_exception {
	($m:ident) => {
		impl<'a, P: pelite::$m::Pe<'a>> Canon for pelite::$m::exception::Exception<'a, P> {
			fn canon(&self, g: &Guarded) -> String { exc_dump_text!(g, self) }
		}
	};
}
canon_exception!(pe32);
canon_exception!(pe64);

/// What only one of the two API families offers under a given name:
/// `get_export_by_{ordinal,import,name}` + `as_ref` (wrappers) / `GetProcAddress::get_export` (format specific)
pub trait WrapOnly<'a> {
	fn by_ord(&self, o: u16) -> pelite::Result<Export<'a>>;
	fn by_imp(&self, i: Import<'a>) -> pelite::Result<Export<'a>>;
	fn by_name(&self, n: &[u8]) -> pelite::Result<Export<'a>>;
	fn as_ref_len(&self) -> usize;
}
macro_rules! wrap_only_specific {
	($t:ty, $m:ident) => {
		impl<'a> WrapOnly<'a> for $t {
			fn by_ord(&self, o: u16) -> pelite::Result<Export<'a>> { use pelite::$m::exports::GetProcAddress; self.get_export(o) }
			fn by_imp(&self, i: Import<'a>) -> pelite::Result<Export<'a>> { use pelite::$m::exports::GetProcAddress; self.get_export(i) }
			fn by_name(&self, n: &[u8]) -> pelite::Result<Export<'a>> { use pelite::$m::exports::GetProcAddress; self.get_export(n) }
			fn as_ref_len(&self) -> usize { use pelite::$m::PeObject; (&self).image().len() }
		}
	};
}
wrap_only_specific!(pelite::pe32::PeFile<'a>, pe32);
wrap_only_specific!(pelite::pe32::PeView<'a>, pe32);
wrap_only_specific!(pelite::pe64::PeFile<'a>, pe64);
wrap_only_specific!(pelite::pe64::PeView<'a>, pe64);
macro_rules! wrap_only_wrapper {
	($t:ty) => {
		impl<'a> WrapOnly<'a> for $t {
			fn by_ord(&self, o: u16) -> pelite::Result<Export<'a>> { self.get_export_by_ordinal(o) }
			fn by_imp(&self, i: Import<'a>) -> pelite::Result<Export<'a>> { self.get_export_by_import(i) }
			fn by_name(&self, n: &[u8]) -> pelite::Result<Export<'a>> { self.get_export_by_name(n) }
			fn as_ref_len(&self) -> usize {
				use pelite::pe32::PeObject as _;
				use pelite::pe64::PeObject as _;
				match self.as_ref() { Wrap::T32(r) => r.image().len(), Wrap::T64(r) => r.image().len() }
			}
		}
	};
}
wrap_only_wrapper!(pelite::PeFile<'a>);
wrap_only_wrapper!(pelite::PeView<'a>);

macro_rules! wrap_stream {
	($acc:ident, $p:ident) => {{
		let g: &Guarded = $acc.g;
		let er = |e: pelite::Error| format!("!{}", errname(e));
		// ---- wrap/pe.rs: the view itself and the headers
		$acc.bytes("image", $p.image());
		$acc.txt("align", match $p.align() { pelite::Align::File => "File", pelite::Align::Section => "Section" }.to_string());
		$acc.txt("as_ref", WrapOnly::as_ref_len(&$p).to_string());
		$acc.obj("dos", $p.dos_header(), 64);
		$acc.bytes("dosimg", $p.dos_image());
		$acc.txt("nt", $p.nt_headers().canon(g));
		$acc.obj("fh", $p.file_header(), 20);
		$acc.txt("opt", $p.optional_header().canon(g));
		let dd = $p.data_directory();
		$acc.obj("dd", dd.as_ptr(), dd.len() * 8);
		// ---- wrap/sections.rs
		let sh = $p.section_headers();
		$acc.obj("sec", sh.image().as_ptr(), sh.image().len() * 40);
		$acc.obj("sec.slice", sh.as_slice().as_ptr(), sh.as_slice().len() * 40);
		$acc.txt("sec.into_iter", sh.into_iter().count().to_string());
		let sec_idx = |s: Option<&pelite::image::IMAGE_SECTION_HEADER>| match s { Some(s) => ((s as *const _ as usize - sh.image().as_ptr() as usize) / 40).to_string(), None => "none".to_string() };
		for s in sh.iter().take(100) {
			let (vr, fr) = (s.virtual_range(), s.file_range());
			let nm = match s.name() { Ok(n) => format!("s{}", hex(n.as_bytes())), Err(b) => format!("b{}", hex(b)) };
			$acc.txt("sec.hdr", format!("{} {} {}..{} {}..{}", hex(s.name_bytes()), nm, vr.start, vr.end, fr.start, fr.end));
			$acc.txt("sec.bytes", rs(g, $p.get_section_bytes(s)));
			$acc.txt("sec.by_name", sec_idx(sh.by_name(s.name_bytes()).map(|x| &**x)));
			$acc.txt("sec.by_rva", sec_idx(sh.by_rva(s.VirtualAddress).map(|x| &**x)));
		}
		// ---- wrap/pe.rs: slices and typed reads
		let mut rvas: Vec<u32> = vec![0, 1, 0x1000, 0x1004];
		for s in sh.iter().take(6) { rvas.push(s.VirtualAddress); rvas.push(s.VirtualAddress.wrapping_add(s.VirtualSize).wrapping_sub(2)); }
		for d in dd.iter() { if d.VirtualAddress != 0 { rvas.push(d.VirtualAddress); } }
		for &rva in rvas.iter() {
			$acc.txt("slice", format!("{} {} {}", rs(g, $p.slice(rva, 1, 1)), rs(g, $p.slice(rva, 8, 4)), rs(g, $p.slice_bytes(rva))));
			$acc.txt("derva", rcanon(g, $p.derva::<u32>(rva)));
			$acc.txt("derva_copy", match $p.derva_copy::<u16>(rva) { Ok(x) => x.to_string(), Err(e) => er(e) });
			let mut buf = [0u8; 5];
			$acc.txt("derva_into", match $p.derva_into(rva, &mut buf) { Ok(()) => hex(&buf), Err(e) => er(e) });
			$acc.txt("derva_slice", rslice(g, $p.derva_slice::<u16>(rva, 3)));
			let mut seen = 0usize;
			$acc.txt("derva_slice_f", format!("{} {}", rslice(g, $p.derva_slice_f::<u8, _>(rva, |b| { seen += 1; *b == 0 || seen > 12 })), seen));
			$acc.txt("derva_slice_s", rslice(g, $p.derva_slice_s::<u16>(rva, 0)));
			$acc.txt("derva_c_str", cstr_s(g, $p.derva_c_str(rva)));
			$acc.txt("derva_string", cstr_s(g, $p.derva_string::<CStr>(rva)));
		}
		// ---- wrap/headers.rs
		let h = $p.headers();
		$acc.bytes("hdr.image", h.image());
		let (cr, ir) = (h.code_range(), h.image_range());
		$acc.txt("hdr", format!("{} {}..{} {}..{} {}", h.check_sum(), cr.start, cr.end, ir.start, ir.end, h.pe().image().len()));
		// ---- directories whose type is the same through both APIs
		match $p.rich_structure() {
			Ok(r) => { let im = r.image(); $acc.txt("rich", format!("{} {} {} {}", tref(g, im.as_ptr(), im.len() * 4), r.xor_key(), r.checksum(), r.records().map(|x| format!("{}:{}:{}", x.product, x.build, x.count)).collect::<Vec<_>>().join(","))); },
			Err(e) => $acc.txt("rich", er(e)),
		}
		match $p.base_relocs() {
			Ok(br) => { $acc.bytes("relocs.image", br.image()); let mut hsh = 0u64; let mut n = 0usize; br.for_each(|rva, ty| { n += 1; hsh = hsh.wrapping_mul(31).wrapping_add(rva as u64 * 16 + ty as u64); }); $acc.txt("relocs.fold", format!("{} {} {}", br.iter_blocks().take(100000).count(), n, hsh)); },
			Err(e) => $acc.txt("relocs", er(e)),
		}
		match $p.security() {
			Ok(s) => { $acc.obj("security.image", s.image(), 8); $acc.txt("security.type", s.certificate_type().to_string()); $acc.bytes("security.data", s.certificate_data()); },
			Err(e) => $acc.txt("security", er(e)),
		}
		match $p.resources() {
			Ok(res) => match res.root() {
				Ok(root) => { $acc.obj("res.root", root.image(), 16); $acc.txt("res.entries", format!("{}+{}", root.named_entries().count(), root.id_entries().count())); },
				Err(e) => $acc.txt("res.root", er(e)),
			},
			Err(e) => $acc.txt("res", er(e)),
		}
		// ---- wrap/exports.rs
		match $p.exports() {
			Err(e) => $acc.txt("exp", er(e)),
			Ok(exp) => {
				$acc.obj("exp.image", exp.image(), 40);
				$acc.txt("exp.hdr", format!("{} {} {}", exp.pe().image().len(), cstr_s(g, exp.dll_name()), exp.ordinal_base()));
				$acc.txt("exp.tabs", format!("{} {} {}", rslice(g, exp.functions()), rslice(g, exp.names()), rslice(g, exp.name_indices())));
				match exp.by() {
					Err(e) => $acc.txt("exp.by", er(e)),
					Ok(by) => {
						$acc.obj("by.image", by.image(), 40);
						$acc.txt("by.hdr", format!("{} {} {}", by.pe().image().len(), cstr_s(g, by.dll_name()), by.ordinal_base()));
						$acc.txt("by.tabs", format!("{} {} {}", rslice(g, Ok(by.functions())), rslice(g, Ok(by.names())), rslice(g, Ok(by.name_indices()))));
						$acc.txt("by.sorted", match by.check_sorted() { Ok(b) => b.to_string(), Err(e) => er(e) });
						for (i, e) in by.iter().enumerate().take(300) {
							let proj = match e { Ok(x) => format!("{:?}/{}", x.symbol(), x.forward().map_or("none".to_string(), |f| hex(f.as_ref()))), Err(_) => "-".to_string() };
							$acc.txt("by.iter", format!("{} {} {} {}", exp_s(g, e), proj, exp_s(g, by.index(i)), imp_s(g, by.name_lookup(i))));
						}
						$acc.txt("by.index.end", format!("{} {}", exp_s(g, by.index(by.functions().len())), imp_s(g, by.name_lookup(by.functions().len()))));
						for (hint, (n, e)) in by.iter_names().enumerate().take(300) {
							$acc.txt("by.iter_names", format!("{} {} {} {}", cstr_s(g, n), exp_s(g, e), exp_s(g, by.hint(hint)), cstr_s(g, by.name_of_hint(hint))));
							if let Ok(n) = n {
								$acc.txt("by.name", format!("{} {} {} {} {}", exp_s(g, by.name(n)), exp_s(g, by.name_linear(n)), exp_s(g, by.hint_name(hint, n)), exp_s(g, by.hint_name(hint + 1, n)),
									exp_s(g, by.import(Import::ByName { hint, name: n }))));
								$acc.txt("get_export", format!("{} {}", exp_s(g, WrapOnly::by_name(&$p, n.as_ref())), exp_s(g, WrapOnly::by_imp(&$p, Import::ByName { hint: hint + 1, name: n }))));
							}
						}
						$acc.txt("by.hint.end", format!("{} {}", exp_s(g, by.hint(by.names().len())), cstr_s(g, by.name_of_hint(by.names().len()))));
						for (n, i) in by.iter_name_indices().take(300) { $acc.txt("by.iter_name_indices", format!("{} {}", cstr_s(g, n), i)); }
						let base = by.ordinal_base();
						$acc.txt("by.ordinal", format!("{} {} {} {}", exp_s(g, by.ordinal(base)), exp_s(g, by.ordinal(0)), exp_s(g, by.ordinal(0xffff)), exp_s(g, by.import(Import::ByOrdinal { ord: base }))));
					},
				}
			},
		}
		$acc.txt("get_export.ord", format!("{} {} {}", exp_s(g, WrapOnly::by_ord(&$p, 1)), exp_s(g, WrapOnly::by_imp(&$p, Import::ByOrdinal { ord: 2 })), exp_s(g, WrapOnly::by_name(&$p, b"DllMain"))));
		// ---- wrap/imports.rs
		match $p.imports() {
			Err(e) => $acc.txt("imp", er(e)),
			Ok(imp) => {
				$acc.obj("imp.image", imp.image().as_ptr(), imp.image().len() * 20);
				$acc.txt("imp.hdr", format!("{} {}", imp.pe().image().len(), imp.into_iter().take(100000).count()));
				for d in imp.iter().take(200) {
					$acc.obj("imp.desc", d.image(), 20);
					$acc.txt("imp.desc.hdr", format!("{} {}", d.pe().image().len(), cstr_s(g, d.dll_name())));
					match d.iat() { Ok(it) => for x in it.take(3000) { $acc.txt("imp.iat", x.canon(g)); }, Err(e) => $acc.txt("imp.iat", er(e)) }
					match d.int() { Ok(it) => for r in it.take(3000) { $acc.txt("imp.int", imp_s(g, r)); }, Err(e) => $acc.txt("imp.int", er(e)) }
				}
			},
		}
		match $p.iat() {
			Err(e) => $acc.txt("iat", er(e)),
			Ok(iat) => {
				$acc.txt("iat.image", format!("{} {}", iat.image().canon(g), iat.pe().image().len()));
				for x in iat.iter().take(5000) { $acc.txt("iat.item", x.canon(g)); }
			},
		}
		// ---- wrap/load_config.rs, wrap/tls.rs
		match $p.load_config() {
			Err(e) => $acc.txt("lc", er(e)),
			Ok(lc) => $acc.txt("lc", format!("{} {} {} {}", lc.image().canon(g), lc.pe().image().len(), rcanon(g, lc.security_cookie()), rcanon(g, lc.se_handler_table()))),
		}
		match $p.tls() {
			Err(e) => $acc.txt("tls", er(e)),
			Ok(tls) => $acc.txt("tls", format!("{} {} {} {} {}", tls.image().canon(g), tls.pe().image().len(), rs(g, tls.raw_data()), rcanon(g, tls.slot()), rcanon(g, tls.callbacks()))),
		}
		// ---- exception directory: the wrappers offer the value only (no methods on `Wrap<Exception32, Exception64>`)
		$acc.txt("exc", rcanon(g, $p.exception()));
		// ---- wrap/debug.rs
		match $p.debug() {
			Err(e) => $acc.txt("dbg", er(e)),
			Ok(dbg) => {
				$acc.obj("dbg.image", dbg.image().as_ptr(), dbg.image().len() * 28);
				$acc.txt("dbg.hdr", format!("{} {} {}", dbg.pe().image().len(), match dbg.pdb_file_name() { Some(c) => cstr_s(g, Ok(c)), None => "none".to_string() }, dbg.into_iter().count()));
				for dir in dbg.iter().take(500) {
					$acc.obj("dbg.dir", dir.image(), 28);
					$acc.txt("dbg.entry", format!("{} {} {}", dir.pe().image().len(), obytes(g, dir.data()), entry_s(g, dir.entry())));
				}
			},
		}
		// ---- wrap/scanner.rs
		{
			use pelite::pattern::Atom::*;
			let sc = $p.scanner();
			let cursor = $p.section_headers().iter().next().map(|s| s.VirtualAddress).unwrap_or(0);
			for pat in [&[Save(0), Byte(0xE8), Push(4), Jump4, Save(1), Pop, Save(2)][..], &[Save(0), Skip(1), Byte(0)][..], &[Save(0), Byte(0x48), Byte(0x8B), Byte(0), Byte(0), Byte(0x90)][..], &[Save(0), Byte(0xCC), Save(1)][..]] {
				let mut save = [0u32; 4];
				let f1 = sc.finds_code(pat, &mut save);
				let s1 = save;
				let f2 = sc.finds(pat, 0..u32::max_value(), &mut save);
				$acc.txt("scan.finds", format!("{} {:?} {} {:?}", f1, s1, f2, save));
				let mut m = sc.matches_code(pat);
				$acc.txt("scan.matches_code", format!("{}..{} {} {}", m.range().start, m.range().end, m.hits(), m.pattern().len()));
				let mut n = 0;
				while m.next(&mut save) { n += 1; $acc.txt("scan.hit", format!("{:?} {}..{} {}", save, m.range().start, m.range().end, m.hits())); if n >= 40 { break; } }
				$acc.txt("scan.exec", format!("{} {:?}", m.scanner().exec(cursor, pat, &mut save), save));
				let mut m = sc.matches(pat, 0..u32::max_value());
				let mut n2 = 0;
				while m.next(&mut save) { n2 += 1; if n2 >= 200 { break; } }
				$acc.txt("scan.matches", format!("{} {}..{} {}", n2, m.range().start, m.range().end, m.hits()));
			}
		}
	}};
}

/// the wrapper constructors only (`k` = wf | wv): `$w` is the WRAPPER, nothing is unwrapped
macro_rules! with_wrapper {
	($st:expr, $k:expr, $g:ident, $w:ident => $body:expr) => {{
		match $st.img.as_ref() { None => "noimg".to_string(), Some($g) => match $k {
			"wf" => match pelite::PeFile::from_bytes($g.bytes()) { Ok($w) => $body, Err(e) => format!("noimg {}", errname(e)) },
			"wv" => match pelite::PeView::from_bytes($g.bytes()) { Ok($w) => $body, Err(e) => format!("noimg {}", errname(e)) },
			_ => "bad-op".to_string(),
		} }
	}};
}

/// `exc wf|wv dump` and `exc wf|wv lookup <pc>` through `Wrap::exception()` of the WRAPPER (the operation
/// of ops_dirs.rs unwraps the view first; this module is asked before it for the two wrapper kinds)
fn exc_wrapped(st: &State, a: &[&str]) -> String {
	let k = a[0];
	match (a.len(), a.get(1).copied()) {
		(2, Some("dump")) => with_wrapper!(st, k, g, w => match w.exception() {
			Err(e) => format!("err {}", errname(e)),
			Ok(Wrap::T32(exc)) => exc_dump_text!(g, &exc),
			Ok(Wrap::T64(exc)) => exc_dump_text!(g, &exc),
		}),
		(3, Some("lookup")) => { let pc = num(a[2]) as u32; with_wrapper!(st, k, g, w => match w.exception() {
			Err(e) => format!("err {}", errname(e)),
			Ok(Wrap::T32(exc)) => exc_lookup_text!(g, &exc, pc),
			Ok(Wrap::T64(exc)) => exc_lookup_text!(g, &exc, pc),
		}) },
		_ => "bad-op".to_string(),
	}
}

/// json <k>: the serde_json rendering of the view
pub fn json(st: &mut State, rest: &str) -> String {
	let k = rest.trim();
	with_any!(st, k, g, p => { let _ = g; match serde_json::to_string(&p) { Ok(js) => format!("ok {}", js), Err(e) => format!("fail {}", e) } })
}

/// walk <k>     → `ok items=<n> witems=<m> digest=<d>`: n = items of the whole-API walk (format-specific kinds) or of
///                the wrapper stream (wf / wv); m, d = number of items and FNV digest of the WRAPPER-API stream
/// walktext <k> → `ok <the wrapper-API stream itself>` (diagnosis of a digest difference)
pub fn dispatch(st: &mut State, fam: &str, rest: &str) -> Option<String> {
	if fam == "json" { return Some(json(st, rest)); }
	if fam == "exc" {
		let a: Vec<&str> = rest.split(' ').collect();
		if a[0] == "wf" || a[0] == "wv" { return Some(exc_wrapped(st, &a)); }
		return None;
	}
	if fam != "walk" && fam != "walktext" { return None; }
	let k = rest.trim();
	Some(match st.img.as_ref() { None => "noimg".to_string(), Some(g) => {
		let bytes = g.bytes();
		let mut acc = Acc { g, out: String::new(), items: 0, bad: Vec::new() };
		let mut wacc = Acc { g, out: String::new(), items: 0, bad: Vec::new() };
		macro_rules! go {
			($ctor:expr, $pe:ident, $b:expr) => {{
				use pelite::$pe::{Pe, PeObject};
				match $ctor { Ok(p) => { let _ = p.image_base(); if fam == "walk" { walk_body!(acc, p, $b); } wrap_stream!(wacc, p); true }, Err(e) => { acc.txt("noimg", errname(e).to_string()); false } }
			}};
		}
		macro_rules! gow {
			($ctor:expr) => {{
				match $ctor { Ok(p) => { wrap_stream!(wacc, p); acc.items = wacc.items; true }, Err(e) => { acc.txt("noimg", errname(e).to_string()); false } }
			}};
		}
		let ok = match k {
			"f32" => go!(pelite::pe32::PeFile::from_bytes(bytes), pe32, 32),
			"f64" => go!(pelite::pe64::PeFile::from_bytes(bytes), pe64, 64),
			"v32" => go!(pelite::pe32::PeView::from_bytes(bytes), pe32, 32),
			"v64" => go!(pelite::pe64::PeView::from_bytes(bytes), pe64, 64),
			"wf" => gow!(pelite::PeFile::from_bytes(bytes)),
			"wv" => gow!(pelite::PeView::from_bytes(bytes)),
			_ => return Some("bad-op".to_string()),
		};
		acc.bad.extend(wacc.bad.iter().map(|b| format!("wrapper-api {}", b)));
		if !ok { format!("noimg {}", acc.out.trim_start_matches("noimg=").trim_end_matches(';')) }
		else if !acc.bad.is_empty() { format!("bad {}", acc.bad.join(" | ")) }
		else if fam == "walktext" { format!("ok {}", wacc.out.replace(' ', "_")) }
		else { format!("ok items={} witems={} digest={}", acc.items, wacc.items, digest(wacc.out.as_bytes())) }
	} })
}
