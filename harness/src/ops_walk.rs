//! `walk <k>`: calls every accessor, iterator (front to back), formatter and the serializer reachable
//! from a constructed view and answers `ok items=<n> fnv=<digest of everything printed>`.
//! Its purpose is the direct C01/C02/C03 oracle (crash / panic / hang) over the WHOLE library,
//! modelled or not; the digest is informative (the model cannot reproduce it).
use crate::util::*;
use crate::State;
use std::fmt::Write;

/// every reference the walk hands out must lie inside the buffer and be aligned
pub struct Acc<'g> { pub g: &'g Guarded, pub out: String, pub items: usize, pub bad: Vec<String> }
impl<'g> Acc<'g> {
	pub fn bytes(&mut self, what: &str, b: &[u8]) {
		self.items += 1;
		let r = self.g.rf(b.as_ptr(), b.len());
		if r.starts_with("OUTSIDE") { self.bad.push(format!("{} {}", what, r)); }
		let _ = write!(self.out, "{}={};", what, r);
	}
	pub fn obj<T>(&mut self, what: &str, p: *const T, size: usize) {
		self.items += 1;
		let r = self.g.rf(p as *const u8, size);
		if r.starts_with("OUTSIDE") { self.bad.push(format!("{} {}", what, r)); }
		if (p as usize) % std::mem::align_of::<T>() != 0 { self.bad.push(format!("{} MISALIGNED", what)); }
		let _ = write!(self.out, "{}={};", what, r);
	}
	pub fn txt(&mut self, what: &str, s: String) { self.items += 1; let _ = write!(self.out, "{}={};", what, s); }
}

fn walk_resources(acc: &mut Acc, res: pelite::resources::Resources) {
	use pelite::resources::*;
	acc.txt("res.fsck", format!("{:?}", res.fsck()));
	acc.txt("res.display", format!("{}", res));
	acc.txt("res.debug", format!("{:?}", res));
	fn dir(acc: &mut Acc, d: Directory, depth: u32, budget: &mut u32) {
		if depth > 5 || *budget == 0 { return; }
		let _ = format!("{:?}", d);
		acc.obj("res.dir", d.image(), 16);
		let ne = d.named_entries().count();
		let ie = d.id_entries().count();
		acc.txt("res.counts", format!("{}+{}", ne, ie));
		for e in d.entries() {
			if *budget == 0 { return; }
			*budget -= 1;
			acc.obj("res.entry", e.image(), 8);
			acc.txt("res.name", format!("{:?}", e.name()));
			let _ = format!("{:?}", e);
			match e.entry() {
				Ok(Entry::Directory(sub)) => dir(acc, sub, depth + 1, budget),
				Ok(Entry::DataEntry(data)) => {
					acc.obj("res.data", data.image(), 16);
					let _ = format!("{:?}", data);
					acc.txt("res.cp", format!("{} {}", data.size(), data.code_page()));
					if let Ok(b) = data.bytes() { acc.bytes("res.bytes", b); }
				},
				Err(e) => acc.txt("res.err", format!("{:?}", e)),
			}
		}
	}
	if let Ok(root) = res.root() {
		acc.txt("res.root.display", format!("{}", root));
		let mut budget = 3000;
		dir(acc, root, 0, &mut budget);
	}
	match res.manifest() { Ok(m) => acc.bytes("res.manifest", m.as_bytes()), Err(e) => acc.txt("res.manifest", format!("{:?}", e)) }
	for (i, r) in res.icons().chain(res.cursors()).enumerate() {
		if i > 64 { break; }
		match r {
			Ok((name, group)) => {
				acc.txt("res.group", format!("{} {:?}", name, group));
				acc.obj("res.group.hdr", group.header(), 6);
				for e in group.entries() {
					acc.obj("res.group.entry", e, 14);
					if let Ok(b) = group.image(e.nId) { acc.bytes("res.group.image", b); }
				}
				let mut v = Vec::new();
				let r = group.write(&mut v);
				acc.txt("res.group.write", format!("{:?} {} {}", r.is_ok(), v.len(), digest(&v)));
			},
			Err(e) => acc.txt("res.group.err", format!("{:?}", e)),
		}
	}
	match res.version_info() {
		Ok(vi) => {
			acc.txt("ver.debug", format!("{:?}", vi));
			if let Some(f) = vi.fixed() { acc.obj("ver.fixed", f, 52); }
			let tr = vi.translation();
			acc.obj("ver.translation", tr.as_ptr(), tr.len() * 4);
			for &lang in tr.iter().take(8) {
				let mut n = 0;
				vi.strings(lang, |k, v| { n += k.len() + v.len(); });
				acc.txt("ver.strings", format!("{:?} {}", lang, n));
				acc.txt("ver.value", format!("{:?}", vi.value(lang, "ProductName")));
			}
			let fi = vi.file_info();
			acc.txt("ver.file_info", format!("{}", format!("{:?}", fi).len()));
			acc.txt("ver.source", format!("{}", vi.source_code().len()));
		},
		Err(e) => acc.txt("ver.err", format!("{:?}", e)),
	}
}

fn walk_security(acc: &mut Acc, r: pelite::Result<pelite::security::Security>) {
	match r {
		Ok(s) => {
			acc.txt("sec.debug", format!("{:?}", s));
			acc.obj("sec.image", s.image(), 8);
			acc.txt("sec.type", format!("{}", s.certificate_type()));
			acc.bytes("sec.data", s.certificate_data());
		},
		Err(e) => acc.txt("sec.err", format!("{:?}", e)),
	}
}

fn walk_rich(acc: &mut Acc, r: pelite::Result<pelite::rich_structure::RichStructure>) {
	match r {
		Ok(rich) => {
			acc.txt("rich.debug", format!("{:?}", rich));
			let im = rich.image();
			acc.obj("rich.image", im.as_ptr(), im.len() * 4);
			acc.txt("rich.key", format!("{} {}", rich.xor_key(), rich.checksum()));
			let recs: Vec<_> = rich.records().collect();
			acc.txt("rich.records", format!("{:?}", recs));
			let mut enc = vec![0u32; im.len()];
			acc.txt("rich.encode", format!("{:?}", rich.encode(&recs, &mut enc)));
			acc.txt("rich.iter", format!("{:?} {:?}", rich.records().len(), rich.records().rev().next()));
		},
		Err(e) => acc.txt("rich.err", format!("{:?}", e)),
	}
}

fn walk_relocs(acc: &mut Acc, r: pelite::Result<pelite::base_relocs::BaseRelocs>) {
	match r {
		Ok(br) => {
			acc.txt("relocs.debug", format!("{:?}", br));
			acc.bytes("relocs.image", br.image());
			let mut n = 0usize;
			for b in br.iter_blocks() {
				n += 1;
				if n > 100000 { acc.bad.push("relocs: too many blocks".to_string()); break; }
				acc.obj("relocs.block", b.image(), 8);
				let w = b.words();
				acc.obj("relocs.words", w.as_ptr(), w.len() * 2);
				let _ = format!("{:?}", b);
			}
			let mut h = 0u64;
			br.for_each(|rva, ty| h = h.wrapping_mul(31).wrapping_add(rva as u64 * 16 + ty as u64));
			acc.txt("relocs.fold", format!("{}", h));
		},
		Err(e) => acc.txt("relocs.err", format!("{:?}", e)),
	}
}

macro_rules! walk_body {
	($acc:ident, $p:ident, $bits:expr) => {{
		// headers
		$acc.obj("dos", $p.dos_header(), 64);
		$acc.bytes("dosimg", $p.dos_image());
		let nt = $p.nt_headers();
		$acc.obj("nt", nt, std::mem::size_of_val(nt));
		$acc.txt("nt.debug", format!("{:?} {:?}", $p.dos_header(), nt));
		$acc.obj("fh", $p.file_header(), 20);
		let dd = $p.data_directory();
		$acc.obj("dd", dd.as_ptr(), dd.len() * 8);
		let sh = $p.section_headers();
		$acc.obj("sec", sh.image().as_ptr(), sh.image().len() * 40);
		$acc.txt("sec.debug", format!("{:?}", sh));
		for s in sh.iter() {
			$acc.txt("sec.name", format!("{:?} {:?} {:?} {:?}", s.name(), s.name_bytes(), s.virtual_range(), s.file_range()));
			if let Ok(b) = $p.get_section_bytes(s) { $acc.bytes("sec.bytes", b); }
		}
		let h = $p.headers();
		$acc.bytes("himg", h.image());
		$acc.txt("hdr", format!("{} {:?} {:?}", h.check_sum(), h.code_range(), h.image_range()));
		// directories
		walk_rich(&mut $acc, $p.rich_structure());
		match $p.exports() {
			Ok(exp) => {
				$acc.txt("exp.debug", format!("{:?}", exp));
				$acc.obj("exp.image", exp.image(), 40);
				$acc.txt("exp.name", format!("{:?} {}", exp.dll_name(), exp.ordinal_base()));
				match exp.by() {
					Ok(by) => {
						$acc.txt("exp.by", format!("{:?} {:?}", by, by.check_sorted()));
						$acc.obj("exp.functions", by.functions().as_ptr(), by.functions().len() * 4);
						$acc.obj("exp.names", by.names().as_ptr(), by.names().len() * 4);
						$acc.obj("exp.idx", by.name_indices().as_ptr(), by.name_indices().len() * 2);
						for (i, e) in by.iter().enumerate().take(2000) { $acc.txt("exp.fn", format!("{:?} {:?}", e, by.name_lookup(i))); }
						for (n, e) in by.iter_names().take(2000) {
							$acc.txt("exp.nm", format!("{:?} {:?}", n, e));
							if let Ok(n) = n { $acc.txt("exp.lookup", format!("{:?} {:?}", by.name(n), by.name_linear(n))); }
						}
						for (n, i) in by.iter_name_indices().take(2000) { $acc.txt("exp.ni", format!("{:?} {}", n, i)); }
						$acc.txt("exp.ord", format!("{:?} {:?} {:?}", by.ordinal(exp.ordinal_base()), by.ordinal(0), by.ordinal(0xffff)));
					},
					Err(e) => $acc.txt("exp.by.err", format!("{:?}", e)),
				}
			},
			Err(e) => $acc.txt("exp.err", format!("{:?}", e)),
		}
		match $p.imports() {
			Ok(imp) => {
				$acc.txt("imp.debug", format!("{:?}", imp));
				$acc.obj("imp.image", imp.image().as_ptr(), imp.image().len() * 20);
				for d in imp.iter().take(500) {
					$acc.obj("imp.desc", d.image(), 20);
					$acc.txt("imp.desc.debug", format!("{:?} {:?}", d, d.dll_name()));
					if let Ok(iat) = d.iat() { let sl = iat.as_slice(); $acc.obj("imp.iat", sl.as_ptr(), sl.len() * ($bits / 8)); }
					match d.int() { Ok(int) => for i in int.take(5000) { $acc.txt("imp.int", format!("{:?}", i)); }, Err(e) => $acc.txt("imp.int.err", format!("{:?}", e)) }
				}
			},
			Err(e) => $acc.txt("imp.err", format!("{:?}", e)),
		}
		match $p.iat() {
			Ok(iat) => {
				$acc.obj("iat.image", iat.image().as_ptr(), iat.image().len() * ($bits / 8));
				for (va, imp) in iat.iter().take(5000) { $acc.txt("iat.entry", format!("{} {:?}", *va as u64, imp)); }
			},
			Err(e) => $acc.txt("iat.err", format!("{:?}", e)),
		}
		walk_relocs(&mut $acc, $p.base_relocs());
		match $p.debug() {
			Ok(dbg) => {
				$acc.txt("dbg.debug", format!("{:?} {:?}", dbg, dbg.pdb_file_name()));
				$acc.obj("dbg.image", dbg.image().as_ptr(), dbg.image().len() * 28);
				for dir in dbg.iter().take(500) {
					$acc.obj("dbg.dir", dir.image(), 28);
					if let Some(b) = dir.data() { $acc.bytes("dbg.data", b); }
					$acc.txt("dbg.entry", format!("{:?} {:?}", dir, dir.entry()));
					if let Ok(e) = dir.entry() {
						if let Some(cv) = e.as_code_view() { $acc.txt("dbg.cv", format!("{} {} {:?}", cv.format(), cv.age(), cv.pdb_file_name())); }
						if let Some(pgo) = e.as_pgo() { for s in pgo.iter().take(5000) { $acc.txt("dbg.pgo", format!("{:?}", s)); } }
					}
				}
			},
			Err(e) => $acc.txt("dbg.err", format!("{:?}", e)),
		}
		match $p.tls() {
			Ok(tls) => {
				$acc.txt("tls.debug", format!("{:?}", tls));
				$acc.obj("tls.image", tls.image(), std::mem::size_of_val(tls.image()));
				if let Ok(b) = tls.raw_data() { $acc.bytes("tls.raw", b); }
				if let Ok(s) = tls.slot() { $acc.obj("tls.slot", s, 4); }
				if let Ok(c) = tls.callbacks() { $acc.obj("tls.callbacks", c.as_ptr(), c.len() * ($bits / 8)); }
			},
			Err(e) => $acc.txt("tls.err", format!("{:?}", e)),
		}
		match $p.load_config() {
			Ok(lc) => {
				$acc.txt("lc.debug", format!("{:?}", lc));
				if let Ok(c) = lc.security_cookie() { $acc.obj("lc.cookie", c, 4); }
				if let Ok(t) = lc.se_handler_table() { $acc.obj("lc.seh", t.as_ptr(), t.len() * ($bits / 8)); }
			},
			Err(e) => $acc.txt("lc.err", format!("{:?}", e)),
		}
		walk_security(&mut $acc, $p.security());
		match $p.exception() {
			Ok(exc) => {
				$acc.txt("exc.debug", format!("{:?} {}", exc, exc.check_sorted()));
				$acc.obj("exc.image", exc.image().as_ptr(), exc.image().len() * 12);
				for f in exc.functions().take(3000) {
					$acc.txt("exc.fn", format!("{:?}", f));
					if let Ok(b) = f.bytes() { $acc.bytes("exc.bytes", b); }
					if let Ok(ui) = f.unwind_info() {
						$acc.txt("exc.ui", format!("{:?} {} {} {} {} {}", ui, ui.version(), ui.flags(), ui.size_of_prolog(), ui.frame_register(), ui.frame_offset()));
						let uc = ui.unwind_codes();
						$acc.obj("exc.codes", uc.as_ptr(), uc.len() * 2);
					}
					let im = f.image();
					$acc.txt("exc.lookup", format!("{:?} {:?}", exc.index_of(im.BeginAddress), exc.lookup_function_entry(im.EndAddress).is_some()));
				}
			},
			Err(e) => $acc.txt("exc.err", format!("{:?}", e)),
		}
		match $p.resources() {
			Ok(res) => walk_resources(&mut $acc, res),
			Err(e) => $acc.txt("res.err", format!("{:?}", e)),
		}
		// scanner: one pattern per strategy over the code range and over everything
		{
			use pelite::pattern::Atom::*;
			let sc = $p.scanner();
			let mut save = [0u32; 4];
			for pat in [&[Save(0), Byte(0xE8), Push(4), Jump4, Save(1), Pop, Save(2)][..], &[Save(0), Skip(1), Byte(0)][..], &[Save(0), Byte(0x48), Byte(0x8B), Byte(0), Byte(0), Byte(0x90)][..]] {
				let mut m = sc.matches_code(pat);
				let mut n = 0;
				while m.next(&mut save) { n += 1; if n >= 200 { break; } }
				let mut m = sc.matches(pat, 0..u32::max_value());
				let mut n2 = 0;
				while m.next(&mut save) { n2 += 1; if n2 >= 200 { break; } }
				$acc.txt("scan", format!("{} {} {}", n, n2, sc.finds_code(pat, &mut save)));
			}
		}
		// strings in every section
		for s in $p.section_headers().iter().take(8) {
			if let Ok(b) = $p.get_section_bytes(s) {
				let n = pelite::strings::Config::default().enumerate(s.VirtualAddress, &b[..std::cmp::min(b.len(), 1 << 16)]).count();
				$acc.txt("strings", format!("{}", n));
			}
		}
		// serializer
		match serde_json::to_string(&$p) {
			Ok(js) => { let ok = serde_json::from_str::<serde_json::Value>(&js).is_ok(); $acc.txt("json", format!("{} {} {}", js.len(), digest(js.as_bytes()), ok)); if !ok { $acc.bad.push("json not well formed".to_string()); } },
			Err(e) => { $acc.txt("json.err", format!("{}", e)); $acc.bad.push(format!("json serialization failed: {}", e)); },
		}
	}};
}

/// json <k>: the serde_json rendering of the view
pub fn json(st: &mut State, rest: &str) -> String {
	let k = rest.trim();
	with_any!(st, k, g, p => { let _ = g; match serde_json::to_string(&p) { Ok(js) => format!("ok {}", js), Err(e) => format!("fail {}", e) } })
}

pub fn dispatch(st: &mut State, fam: &str, rest: &str) -> Option<String> {
	if fam == "json" { return Some(json(st, rest)); }
	if fam != "walk" { return None; }
	let k = rest.trim();
	let bits = |k: &str| if k.contains("32") { 32 } else { 64 };
	Some(match st.img.as_ref() { None => "noimg".to_string(), Some(g) => {
		let bytes = g.bytes();
		let mut acc = Acc { g, out: String::new(), items: 0, bad: Vec::new() };
		macro_rules! go {
			($ctor:expr, $pe:ident, $b:expr) => {{
				use pelite::$pe::{Pe, PeObject};
				match $ctor { Ok(p) => { let _ = p.image_base(); walk_body!(acc, p, $b); true }, Err(e) => { acc.txt("noimg", errname(e).to_string()); false } }
			}};
		}
		let ok = match k {
			"f32" => go!(pelite::pe32::PeFile::from_bytes(bytes), pe32, 32),
			"f64" => go!(pelite::pe64::PeFile::from_bytes(bytes), pe64, 64),
			"v32" => go!(pelite::pe32::PeView::from_bytes(bytes), pe32, 32),
			"v64" => go!(pelite::pe64::PeView::from_bytes(bytes), pe64, 64),
			_ => { let _ = bits; return Some("bad-op".to_string()); },
		};
		if !ok { format!("noimg {}", acc.out.trim_start_matches("noimg=").trim_end_matches(';')) }
		else if !acc.bad.is_empty() { format!("bad {}", acc.bad.join(" | ")) }
		else { format!("ok items={}", acc.items) }
	} })
}
