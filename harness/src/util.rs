//! Shared helpers: hex, guarded buffers, canonical printing.
use std::fmt::Write;

pub fn unhex(s: &str) -> Vec<u8> {
	if s == "-" { return Vec::new(); }
	let b = s.as_bytes();
	let mut out = Vec::with_capacity(b.len() / 2);
	let v = |c: u8| -> u8 { match c { b'0'..=b'9' => c - b'0', b'a'..=b'f' => c - b'a' + 10, b'A'..=b'F' => c - b'A' + 10, _ => panic!("bad hex") } };
	let mut i = 0;
	while i + 1 < b.len() { out.push(v(b[i]) << 4 | v(b[i + 1])); i += 2; }
	out
}
pub fn hex(b: &[u8]) -> String {
	if b.is_empty() { return "-".to_string(); }
	let mut s = String::with_capacity(b.len() * 2);
	for x in b { write!(s, "{:02x}", x).unwrap(); }
	s
}
pub fn num(s: &str) -> u64 {
	if let Some(h) = s.strip_prefix("0x") { u64::from_str_radix(h, 16).expect("bad hex number") } else { s.parse::<u64>().expect("bad number") }
}
/// FNV-1a 64 digest for large outputs
pub fn digest(b: &[u8]) -> String {
	let mut h: u64 = 0xcbf29ce484222325;
	for &x in b { h ^= x as u64; h = h.wrapping_mul(0x100000001b3); }
	format!("{:016x}", h)
}

/// A buffer between two PROT_NONE guard pages.
/// `align16` = required start address mod 16; `flush_end` = put the end of the data as close to the
/// trailing guard page as the alignment allows (else the start as close to the leading guard page).
pub struct Guarded {
	map: *mut u8,
	map_len: usize,
	ptr: *mut u8,
	len: usize,
}
const PAGE: usize = 4096;
impl Guarded {
	pub fn new(data: &[u8], align16: usize, flush_end: bool) -> Guarded {
		unsafe {
			let body = (data.len() + 16 + PAGE - 1) / PAGE * PAGE + PAGE;
			let map_len = body + 2 * PAGE;
			let map = libc::mmap(std::ptr::null_mut(), map_len, libc::PROT_READ | libc::PROT_WRITE, libc::MAP_PRIVATE | libc::MAP_ANONYMOUS, -1, 0) as *mut u8;
			assert!(map as isize != -1, "mmap failed");
			let lo = map.add(PAGE);
			let hi = map.add(PAGE + body);
			let ptr = if flush_end {
				let mut p = hi as usize - data.len();
				// move down to the requested residue
				while p % 16 != align16 % 16 { p -= 1; }
				p as *mut u8
			} else {
				let mut p = lo as usize;
				while p % 16 != align16 % 16 { p += 1; }
				p as *mut u8
			};
			std::ptr::copy_nonoverlapping(data.as_ptr(), ptr, data.len());
			libc::mprotect(map as *mut _, PAGE, libc::PROT_NONE);
			libc::mprotect(hi as *mut _, PAGE, libc::PROT_NONE);
			// the body itself becomes read-only: the library must never write into the input
			libc::mprotect(lo as *mut _, body, libc::PROT_READ);
			Guarded { map, map_len, ptr, len: data.len() }
		}
	}
	pub fn bytes(&self) -> &[u8] { unsafe { std::slice::from_raw_parts(self.ptr, self.len) } }
	pub fn addr(&self) -> usize { self.ptr as usize }
	/// canonical reference: offset:len or `static`/`outside`
	pub fn rf(&self, p: *const u8, len: usize) -> String {
		let a = p as usize;
		if a >= self.addr() && a + len <= self.addr() + self.len { format!("{}:{}", a - self.addr(), len) }
		else if len == 0 { "static".to_string() }
		else { format!("OUTSIDE({:#x}:{})", a.wrapping_sub(self.addr()), len) }
	}
}
impl Drop for Guarded {
	fn drop(&mut self) { unsafe { libc::munmap(self.map as *mut _, self.map_len); } }
}

pub fn errname(e: pelite::Error) -> &'static str {
	use pelite::Error::*;
	match e { Null => "Null", Bounds => "Bounds", ZeroFill => "ZeroFill", Unmapped => "Unmapped", Misaligned => "Misaligned", BadMagic => "BadMagic", PeMagic => "PeMagic", Insanity => "Insanity", Invalid => "Invalid", Overflow => "Overflow", Encoding => "Encoding", Aliasing => "Aliasing" }
}
