import PeliteModel.Driver.Pure
import PeliteModel.Driver.Image
/-! `model`: the line-protocol driver.  One answer line per operation line; the part after ` ## `
is the executable specification's answer and whether the input meets the theorem's hypotheses. -/
open Pelite Pelite.Driver

structure St where
  img : Option Img := none

def step (st : St) (line : String) : St × String :=
  match line.splitOn " " with
  | ["img", al, _flush, hx] => ({ st with img := some ⟨Proto.unhex hx, Proto.num al⟩ }, "ok")
  | "strings" :: a => (st, strings a)
  | "relocs_raw" :: a => (st, relocsRaw a)
  | "relocs_build" :: a => (st, relocsBuild a)
  | ["from_bytes", k] => (st, fromBytesOp st.img k)
  | ["hdr", k] => (st, hdr st.img k)
  | ["hdrw", k] => (st, hdrw st.img k)
  | "r2f" :: a => (st, addr st.img "r2f" a)
  | "f2r" :: a => (st, addr st.img "f2r" a)
  | "r2v" :: a => (st, addr st.img "r2v" a)
  | "v2r" :: a => (st, addr st.img "v2r" a)
  | "slice" :: a => (st, sliceOp st.img a)
  | "read" :: a => (st, readOp st.img a)
  | "secbytes" :: a => (st, secbytes st.img a)
  | "byrva" :: a => (st, bysec st.img "byrva" a)
  | "byname" :: a => (st, bysec st.img "byname" a)
  | _ => (st, "bad-op")

partial def loop (h : IO.FS.Stream) (out : IO.FS.Stream) (st : St) : IO Unit := do
  let line ← h.getLine
  if line.isEmpty then return ()
  let l := line.trimAscii.toString
  if l.isEmpty || l.startsWith "#" then loop h out st else
  let (st', ans) := step st l
  out.putStrLn ans
  out.flush
  loop h out st'

def main : IO Unit := do
  let out ← IO.getStdout
  loop (← IO.getStdin) out {}
