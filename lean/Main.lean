import PeliteModel.Driver.Pure
/-! `model`: the line-protocol driver.  One answer line per operation line; the part after ` ## `
is the executable specification's answer and whether the input meets the theorem's hypotheses. -/
open Pelite Pelite.Driver

def dispatch (line : String) : String :=
  match line.splitOn " " with
  | "strings" :: a => strings a
  | "relocs_raw" :: a => relocsRaw a
  | "relocs_build" :: a => relocsBuild a
  | _ => "bad-op"

partial def loop (h : IO.FS.Stream) (out : IO.FS.Stream) : IO Unit := do
  let line ← h.getLine
  if line.isEmpty then return ()
  let l := line.trimAscii.toString
  if l.isEmpty || l.startsWith "#" then loop h out else
  out.putStrLn (dispatch l)
  loop h out

def main : IO Unit := do
  let out ← IO.getStdout
  loop (← IO.getStdin) out
  out.flush
