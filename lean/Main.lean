import PeliteModel.Driver.Pure
import PeliteModel.Driver.Image
import PeliteModel.Driver.Typed
import PeliteModel.Driver.Convert
import PeliteModel.Driver.Rich
import PeliteModel.Driver.Pattern
import PeliteModel.Driver.Version
import PeliteModel.Driver.Scan
import PeliteModel.Driver.Walk
import PeliteModel.Driver.Imports
import PeliteModel.Driver.Exports
import PeliteModel.Driver.Json
import PeliteModel.Driver.Dirs
import PeliteModel.Driver.Resources
import PeliteModel.Driver.PatternSem
import PeliteModel.Driver.Fields
-- IMPORT-MARKER (add `import PeliteModel.Driver.<M>` above this line)
/-! `model`: the line-protocol driver.  One answer line per operation line; the part after ` ## `
is the executable specification's answer and whether the input meets the theorem's hypotheses. -/
open Pelite Pelite.Driver

def handlers : List Handler := [
  dispatchPure,
  dispatchImage
  , dispatchTyped
  , dispatchConvert
  , dispatchRich
  , dispatchPattern
  , dispatchVersion
  , dispatchScan
  , dispatchWalk
  , dispatchImports
  , dispatchExports
  , dispatchJson
  , dispatchDirs
  , dispatchResources
  , dispatchPatternSem
  , dispatchFields
  -- HANDLER-MARKER (add `, dispatch<M>` above this line)
  ]

def step (st : St) (line : String) : St × String :=
  match line.splitOn " " with
  | ["img", al, _flush, hx] => ({ st with img := some ⟨Proto.unhex hx, Proto.num al⟩ }, "ok")
  | [fam, k] =>
    if fam == "img_to_view" || fam == "img_to_file" then
      -- replace the current image by the conversion result (placed 16-aligned)
      match convert st.img fam k with
      | (some out, ans) => ({ st with img := some ⟨out, 0⟩ }, ans)
      | (none, ans) => (st, ans)
    else
    match handlers.findSome? (fun h => h st fam [k]) with
    | some ans => (st, ans)
    | none => (st, "bad-op")
  | fam :: a =>
    match handlers.findSome? (fun h => h st fam a) with
    | some ans => (st, ans)
    | none => (st, "bad-op")
  | [] => (st, "bad-op")

partial def loop (h : IO.FS.Stream) (out : IO.FS.Stream) (st : St) : IO Unit := do
  let line ← h.getLine
  if line.isEmpty then return ()
  let l := line.trimAscii.toString
  if l.isEmpty || l.startsWith "#" then loop h out st else
  let (st', ans) := step st l
  out.putStrLn ans
  out.flush
  loop h out st'

def main : IO Unit := do
  let out ← IO.getStdout
  loop (← IO.getStdin) out {}
