import PeliteModel.Prim.Basic
