import PeliteModel.Driver.Image
import PeliteModel.Model.Convert
import PeliteModel.Model.PeChecked
/-! Driver handlers for `to_view` / `to_file` (C06); they run the CHECKED variants
(`Model/PeChecked.lean`), proved equal to the unchecked model in `Thm/C02Arith.lean`. -/
namespace Pelite.Driver
open Pelite.Proto Pelite.Pe

def fnv (b : Bytes) : String :=
  let h : UInt64 := b.foldl (fun h x => (h ^^^ x.toUInt64) * 0x100000001b3) 0xcbf29ce484222325
  let s := String.ofList (Nat.toDigits 16 h.toNat)
  String.ofList (List.replicate (16 - s.length) '0') ++ s

def convCap : Nat := 16777216

/-- result of a conversion op: the produced buffer (if any) and the answer line -/
def convert (img : Option Img) (fam : String) (k : String) : Option Bytes × String :=
  match img with
  | none => (none, "noimg")
  | some img =>
    match construct img k with
    | none => (none, "bad-op")
    | some (.ok v) =>
      let toView := fam == "to_view" || fam == "img_to_view"
      if toView && v.kind != .file then (none, "bad-op")
      else if !toView && v.kind != .view then (none, "bad-op")
      else if sizeOfImage v.b > convCap then (none, "toolarge")
      else
        match (if toView then v.toViewChk else v.toFileChk) with
        | .ok out => (some out, s!"ok len={out.size} fnv={fnv out}")
        | o => (none, outStr (fun _ => "") o)
    | some (.err e) => (none, "noimg " ++ e.name)
    | some o => (none, outStr (fun _ => "") o)

def dispatchConvert : Handler := fun st fam a =>
  match fam, a with
  | "to_view", [k] | "to_file", [k] => some (convert st.img fam k).2
  | _, _ => none

end Pelite.Driver
