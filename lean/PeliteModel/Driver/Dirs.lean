import PeliteModel.Driver.Image
import PeliteModel.Driver.Pure
import PeliteModel.Spec.Dirs
/-! Driver handlers for the small directory decoders (C15).  Mirrors harness/src/ops_dirs.rs operation
for operation; the part after ` ## ` is the executable specification's view of the same input. -/
namespace Pelite.Driver
open Pelite.Proto Pelite.Pe Pelite.Dirs

/-- sub-result inside a dump line: the value when ok, `!ErrorKind` when not -/
def sub {α} (f : α → String) : Out α → String
  | .ok a => f a
  | .err e => "!" ++ e.name
  | .panic s => "panic " ++ s
  | .ub s => "ub " ++ s
  | .diverge => "diverge"

def optRef : Option Ref → String
  | some r => ref r
  | none => "none"

def sliceBytes (b : Bytes) (r : Ref) : Bytes := b.extract r.off (r.off + r.len)

def optNat : Option Nat → String
  | some n => toString n
  | none => "none"

/-- every accessor of `CodeView` the API has (`format`, `age`, `pdb_file_name`, and through the public `image`
of the variant: `CvSignature`, `Offset` / `TimeDateStamp` of a Cv20, the `Signature` GUID of a Cv70) -/
def dirsCv (v : View) (cv : CodeView) : String :=
  let tag := match cv with
    | .cv20 _ _ => "cv20"
    | .cv70 _ _ => "cv70"
  let guid := match cv.guidRef with
    | some g => s!"{ref g}={hex (sliceBytes v.b g)}"
    | none => "none"
  s!"{tag}(img={ref cv.image},sig={cv.cvSignature v.b},off={optNat (cv.offset v.b)},ts={optNat (cv.timestamp v.b)},guid={guid},age={cv.age v.b},fmt={hex (sliceBytes v.b cv.format)},name={ref cv.name})"

def dirsPgoItem (it : PgoItem) : String := s!"{it.rva}:{it.size}:{ref it.name}"

def dirsEntry (v : View) (e : Out Entry) : String :=
  match e with
  | .ok (.codeView cv) => dirsCv v cv
  | .ok (.dbg i) => s!"dbg(img={ref i},dt={le32 v.b i.off},len={le32 v.b (i.off + 4)},uni={byteAt v.b (i.off + 8)})"
  | .ok (.pgo i) =>
    (match pgoItems v.b i with
     | .ok items => s!"pgo(img={ref i},[{join (items.map dirsPgoItem)}])"
     | o => sub (fun _ => "") o)
  | .ok (.unknown d) => s!"unk({optRef d})"
  | o => sub (fun _ => "") o

def dirsDir (v : View) (d : Nat) : String :=
  let b := v.b
  "{" ++ s!"hdr={d}:28 ch={ddCharacteristics b d} ts={ddTimeDateStamp b d} ver={ddMajor b d}.{ddMinor b d} ty={ddType b d} sz={ddSizeOfData b d} aord={ddAddressOfRawData b d} ptr={ddPointerToRawData b d} data={optRef (dirData v d)} entry={dirsEntry v (dirEntry v d)}" ++ "}"

def winStr : Option (Nat × Nat) → String
  | some (p, n) => s!"{p}:{n}"
  | none => "none"

def debugSpecLine (v : View) : String :=
  match Spec.debugWindows v with
  | .ok ws => s!"spec=n={ws.length},data=[{join (ws.map winStr)}]"
  | o => "spec=" ++ sub (fun _ => "") o

def debugDump (v : View) : String :=
  match debugTryFrom v with
  | .ok t =>
    let n := debugCount t
    let ents := (List.range n).map fun i => dirsDir v (debugEntryOff t i)
    let ans := s!"ok dir={ref t} n={n} pdb={optRef (pdbFileName v t)} [{join ents ";"}]"
    ans ++ s!" ## {debugSpecLine v}"
  | o => outStr (fun _ => "") o ++ s!" ## {debugSpecLine v}"

def vaList (v : View) (r : Ref) : String :=
  let ps := v.fmt.ptrSize
  s!"{ref r}[{join ((List.range (r.len / ps)).map fun i => toString (leN v.b (r.off + ps * i) ps))}]"

def valRef (v : View) (r : Ref) : String := s!"{ref r}={le32 v.b r.off}"

def tlsSpecLine (v : View) (t : Ref) : String :=
  let ps := v.fmt.ptrSize
  match v.at (.va (tlsCallBacks v t)) 0 ps with
  | .ok s =>
    (match Spec.vaListUntilZero v.b s.off ps (s.len / ps) with
     | some l => s!"cbs=[{join (l.map toString)}]"
     | none => "cbs=!Bounds")
  | o => "cbs=" ++ sub (fun _ => "") o

def tlsDump (v : View) : String :=
  match tlsTryFrom v with
  | .ok t =>
    s!"ok img={ref t} start={tlsStart v t} end={tlsEnd v t} index={tlsIndex v t} cb={tlsCallBacks v t} zero={tlsZeroFill v t} chars={tlsChars v t} raw={sub ref (tlsRawData v t)} slot={sub (valRef v) (tlsSlot v t)} cbs={sub (vaList v) (tlsCallbacks v t)}"
      ++ s!" ## {tlsSpecLine v t}"
  | o => outStr (fun _ => "") o

def loadcfgDump (v : View) : String :=
  match lcTryFrom v with
  | .ok t =>
    s!"ok img={ref t} size={lcDeclaredSize v t} cookie_va={lcCookieVa v t} table_va={lcTableVa v t} count={lcCount v t} cookie={sub (valRef v) (lcSecurityCookie v t)} table={sub (vaList v) (lcSeHandlerTable v t)}"
  | o => outStr (fun _ => "") o

def dirsUnwind (v : View) (t : Ref) (i : Nat) : String :=
  match unwindInfo v t i with
  | .ok im =>
    (match unwindCodes v im with
     | .ok c => s!"{ref im}(ver={uwVersion v.b im},flags={uwFlags v.b im},prolog={uwSizeOfProlog v.b im},freg={uwFrameRegister v.b im},foff={uwFrameOffset v.b im},codes={ref c})"
     | o => sub (fun _ => "") o)
  | o => sub (fun _ => "") o

def dirsFn (v : View) (t : Ref) (i : Nat) : String :=
  "{" ++ s!"rf={rfOff t i}:12 {rfBegin v.b t i}:{rfEnd v.b t i}:{rfUnwind v.b t i} bytes={sub ref (fnBytes v t i)} uw={dirsUnwind v t i}" ++ "}"

def excDump (v : View) : String :=
  match excTryFrom v with
  | .ok t =>
    let n := excCount t
    s!"ok img={ref t} n={n} sorted={if checkSorted v.b t then 1 else 0} [{join ((List.range n).map (dirsFn v t)) ";"}]"
  | o => outStr (fun _ => "") o

def excLookup (v : View) (pc : Nat) : String :=
  match excTryFrom v with
  | .ok t =>
    let f := match lookupFunctionEntry v.b t pc with
      | .ok r => optRef r
      | o => sub (fun _ => "") o
    let ans := match indexOf v.b t pc with
      | .found i => s!"ok found={i} fn={f}"
      | .notFound i => s!"ok notfound={i} fn={f}"
    let spec := match Spec.linearLookup v.b t pc with
      | some i => s!"found={i}"
      | none => "none"
    ans ++ s!" ## spec={spec} hyp={if Spec.sortedTable v.b t then 1 else 0}"
  | o => outStr (fun _ => "") o

def securitySpecLine (v : View) : String :=
  match v.kind with
  | .view => "spec=!Unmapped hyp=1"
  | .file =>
    match v.dataDir 4 with
    | some (va, size) =>
      if Spec.CertWellFormed v.b.size va size ∧ Spec.SingleCert v.b va size then
        s!"spec=type={Spec.certType v.b va},data={ref (Spec.certBytes v.b va)} hyp=1"
      else "hyp=0"
    | none => "spec=!Null hyp=1"                 -- no data-directory entry 4: no certificate table

def securityDump (v : View) : String :=
  let spec := s!" ## {securitySpecLine v}"
  match securityTryFrom v with
  | .ok s =>
    (match secImage v s, secCertType v s, secCertData v s with
     | .ok im, .ok ty, .ok d => s!"ok img={ref im} len={secLength v.b s} rev={secRevision v.b s} type={ty} data={ref d}"
     | .ok _, .ok _, o => outStr (fun _ => "") o
     | .ok _, o, _ => outStr (fun _ => "") o
     | o, _, _ => outStr (fun _ => "") o) ++ spec
  | o => outStr (fun _ => "") o ++ spec

def dirsLayout : String :=
  s!"ok tls32={tlsSize .pe32}/{tlsAlign .pe32}:0:4:8:12:16:20 tls64={tlsSize .pe64}/{tlsAlign .pe64}:0:8:16:24:32:36 lc32={lcSize .pe32}/{lcAlign .pe32}:{lcOffCookie .pe32}:{lcOffTable .pe32}:{lcOffCount .pe32} lc64={lcSize .pe64}/{lcAlign .pe64}:{lcOffCookie .pe64}:{lcOffTable .pe64}:{lcOffCount .pe64} dbg=28/4:4:8:12:16:20:24:20413 cv20=16/4:{cv20OffOffset}:{cv20OffTimeDateStamp}:{cv20OffAge} cv70=24/4:{cv70OffSignature}:{cv70OffAge} misc=12/4:0:4:8 rf=12/4:0:4:8 uw=4/1:0:1:2:3 uc=2/1 cert=8/4:0:4:6 va32={Fmt.ptrSize .pe32}/4 va64={Fmt.ptrSize .pe64}/8"

/-- fused: after the history drain the iterator (`n` = number of items, so `n + 1` calls of `next` suffice), then two
more calls must answer `None` -/
def pogoFused (data : Bytes) (st : Nat × Nat) (ops : List Seq.Op) (n : Nat) : Bool :=
  match pgoRunOps data st (ops ++ List.replicate (n + 1) Seq.Op.next ++ [Seq.Op.next, Seq.Op.next]) with
  | .ok tail => tail.drop (ops.length + n + 1) == [Seq.Res.item none, Seq.Res.item none]
  | _ => false

/-- pogo_hist <hex> <history>: a call history (next | nth:K | count | hint | clone, as `relocs_hist`) on the
`PgoIter` of a `Pgo` over the given POGO data (whole dwords only) — model: `pgoRunOps`; specification: the same calls
on the plain list `pgoItems` (`Seq.runSeq`) -/
def pogoHist (a : List String) : String :=
  match a with
  | [hx, hist] =>
    let raw := unhex hx
    let data := raw.extract 0 (4 * (raw.size / 4))
    let image : Ref := ⟨0, data.size, 4⟩
    let st := pgoIterStart image
    let ops := (parseHist hist).filterMap id
    match pgoRunOps data st ops, pgoItems data image with
    | .ok ans, .ok items =>
      let spec := Seq.runSeq Seq.Hint.unknown items ops
      let f01 : String := if pogoFused data st ops items.length then "1" else "0"
      s!"ok {join (ans.map (fmtSeqRes dirsPgoItem)) ";"} fused={f01} ## spec={join (spec.map (fmtSeqRes dirsPgoItem)) ";"}"
    | .ok _, o => outStr (fun _ => "") o
    | o, _ => outStr (fun _ => "") o
  | _ => "bad-op"

def dispatchDirs : Handler := fun st fam a =>
  match fam, a with
  | "debug", [k, "dump"] => some (withView st.img k debugDump)
  | "tls", [k, "dump"] => some (withView st.img k tlsDump)
  | "loadcfg", [k, "dump"] => some (withView st.img k loadcfgDump)
  | "exc", [k, "dump"] => some (withView st.img k excDump)
  | "exc", [k, "lookup", pc] => some (withView st.img k fun v => excLookup v (num pc % 4294967296))
  | "security", [k, "dump"] => some (withView st.img k securityDump)
  | "dirs_layout", _ => some dirsLayout
  | "pogo_hist", _ => some (pogoHist a)
  | "debug", _ | "tls", _ | "loadcfg", _ | "exc", _ | "security", _ => some "bad-op"
  | _, _ => none

end Pelite.Driver
