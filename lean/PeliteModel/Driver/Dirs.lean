import PeliteModel.Driver.Image
import PeliteModel.Driver.Pure
import PeliteModel.Spec.Dirs
import PeliteModel.Model.JsonDirs
/-! Driver handlers for the small directory decoders (C15).  Mirrors harness/src/ops_dirs.rs operation
for operation; the part after ` ## ` is the executable specification's view of the same input. -/
namespace Pelite.Driver
open Pelite.Proto Pelite.Pe Pelite.Dirs

/-- sub-result inside a dump line: the value when ok, `!ErrorKind` when not -/
def sub {α} (f : α → String) : Out α → String
  | .ok a => f a
  | .err e => "!" ++ e.name
  | .panic s => "panic " ++ s
  | .ub s => "ub " ++ s
  | .diverge => "diverge"

def optRef : Option Ref → String
  | some r => ref r
  | none => "none"

def sliceBytes (b : Bytes) (r : Ref) : Bytes := b.extract r.off (r.off + r.len)

def optNat : Option Nat → String
  | some n => toString n
  | none => "none"

/-- every accessor of `CodeView` the API has (`format`, `age`, `pdb_file_name`, and through the public `image`
of the variant: `CvSignature`, `Offset` / `TimeDateStamp` of a Cv20, the `Signature` GUID of a Cv70) -/
def dirsCv (v : View) (cv : CodeView) : String :=
  let tag := match cv with
    | .cv20 _ _ => "cv20"
    | .cv70 _ _ => "cv70"
  let guid := match cv.guidRef with
    | some g => s!"{ref g}={hex (sliceBytes v.b g)}:{hex ((Pelite.Pe.guidText v.b g.off).map Nat.toUInt8).toArray}"
    | none => "none"
  s!"{tag}(img={ref cv.image},sig={cv.cvSignature v.b},off={optNat (cv.offset v.b)},ts={optNat (cv.timestamp v.b)},guid={guid},age={cv.age v.b},fmt={hex (sliceBytes v.b cv.format)},name={ref cv.name})"

def dirsPgoItem (it : PgoItem) : String := s!"{it.rva}:{it.size}:{ref it.name}"

def dirsEntry (v : View) (e : Out Entry) : String :=
  match e with
  | .ok (.codeView cv) => dirsCv v cv
  | .ok (.dbg i) => s!"dbg(img={ref i},dt={miscDataType v.b i.off},len={miscLength v.b i.off},uni={miscUnicode v.b i.off})"
  | .ok (.pgo i) =>
    (match pgoItems v.b i with
     | .ok items => s!"pgo(img={ref i},[{join (items.map dirsPgoItem)}])"
     | o => sub (fun _ => "") o)
  | .ok (.unknown d) => s!"unk({optRef d})"
  | o => sub (fun _ => "") o

def dirsDir (v : View) (d : Nat) : String :=
  let b := v.b
  "{" ++ s!"hdr={d}:28 ch={ddCharacteristics b d} ts={ddTimeDateStamp b d} ver={ddMajor b d}.{ddMinor b d} ty={ddType b d} sz={ddSizeOfData b d} aord={ddAddressOfRawData b d} ptr={ddPointerToRawData b d} data={optRef (dirData v d)} entry={dirsEntry v (dirEntry v d)}" ++ "}"

def winStr : Option (Nat × Nat) → String
  | some (p, n) => s!"{p}:{n}"
  | none => "none"

def debugSpecLine (v : View) : String :=
  match Spec.debugWindows v with
  | .ok ws => s!"spec=n={ws.length},data=[{join (ws.map winStr)}]"
  | o => "spec=" ++ sub (fun _ => "") o

def debugDump (v : View) : String :=
  match debugTryFrom v with
  | .ok t =>
    let n := debugCount t
    let ents := (List.range n).map fun i => dirsDir v (debugEntryOff t i)
    let ans := s!"ok dir={ref t} n={n} pdb={optRef (pdbFileName v t)} [{join ents ";"}]"
    ans ++ s!" ## {debugSpecLine v}"
  | o => outStr (fun _ => "") o ++ s!" ## {debugSpecLine v}"

def vaList (v : View) (r : Ref) : String :=
  let ps := v.fmt.ptrSize
  s!"{ref r}[{join ((List.range (r.len / ps)).map fun i => toString (leN v.b (r.off + ps * i) ps))}]"

def valRef (v : View) (r : Ref) : String := s!"{ref r}={le32 v.b r.off}"

def tlsSpecLine (v : View) (t : Ref) : String :=
  let ps := v.fmt.ptrSize
  match v.at (.va (tlsCallBacks v t)) 0 ps with
  | .ok s =>
    (match Spec.vaListUntilZero v.b s.off ps (s.len / ps) with
     | some l => s!"cbs=[{join (l.map toString)}]"
     | none => "cbs=!Bounds")
  | o => "cbs=" ++ sub (fun _ => "") o

def tlsDump (v : View) : String :=
  match tlsTryFrom v with
  | .ok t =>
    s!"ok img={ref t} start={tlsStart v t} end={tlsEnd v t} index={tlsIndex v t} cb={tlsCallBacks v t} zero={tlsZeroFill v t} chars={tlsChars v t} raw={sub ref (tlsRawData v t)} slot={sub (valRef v) (tlsSlot v t)} cbs={sub (vaList v) (tlsCallbacks v t)}"
      ++ s!" ## {tlsSpecLine v t}"
  | o => outStr (fun _ => "") o

def loadcfgDump (v : View) : String :=
  match lcTryFrom v with
  | .ok t =>
    s!"ok img={ref t} size={lcDeclaredSize v t} cookie_va={lcCookieVa v t} table_va={lcTableVa v t} count={lcCount v t} cookie={sub (valRef v) (lcSecurityCookie v t)} table={sub (vaList v) (lcSeHandlerTable v t)}"
  | o => outStr (fun _ => "") o

def dirsUnwind (v : View) (t : Ref) (i : Nat) : String :=
  match unwindInfo v t i with
  | .ok im =>
    (match unwindCodes v im with
     | .ok c => s!"{ref im}(ver={uwVersion v.b im},flags={uwFlags v.b im},prolog={uwSizeOfProlog v.b im},freg={uwFrameRegister v.b im},foff={uwFrameOffset v.b im},codes={ref c})"
     | o => sub (fun _ => "") o)
  | o => sub (fun _ => "") o

def dirsFn (v : View) (t : Ref) (i : Nat) : String :=
  "{" ++ s!"rf={rfOff t i}:12 {rfBegin v.b t i}:{rfEnd v.b t i}:{rfUnwind v.b t i} bytes={sub ref (fnBytes v t i)} uw={dirsUnwind v t i}" ++ "}"

def excDump (v : View) : String :=
  match excTryFrom v with
  | .ok t =>
    let n := excCount t
    s!"ok img={ref t} n={n} sorted={if checkSorted v.b t then 1 else 0} [{join ((List.range n).map (dirsFn v t)) ";"}]"
  | o => outStr (fun _ => "") o

def excLookup (v : View) (pc : Nat) : String :=
  match excTryFrom v with
  | .ok t =>
    let f := match lookupFunctionEntry v.b t pc with
      | .ok r => optRef r
      | o => sub (fun _ => "") o
    let ans := match indexOf v.b t pc with
      | .found i => s!"ok found={i} fn={f}"
      | .notFound i => s!"ok notfound={i} fn={f}"
    let spec := match Spec.linearLookup v.b t pc with
      | some i => s!"found={i}"
      | none => "none"
    ans ++ s!" ## spec={spec} hyp={if Spec.sortedTable v.b t then 1 else 0}"
  | o => outStr (fun _ => "") o

def securitySpecLine (v : View) : String :=
  match v.kind with
  | .view => "spec=!Unmapped hyp=1"
  | .file =>
    match v.dataDir 4 with
    | some (va, size) =>
      if Spec.CertWellFormed v.b.size va size ∧ Spec.SingleCert v.b va size then
        s!"spec=type={Spec.certType v.b va},data={ref (Spec.certBytes v.b va)} hyp=1"
      else "hyp=0"
    | none => "spec=!Null hyp=1"                 -- no data-directory entry 4: no certificate table

def securityDump (v : View) : String :=
  let spec := s!" ## {securitySpecLine v}"
  match securityTryFrom v with
  | .ok s =>
    (match secImage v s, secCertType v s, secCertData v s with
     | .ok im, .ok ty, .ok d => s!"ok img={ref im} len={secLength v.b s} rev={secRevision v.b s} type={ty} data={ref d}"
     | .ok _, .ok _, o => outStr (fun _ => "") o
     | .ok _, o, _ => outStr (fun _ => "") o
     | o, _, _ => outStr (fun _ => "") o) ++ spec
  | o => outStr (fun _ => "") o ++ spec

/-! ### `dirs_layout`: the struct layouts the MODEL uses, observed by running its decoders

Nothing below is a literal of this file: every number is computed from a definition of Model/Dirs.lean, so that the
comparison with `size_of` / `align_of` / `offset_of!` of the current source (harness: `ops_dirs.rs:layout`) is about the
model.  Field offsets: the lowest buffer byte an accessor's value depends on (`firstDep`); sizes, alignments and record
strides: the `Ref`s the decoders hand out on small probe buffers; the `Type` values of `Dir::entry`: the types for which
`dirEntry` answers through `code_view` / `dbg` / `pgo`. -/

def probeZeros (n : Nat) : Bytes := Array.replicate n 0

/-- the lowest byte (below 128) whose value changes what `f` reads from an all-zero buffer: the offset `f` reads at -/
def firstDep (f : Bytes → Nat) : Nat :=
  ((List.range 128).find? fun j => f ((probeZeros 128).set! j 0xFF) != f (probeZeros 128)).getD 999

def probeView (f : Fmt) (b : Bytes) : View := ⟨⟨b, 0⟩, f, .view, 0⟩
def refZ : Ref := ⟨0, 0, 1⟩

def setBytes (b : Bytes) (off : Nat) (l : List Nat) : Bytes :=
  (l.zipIdx).foldl (fun acc p => acc.set! (off + p.2) (UInt8.ofNat p.1)) b

/-- one debug directory entry at 0 (`Type` = `ty`, `SizeOfData` 32, raw data at 32 for files and views) whose raw data
starts with the signature `sig` and is NUL from +4 on -/
def dbgProbe (ty : Nat) (sig : List Nat) : View :=
  probeView .pe32 (setBytes (setBytes (probeZeros 64) 12 [ty, 0, 0, 0, 32, 0, 0, 0, 32, 0, 0, 0, 32]) 32 sig)

def sigOfNat (x : Nat) : List Nat := [x % 256, x / 256 % 256, x / 65536 % 256, x / 16777216 % 256]

/-- a 512-byte mapped PE32 image, `e_lfanew` 0, sixteen data directories: exception directory (one record, 12 bytes)
at 256, debug directory (28 bytes) at 288, the record's `UnwindData` = 320, UNWIND_INFO there with one code -/
def hdrProbe : View :=
  let b := probeZeros 512
  let b := setBytes b (optOff b + Fmt.offNumRva .pe32) [16]
  let b := setBytes b (ntEnd .pe32 b + 8 * 3) [0, 1, 0, 0, 12]
  let b := setBytes b (ntEnd .pe32 b + 8 * 6) [32, 1, 0, 0, 28]
  let b := setBytes b (rfOff ⟨256, 12, 4⟩ 0) [0, 0, 0, 0, 0, 0, 0, 0, 64, 1]
  probeView .pe32 (setBytes b 320 [1, 0, 1, 0])

def sizeAlign : Out Ref → String
  | .ok r => s!"{r.len}/{r.align}"
  | o => sub (fun _ => "") o

def alignOf : Out Ref → String
  | .ok r => toString r.align
  | o => sub (fun _ => "") o

def natOf : Out Nat → Nat
  | .ok n => n
  | _ => 0

/-- the `Type` for which `Dir::entry` takes the branch recognised by `p` (on an entry whose raw data all three decoders accept) -/
def typeFor (p : Entry → Bool) : Nat :=
  ((List.range 64).find? fun ty => match dirEntry (dbgProbe ty (sigOfNat sigRSDS)) 0 with
    | .ok e => p e
    | _ => false).getD 999

def dirsLayout : String :=
  let tls (f : Fmt) : String :=
    let o (g : View → Ref → Nat) : Nat := firstDep fun b => g (probeView f b) refZ
    s!"{tlsSize f}/{tlsAlign f}:{o tlsStart}:{o tlsEnd}:{o tlsIndex}:{o tlsCallBacks}:{o tlsZeroFill}:{o tlsChars}"
  let lc (f : Fmt) : String :=
    let o (g : View → Ref → Nat) : Nat := firstDep fun b => g (probeView f b) refZ
    s!"{lcSize f}/{lcAlign f}:{o lcCookieVa}:{o lcTableVa}:{o lcCount}"
  let od (g : Bytes → Nat → Nat) : Nat := firstDep fun b => g b 0
  let dbgStride := debugEntryOff refZ 1 - debugEntryOff refZ 0
  let types := typeFor (fun e => match e with | .codeView _ => true | _ => false) * 10000
    + typeFor (fun e => match e with | .dbg _ => true | _ => false) * 100
    + typeFor (fun e => match e with | .pgo _ => true | _ => false)
  let dbg := s!"{dbgStride}/{alignOf (debugTryFrom hdrProbe)}:{od ddCharacteristics}:{od ddTimeDateStamp}:{od ddMajor}:{od ddMinor}:{od ddType}:{od ddSizeOfData}:{od ddAddressOfRawData}:{od ddPointerToRawData}:{types}"
  let cvImage (sig : Nat) : Out Ref := codeView (dbgProbe 2 (sigOfNat sig)) 0 >>= fun cv => .ok cv.image
  let cv20 : CodeView := .cv20 refZ refZ
  let cv70 : CodeView := .cv70 refZ refZ
  let optN (x : Option Nat) : Nat := x.getD 999
  let cv20s := s!"{sizeAlign (cvImage sigNB10)}:{firstDep fun b => optN (cv20.offset b)}:{firstDep fun b => optN (cv20.timestamp b)}:{firstDep fun b => cv20.age b}"
  let cv70s := s!"{sizeAlign (cvImage sigRSDS)}:{(cv70.guidRef.getD refZ).off}:{firstDep fun b => cv70.age b}"
  let misc := s!"{sizeAlign (dbgEntry (dbgProbe 4 []) 0)}:{od miscDataType}:{od miscLength}:{od miscUnicode}"
  let orf (g : Bytes → Ref → Nat → Nat) : Nat := firstDep fun b => g b refZ 0
  let rf := s!"{rfOff refZ 1 - rfOff refZ 0}/{alignOf (excTryFrom hdrProbe)}:{orf rfBegin}:{orf rfEnd}:{orf rfUnwind}"
  let ou (g : Bytes → Ref → Nat) : Nat := firstDep fun b => g b refZ
  let uw := s!"{sizeAlign (unwindInfo hdrProbe ⟨256, 12, 4⟩ 0)}:{ou uwVersion}:{ou uwSizeOfProlog}:{ou uwCountOfCodes}:{ou uwFrameRegister}"
  let uc := match unwindCodes hdrProbe ⟨320, 4, 1⟩ with
    | .ok c => s!"{c.len / uwCountOfCodes hdrProbe.b ⟨320, 4, 1⟩}/{c.align}"
    | o => sub (fun _ => "") o
  let certRef : Ref := ⟨0, 16, 1⟩
  let certData := match secCertData (probeView .pe32 (probeZeros 128)) certRef with
    | .ok d => toString (d.off - certRef.off)
    | o => sub (fun _ => "") o
  let cert := s!"{sizeAlign (secImage (probeView .pe32 (probeZeros 128)) certRef)}:{ou secLength}:{ou secRevision}:{firstDep fun b => natOf (secCertType (probeView .pe32 b) certRef)}:{certData}"
  -- a mapped image (base 0, SizeOfImage 512) whose TLS directory at 384 has a callback list of ONE pointer at 448:
  -- the slice `callbacks` returns is one `Va`
  let va (f : Fmt) : String :=
    let b := setBytes (probeZeros 512) (optOff (probeZeros 512) + 56) [0, 2]
    let b := setBytes (setBytes b (384 + 3 * f.ptrSize) [192, 1]) 448 [1]
    sizeAlign (tlsCallbacks (probeView f b) ⟨384, 0, 1⟩)
  s!"ok tls32={tls .pe32} tls64={tls .pe64} lc32={lc .pe32} lc64={lc .pe64} dbg={dbg} cv20={cv20s} cv70={cv70s} misc={misc} rf={rf} uw={uw} uc={uc} cert={cert} va32={va .pe32} va64={va .pe64}"

/-- fused: after the history drain the iterator (`n` = number of items, so `n + 1` calls of `next` suffice), then two
more calls must answer `None` -/
def pogoFused (data : Bytes) (st : Nat × Nat) (ops : List Seq.Op) (n : Nat) : Bool :=
  match pgoRunOps data st (ops ++ List.replicate (n + 1) Seq.Op.next ++ [Seq.Op.next, Seq.Op.next]) with
  | .ok tail => tail.drop (ops.length + n + 1) == [Seq.Res.item none, Seq.Res.item none]
  | _ => false

/-- pogo_hist <hex> <history>: a call history (next | nth:K | count | hint | clone, as `relocs_hist`) on the
`PgoIter` of a `Pgo` over the given POGO data (whole dwords only) — model: `pgoRunOps`; specification: the same calls
on the plain list `pgoItems` (`Seq.runSeq`) -/
def pogoHist (a : List String) : String :=
  match a with
  | [hx, hist] =>
    let raw := unhex hx
    let data := raw.extract 0 (4 * (raw.size / 4))
    let image : Ref := ⟨0, data.size, 4⟩
    let st := pgoIterStart image
    let ops := (parseHist hist).filterMap id
    match pgoRunOps data st ops, pgoItems data image with
    | .ok ans, .ok items =>
      let spec := Seq.runSeq Seq.Hint.unknown items ops
      let f01 : String := if pogoFused data st ops items.length then "1" else "0"
      s!"ok {join (ans.map (fmtSeqRes dirsPgoItem)) ";"} fused={f01} ## spec={join (spec.map (fmtSeqRes dirsPgoItem)) ";"}"
    | .ok _, o => outStr (fun _ => "") o
    | o, _ => outStr (fun _ => "") o
  | _ => "bad-op"

def dispatchDirs : Handler := fun st fam a =>
  match fam, a with
  | "debug", [k, "dump"] => some (withView st.img k debugDump)
  | "tls", [k, "dump"] => some (withView st.img k tlsDump)
  | "loadcfg", [k, "dump"] => some (withView st.img k loadcfgDump)
  | "exc", [k, "dump"] => some (withView st.img k excDump)
  | "exc", [k, "lookup", pc] => some (withView st.img k fun v => excLookup v (num pc % 4294967296))
  | "security", [k, "dump"] => some (withView st.img k securityDump)
  | "dirs_layout", _ => some dirsLayout
  | "pogo_hist", _ => some (pogoHist a)
  | "debug", _ | "tls", _ | "loadcfg", _ | "exc", _ | "security", _ => some "bad-op"
  | _, _ => none

end Pelite.Driver
