import PeliteModel.Driver.Image
import PeliteModel.Model.Exports
import PeliteModel.Model.WrapExports
import PeliteModel.Spec.Exports
/-! Driver handlers for the export directory (C08): `exports <k> dump`, `exports <k> by`,
`export <k> <query> <args…>`.
The part after ` ## ` is the answer of the declarative specification (`Spec/Exports.lean`) evaluated on
the abstract tables, without references, and `hyp=1` when the theorem behind it applies.  Lookups by
name (`name`, `hint_name`, `import byname`, `get name|byname`, `proc name|byname`, `symfwd name`)
additionally carry `accept=[a;b;…]`: the acceptable-answer set `Spec.acceptName` of the tables, in the
text of `spec=` — the oracle on ANY table, also where `hyp=0` (`C08_name_in_accept`,
`C08_hint_name_in_accept`, `C08_import_in_accept`, `C08_get_export_in_accept`).

`exports <k> by`: `image()`, `dll_name()`, `ordinal_base()` called ON THE `By` — for a format specific
`By` through `Deref<Target = Exports>`, for `wf` / `wv` the wrapper's own methods (`WBy.image`,
`WBy.dllName`, `WBy.ordinalBase`).  `export <k> symfwd <index|ordinal|hint|name> <arg>`: the lookup,
then `Export::symbol()` and `Export::forward()` of the answer.

For the constructors `wf` / `wv` the harness calls the format agnostic API (`src/wrap/exports.rs`,
`Wrap<Pe32, Pe64>::exports`); the driver then answers through the model of that API
(`Model/WrapExports.lean`: `wExports`, `WExports.*`, `WBy.*` with the hand-written iterators,
`wGetExport`), for every other constructor through `Model/Exports.lean`.  `proc` is not offered by
the wrappers (the harness unwraps first): always the format specific model. -/
namespace Pelite.Driver
open Pelite.Proto Pelite.Pe Pelite.Exports

/-- printing with panic propagation: `.error` is the complete answer line -/
abbrev P := Except String

def strict {α} (o : Out α) : P (Except Err α) :=
  match o with
  | .ok a => .ok (.ok a)
  | .err e => .ok (.error e)
  | .panic s => .error ("panic " ++ s)
  | .ub s => .error ("ub " ++ s)
  | .diverge => .error "diverge"

def hexL (l : List Nat) : String := hex (l.map UInt8.ofNat).toArray
def unhexL (s : String) : List Nat := (unhex s).toList.map UInt8.toNat

def ecs (e : Err) : String := "err:" ++ e.name

def expStr (b : Bytes) : Export → String
  | .symbol r => s!"Symbol({le32 b r.off})@{ref r}"
  | .forward r => s!"Forward({hexL (cstrBytes b r)})@{ref r}"

def cstrStr (b : Bytes) (r : Ref) : String := s!"{hexL (cstrBytes b r)}@{ref r}"

def rexp (b : Bytes) (o : Out Export) : String := outStr (expStr b) o

def iexp (b : Bytes) (o : Out Export) : P String := do
  match ← strict o with
  | .ok e => pure (expStr b e)
  | .error e => pure (ecs e)

def icstr (b : Bytes) (o : Out Ref) : P String := do
  match ← strict o with
  | .ok r => pure (cstrStr b r)
  | .error e => pure (ecs e)

def rtab (o : Out Ref) : P String := do
  match ← strict o with
  | .ok r => pure (ref r)
  | .error e => pure (ecs e)

def tabStr (t : Tab) (size : Nat) (at_ : Nat → Nat) : String :=
  let vals := (List.range t.cnt).map (fun i => toString (at_ i))
  let r := if t.isStatic then "static" else s!"{t.off}:{t.cnt * size}"
  s!"[{join vals}]@{r}"

/-- `k` without its `@<base>`; `wf` / `wv` name the format agnostic API -/
def isWrapKind (k : String) : Bool :=
  let kind := match k.splitOn "@" with
    | [a, _] => a
    | _ => k
  kind == "wf" || kind == "wv"

/-- the methods of `By` the operations call: of the format specific `By` (`ByApi.ofBy`) or of the
wrapper `Wrap<By32, By64>` (`ByApi.ofWrap`) -/
structure ByApi where
  y : By                       -- the wrapped `By`: the specification side reads the abstract tables off it
  image : Ref                  -- `by.image()`, `by.dll_name()`, `by.ordinal_base()`
  dllName : Out Ref
  ordinalBase : Nat
  fns : Tab
  names : Tab
  idx : Tab
  fnAt : Nat → Nat
  nameAt : Nat → Nat
  idxAt : Nat → Nat
  checkSorted : Out Bool
  ordinal : Nat → Out Export
  index : Nat → Out Export
  hint : Nat → Out Export
  name : List Nat → Out Export
  nameLinear : List Nat → Out Export
  hintName : Nat → List Nat → Out Export
  imp : ImportQ → Out Export
  nameOfHint : Nat → Out Ref
  nameLookup : Nat → Out Import
  iter : List (Out Export)
  iterNames : List (Out Ref × Out Export)
  iterNameIndices : List (Out (Out Ref × Nat))

def ByApi.ofBy (y : By) : ByApi :=
  -- src: exports.rs:`impl Deref for By` (`Target = Exports`): the methods of `self.exp`
  { y := y, image := y.exp.image, dllName := y.exp.dllName, ordinalBase := y.exp.ordinalBase, fns := y.fns, names := y.names, idx := y.idx, fnAt := y.fnAt, nameAt := y.nameAt, idxAt := y.idxAt,
    checkSorted := y.checkSorted, ordinal := y.ordinal, index := y.index, hint := y.hint, name := y.name,
    nameLinear := y.nameLinear, hintName := y.hintName, imp := y.import, nameOfHint := y.nameOfHint,
    nameLookup := y.nameLookup, iter := y.iter, iterNames := y.iterNames, iterNameIndices := y.iterNameIndices }

def ByApi.ofWrap (w : WBy) : ByApi :=
  { y := w.get, image := w.image, dllName := w.dllName, ordinalBase := w.ordinalBase, fns := w.functions, names := w.names, idx := w.nameIndices,
    fnAt := fun i => le32 w.b (w.functions.off + 4 * i), nameAt := fun i => le32 w.b (w.names.off + 4 * i),
    idxAt := fun i => le16 w.b (w.nameIndices.off + 2 * i),
    checkSorted := w.checkSorted, ordinal := w.ordinal, index := w.index, hint := w.hint, name := w.name,
    nameLinear := w.nameLinear, hintName := w.hintName, imp := w.import, nameOfHint := w.nameOfHint,
    nameLookup := w.nameLookup, iter := w.iter, iterNames := w.iterNames, iterNameIndices := w.iterNameIndices }

/-- the methods of `Exports` the dump calls -/
structure ExportsApi where
  image : Ref
  dllName : Out Ref
  ordinalBase : Nat
  functions : Out Ref
  names : Out Ref
  nameIndices : Out Ref
  by_ : Out ByApi

/-- `p.exports()`: `Pe::exports` of a format specific view, `Wrap<Pe32, Pe64>::exports` of a wrapper -/
def exportsApi (wrap : Bool) (v : View) : Out ExportsApi :=
  if wrap then
    (wExports (Wrap.ofView v)).bind fun w =>
      .ok { image := w.image, dllName := w.dllName, ordinalBase := w.ordinalBase, functions := w.functions,
            names := w.names, nameIndices := w.nameIndices, by_ := w.by.bind fun wy => .ok (ByApi.ofWrap wy) }
  else
    (tryFrom v).bind fun e =>
      .ok { image := e.image, dllName := e.dllName, ordinalBase := e.ordinalBase, functions := e.functions,
            names := e.names, nameIndices := e.nameIndices, by_ := e.by.bind fun y => .ok (ByApi.ofBy y) }

/-- `p.exports().and_then(|e| e.by())` -/
def byApi (wrap : Bool) (v : View) : Out ByApi := (exportsApi wrap v).bind (·.by_)

def dumpP (wrap : Bool) (v : View) : P String := do
  match ← strict (exportsApi wrap v) with
  | .error e => pure ("err " ++ e.name)
  | .ok e =>
    let b := v.b
    let dll ← icstr b e.dllName
    let f ← rtab e.functions
    let n ← rtab e.names
    let i ← rtab e.nameIndices
    let head := s!"ok img={ref e.image} dll={dll} base={e.ordinalBase} fns={f} names={n} idx={i}"
    match ← strict e.by_ with
    | .error er => pure (head ++ " by=" ++ ecs er)
    | .ok y =>
      let sorted ← (do match ← strict y.checkSorted with
        | .ok t => pure (if t then "true" else "false")
        | .error er => pure (ecs er))
      let it ← y.iter.mapM (iexp b)
      let itn ← y.iterNames.mapM (fun (p : Out Ref × Out Export) => do
        let a ← icstr b p.1
        let c ← iexp b p.2
        pure s!"({a},{c})")
      let ini ← y.iterNameIndices.mapM (fun o => do
        match ← strict o with
        | .ok (p : Out Ref × Nat) => do let a ← icstr b p.1; pure s!"({a},{p.2})"
        | .error er => pure (ecs er))
      pure (head ++ s!" by=ok F={tabStr y.fns 4 y.fnAt} N={tabStr y.names 4 y.nameAt} I={tabStr y.idx 2 y.idxAt} sorted={sorted} iter=[{join it ";"}] iter_names=[{join itn ";"}] iter_name_indices=[{join ini ";"}]")

def dumpOp (img : Option Img) (k : String) : String :=
  withView img k fun v =>
    match dumpP (isWrapKind k) v with
    | .ok s => s
    | .error s => s

/-- `exports <k> by`: `p.exports()?.by()?`, then `image()`, `dll_name()`, `ordinal_base()` of the `By` -/
def byHeadP (wrap : Bool) (v : View) : P String := do
  match ← strict (byApi wrap v) with
  | .error e => pure ("err " ++ e.name)
  | .ok y =>
    let dll ← icstr v.b y.dllName
    pure s!"ok img={ref y.image} dll={dll} base={y.ordinalBase}"

def byHeadOp (img : Option Img) (k : String) : String :=
  withView img k fun v =>
    match byHeadP (isWrapKind k) v with
    | .ok s => s
    | .error s => s

/-! `Export::symbol()` / `Export::forward()` (src: wrap/exports.rs `impl Export`): `Model/Exports.lean`
has no function of its own for them (`getProcAddress` matches on the constructor in place), so the
two projections are written here, on the model's `Export`. -/

-- src: wrap/exports.rs:Export::symbol   (`Export::Symbol(&rva) => Some(rva), _ => None`)
def exportSymbol (b : Bytes) : Export → Option Nat
  | .symbol r => some (le32 b r.off)
  | .forward _ => none
-- src: wrap/exports.rs:Export::forward   (`Export::Forward(name) => Some(name), _ => None`)
def exportForward : Export → Option Ref
  | .forward r => some r
  | .symbol _ => none

def symFwdStr (b : Bytes) (e : Export) : String :=
  let s := match exportSymbol b e with | some rva => s!"some:{rva}" | none => "none"
  let f := match exportForward e with | some r => s!"some:{cstrStr b r}" | none => "none"
  s!"sym={s} fwd={f}"

/-- the caller's name as a `&CStr`: cut at the first NUL -/
def cutNul (l : List Nat) : List Nat := l.takeWhile (· ≠ 0)

/-! ### specification answers (no references) -/

def symStr : Spec.Sym → String
  | .symbol rva => s!"Symbol({rva})"
  | .forward s => s!"Forward({hexL s})"
def specOut (o : Out Spec.Sym) : String := (outStr symStr o).replace " " "_"
def specImp (o : Out Spec.Imp) : String :=
  (outStr (fun | Spec.Imp.byName h s => s!"ByName({h},{hexL s})" | Spec.Imp.byOrdinal o => s!"ByOrdinal({o})") o).replace " " "_"

/-- the acceptable-answer set in the text of `spec=`, without repetitions: `[a;b;…]` (no blanks) -/
def acceptStr (l : List String) : String := s!"[{join l.eraseDups ";"}]"
def acceptField (l : Option (List String)) : String :=
  match l with
  | some l => " accept=" ++ acceptStr l
  | none => ""

def importQ (a : List String) : Option ImportQ :=
  match a with
  | ["byname", h, nm] => some (.byName (num h) (cutNul (unhexL nm)))
  | ["byordinal", o] => some (.byOrdinal (num o % 65536))
  | _ => none

def queryQ (a : List String) : Option Query :=
  match a with
  | ["name", nm] => some (.name (unhexL nm))
  | ["ordinal", o] => some (.ordinal (num o % 65536))
  | _ => (importQ a).map .import

/-- specification answer, `hyp`, and for a lookup by name the acceptable-answer set -/
abbrev SpecAns := Out Spec.Sym × Bool × Option (List (Out Spec.Sym))

def specImport (T : Spec.Tables) (cs : Nat → Out (List Nat)) (i : ImportQ) : SpecAns :=
  match i with
  | .byName h q => (Spec.hintName T cs h q, Spec.nameDetermined T cs, some (Spec.acceptName T cs q))
  | .byOrdinal o => (Spec.ordinal T cs o, true, none)

def queryOp (img : Option Img) (k : String) (q : String) (a : List String) : String :=
  withView img k fun v =>
    let b := v.b
    let cs := cstrOf v
    if q == "proc" || q == "get" then
      match queryQ a with
      | none => "bad-op"
      | some qq =>
        -- the abstract tables, when the directory and its tables can be read
        let spec : Option SpecAns :=
          match (tryFrom v).bind (·.by) with
          | .ok y =>
            let T := tablesOf y
            some (match qq with
              | .name n => (Spec.name T cs n, Spec.nameDetermined T cs, some (Spec.acceptName T cs n))
              | .ordinal o => (Spec.ordinal T cs o, true, none)
              | .import i => specImport T cs i)
          | _ => none
        if q == "get" then
          -- wrappers: `get_export_by_name` / `_by_ordinal` / `_by_import` of `Wrap<Pe32, Pe64>`
          rexp b (if isWrapKind k then wGetExport (Wrap.ofView v) qq else getExport v qq) ++ (match spec with
            | some (s, h, acc) => s!" ## spec={specOut s} hyp={if h then 1 else 0}" ++ acceptField (acc.map (·.map specOut))
            | none => "")
        else
          let pa (s : Out Spec.Sym) : String :=
            (outStr toString (Spec.procAddress v.imageBase (sizeOfImage v.b) v.fmt.vaLimit s)).replace " " "_"
          natOut (getProcAddress v qq) ++ (match spec with
            | some (s, h, acc) => s!" ## spec={pa s} hyp={if h then 1 else 0}" ++ acceptField (acc.map (·.map pa))
            | none => "")
    else
    match byApi (isWrapKind k) v with
    | .ok y =>
      let T := tablesOf y.y
      let one (m : Out Export) (s : Out Spec.Sym) (hyp : Bool := true)
          (acc : Option (List (Out Spec.Sym)) := none) : String :=
        rexp b m ++ s!" ## spec={specOut s} hyp={if hyp then 1 else 0}" ++ acceptField (acc.map (·.map specOut))
      -- `symfwd`: the lookup, then `Export::symbol()` / `Export::forward()` of its answer
      let sf (m : Out Export) (s : Out Spec.Sym) (hyp : Bool := true)
          (acc : Option (List (Out Spec.Sym)) := none) : String :=
        outStr (symFwdStr b) m ++ s!" ## spec={specOut s} hyp={if hyp then 1 else 0}" ++ acceptField (acc.map (·.map specOut))
      match q, a with
      | "ordinal", [o] => one (y.ordinal (num o % 65536)) (Spec.ordinal T cs (num o % 65536))
      | "index", [i] => one (y.index (num i)) (Spec.index T cs (num i))
      | "hint", [h] => one (y.hint (num h)) (Spec.hint T cs (num h))
      | "name", [nm] => one (y.name (unhexL nm)) (Spec.name T cs (unhexL nm)) (Spec.nameDetermined T cs)
          (some (Spec.acceptName T cs (unhexL nm)))
      | "name_linear", [nm] => one (y.nameLinear (unhexL nm)) (Spec.nameLinear T cs (unhexL nm))
      | "hint_name", [h, nm] => one (y.hintName (num h) (unhexL nm)) (Spec.hintName T cs (num h) (unhexL nm)) (Spec.nameDetermined T cs)
          (some (Spec.acceptName T cs (unhexL nm)))
      | "import", a =>
        (match importQ a with
         | some i => let (s, h, acc) := specImport T cs i; one (y.imp i) s h acc
         | none => "bad-op")
      | "symfwd", ["ordinal", o] => sf (y.ordinal (num o % 65536)) (Spec.ordinal T cs (num o % 65536))
      | "symfwd", ["index", i] => sf (y.index (num i)) (Spec.index T cs (num i))
      | "symfwd", ["hint", h] => sf (y.hint (num h)) (Spec.hint T cs (num h))
      | "symfwd", ["name", nm] => sf (y.name (unhexL nm)) (Spec.name T cs (unhexL nm)) (Spec.nameDetermined T cs)
          (some (Spec.acceptName T cs (unhexL nm)))
      | "name_of_hint", [h] =>
        outStr (cstrStr b) (y.nameOfHint (num h)) ++
          s!" ## spec={(outStr hexL (Spec.nameOfHint T cs (num h))).replace " " "_"} hyp=1"
      | "name_lookup", [i] =>
        outStr (fun | Import.byName h r => s!"ByName({h},{cstrStr b r})" | Import.byOrdinal o => s!"ByOrdinal({o})") (y.nameLookup (num i)) ++
          s!" ## spec={specImp (Spec.nameLookup T cs (num i))} hyp=1"
      | _, _ => "bad-op"
    | o => outStr (fun _ => "") o

def dispatchExports : Handler := fun st fam a =>
  match fam, a with
  | "exports", [k, "dump"] => some (dumpOp st.img k)
  | "exports", [k, "by"] => some (byHeadOp st.img k)
  | "export", k :: q :: rest => if rest.isEmpty then some "bad-op" else some (queryOp st.img k q rest)
  | "exports", _ | "export", _ => some "bad-op"
  | _, _ => none

end Pelite.Driver
