import PeliteModel.Driver.State
import PeliteModel.Spec.ImageLayout
/-! `fields <STRUCT> <hex>`: the bytes read as one value of a struct of `image.rs`, field by field, at the offsets and
with the sizes of the GOLDEN layout table (Spec/ImageLayout.lean).  The harness copies the same bytes into the real
struct and reads every field back through its name: a field that moved, shrank or grew in the source reads other
bytes, which turns a layout change into a concrete failing input. -/
namespace Pelite.Driver
open Pelite.Proto

def hexByte (b : UInt8) : String :=
  let d (n : Nat) : Char := if n < 10 then Char.ofNat (48 + n) else Char.ofNat (87 + n)
  String.ofList [d (b.toNat / 16), d (b.toNat % 16)]

def hexRange (b : Bytes) (off len : Nat) : String :=
  String.join ((List.range len).map fun i => hexByte (b.getD (off + i) 0))

def fieldsOut (name : String) (b : Bytes) : String :=
  match Spec.imageLayoutFields.find? (fun r => r.1 == name) with
  | none => "bad-op"
  | some (_, size, fs) =>
    if b.size < size then "ok short"
    else "ok " ++ String.intercalate ";" (fs.map fun (f, off, sz) => s!"{f}={hexRange b off sz}")

def dispatchFields : Handler := fun _ fam a =>
  match fam, a with
  | "fields", [name, hx] => some (fieldsOut name (unhex hx))
  | "fields", _ => some "bad-op"
  | _, _ => none
end Pelite.Driver
