import PeliteModel.Driver.State
import PeliteModel.Model.Pe
import PeliteModel.Model.PeChecked
import PeliteModel.Spec.Pe
/-! Driver handlers for the operation families that work on the current image.
They run the CHECKED variants of the model (`Model/PeChecked.lean`: panicking arithmetic / slice
primitives at the Rust sites); `Thm/C02Arith.lean` proves them equal to the unchecked model the
other theorems speak about, and the correspondence run ties them to the real code. -/
namespace Pelite.Driver
open Pelite.Proto Pelite.Pe

/-- parse `k` = f32|f64|v32|v64|wf|wv, optionally `@<base>` for views -/
def construct (img : Img) (k : String) : Option (Out View) :=
  let (kind, base) := match k.splitOn "@" with
    | [a, b] => (a, some (num b))
    | _ => (k, none)
  let setb (o : Out View) : Out View := match o, base with
    | .ok v, some b => .ok (v.setBase b)
    | o, _ => o
  match kind with
  | "f32" => some (fromBytesChk .pe32 .file img)
  | "f64" => some (fromBytesChk .pe64 .file img)
  | "v32" => some (setb (fromBytesChk .pe32 .view img))
  | "v64" => some (setb (fromBytesChk .pe64 .view img))
  | "wf" => some (wrapFromBytesChk .file img)
  | "wv" => some (wrapFromBytesChk .view img)
  | _ => none

def withView (img : Option Img) (k : String) (f : View → String) : String :=
  match img with
  | none => "noimg"
  | some img =>
    match construct img k with
    | none => "bad-op"
    | some (.ok v) => f v
    | some (.err e) => "noimg " ++ e.name
    | some o => outStr (fun _ => "") o

def refOut (o : Out Ref) : String := outStr ref o
def natOut (o : Out Nat) : String := outStr toString o

def fromBytesOp (img : Option Img) (k : String) : String :=
  match img with
  | none => "noimg"
  | some img =>
    match construct img k with
    | none => "bad-op"
    | some o => outStr (fun v => match v.fmt with | .pe32 => "32" | .pe64 => "64") o

def hdr (img : Option Img) (k : String) : String :=
  withView img k fun v =>
    let cr := v.codeRange
    let ir := v.imageRange
    match v.checkSumChk with
    | .ok csum =>
    s!"ok dos={ref v.dosHeader} dosimg={ref v.dosImage} nt={ref v.ntHeaders} fh={ref v.fileHeader} opt={ref v.optionalHeader} dd={ref v.dataDirectory} sec={ref v.sectionHeaders} himg={ref v.headersImage} csum={csum} code={cr.1}..{cr.2} image={ir.1}..{ir.2} base={v.imageBase} ## stdcsum={stdPeChecksum v.b}"
    | o => natOut o

def hdrw (img : Option Img) (k : String) : String :=
  withView img k fun v =>
    s!"ok dos={ref v.dosHeader} dosimg={ref v.dosImage} fh={ref v.fileHeader} dd={ref v.dataDirectory} sec={ref v.sectionHeaders}"

def addr (img : Option Img) (fam : String) (a : List String) : String :=
  match a with
  | [k, x] =>
    let x := num x
    withView img k fun v =>
      match fam with
      | "r2f" => natOut (v.rvaToFileOffsetChk x)
      | "f2r" => natOut (v.fileOffsetToRvaChk x)
      | "r2v" => natOut (v.rvaToVa x)            -- no panicking site (`checked_add`)
      | "v2r" => natOut (v.vaToRvaChk x)
      | _ => "bad-op"
  | _ => "bad-op"

def sliceOp (img : Option Img) (a : List String) : String :=
  match a with
  | [k, rva, min, al] => withView img k fun v => refOut (v.sliceChk (num rva) (num min) (num al))
  | _ => "bad-op"

def readOp (img : Option Img) (a : List String) : String :=
  match a with
  | [k, va, min, al] => withView img k fun v => refOut (v.readChk (num va) (num min) (num al))
  | _ => "bad-op"

def secbytes (img : Option Img) (a : List String) : String :=
  match a with
  | [k, i] => withView img k fun v =>
      match v.secs[num i]? with
      | some s => refOut (v.sectionBytes s)
      | none => "nosec"
  | _ => "bad-op"

def bysec (img : Option Img) (fam : String) (a : List String) : String :=
  match a with
  | [k, x] => withView img k fun v =>
      -- `byname` runs the CHECKED function (panicking index primitives at `name_buf[i] = name[i]`,
      -- wrap/sections.rs:104; `C02_byNameBytes_checked_eq`); length guard and NUL padding are model code
      -- (C07_by_name_bytes)
      let r : Out (Option Nat) := if fam == "byrva" then .ok (byRva v.secs (num x))
        else byNameBytesChk v.secs (unhex x)
      match r with
      | .ok (some i) => s!"ok {i}"
      | .ok none => "none"
      | o => outStr (fun _ => "") o
  | _ => "bad-op"

/-! ### second audit round, harness side: `slice_bytes`, `read_bytes`, `hdrw2`
(separate block: the handlers above belong to the theorem side) -/

-- src: pe.rs:Pe::slice_bytes `self.slice(rva, 0, 1)`  (wrap/pe.rs:Wrap::slice_bytes dispatches to it per format)
def sliceBytesChk (v : View) (rva : Nat) : Out Ref := v.sliceChk rva 0 1
-- src: pe.rs:Pe::read_bytes `self.read(va, 0, 1)`
def readBytesChk (v : View) (va : Nat) : Out Ref := v.readChk va 0 1

def sliceBytesOp (img : Option Img) (a : List String) : String :=
  match a with
  | [k, rva] => withView img k fun v => refOut (sliceBytesChk v (num rva))
  | _ => "bad-op"

def readBytesOp (img : Option Img) (a : List String) : String :=
  match a with
  | [k, va] => withView img k fun v => refOut (readBytesChk v (num va))
  | _ => "bad-op"

/-- `hdrw2 <k>`: every header accessor through the API of the object `k` constructs — for `wf` / `wv`
    that is src: wrap/pe.rs:Wrap::{dos_header, dos_image, nt_headers, file_header, optional_header,
    data_directory, section_headers, headers, image, align} and wrap/headers.rs:{pe, image, check_sum,
    code_range, image_range}, each of which dispatches to the method of the selected format; `nt=` / `opt=`
    carry the format of the struct handed out and the fields read through that reference. -/
def hdrw2 (img : Option Img) (k : String) : String :=
  withView img k fun v =>
    let bits := match v.fmt with | .pe32 => "32" | .pe64 => "64"
    let al := match v.kind with | .file => "F" | .view => "S"      -- src: file.rs / view.rs PeObject::align
    let cr := v.codeRange
    let ir := v.imageRange
    match v.checkSumChk with
    | .ok csum =>
    s!"ok dos={ref v.dosHeader} dosimg={ref v.dosImage} nt={bits}@{ref v.ntHeaders} sig={le32 v.b (eLfanew v.b)} fh={ref v.fileHeader} opt={bits}@{ref v.optionalHeader} magic={optMagic v.b} soi={sizeOfImage v.b} soh={sizeOfHeaders v.b} ibase={imageBaseField v.fmt v.b} nrva={numberOfRvaAndSizes v.fmt v.b} dd={ref v.dataDirectory} sec={ref v.sectionHeaders} himg={ref v.headersImage} csum={csum} code={cr.1}..{cr.2} image={ir.1}..{ir.2} peimg=0:{v.b.size} align={al} ## stdcsum={stdPeChecksum v.b}"
    | o => natOut o

def dispatchImage : Handler := fun st fam a =>
  match fam, a with
  | "from_bytes", [k] => some (fromBytesOp st.img k)
  | "hdr", [k] => some (hdr st.img k)
  | "hdrw", [k] => some (hdrw st.img k)
  | "r2f", a | "f2r", a | "r2v", a | "v2r", a => some (addr st.img fam a)
  | "slice", a => some (sliceOp st.img a)
  | "read", a => some (readOp st.img a)
  | "secbytes", a => some (secbytes st.img a)
  | "byrva", a | "byname", a => some (bysec st.img fam a)
  -- ---- second audit round, harness side (keep this block last) ----
  | "slice_bytes", a => some (sliceBytesOp st.img a)
  | "read_bytes", a => some (readBytesOp st.img a)
  | "hdrw2", [k] => some (hdrw2 st.img k)
  | _, _ => none

end Pelite.Driver
