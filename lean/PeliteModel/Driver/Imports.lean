import PeliteModel.Driver.Image
import PeliteModel.Spec.Imports
/-!
Driver handlers for the import directory and the IAT (C09): `imports <k> dump`, `iat <k> dump`.
Canonical, space-free dump (the same text `harness/src/ops_imports.rs` prints):

    imports:  ok img=<ref>;n=<N>{;DESC}          DESC = {d=<ref>,oft=<n>,ft=<n>,name=NAME,int=INT,iat=IAT}
              NAME = <ref>:<hex of the string without its NUL> | !<Err>
              INT  = [ITEM/ITEM/…] | !<Err>        ITEM = o<ord> | n<hint>@NAME | !<Err>
              IAT  = [<ref>=<value>/…] | !<Err>
    iat:      ok img=<ref>;n=<N>;[<ref>=<value>>ITEM/…]
    both:     err <Err>

After ` ## ` the same dump computed by the executable specification (`Spec/Imports.lean`) as
`spec=<dump with '_' for the blank>` and `hyp=1` (the theorems of `Thm/C09.lean` hold for every view,
also when the data directory entry does not exist: `Null`, `C09_missing_entry_null`).
A trailing token after `dump` (the generator's expectation, used by the Python oracle) is ignored.
-/
namespace Pelite.Driver
open Pelite.Proto Pelite.Pe Pelite.Imports

/-- the functions a dump is made of: once the model's, once the specification's -/
structure ImportsBackend where
  tryFrom : View → Out Ref
  thunks : View → Nat → Out Ref          -- zero-terminated table at an rva
  cstr : View → Nat → Out Ref
  decode : View → Nat → Out Import
  iat : View → Out Ref

def modelBackend : ImportsBackend where
  tryFrom := Imports.tryFrom
  thunks := fun v rva => v.dervaSliceS (.rva rva) (vaSize v.fmt) (vaSize v.fmt) 0
  cstr := fun v rva => v.dervaCStr (.rva rva)
  decode := importFromVa
  iat := iatTryFrom

def specBackend : ImportsBackend where
  tryFrom := specTryFrom
  thunks := specThunks
  cstr := specCStr
  decode := specImport
  iat := specIat

def errTag {α} (f : α → String) : Out α → String
  | .ok a => f a
  | .err e => "!" ++ e.name
  | .panic s => "!panic:" ++ s
  | .ub s => "!ub:" ++ s
  | .diverge => "!diverge"

def cstrTxt (v : View) (r : Ref) : String :=
  s!"{ref r}:{hex (v.b.extract r.off (r.off + r.len - 1))}"

def importTxt (v : View) (o : Out Import) : String :=
  errTag (fun i => match i with
    | .byName h nm => s!"n{h}@{cstrTxt v nm}"
    | .byOrdinal o => s!"o{o}") o

/-- worst outcome class inside a dump: a panic / ub / diverge of any sub-operation makes the whole
operation that (the Rust side unwinds out of the op) -/
def escalate (s : String) : String :=
  if (s.splitOn "!panic:").length > 1 then "panic " ++ s
  else if (s.splitOn "!ub:").length > 1 then "ub " ++ s
  else if (s.splitOn "!diverge").length > 1 then "diverge"
  else s

def importsDump (be : ImportsBackend) (v : View) : String :=
  match be.tryFrom v with
  | .ok image =>
    let ds := descs image
    let one (d : Ref) : String :=
      let nameS := errTag (cstrTxt v) (be.cstr v (Desc.name v d))
      let intS := errTag (fun s => "[" ++ join ((thunkRefs v.fmt s).map (fun t => importTxt v (be.decode v (thunkVal v t)))) "/" ++ "]")
        (be.thunks v (Desc.oft v d))
      let iatS := errTag (fun s => "[" ++ join ((thunkRefs v.fmt s).map (fun t => s!"{ref t}={thunkVal v t}")) "/" ++ "]")
        (be.thunks v (Desc.ft v d))
      "{" ++ s!"d={ref d},oft={Desc.oft v d},ft={Desc.ft v d},name={nameS},int={intS},iat={iatS}" ++ "}"
    escalate (s!"ok img={ref image};n={ds.length}" ++ String.join (ds.map (fun d => ";" ++ one d)))
  | o => outStr (fun _ => "") o

def iatDump (be : ImportsBackend) (v : View) : String :=
  match be.iat v with
  | .ok image =>
    let ts := thunkRefs v.fmt image
    escalate (s!"ok img={ref image};n={ts.length};[" ++
      join (ts.map (fun t => s!"{ref t}={thunkVal v t}>{importTxt v (be.decode v (thunkVal v t))}")) "/" ++ "]")
  | o => outStr (fun _ => "") o

def underscore (s : String) : String := s.map (fun c => if c == ' ' then '_' else c)

def importsOp (img : Option Img) (fam k : String) : String :=
  withView img k fun v =>
    let (m, s) := if fam == "imports" then (importsDump modelBackend v, importsDump specBackend v)
      else (iatDump modelBackend v, iatDump specBackend v)
    s!"{m} ## spec={underscore s} hyp=1"

def dispatchImports : Handler := fun st fam a =>
  match fam, a with
  | "imports", k :: "dump" :: _ => some (importsOp st.img fam k)
  | "iat", k :: "dump" :: _ => some (importsOp st.img fam k)
  | "imports", _ | "iat", _ => some "bad-op"
  | _, _ => none

end Pelite.Driver
