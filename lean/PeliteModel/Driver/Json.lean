import PeliteModel.Driver.Image
import PeliteModel.Model.JsonDirs
/-! Driver handlers: `jsonsub <k>` (the modelled subset of the header part of the JSON rendering),
`jsonsub <k> <field>` (one top-level member of the document, whole, as canonical text),
`jsontext <k> <field>` (the printed text of that member, hex), `json <k>`
(outcome class only), `relocs <k> dump` (image-level base relocations). -/
namespace Pelite.Driver
open Pelite.Proto Pelite.Pe

def relocsText (v : View) : String :=
  match v.baseRelocsBytes with
  | .ok data => fmtPairsJ (Relocs.flat data)
  | _ => "-"
where fmtPairsJ (l : List (Nat × Nat)) : String := "[" ++ join (l.map fun p => s!"{p.1}:{p.2}") ++ "]"

def jsonSub (img : Option Img) (k : String) : String :=
  withView img k fun v =>
    let h := v.headerJson
    let dd := join (h.dataDirectory.map fun d => s!"{d.1}:{d.2}")
    let sec := join (h.sections.map fun s => s!"{s.vs}:{s.va}:{s.rs}:{s.prd}:{s.chars}")
    let dds := join (h.detDdSections.map fun o => match o with | some i => toString i | none => "-")
    s!"ok dos.e_lfanew={h.eLfanew} fh.nsec={h.numberOfSections} fh.soh={h.sizeOfOptionalHeader} opt.magic={h.magic} opt.code={h.baseOfCode}+{h.sizeOfCode} opt.base={h.imageBase} opt.soi={h.sizeOfImage} opt.soh={h.sizeOfHeaders} opt.csum={h.checkSumField} opt.nrva={h.numberOfRvaAndSizes} dd=[{dd}] sec=[{sec}] det.csum={h.detCheckSum} det.ddsec=[{dds}] relocs={relocsText v}"

/-! ### canonical text of a `Json` value (harness/src/ops_json.rs `canon` prints the same for the real document) -/

def safeByte (b : Nat) : Bool :=
  (48 ≤ b && b ≤ 57) || (65 ≤ b && b ≤ 90) || (97 ≤ b && b ≤ 122) ||
  b == 95 || b == 46 || b == 36 || b == 64 || b == 43 || b == 35 || b == 45        -- _ . $ @ + # -

/-- `'text` for a non-empty string over [A-Za-z0-9_.$@+#-], else `x<hex of the bytes>` -/
def strTok (s : List Nat) : String :=
  if !s.isEmpty && s.all safeByte then "'" ++ String.ofList (s.map Char.ofNat)
  else "x" ++ String.ofList (s.flatMap fun b => [hexDigit (b / 16), hexDigit (b % 16)])

mutual
def canon : Json → String
  | .null => "null"
  | .bool b => if b then "true" else "false"
  | .num n => toString n
  | .str s => strTok s
  | .arr xs => "[" ++ join (canonElems xs) ++ "]"
  | .obj kvs => "{" ++ join (canonMembers kvs) ++ "}"
def canonElems : List Json → List String
  | [] => []
  | x :: rest => canon x :: canonElems rest
def canonMembers : List (List Nat × Json) → List String
  | [] => []
  | (k, v) :: rest => (strTok k ++ ":" ++ canon v) :: canonMembers rest
end

/-- `jsonsub <k> <field>`: the whole document is serialized (a panic anywhere is a panic of every
field, as in the Rust code), then the named member is printed -/
def jsonField (img : Option Img) (k field : String) : String :=
  withView img k fun v =>
    match v.serializePe with
    | .ok doc =>
      (match doc.toJson.field field with
       | some j => "ok " ++ canon j
       | none => "missing")
    | o => outStr (fun _ => "") o

/-- `jsontext <k> <field>`: the text `Json.print` gives for the member (hex), to be compared with the
bytes serde_json wrote -/
def jsonText (img : Option Img) (k field : String) : String :=
  withView img k fun v =>
    match v.serializePe with
    | .ok doc =>
      (match doc.toJson.field field with
       | some j => "ok " ++ String.ofList (j.print.flatMap fun b => [hexDigit (b / 16), hexDigit (b % 16)])
       | none => "missing")
    | o => outStr (fun _ => "") o

def relocsDump (img : Option Img) (k : String) : String :=
  withView img k fun v =>
    match v.baseRelocsRef, v.baseRelocsBytes with
    | .ok r, .ok data =>
      let bs := Relocs.blocks data
      let blk := join (bs.map fun b => s!"{b.va}@{r.off + b.off}:8+{b.size}/{r.off + b.off + 8}:{2 * b.nwords}")
      s!"ok image={ref r} blocks=[{blk}] flat=[{join ((Relocs.flat data).map fun p => s!"{p.1}:{p.2}")}]"
    | o, _ => refOut o

/-- `secname <k> <i>`: `SectionHeader::name()` (`util::parsen`: the eight `Name` bytes without trailing NULs
when they are UTF-8, else all eight bytes as the error value) and `name_bytes()` (`util::trimn`) of section `i` -/
-- src: image.rs:IMAGE_SECTION_HEADER::name, name_bytes; util/mod.rs:parsen, trimn
def secName (img : Option Img) (k i : String) : String :=
  withView img k fun v =>
    if num i < numberOfSections v.b then
      let o := secTable v.b + 40 * num i
      let name := (List.range 8).map fun j => byteAt v.b (o + j)
      let hx (l : List Nat) : String := hex (l.map (·.toUInt8)).toArray
      let t := Pelite.Pe.trimn name
      -- src: wrap/sections.rs:SectionHeader::virtual_range, file_range (`u32::wrapping_add`)
      let sec := secAt v.b o
      (if (Resources.utf8Chars t).isSome then s!"ok str {hx t}" else s!"ok raw {hx name}") ++ s!" bytes={hx t}" ++
        s!" vr={sec.va}..{wadd32 sec.va sec.vs} fr={sec.prd}..{wadd32 sec.prd sec.rs}"
    else "nosec"

def dispatchJson : Handler := fun st fam a =>
  match fam, a with
  | "secname", [k, i] => some (secName st.img k i)
  | "jsonsub", [k] => some (jsonSub st.img k)
  | "jsonsub", [k, field] => some (jsonField st.img k field)
  | "jsontext", [k, field] => some (jsonText st.img k field)
  | "json", [k] => some (withView st.img k fun _ => "ok")
  | "relocs", [k, "dump"] => some (relocsDump st.img k)
  | _, _ => none

end Pelite.Driver
