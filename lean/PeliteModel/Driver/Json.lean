import PeliteModel.Driver.Image
import PeliteModel.Model.Json
/-! Driver handlers: `jsonsub <k>` (the modelled subset of the JSON rendering), `json <k>`
(outcome class only), `relocs <k> dump` (image-level base relocations). -/
namespace Pelite.Driver
open Pelite.Proto Pelite.Pe

def relocsText (v : View) : String :=
  match v.baseRelocsBytes with
  | .ok data => fmtPairsJ (Relocs.flat data)
  | _ => "-"
where fmtPairsJ (l : List (Nat × Nat)) : String := "[" ++ join (l.map fun p => s!"{p.1}:{p.2}") ++ "]"

def jsonSub (img : Option Img) (k : String) : String :=
  withView img k fun v =>
    let h := v.headerJson
    let dd := join (h.dataDirectory.map fun d => s!"{d.1}:{d.2}")
    let sec := join (h.sections.map fun s => s!"{s.vs}:{s.va}:{s.rs}:{s.prd}:{s.chars}")
    let dds := join (h.detDdSections.map fun o => match o with | some i => toString i | none => "-")
    s!"ok dos.e_lfanew={h.eLfanew} fh.nsec={h.numberOfSections} fh.soh={h.sizeOfOptionalHeader} opt.magic={h.magic} opt.code={h.baseOfCode}+{h.sizeOfCode} opt.base={h.imageBase} opt.soi={h.sizeOfImage} opt.soh={h.sizeOfHeaders} opt.csum={h.checkSumField} opt.nrva={h.numberOfRvaAndSizes} dd=[{dd}] sec=[{sec}] det.csum={h.detCheckSum} det.ddsec=[{dds}] relocs={relocsText v}"

def relocsDump (img : Option Img) (k : String) : String :=
  withView img k fun v =>
    match v.baseRelocsRef, v.baseRelocsBytes with
    | .ok r, .ok data =>
      let bs := Relocs.blocks data
      let blk := join (bs.map fun b => s!"{b.va}@{r.off + b.off}:8+{b.size}/{r.off + b.off + 8}:{2 * b.nwords}")
      s!"ok image={ref r} blocks=[{blk}] flat=[{join ((Relocs.flat data).map fun p => s!"{p.1}:{p.2}")}]"
    | o, _ => refOut o

def dispatchJson : Handler := fun st fam a =>
  match fam, a with
  | "jsonsub", [k] => some (jsonSub st.img k)
  | "json", [k] => some (withView st.img k fun _ => "ok")
  | "relocs", [k, "dump"] => some (relocsDump st.img k)
  | _, _ => none

end Pelite.Driver
