import PeliteModel.Driver.State
import PeliteModel.Model.Pattern
/-! Driver handlers for the pattern parser and the `pattern!` macro model. -/
namespace Pelite.Driver
open Pelite.Proto Pelite.Pattern

def fmtAtoms (l : List Atom) : String :=
  if l.isEmpty then "-" else join (l.map Atom.show)

def toByteArray (b : Bytes) : ByteArray := b.foldl (fun acc x => acc.push x) (ByteArray.emptyWithCapacity b.size)

def fmtParse : ParseOut → String
  | .ok atoms => s!"ok save_len={saveLen atoms} atoms={fmtAtoms atoms}"
  | .err k pos => s!"err {k.name} {pos}"
  | .panic site => s!"panic {site}"
  | .diverge => "diverge"

/-- pat_parse <hex of the UTF-8 bytes of the string>.
A byte string that is not valid UTF-8 cannot be a Rust `&str`: both sides answer `err NotUtf8`. -/
def patParse (a : List String) : String :=
  match a with
  | [hx] =>
    let bytes := unhex hx
    if !(toByteArray bytes).validateUTF8 then "err NotUtf8" else
    fmtParse (parse bytes.toList)
  | _ => "bad-op"

def fmtMacroErr : MacroErr → String
  | .notStringLiteral => "NotStringLiteral"
  | .unicodeEscape => "UnicodeEscape"
  | .unknownEscape c => s!"UnknownEscape({c.toNat})"
  | .truncated => "Truncated"
  | .unterminated => "Unterminated"
  | .invalidPattern k pos => s!"InvalidPattern({k.name},{pos})"
  | .parserPanic site => s!"ParserPanic({site})"

/-- pat_macro <hex of the UTF-8 bytes of the literal's source text> (model only: what `pattern!(<lit>)`
expands to; compared with the compiled macro by the batch oracle of C17). -/
def patMacro (a : List String) : String :=
  match a with
  | [hx] =>
    match String.fromUTF8? (toByteArray (unhex hx)) with
    | none => "err NotUtf8"
    | some lit =>
      match macroAtoms lit.toList with
      | .ok atoms => s!"ok save_len={saveLen atoms} atoms={fmtAtoms atoms}"
      | .error e => s!"compile_error {fmtMacroErr e}"
  | _ => "bad-op"

def dispatchPattern : Handler := fun _ fam a =>
  match fam with
  | "pat_parse" => some (patParse a)
  | "pat_macro" => some (patMacro a)
  | _ => none

end Pelite.Driver
