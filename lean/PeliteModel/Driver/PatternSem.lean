import PeliteModel.Driver.Image
import PeliteModel.Model.Pattern
import PeliteModel.Spec.PatternSem
import PeliteModel.Spec.PatternSemImpl
import PeliteModel.Spec.PatternSemDoc
/-! Driver handlers for C11 (semantic half): pattern STRING → parser model → interpreter model, next
to the reference semantics `PatSem.denote` of the tree recovered by the reference reader.
```
pat_ref <hex pattern string> <hex bytes> <cursor> <nsave> <32|64>   (model only: raw buffer, `ofRaw`)
pat_sem <k> <hex pattern string> <cursor rva> <nsave>               (current image, `ofView`)
   -> ok <0|1> save=[..] ## spec=<0|1>:[..] impl=<0|1>:[..] hyp=<0|1> hypi=<0|1> wf=<0|1> frag=<0|1> same=<0|1>
         doc=<0|1>:[..] docdiff=<0|1> run=<0|1>:[..] implok=<0|1>
   -> err <ParseErrorKind> <pos>
```
`spec`: the documented answer; the list has `nsave` entries, `_` = slot not specified (never written by
the successful path), empty on a mismatch.  `hyp=1`: the string belongs to the reference grammar (`readPat s = some p`:
any documented spelling — mixed-case hex, leading-zero decimals, SP / TAB / LF / CR; `Thm/C11Grammar.lean`), `p` is a
well-formed tree in the fragment of `Thm/C11.lean` (T2) and the image interface is coherent (mapped views; file views
whose sections do not overlap; raw buffers).  `styled=1`: the string is moreover `render sty p` for one of the four
uniform styles (the image T1 / T3 of `Thm/C11.lean` quantify over).
`impl`: the answer of the second reference semantics `PatSem.denoteImpl` (`Spec/PatternSemImpl.lean`: the last
alternative continues into what follows the `)`, a trailing `[a-b]` means `[a]`), same format as `spec`.
`hypi=1`: the hypotheses of the UNCONDITIONAL theorem (`Thm/C11Grammar.lean:C11_pattern_string_semantics_grammar` =
T2' of `Thm/C11Impl.lean` for every string of the reference grammar): `readPat s = some p`, `p` well formed and the
image interface coherent — no fragment condition.
`doc`: the answer of `PatSem.denoteDoc` (`Spec/PatternSemDoc.lean`: `denoteImpl` with the DOCUMENTED, inclusive upper
bound of every `[a-b]`), same format; `docdiff=1` when it differs from `impl=` (then the input needs exactly `b`
skipped bytes at some `[a-b]`: the known deviation `Thm/C11Doc.lean:C11_doc_upper_bound_differs`).
`run`: the interpreter model's own answer in the format of `impl=` with every slot printed; `implok=1`: it agrees
with `impl=` (verdict and every specified slot) — what `Thm/C11Impl.lean` proves under `hypi=1`. -/
namespace Pelite.Driver
open Pelite.Proto Pelite.Pe Pelite.Pattern Pelite.Exec Pelite.PatSem

namespace PatSemD

def b01 (b : Bool) : String := if b then "1" else "0"
def fmtSave (s : Array Nat) : String := "[" ++ join (s.toList.map toString) ++ "]"

def fmtCaps (w : Caps) (nsave : Nat) : String :=
  "[" ++ join ((List.range nsave).map fun i => match w.get i with | some v => toString v | none => "_") ++ "]"

def answer (S : ScanI) (coherent : Bool) (pat : List UInt8) (cursor nsave : Nat) : String :=
  match parse pat with
  | .err k pos => s!"err {k.name} {pos}"
  | .panic site => s!"panic {site}"
  | .diverge => "diverge"
  | .ok atoms =>
    let ans := match Exec.run S atoms cursor (Array.replicate nsave 0) with
      | .ok (b, s) => s!"ok {b01 b} save={fmtSave s}"
      | o => outStr (fun _ => "") o
    -- the tree of the string under the reference grammar: ANY documented spelling (`Thm/C11Grammar.lean`:
    -- `C11_grammar_covered`, `C11_pattern_string_semantics_grammar` hold for every `readPat s = some p`)
    match readPat pat with
    | none => s!"{ans} ## spec=- impl=- hyp=0 hypi=0 wf=0 frag=0 same=0 doc=- docdiff=0 run=- implok=0 styled=0"
    | some p =>
      let spec := match denote S p cursor with
        | some (_, w) => s!"1:{fmtCaps w nsave}"
        | none => "0:[]"
      let impl := match denoteImpl S p cursor with
        | some (_, w) => s!"1:{fmtCaps w nsave}"
        | none => "0:[]"
      let doc := match denoteDoc S p cursor with
        | some (_, w) => s!"1:{fmtCaps w nsave}"
        | none => "0:[]"
      let docdiff := doc != impl
      -- the interpreter model's own answer, and whether it is the one `denoteImpl` specifies
      let (runTxt, implok) := match Exec.run S atoms cursor (Array.replicate nsave 0) with
        | .ok (b, s) =>
          (s!"{b01 b}:{if b then fmtSave s else "[]"}",
           match denoteImpl S p cursor with
           | some (_, w) => b && s.size == nsave &&
               (List.range nsave).all fun i => match w.get i with | some v => s[i]? == some v | none => true
           | none => !b)
        | _ => ("-", false)
      let wf := WF p
      let frag := InFragment p
      let hypi := wf && coherent && decide (cursor < 4294967296) && decide (S.mem.size < 4294967296)
      let hyp := hypi && frag
      s!"{ans} ## spec={spec} impl={impl} hyp={b01 hyp} hypi={b01 hypi} wf={b01 wf} frag={b01 frag} same={b01 (decide (compile p = atoms))} doc={doc} docdiff={b01 docdiff} run={runTxt} implok={b01 implok} styled={b01 (readStyled pat).isSome}"

end PatSemD
open PatSemD

def dispatchPatternSem : Handler := fun st fam a =>
  match fam, a with
  | "pat_ref", [pat, bytes, cursor, nsave, width] => some <|
    let f : Option Fmt := if width == "32" then some .pe32 else if width == "64" then some .pe64 else none
    match f with
    | none => "bad-op"
    | some f => answer (ofRaw f (unhex bytes)) true (unhex pat).toList (num cursor) (num nsave)
  | "pat_sem", [k, pat, cursor, nsave] => some <|
    withView st.img k fun v =>
      let coh := match v.kind with
        | .view => true
        | .file => secsDisjointB v.secs
      answer (ofView v) coh (unhex pat).toList (num cursor) (num nsave)
  | _, _ => none

end Pelite.Driver
