import PeliteModel.Driver.State
import PeliteModel.Spec.Strings
import PeliteModel.Model.Relocs
import PeliteModel.Spec.Relocs
import PeliteModel.Model.CStrFmt
import PeliteModel.Model.Ptr
/-! Driver handlers for the operation families that carry their bytes inline. -/
namespace Pelite.Driver
open Pelite.Proto

/-- (the address as the code computes it: `self.base.wrapping_add(start as u32)`) -/
def fmtFound (base : Nat) (f : Strings.Found) : String :=
  s!"{f.start}:{f.len}:{Strings.addressT base f}:{if f.hasNul then 1 else 0}"

/-- the specification's rendering of a run: `address = base + offset of the run` in `u32`, computed
here, not through the model's `Strings.address` -/
def fmtFoundSpec (base : Nat) (f : Strings.Found) : String :=
  s!"{f.start}:{f.len}:{(base + f.start) % 4294967296}:{if f.hasNul then 1 else 0}"

/-- strings <min_length> <min_length_nul> <strict 0|1> <base> <hex> -/
def strings (a : List String) : String :=
  match a with
  | [ml, mln, st, base, hx] =>
    let cfg : Strings.Config := ⟨num ml, num mln, st == "1"⟩
    let base := num base
    let bytes := unhex hx
    -- the enumerator AS WRITTEN (`self.offset: u32`): `enumAllT`; for the buffers a line can carry it is `enumAll`
    -- (C20_offset_fits)
    let ans := match Strings.enumAllT bytes cfg (bytes.size + 2) 0 with
      | .ok fs =>
        -- the state after exhaustion is the offset the last `Some` left behind; `next` again twice
        let off := Strings.finalOff bytes cfg (bytes.size + 2) 0
        let fused := Strings.nexts bytes cfg off 2 == [none, none]
        s!"ok [{join (fs.map (fmtFound base))}] fused={if fused then 1 else 0}"
      | o => outStr (fun _ => "") o
    let spec := Strings.specAll bytes cfg
    let hyp := decide (1 ≤ cfg.minLen ∧ 1 ≤ cfg.minLenNul)
    s!"{ans} ## spec=[{join (spec.map (fmtFoundSpec base))}] hyp={if hyp then 1 else 0}"
  | _ => "bad-op"

def fmtBlock (b : Relocs.Block) : String :=
  s!"{b.va}@{ref b.imageRef}+{b.size}/{ref b.wordsRef}"

def fmtPairs (l : List (Nat × Nat)) : String := join (l.map fun p => s!"{p.1}:{p.2}")

/-- the closure the harness folds with: `acc.wrapping_mul(31).wrapping_add(rva as u64 * 16 + ty as u64)` -/
def hashStep (acc rva ty : Nat) : Nat := (acc * 31 + (rva * 16 + ty)) % 18446744073709551616

/-- the directory `data` placed at an address that is `align16` mod 16 -/
def relocsAt (align16 : Nat) (data : Bytes) : String :=
  match Relocs.parse ⟨data, align16⟩ with
  | .ok _ =>
    let bs := Relocs.blocks data
    -- external iteration (block iterator, flattened) …
    let flatIt := Relocs.flat data
    -- … against internal iteration: `for_each` pushing to a vector, `fold` with a hashing closure
    let flatFold := (Relocs.forEach (fun rva ty acc => (rva, ty) :: acc) data []).reverse
    let folded := Relocs.fold hashStep 0 data
    let expect := flatFold.foldl (fun a p => hashStep a p.1 p.2) 0
    let b01 (b : Bool) : String := if b then "1" else "0"
    -- the hypothesis of C14_blocks_partition_dir / C14_flat_eq_spec_dir, decided on the BYTES by the format-side
    -- predicate (not on the blocks the model's iterator found)
    let wf := Relocs.Spec.wellFormedDir data.toList
    s!"ok blocks=[{join (bs.map fmtBlock)}] flat=[{fmtPairs flatIt}] foreach_same={b01 (flatIt == flatFold)} fold_same={b01 (folded == expect)} ## hyp={b01 wf} spec=[{fmtPairs (Relocs.Spec.decodeDir data.toList)}]"
  | o => outStr (fun _ => "") o

/-- relocs_raw <hex>   (buffer placed 4-aligned) -/
def relocsRaw (a : List String) : String :=
  match a with
  | [hx] => relocsAt 4 (unhex hx)
  | _ => "bad-op"

/-- relocs_rawat <align16> <hex> -/
def relocsRawAt (a : List String) : String :=
  match a with
  | [al, hx] => relocsAt (num al % 16) (unhex hx)
  | _ => "bad-op"

def parseHist (s : String) : List (Option Seq.Op) :=
  (s.splitOn ",").map fun h =>
    if h == "next" then some .next
    else if h == "count" then some .count
    else if h == "hint" then some .sizeHint
    else if h == "clone" then some .clone
    else if h.startsWith "nth:" then some (.nth (num (h.drop 4).toString))
    else none

def fmtSeqRes {α : Type} (f : α → String) (r : Seq.Res α) : String :=
  match r with
  | .item none => "None"
  | .item (some b) => f b
  | .num n => s!"{n}"
  | .hint lo hi => s!"{lo}..{match hi with | none => "None" | some h => toString h}"
  | .list l => s!"[{join (l.map f)}]"

/-- relocs_hist <hex> <history>: a call history on the block iterator (model: `Relocs.runOps`)
next to the same history on the plain sequence of the blocks (spec: `Seq.runSeq`) -/
def relocsHist (a : List String) : String :=
  match a with
  | [hx, hist] =>
    let data := unhex hx
    match Relocs.parse ⟨data, 4⟩ with
    | .ok _ =>
      let ops := (parseHist hist).filterMap id
      let ans := Relocs.runOps data 0 ops
      let spec := Seq.runSeq Seq.Hint.unknown (Relocs.blocks data) ops
      -- fused: drain, then two more calls
      let n := (Relocs.blocks data).length
      let tail := Relocs.runOps data 0 (ops ++ List.replicate (n + 1) .next ++ [.next, .next])
      let fused := (tail.drop (ops.length + n + 1)) == [.item none, .item none]
      s!"ok {join (ans.map (fmtSeqRes fmtBlock)) ";"} fused={if fused then 1 else 0} ## spec={join (spec.map (fmtSeqRes fmtBlock)) ";"}"
    | o => outStr (fun _ => "") o
  | _ => "bad-op"

/-- strings_hist <min_length> <min_length_nul> <strict 0|1> <base> <hex> <history>: a call history on
the enumerator (model: `Strings.runOps`) next to the same calls on the list of the qualifying runs
(spec: `Seq.runSeq` over `Strings.specAll`) -/
def stringsHist (a : List String) : String :=
  match a with
  | [ml, mln, st, base, hx, hist] =>
    let cfg : Strings.Config := ⟨num ml, num mln, st == "1"⟩
    let base := num base
    let bytes := unhex hx
    let ops := (parseHist hist).filterMap id
    -- the enumerator object AS WRITTEN (`self.offset: u32`): `runOpsW (nextT …)` (C18_strings_is_seq_u32)
    let run (l : List Seq.Op) : Out (List (Seq.Res Strings.Found)) :=
      Strings.runOpsW (Strings.nextT bytes cfg) (bytes.size + 2) 0 l
    let spec := Seq.runSeq Seq.Hint.unknown (Strings.specAll bytes cfg) ops
    let n := (Strings.itemsFrom bytes cfg 0).length
    let hyp := decide (1 ≤ cfg.minLen ∧ 1 ≤ cfg.minLenNul)
    match run ops, run (ops ++ List.replicate (n + 1) .next ++ [.next, .next]) with
    | .ok ans, .ok tail =>
      let fused := (tail.drop (ops.length + n + 1)) == [.item none, .item none]
      s!"ok {join (ans.map (fmtSeqRes (fmtFound base))) ";"} fused={if fused then 1 else 0} ## spec={join (spec.map (fmtSeqRes (fmtFoundSpec base))) ";"} hyp={if hyp then 1 else 0}"
    | .ok _, o => outStr (fun _ => "") o
    | o, _ => outStr (fun _ => "") o
  | _ => "bad-op"

def parsePairs (s : String) : List (Nat × Nat) :=
  if s == "-" then [] else
  (s.splitOn ",").map fun p =>
    match p.splitOn ":" with
    | [a, b] => (num a, num b)
    | _ => (0, 0)

/-- relocs_build <rva:ty,...> -/
def relocsBuild (a : List String) : String :=
  match a with
  | [ps] =>
    let ps := parsePairs ps
    let out := Relocs.build ps
    let rt := decide (Relocs.flat out = ps)
    let hyp := ps.all (fun p => 1 ≤ p.2 ∧ p.2 ≤ 15 ∧ p.1 < 4294967296)
    s!"ok {hex out} flat=[{fmtPairs (Relocs.flat out)}] ## roundtrip={if rt then 1 else 0} hyp={if hyp then 1 else 0} input=[{fmtPairs ps}]"
  | _ => "bad-op"

/-- fmt_cstr <hex>: Debug and Display of the C string made of the bytes before the first NUL -/
def fmtCStr (a : List String) : String :=
  match a with
  | [hx] =>
    let bytes := ((unhex hx).toList.map (·.toNat)).takeWhile (· ≠ 0)
    let toB (l : List Nat) : Bytes := (l.map UInt8.ofNat).toArray
    s!"ok dbg={hex (toB (CStrFmt.debug bytes))} disp={hex (toB (CStrFmt.display bytes))}"
  | _ => "bad-op"

/-- ptr <32|64> <at|offset|member|text> <address> [<size> <i> | <offset>]: the typed addresses `Ptr<T>` of both
formats (`Pir<T>`, the 32-bit twin in src/pir.rs, is behind the non-default feature `unstable`); the answer is the new address and its Display text -/
def ptrOp (a : List String) : String :=
  let toB (l : List Nat) : Bytes := (l.map UInt8.ofNat).toArray
  let w (k : String) : Option Nat := match k with | "32" => some 32 | "64" => some 64 | _ => none
  let show_ (w : Nat) (o : Out Nat) : String := outStr (fun x => s!"{x} text={hex (toB (PtrT.text w x))}") o
  match a with
  | [k, "at", va, size, i] => match w k with
    | some w => show_ w (PtrT.elemAt w (num va) (num size) (num i))
    | none => "bad-op"
  | [k, "offset", va, off] => match w k with
    | some w => show_ w (.ok (PtrT.offset w (num va) (num off)))
    | none => "bad-op"
  | [k, "member", va, off] => match w k with
    | some w => show_ w (PtrT.member w (num va) (num off))
    | none => "bad-op"
  | [k, "text", va] => match w k with
    | some w => show_ w (.ok (num va))
    | none => "bad-op"
  | _ => "bad-op"

def dispatchPure : Handler := fun _ fam a =>
  match fam with
  | "fmt_cstr" => some (fmtCStr a)
  | "ptr" => some (ptrOp a)
  | "strings" => some (strings a)
  | "strings_hist" => some (stringsHist a)
  | "relocs_raw" => some (relocsRaw a)
  | "relocs_rawat" => some (relocsRawAt a)
  | "relocs_hist" => some (relocsHist a)
  | "relocs_build" => some (relocsBuild a)
  | _ => none

end Pelite.Driver
