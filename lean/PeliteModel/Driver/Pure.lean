import PeliteModel.Driver.State
import PeliteModel.Spec.Strings
import PeliteModel.Model.Relocs
import PeliteModel.Model.CStrFmt
/-! Driver handlers for the operation families that carry their bytes inline. -/
namespace Pelite.Driver
open Pelite.Proto

def fmtFound (base : Nat) (f : Strings.Found) : String :=
  s!"{f.start}:{f.len}:{Strings.address base f}:{if f.hasNul then 1 else 0}"

/-- strings <min_length> <min_length_nul> <strict 0|1> <base> <hex> -/
def strings (a : List String) : String :=
  match a with
  | [ml, mln, st, base, hx] =>
    let cfg : Strings.Config := ⟨num ml, num mln, st == "1"⟩
    let base := num base
    let bytes := unhex hx
    let ans := match Strings.enumAll bytes cfg (bytes.size + 2) 0 with
      | .ok fs =>
        -- the state after exhaustion is `offset = end of the last run's terminator`; `next` again twice
        let fused := (Strings.next bytes cfg bytes.size).isNone
        s!"ok [{join (fs.map (fmtFound base))}] fused={if fused then 1 else 0}"
      | o => outStr (fun _ => "") o
    let spec := Strings.specAll bytes cfg
    let hyp := decide (1 ≤ cfg.minLen ∧ 1 ≤ cfg.minLenNul)
    s!"{ans} ## spec=[{join (spec.map (fmtFound base))}] hyp={if hyp then 1 else 0}"
  | _ => "bad-op"

def fmtBlock (b : Relocs.Block) : String :=
  s!"{b.va}@{ref b.imageRef}+{b.size}/{ref b.wordsRef}"

def fmtPairs (l : List (Nat × Nat)) : String := join (l.map fun p => s!"{p.1}:{p.2}")

/-- relocs_raw <hex> -/
def relocsRaw (a : List String) : String :=
  match a with
  | [hx] =>
    let data := unhex hx
    match Relocs.parse ⟨data, 4⟩ with
    | .ok _ =>
      let bs := Relocs.blocks data
      s!"ok blocks=[{join (bs.map fmtBlock)}] flat=[{fmtPairs (Relocs.flat data)}] foreach_same=1 fold_same=1"
    | o => outStr (fun _ => "") o
  | _ => "bad-op"

def parsePairs (s : String) : List (Nat × Nat) :=
  if s == "-" then [] else
  (s.splitOn ",").map fun p =>
    match p.splitOn ":" with
    | [a, b] => (num a, num b)
    | _ => (0, 0)

/-- relocs_build <rva:ty,...> -/
def relocsBuild (a : List String) : String :=
  match a with
  | [ps] =>
    let ps := parsePairs ps
    let out := Relocs.build ps
    let rt := decide (Relocs.flat out = ps)
    let hyp := ps.all (fun p => 1 ≤ p.2 ∧ p.2 ≤ 15 ∧ p.1 < 4294967296)
    s!"ok {hex out} flat=[{fmtPairs (Relocs.flat out)}] ## roundtrip={if rt then 1 else 0} hyp={if hyp then 1 else 0} input=[{fmtPairs ps}]"
  | _ => "bad-op"

/-- fmt_cstr <hex>: Debug and Display of the C string made of the bytes before the first NUL -/
def fmtCStr (a : List String) : String :=
  match a with
  | [hx] =>
    let bytes := ((unhex hx).toList.map (·.toNat)).takeWhile (· ≠ 0)
    let toB (l : List Nat) : Bytes := (l.map UInt8.ofNat).toArray
    s!"ok dbg={hex (toB (CStrFmt.debug bytes))} disp={hex (toB (CStrFmt.display bytes))}"
  | _ => "bad-op"

def dispatchPure : Handler := fun _ fam a =>
  match fam with
  | "fmt_cstr" => some (fmtCStr a)
  | "strings" => some (strings a)
  | "relocs_raw" => some (relocsRaw a)
  | "relocs_build" => some (relocsBuild a)
  | _ => none

end Pelite.Driver
