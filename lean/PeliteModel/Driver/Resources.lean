import PeliteModel.Driver.Image
import PeliteModel.Model.ResGroup
import PeliteModel.Spec.Resources
/-!
Driver handlers of the `res` family (src/resources/{mod,find,group,art}.rs); mirrors
harness/src/ops_res.rs operation for operation.

    res <k> dump | fsck | fmt | manifest | icons | cursors | version
    res <k> find <path-hex> | fmtdir <path-hex> | fsckdir <path-hex>
    res <k> get <dirpath-hex> <name|->  |  dfind <dirpath-hex> <path-hex>
    res <k> find_resource <type> <name> [<lang>]
    grp_write <k> <group-name> [cursor]
    grp_write_chunk <k> <group-name> [cursor] <n>       (sink accepting at most n bytes per call)
    res_raw <dirVA> <hex section> [<sub> args…]
    res_rawat <a16> <dirVA> <hex section> [<sub> args…]     (section at an address that is a16 mod 16)

names: `i:<id>`, `w:<utf-16 units, 4 hex digits each>`, `s:<utf-8 hex>`.  References are printed
relative to the image buffer (`secOff` = where the section starts in it).
-/
namespace Pelite.Driver.Res
open Pelite.Proto Pelite.Resources

def depthCap : Nat := 6
def countCap : Nat := 400

def digest (b : List UInt8) : String :=
  let h : UInt64 := b.foldl (fun h x => (h ^^^ x.toUInt64) * 0x100000001b3) 0xcbf29ce484222325
  let s := String.ofList (Nat.toDigits 16 h.toNat)
  String.ofList (List.replicate (16 - s.length) '0') ++ s

def hex4 (w : Nat) : String :=
  String.ofList [hexDigit (w / 4096 % 16), hexDigit (w / 256 % 16), hexDigit (w / 16 % 16), hexDigit (w % 16)]
def hexW (ws : List Nat) : String := if ws.isEmpty then "-" else String.join (ws.map hex4)
def unhexW (s : String) : List Nat :=
  if s == "-" || s == "" then [] else
  let rec go : List Char → List Nat
    | a :: b :: c :: d :: rest => (hexVal a * 4096 + hexVal b * 256 + hexVal c * 16 + hexVal d) :: go rest
    | _ => []
  go s.toList

/-- context of one operation: the resources and where the section starts in the image buffer -/
structure Ctx where
  r : Resources
  secOff : Nat

def Ctx.rf (c : Ctx) (x : Ref) : String := s!"{c.secOff + x.off}:{x.len}"

def ferr : FindError → String
  | .pe e => e.name
  | .bad8Path => "Bad8Path"
  | .notFound => "NotFound"
  | .noRootPath => "NoRootPath"
  | .unDataEntry => "UnDataEntry"
  | .unDirectory => "UnDirectory"

def nameS (c : Ctx) (n : Name) (w : Option Ref) : String :=
  match n with
  | .id n => s!"#{n}"
  | .wide ws => s!"w{hexW ws}@{match w with | some w => c.rf w | none => "?"}"
  | .str s => s!"s{hex (s.map UInt8.ofNat).toArray}"

def bytesS (c : Ctx) (o : Out Ref) : String :=
  match o with
  | .ok b => s!"{c.rf b}#{digest (bytesAt c.r.sec b.off b.len)}"
  | .err e => "!" ++ e.name
  | o => outStr (fun _ => "") o

def dirS (c : Ctx) (d : Dir) : String := s!"D@{c.rf d.ref}[{d.named},{d.ids}]"
def dataS (c : Ctx) (d : DataEntry) : String :=
  s!"F@{c.rf d.ref}({bytesS c (d.bytes c.r)},cp={d.codePageOf},size={d.sizeOf})"
def entryS (c : Ctx) : Entry → String
  | .dir d => dirS c d
  | .data d => dataS c d

/-- a `Result<T, FindError>` (inside `Out`) as `ok <v>` / `err <E>`; `sep` is the separator -/
def fresS {α} (sep : String) (f : α → String) (o : Out (FRes α)) : String :=
  match o with
  | .ok (.ok v) => "ok" ++ sep ++ f v
  | .ok (.error e) => "err" ++ sep ++ ferr e
  | .err e => "err" ++ sep ++ e.name
  | .panic s => "panic " ++ s
  | .ub s => "ub " ++ s
  | .diverge => "diverge"

def parseName (s : String) : Option Name :=
  if s.startsWith "i:" then some (.id (num (s.drop 2).toString % 4294967296))
  else if s.startsWith "w:" then some (.wide (unhexW (s.drop 2).toString))
  else if s.startsWith "s:" then
    let b := (unhex (s.drop 2).toString).toList.map UInt8.toNat
    match utf8Chars b with
    | some _ => some (.str b)
    | none => none
  else none

/-! ### dump -/

/-- the answer of an aborted dump (`ub`, `panic`): the whole operation answers that -/
abbrev DumpM := Except String

def entryNameS (c : Ctx) (e : DirEntry) : DumpM String :=
  match e.nameRef c.r, e.getName c.r with
  | .ok w, .ok n => .ok (nameS c n w)
  | .err err, _ => .ok ("!" ++ err.name)
  | _, .err err => .ok ("!" ++ err.name)
  | o, _ => .error (outStr (fun _ => "") o)

def outErr {α} (o : Out α) : String := outStr (fun _ => "") o

mutual
def dumpDir (c : Ctx) : Nat → Dir → Nat → Nat → DumpM (String × Nat)
  | 0, _, _, count => .ok ("", count)
  | fuel+1, d, depth, count =>
    match d.entries c.r, d.namedEntries c.r, d.idEntries c.r with
    | .ok all, .ok named, .ok ids =>
      let split := decide (all.map (·.off) = (named ++ ids).map (·.off))
      match dumpEntries c fuel all depth count with
      | .ok (body, count') => .ok ("{split=" ++ (if split then "1" else "0") ++ ";" ++ body ++ "}", count')
      | .error s => .error s
    | .ok _, .ok _, o => .error (outErr o)
    | .ok _, o, _ => .error (outErr o)
    | o, _, _ => .error (outErr o)
def dumpEntries (c : Ctx) : Nat → List DirEntry → Nat → Nat → DumpM (String × Nat)
  | _, [], _, count => .ok ("", count)
  | fuel, e :: rest, depth, count =>
    if count = 0 then .ok ("~", count) else
    let count := count - 1
    match entryNameS c e with
    | .error s => .error s
    | .ok nm =>
      let head := nm ++ ":"
      let tail : DumpM (String × Nat) :=
        match e.entry c.r with
        | .ok (.dir ch) =>
          if depth + 1 < depthCap then
            match dumpDir c fuel ch (depth + 1) count with
            | .ok (s, count') => .ok (dirS c ch ++ s, count')
            | .error s => .error s
          else .ok (dirS c ch ++ "^", count)
        | .ok (.data de) => .ok (dataS c de, count)
        | .err err => .ok ((if e.isDir then "D" else "F") ++ "!" ++ err.name, count)
        | o => .error (outErr o)
      match tail with
      | .error s => .error s
      | .ok (t, count') =>
        match dumpEntries c fuel rest depth count' with
        | .ok (more, count'') => .ok (head ++ t ++ "," ++ more, count'')
        | .error s => .error s
end

def dump (c : Ctx) : String :=
  match root c.r with
  | .ok d =>
    match dumpDir c (depthCap + 1) d 0 countCap with
    | .ok (s, _) => "ok " ++ dirS c d ++ s
    | .error s => s
  | .err e => "err " ++ e.name
  | o => outErr o

/-! ### text -/

def utf8Of (cs : List Nat) : List UInt8 := (String.ofList (cs.map Char.ofNat)).toUTF8.data.toList

def textS (cs : List Nat) : String :=
  let b := utf8Of cs
  s!"{digest b} lines={(cs.filter (· == 10)).length} len={b.length}"

def unitS (sep : String) : Out Unit → String
  | .ok _ => "ok"
  | .err e => "err" ++ sep ++ e.name
  | o => outErr o

/-! ### groups -/

def imageS (c : Ctx) (g : Group) (e : GroupEntry) : String :=
  let img := match g.image c.r e.nId with
    | .ok (.ok b) => s!"{c.rf b}#{digest (bytesAt c.r.sec b.off b.len)}"
    | .ok (.error err) => "!" ++ ferr err
    | o => outErr o
  s!"{e.nId}:{e.bytesInRes}:{img}"

def groupS (c : Ctx) (g : Group) : String :=
  match g.entries c.r with
  | .ok es =>
    s!"(ty={g.ty},n={g.count},@{c.rf ⟨g.off, 6, 2⟩},es={c.rf ⟨g.off + 6, 14 * g.count, 2⟩},img=[{join ((es.take 8).map (imageS c g)) ";"}])"
  | o => outErr o

/-- the name of a group item needs the reference of its words: recompute it from the entry list -/
def groupsS (c : Ctx) (ty : Nat) : String :=
  match groups c.r ty with
  | .ok items =>
    -- the entries of the group directory, to print the name references
    let es : List DirEntry :=
      match liftE (root c.r) fun d => d.getDir c.r (.id ty) with
      | .ok (.ok gd) => match gd.entries c.r with | .ok es => es | _ => []
      | _ => []
    let strs := (items.zip es).take countCap |>.map fun (it, de) =>
      match it with
      | .ok (n, g) =>
        let w := match de.nameRef c.r with | .ok w => w | _ => none
        s!"{nameS c n w}={groupS c g}"
      | .error e => "!" ++ ferr e
    s!"ok [{join strs}]"
  | o => outErr o

def grpWrite (c : Ctx) (n : Name) (cursor : Bool) : String :=
  match groups c.r (if cursor then RT_GROUP_CURSOR else RT_GROUP_ICON) with
  | .ok items =>
    let oks := (items.take countCap).filterMap fun | .ok p => some p | .error _ => none
    match oks.find? (fun p => p.1.eq n) with
    | some (_, g) =>
      match g.write c.r with
      | .ok bytes => "ok " ++ hex bytes.toArray
      | o => outErr o
    | none => "none"
  | o => outErr o


/-- `write` into a sink that accepts at most `k` bytes per call (`Group.writeChunked`): what the sink holds -/
def grpWriteChunk (c : Ctx) (n : Name) (cursor : Bool) (k : Nat) : String :=
  match groups c.r (if cursor then RT_GROUP_CURSOR else RT_GROUP_ICON) with
  | .ok items =>
    let oks := (items.take countCap).filterMap fun | .ok p => some p | .error _ => none
    match oks.find? (fun p => p.1.eq n) with
    | some (_, g) =>
      match g.writeChunked c.r k with
      | .ok st => if st.failed then "err io" else "ok " ++ hex st.received.toArray
      | o => outErr o
    | none => "none"
  | o => outErr o

/-! ### the specification's answers from the abstract tree (`tree=`)

    node  = F<code page>:<hex content | -> | D<named count>[entry;entry;…]
    entry = <name>=<node> ;  name = i<id> | w<utf-16 units, 4 hex digits each | -> -/

def pathOf (s : String) : List Nat := (unhex s).toList.map UInt8.toNat

def isHexC (c : Char) : Bool := c.isDigit || ('a' ≤ c && c ≤ 'f')

def natOf (cs : List Char) : Nat := cs.foldl (fun a c => a * 10 + (c.toNat - 48)) 0

def bytesOfHex : List Char → List UInt8
  | a :: b :: rest => UInt8.ofNat (hexVal a * 16 + hexVal b) :: bytesOfHex rest
  | _ => []

def wordsOfHex : List Char → List Nat
  | a :: b :: c :: d :: rest => (hexVal a * 4096 + hexVal b * 256 + hexVal c * 16 + hexVal d) :: wordsOfHex rest
  | _ => []

def pName (cs : List Char) : Option (RName × List Char) :=
  match cs with
  | 'i' :: rest => let ds := rest.takeWhile Char.isDigit; some (.id (natOf ds), rest.dropWhile Char.isDigit)
  | 'w' :: '-' :: rest => some (.wide [], rest)
  | 'w' :: rest => let hs := rest.takeWhile isHexC; some (.wide (wordsOfHex hs), rest.dropWhile isHexC)
  | _ => none

mutual
def pNode : Nat → List Char → Option (Node × List Char)
  | 0, _ => none
  | fuel+1, cs =>
    match cs with
    | 'F' :: rest =>
      let ds := rest.takeWhile Char.isDigit
      match rest.dropWhile Char.isDigit with
      | ':' :: '-' :: rest' => some (.data [] (natOf ds), rest')
      | ':' :: rest' => let hs := rest'.takeWhile isHexC; some (.data (bytesOfHex hs) (natOf ds), rest'.dropWhile isHexC)
      | _ => none
    | 'D' :: rest =>
      let ds := rest.takeWhile Char.isDigit
      match rest.dropWhile Char.isDigit with
      | '[' :: rest' =>
        match pEntries fuel rest' with
        | some (es, ']' :: rest'') => some (.dir (natOf ds) es, rest'')
        | _ => none
      | _ => none
    | _ => none
def pEntries : Nat → List Char → Option (Entries × List Char)
  | 0, _ => none
  | fuel+1, cs =>
    match cs with
    | ']' :: _ => some (.nil, cs)
    | _ =>
      match pName cs with
      | some (nm, '=' :: rest) =>
        match pNode fuel rest with
        | some (ch, ';' :: rest') =>
          match pEntries fuel rest' with
          | some (more, rest'') => some (.cons nm ch more, rest'')
          | none => none
        | some (ch, rest') => some (.cons nm ch .nil, rest')
        | none => none
      | _ => none
end

def parseTree (s : String) : Option Node :=
  match pNode (s.length + 2) s.toList with
  | some (t, []) => some t
  | _ => none

def sNameS : RName → String
  | .id n => s!"#{n}"
  | .wide ws => s!"w{hexW ws}"

def sDirS (n : Nat) (es : Entries) : String := s!"D[{n},{es.length - n}]"
def sDataS (c : List UInt8) (cp : Nat) : String := s!"F(#{digest c},cp={cp},size={c.length})"
def sNodeS : Node → String
  | .dir n es => sDirS n es
  | .data c cp => sDataS c cp

mutual
def sDumpNode : Node → String
  | .data c cp => sDataS c cp
  | .dir n es => sDirS n es ++ "{split=1;" ++ sDumpEntries es ++ "}"
def sDumpEntries : Entries → String
  | .nil => ""
  | .cons nm ch rest => sNameS nm ++ ":" ++ sDumpNode ch ++ "," ++ sDumpEntries rest
end

def sFres (sep : String) (o : FRes Node) : String :=
  match o with
  | .ok t => "ok" ++ sep ++ sNodeS t
  | .error e => "err" ++ sep ++ ferr e

def sTriple (e : FRes Node) : String :=
  s!"{sFres " " e} data={sFres ":" (e.bind Node.asData)} dir={sFres ":" (e.bind Node.asDir)}"

def sBytes (o : FRes Node) : String :=
  match o with
  | .ok (.data c _) => "ok #" ++ digest c
  | .ok _ => "-"
  | .error e => "err " ++ ferr e

-- the tree printer on the abstract tree: one line per entry, margins of the enclosing levels
mutual
def sDrawNode (isRoot : Bool) (depth margin : Nat) : Node → List Nat
  | .data .. => []
  | .dir _ es => sDrawEntries isRoot depth margin es
def sDrawEntries (isRoot : Bool) (depth margin : Nat) : Entries → List Nat
  | .nil => []
  | .cons nm ch rest =>
    let tail := match rest with | .nil => true | _ => false
    let name := (nm.toName.renameId (if isRoot then rsrcTypes else [])).display
    marginText depth margin ++ (if tail then asc "`-- " else asc "+-- ") ++ name ++
      (if ch.isDir then [47, 10] else [10]) ++
      sDrawNode false (depth + 1) (margin ||| (if tail then 2 ^ depth else 0)) ch ++
      sDrawEntries isRoot depth margin rest
end

/-- `icons()` / `cursors()` from the abstract tree (`Node.groups`, `parseGroup`, `Node.groupImage`),
in the format of `groupsS` without the references.  Assumes the group data lie at even addresses
(`groupsAligned` is part of `hyp=` for these two operations: that is a property of the layout). -/
def sGroupS (t : Node) (g : GroupSpec) : String :=
  let img := fun (p : Nat × Nat) =>
    let im := match t.groupImage g p.2 with
      | .ok (.data c _) => "#" ++ digest c
      | .ok _ => "?"
      | .error e => "!" ++ ferr e
    s!"{p.2}:{p.1}:{im}"
  s!"(ty={g.kind},n={g.entries.length},,es=,img=[{join ((g.entries.take 8).map img) ";"}])"

def sGroups (t : Node) (ty : Nat) : String :=
  let strs := ((t.groups ty).take countCap).map fun (nm, d) =>
    match d with
    | .error e => "!" ++ ferr e
    | .ok blob =>
      match parseGroup blob with
      | .error e => "!" ++ e.name
      | .ok g => s!"{sNameS nm}={sGroupS t g}"
  s!"ok [{join strs}]"

/-- no item of `icons()` / `cursors()` is `Misaligned`: on a section that represents a tree this says
that every group's data lie at an even address (`C12_groups_on_tree`) -/
def groupsAligned (r : Resources) (ty : Nat) : Bool :=
  match groups r ty with
  | .ok items => items.all fun
    | .error (.pe .misaligned) => false
    | _ => true
  | _ => true

/-- ops whose answer the abstract tree determines; `-` = no claim -/
def specAnswer (t : Node) (a : List String) : String :=
  match a with
  | ["icons"] => sGroups t RT_GROUP_ICON
  | ["cursors"] => sGroups t RT_GROUP_CURSOR
  | ["dump"] => "ok " ++ sDumpNode t
  | ["fsck"] => "ok"              -- "the consistency check succeeds on every well-formed tree"
  | ["fmt"] => "ok " ++ textS (asc "Resources/\n" ++ sDrawNode true 0 0 t)
  | ["find", p] => sTriple (t.find (pathOf p))
  | ["manifest"] => sBytes t.manifest
  | ["version"] => sBytes t.version
  | "find_resource" :: ns =>
    match ns.map parseName with
    | [some ty, some n] => s!"{sBytes (t.findResource ty n)} dir={sFres ":" (t.findResources ty n)}"
    | [some ty, some n, some l] => sBytes (t.findResourceEx ty n l)
    | _ => "-"
  | [sub, p, x] =>
    if sub != "get" && sub != "dfind" then "-" else
    match (t.find (pathOf p)).bind Node.asDir with
    | .error e => "nodir " ++ ferr e
    | .ok d =>
      if sub == "get" then
        if x == "-" then sTriple d.first
        else match parseName x with
          | some q => sTriple (d.get q)
          | none => "-"
      else if sub == "dfind" then sTriple (d.walk (dirPathParts (pathOf x)))
      else "-"
  | _ => "-"

def specPart (c : Ctx) (all : List String) (a : List String) : String :=
  match all.find? (·.startsWith "tree=") with
  | none => ""
  | some tt =>
    match parseTree (tt.drop 5).toString with
    | none => " ## tree=bad"
    | some t =>
      let isTree := decide (IsTree c.r t) && c.r.base % 4 == 0
      let small := decide (t.entryCount ≤ countCap ∧ t.depth ≤ depthCap ∧ t.depth ≤ 32 ∧ t.dirCount ≤ c.r.sec.size / 16)
      let enc := if all.contains "canon=1" then
          (if decide (encodeTree c.r.dirVA t = c.r.sec.toList) then " enc=1" else " enc=0") else ""
      let encodable := decide (Encodable c.r.dirVA t)
      let small := small && (match a with
        | ["icons"] => groupsAligned c.r RT_GROUP_ICON
        | ["cursors"] => groupsAligned c.r RT_GROUP_CURSOR
        | _ => true)
      -- `fsck`: the statement claims success for EVERY well-formed tree, so the hypothesis is `IsTree` alone; the two
      -- limits of the implementation (Thm/C12.lean: C12_fsck_on_tree_exact, C12_fsck_rejects_shared / _deep) are named
      -- in `limit=` so that known-findings.txt can tell them from any other failure
      let isFsck := a == ["fsck"]
      let limit :=
        if !isFsck then "" else
        match decide (t.depth > 32), decide (t.dirCount > c.r.sec.size / 16) with
        | true, true => " limit=depth,budget"
        | true, false => " limit=depth"
        | false, true => " limit=budget"
        | false, false => ""
      -- lookups (C12_find_on_tree, C12_get_on_tree, C12_helpers_on_tree) need nothing but `IsTree`; the caps of the
      -- dump and the limits of the tree printer (`small`) concern `dump` / `fmt` / `icons` / `cursors` only
      let isLookup := match a with
        | "find" :: _ | "get" :: _ | "dfind" :: _ | "find_resource" :: _ | ["manifest"] | ["version"] => true
        | _ => false
      let isDump := a == ["dump"]
      let dumpOk := decide (t.entryCount ≤ countCap ∧ t.depth ≤ depthCap)       -- the caps of the dump on both sides
      let hyp := if isFsck || isLookup then isTree else if isDump then isTree && dumpOk else isTree && small
      s!" ## hyp={if hyp then 1 else 0} istree={if isTree then 1 else 0} encodable={if encodable then 1 else 0}{enc}{limit} spec={specAnswer t a}"

/-! ### dispatch on the sub-command -/


def triple (c : Ctx) (e : Out (FRes Entry)) (d : Out (FRes DataEntry)) (dd : Out (FRes Dir)) : String :=
  s!"{fresS " " (entryS c) e} data={fresS ":" (dataS c) d} dir={fresS ":" (dirS c) dd}"

def refDigest (c : Ctx) (b : Ref) : String := s!"{c.rf b}#{digest (bytesAt c.r.sec b.off b.len)}"

def runModel (c : Ctx) (a : List String) : String :=
  let r := c.r
  match a with
  | [] | ["all"] =>
    s!"fsck={unitS ":" (fsck r)} fmt={match display r with | .ok t => textS t | o => outErr o} dump={dump c}"
  | ["dump"] => dump c
  | ["fsck"] => unitS " " (fsck r)
  | ["fmt"] => outStr textS (display r)
  | ["find", p] =>
    let p := pathOf p
    triple c (find r p) (findData r p) (findDir r p)
  | ["manifest"] => fresS " " (refDigest c) (manifest r)
  | ["icons"] => groupsS c RT_GROUP_ICON
  | ["cursors"] => groupsS c RT_GROUP_CURSOR
  | ["version"] =>
    let vi := match versionInfo r with
      | .ok (.ok _) => "ok"
      | .ok (.error e) => "err:" ++ ferr e
      | o => outErr o
    s!"{fresS " " (refDigest c) (versionBytes r)} vi={vi}"
  | "find_resource" :: ns =>
    match ns.map parseName with
    | [some t, some n] => s!"{fresS " " (refDigest c) (findResource r t n)} dir={fresS ":" (dirS c) (findResources r t n)}"
    | [some t, some n, some l] => fresS " " (refDigest c) (findResourceEx r t n l)
    | _ => "bad-op"
  | "grp_write" :: n :: rest =>
    match parseName n, rest with
    | some n, [] => grpWrite c n false
    | some n, [x] => grpWrite c n (x == "cursor")
    | _, _ => "bad-op"
  -- `grp_write_chunk <name> [cursor] <n>`: `write` into a sink that accepts at most `n ≥ 1` bytes per call
  | "grp_write_chunk" :: n :: rest =>
    match parseName n, rest with
    | some n, [k] => grpWriteChunk c n false (num k)
    | some n, ["cursor", k] => grpWriteChunk c n true (num k)
    | _, _ => "bad-op"
  | sub :: p :: rest =>
    if !(sub == "fmtdir" && rest.length == 0 || sub == "fsckdir" && rest.length == 0 || (sub == "get" || sub == "dfind") && rest.length == 1) then "bad-op" else
    match findDir r (pathOf p) with
    | .ok (.ok d) =>
      match sub, rest with
      | "fmtdir", _ => outStr textS (d.display r)
      | "fsckdir", _ =>
        match d.entries r with
        | .ok es => s!"{unitS " " (d.fsck r)} entries=[{join ((es.take 16).map fun e => match e.fsck r with | .ok _ => "ok" | .err e => e.name | o => outErr o)}]"
        | o => outErr o
      | "dfind", [q] =>
        let q := pathOf q
        triple c (d.find r q) (bindF (d.find r q) asData) (bindF (d.find r q) asDir)
      | _, [n] =>
        if n == "-" then triple c (d.first r) (d.firstData r) (d.firstDir r)
        else match parseName n with
          | some n => triple c (d.get r n) (d.getData r n) (d.getDir r n)
          | none => "bad-op"
      | _, _ => "bad-op"
    | .ok (.error e) => "nodir " ++ ferr e
    | o => outErr o
  | _ => "bad-op"

def run (c : Ctx) (all : List String) : String :=
  let a := all.filter fun x => x != "" && !x.startsWith "want=" && !x.startsWith "tree=" && !x.startsWith "canon=" && !x.startsWith "local="
  runModel c a ++ specPart c all a

end Pelite.Driver.Res

namespace Pelite.Driver
open Pelite.Proto Pelite.Resources

def resOp (img : Option Img) (k : String) (a : List String) : String :=
  withView img k fun v =>
    match ofView v with
    | .ok (r, secOff) => Res.run ⟨r, secOff⟩ a
    | .err e => "err " ++ e.name
    | o => outStr (fun _ => "") o

def dispatchResources : Handler := fun st fam a =>
  match fam, a with
  | "res", k :: sub :: rest => some (resOp st.img k (sub :: rest))
  | "res", _ => some "bad-op"
  | "grp_write", k :: n :: rest => some (resOp st.img k ("grp_write" :: n :: rest))
  | "grp_write", _ => some "bad-op"
  | "grp_write_chunk", k :: n :: rest => some (resOp st.img k ("grp_write_chunk" :: n :: rest))
  | "grp_write_chunk", _ => some "bad-op"
  -- `nameeq <a> <b>`: the public comparisons of `resources::Name` without any image: `a == b` both ways, `a == str`
  -- when b is a Rust string, `a == u32` when b is an id
  | "nameeq", [a, b] =>
    some (match Res.parseName a, Res.parseName b with
      | some x, some y =>
        let b01 (c : Bool) : String := if c then "1" else "0"
        let s := match y with
          | .str t => b01 (x.eqString t)
          | _ => "-"
        let u := match x, y with
          | .id n, .id m => b01 (n == m)
          | _, .id _ => "0"
          | _, _ => "-"
        s!"ok eq={b01 (x.eq y)} rev={b01 (y.eq x)} str={s} u32={u}"
      | _, _ => "bad-op")
  | "nameeq", _ => some "bad-op"
  | "res_raw", va :: hx :: rest => some (Res.run ⟨⟨unhex hx, num va % 4294967296, 4⟩, 0⟩ rest)
  | "res_raw", _ => some "bad-op"
  -- `res_rawat <a16> <dirVA> <hex> …`: `Resources::new` on a slice at an address that is `a16` mod 16 (the public
  -- constructor takes any slice; only `Pe::resources` guarantees 4-alignment — C12_unaligned_section_is_ub_partial)
  | "res_rawat", al :: va :: hx :: rest => some (Res.run ⟨⟨unhex hx, num va % 4294967296, num al % 16⟩, 0⟩ rest)
  | "res_rawat", _ => some "bad-op"
  | _, _ => none

end Pelite.Driver
