import PeliteModel.Driver.Image
import PeliteModel.Spec.Rich
/-! Driver handlers for the Rich header families (C16; `rich_iter` also serves C18).
Mirrors harness/src/ops_rich.rs operation for operation. -/
namespace Pelite.Driver
open Pelite.Proto Pelite.Rich

/-- the fixed minimal PE32 NT headers the harness appends to an inline DOS area -/
def richNtHdr : Bytes := unhex "504500004c010000000000000000000000000000600002010b0100000000000000000000000000000000000000000000000000000000400000100000000200000400000000000000040000000000000000100000000000000000000003000000000010000010000000001000001000000000000000000000"

def richRec (r : Record) : String := s!"{r.product}:{r.build}:{r.count}"
def richRecs (l : List Record) : String := join (l.map richRec)

def richParseRecs (s : String) : List Record :=
  if s == "-" then [] else
  (s.splitOn ",").map fun t =>
    match t.splitOn ":" with
    | [p, b, c] => ⟨num b % 65536, num p % 65536, num c % 4294967296⟩     -- `as u16`, `as u32`
    | _ => ⟨0, 0, 0⟩

def richWordBytes (acc : Bytes) (w : Nat) : Bytes :=
  (((acc.push (UInt8.ofNat (w % 256))).push (UInt8.ofNat (w / 256 % 256))).push (UInt8.ofNat (w / 65536 % 256))).push (UInt8.ofNat (w / 16777216 % 256))

def richWordsBytes (ws : List Nat) : Bytes := ws.foldl richWordBytes #[]

def richEncRes : EncRes → String
  | .tooSmall n => s!"Err:{n}"
  | .done n _ => s!"Ok:{n}"

/-- canonical dump of a parsed structure (same text as `dump` in ops_rich.rs) -/
def richDump (r : RichS) : String :=
  let o : Out String :=
    r.xorKey >>= fun key =>
    r.checksum >>= fun csum =>
    r.records >>= fun it =>
    let list := it.collect
    r.encode list 0 >>= fun need =>
    r.encode list r.image.length >>= fun enc =>
    let same := match enc with
      | .done _ d => decide (d = r.image)
      | _ => false
    .ok s!"img={4 * r.start}:{4 * r.image.length} key={key} csum={csum} n={it.len} recs=[{richRecs list}] need={richEncRes need} enc={richEncRes enc} reenc={if same then 1 else 0}"
  outStr id o

/-- `PeFile::from_bytes` (PE32) then `rich_structure()` -/
def richWith (img : Img) (f : RichS → String) : String :=
  match Pe.fromBytes .pe32 .file img with
  | .ok v =>
    match Rich.ofImage v.img with
    | .ok r => f r
    | o => outStr (fun _ => "") o
  | .err e => "noimg " ++ e.name
  | o => outStr (fun _ => "") o

def richWrap (dos : Bytes) : Img := ⟨dos ++ richNtHdr, 0⟩

/-- the stub with `e_lfanew` set to `4 * total` dwords, followed by `tail` -/
def richStubImage (stub : Bytes) (tail : List Nat) : Bytes :=
  let total := ((stub.size / 4 + tail.length) * 4) % 4294967296
  let s := (((stub.set! 60 (UInt8.ofNat (total % 256))).set! 61 (UInt8.ofNat (total / 256 % 256))).set! 62 (UInt8.ofNat (total / 65536 % 256))).set! 63 (UInt8.ofNat (total / 16777216 % 256))
  s ++ richWordsBytes tail

def richBootstrap (stub : Bytes) : Img :=
  richWrap (richStubImage stub [DANS ^^^ 1, 1, 1, 1, RICH, 1])

def b01 (b : Bool) : String := if b then "1" else "0"

/-- the specification's view of an image: `any` = the DOS area has some well-formed trailer,
`wf` = the answer of the model is one of them and the area is exactly the documented layout of the
returned stub, key and records -/
def richSpecPart (img : Img) : String :=
  let ws := Rich.words img.bytes
  let area := ws.take (ws.getD 15 0 / 4)
  let any := !(Spec.parses area).isEmpty
  let wf := match Rich.tryFrom ws with
    | .ok r =>
      match r.xorKey, r.records with
      | .ok k, .ok it =>
        decide (Spec.WellFormedAt area r.start r.end_ k) &&
        decide (area = Spec.layout r.dosStub k it.collect (area.length - r.end_))
      | _, _ => false
    | _ => false
  s!" ## any={b01 any} wf={b01 wf} hyp=1"

/-- rich <k> -/
def richOp (img : Option Img) (k : String) : String :=
  withView img k fun v =>
    (match Rich.ofImage v.img with
    | .ok r => richDump r
    | o => outStr (fun _ => "") o) ++ richSpecPart v.img

/-- rich_raw <hex> -/
def richRaw (a : List String) : String :=
  match a with
  | [hx] =>
    let img := richWrap (unhex hx)
    richWith img richDump ++ richSpecPart img
  | _ => "bad-op"

def richCodec (a : List String) : String :=
  match a with
  | [key, p, b, c] =>
    let key := num key % 4294967296
    let r : Record := ⟨num b % 65536, num p % 65536, num c % 4294967296⟩
    let e := r.encode key
    let d := Record.decode key e.1 e.2
    let se := Spec.encRecord key r
    s!"ok enc={e.1},{e.2} dec={richRec d} ## spec=enc={se.getD 0 0},{se.getD 1 0},dec={richRec r} hyp=1"
  | _ => "bad-op"

def richDecode (a : List String) : String :=
  match a with
  | [key, w0, w1] =>
    let key := num key % 4294967296
    let w0 := num w0 % 4294967296
    let w1 := num w1 % 4294967296
    let d := Record.decode key w0 w1
    let e := d.encode key
    s!"ok dec={richRec d} enc={e.1},{e.2} ## spec=dec={richRec (Spec.decRecord key w0 w1)},enc={w0},{w1} hyp=1"
  | _ => "bad-op"

def richEncode (a : List String) : String :=
  match a with
  | [sx, rs, dl] =>
    let stub := unhex sx
    if stub.size < 64 || stub.size % 4 != 0 then "bad-op" else
    let records := richParseRecs rs
    let destLen := num dl
    let stubW := Rich.words stub
    let k := Spec.checksum stubW records
    let n := records.length
    -- documented result: Err(len) when the destination is too small, else the header with the checksum as key
    let spec :=
      if destLen < 2 * n + 6 then "Err"
      else "Ok:" ++ hex (richWordsBytes (Spec.layout [] k records (destLen - (2 * n + 6))))
    richWith (richBootstrap stub) (fun r =>
      match r.encode records destLen with
      | .ok (.done t d) => s!"ok Ok:{t} dest={hex (richWordsBytes d)}"
      | .ok (.tooSmall t) => s!"ok Err:{t} dest=untouched"
      | o => outStr (fun _ => "") o)
    ++ s!" ## spec={spec} hyp=1"
  | _ => "bad-op"

/-- rich_rt <stubhex> <records> <pad> -/
def richRt (a : List String) : String :=
  match a with
  | [sx, rs, pd] =>
    let stub := unhex sx
    if stub.size < 64 || stub.size % 4 != 0 then "bad-op" else
    let records := richParseRecs rs
    let pad := num pd
    let n := records.length
    let destLen := n * 2 + 6 + pad
    -- the specification's answer (theorem C16_round_trip_partial)
    let stubW := Rich.words stub
    let k := Spec.checksum stubW records
    let hyp := k != 0 && !Spec.imitates records
    let spec := s!"img={stub.size}:{4 * (2 * n + 6)},key={k},csum={k},n={n},recs=[{richRecs records}],reenc=1"
    let tail := s!" ## spec={spec} hyp={b01 hyp}"
    match Pe.fromBytes .pe32 .file (richBootstrap stub) with
    | .ok v =>
      match Rich.ofImage v.img with
      | .ok r1 =>
        match r1.encode records destLen with
        | .ok (.done _ dest) => richWith (richWrap (richStubImage stub dest)) richDump ++ tail
        | .ok (.tooSmall t) => s!"bootstrap Err:{t}" ++ tail
        | o => outStr (fun _ => "") o ++ tail
      | o => outStr (fun _ => "") o ++ tail
    | .err e => "noimg " ++ e.name ++ tail
    | o => outStr (fun _ => "") o ++ tail
  | _ => "bad-op"

def richParseOp (s : String) : Option Spec.Op :=
  match s with
  | "next" => some .next
  | "next_back" => some .nextBack
  | "len" => some .len
  | "size_hint" => some .sizeHint
  | "count" => some .count
  | "clone" => some .clone
  | _ => if s.startsWith "nth:" then some (.nth (num (s.drop 4).toString)) else none

def richRes : Spec.Res → String
  | .item none => "none"
  | .item (some r) => richRec r
  | .num n => toString n
  | .hint lo hi => s!"{lo}..{hi}"
  | .list l => s!"[{richRecs l}]"

/-- rich_iter <hex> <history> -/
def richIter (a : List String) : String :=
  match a with
  | [hx, hist] =>
    let ops := if hist == "-" then [] else (hist.splitOn ",").filterMap richParseOp
    richWith (richWrap (unhex hx)) fun r =>
      match r.records with
      | .ok it =>
        let spec := join ((Spec.runDeque it.collect ops).map richRes) ";"
        let hyp := it.iter.length % 2 == 0
        outStr (fun rs => join (rs.map richRes) ";") (it.run ops) ++ s!" ## spec={spec} hyp={b01 hyp}"
      | o => outStr (fun _ => "") o
  | _ => "bad-op"

def dispatchRich : Handler := fun st fam a =>
  match fam, a with
  | "rich", [k] => some (richOp st.img k)
  | "rich_raw", a => some (richRaw a)
  | "rich_codec", a => some (richCodec a)
  | "rich_decode", a => some (richDecode a)
  | "rich_encode", a => some (richEncode a)
  | "rich_rt", a => some (richRt a)
  | "rich_iter", a => some (richIter a)
  | _, _ => none

end Pelite.Driver
