import PeliteModel.Driver.Image
import PeliteModel.Spec.Scan
/-! Driver handlers for the pattern interpreter and scanner (C10; C02/C03 of the module).
```
pat_exec   <k> <atoms> <cursor> <nsave>     -> ok <0|1> save=[..]
scan       <k> <atoms> <lo> <hi> <nsave>    -> ok [c{save..};..] range=<start>..<end> hits=<n> more=<0|1>
scan_code  <k> <atoms> <nsave>              -> the same over `matches_code`
finds      <k> <atoms> <lo> <hi> <nsave>    -> ok <0|1> save=[..]
finds_code <k> <atoms> <nsave>
```
`atoms` = comma separated `Atom.show` texts, `-` for the empty pattern; the `c` printed in front of a
match is `save[0]` (`-` when `nsave = 0`): the Rust caller cannot observe the position otherwise. -/
namespace Pelite.Driver
open Pelite.Proto Pelite.Pe Pelite.Pattern Pelite.Exec Pelite.Scan

namespace ScanD
/-- both sides stop after this many reported matches -/
def scanCap : Nat := 64
/-- at most this many reference positions are printed -/
def specCap : Nat := 256

def parseAtoms (s : String) : Option (List Atom) :=
  if s == "-" then some [] else
  (s.splitOn ",").foldr (fun t acc =>
    match acc, Atom.ofString t with
    | some l, some a => if Atom.ok a then some (a :: l) else none
    | _, _ => none) (some [])

def fmtSave (s : Array Nat) : String := "[" ++ join (s.toList.map toString) ++ "]"

def fmtHit (s : Array Nat) : String :=
  (match s[0]? with | some c => toString c | none => "-") ++ "{" ++ join (s.toList.map toString) ++ "}"

def sentinel : Nat := 4294967296

/-- the captures of the execution at `c` alone: slots it does not write print as `_` -/
def fmtSpecHit (v : View) (pat : List Atom) (nsave : Nat) (c : Nat) : String :=
  let caps := match Exec.run (Exec.ofView v) pat c (Array.replicate nsave sentinel) with
    | .ok (_, s) => s
    | _ => #[]
  toString c ++ "{" ++ join (caps.toList.map fun x => if x == sentinel then "_" else toString x) ++ "}"

def b01 (b : Bool) : String := if b then "1" else "0"

def ascending : List Nat → Bool
  | a :: b :: r => a < b && ascending (b :: r)
  | _ => true

def scanOut (v : View) (pat : List Atom) (m0 : MSt) (nsave : Nat) : String :=
  let ans : String × List Nat := match scanAll (next v pat) scanCap m0 (Array.replicate nsave 0) with
    | .ok a =>
      (s!"ok [{join (a.hits.map fun (h : Nat × Array Nat) => fmtHit h.2) ";"}] range={a.m.start}..{a.m.stop} hits={a.m.hits} more={b01 (!a.exhausted)}",
       a.hits.map (fun (h : Nat × Array Nat) => h.1))
    | o => (outStr (fun _ => "") o, [])
  let spec := specMatches v pat m0.start m0.stop
  let hyp := decide (Hyp v pat m0.start m0.stop)
  -- hypu: the same hypotheses with the section table only required to be well formed AFTER sorting it by
  -- VirtualAddress (a file whose table is merely not in address order): outside the completeness theorem
  -- (`C10_scan_complete_needs_SecWF`), inside the property's "any image" — the oracle uses it to recognise
  -- the documented `next_section` limitation as such
  let hypu := pat.all Atom.ok && pat.all noRead && decide (v.b.size < 4294967296) &&
    decide (m0.start < 4294967296) && decide (m0.stop < 4294967296) &&
    (v.kind != .file || decide (SecWF (v.secs.mergeSort (fun a b => a.va ≤ b.va))))
  let sound := ans.2.all (fun c => m0.start ≤ c && c < m0.stop && execOK v pat c) && ascending ans.2
  -- lo0/hi0: the range the `Matches` object was created with (`scan`: the arguments; `scan_code`: `code_range()`),
  -- for the oracle on `range=` / `hits=` (`C10_scan_hits`, `C10_scan_hits_no_overflow`)
  s!"{ans.1} ## spec=[{join ((spec.take specCap).map (fmtSpecHit v pat nsave)) ";"}] specn={spec.length} hyp={b01 hyp} hypu={b01 hypu} pos=[{join (ans.2.map toString)}] sound={b01 sound} lo0={m0.start} hi0={m0.stop}"

/-- the positions `next` can examine at all: inside the range and inside a raw-data slice -/
def scanPositions (v : View) (lo hi : Nat) : List Nat :=
  match v.kind with
  | .view => List.range' lo (min hi v.b.size - lo)
  | .file => v.secs.flatMap fun s =>
      if s.prd + s.rs ≤ v.b.size then List.range' (max lo s.va) (min hi (s.va + s.rs) - max lo s.va) else []

def findsOut (v : View) (pat : List Atom) (m0 : MSt) (nsave : Nat) : String :=
  let ans := match findsWith (next v pat) m0 (Array.replicate nsave 0) with
    | .ok (b, s) => s!"ok {b01 b} save={fmtSave s}"
    | o => outStr (fun _ => "") o
  let spec := specMatches v pat m0.start m0.stop
  let m := (setup pat).length
  -- no successful execution in the grey zone (examined positions that are not candidates)
  let grey := (scanPositions v m0.start m0.stop).any fun c =>
    execOK v pat c && !decide (IsCand v m m0.start m0.stop c)
  let hypw := decide (Hyp v pat m0.start m0.stop)
  let hyp := hypw && !grey
  let caps := match spec with
    | [c] => fmtSpecHit v pat nsave c
    | _ => "-"
  -- the model's exhaustive scan from the same initial state (C10_finds_iff_one_reported):
  -- nrep = number of matches it reports, rcaps = the save array recorded with the only one
  let (nrep, rcaps) := match scanAll (next v pat) (m0.stop - m0.start + 2) m0 (Array.replicate nsave 0) with
    | .ok a => (toString a.hits.length, match a.hits with | [h] => fmtSave h.2 | _ => "-")
    | _ => ("-", "-")
  -- nr: the pattern does not read the save array (hypothesis of C10_finds_iff_one_reported)
  let nr := pat.all noRead && pat.all Atom.ok
  -- hyp: hypotheses of C10_finds_iff_unique_partial; hypw: those of the (false) literal statement
  s!"{ans} ## nrep={nrep} rcaps={rcaps} nr={b01 nr} spec={b01 (spec.length == 1)} caps={caps} specn={spec.length} hyp={b01 hyp} hypw={b01 hypw}"

def patExecOut (v : View) (pat : List Atom) (cursor nsave : Nat) : String :=
  match Exec.run (Exec.ofView v) pat cursor (Array.replicate nsave 0) with
  | .ok (b, s) => s!"ok {b01 b} save={fmtSave s}"
  | o => outStr (fun _ => "") o

end ScanD
open ScanD

def dispatchScan : Handler := fun st fam a =>
  match fam, a with
  | "pat_exec", [k, atoms, cursor, nsave] => some <|
    match parseAtoms atoms with
    | none => "bad-op"
    | some pat => withView st.img k fun v => patExecOut v pat (num cursor) (num nsave)
  | "scan", [k, atoms, lo, hi, nsave] => some <|
    match parseAtoms atoms with
    | none => "bad-op"
    | some pat => withView st.img k fun v => scanOut v pat (matchesInit (num lo) (num hi)) (num nsave)
  | "scan_code", [k, atoms, nsave] => some <|
    match parseAtoms atoms with
    | none => "bad-op"
    | some pat => withView st.img k fun v => scanOut v pat (matchesCodeInit v) (num nsave)
  | "finds", [k, atoms, lo, hi, nsave] => some <|
    match parseAtoms atoms with
    | none => "bad-op"
    | some pat => withView st.img k fun v => findsOut v pat (matchesInit (num lo) (num hi)) (num nsave)
  | "finds_code", [k, atoms, nsave] => some <|
    match parseAtoms atoms with
    | none => "bad-op"
    | some pat => withView st.img k fun v => findsOut v pat (matchesCodeInit v) (num nsave)
  | _, _ => none

end Pelite.Driver
