import PeliteModel.Prim.Proto
/-! Driver state shared by all handler modules. -/
namespace Pelite.Driver
structure St where
  img : Option Img := none
/-- a handler module: `none` = family not mine -/
abbrev Handler := St → String → List String → Option String
end Pelite.Driver
