import PeliteModel.Driver.Image
import PeliteModel.Model.Typed
import PeliteModel.Model.PeChecked
/-! Driver handlers for the typed read family (C05); they run the CHECKED variants
(`Model/PeChecked.lean`), proved equal to the unchecked model in `Thm/C02Arith.lean`. -/
namespace Pelite.Driver
open Pelite.Proto Pelite.Pe

def tySize (t : String) : Nat :=
  match t with
  | "u8" => 1 | "u16" => 2 | "u32" => 4 | "u64" => 8
  | "dd" => 8 | "sh" => 40 | "b16" => 16          -- IMAGE_DATA_DIRECTORY, IMAGE_SECTION_HEADER, [u8; 16]
  | _ => 0

/-- `align_of::<T>()`: differs from the size for the struct element types -/
def tyAlign (t : String) : Nat :=
  match t with
  | "dd" => 4 | "sh" => 4 | "b16" => 1
  | t => tySize t

def isStructTy (t : String) : Bool := t == "dd" || t == "sh" || t == "b16"

def bytesOut (o : Out (List UInt8)) : String := outStr (fun l => hex l.toArray) o

/-- the callable of `derva_slice_f` / `deref_slice_f`, as `stop i x` = the answer of call `i` (0-based), made
on element `i` of value `x`: `ge:<x>` is the stateless `|e| *e >= x`; `count:<n>` is a STATEFUL `FnMut`
that counts its calls and answers `true` on the `n`-th one whatever the element (never for `n = 0`);
`predGe` / `predCount` are the two as model predicates (witnesses in Thm/C05SliceF.lean).
The `Bool` says whether the predicate looks at the element value (not offered for the struct types). -/
def predGe (x : Nat) : Nat → Nat → Bool := fun _ v => decide (x ≤ v)
def predCount (n : Nat) : Nat → Nat → Bool := fun i _ => i + 1 == n

def parsePred (p : String) : Option (Bool × (Nat → Nat → Bool)) :=
  match p.splitOn ":" with
  | ["ge", x] => some (true, predGe (num x))
  | ["count", n] => some (false, predCount (num n))
  | _ => none

/-- families: derva derva_copy derva_into derva_slice derva_slice_s derva_slice_f derva_cstr and deref… twins.
`x` is an rva for `derva*` and a va for `deref*`. -/
def typedOp (img : Option Img) (fam : String) (a : List String) : Option String :=
  let isVa := fam.startsWith "deref"
  let base := if isVa then (fam.drop 5).toString else (fam.drop 5).toString
  let mk (x : String) : Addr := if isVa then .va (num x) else .rva (num x)
  match base, a with
  | "", [k, t, x] => some (withView img k fun v =>
      match v.dervaChk (mk x) (tySize t) (tyAlign t) with
      | .ok r => if isStructTy t then s!"ok {ref r}" else s!"ok {ref r} val={leN v.b r.off (tySize t)}"
      | o => refOut o)
  | "_copy", [k, t, x] => some (withView img k fun v =>
      -- a composite type (size > alignment) is copied as its `size_of` bytes: `slice(rva, size_of, 1)` + `read_unaligned`,
      -- which is what `derva_into` of that many bytes copies
      if isStructTy t then bytesOut (v.dervaIntoChk (mk x) (tySize t)) else natOut (v.dervaCopyChk (mk x) (tySize t)))
  | "_into", [k, len, x] => some (withView img k fun v => bytesOut (v.dervaIntoChk (mk x) (num len)))
  | "_slice", [k, t, x, len] => some (withView img k fun v => refOut (v.dervaSliceChk (mk x) (tySize t) (tyAlign t) (num len)))
  | "_slice_s", [k, t, x, s] => some (withView img k fun v => refOut (v.dervaSliceSChk (mk x) (tySize t) (tySize t) (num s)))
  | "_slice_f", [k, t, x, p] =>
      match parsePred p with
      | some (usesValue, stop) =>
        if tySize t = 0 || (usesValue && isStructTy t) then some "bad-op"
        else some (withView img k fun v => refOut (v.dervaSliceFIChk (mk x) (tySize t) (tyAlign t) stop))
      | none => some "bad-op"
  | "_cstr", [k, x] => some (withView img k fun v => refOut (v.dervaCStrChk (mk x)))
  | _, _ => none

def dispatchTyped : Handler := fun st fam a =>
  if fam.startsWith "derva" || fam.startsWith "deref" then typedOp st.img fam a else none

end Pelite.Driver
