import PeliteModel.Driver.Image
import PeliteModel.Model.Typed
import PeliteModel.Model.PeChecked
/-! Driver handlers for the typed read family (C05); they run the CHECKED variants
(`Model/PeChecked.lean`), proved equal to the unchecked model in `Thm/C02Arith.lean`. -/
namespace Pelite.Driver
open Pelite.Proto Pelite.Pe

def tySize (t : String) : Nat :=
  match t with
  | "u8" => 1 | "u16" => 2 | "u32" => 4 | "u64" => 8
  | "dd" => 8 | "sh" => 40 | "b16" => 16          -- IMAGE_DATA_DIRECTORY, IMAGE_SECTION_HEADER, [u8; 16]
  | _ => 0

/-- `align_of::<T>()`: differs from the size for the struct element types -/
def tyAlign (t : String) : Nat :=
  match t with
  | "dd" => 4 | "sh" => 4 | "b16" => 1
  | t => tySize t

def isStructTy (t : String) : Bool := t == "dd" || t == "sh" || t == "b16"

def bytesOut (o : Out (List UInt8)) : String := outStr (fun l => hex l.toArray) o

/-- families: derva derva_copy derva_into derva_slice derva_slice_s derva_cstr and deref… twins.
`x` is an rva for `derva*` and a va for `deref*`. -/
def typedOp (img : Option Img) (fam : String) (a : List String) : Option String :=
  let isVa := fam.startsWith "deref"
  let base := if isVa then (fam.drop 5).toString else (fam.drop 5).toString
  let mk (x : String) : Addr := if isVa then .va (num x) else .rva (num x)
  match base, a with
  | "", [k, t, x] => some (withView img k fun v =>
      match v.dervaChk (mk x) (tySize t) (tyAlign t) with
      | .ok r => if isStructTy t then s!"ok {ref r}" else s!"ok {ref r} val={leN v.b r.off (tySize t)}"
      | o => refOut o)
  | "_copy", [k, t, x] => some (withView img k fun v => natOut (v.dervaCopyChk (mk x) (tySize t)))
  | "_into", [k, len, x] => some (withView img k fun v => bytesOut (v.dervaIntoChk (mk x) (num len)))
  | "_slice", [k, t, x, len] => some (withView img k fun v => refOut (v.dervaSliceChk (mk x) (tySize t) (tyAlign t) (num len)))
  | "_slice_s", [k, t, x, s] => some (withView img k fun v => refOut (v.dervaSliceSChk (mk x) (tySize t) (tySize t) (num s)))
  | "_cstr", [k, x] => some (withView img k fun v => refOut (v.dervaCStrChk (mk x)))
  | _, _ => none

def dispatchTyped : Handler := fun st fam a =>
  if fam.startsWith "derva" || fam.startsWith "deref" then typedOp st.img fam a else none

end Pelite.Driver
