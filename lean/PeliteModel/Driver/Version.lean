import PeliteModel.Driver.State
import PeliteModel.Model.Version
import PeliteModel.Spec.Version
/-!
Driver handlers of the `ver` family (src/resources/version_info.rs).

    ver <hex of the block bytes> <query> [args] [tree=<abstract tree>]
    verat <align16> <hex> <query> [args]            -- block placed at an address that is align16 mod 16

queries: events | events_skip <n> | events_skip2 <fmask> <tmask> | fixed | translation
       | value <LLLLCCCC> <key: utf-16 units, 4 hex digits each> | strings <LLLLCCCC> | file_info | source | langparse

`events_skip2 <fmask> <tmask>`: a user visitor that records every callback and DECLINES (returns
`false` from) the i-th `file_info` callback iff bit i of `fmask` is set, and the j-th `string_table`
callback iff bit j of `tmask` is set (i, j count the callbacks of that kind from 0, declined ones
included; bits ≥ 64 are not set).  A declined callback is recorded, its subtree (scope, tables, strings,
vars) is not visited.

Canonical text: a slice is `<byte offset>:<byte length>=<words, 4 hex digits each | ->`, a Rust
`String` is the hex of its UTF-8 bytes (`-` when empty).  With `tree=` the driver also runs the
specification: `enc=1` iff the reference writer produces exactly the block, `lay=1` iff the block is
a documented layout of the tree (`Spec.VInfo.isBlockB`; `tree=L/…` marks blocks of a writer that makes
the layout choices at random, `tree=B/…` blocks in which some `String` stores its value length in
bytes: not a documented layout unless all of those have no value), `spec=` the answer derived from the
abstract content, `hyp=1` iff the block and the tree meet the hypotheses of the query's theorem
(Thm/C13Queries.lean; for `source`: Thm/C13Source.lean `C13_layout_source`, no side condition).
-/
namespace Pelite.Driver.Ver
open Pelite.Proto Pelite.Version

def hex4 (w : Nat) : String :=
  String.ofList [hexDigit (w / 4096 % 16), hexDigit (w / 256 % 16), hexDigit (w / 16 % 16), hexDigit (w % 16)]

def hexW (ws : List Nat) : String := if ws.isEmpty then "-" else String.join (ws.map hex4)

def unhexW (s : String) : List Nat :=
  if s == "-" || s == "" then [] else
  let cs := s.toList
  let rec go : List Char → List Nat
    | a :: b :: c :: d :: rest => (hexVal a * 4096 + hexVal b * 256 + hexVal c * 16 + hexVal d) :: go rest
    | _ => []
  go cs

def refS (s : Sl) : String := s!"{2 * s.off}:{2 * s.len}"
def slS (s : Sl) : String := s!"{refS s}={hexW s.ws}"

def utf8 (s : Str) : String := hex (String.ofList (s.map Char.ofNat)).toUTF8.data

def evS : Event → String
  | .versionInfo k f => s!"V({slS k},{match f with | some f => refS f | none => "none"})"
  | .fileInfo k => s!"F({slS k})"
  | .stringTable k => s!"T({slS k})"
  | .string k v => s!"S({slS k},{slS v})"
  | .var k v => s!"R({slS k},{slS v})"
  | .enter d => "{" ++ toString d
  | .exit d => "}" ++ toString d

def sevS : Spec.SEvent → String
  | .versionInfo k f => s!"V({hexW k},{match f with | some _ => "fixed" | none => "none"})"
  | .fileInfo k => s!"F({hexW k})"
  | .stringTable k => s!"T({hexW k})"
  | .string k v => s!"S({hexW k},{hexW v})"
  | .var k v => s!"R({hexW k},{hexW v})"
  | .enter d => "{" ++ toString d
  | .exit d => "}" ++ toString d

def langS (l : Language) : String := s!"{l.langId}:{l.charsetId}"

/-- `&[Language]` as reference + contents; `none` = the static empty slice -/
def langsS : Option Sl → String
  | none => "static[]"
  | some v => s!"{2 * v.off}:{v.len / 2 * 4}[{join ((langsOf v.ws).map langS)}]"

def kvS (p : Str × Str) : String := s!"{utf8 p.1}={utf8 p.2}"

def strLe (a b : Str) : Bool := decide (a ≤ b)

def sortKv (l : List (Str × Str)) : List (Str × Str) := l.mergeSort (fun a b => strLe a.1 b.1)

def langLe (a b : Language) : Bool := a.langId < b.langId || (a.langId == b.langId && a.charsetId ≤ b.charsetId)

def langKeyS (l : Language) : String := hex4 l.langId ++ hex4 l.charsetId

def mapS (m : List (Language × List (Str × Str))) : String :=
  let m := m.mergeSort (fun a b => langLe a.1 b.1)
  "{" ++ join (m.map fun e => s!"{langKeyS e.1}:[{join ((sortKv e.2).map kvS)}]") ";" ++ "}"

def parseLang (s : String) : Language :=
  let n := hexNum s
  ⟨n / 65536 % 65536, n % 65536⟩

/-! ### abstract tree:  <tight 0|1, or L = layout choices made by the generator>/<root key>/<root value>/<block>|<block>…
block = S<table>;<table>… | R<var>;<var>… ; table = <lang>:<str>,<str>… ; str, var = <key>=<value> -/

def splitNE (s : String) (sep : String) : List String := (s.splitOn sep).filter (· != "")

def parseKv (s : String) : List Nat × List Nat :=
  match s.splitOn "=" with
  | [k, v] => (unhexW k, unhexW v)
  | _ => ([], [])

def parseTable (s : String) : Spec.VTable :=
  match s.splitOn ":" with
  | [l, ss] => ⟨unhexW l, (splitNE ss ",").map fun x => let p := parseKv x; ⟨p.1, p.2⟩⟩
  | _ => ⟨[], []⟩

def parseBlock (s : String) : Spec.VBlock :=
  if s.startsWith "S" then .stringInfo ((splitNE (s.drop 1).toString ";").map parseTable)
  else .varInfo ((splitNE (s.drop 1).toString ";").map fun x => let p := parseKv x; ⟨p.1, p.2⟩)

def parseTree (s : String) : Option (Bool × Spec.VInfo) :=
  match s.splitOn "/" with
  | [t, k, v, bs] => some (t == "1", ⟨unhexW k, unhexW v, (splitNE bs "|").map parseBlock⟩)
  | _ => none

def langPair (l : Language) : Nat × Nat := (l.langId, l.charsetId)

/-- the specification's answer: the definitions of Spec/Version.lean over the abstract content
(`Spec.fixedInfoOf`, `translationsOf`, `stringsOf`, `valueOf`, `stringMapsOf`; Thm/C13Queries.lean
proves that the model's queries answer exactly these on the written block) -/
def specAnswer (v : Spec.VInfo) (q : List String) : String :=
  match q with
  | ["events"] => join (v.events.map sevS) ";"
  | ["fixed"] => match Spec.fixedInfoOf v with | some f => hexW f | none => "none"
  | ["translation"] => "[" ++ join ((Spec.translationsOf v).map fun p => s!"{p.1}:{p.2}") ++ "]"
  | ["value", l, k] =>
    match Spec.valueOf v (langPair (parseLang l)) (Spec.text (unhexW k)) with
    | some s => utf8 s
    | none => "none"
  | ["strings", l] => "[" ++ join ((Spec.stringsOf v (langPair (parseLang l))).map kvS) ++ "]"
  | ["file_info"] => mapS ((Spec.stringMapsOf v).map fun e => (⟨e.1.1, e.1.2⟩, e.2))
  | ["source"] => utf8 (Spec.sourceOf v)
  | _ => "-"

/-- the side conditions of the query's round-trip theorem (Thm/C13Queries.lean) -/
def queryHyp (v : Spec.VInfo) (q : List String) : Bool :=
  match q with
  | "strings" :: _ => v.langKeysOk
  | "value" :: _ => v.langKeysOk && v.keysValid
  | ["file_info"] => v.langKeysOk && v.langsDistinct && v.keysDistinct
  | _ => true

def specPart (ws : List Nat) (tree : Option String) (q : List String) : String :=
  match tree with
  | none => ""
  | some t =>
    match parseTree t with
    | none => " ## tree=bad"
    | some (tight, v) =>
      -- enc: the block is exactly what the reference writer produces (tree=0/.. or tree=1/..)
      let enc := decide (v.encode tight = ws)
      -- lay: the block is a documented layout of the tree under some per-structure choices
      -- (Spec.VInfo.isBlockB, sound for Spec.VInfo.IsBlock; tree=L/.. comes from a writer that chooses at random)
      let lay := v.isBlockB ws
      let hyp := ((v.wf && enc) || lay) && queryHyp v q
      s!" ## enc={if enc then 1 else 0} lay={if lay then 1 else 0} hyp={if hyp then 1 else 0} wf={if v.wf then 1 else 0} fits={if v.fits tight then 1 else 0} spec={specAnswer v q}"

/-- a user visitor that records everything and declines the first `n` roots (`version_info` returns
`false`): exercises the `continue` of the root loop -/
def recorderSkip : Visitor (List Event × Nat) where
  versionInfo s k f :=
    match s.2 with
    | 0 => ((s.1 ++ [.versionInfo k f], 0), true)
    | n + 1 => ((s.1 ++ [.versionInfo k f], n), false)
  fileInfo s k := ((s.1 ++ [.fileInfo k], s.2), true)
  stringTable s k := ((s.1 ++ [.stringTable k], s.2), true)
  string s k v := (s.1 ++ [.string k v], s.2)
  var s k v := (s.1 ++ [.var k v], s.2)
  enterScope s d := (s.1 ++ [.enter d], s.2)
  exitScope s d := (s.1 ++ [.exit d], s.2)

def answer (words : Sl) (q : List String) : String :=
  match q with
  | ["events"] => outStr (fun es => join (es.map evS) ";") (events words)
  | ["events_skip", n] => outStr (fun r => join (r.1.map evS) ";") (visit recorderSkip words ([], num n))
  | ["events_skip2", fm, tm] =>
    outStr (fun r => join (r.1.map evS) ";") (visit (recorderSkip2 (num fm) (num tm)) words ([], 0, 0))
  | ["fixed"] => outStr (fun | some f => slS f | none => "none") (fixed words)
  | ["translation"] => outStr langsS (translation words)
  | ["value", l, k] => outStr (fun | some s => utf8 s | none => "none") (value words (parseLang l) (lossy (unhexW k)))
  | ["strings", l] => outStr (fun l => "[" ++ join (l.map kvS) ++ "]") (strings words (parseLang l))
  | ["file_info"] =>
    outStr (fun fi => s!"fixed={match fi.fixed with | some f => refS f | none => "none"} langs={langsS fi.langs} strings={mapS fi.strings}")
      (fileInfo words)
  | ["source"] => outStr utf8 (sourceCode words)
  | ["langparse"] => match Language.parse words.ws with | some l => "ok " ++ langS l | none => "err"
  | _ => "bad-op"

def run (base : Nat) (hx : String) (rest : List String) : String :=
  let (tree, q) := match rest.partition (·.startsWith "tree=") with
    | (t :: _, q) => (some (t.drop 5).toString, q)
    | ([], q) => (none, q)
  match tryFrom base (unhex hx) with
  | .ok words => answer words q ++ specPart words.ws tree q
  | o => outStr (fun _ => "") o

end Pelite.Driver.Ver

namespace Pelite.Driver
def dispatchVersion : Handler := fun _ fam a =>
  match fam, a with
  | "ver", hx :: rest => some (Ver.run 4 hx rest)
  | "verat", al :: hx :: rest => some (Ver.run (Proto.num al) hx rest)
  | "ver", _ => some "bad-op"
  | "verat", _ => some "bad-op"
  | _, _ => none
end Pelite.Driver
