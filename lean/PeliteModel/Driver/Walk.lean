import PeliteModel.Driver.Image
/-! `walk <k>`: the implementation exercises its whole API; the model only says whether the
constructor accepts the image (outcome class `ok` / `noimg`), which is all that is compared. -/
namespace Pelite.Driver
def dispatchWalk : Handler := fun st fam a =>
  match fam, a with
  | "walk", [k] => some (withView st.img k fun _ => "ok")
  -- `iter <k> <source> <history>`: the implementation runs the history beside a VecDeque (in-harness oracle)
  | "iter", [k, _, _] => some (withView st.img k fun _ => "ok")
  | _, _ => none
end Pelite.Driver
