import PeliteModel.Driver.Image
/-! `walk <k>`: the implementation exercises its whole API; the model only says whether the
constructor accepts the image (outcome class `ok` / `noimg`), which is all that is compared.
For `k = wf | wv` the constructor is the format-agnostic one (`wrapFromBytes`): the implementation
walks the wrapper API there, and class C19 compares its item stream with the walk of the
format-specific view the wrapper selected (implementation against implementation). -/
namespace Pelite.Driver
def dispatchWalk : Handler := fun st fam a =>
  match fam, a with
  | "walk", [k] => some (withView st.img k fun _ => "ok")
  -- `walktext <k>`: the wrapper-API item stream itself (diagnosis of a digest difference)
  | "walktext", [k] => some (withView st.img k fun _ => "ok")
  -- `iter <k> <source> <history> [want_n=<n>]`: the implementation runs the history beside a VecDeque
  -- (in-harness oracle); trailing tokens are the generator's expectation, read by the Python side
  | "iter", k :: _ :: _ :: _ => some (withView st.img k fun _ => "ok")
  | _, _ => none
end Pelite.Driver
