import PeliteModel.Spec.Convert
import PeliteModel.Thm.C07
/-! Helper lemmas for C06. -/
namespace Pelite.Pe
end Pelite.Pe
