import PeliteModel.Spec.Convert
import PeliteModel.Thm.C07
import PeliteModel.Thm.C04
/-! Helper lemmas for C06: algebra of `blit`, the section-copy step shared by `to_view` and
`to_file`, the fold over the section table, the initial (zero filled + headers) vector. -/
namespace Pelite.Pe

/-! ### `byteAt` through `getElem?` -/

theorem byteAt_eq (b : Bytes) (i : Nat) : byteAt b i = (b[i]?.getD 0).toNat := by
  unfold byteAt; rw [Array.getD_eq_getD_getElem?]

theorem byteAt_replicate_zero (n i : Nat) : byteAt (Array.replicate n (0 : UInt8)) i = 0 := by
  rw [byteAt_eq, Array.getElem?_replicate]
  split <;> rfl

/-! ### `blit` -/

theorem blit_size (dst src : Bytes) (doff soff len : Nat) (hd : doff + len ≤ dst.size)
    (hs : soff + len ≤ src.size) : (blit dst doff src soff len).size = dst.size := by
  unfold blit
  simp only [Array.size_append, Array.size_extract]
  omega

theorem blit_getElem? (dst src : Bytes) (doff soff len : Nat) (hd : doff + len ≤ dst.size)
    (hs : soff + len ≤ src.size) (i : Nat) :
    (blit dst doff src soff len)[i]? =
      if doff ≤ i ∧ i < doff + len then src[soff + (i - doff)]? else dst[i]? := by
  unfold blit
  simp only [Array.getElem?_append, Array.size_append, Array.size_extract, Array.getElem?_extract]
  have e1 : min doff dst.size - 0 = doff := by omega
  have e2 : min (soff + len) src.size - soff = len := by omega
  have e3 : min dst.size dst.size - (doff + len) = dst.size - (doff + len) := by omega
  rw [e1, e2, e3]
  by_cases h1 : i < doff
  · have a1 : i < doff + len := by omega
    have a2 : ¬ (doff ≤ i ∧ i < doff + len) := by omega
    rw [if_neg a2]
    simp only [a1, h1, if_true, Nat.zero_add]
  · by_cases h2 : i < doff + len
    · have a2 : (doff ≤ i ∧ i < doff + len) := by omega
      have a3 : i - doff < len := by omega
      rw [if_pos a2]
      simp only [h1, h2, a3, if_true, if_false]
    · have a2 : ¬ (doff ≤ i ∧ i < doff + len) := by omega
      rw [if_neg a2]
      simp only [h2, if_false]
      by_cases h3 : i < dst.size
      · have a4 : i - (doff + len) < dst.size - (doff + len) := by omega
        rw [if_pos a4]; congr 1; omega
      · have a4 : ¬ i - (doff + len) < dst.size - (doff + len) := by omega
        rw [if_neg a4]; simp; omega

/-- bytes of the copied window come from the source … -/
theorem byteAt_blit_in (dst src : Bytes) (doff soff len : Nat) (hd : doff + len ≤ dst.size)
    (hs : soff + len ≤ src.size) (j : Nat) (hj : j < len) :
    byteAt (blit dst doff src soff len) (doff + j) = byteAt src (soff + j) := by
  rw [byteAt_eq, byteAt_eq, blit_getElem? dst src doff soff len hd hs, if_pos (by omega)]
  have : doff + j - doff = j := by omega
  rw [this]

/-- … every other byte is the destination's. -/
theorem byteAt_blit_out (dst src : Bytes) (doff soff len : Nat) (hd : doff + len ≤ dst.size)
    (hs : soff + len ≤ src.size) (i : Nat) (hi : i < doff ∨ doff + len ≤ i) :
    byteAt (blit dst doff src soff len) i = byteAt dst i := by
  rw [byteAt_eq, byteAt_eq, blit_getElem? dst src doff soff len hd hs, if_neg (by omega)]

/-! ### the section-copy step, generic in which pair is the destination -/

/-- how the end of the destination range is obtained from the wrapped end `e` and the vector
length `n`: as is (`to_view`) or clamped to the vector (`to_file`) -/
def endExact (e _n : Nat) : Nat := e
def endClamp (e n : Nat) : Nat := min e n

theorem endExact_le (e n : Nat) : endExact e n ≤ e := Nat.le_refl _
theorem endClamp_le (e n : Nat) : endClamp e n ≤ e := Nat.min_le_left _ _

/-- `dest = vec.get_mut(d .. E(d.wrapping_add(dl), vec.len()))`,
`src = image.get(so .. so.wrapping_add(sl))`, copy the common prefix when both exist. -/
def cstep (E : Nat → Nat → Nat) (image vec : Bytes) (d dl so sl : Nat) : Bytes :=
  let dend := E (wadd32 d dl) vec.size
  let send := wadd32 so sl
  if d ≤ dend ∧ dend ≤ vec.size ∧ so ≤ send ∧ send ≤ image.size then
    blit vec d image so (min (dend - d) (send - so))
  else vec

theorem toViewStep_eq (image vec : Bytes) (s : Sec) :
    toViewStep image vec s = cstep endExact image vec s.va s.vs s.prd s.rs := rfl
theorem toFileStep_eq (image vec : Bytes) (s : Sec) :
    toFileStep image vec s = cstep endClamp image vec s.prd s.rs s.va s.vs := rfl

theorem cstep_size (E : Nat → Nat → Nat) (image vec : Bytes) (d dl so sl : Nat) :
    (cstep E image vec d dl so sl).size = vec.size := by
  unfold cstep
  dsimp only
  split
  · rw [blit_size] <;> omega
  · rfl

/-- the step never touches a byte outside `[d, d + min dl sl)` (whether or not it copies) -/
theorem cstep_out (E : Nat → Nat → Nat) (hE : ∀ e n, E e n ≤ e) (image vec : Bytes)
    (d dl so sl : Nat) (i : Nat) (hi : i < d ∨ d + min dl sl ≤ i) :
    byteAt (cstep E image vec d dl so sl) i = byteAt vec i := by
  unfold cstep
  dsimp only
  split
  · rename_i hg
    have h0 := hE (wadd32 d dl) vec.size
    have h1 : wadd32 d dl ≤ d + dl := Nat.mod_le _ _
    have h2 : wadd32 so sl ≤ so + sl := Nat.mod_le _ _
    rw [byteAt_blit_out] <;> omega
  · rfl

/-- when neither range wraps, the source is inside the image and the (possibly clamped)
destination is inside the vector, the common prefix is copied -/
theorem cstep_in (E : Nat → Nat → Nat) (image vec : Bytes) (d dl so sl : Nat)
    (hd : d + dl < 4294967296) (hs : so + sl < 4294967296) (hsi : so + sl ≤ image.size)
    (hE1 : E (d + dl) vec.size ≤ vec.size) (hE2 : d ≤ E (d + dl) vec.size)
    (j : Nat) (hj : j < min (E (d + dl) vec.size - d) sl) :
    byteAt (cstep E image vec d dl so sl) (d + j) = byteAt image (so + j) := by
  unfold cstep
  dsimp only
  have h1 : wadd32 d dl = d + dl := Nat.mod_eq_of_lt hd
  have h2 : wadd32 so sl = so + sl := Nat.mod_eq_of_lt hs
  rw [h1, h2, if_pos (by omega)]
  rw [byteAt_blit_in] <;> omega

/-! ### folding the step over the section table -/

section fold
variable (E : Nat → Nat → Nat) (image : Bytes) (D DL S SL : Sec → Nat)

/-- the loop, for projections `D DL` (destination start / length) and `S SL` (source) -/
def cfold (secs : List Sec) (vec : Bytes) : Bytes :=
  secs.foldl (fun vec s => cstep E image vec (D s) (DL s) (S s) (SL s)) vec

theorem cfold_nil (vec : Bytes) : cfold E image D DL S SL [] vec = vec := rfl
theorem cfold_cons (s : Sec) (rest : List Sec) (vec : Bytes) :
    cfold E image D DL S SL (s :: rest) vec =
      cfold E image D DL S SL rest (cstep E image vec (D s) (DL s) (S s) (SL s)) := rfl

theorem cfold_size (secs : List Sec) (vec : Bytes) :
    (cfold E image D DL S SL secs vec).size = vec.size := by
  induction secs generalizing vec with
  | nil => rfl
  | cons s rest ih => rw [cfold_cons, ih, cstep_size]

theorem cfold_out (hE : ∀ e n, E e n ≤ e) (secs : List Sec) (vec : Bytes) (i : Nat)
    (h : ∀ s ∈ secs, i < D s ∨ D s + min (DL s) (SL s) ≤ i) :
    byteAt (cfold E image D DL S SL secs vec) i = byteAt vec i := by
  induction secs generalizing vec with
  | nil => rfl
  | cons s rest ih =>
    rw [cfold_cons, ih _ (fun t ht => h t (List.mem_cons_of_mem _ ht)),
      cstep_out E hE _ _ _ _ _ _ _ (h s List.mem_cons_self)]

theorem cfold_in (hE : ∀ e n, E e n ≤ e) (secs : List Sec) (vec : Bytes) (s : Sec) (hs : s ∈ secs)
    (hp : secs.Pairwise (fun a b => D a + DL a ≤ D b ∨ D b + DL b ≤ D a))
    (hd : D s + DL s < 4294967296) (hso : S s + SL s < 4294967296) (hsi : S s + SL s ≤ image.size)
    (hE1 : E (D s + DL s) vec.size ≤ vec.size) (hE2 : D s ≤ E (D s + DL s) vec.size)
    (j : Nat) (hj : j < min (E (D s + DL s) vec.size - D s) (SL s)) :
    byteAt (cfold E image D DL S SL secs vec) (D s + j) = byteAt image (S s + j) := by
  induction secs generalizing vec with
  | nil => cases hs
  | cons t rest ih =>
    rw [cfold_cons]
    obtain ⟨hhead, htail⟩ := List.pairwise_cons.1 hp
    rcases List.mem_cons.1 hs with rfl | hmem
    · rw [cfold_out E image D DL S SL hE]
      · exact cstep_in E image vec _ _ _ _ hd hso hsi hE1 hE2 j hj
      · intro u hu
        have := hhead u hu
        have := hE (D s + DL s) vec.size
        omega
    · exact ih _ hmem htail (by rw [cstep_size]; exact hE1) (by rw [cstep_size]; exact hE2)
        (by rw [cstep_size]; exact hj)

end fold

/-- `to_view` flavour: the whole destination range must fit the vector -/
theorem cfold_in_exact (image : Bytes) (D DL S SL : Sec → Nat) (secs : List Sec) (vec : Bytes)
    (s : Sec) (hs : s ∈ secs)
    (hp : secs.Pairwise (fun a b => D a + DL a ≤ D b ∨ D b + DL b ≤ D a))
    (hd : D s + DL s < 4294967296) (hso : S s + SL s < 4294967296)
    (hdv : D s + DL s ≤ vec.size) (hsi : S s + SL s ≤ image.size)
    (j : Nat) (hj : j < min (DL s) (SL s)) :
    byteAt (cfold endExact image D DL S SL secs vec) (D s + j) = byteAt image (S s + j) := by
  apply cfold_in endExact image D DL S SL endExact_le secs vec s hs hp hd hso hsi
  · exact hdv
  · show D s ≤ D s + DL s
    omega
  · show j < min (D s + DL s - D s) (SL s)
    omega

/-- `to_file` flavour: only the byte in question must fit the (clamped) vector -/
theorem cfold_in_clamp (image : Bytes) (D DL S SL : Sec → Nat) (secs : List Sec) (vec : Bytes)
    (s : Sec) (hs : s ∈ secs)
    (hp : secs.Pairwise (fun a b => D a + DL a ≤ D b ∨ D b + DL b ≤ D a))
    (hd : D s + DL s < 4294967296) (hso : S s + SL s < 4294967296)
    (hsi : S s + SL s ≤ image.size)
    (j : Nat) (hj : j < min (DL s) (SL s)) (hjv : D s + j < vec.size) :
    byteAt (cfold endClamp image D DL S SL secs vec) (D s + j) = byteAt image (S s + j) := by
  apply cfold_in endClamp image D DL S SL endClamp_le secs vec s hs hp hd hso hsi
  · exact Nat.min_le_right _ _
  · show D s ≤ min (D s + DL s) vec.size
    omega
  · show j < min (min (D s + DL s) vec.size - D s) (SL s)
    omega

theorem toView_fold (image : Bytes) (secs : List Sec) (vec : Bytes) :
    secs.foldl (toViewStep image) vec = cfold endExact image Sec.va Sec.vs Sec.prd Sec.rs secs vec := rfl
theorem toFile_fold (image : Bytes) (secs : List Sec) (vec : Bytes) :
    secs.foldl (toFileStep image) vec = cfold endClamp image Sec.prd Sec.rs Sec.va Sec.vs secs vec := rfl

/-! ### the initial vector: zero filled, then the headers -/

def initVec (n : Nat) (b : Bytes) (soh : Nat) : Bytes := blit (Array.replicate n 0) 0 b 0 soh

theorem initVec_size (n : Nat) (b : Bytes) (soh : Nat) (h1 : soh ≤ n) (h2 : soh ≤ b.size) :
    (initVec n b soh).size = n := by
  unfold initVec
  rw [blit_size] <;> simp <;> omega

theorem initVec_hdr (n : Nat) (b : Bytes) (soh : Nat) (h1 : soh ≤ n) (h2 : soh ≤ b.size)
    (i : Nat) (hi : i < soh) : byteAt (initVec n b soh) i = byteAt b i := by
  unfold initVec
  have := byteAt_blit_in (Array.replicate n 0) b 0 0 soh (by simp; omega) (by omega) i hi
  simpa using this

theorem initVec_zero (n : Nat) (b : Bytes) (soh : Nat) (h1 : soh ≤ n) (h2 : soh ≤ b.size)
    (i : Nat) (hi : soh ≤ i) : byteAt (initVec n b soh) i = 0 := by
  unfold initVec
  rw [byteAt_blit_out _ _ _ _ _ (by simp; omega) (by omega) _ (by omega), byteAt_replicate_zero]

theorem toView_eq (v : View) :
    v.toView = cfold endExact v.b Sec.va Sec.vs Sec.prd Sec.rs v.secs
      (initVec (sizeOfImage v.b) v.b (sizeOfHeaders v.b)) := rfl
theorem toFile_eq (v : View) :
    v.toFile = cfold endClamp v.b Sec.prd Sec.rs Sec.va Sec.vs v.secs
      (initVec v.fileSize v.b (sizeOfHeaders v.b)) := rfl

/-- what the constructor established about the two header sizes -/
theorem accept_soh {f : Fmt} {k : Kind} {img : Img} {v : View} (hv : fromBytes f k img = .ok v) :
    sizeOfHeaders v.b ≤ v.b.size ∧ sizeOfHeaders v.b ≤ sizeOfImage v.b := by
  obtain ⟨ha, rfl⟩ := (fromBytes_ok_iff _ _ _ _).1 hv
  unfold Accept at ha
  dsimp only at ha
  exact ⟨ha.2.2.2.2.2.2.2.2.1, ha.2.2.2.2.2.2.2.2.2.1⟩

theorem foldl_max_ge (secs : List Sec) (g : Sec → Nat) (m : Nat) :
    m ≤ secs.foldl (fun m s => max m (g s)) m := by
  induction secs generalizing m with
  | nil => exact Nat.le_refl _
  | cons s rest ih => exact Nat.le_trans (Nat.le_max_left _ _) (ih _)

theorem soh_le_fileSize {f : Fmt} {k : Kind} {img : Img} {v : View} (hv : fromBytes f k img = .ok v) :
    sizeOfHeaders v.b ≤ v.fileSize := by
  unfold View.fileSize
  have := foldl_max_ge v.secs (fun s => wadd32 s.prd s.rs) (sizeOfHeaders v.b)
  have := (accept_soh hv).2
  omega

theorem foldl_max_mem (secs : List Sec) (g : Sec → Nat) (m : Nat) (s : Sec) (hs : s ∈ secs) :
    g s ≤ secs.foldl (fun m s => max m (g s)) m := by
  induction secs generalizing m with
  | nil => cases hs
  | cons t rest ih =>
    rcases List.mem_cons.1 hs with rfl | hmem
    · exact Nat.le_trans (Nat.le_max_right _ _) (foldl_max_ge rest g _)
    · exact ih _ hmem

/-! ### two buffers with the same first `n` bytes have the same headers -/

/-- the first `n` bytes agree -/
def HdrAgree (n : Nat) (a b : Bytes) : Prop := ∀ i, i < n → byteAt a i = byteAt b i

theorem HdrAgree.le16 {n : Nat} {a b : Bytes} (h : HdrAgree n a b) (o : Nat) (ho : o + 2 ≤ n) :
    le16 a o = le16 b o := by
  unfold Pelite.le16
  rw [h o (by omega), h (o + 1) (by omega)]

theorem HdrAgree.le32 {n : Nat} {a b : Bytes} (h : HdrAgree n a b) (o : Nat) (ho : o + 4 ≤ n) :
    le32 a o = le32 b o := by
  unfold Pelite.le32
  rw [h o (by omega), h (o + 1) (by omega), h (o + 2) (by omega), h (o + 3) (by omega)]

theorem HdrAgree.secAt {n : Nat} {a b : Bytes} (h : HdrAgree n a b) (o : Nat) (ho : o + 40 ≤ n) :
    secAt a o = secAt b o := by
  unfold Pelite.Pe.secAt
  rw [h.le32 o (by omega), h.le32 (o + 4) (by omega), h.le32 (o + 8) (by omega),
    h.le32 (o + 12) (by omega), h.le32 (o + 16) (by omega), h.le32 (o + 20) (by omega),
    h.le32 (o + 36) (by omega)]

/-- Every header quantity the conversions use is read below `n` once the NT headers and the
declared section table end below `n` (in `b`). -/
theorem HdrAgree.fields {n : Nat} {a b : Bytes} (h : HdrAgree n a b)
    (hnt : eLfanew b + 120 ≤ n) (hst : secTable b + 40 * numberOfSections b ≤ n) :
    sizeOfHeaders a = sizeOfHeaders b ∧ sizeOfImage a = sizeOfImage b ∧ sections a = sections b := by
  have e0 : eLfanew a = eLfanew b := h.le32 60 (by omega)
  have e1 : numberOfSections a = numberOfSections b := by
    unfold numberOfSections; rw [e0]; exact h.le16 _ (by omega)
  have e2 : sizeOfOptionalHeader a = sizeOfOptionalHeader b := by
    unfold sizeOfOptionalHeader; rw [e0]; exact h.le16 _ (by omega)
  have e3 : optOff a = optOff b := by unfold optOff; rw [e0]
  have e4 : secTable a = secTable b := by unfold secTable; rw [e2, e3]
  refine ⟨?_, ?_, ?_⟩
  · unfold sizeOfHeaders; rw [e3]; unfold optOff; exact h.le32 _ (by omega)
  · unfold sizeOfImage; rw [e3]; unfold optOff; exact h.le32 _ (by omega)
  · unfold sections
    rw [e1, e4]
    apply List.map_congr_left
    intro i hi
    have := List.mem_range.1 hi
    exact h.secAt _ (by omega)

/-- A buffer whose first `n` bytes are those of an accepted image `b` and that is at least `n` long
is accepted too, provided the NT headers, the declared data directories and the declared section
table of `b` end below `n` (so that validation reads only agreeing bytes). -/
theorem HdrAgree.accept {n : Nat} {a b : Bytes} (h : HdrAgree n a b) (f : Fmt) (basea baseb : Nat)
    (hb : Accept f ⟨b, baseb⟩) (hbase : basea % 4 = 0) (hna : n ≤ a.size)
    (hdd : ntEnd f b + 8 * numDataDirs f b ≤ n) (hst : secTable b + 40 * numberOfSections b ≤ n)
    (hsoh : sizeOfHeaders b ≤ n) :
    Accept f ⟨a, basea⟩ := by
  have hf : 120 ≤ f.ntSize ∧ f.offNumRva + 28 = f.ntSize := by cases f <;> decide
  unfold ntEnd numDataDirs at hdd
  have e0 : eLfanew a = eLfanew b := h.le32 60 (by omega)
  have e1 : numberOfSections a = numberOfSections b := by
    unfold numberOfSections; rw [e0]; exact h.le16 _ (by omega)
  have e2 : sizeOfOptionalHeader a = sizeOfOptionalHeader b := by
    unfold sizeOfOptionalHeader; rw [e0]; exact h.le16 _ (by omega)
  have e3 : optOff a = optOff b := by unfold optOff; rw [e0]
  have e5 : sizeOfHeaders a = sizeOfHeaders b := by
    unfold sizeOfHeaders; rw [e3]; unfold optOff; exact h.le32 _ (by omega)
  have e6 : sizeOfImage a = sizeOfImage b := by
    unfold sizeOfImage; rw [e3]; unfold optOff; exact h.le32 _ (by omega)
  have e7 : optMagic a = optMagic b := by
    unfold optMagic; rw [e3]; unfold optOff; exact h.le16 _ (by omega)
  have e8 : numberOfRvaAndSizes f a = numberOfRvaAndSizes f b := by
    unfold numberOfRvaAndSizes; rw [e3]; unfold optOff; exact h.le32 _ (by omega)
  have e9 : Pelite.le16 a 0 = Pelite.le16 b 0 := h.le16 0 (by omega)
  have e10 : Pelite.le32 a (eLfanew b) = Pelite.le32 b (eLfanew b) := h.le32 _ (by omega)
  unfold secTable optOff at hst
  unfold Accept at hb ⊢
  dsimp only at hb ⊢
  rw [e0, e1, e2, e5, e6, e7, e8, e9, e10]
  obtain ⟨b1, b2, b3, b4, b5, b6, b7, b8, b9, b10, b11, b12, b13, b14⟩ := hb
  refine ⟨by omega, hbase, b3, b4, b5, by omega, b7, b8, by omega, b10, by omega, b12, by omega, b14⟩

/-! ### a minimal concrete PE32 file (non-vacuity examples, formerly failing input of the round trip) -/

private def z (n : Nat) : Bytes := Array.replicate n 0

/-- A 226-byte PE32 file: e_lfanew = 64, no data directories, one section, SizeOfHeaders = 224,
SizeOfImage = `soi`; the section has VirtualAddress = 224, VirtualSize = `vs`,
PointerToRawData = 224, SizeOfRawData = 2 (raw bytes `aa bb`).  (`vs`, `soi` < 256.) -/
def tinyPe (vs soi : Nat) : Bytes :=
  #[77, 90] ++ z 58 ++ #[64, 0, 0, 0] ++                              -- "MZ", e_lfanew
  #[80, 69, 0, 0, 0, 0, 1, 0] ++ z 12 ++ #[96, 0, 0, 0] ++            -- "PE", NumberOfSections, SizeOfOptionalHeader
  #[11, 1] ++ z 54 ++ #[soi.toUInt8, 0, 0, 0, 224, 0, 0, 0] ++ z 32 ++   -- magic, SizeOfImage, SizeOfHeaders, NumberOfRvaAndSizes = 0
  z 8 ++ #[vs.toUInt8, 0, 0, 0, 224, 0, 0, 0, 2, 0, 0, 0, 224, 0, 0, 0] ++ z 16 ++   -- section header
  #[170, 187]                                                          -- raw data

def tinyView (vs soi : Nat) : View :=
  ⟨⟨tinyPe vs soi, 0⟩, .pe32, .file, imageBaseField .pe32 (tinyPe vs soi)⟩

theorem tinyView_ok (vs soi : Nat) (h : Accept .pe32 ⟨tinyPe vs soi, 0⟩) :
    fromBytes .pe32 .file ⟨tinyPe vs soi, 0⟩ = .ok (tinyView vs soi) :=
  (fromBytes_ok_iff _ _ _ _).2 ⟨h, by unfold tinyView; with_reducible rfl⟩

end Pelite.Pe
