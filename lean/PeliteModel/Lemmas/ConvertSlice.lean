import PeliteModel.Thm.C06
import PeliteModel.Thm.C05
/-! Helper lemmas for the slice-level statements of C06 (Thm/C06Slice.lean): what a successful
`slice` on a file view says about the converted buffer; completeness of the NUL search and of the
sentinel loop (so that a scan can be moved between two buffers that agree on the scanned bytes). -/
namespace Pelite.Pe

/-! ### moving a scan between buffers -/

/-- completeness of the NUL search: the first NUL of the window is found -/
theorem findNul_finds_first {b : Bytes} {off : Nat} :
    ∀ (n i k : Nat), i ≤ k → k < i + n → byteAt b (off + k) = 0 →
      (∀ j, i ≤ j → j < k → byteAt b (off + j) ≠ 0) → findNul b off n i = some k := by
  intro n
  induction n with
  | zero => intro i k h1 h2; omega
  | succ n ih =>
    intro i k h1 h2 h3 h4
    unfold findNul
    by_cases hz : byteAt b (off + i) = 0
    · rw [if_pos hz]
      by_cases hik : i = k
      · rw [hik]
      · exact absurd hz (h4 i (Nat.le_refl _) (by omega))
    · rw [if_neg hz]
      have hik : i ≠ k := by intro e; rw [e] at hz; exact hz h3
      exact ih (i + 1) k (by omega) (by omega) h3 (fun j hj1 hj2 => h4 j (by omega) hj2)

/-- a C string found in one buffer is found, with the same length, in every window of another
buffer that starts with the same bytes and is long enough to hold it -/
theorem cstr_transfer {b b' : Bytes} {off off' len : Nat} {c : Ref}
    (h : cstrFromBytes b off len = some c)
    (hb : ∀ i, i < c.len → byteAt b' (off' + i) = byteAt b (off + i)) :
    cstrFromBytes b' off' c.len = some ⟨off', c.len, 1⟩ ∧ c.off = off ∧ 1 ≤ c.len ∧ c.len ≤ len := by
  unfold cstrFromBytes at h
  cases hf : findNul b off len 0 with
  | none => rw [hf] at h; cases h
  | some k =>
    rw [hf] at h
    cases h
    obtain ⟨-, h2, h3, h4⟩ := findNul_some _ _ _ hf
    refine ⟨?_, rfl, by simp, by simp; omega⟩
    unfold cstrFromBytes
    show (match findNul b' off' (k + 1) 0 with
      | some n => some (⟨off', n + 1, 1⟩ : Ref) | none => none) = _
    rw [findNul_finds_first (b := b') (off := off') (k + 1) 0 k (Nat.zero_le _) (by omega)
      (by rw [hb k (by simp)]; exact h3)
      (fun j _ hj => by rw [hb j (by simp; omega)]; exact h4 j (Nat.zero_le _) hj)]

theorem leN_same_bytes {b b' : Bytes} {o o' size : Nat}
    (h : ∀ i, i < size → byteAt b' (o' + i) = byteAt b (o + i)) : leN b' o' size = leN b o size := by
  unfold leN
  split
  · exact h 0 (by omega)
  · have h0 := h 0 (by omega); have h1 := h 1 (by omega)
    simp only [le16]
    rw [show o' = o' + 0 from rfl, show o = o + 0 from rfl, h0]
    exact congrArg _ (congrArg _ h1)
  · have h0 := h 0 (by omega); have h1 := h 1 (by omega); have h2 := h 2 (by omega); have h3 := h 3 (by omega)
    simp only [Nat.add_zero] at h0
    simp only [le32, h0, h1, h2, h3]
  · have h0 := h 0 (by omega); have h1 := h 1 (by omega); have h2 := h 2 (by omega); have h3 := h 3 (by omega)
    have h4 := h 4 (by omega); have h5 := h 5 (by omega); have h6 := h 6 (by omega); have h7 := h 7 (by omega)
    simp only [Nat.add_zero] at h0
    simp only [le64, le32, Nat.add_assoc, Nat.reduceAdd, h0, h1, h2, h3, h4, h5, h6, h7]
  · rfl

/-- completeness of the sentinel loop: the first stopping element is found when the window holds it
and the fuel reaches it -/
theorem sliceFLoop_finds_first {b : Bytes} {off blen size : Nat} {stop : Nat → Bool} :
    ∀ (fuel len n : Nat), len ≤ n → n + 1 ≤ fuel + len → (n + 1) * size ≤ blen →
      stop (leN b (off + n * size) size) = true →
      (∀ j, len ≤ j → j < n → stop (leN b (off + j * size) size) = false) →
      sliceFLoop b off blen size stop fuel len = .ok n := by
  intro fuel
  induction fuel with
  | zero => intro len n h1 h2; omega
  | succ fuel ih =>
    intro len n h1 h2 h3 h4 h5
    rw [sliceFLoop_succ]
    have hm : (len + 1) * size ≤ (n + 1) * size := Nat.mul_le_mul_right _ (by omega)
    rw [Nat.succ_mul] at hm
    rw [if_neg (by omega)]
    by_cases hln : len = n
    · rw [hln, if_pos h4]
    · have := h5 len (Nat.le_refl _) (by omega)
      rw [if_neg (by simp [this])]
      exact ih (len + 1) n (by omega) (by omega) h3 h4 (fun j hj1 hj2 => h5 j (by omega) hj2)

/-- a sentinel scan that succeeds in one buffer gives the same element count in the minimal window
of another buffer that holds the same bytes -/
theorem sentinel_transfer {b b' : Bytes} {off off' blen size fuel n : Nat} {stop : Nat → Bool}
    (h : sliceFLoop b off blen size stop fuel 0 = .ok n)
    (hb : ∀ i, i < (n + 1) * size → byteAt b' (off' + i) = byteAt b (off + i)) :
    sliceFLoop b' off' ((n + 1) * size) size stop (n + 1) 0 = .ok n ∧ (n + 1) * size ≤ blen := by
  obtain ⟨-, h2, h3, h4⟩ := sliceFLoop_ok _ _ _ h
  have hcong : ∀ j, j ≤ n → leN b' (off' + j * size) size = leN b (off + j * size) size := by
    intro j hj
    apply leN_same_bytes
    intro i hi
    have hm : (j + 1) * size ≤ (n + 1) * size := Nat.mul_le_mul_right _ (by omega)
    rw [Nat.succ_mul] at hm
    have := hb (j * size + i) (by omega)
    rw [← Nat.add_assoc, ← Nat.add_assoc] at this
    exact this
  refine ⟨?_, h2⟩
  apply sliceFLoop_finds_first (n + 1) 0 n (Nat.zero_le _) (by omega) (Nat.le_refl _)
  · rw [hcong n (Nat.le_refl _)]; exact h3
  · intro j _ hj
    rw [hcong j (by omega)]
    exact h4 j (Nat.zero_le _) hj

/-! ### a successful `slice` on the file, seen from the converted buffer -/

/-- For an accepted, `Loadable` file `v` and a view `w` constructed over `v.toView`: a successful
`v.slice rva min a` names the first section containing `rva`, returns that section's raw data from the
mapped offset on, and every byte of it that is also mapped sits at its rva in the converted buffer. -/
theorem file_slice_window {f : Fmt} {img : Img} {v : View} (hv : fromBytes f .file img = .ok v)
    (hl : Loadable v) {base : Nat} {w : View} (hw : fromBytes f .view ⟨v.toView, base⟩ = .ok w)
    {rva min a : Nat} (hr : rva < 4294967296) {r : Ref} (hslice : v.slice rva min a = .ok r) :
    ∃ s, firstV v.secs rva = some s ∧ s ∈ v.secs ∧ s.va ≤ rva ∧ rva - s.va < s.rs ∧
      min ≤ s.rs - (rva - s.va) ∧ r = ⟨s.prd + (rva - s.va), s.rs - (rva - s.va), a⟩ ∧
      isPow2 a = true ∧ rva ≠ 0 ∧
      w.img = ⟨v.toView, base⟩ ∧ w.kind = .view ∧ w.b.size = sizeOfImage v.b ∧
      s.va + s.vs ≤ sizeOfImage v.b ∧
      ∀ i, rva - s.va + i < Nat.min s.vs s.rs → byteAt w.b (rva + i) = byteAt v.b (r.off + i) := by
  have hk : v.kind = .file := by rw [((fromBytes_ok_iff _ _ _ _).1 hv).2]
  have hsl : sliceFile v.img v.secs rva min a = .ok r := by
    unfold View.slice at hslice
    rw [hk] at hslice
    exact hslice
  obtain ⟨h0, hp, _, s, hf, _, _, h3, h4, _, rfl⟩ :=
    (C04_slice_file_ok_iff v.img v.secs (sections_in_range v.b) rva min a hr r).1 hsl
  obtain ⟨hmem, hc⟩ := firstV_some hf
  have hva := (containsRva_nowrap (sections_in_range v.b s hmem) hc).1
  have hwe : w = ⟨⟨v.toView, base⟩, f, .view, imageBaseField f v.toView⟩ := ((fromBytes_ok_iff _ _ _ _).1 hw).2
  have hwb : w.b = v.toView := by rw [hwe]; rfl
  refine ⟨s, hf, hmem, hva, h3, h4, rfl, hp, h0, by rw [hwe], by rw [hwe],
    by rw [hwb]; exact C06_to_view_size f img v hv, (hl.1 s hmem).2.2.1, ?_⟩
  intro i hi
  have := C06_to_view_section f img v hv hl s hmem (rva - s.va + i) hi
  rw [hwb]
  show byteAt v.toView (rva + i) = byteAt v.b (s.prd + (rva - s.va) + i)
  rw [show rva + i = s.va + (rva - s.va + i) by omega, this]
  congr 1
  omega

end Pelite.Pe
