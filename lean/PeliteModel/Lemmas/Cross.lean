import PeliteModel.Thm.C04
import PeliteModel.Thm.C05
import PeliteModel.Thm.C07
import PeliteModel.Thm.C14
import PeliteModel.Thm.C20
import PeliteModel.Model.Convert
/-! Helper lemmas for the cross-cutting properties C01 / C02 / C03. -/
namespace Pelite

/-- an outcome that is a value or an error: no panic, no unchecked out-of-bounds access, no hang -/
def Out.Clean {α} (o : Out α) : Prop := (∃ a, o = .ok a) ∨ (∃ e, o = .err e)

theorem Out.clean_ok {α} (a : α) : (Out.ok a).Clean := .inl ⟨a, rfl⟩
theorem Out.clean_err {α} (e : Err) : (Out.err e : Out α).Clean := .inr ⟨e, rfl⟩

theorem Out.Clean.ne_panic {α} {o : Out α} (h : o.Clean) (s : String) : o ≠ .panic s := by
  rcases h with ⟨a, rfl⟩ | ⟨e, rfl⟩ <;> intro h <;> cases h
theorem Out.Clean.ne_ub {α} {o : Out α} (h : o.Clean) (s : String) : o ≠ .ub s := by
  rcases h with ⟨a, rfl⟩ | ⟨e, rfl⟩ <;> intro h <;> cases h
theorem Out.Clean.ne_diverge {α} {o : Out α} (h : o.Clean) : o ≠ .diverge := by
  rcases h with ⟨a, rfl⟩ | ⟨e, rfl⟩ <;> intro h <;> cases h

theorem Out.clean_ite {α} {c : Prop} [Decidable c] {x y : Out α} (hx : x.Clean) (hy : y.Clean) :
    (if c then x else y).Clean := by
  split
  · exact hx
  · exact hy

namespace Pe

/-! ### the section loops -/

theorem r2fSecs_clean (secs : List Sec) (rva : Nat) : (r2fSecs secs rva).Clean := by
  induction secs with
  | nil => exact Out.clean_err _
  | cons s rest ih =>
    unfold r2fSecs
    dsimp only
    refine Out.clean_ite ?_ ih
    refine Out.clean_ite (Out.clean_err _) ?_
    refine Out.clean_ite (Out.clean_ok _) ?_
    exact Out.clean_ite (Out.clean_err _) (Out.clean_err _)

theorem f2rSecs_clean (secs : List Sec) (fo : Nat) : (f2rSecs secs fo).Clean := by
  induction secs with
  | nil => exact Out.clean_err _
  | cons s rest ih =>
    unfold f2rSecs
    dsimp only
    refine Out.clean_ite ?_ ih
    refine Out.clean_ite (Out.clean_err _) ?_
    refine Out.clean_ite (Out.clean_ok _) ?_
    exact Out.clean_ite (Out.clean_err _) (Out.clean_err _)

theorem rangeFile_clean (size : Nat) (secs : List Sec) (rva min : Nat) :
    (rangeFile size secs rva min).Clean := by
  induction secs with
  | nil => exact Out.clean_err _
  | cons s rest ih =>
    unfold rangeFile
    dsimp only
    refine Out.clean_ite ?_ ih
    refine Out.clean_ite ?_ (Out.clean_err _)
    refine Out.clean_ite (Out.clean_ok _) ?_
    exact Out.clean_ite (Out.clean_err _) (Out.clean_err _)

theorem fileTail_clean (img : Img) (secs : List Sec) (rva min align : Nat) :
    (fileTail img secs rva min align).Clean := by
  unfold fileTail
  rcases rangeFile_clean img.bytes.size secs rva min with ⟨⟨o, l⟩, h⟩ | ⟨e, h⟩
  · rw [h]
    exact Out.clean_ite (Out.clean_ok _) (Out.clean_err _)
  · rw [h]
    exact Out.clean_err _

/-! ### the four untyped primitives: clean, or the `aligned_to` debug assertion -/

theorem sliceFile_shape (img : Img) (secs : List Sec) (rva min align : Nat) :
    (sliceFile img secs rva min align).Clean ∨
    (isPow2 align = false ∧ rva ≠ 0 ∧ sliceFile img secs rva min align = .panic "slice_file:aligned_to") := by
  rw [sliceFile_eq_tail]
  by_cases h0 : rva = 0
  · rw [if_pos h0]; exact .inl (Out.clean_err _)
  · rw [if_neg h0]
    by_cases hp : isPow2 align = true
    · rw [if_pos hp]
      exact .inl (Out.clean_ite (fileTail_clean ..) (Out.clean_err _))
    · rw [if_neg hp]
      exact .inr ⟨by simpa using hp, h0, rfl⟩

theorem sliceSection_shape (img : Img) (rva min align : Nat) :
    (sliceSection img rva min align).Clean ∨
    (isPow2 align = false ∧ rva ≠ 0 ∧ sliceSection img rva min align = .panic "slice_section:aligned_to") := by
  rw [sliceSection_eq]
  by_cases h0 : rva = 0
  · rw [if_pos h0]; exact .inl (Out.clean_err _)
  · rw [if_neg h0]
    by_cases hp : isPow2 align = true
    · rw [if_pos hp]
      exact .inl (Out.clean_ite (Out.clean_ite (Out.clean_ok _) (Out.clean_err _)) (Out.clean_err _))
    · rw [if_neg hp]
      exact .inr ⟨by simpa using hp, h0, rfl⟩

theorem readFile_shape (img : Img) (secs : List Sec) (B soi va min align : Nat) :
    (readFile img secs B soi va min align).Clean ∨
    (isPow2 align = false ∧ readFile img secs B soi va min align = .panic "read_file:aligned_to") := by
  rw [readFile_eq_tail]
  by_cases h0 : va = 0
  · rw [if_pos h0]; exact .inl (Out.clean_err _)
  · rw [if_neg h0]
    by_cases hb : va < B ∨ va - B > soi
    · rw [if_pos hb]; exact .inl (Out.clean_err _)
    · rw [if_neg hb]
      by_cases hp : isPow2 align = true
      · rw [if_pos hp]
        exact .inl (Out.clean_ite (fileTail_clean ..) (Out.clean_err _))
      · rw [if_neg hp]
        exact .inr ⟨by simpa using hp, rfl⟩

theorem readSection_shape (img : Img) (B soi va min align : Nat) :
    (readSection img B soi va min align).Clean ∨
    (isPow2 align = false ∧ readSection img B soi va min align = .panic "read_section:aligned_to") := by
  rw [readSection_eq]
  by_cases h0 : va = 0
  · rw [if_pos h0]; exact .inl (Out.clean_err _)
  · rw [if_neg h0]
    by_cases hb : va < B ∨ va - B > soi
    · rw [if_pos hb]; exact .inl (Out.clean_err _)
    · rw [if_neg hb]
      by_cases hp : isPow2 align = true
      · rw [if_pos hp]
        exact .inl (Out.clean_ite (Out.clean_ite (Out.clean_ok _) (Out.clean_err _)) (Out.clean_err _))
      · rw [if_neg hp]
        exact .inr ⟨by simpa using hp, rfl⟩

/-- `slice`: a value, an error, or — only for a non-power-of-two alignment on a non-null rva — the
`debug_assert!` of `aligned_to` -/
theorem View.slice_shape (v : View) (rva min align : Nat) :
    (v.slice rva min align).Clean ∨
    (isPow2 align = false ∧ rva ≠ 0 ∧ ∃ s, v.slice rva min align = .panic s) := by
  unfold View.slice
  cases v.kind
  · rcases sliceFile_shape v.img v.secs rva min align with h | ⟨h1, h2, h3⟩
    · exact .inl h
    · exact .inr ⟨h1, h2, _, h3⟩
  · rcases sliceSection_shape v.img rva min align with h | ⟨h1, h2, h3⟩
    · exact .inl h
    · exact .inr ⟨h1, h2, _, h3⟩

theorem View.read_shape (v : View) (va min align : Nat) :
    (v.read va min align).Clean ∨ (isPow2 align = false ∧ ∃ s, v.read va min align = .panic s) := by
  unfold View.read
  cases v.kind
  · rcases readFile_shape v.img v.secs v.imageBase (sizeOfImage v.b) va min align with h | ⟨h1, h3⟩
    · exact .inl h
    · exact .inr ⟨h1, _, h3⟩
  · rcases readSection_shape v.img v.imageBase (sizeOfImage v.b) va min align with h | ⟨h1, h3⟩
    · exact .inl h
    · exact .inr ⟨h1, _, h3⟩

theorem View.at_shape (v : View) (a : Addr) (min align : Nat) :
    (v.at a min align).Clean ∨ (isPow2 align = false ∧ ∃ s, v.at a min align = .panic s) := by
  cases a with
  | rva r =>
    rcases v.slice_shape r min align with h | ⟨h1, _, h3⟩
    · exact .inl h
    · exact .inr ⟨h1, h3⟩
  | va x => exact v.read_shape x min align

/-- `slice` / `read` with a power-of-two alignment: a value or an error -/
theorem View.at_clean (v : View) (a : Addr) (min align : Nat) (hp : isPow2 align = true) :
    (v.at a min align).Clean := by
  rcases v.at_shape a min align with h | ⟨h1, _⟩
  · exact h
  · rw [hp] at h1; cases h1

theorem View.at_ne_ub (v : View) (a : Addr) (min align : Nat) (s : String) : v.at a min align ≠ .ub s := by
  rcases v.at_shape a min align with h | ⟨_, s', h⟩
  · exact h.ne_ub s
  · rw [h]; intro h'; cases h'

theorem View.at_ne_diverge (v : View) (a : Addr) (min align : Nat) : v.at a min align ≠ .diverge := by
  rcases v.at_shape a min align with h | ⟨_, s', h⟩
  · exact h.ne_diverge
  · rw [h]; intro h'; cases h'

theorem isPow2_one : isPow2 1 = true := by decide

/-! ### the sentinel loop -/

theorem sliceFLoop_clean {b : Bytes} {off blen size : Nat} {stop : Nat → Bool} (hs : 1 ≤ size) :
    ∀ (fuel len : Nat), blen + 2 ≤ fuel + len → len ≤ blen + 1 →
      (sliceFLoop b off blen size stop fuel len).Clean := by
  intro fuel
  induction fuel with
  | zero => intro len h1 h2; omega
  | succ fuel ih =>
    intro len h1 h2
    rw [sliceFLoop_succ]
    by_cases hb : len * size + size > blen
    · rw [if_pos hb]; exact Out.clean_err _
    · rw [if_neg hb]
      have hle : (len + 1) * size ≤ blen := by rw [Nat.succ_mul]; omega
      have hle' : len + 1 ≤ (len + 1) * size := Nat.le_mul_of_pos_right _ hs
      by_cases hst : stop (leN b (off + len * size) size) = true
      · rw [if_pos hst]; exact Out.clean_ok _
      · rw [if_neg hst]
        exact ih (len + 1) (by omega) (by omega)

end Pe

/-! ### strings: strictly ascending non-empty runs inside `N` bytes are at most `N` -/

theorem Strings.length_le_of_pairwise (N : Nat) : ∀ (fs : List Strings.Found) (lo : Nat),
    (∀ f ∈ fs, lo ≤ f.start ∧ 1 ≤ f.len ∧ f.start + f.len ≤ N) →
    fs.Pairwise (fun a b => a.start + a.len < b.start) → fs.length ≤ N - lo := by
  intro fs
  induction fs with
  | nil => intro lo _ _; simp
  | cons f fs ih =>
    intro lo hall hp
    rw [List.pairwise_cons] at hp
    have hf := hall f (List.mem_cons_self ..)
    have := ih (lo + 1) (fun g hg => by
      have h1 := hall g (List.mem_cons_of_mem _ hg)
      have h2 := hp.1 g hg
      omega) hp.2
    simp only [List.length_cons]
    omega

/-! ### relocations: entry count of a block -/

theorem Relocs.nwords_le {data : Bytes} {b : Relocs.Block} (hmem : b ∈ Relocs.blocks data) :
    2 * b.nwords ≤ data.size := by
  obtain ⟨o, -, -, ho8, rfl⟩ := Relocs.mem_blocksFrom (off := 0) (by rfl) hmem
  simp only [Relocs.blockAt]
  omega

end Pelite
