import PeliteModel.Thm.C04
import PeliteModel.Thm.C05
import PeliteModel.Thm.C07
import PeliteModel.Thm.C14
import PeliteModel.Thm.C20
import PeliteModel.Model.Convert
/-! Helper lemmas for the cross-cutting properties C01 / C02 / C03. -/
namespace Pelite

/-- an outcome that is a value or an error: no panic, no unchecked out-of-bounds access, no hang -/
def Out.Clean {α} (o : Out α) : Prop := (∃ a, o = .ok a) ∨ (∃ e, o = .err e)

end Pelite
