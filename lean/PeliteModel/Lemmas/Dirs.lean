import PeliteModel.Spec.Dirs
import PeliteModel.Thm.C05
/-! Helper lemmas for C15 (binary search, sorted function tables, POGO iterator, safety of the decoders). -/
namespace Pelite.Dirs
open Pelite Pelite.Pe

/-! ### `binary_search_by` -/

/-- `Less < Equal < Greater` -/
def rank : Ordering → Nat
  | .lt => 0
  | .eq => 1
  | .gt => 2

/-- the comparator is monotone along the table: what a sorted slice means for `binary_search_by` -/
def Mono (n : Nat) (cmp : Nat → Ordering) : Prop :=
  ∀ i j, i ≤ j → j < n → rank (cmp i) ≤ rank (cmp j)

theorem bsearchLoop_step (cmp : Nat → Ordering) (base size : Nat) (h : size > 1) :
    bsearchLoop cmp base size =
      bsearchLoop cmp (if cmp (base + size / 2) = .gt then base else base + size / 2) (size - size / 2) := by
  rw [bsearchLoop]
  simp only [h, if_true]

theorem bsearchLoop_done (cmp : Nat → Ordering) (base size : Nat) (h : ¬ size > 1) :
    bsearchLoop cmp base size = base := by
  rw [bsearchLoop]
  simp only [h, if_false]

/-- the loop stays inside the window it was given (any comparator) -/
theorem bsearchLoop_range (cmp : Nat → Ordering) :
    ∀ (size base : Nat), 1 ≤ size →
      base ≤ bsearchLoop cmp base size ∧ bsearchLoop cmp base size < base + size := by
  intro size
  induction size using Nat.strongRecOn with
  | ind size ih =>
    intro base hs
    by_cases h : size > 1
    · rw [bsearchLoop_step cmp base size h]
      have hh : size / 2 < size := by omega
      have hp : 1 ≤ size - size / 2 := by omega
      by_cases hc : cmp (base + size / 2) = .gt
      · rw [if_pos hc]
        obtain ⟨h1, h2⟩ := ih (size - size / 2) (by omega) base hp
        exact ⟨h1, by omega⟩
      · rw [if_neg hc]
        obtain ⟨h1, h2⟩ := ih (size - size / 2) (by omega) (base + size / 2) hp
        exact ⟨by omega, by omega⟩
    · rw [bsearchLoop_done cmp base size h]
      omega

/-- loop invariant for a monotone comparator: the result is not `Greater` (unless it is index 0) and
everything after it is `Greater` -/
theorem bsearchLoop_inv (cmp : Nat → Ordering) (n : Nat) (hm : Mono n cmp) :
    ∀ (size base : Nat), 1 ≤ size → base + size ≤ n →
      (base = 0 ∨ cmp base ≠ .gt) → (∀ i, base + size ≤ i → i < n → cmp i = .gt) →
      (bsearchLoop cmp base size = 0 ∨ cmp (bsearchLoop cmp base size) ≠ .gt) ∧
      (∀ i, bsearchLoop cmp base size + 1 ≤ i → i < n → cmp i = .gt) := by
  intro size
  induction size using Nat.strongRecOn with
  | ind size ih =>
    intro base hs hn hb hup
    by_cases h : size > 1
    · rw [bsearchLoop_step cmp base size h]
      have hp : 1 ≤ size - size / 2 := by omega
      by_cases hc : cmp (base + size / 2) = .gt
      · rw [if_pos hc]
        refine ih (size - size / 2) (by omega) base hp (by omega) hb ?_
        intro i hi1 hi2
        by_cases hi : base + size ≤ i
        · exact hup i hi hi2
        · -- mid ≤ i: monotone from mid
          have hmono := hm (base + size / 2) i (by omega) hi2
          rw [hc] at hmono
          cases hci : cmp i <;> simp [hci, rank] at hmono ⊢
      · rw [if_neg hc]
        refine ih (size - size / 2) (by omega) (base + size / 2) hp (by omega) (.inr hc) ?_
        intro i hi1 hi2
        exact hup i (by omega) hi2
    · rw [bsearchLoop_done cmp base size h]
      exact ⟨hb, fun i hi1 hi2 => hup i (by omega) hi2⟩

/-- Soundness for ANY comparator: a hit is inside the slice and compares `Equal`. -/
theorem bsearchBy_found (n : Nat) (cmp : Nat → Ordering) (i : Nat) (h : bsearchBy n cmp = .found i) :
    i < n ∧ cmp i = .eq := by
  unfold bsearchBy at h
  by_cases hn : n = 0
  · rw [if_pos hn] at h; cases h
  · rw [if_neg hn] at h
    have hr := bsearchLoop_range cmp n 0 (by omega)
    simp only at h
    cases hc : cmp (bsearchLoop cmp 0 n) with
    | eq => rw [hc] at h; cases h; exact ⟨by omega, hc⟩
    | lt => rw [hc] at h; cases h
    | gt => rw [hc] at h; cases h

/-- the insertion point of a miss is at most `n` (any comparator) -/
theorem bsearchBy_notFound_le (n : Nat) (cmp : Nat → Ordering) (k : Nat) (h : bsearchBy n cmp = .notFound k) :
    k ≤ n := by
  unfold bsearchBy at h
  by_cases hn : n = 0
  · rw [if_pos hn] at h; cases h; omega
  · rw [if_neg hn] at h
    have hr := bsearchLoop_range cmp n 0 (by omega)
    simp only at h
    cases hc : cmp (bsearchLoop cmp 0 n) with
    | eq => rw [hc] at h; cases h
    | lt => rw [hc] at h; cases h; omega
    | gt => rw [hc] at h; cases h; omega

theorem rank_le_lt {o : Ordering} (h : rank o ≤ rank .lt) : o = .lt := by
  cases o <;> simp [rank] at h ⊢

theorem rank_gt_le {o : Ordering} (h : rank .gt ≤ rank o) : o = .gt := by
  cases o <;> simp [rank] at h ⊢

/-- Completeness for a monotone comparator: if some element compares `Equal`, the search hits. -/
theorem bsearchBy_complete (n : Nat) (cmp : Nat → Ordering) (hm : Mono n cmp) (e : Nat) (he : e < n)
    (hce : cmp e = .eq) : ∃ i, bsearchBy n cmp = .found i := by
  unfold bsearchBy
  rw [if_neg (by omega)]
  have hr := bsearchLoop_range cmp n 0 (by omega)
  obtain ⟨h1, h2⟩ := bsearchLoop_inv cmp n hm n 0 (by omega) (by omega) (.inl rfl) (fun i hi hi' => by omega)
  simp only
  generalize bsearchLoop cmp 0 n = r at *
  -- e ≤ r, because everything after r is Greater
  have her : e ≤ r := by
    apply Nat.le_of_not_lt
    intro hlt
    have := h2 e (by omega) he
    rw [hce] at this; cases this
  have hmono := hm e r her (by omega)
  rw [hce] at hmono
  cases hc : cmp r with
  | eq => exact ⟨r, rfl⟩
  | lt => rw [hc] at hmono; simp [rank] at hmono
  | gt =>
    cases h1 with
    | inl h0 =>
      have : e = r := by omega
      rw [← this, hce] at hc; cases hc
    | inr hng => exact absurd hc hng

/-- A miss on a monotone comparator returns the partition point: `Less` before it, `Greater` from it on. -/
theorem bsearchBy_notFound (n : Nat) (cmp : Nat → Ordering) (hm : Mono n cmp) (k : Nat)
    (h : bsearchBy n cmp = .notFound k) :
    k ≤ n ∧ (∀ i, i < k → cmp i = .lt) ∧ (∀ i, k ≤ i → i < n → cmp i = .gt) := by
  refine ⟨bsearchBy_notFound_le n cmp k h, ?_⟩
  unfold bsearchBy at h
  by_cases hn : n = 0
  · rw [if_pos hn] at h
    cases h
    exact ⟨fun i hi => by omega, fun i _ hi => by omega⟩
  · rw [if_neg hn] at h
    have hr := bsearchLoop_range cmp n 0 (by omega)
    obtain ⟨h1, h2⟩ := bsearchLoop_inv cmp n hm n 0 (by omega) (by omega) (.inl rfl) (fun i hi hi' => by omega)
    simp only at h
    generalize bsearchLoop cmp 0 n = r at *
    cases hc : cmp r with
    | eq => rw [hc] at h; cases h
    | lt =>
      rw [hc] at h
      cases h
      refine ⟨fun i hi => ?_, fun i hi hi' => h2 i hi hi'⟩
      have := hm i r (by omega) (by omega)
      rw [hc] at this
      exact rank_le_lt this
    | gt =>
      rw [hc] at h
      have hk := SearchRes.notFound.inj h
      subst hk
      cases h1 with
      | inl h0 =>
        refine ⟨fun i hi => by omega, fun i _ hi' => ?_⟩
        have := hm r i (by omega) hi'
        rw [hc] at this
        exact rank_gt_le this
      | inr hng => exact absurd hc hng

/-- the textbook search satisfies the same contract -/
theorem bsearchRef_spec (cmp : Nat → Ordering) (n : Nat) (hm : Mono n cmp) :
    ∀ (d lo hi : Nat), hi - lo = d → lo ≤ hi → hi ≤ n →
      (∀ i, i < lo → cmp i = .lt) → (∀ i, hi ≤ i → i < n → cmp i = .gt) →
      (∀ i, Spec.bsearchRef cmp lo hi = .found i → i < n ∧ cmp i = .eq) ∧
      (∀ k, Spec.bsearchRef cmp lo hi = .notFound k →
        k ≤ n ∧ (∀ i, i < k → cmp i = .lt) ∧ (∀ i, k ≤ i → i < n → cmp i = .gt)) := by
  intro d
  induction d using Nat.strongRecOn with
  | ind d ih =>
    intro lo hi hd hle hn hlo hhi
    rw [Spec.bsearchRef]
    by_cases h : lo < hi
    · rw [if_pos h]
      simp only
      have hmid : lo + (hi - lo) / 2 < hi := by omega
      cases hc : cmp (lo + (hi - lo) / 2) with
      | eq =>
        simp only
        refine ⟨fun i hi' => ?_, fun k hk => by cases hk⟩
        cases hi'
        exact ⟨by omega, hc⟩
      | lt =>
        simp only
        refine ih (hi - (lo + (hi - lo) / 2 + 1)) (by omega) _ _ rfl (by omega) hn ?_ hhi
        intro i hi'
        have := hm i (lo + (hi - lo) / 2) (by omega) (by omega)
        rw [hc] at this
        exact rank_le_lt this
      | gt =>
        simp only
        refine ih (lo + (hi - lo) / 2 - lo) (by omega) _ _ rfl (by omega) (by omega) hlo ?_
        intro i hi1 hi2
        have := hm (lo + (hi - lo) / 2) i hi1 hi2
        rw [hc] at this
        exact rank_gt_le this
    · rw [if_neg h]
      refine ⟨fun i hi' => (by cases hi'), fun k hk => ?_⟩
      cases hk
      exact ⟨by omega, hlo, fun i hi1 hi2 => hhi i (by omega) hi2⟩

/-! ### sorted function tables -/

theorem checkSorted_iff (b : Bytes) (t : Ref) : checkSorted b t = true ↔ Spec.Sorted b t := by
  unfold checkSorted Spec.Sorted
  simp only [List.all_eq_true, List.mem_range, decide_eq_true_eq]
  constructor
  · intro h i hi; exact h i (by omega)
  · intro h i hi; exact h i (by omega)

theorem sortedTable_iff (b : Bytes) (t : Ref) : Spec.sortedTable b t = true ↔ Spec.Sorted b t := by
  unfold Spec.sortedTable Spec.Sorted
  simp only [List.all_eq_true, List.mem_range, Bool.and_eq_true, decide_eq_true_eq]
  constructor
  · intro h i hi; obtain ⟨⟨h1, h2⟩, h3⟩ := h i (by omega); exact ⟨h1, h2, h3⟩
  · intro h i hi; obtain ⟨h1, h2, h3⟩ := h i (by omega); exact ⟨⟨h1, h2⟩, h3⟩

/-- in a sorted table every earlier record ends at or before the begin of every later one -/
theorem sorted_chain {b : Bytes} {t : Ref} (hs : Spec.Sorted b t) :
    ∀ j i, i < j → j < excCount t → rfBegin b t i ≤ rfEnd b t i ∧ rfEnd b t i ≤ rfBegin b t j ∧ rfBegin b t j ≤ rfEnd b t j := by
  intro j
  induction j with
  | zero => intro i hi; omega
  | succ j ih =>
    intro i hi hj
    obtain ⟨h1, h2, h3⟩ := hs j hj
    by_cases hij : i = j
    · subst hij; exact ⟨h1, h2, h3⟩
    · obtain ⟨g1, g2, g3⟩ := ih i (by omega) (by omega)
      exact ⟨g1, by omega, h3⟩

theorem rfCmp_eq_iff (b : Bytes) (t : Ref) (pc i : Nat) : rfCmp b t pc i = .eq ↔ Spec.Covers b t i pc := by
  unfold rfCmp Spec.Covers
  by_cases h1 : pc < rfBegin b t i
  · rw [if_pos h1]; constructor
    · intro h; cases h
    · intro h; omega
  · rw [if_neg h1]
    by_cases h2 : pc ≥ rfEnd b t i
    · rw [if_pos h2]; constructor
      · intro h; cases h
      · intro h; omega
    · rw [if_neg h2]; exact ⟨fun _ => ⟨by omega, by omega⟩, fun _ => rfl⟩

theorem rfCmp_lt_iff (b : Bytes) (t : Ref) (pc i : Nat) :
    rfCmp b t pc i = .lt ↔ rfBegin b t i ≤ pc ∧ rfEnd b t i ≤ pc := by
  unfold rfCmp
  by_cases h1 : pc < rfBegin b t i
  · rw [if_pos h1]; constructor
    · intro h; cases h
    · intro h; omega
  · rw [if_neg h1]
    by_cases h2 : pc ≥ rfEnd b t i
    · rw [if_pos h2]; exact ⟨fun _ => ⟨by omega, by omega⟩, fun _ => rfl⟩
    · rw [if_neg h2]; constructor
      · intro h; cases h
      · intro h; omega

theorem rfCmp_gt_iff (b : Bytes) (t : Ref) (pc i : Nat) : rfCmp b t pc i = .gt ↔ pc < rfBegin b t i := by
  unfold rfCmp
  by_cases h1 : pc < rfBegin b t i
  · rw [if_pos h1]; exact ⟨fun _ => h1, fun _ => rfl⟩
  · rw [if_neg h1]
    by_cases h2 : pc ≥ rfEnd b t i
    · rw [if_pos h2]; constructor
      · intro h; cases h
      · intro h; omega
    · rw [if_neg h2]; constructor
      · intro h; cases h
      · intro h; omega

/-- on a sorted table the closure of `index_of` is monotone -/
theorem rfCmp_mono {b : Bytes} {t : Ref} (hs : Spec.Sorted b t) (pc : Nat) : Mono (excCount t) (rfCmp b t pc) := by
  intro i j hij hj
  by_cases he : i = j
  · subst he; exact Nat.le_refl _
  · obtain ⟨h1, h2, h3⟩ := sorted_chain hs j i (by omega) hj
    by_cases hpc : pc < rfBegin b t j
    · rw [(rfCmp_gt_iff b t pc j).2 hpc]
      cases rfCmp b t pc i <;> simp [rank]
    · rw [(rfCmp_lt_iff b t pc i).2 ⟨by omega, by omega⟩]
      simp [rank]

/-- at most one record of a sorted table covers a given address -/
theorem covers_unique {b : Bytes} {t : Ref} (hs : Spec.Sorted b t) {pc i j : Nat} (hi : i < excCount t)
    (hj : j < excCount t) (ci : Spec.Covers b t i pc) (cj : Spec.Covers b t j pc) : i = j := by
  unfold Spec.Covers at ci cj
  rcases Nat.lt_trichotomy i j with h | h | h
  · obtain ⟨_, h2, _⟩ := sorted_chain hs j i h hj; omega
  · exact h
  · obtain ⟨_, h2, _⟩ := sorted_chain hs i j h hi; omega

theorem linearLookup_some {b : Bytes} {t : Ref} {pc i : Nat} (h : Spec.linearLookup b t pc = some i) :
    i < excCount t ∧ Spec.Covers b t i pc := by
  unfold Spec.linearLookup at h
  have h1 := List.find?_some h
  have h2 := List.mem_of_find?_eq_some h
  simp only [List.mem_range] at h2
  exact ⟨h2, by simpa using h1⟩

theorem linearLookup_none {b : Bytes} {t : Ref} {pc : Nat} (h : Spec.linearLookup b t pc = none) :
    ∀ i, i < excCount t → ¬ Spec.Covers b t i pc := by
  unfold Spec.linearLookup at h
  rw [List.find?_eq_none] at h
  intro i hi
  have := h i (List.mem_range.2 hi)
  simpa using this

/-! ### totality and soundness of the typed-read primitives (any view, any bytes) -/

theorem okOrErr_ok {α} (a : α) : OkOrErr (Out.ok a) := .inl ⟨a, rfl⟩
theorem okOrErr_err {α} (e : Err) : OkOrErr (Out.err e : Out α) := .inr ⟨e, rfl⟩

theorem rangeFile_okOrErr (size : Nat) : ∀ (secs : List Sec) (rva min : Nat), OkOrErr (rangeFile size secs rva min) := by
  intro secs
  induction secs with
  | nil => intro rva min; exact okOrErr_err _
  | cons s rest ih =>
    intro rva min
    unfold rangeFile
    simp only
    split
    · split
      · split
        · exact okOrErr_ok _
        · split <;> exact okOrErr_err _
      · exact okOrErr_err _
    · exact ih rva min

theorem fileTail_okOrErr (img : Img) (secs : List Sec) (rva min align : Nat) :
    OkOrErr (fileTail img secs rva min align) := by
  unfold fileTail
  rcases rangeFile_okOrErr img.bytes.size secs rva min with ⟨⟨o, l⟩, h⟩ | ⟨e, h⟩
  · rw [h]; simp only; split
    · exact okOrErr_ok _
    · exact okOrErr_err _
  · rw [h]; exact okOrErr_err _

/-- `slice` / `read` with a power-of-two alignment answer a reference or a typed error. -/
theorem at_okOrErr (v : View) (a : Addr) (min align : Nat) (hp : isPow2 align = true) :
    OkOrErr (v.at a min align) := by
  unfold View.at
  cases a with
  | rva r =>
    simp only
    unfold View.slice
    cases v.kind
    · simp only; rw [sliceFile_eq_tail]; simp only [hp, if_true]
      repeat' split
      all_goals first | exact okOrErr_ok _ | exact okOrErr_err _ | exact fileTail_okOrErr ..
    · simp only; rw [sliceSection_eq]; simp only [hp, if_true]
      repeat' split
      all_goals first | exact okOrErr_ok _ | exact okOrErr_err _
  | va x =>
    simp only
    unfold View.read
    cases v.kind
    · simp only; rw [readFile_eq_tail]; simp only [hp, if_true]
      repeat' split
      all_goals first | exact okOrErr_ok _ | exact okOrErr_err _ | exact fileTail_okOrErr ..
    · simp only; rw [readSection_eq]; simp only [hp, if_true]
      repeat' split
      all_goals first | exact okOrErr_ok _ | exact okOrErr_err _

/-- whatever `slice` / `read` return is inside the buffer, aligned as requested and long enough -/
theorem at_sound (v : View) (a : Addr) (min align : Nat) (r : Ref) (h : v.at a min align = .ok r) :
    RefOK v.img r ∧ min ≤ r.len ∧ r.align = align := by
  have hs : ∀ s ∈ v.secs, s.InRange := C07_sections_in_range _
  unfold View.at at h
  cases a with
  | rva x =>
    simp only at h
    unfold View.slice at h
    cases hk : v.kind
    · rw [hk] at h; exact sliceFile_sound' hs h
    · rw [hk] at h; exact sliceSection_sound h
  | va x =>
    simp only at h
    unfold View.read at h
    cases hk : v.kind
    · rw [hk] at h; exact readFile_sound hs h
    · rw [hk] at h; exact readSection_sound h

theorem refOK_prefix {img : Img} {s : Ref} {n a : Nat} (h : RefOK img s) (hn : n ≤ s.len) (ha : s.align = a) :
    RefOK img ⟨s.off, n, a⟩ := by
  unfold RefOK at *
  subst ha
  exact ⟨by simp only; omega, h.2⟩

theorem derva_safe (v : View) (a : Addr) (size align : Nat) (hp : isPow2 align = true) :
    OkOrErr (v.derva a size align) ∧
    ∀ r, v.derva a size align = .ok r → RefOK v.img r ∧ r.len = size ∧ r.align = align := by
  unfold View.derva
  rcases at_okOrErr v a size align hp with ⟨s, h⟩ | ⟨e, h⟩
  · obtain ⟨h1, h2, h3⟩ := at_sound v a size align s h
    rw [h]
    refine ⟨okOrErr_ok _, ?_⟩
    intro r hr
    cases hr
    exact ⟨refOK_prefix h1 h2 h3, rfl, rfl⟩
  · rw [h]
    exact ⟨okOrErr_err _, fun r hr => by cases hr⟩

theorem dervaSlice_safe (v : View) (a : Addr) (size align len : Nat) (hp : isPow2 align = true) :
    OkOrErr (v.dervaSlice a size align len) ∧
    ∀ r, v.dervaSlice a size align len = .ok r → RefOK v.img r ∧ r.len = size * len ∧ r.align = align := by
  rw [dervaSlice_unfold]
  split
  · exact ⟨okOrErr_err _, fun r hr => by cases hr⟩
  · rcases at_okOrErr v a (size * len) align hp with ⟨s, h⟩ | ⟨e, h⟩
    · obtain ⟨h1, h2, h3⟩ := at_sound v a (size * len) align s h
      rw [h]
      refine ⟨okOrErr_ok _, ?_⟩
      intro r hr
      cases hr
      exact ⟨refOK_prefix h1 h2 h3, rfl, rfl⟩
    · rw [h]
      exact ⟨okOrErr_err _, fun r hr => by cases hr⟩

theorem sliceFLoop_okOrErr {b : Bytes} {off blen size : Nat} {stop : Nat → Bool} (hs : 1 ≤ size) :
    ∀ (fuel len : Nat), blen + 2 ≤ fuel + len → len ≤ blen + 1 →
      OkOrErr (sliceFLoop b off blen size stop fuel len) := by
  intro fuel
  induction fuel with
  | zero => intro len h1 h2; omega
  | succ fuel ih =>
    intro len h1 h2
    rw [sliceFLoop_succ]
    by_cases hb : len * size + size > blen
    · rw [if_pos hb]; exact okOrErr_err _
    · rw [if_neg hb]
      have hle : (len + 1) * size ≤ blen := by rw [Nat.succ_mul]; omega
      have hle' : len + 1 ≤ (len + 1) * size := Nat.le_mul_of_pos_right _ hs
      by_cases hst : stop (leN b (off + len * size) size) = true
      · rw [if_pos hst]; exact okOrErr_ok _
      · rw [if_neg hst]
        exact ih (len + 1) (by omega) (by omega)

theorem dervaSliceS_safe (v : View) (a : Addr) (size align sentinel : Nat) (hs : 1 ≤ size)
    (hp : isPow2 align = true) :
    OkOrErr (v.dervaSliceS a size align sentinel) ∧
    ∀ r, v.dervaSliceS a size align sentinel = .ok r → RefOK v.img r ∧ r.len % size = 0 ∧ r.align = align := by
  unfold View.dervaSliceS View.dervaSliceF
  rcases at_okOrErr v a 0 align hp with ⟨s, h⟩ | ⟨e, h⟩
  · obtain ⟨h1, _, h3⟩ := at_sound v a 0 align s h
    rw [h]
    simp only
    rcases sliceFLoop_okOrErr (b := v.b) (off := s.off) (blen := s.len) (stop := fun x => x == sentinel) hs
      (s.len + 2) 0 (by omega) (by omega) with ⟨n, hn⟩ | ⟨e, he⟩
    · rw [hn]
      refine ⟨okOrErr_ok _, ?_⟩
      intro r hr
      cases hr
      obtain ⟨_, g2, _, _⟩ := sliceFLoop_ok _ _ _ hn
      refine ⟨refOK_prefix h1 ?_ h3, by simp, rfl⟩
      rw [Nat.succ_mul] at g2
      omega
    · rw [he]
      exact ⟨okOrErr_err _, fun r hr => by cases hr⟩
  · rw [h]
    exact ⟨okOrErr_err _, fun r hr => by cases hr⟩

theorem isPow2_1 : isPow2 1 = true := by decide
theorem isPow2_4 : isPow2 4 = true := by decide
theorem isPow2_8 : isPow2 8 = true := by decide
theorem isPow2_ptr (f : Fmt) : isPow2 f.ptrSize = true := by cases f <;> decide
theorem isPow2_tls (f : Fmt) : isPow2 (tlsAlign f) = true := by cases f <;> decide
theorem isPow2_lc (f : Fmt) : isPow2 (lcAlign f) = true := by cases f <;> decide

/-! ### debug directory -/

theorem rawRef_eq_ok {site : String} {img : Img} {off size align : Nat} (h1 : off + size ≤ img.bytes.size)
    (h2 : (img.base + off) % align = 0) : rawRef site img off size align = .ok ⟨off, size, align⟩ := by
  unfold rawRef; rw [if_pos ⟨h1, h2⟩]

/-- `Dir::data` is the raw-data window of the specification -/
theorem dirData_eq_spec (v : View) (d : Nat) :
    dirData v d = (Spec.rawDataWindow v.kind v.b d).map (fun w => (⟨w.1, w.2, 1⟩ : Ref)) := by
  unfold dirData Spec.rawDataWindow ddSizeOfData ddPointerToRawData ddAddressOfRawData wadd64
  have h1 := le32_lt v.b (d + 16)
  have h2 := le32_lt v.b (d + 24)
  have h3 := le32_lt v.b (d + 20)
  cases v.kind <;> simp only
  · rw [Nat.mod_eq_of_lt (by omega)]
    by_cases h : le32 v.b (d + 24) + le32 v.b (d + 16) ≤ v.b.size
    · rw [if_pos ⟨by omega, h⟩, if_pos h]; simp
    · rw [if_neg (fun hh => h hh.2), if_neg h]; rfl
  · rw [Nat.mod_eq_of_lt (by omega)]
    by_cases h : le32 v.b (d + 20) + le32 v.b (d + 16) ≤ v.b.size
    · rw [if_pos ⟨by omega, h⟩, if_pos h]; simp
    · rw [if_neg (fun hh => h hh.2), if_neg h]; rfl

theorem dirData_sound {v : View} {d : Nat} {r : Ref} (h : dirData v d = some r) :
    r.off + r.len ≤ v.img.bytes.size ∧ r.align = 1 := by
  rw [dirData_eq_spec] at h
  unfold Spec.rawDataWindow at h
  cases hk : v.kind <;> rw [hk] at h <;> simp only at h <;> split at h
  all_goals first
    | (rename_i hc
       simp only [Option.map_some, Option.some.injEq] at h
       subst h
       exact ⟨hc, rfl⟩)
    | cases h

theorem refOK_align1 {img : Img} {r : Ref} (h : r.off + r.len ≤ img.bytes.size) (ha : r.align = 1) : RefOK img r := by
  unfold RefOK; rw [ha]; exact ⟨h, Nat.mod_one _⟩

theorem findNul_eq_some {b : Bytes} {off : Nat} :
    ∀ (n i L : Nat), i ≤ L → L < i + n → byteAt b (off + L) = 0 →
      (∀ j, i ≤ j → j < L → byteAt b (off + j) ≠ 0) → findNul b off n i = some L := by
  intro n
  induction n with
  | zero => intro i L h1 h2; omega
  | succ n ih =>
    intro i L h1 h2 hz hnz
    unfold findNul
    by_cases hi : i = L
    · subst hi; rw [if_pos hz]
    · rw [if_neg (hnz i (Nat.le_refl _) (by omega))]
      exact ih (i + 1) L (by omega) (by omega) hz (fun j hj1 hj2 => hnz j (by omega) hj2)

theorem cstrFromBytes_of_isCStr {b : Bytes} {off avail n : Nat} (h : Spec.IsCStr b off avail n) :
    cstrFromBytes b off avail = some ⟨off, n + 1, 1⟩ := by
  obtain ⟨h1, h2, h3⟩ := h
  unfold cstrFromBytes
  rw [findNul_eq_some avail 0 n (Nat.zero_le _) (by omega) h2 (fun j _ hj => h3 j hj)]

theorem cstrFromBytes_some {b : Bytes} {off len : Nat} {r : Ref} (h : cstrFromBytes b off len = some r) :
    r.off = off ∧ 1 ≤ r.len ∧ r.len ≤ len ∧ r.align = 1 ∧ Spec.IsCStr b off len (r.len - 1) := by
  unfold cstrFromBytes at h
  cases hf : findNul b off len 0 with
  | none => rw [hf] at h; cases h
  | some n =>
    rw [hf] at h
    cases h
    obtain ⟨_, g2, g3, g4⟩ := findNul_some _ _ _ hf
    refine ⟨rfl, by simp, by simp only; omega, rfl, ?_⟩
    simp only [Nat.add_sub_cancel]
    exact ⟨by omega, g3, fun j hj => g4 j (Nat.zero_le _) hj⟩

theorem cstrFromBytes_none {b : Bytes} {off len : Nat} (h : cstrFromBytes b off len = none) :
    ∀ j, j < len → byteAt b (off + j) ≠ 0 := by
  intro j hj hz
  -- the first NUL at or before j would have been found
  unfold cstrFromBytes at h
  cases hf : findNul b off len 0 with
  | some n => rw [hf] at h; cases h
  | none =>
    -- take the least NUL position ≤ j by strong induction
    have key : ∀ m, m ≤ j → (∀ i, i < m → byteAt b (off + i) ≠ 0) → False := by
      intro m
      induction hm : j - m generalizing m with
      | zero =>
        intro hmj hall
        have : m = j := by omega
        subst this
        rw [findNul_eq_some len 0 m (Nat.zero_le _) (by omega) hz (fun i _ hi => hall i hi)] at hf
        cases hf
      | succ k ih =>
        intro hmj hall
        by_cases hzm : byteAt b (off + m) = 0
        · rw [findNul_eq_some len 0 m (Nat.zero_le _) (by omega) hzm (fun i _ hi => hall i hi)] at hf
          cases hf
        · exact ih (m + 1) (by omega) (by omega) (fun i hi => by
            by_cases him : i = m
            · subst him; exact hzm
            · exact hall i (by omega))
    exact key 0 (Nat.zero_le _) (fun i hi => by omega)

theorem cstrTail_safe (v : View) (bytes : Ref) (k : Nat) (site : String) (hk : k ≤ bytes.len)
    (hin : bytes.off + bytes.len ≤ v.img.bytes.size) :
    OkOrErr (cstrTail v bytes k site) ∧
    ∀ r, cstrTail v bytes k site = .ok r → RefOK v.img r ∧ r.off = bytes.off + k ∧ r.off + r.len ≤ bytes.off + bytes.len := by
  unfold cstrTail
  rw [if_neg (by omega)]
  cases hc : cstrFromBytes v.b (bytes.off + k) (bytes.len - k) with
  | none => exact ⟨okOrErr_err _, fun r hr => by cases hr⟩
  | some c =>
    obtain ⟨g1, g2, g3, g4, _⟩ := cstrFromBytes_some hc
    refine ⟨okOrErr_ok _, ?_⟩
    intro r hr
    cases hr
    exact ⟨refOK_align1 (by omega) g4, g1, by omega⟩

theorem codeView_safe (v : View) (d : Nat) :
    OkOrErr (codeView v d) ∧ ∀ cv, codeView v d = .ok cv → Spec.cvRefsOK v.img cv := by
  unfold codeView
  cases hd : dirData v d with
  | none => exact ⟨okOrErr_err _, fun _ h => by cases h⟩
  | some bytes =>
    obtain ⟨hin, hal⟩ := dirData_sound hd
    simp only
    by_cases h16 : bytes.len < 16
    · rw [if_pos h16]; exact ⟨okOrErr_err _, fun _ h => by cases h⟩
    · rw [if_neg h16]
      by_cases hm : (v.img.base + bytes.off) % 4 ≠ 0
      · rw [if_pos hm]; exact ⟨okOrErr_err _, fun _ h => by cases h⟩
      · rw [if_neg hm]
        have hm' : (v.img.base + bytes.off) % 4 = 0 := by omega
        rw [rawRef_eq_ok (by omega) (Nat.mod_one _)]
        simp only [Out.bind_ok]
        by_cases hnb : le32 v.b bytes.off = sigNB10
        · rw [if_pos hnb, if_neg h16, rawRef_eq_ok (by omega) hm']
          simp only [Out.bind_ok]
          obtain ⟨t1, t2⟩ := cstrTail_safe v bytes 16 "code_view:bytes[16..]" (by omega) hin
          rcases t1 with ⟨n, hn⟩ | ⟨e, he⟩
          · rw [hn]; simp only [Out.bind_ok]
            refine ⟨okOrErr_ok _, ?_⟩
            intro cv hcv; cases hcv
            exact ⟨⟨by simp only; omega, hm'⟩, (t2 n hn).1⟩
          · rw [he]; exact ⟨okOrErr_err _, fun _ h => by cases h⟩
        · rw [if_neg hnb]
          by_cases hrs : le32 v.b bytes.off = sigRSDS
          · rw [if_pos hrs]
            by_cases h24 : bytes.len < 24
            · rw [if_pos h24]; exact ⟨okOrErr_err _, fun _ h => by cases h⟩
            · rw [if_neg h24, rawRef_eq_ok (by omega) hm']
              simp only [Out.bind_ok]
              obtain ⟨t1, t2⟩ := cstrTail_safe v bytes 24 "code_view:bytes[24..]" (by omega) hin
              rcases t1 with ⟨n, hn⟩ | ⟨e, he⟩
              · rw [hn]; simp only [Out.bind_ok]
                refine ⟨okOrErr_ok _, ?_⟩
                intro cv hcv; cases hcv
                exact ⟨⟨by simp only; omega, hm'⟩, (t2 n hn).1⟩
              · rw [he]; exact ⟨okOrErr_err _, fun _ h => by cases h⟩
          · rw [if_neg hrs]; exact ⟨okOrErr_err _, fun _ h => by cases h⟩

theorem dbgEntry_safe (v : View) (d : Nat) :
    OkOrErr (dbgEntry v d) ∧ ∀ r, dbgEntry v d = .ok r → RefOK v.img r ∧ r.len = 12 ∧ r.align = 4 := by
  unfold dbgEntry
  cases hd : dirData v d with
  | none => exact ⟨okOrErr_err _, fun _ h => by cases h⟩
  | some data =>
    obtain ⟨hin, hal⟩ := dirData_sound hd
    simp only
    by_cases h12 : data.len < 12
    · rw [if_pos h12]; exact ⟨okOrErr_err _, fun _ h => by cases h⟩
    · rw [if_neg h12]
      by_cases hm : (v.img.base + data.off) % 4 ≠ 0
      · rw [if_pos hm]; exact ⟨okOrErr_err _, fun _ h => by cases h⟩
      · rw [if_neg hm]
        have hm' : (v.img.base + data.off) % 4 = 0 := by omega
        rw [rawRef_eq_ok (by omega) hm']
        refine ⟨okOrErr_ok _, ?_⟩
        intro r hr; cases hr
        exact ⟨⟨by simp only; omega, hm'⟩, rfl, rfl⟩

theorem pgoEntry_safe (v : View) (d : Nat) :
    OkOrErr (pgoEntry v d) ∧ ∀ r, pgoEntry v d = .ok r → RefOK v.img r ∧ r.len % 4 = 0 ∧ r.align = 4 := by
  unfold pgoEntry
  cases hd : dirData v d with
  | none => exact ⟨okOrErr_err _, fun _ h => by cases h⟩
  | some data =>
    obtain ⟨hin, hal⟩ := dirData_sound hd
    simp only
    by_cases h4 : data.len < 4
    · rw [if_pos h4]; exact ⟨okOrErr_err _, fun _ h => by cases h⟩
    · rw [if_neg h4]
      by_cases hm : (v.img.base + data.off) % 4 ≠ 0
      · rw [if_pos hm]; exact ⟨okOrErr_err _, fun _ h => by cases h⟩
      · rw [if_neg hm]
        have hm' : (v.img.base + data.off) % 4 = 0 := by omega
        rw [rawRef_eq_ok (by omega) hm']
        refine ⟨okOrErr_ok _, ?_⟩
        intro r hr; cases hr
        exact ⟨⟨by simp only; omega, hm'⟩, by simp, rfl⟩

theorem dirEntry_safe (v : View) (d : Nat) :
    OkOrErr (dirEntry v d) ∧ ∀ e, dirEntry v d = .ok e → Spec.entryRefsOK v.img e := by
  unfold dirEntry
  simp only
  by_cases h2 : ddType v.b d = 2
  · rw [if_pos h2]
    obtain ⟨t1, t2⟩ := codeView_safe v d
    rcases t1 with ⟨cv, hn⟩ | ⟨e, he⟩
    · rw [hn]; simp only [Out.bind_ok]
      exact ⟨okOrErr_ok _, fun e he => by cases he; exact t2 cv hn⟩
    · rw [he]; exact ⟨okOrErr_err _, fun _ h => by cases h⟩
  · rw [if_neg h2]
    by_cases h4 : ddType v.b d = 4
    · rw [if_pos h4]
      obtain ⟨t1, t2⟩ := dbgEntry_safe v d
      rcases t1 with ⟨r, hn⟩ | ⟨e, he⟩
      · rw [hn]; simp only [Out.bind_ok]
        exact ⟨okOrErr_ok _, fun e he => by cases he; exact (t2 r hn).1⟩
      · rw [he]; exact ⟨okOrErr_err _, fun _ h => by cases h⟩
    · rw [if_neg h4]
      by_cases h13 : ddType v.b d = 13
      · rw [if_pos h13]
        obtain ⟨t1, t2⟩ := pgoEntry_safe v d
        rcases t1 with ⟨r, hn⟩ | ⟨e, he⟩
        · rw [hn]; simp only [Out.bind_ok]
          exact ⟨okOrErr_ok _, fun e he => by cases he; exact (t2 r hn).1⟩
        · rw [he]; exact ⟨okOrErr_err _, fun _ h => by cases h⟩
      · rw [if_neg h13]
        refine ⟨okOrErr_ok _, ?_⟩
        intro e he
        cases he
        cases hd : dirData v d with
        | none => trivial
        | some r =>
          obtain ⟨hin, hal⟩ := dirData_sound hd
          exact refOK_align1 hin hal

/-! ### CodeView records against the documented layouts -/

theorem sig_nb10 {b : Bytes} {off : Nat} (h : Spec.hasSig b off 'N' 'B' '1' '0') : le32 b off = sigNB10 := by
  obtain ⟨h0, h1, h2, h3⟩ := h
  unfold le32 sigNB10
  rw [h0, h1, h2, h3]
  decide

theorem sig_rsds {b : Bytes} {off : Nat} (h : Spec.hasSig b off 'R' 'S' 'D' 'S') : le32 b off = sigRSDS := by
  obtain ⟨h0, h1, h2, h3⟩ := h
  unfold le32 sigRSDS
  rw [h0, h1, h2, h3]
  decide

theorem cstrTail_of_isCStr {v : View} {bytes : Ref} {k n : Nat} {site : String} (hk : k ≤ bytes.len)
    (h : Spec.IsCStr v.b (bytes.off + k) (bytes.len - k) n) :
    cstrTail v bytes k site = .ok ⟨bytes.off + k, n + 1, 1⟩ := by
  unfold cstrTail
  rw [if_neg (by omega), cstrFromBytes_of_isCStr h]

theorem codeView_of_nb10 (v : View) (d : Nat) (data : Ref) (hd : dirData v d = some data)
    (hal : (v.img.base + data.off) % 4 = 0) (n : Nat) (h : Spec.IsNB10 v.b data.off data.len n) :
    codeView v d = .ok (.cv20 ⟨data.off, 16, 4⟩ ⟨data.off + 16, n + 1, 1⟩) := by
  obtain ⟨hin, _⟩ := dirData_sound hd
  have hfit := h.fits
  unfold codeView
  rw [hd]
  simp only
  rw [if_neg (by omega), if_neg (by omega), rawRef_eq_ok (by omega) (Nat.mod_one _)]
  simp only [Out.bind_ok]
  rw [if_pos (sig_nb10 h.sig), if_neg (by omega), rawRef_eq_ok (by omega) hal]
  simp only [Out.bind_ok]
  rw [cstrTail_of_isCStr (by omega) h.path]
  simp only [Out.bind_ok]

theorem codeView_of_rsds (v : View) (d : Nat) (data : Ref) (hd : dirData v d = some data)
    (hal : (v.img.base + data.off) % 4 = 0) (n : Nat) (h : Spec.IsRSDS v.b data.off data.len n) :
    codeView v d = .ok (.cv70 ⟨data.off, 24, 4⟩ ⟨data.off + 24, n + 1, 1⟩) := by
  obtain ⟨hin, _⟩ := dirData_sound hd
  have hfit := h.fits
  have hs := sig_rsds h.sig
  unfold codeView
  rw [hd]
  simp only
  rw [if_neg (by omega), if_neg (by omega), rawRef_eq_ok (by omega) (Nat.mod_one _)]
  simp only [Out.bind_ok]
  rw [if_neg (by rw [hs]; decide), if_pos hs, if_neg (by omega), rawRef_eq_ok (by omega) hal]
  simp only [Out.bind_ok]
  rw [cstrTail_of_isCStr (by omega) h.path]
  simp only [Out.bind_ok]

/-! ### POGO iterator -/

/-- the collection loop with the single step `pgoNext` inlined -/
theorem pgoLoop_succ (b : Bytes) (fuel off n : Nat) :
    pgoLoop b (fuel + 1) off n =
      if n ≥ 3 then
        match cstrFromBytes b (off + 8) (4 * (n - 2)) with
        | none => .ok []
        | some name =>
          if 2 + (name.len - 1) / 4 + 1 > n then .panic "PgoIter::next:image[2+len+1..]"
          else
            pgoLoop b fuel (off + 4 * (2 + (name.len - 1) / 4 + 1)) (n - (2 + (name.len - 1) / 4 + 1)) >>= fun rest =>
            .ok (⟨le32 b off, le32 b (off + 4), name⟩ :: rest)
      else .ok [] := by
  rw [pgoLoop]
  unfold pgoNext
  simp only
  by_cases h3 : n ≥ 3
  · rw [if_pos h3, if_pos h3]
    cases cstrFromBytes b (off + 8) (4 * (n - 2)) with
    | none => rfl
    | some name =>
      simp only
      by_cases hp : 2 + (name.len - 1) / 4 + 1 > n
      · rw [if_pos hp, if_pos hp]; rfl
      · rw [if_neg hp, if_neg hp]; rfl
  · rw [if_neg h3, if_neg h3]; rfl

theorem pgoLoop_safe (b : Bytes) : ∀ (fuel off n : Nat), n < fuel →
    ∃ l, pgoLoop b fuel off n = .ok l ∧
      ∀ it ∈ l, off + 8 ≤ it.name.off ∧ it.name.off + it.name.len ≤ off + 4 * n ∧ it.name.align = 1 := by
  intro fuel
  induction fuel with
  | zero => intro off n h; omega
  | succ fuel ih =>
    intro off n hn
    rw [pgoLoop_succ]
    by_cases h3 : n ≥ 3
    · rw [if_pos h3]
      cases hc : cstrFromBytes b (off + 8) (4 * (n - 2)) with
      | none => exact ⟨[], rfl, fun it h => by cases h⟩
      | some name =>
        obtain ⟨g1, g2, g3, g4, _⟩ := cstrFromBytes_some hc
        simp only
        have hlen : 2 + (name.len - 1) / 4 + 1 ≤ n := by omega
        rw [if_neg (by omega)]
        obtain ⟨l, hl, hall⟩ := ih (off + 4 * (2 + (name.len - 1) / 4 + 1)) (n - (2 + (name.len - 1) / 4 + 1)) (by omega)
        rw [hl]
        simp only [Out.bind_ok]
        refine ⟨_, rfl, ?_⟩
        intro it hit
        rcases List.mem_cons.1 hit with rfl | hit
        · simp only; omega
        · obtain ⟨a1, a2, a3⟩ := hall it hit
          omega
    · rw [if_neg h3]; exact ⟨[], rfl, fun it h => by cases h⟩

theorem pogoLayout_le {b : Bytes} {off stop : Nat} {recs : List (Nat × Nat × Nat)}
    (h : Spec.PogoLayout b off recs stop) : off ≤ stop := by
  induction h with
  | nil off => exact Nat.le_refl _
  | cons off rva size n rest stop _ _ _ _ _ ih => omega

/-- records laid out as the format says, filling the window up to less than one minimal record:
the iterator yields exactly those records -/
theorem pgoLoop_layout {b : Bytes} {off stop : Nat} {recs : List (Nat × Nat × Nat)}
    (h : Spec.PogoLayout b off recs stop) :
    ∀ (n fuel : Nat), stop ≤ off + 4 * n → off + 4 * n < stop + 12 → recs.length < fuel →
      pgoLoop b fuel off n = .ok (Spec.pogoExpected off recs) := by
  induction h with
  | nil off =>
    intro n fuel h1 h2 h3
    obtain ⟨f, rfl⟩ : ∃ f, fuel = f + 1 := ⟨fuel - 1, by simp at h3; omega⟩
    rw [pgoLoop_succ, if_neg (by omega)]
    rfl
  | cons off rva size L rest stop h1 h2 h3 h4 hrest ih =>
    intro n fuel g1 g2 g3
    obtain ⟨f, rfl⟩ : ∃ f, fuel = f + 1 := ⟨fuel - 1, by simp at g3; omega⟩
    have hle := pogoLayout_le hrest
    rw [pgoLoop_succ, if_pos (by omega)]
    have hc : cstrFromBytes b (off + 8) (4 * (n - 2)) = some ⟨off + 8, L + 1, 1⟩ :=
      cstrFromBytes_of_isCStr ⟨by omega, h3, h4⟩
    rw [hc]
    simp only [Nat.add_sub_cancel]
    rw [if_neg (by omega)]
    have e : off + 4 * (2 + L / 4 + 1) = off + 8 + 4 * (L / 4 + 1) := by omega
    rw [e, ih (n - (2 + L / 4 + 1)) f (by omega) (by omega) (by simp at g3; omega)]
    simp only [Out.bind_ok]
    rw [← h1, ← h2]
    rfl

theorem pgoItems_safe (b : Bytes) (image : Ref) :
    ∃ l, pgoItems b image = .ok l ∧
      ∀ it ∈ l, image.off ≤ it.name.off ∧ it.name.off + it.name.len ≤ image.off + 4 * (image.len / 4) ∧ it.name.align = 1 := by
  unfold pgoItems pgoItemsFrom pgoIterStart
  simp only
  by_cases h : image.len / 4 ≥ 1
  · rw [if_pos h]
    simp only
    obtain ⟨l, hl, hall⟩ := pgoLoop_safe b (image.len / 4 - 1 + 1) (image.off + 4) (image.len / 4 - 1) (by omega)
    exact ⟨l, hl, fun it hit => by obtain ⟨a1, a2, a3⟩ := hall it hit; omega⟩
  · rw [if_neg h]
    simp only
    obtain ⟨l, hl, hall⟩ := pgoLoop_safe b (image.len / 4 + 1) image.off (image.len / 4) (by omega)
    exact ⟨l, hl, fun it hit => by obtain ⟨a1, a2, a3⟩ := hall it hit; omega⟩

/-! ### a single `PgoIter::next` step -/

/-- `next` never panics (the reslice `&self.image[2 + len + 1..]` is in range); a `None` leaves the state
untouched, a `Some` strictly shrinks the window and keeps its end -/
theorem pgoNext_ok (b : Bytes) (st : Nat × Nat) :
    ∃ r, pgoNext b st = .ok r ∧ (r.1 = none → r.2 = st) ∧
      (∀ it, r.1 = some it → r.2.2 < st.2 ∧ r.2.1 + 4 * r.2.2 = st.1 + 4 * st.2 ∧ st.1 < r.2.1) := by
  obtain ⟨off, n⟩ := st
  unfold pgoNext
  simp only
  by_cases h3 : n ≥ 3
  · rw [if_pos h3]
    cases hc : cstrFromBytes b (off + 8) (4 * (n - 2)) with
    | none => exact ⟨_, rfl, fun _ => rfl, fun it h => by cases h⟩
    | some name =>
      obtain ⟨g1, g2, g3, g4, _⟩ := cstrFromBytes_some hc
      simp only
      rw [if_neg (by omega)]
      refine ⟨_, rfl, fun h => (by cases h), fun it _ => ?_⟩
      simp only
      omega
  · rw [if_neg h3]
    exact ⟨_, rfl, fun _ => rfl, fun it h => by cases h⟩

theorem pgoLoop_step (b : Bytes) (fuel off n : Nat) :
    pgoLoop b (fuel + 1) off n =
      pgoNext b (off, n) >>= fun r =>
        match r.1 with
        | none => .ok []
        | some item => pgoLoop b fuel r.2.1 r.2.2 >>= fun rest => .ok (item :: rest) := rfl

/-- the collection does not depend on the fuel once it exceeds the window length -/
theorem pgoLoop_fuel (b : Bytes) :
    ∀ (n fuel fuel' off : Nat), n < fuel → n < fuel' → pgoLoop b fuel off n = pgoLoop b fuel' off n := by
  intro n
  induction n using Nat.strongRecOn with
  | ind n ih =>
    intro fuel fuel' off h1 h2
    obtain ⟨f, rfl⟩ : ∃ f, fuel = f + 1 := ⟨fuel - 1, by omega⟩
    obtain ⟨f', rfl⟩ : ∃ f, fuel' = f + 1 := ⟨fuel' - 1, by omega⟩
    rw [pgoLoop_step, pgoLoop_step]
    obtain ⟨r, hr, _, hsome⟩ := pgoNext_ok b (off, n)
    rw [hr]
    simp only [Out.bind_ok]
    cases h : r.1 with
    | none => rfl
    | some item =>
      obtain ⟨hlt, _⟩ := hsome item h
      simp only at hlt ⊢
      rw [ih r.2.2 hlt f f' r.2.1 (by omega) (by omega)]

/-- `next` pops the head of the sequence of remaining items and leaves the iterator on its tail -/
theorem pgoNext_is_head (b : Bytes) (st : Nat × Nat) :
    ∃ l r, pgoItemsFrom b st = .ok l ∧ pgoNext b st = .ok r ∧ r.1 = l.head? ∧ pgoItemsFrom b r.2 = .ok l.tail := by
  obtain ⟨r, hr, hnone, hsome⟩ := pgoNext_ok b st
  obtain ⟨off, n⟩ := st
  unfold pgoItemsFrom
  simp only
  rw [pgoLoop_step, hr]
  simp only [Out.bind_ok]
  cases h : r.1 with
  | none =>
    refine ⟨[], r, rfl, rfl, by rw [h]; rfl, ?_⟩
    rw [hnone h]
    simp only
    rw [pgoLoop_step, hr]
    simp only [Out.bind_ok]
    rw [h]
    rfl
  | some item =>
    obtain ⟨hlt, _⟩ := hsome item h
    simp only at hlt
    obtain ⟨l', hl', _⟩ := pgoLoop_safe b n r.2.1 r.2.2 hlt
    rw [hl']
    simp only [Out.bind_ok]
    refine ⟨item :: l', r, rfl, rfl, by rw [h]; rfl, ?_⟩
    rw [pgoLoop_fuel b r.2.2 (r.2.2 + 1) n r.2.1 (by omega) hlt, hl']
    rfl

/-- every item takes at least three words of the window: the sequence of remaining items is short -/
theorem pgoItemsFrom_length_le (b : Bytes) (st : Nat × Nat) :
    ∃ l, pgoItemsFrom b st = .ok l ∧ 3 * l.length ≤ st.2 := by
  -- measure: the window length strictly decreases by ≥ 3 with every `Some`
  have key : ∀ (n : Nat) (st : Nat × Nat), st.2 = n → ∃ l, pgoItemsFrom b st = .ok l ∧ 3 * l.length ≤ st.2 := by
    intro n
    induction n using Nat.strongRecOn with
    | ind n ih =>
      intro st hn
      obtain ⟨l, r, hl, hr, hhead, htail⟩ := pgoNext_is_head b st
      refine ⟨l, hl, ?_⟩
      cases l with
      | nil => simp
      | cons x xs =>
        -- the step consumed at least 3 words
        obtain ⟨r', hr', _, hsome⟩ := pgoNext_ok b st
        rw [hr] at hr'
        cases hr'
        obtain ⟨hlt, hend, hoff⟩ := hsome x (by rw [hhead]; rfl)
        obtain ⟨l', hl', hle⟩ := ih r.2.2 (by omega) r.2 rfl
        rw [htail] at hl'
        cases hl'
        -- words consumed: st.2 - r.2.2 ≥ 3 because the offset moved by 4 * (2 + len + 1) ≥ 12
        have h3 : r.2.2 + 3 ≤ st.2 := by
          unfold pgoNext at hr
          simp only at hr
          by_cases hge : st.2 ≥ 3
          · rw [if_pos hge] at hr
            cases hc : cstrFromBytes b (st.1 + 8) (4 * (st.2 - 2)) with
            | none => rw [hc] at hr; cases hr; simp at hhead
            | some name =>
              rw [hc] at hr
              simp only at hr
              split at hr
              · cases hr
              · cases hr; simp only; omega
          · rw [if_neg hge] at hr; cases hr; simp at hhead
        simp only [List.length_cons, List.tail_cons] at hle ⊢
        omega
  exact key st.2 st rfl

/-- provided `nth`: element `k` of the remaining items, the iterator left behind it -/
theorem pgoNth_spec (b : Bytes) : ∀ (k : Nat) (st : Nat × Nat) (l : List PgoItem), pgoItemsFrom b st = .ok l →
    ∃ st', pgoNth b k st = .ok (l[k]?, st') ∧ pgoItemsFrom b st' = .ok (l.drop (k + 1)) := by
  intro k
  induction k with
  | zero =>
    intro st l hl
    obtain ⟨l', r, hl', hr, hhead, htail⟩ := pgoNext_is_head b st
    rw [hl] at hl'; cases hl'
    refine ⟨r.2, ?_, ?_⟩
    · rw [pgoNth, hr]
      obtain ⟨r1, r2⟩ := r
      simp only at hhead
      subst hhead
      cases l <;> rfl
    · rw [htail]; cases l <;> rfl
  | succ k ih =>
    intro st l hl
    obtain ⟨l', r, hl', hr, hhead, htail⟩ := pgoNext_is_head b st
    rw [hl] at hl'; cases hl'
    rw [pgoNth, hr]
    simp only [Out.bind_ok]
    cases l with
    | nil =>
      have hn : r.1 = none := hhead
      rw [hn]
      exact ⟨r.2, rfl, by simpa using htail⟩
    | cons x xs =>
      have hs : r.1 = some x := hhead
      rw [hs]
      simp only
      obtain ⟨st', h1, h2⟩ := ih r.2 xs (by simpa using htail)
      exact ⟨st', by simpa using h1, by simpa using h2⟩

theorem pgoCountLoop_spec (b : Bytes) : ∀ (fuel : Nat) (st : Nat × Nat) (acc : Nat) (l : List PgoItem),
    pgoItemsFrom b st = .ok l → l.length < fuel → pgoCountLoop b fuel st acc = .ok (acc + l.length) := by
  intro fuel
  induction fuel with
  | zero => intro st acc l _ h; omega
  | succ fuel ih =>
    intro st acc l hl hf
    obtain ⟨l', r, hl', hr, hhead, htail⟩ := pgoNext_is_head b st
    rw [hl] at hl'; cases hl'
    rw [pgoCountLoop, hr]
    simp only [Out.bind_ok]
    cases l with
    | nil =>
      have hn : r.1 = none := hhead
      rw [hn]; rfl
    | cons x xs =>
      have hs : r.1 = some x := hhead
      rw [hs]
      simp only
      rw [ih r.2 (acc + 1) xs (by simpa using htail) (by simp at hf; omega)]
      simp only [List.length_cons]
      congr 1
      omega

/-- provided `count`: the number of remaining items (the loop terminates: `C18_pgo_count_le`) -/
theorem pgoCount_spec (b : Bytes) (st : Nat × Nat) (l : List PgoItem) (hl : pgoItemsFrom b st = .ok l) :
    pgoCount b st = .ok l.length := by
  obtain ⟨l', hl', hle⟩ := pgoItemsFrom_length_le b st
  rw [hl] at hl'; cases hl'
  unfold pgoCount
  rw [pgoCountLoop_spec b (st.2 + 1) st 0 l hl (by omega)]
  simp

/-! ### pdb_file_name -/

theorem pdbFileNameFrom_some (v : View) (t : Ref) :
    ∀ (fuel i : Nat) (r : Ref), pdbFileNameFrom v t fuel i = some r →
      ∃ j cv, i ≤ j ∧ j < i + fuel ∧ dirEntry v (debugEntryOff t j) = .ok (.codeView cv) ∧ r = cv.name ∧
        ∀ j', i ≤ j' → j' < j → ∀ cv', dirEntry v (debugEntryOff t j') ≠ .ok (.codeView cv') := by
  intro fuel
  induction fuel with
  | zero => intro i r h; cases h
  | succ fuel ih =>
    intro i r h
    rw [pdbFileNameFrom] at h
    split at h
    · rename_i cv hcv
      cases h
      exact ⟨i, cv, Nat.le_refl _, by omega, hcv, rfl, fun j' h1 h2 => by omega⟩
    · rename_i hne
      obtain ⟨j, cv, h1, h2, h3, h4, h5⟩ := ih (i + 1) r h
      refine ⟨j, cv, by omega, by omega, h3, h4, ?_⟩
      intro j' g1 g2 cv' hcv'
      by_cases hj : j' = i
      · subst hj; exact hne cv' hcv'
      · exact h5 j' (by omega) g2 cv' hcv'

/-! ### exception directory: function bytes and unwind info -/

theorem unwindInfo_safe (v : View) (t : Ref) (i : Nat) :
    OkOrErr (unwindInfo v t i) ∧
    ∀ im, unwindInfo v t i = .ok im → RefOK v.img im ∧ im.len = 4 ∧
      unwindCodes v im = .ok ⟨im.off + 4, 2 * byteAt v.b (im.off + 2), 1⟩ ∧
      RefOK v.img ⟨im.off + 4, 2 * byteAt v.b (im.off + 2), 1⟩ := by
  unfold unwindInfo
  have e : v.slice (rfUnwind v.b t i) 4 1 = v.at (.rva (rfUnwind v.b t i)) 4 1 := rfl
  rw [e]
  rcases at_okOrErr v (.rva (rfUnwind v.b t i)) 4 1 isPow2_1 with ⟨s, h⟩ | ⟨e, h⟩
  · obtain ⟨⟨h1, _⟩, h2, h3⟩ := at_sound v _ 4 1 s h
    rw [h]
    simp only
    rw [rawRef_eq_ok (by omega) (Nat.mod_one _)]
    simp only [Out.bind_ok]
    by_cases hc : s.len < 4 + 2 * byteAt v.b (s.off + 2)
    · rw [if_pos hc]; exact ⟨okOrErr_err _, fun _ hh => by cases hh⟩
    · rw [if_neg hc]
      refine ⟨okOrErr_ok _, ?_⟩
      intro im him
      cases him
      refine ⟨⟨by simp only; omega, Nat.mod_one _⟩, rfl, ?_, ⟨by simp only; omega, Nat.mod_one _⟩⟩
      unfold unwindCodes
      exact rawRef_eq_ok (by simp only; omega) (Nat.mod_one _)
  · rw [h]; exact ⟨okOrErr_err _, fun _ hh => by cases hh⟩

/-! ### security directory -/

theorem dataDir_lt {v : View} {i va size : Nat} (h : v.dataDir i = some (va, size)) :
    va < 4294967296 ∧ size < 4294967296 := by
  unfold View.dataDir at h
  split at h
  · cases h; exact ⟨le32_lt _ _, le32_lt _ _⟩
  · cases h

theorem securityTryFrom_ok_iff (v : View) (hb : v.img.base % 4 = 0) (r : Ref) :
    securityTryFrom v = .ok r ↔
      v.kind = .file ∧ ∃ va size, v.dataDir 4 = some (va, size) ∧ Spec.CertWellFormed v.b.size va size ∧
        r = ⟨va, size, 1⟩ := by
  unfold securityTryFrom Spec.CertWellFormed
  by_cases hk : v.kind ≠ .file
  · rw [if_pos hk]
    constructor
    · intro h; cases h
    · intro h; exact absurd h.1 hk
  · rw [if_neg hk]
    have hk' : v.kind = .file := by cases hv : v.kind <;> simp_all
    cases hd : v.dataDir 4 with
    | none =>
      simp only
      constructor
      · intro h; cases h
      · rintro ⟨_, va, size, h, _⟩; cases h
    | some p =>
      obtain ⟨va, size⟩ := p
      obtain ⟨l1, l2⟩ := dataDir_lt hd
      simp only
      by_cases h0 : va = 0
      · rw [if_pos h0]
        constructor
        · intro h; cases h
        · rintro ⟨_, va', size', h, hw, _⟩; cases h; exact absurd h0 hw.1
      · rw [if_neg h0]
        by_cases hm : va % 8 ≠ 0 ∨ size % 8 ≠ 0
        · rw [if_pos hm]
          constructor
          · intro h; cases h
          · rintro ⟨_, va', size', h, hw, _⟩; cases h; omega
        · rw [if_neg hm]
          by_cases hz : size = 0
          · rw [if_pos hz]
            constructor
            · intro h; cases h
            · rintro ⟨_, va', size', h, hw, _⟩; cases h; omega
          · rw [if_neg hz]
            unfold cadd64
            rw [if_pos (by omega)]
            simp only
            by_cases hin : va ≤ va + size ∧ va + size ≤ v.b.size
            · rw [if_pos hin, if_neg (by omega), if_neg (by omega)]
              rw [Nat.add_sub_cancel_left]
              constructor
              · intro h; cases h
                exact ⟨hk', va, size, rfl, ⟨h0, by omega, by omega, by omega, hin.2⟩, rfl⟩
              · rintro ⟨_, va', size', h, hw, rfl⟩; cases h; rfl
            · rw [if_neg hin]
              constructor
              · intro h; cases h
              · rintro ⟨_, va', size', h, hw, _⟩; cases h; omega

theorem securityTryFrom_okOrErr (v : View) (hb : v.img.base % 4 = 0) : OkOrErr (securityTryFrom v) := by
  unfold securityTryFrom
  split
  · exact okOrErr_err _
  · cases hd : v.dataDir 4 with
    | none => exact okOrErr_err _
    | some p =>
      obtain ⟨va, size⟩ := p
      obtain ⟨l1, l2⟩ := dataDir_lt hd
      simp only
      by_cases h0 : va = 0
      · rw [if_pos h0]; exact okOrErr_err _
      · rw [if_neg h0]
        by_cases hm : va % 8 ≠ 0 ∨ size % 8 ≠ 0
        · rw [if_pos hm]; exact okOrErr_err _
        · rw [if_neg hm]
          by_cases hz : size = 0
          · rw [if_pos hz]; exact okOrErr_err _
          · rw [if_neg hz]
            unfold cadd64
            rw [if_pos (by omega)]
            simp only
            by_cases hin : va ≤ va + size ∧ va + size ≤ v.b.size
            · rw [if_pos hin, if_neg (by omega), if_neg (by omega)]; exact okOrErr_ok _
            · rw [if_neg hin]; exact okOrErr_err _

/-! ### fixed-size record tables (debug: 28-byte records, exception: 12-byte records) -/

/-- the shape shared by `Debug::try_from` and `Exception::try_from` -/
def tableTryFrom (v : View) (idx recSize : Nat) : Out Ref :=
  match v.dataDir idx with
  | none => .err .null
  | some (va, size) =>
    if size % recSize ≠ 0 then .err .invalid
    else v.dervaSlice (.rva va) recSize 4 (size / recSize)

theorem debugTryFrom_eq (v : View) : debugTryFrom v = tableTryFrom v 6 28 := rfl
theorem excTryFrom_eq (v : View) : excTryFrom v = tableTryFrom v 3 12 := rfl

theorem tableTryFrom_ok_iff (v : View) (idx recSize : Nat) (hr : recSize < 4294967296) (t : Ref) :
    tableTryFrom v idx recSize = .ok t ↔
      ∃ va size, v.dataDir idx = some (va, size) ∧ size % recSize = 0 ∧
        ∃ s, v.at (.rva va) size 4 = .ok s ∧ t = ⟨s.off, size, 4⟩ := by
  unfold tableTryFrom
  cases hd : v.dataDir idx with
  | none =>
    simp only
    constructor
    · intro h; cases h
    · rintro ⟨va, size, h, _⟩; cases h
  | some p =>
    obtain ⟨va, size⟩ := p
    obtain ⟨l1, l2⟩ := dataDir_lt hd
    simp only
    by_cases hm : size % recSize ≠ 0
    · rw [if_pos hm]
      constructor
      · intro h; cases h
      · rintro ⟨va', size', h, h', _⟩; cases h; exact absurd h' hm
    · rw [if_neg hm]
      have hm' : size % recSize = 0 := by omega
      have e : recSize * (size / recSize) = size := Nat.mul_div_cancel' (Nat.dvd_of_mod_eq_zero hm')
      rw [dervaSlice_unfold]
      rw [e, if_neg (by omega)]
      constructor
      · intro h
        cases ha : v.at (.rva va) size 4 with
        | ok s => rw [ha] at h; cases h; exact ⟨va, size, rfl, hm', s, ha, rfl⟩
        | err e => rw [ha] at h; cases h
        | panic s => rw [ha] at h; cases h
        | ub s => rw [ha] at h; cases h
        | diverge => rw [ha] at h; cases h
      · rintro ⟨va', size', h, _, s, hs, rfl⟩
        cases h
        rw [hs]

theorem tableTryFrom_errors (v : View) (idx recSize : Nat) :
    (v.dataDir idx = none → tableTryFrom v idx recSize = .err .null) ∧
    (∀ va size, v.dataDir idx = some (va, size) → size % recSize ≠ 0 → tableTryFrom v idx recSize = .err .invalid) ∧
    (∀ size, v.dataDir idx = some (0, size) → size % recSize = 0 → tableTryFrom v idx recSize = .err .null) := by
  unfold tableTryFrom
  refine ⟨fun h => by rw [h], fun va size h hm => by rw [h]; simp only; rw [if_pos hm], fun size h hm => ?_⟩
  rw [h]
  simp only
  rw [if_neg (by omega)]
  rw [dervaSlice_unfold]
  split
  · -- recSize * (size / recSize) ≤ size < 2^32
    rename_i ho
    have := dataDir_lt h
    have : recSize * (size / recSize) ≤ size := Nat.mul_div_le size recSize
    omega
  · rw [(C05_null v _ 4).1]

theorem tableTryFrom_safe (v : View) (idx recSize : Nat) :
    OkOrErr (tableTryFrom v idx recSize) ∧
    ∀ t, tableTryFrom v idx recSize = .ok t → RefOK v.img t ∧ t.align = 4 := by
  unfold tableTryFrom
  cases hd : v.dataDir idx with
  | none => exact ⟨okOrErr_err _, fun _ h => by cases h⟩
  | some p =>
    obtain ⟨va, size⟩ := p
    simp only
    split
    · exact ⟨okOrErr_err _, fun _ h => by cases h⟩
    · obtain ⟨h1, h2⟩ := dervaSlice_safe v (.rva va) recSize 4 (size / recSize) isPow2_4
      exact ⟨h1, fun t ht => ⟨(h2 t ht).1, (h2 t ht).2.2⟩⟩

/-! ### zero-terminated VA lists -/

theorem vaListUntilZero_eq (b : Bytes) (ps : Nat) :
    ∀ (n off avail : Nat), n + 1 ≤ avail → leN b (off + n * ps) ps = 0 →
      (∀ j, j < n → leN b (off + j * ps) ps ≠ 0) →
      Spec.vaListUntilZero b off ps avail = some ((List.range n).map fun j => leN b (off + j * ps) ps) := by
  intro n
  induction n with
  | zero =>
    intro off avail h1 h2 _
    obtain ⟨a, rfl⟩ : ∃ a, avail = a + 1 := ⟨avail - 1, by omega⟩
    unfold Spec.vaListUntilZero
    simp only [Nat.zero_mul, Nat.add_zero] at h2
    simp [h2]
  | succ n ih =>
    intro off avail h1 h2 h3
    obtain ⟨a, rfl⟩ : ∃ a, avail = a + 1 := ⟨avail - 1, by omega⟩
    unfold Spec.vaListUntilZero
    have h0 := h3 0 (by omega)
    simp only [Nat.zero_mul, Nat.add_zero] at h0
    simp only [h0, if_false]
    have e : ∀ j, off + ps + j * ps = off + (j + 1) * ps := fun j => by rw [Nat.succ_mul]; omega
    rw [ih (off + ps) a (by omega) (by rw [e]; exact h2) (fun j hj => by rw [e]; exact h3 (j + 1) (by omega))]
    simp only [Option.map_some, Option.some.injEq]
    rw [List.range_succ_eq_map, List.map_cons, List.map_map]
    simp only [Nat.zero_mul, Nat.add_zero, List.cons.injEq, true_and]
    apply List.map_congr_left
    intro j _
    simp only [Function.comp, e]

/-- what a `some` answer of the specification's list means: the first zero entry is entry `l.length`, inside the
available entries, and `l` is the entries before it -/
theorem vaListUntilZero_some (b : Bytes) (ps : Nat) :
    ∀ (avail off : Nat) (l : List Nat), Spec.vaListUntilZero b off ps avail = some l →
      l.length + 1 ≤ avail ∧ leN b (off + l.length * ps) ps = 0 ∧
      (∀ j, j < l.length → leN b (off + j * ps) ps ≠ 0) ∧
      l = (List.range l.length).map fun j => leN b (off + j * ps) ps := by
  intro avail
  induction avail with
  | zero => intro off l h; cases h
  | succ a ih =>
    intro off l h
    unfold Spec.vaListUntilZero at h
    simp only at h
    have e : ∀ j, off + ps + j * ps = off + (j + 1) * ps := fun j => by rw [Nat.succ_mul]; omega
    by_cases h0 : leN b off ps = 0
    · rw [if_pos h0] at h
      cases h
      refine ⟨by simp, by simpa using h0, fun j hj => by simp at hj, by simp⟩
    · rw [if_neg h0] at h
      cases hr : Spec.vaListUntilZero b (off + ps) ps a with
      | none => rw [hr] at h; cases h
      | some l' =>
        rw [hr] at h
        simp only [Option.map_some, Option.some.injEq] at h
        subst h
        obtain ⟨g1, g2, g3, g4⟩ := ih (off + ps) l' hr
        refine ⟨by simp only [List.length_cons]; omega, ?_, ?_, ?_⟩
        · simp only [List.length_cons]; rw [← e]; exact g2
        · intro j hj
          simp only [List.length_cons] at hj
          cases j with
          | zero => simpa using h0
          | succ j => rw [← e]; exact g3 j (by omega)
        · simp only [List.length_cons]
          rw [List.range_succ_eq_map, List.map_cons, List.map_map]
          simp only [Nat.zero_mul, Nat.add_zero, List.cons.injEq, true_and]
          conv => lhs; rw [g4]
          apply List.map_congr_left
          intro j _
          simp only [Function.comp, e]

theorem vaListUntilZero_none (b : Bytes) (ps : Nat) :
    ∀ (avail off : Nat), (∀ j, j < avail → leN b (off + j * ps) ps ≠ 0) →
      Spec.vaListUntilZero b off ps avail = none := by
  intro avail
  induction avail with
  | zero => intro off _; rfl
  | succ a ih =>
    intro off h
    unfold Spec.vaListUntilZero
    have h0 := h 0 (by omega)
    simp only [Nat.zero_mul, Nat.add_zero] at h0
    simp only [h0, if_false]
    have e : ∀ j, off + ps + j * ps = off + (j + 1) * ps := fun j => by rw [Nat.succ_mul]; omega
    rw [ih (off + ps) (fun j hj => by rw [e]; exact h (j + 1) (by omega))]
    rfl

/-! ### exact success conditions of `dbg`, `pgo`, `unwind_info` -/

theorem dbgEntry_ok_iff (v : View) (d : Nat) (r : Ref) :
    dbgEntry v d = .ok r ↔
      ∃ data, dirData v d = some data ∧ 12 ≤ data.len ∧ (v.img.base + data.off) % 4 = 0 ∧ r = ⟨data.off, 12, 4⟩ := by
  unfold dbgEntry
  cases hd : dirData v d with
  | none =>
    simp only
    constructor
    · intro h; cases h
    · rintro ⟨data, h, _⟩; cases h
  | some data =>
    obtain ⟨hin, _⟩ := dirData_sound hd
    simp only
    by_cases h12 : data.len < 12
    · rw [if_pos h12]
      constructor
      · intro h; cases h
      · rintro ⟨data', h, h', _⟩; cases h; omega
    · rw [if_neg h12]
      by_cases hm : (v.img.base + data.off) % 4 ≠ 0
      · rw [if_pos hm]
        constructor
        · intro h; cases h
        · rintro ⟨data', h, _, h', _⟩; cases h; exact absurd h' hm
      · rw [if_neg hm]
        have hm' : (v.img.base + data.off) % 4 = 0 := by omega
        rw [rawRef_eq_ok (by omega) hm']
        constructor
        · intro h; cases h; exact ⟨data, rfl, by omega, hm', rfl⟩
        · rintro ⟨data', h, _, _, rfl⟩; cases h; rfl

theorem pgoEntry_ok_iff (v : View) (d : Nat) (r : Ref) :
    pgoEntry v d = .ok r ↔
      ∃ data, dirData v d = some data ∧ 4 ≤ data.len ∧ (v.img.base + data.off) % 4 = 0 ∧
        r = ⟨data.off, 4 * (data.len / 4), 4⟩ := by
  unfold pgoEntry
  cases hd : dirData v d with
  | none =>
    simp only
    constructor
    · intro h; cases h
    · rintro ⟨data, h, _⟩; cases h
  | some data =>
    obtain ⟨hin, _⟩ := dirData_sound hd
    simp only
    by_cases h4 : data.len < 4
    · rw [if_pos h4]
      constructor
      · intro h; cases h
      · rintro ⟨data', h, h', _⟩; cases h; omega
    · rw [if_neg h4]
      by_cases hm : (v.img.base + data.off) % 4 ≠ 0
      · rw [if_pos hm]
        constructor
        · intro h; cases h
        · rintro ⟨data', h, _, h', _⟩; cases h; exact absurd h' hm
      · rw [if_neg hm]
        have hm' : (v.img.base + data.off) % 4 = 0 := by omega
        rw [rawRef_eq_ok (by omega) hm']
        constructor
        · intro h; cases h; exact ⟨data, rfl, by omega, hm', rfl⟩
        · rintro ⟨data', h, _, _, rfl⟩; cases h; rfl

/-- the typed errors of `dbg` / `pgo`, in the order the code tests them (`minLen` = 12 / 4) -/
theorem dbgEntry_errors (v : View) (d : Nat) :
    (dirData v d = none → dbgEntry v d = .err .bounds) ∧
    (∀ data, dirData v d = some data → data.len < 12 → dbgEntry v d = .err .bounds) ∧
    (∀ data, dirData v d = some data → 12 ≤ data.len → (v.img.base + data.off) % 4 ≠ 0 →
      dbgEntry v d = .err .misaligned) := by
  unfold dbgEntry
  refine ⟨fun h => by rw [h], fun data h hl => by rw [h]; simp only; rw [if_pos hl], fun data h hl hm => ?_⟩
  rw [h]; simp only; rw [if_neg (by omega), if_pos hm]

theorem pgoEntry_errors (v : View) (d : Nat) :
    (dirData v d = none → pgoEntry v d = .err .bounds) ∧
    (∀ data, dirData v d = some data → data.len < 4 → pgoEntry v d = .err .bounds) ∧
    (∀ data, dirData v d = some data → 4 ≤ data.len → (v.img.base + data.off) % 4 ≠ 0 →
      pgoEntry v d = .err .misaligned) := by
  unfold pgoEntry
  refine ⟨fun h => by rw [h], fun data h hl => by rw [h]; simp only; rw [if_pos hl], fun data h hl hm => ?_⟩
  rw [h]; simp only; rw [if_neg (by omega), if_pos hm]

theorem wrapEntry_eq_bind {α : Type} (f : α → Entry) (o : Out α) :
    (o >>= fun a => Out.ok (f a)) = Spec.wrapEntry f o := by
  cases o <;> rfl

theorem unwindInfo_ok_iff (v : View) (t : Ref) (i : Nat) (im : Ref) :
    unwindInfo v t i = .ok im ↔
      ∃ s, v.at (.rva (rfUnwind v.b t i)) 4 1 = .ok s ∧ im = ⟨s.off, 4, 1⟩ ∧
        4 + 2 * byteAt v.b (s.off + 2) ≤ s.len := by
  unfold unwindInfo
  have e : v.slice (rfUnwind v.b t i) 4 1 = v.at (.rva (rfUnwind v.b t i)) 4 1 := rfl
  rw [e]
  cases h : v.at (.rva (rfUnwind v.b t i)) 4 1 with
  | ok s =>
    obtain ⟨⟨h1, _⟩, h2, _⟩ := at_sound v _ 4 1 s h
    simp only
    rw [rawRef_eq_ok (by omega) (Nat.mod_one _)]
    simp only [Out.bind_ok]
    by_cases hc : s.len < 4 + 2 * byteAt v.b (s.off + 2)
    · rw [if_pos hc]
      constructor
      · intro hh; cases hh
      · rintro ⟨s', hs', _, hle⟩; cases hs'; omega
    · rw [if_neg hc]
      constructor
      · intro hh; cases hh; exact ⟨s, rfl, rfl, by omega⟩
      · rintro ⟨s', hs', rfl, _⟩; cases hs'; rfl
  | err e =>
    simp only
    constructor
    · intro hh; cases hh
    · rintro ⟨s, hs, _⟩; cases hs
  | panic x =>
    simp only
    constructor
    · intro hh; cases hh
    · rintro ⟨s, hs, _⟩; cases hs
  | ub x =>
    simp only
    constructor
    · intro hh; cases hh
    · rintro ⟨s, hs, _⟩; cases hs
  | diverge =>
    simp only
    constructor
    · intro hh; cases hh
    · rintro ⟨s, hs, _⟩; cases hs

theorem unwindInfo_errors (v : View) (t : Ref) (i : Nat) :
    (∀ s, v.at (.rva (rfUnwind v.b t i)) 4 1 = .ok s → s.len < 4 + 2 * byteAt v.b (s.off + 2) →
      unwindInfo v t i = .err .bounds) ∧
    (∀ e, v.at (.rva (rfUnwind v.b t i)) 4 1 = .err e → unwindInfo v t i = .err e) := by
  unfold unwindInfo
  have e : v.slice (rfUnwind v.b t i) 4 1 = v.at (.rva (rfUnwind v.b t i)) 4 1 := rfl
  rw [e]
  refine ⟨fun s h hc => ?_, fun e h => by rw [h]⟩
  obtain ⟨⟨h1, _⟩, h2, _⟩ := at_sound v _ 4 1 s h
  rw [h]
  simp only
  rw [rawRef_eq_ok (by omega) (Nat.mod_one _)]
  simp only [Out.bind_ok]
  rw [if_pos hc]

end Pelite.Dirs
