import PeliteModel.Lemmas.Dirs
/-!
Concrete images for the non-vacuity examples of C15 (`Thm/C15.lean`): every hypothesis of a C15 theorem is
shown satisfiable on one of them, and the model's answers on them are the ones the real library gives
(the generator `gen_dirs.gen_dirs_examples` reads the byte arrays out of THIS file and replays them, and the
two variants the examples derive from them, through the model driver and the Rust harness on every check).

* `demoBytes`     — 616-byte PE32 image without sections, all five directories (mapped view `demoView`, file
  view `demoFile` for the certificate table);
* `demoBytes64`   — 664-byte PE32+ image without sections (`demoView64`, mapped, ImageBase 0x140000000):
  exception table at 336 (records [100,116), [120,130), unwind info at 328), CodeView RSDS record at 360
  ("b.pdb"), CodeView NB10 record at 392 ("c.pdb"), debug directory at 416 (2 entries), TLS template / slot /
  8-byte callbacks at 472 / 480 / 488, IMAGE_TLS_DIRECTORY64 at 512, IMAGE_LOAD_CONFIG_DIRECTORY64 at 552;
* `demoFileBytes` — 480-byte PE32 FILE with one section (.rdata: RVA 0x1000, raw data at file offset 352,
  0x80 bytes): NB10 record at file offset 352 = RVA 0x1000 ("d.pdb"), debug directory at 376 = RVA 0x1018
  (one entry: AddressOfRawData 0x1000, PointerToRawData 352), TLS callbacks at 408 = RVA 0x1038, TLS
  directory at 416 = RVA 0x1040.  In the file view (`demoFile32`) every RVA / VA goes through the section
  table; the same bytes taken as a mapped view (`demoFileAsView`) have nothing at RVA 0x1000.
-/
namespace Pelite.Dirs
open Pelite Pelite.Pe

def demoBytes : Bytes := #[
    77, 90, 0, 0, 0, 0, 0, 0, 0, 0, 0, 0, 0, 0, 0, 0, 0, 0, 0, 0, 0, 0, 0, 0, 0, 0, 0, 0, 0, 0, 0, 0,
    0, 0, 0, 0, 0, 0, 0, 0, 0, 0, 0, 0, 0, 0, 0, 0, 0, 0, 0, 0, 0, 0, 0, 0, 0, 0, 0, 0, 64, 0, 0, 0,
    80, 69, 0, 0, 76, 1, 0, 0, 0, 0, 0, 95, 0, 0, 0, 0, 0, 0, 0, 0, 224, 0, 2, 33, 11, 1, 14, 0, 0, 2, 0, 0,
    0, 2, 0, 0, 0, 0, 0, 0, 0, 16, 0, 0, 0, 16, 0, 0, 0, 32, 0, 0, 0, 0, 64, 0, 0, 16, 0, 0, 0, 2, 0, 0,
    6, 0, 0, 0, 0, 0, 0, 0, 6, 0, 0, 0, 0, 0, 0, 0, 104, 2, 0, 0, 56, 1, 0, 0, 0, 0, 0, 0, 3, 0, 64, 129,
    0, 0, 16, 0, 0, 16, 0, 0, 0, 0, 16, 0, 0, 16, 0, 0, 0, 0, 0, 0, 16, 0, 0, 0, 0, 0, 0, 0, 0, 0, 0, 0,
    0, 0, 0, 0, 0, 0, 0, 0, 0, 0, 0, 0, 0, 0, 0, 0, 64, 1, 0, 0, 36, 0, 0, 0, 88, 2, 0, 0, 16, 0, 0, 0,
    0, 0, 0, 0, 0, 0, 0, 0, 172, 1, 0, 0, 56, 0, 0, 0, 0, 0, 0, 0, 0, 0, 0, 0, 0, 0, 0, 0, 0, 0, 0, 0,
    248, 1, 0, 0, 24, 0, 0, 0, 16, 2, 0, 0, 72, 0, 0, 0, 0, 0, 0, 0, 0, 0, 0, 0, 0, 0, 0, 0, 0, 0, 0, 0,
    0, 0, 0, 0, 0, 0, 0, 0, 0, 0, 0, 0, 0, 0, 0, 0, 0, 0, 0, 0, 0, 0, 0, 0, 1, 2, 1, 0, 5, 66, 0, 0,
    100, 0, 0, 0, 116, 0, 0, 0, 56, 1, 0, 0, 116, 0, 0, 0, 116, 0, 0, 0, 0, 0, 0, 0, 132, 0, 0, 0, 148, 0, 0, 0,
    0, 0, 0, 0, 82, 83, 68, 83, 1, 2, 3, 4, 5, 6, 7, 8, 9, 10, 11, 12, 13, 14, 15, 16, 7, 0, 0, 0, 97, 46, 112, 100,
    98, 0, 0, 0, 76, 84, 67, 71, 0, 16, 0, 0, 16, 0, 0, 0, 46, 116, 101, 120, 116, 0, 0, 0, 0, 32, 0, 0, 32, 0, 0, 0,
    46, 114, 100, 97, 116, 97, 36, 122, 122, 0, 0, 0, 0, 0, 0, 0, 68, 51, 34, 17, 1, 0, 0, 0, 2, 0, 0, 0, 30, 0, 0, 0,
    100, 1, 0, 0, 100, 1, 0, 0, 0, 0, 0, 0, 0, 0, 0, 0, 0, 0, 0, 0, 13, 0, 0, 0, 40, 0, 0, 0, 132, 1, 0, 0,
    132, 1, 0, 0, 170, 187, 204, 221, 5, 0, 0, 0, 100, 0, 64, 0, 132, 0, 64, 0, 0, 0, 0, 0, 228, 1, 64, 0, 232, 1, 64, 0,
    232, 1, 64, 0, 236, 1, 64, 0, 0, 0, 0, 0, 0, 0, 0, 0, 72, 0, 0, 0, 0, 0, 0, 0, 0, 0, 0, 0, 0, 0, 0, 0,
    0, 0, 0, 0, 0, 0, 0, 0, 0, 0, 0, 0, 0, 0, 0, 0, 0, 0, 0, 0, 0, 0, 0, 0, 0, 0, 0, 0, 0, 0, 0, 0,
    0, 0, 0, 0, 0, 0, 0, 0, 0, 0, 0, 0, 232, 1, 64, 0, 236, 1, 64, 0, 2, 0, 0, 0, 16, 0, 0, 0, 0, 2, 2, 0,
    48, 130, 1, 2, 3, 4, 5, 6]

def demoView : View := ⟨⟨demoBytes, 0⟩, .pe32, .view, 0x400000⟩
def demoFile : View := ⟨⟨demoBytes, 0⟩, .pe32, .file, 0x400000⟩


def demoBytes64 : Bytes := #[
    77, 90, 0, 0, 0, 0, 0, 0, 0, 0, 0, 0, 0, 0, 0, 0, 0, 0, 0, 0, 0, 0, 0, 0, 0, 0, 0, 0, 0, 0, 0, 0,
    0, 0, 0, 0, 0, 0, 0, 0, 0, 0, 0, 0, 0, 0, 0, 0, 0, 0, 0, 0, 0, 0, 0, 0, 0, 0, 0, 0, 64, 0, 0, 0,
    80, 69, 0, 0, 100, 134, 0, 0, 0, 0, 0, 95, 0, 0, 0, 0, 0, 0, 0, 0, 240, 0, 34, 32, 11, 2, 14, 0, 0, 2, 0, 0,
    0, 2, 0, 0, 0, 0, 0, 0, 0, 16, 0, 0, 0, 16, 0, 0, 0, 0, 0, 64, 1, 0, 0, 0, 0, 16, 0, 0, 0, 2, 0, 0,
    6, 0, 0, 0, 0, 0, 0, 0, 6, 0, 0, 0, 0, 0, 0, 0, 152, 2, 0, 0, 72, 1, 0, 0, 0, 0, 0, 0, 3, 0, 64, 129,
    0, 0, 16, 0, 0, 0, 0, 0, 0, 16, 0, 0, 0, 0, 0, 0, 0, 0, 16, 0, 0, 0, 0, 0, 0, 16, 0, 0, 0, 0, 0, 0,
    0, 0, 0, 0, 16, 0, 0, 0, 0, 0, 0, 0, 0, 0, 0, 0, 0, 0, 0, 0, 0, 0, 0, 0, 0, 0, 0, 0, 0, 0, 0, 0,
    80, 1, 0, 0, 24, 0, 0, 0, 0, 0, 0, 0, 0, 0, 0, 0, 0, 0, 0, 0, 0, 0, 0, 0, 160, 1, 0, 0, 56, 0, 0, 0,
    0, 0, 0, 0, 0, 0, 0, 0, 0, 0, 0, 0, 0, 0, 0, 0, 0, 2, 0, 0, 40, 0, 0, 0, 40, 2, 0, 0, 112, 0, 0, 0,
    0, 0, 0, 0, 0, 0, 0, 0, 0, 0, 0, 0, 0, 0, 0, 0, 0, 0, 0, 0, 0, 0, 0, 0, 0, 0, 0, 0, 0, 0, 0, 0,
    0, 0, 0, 0, 0, 0, 0, 0, 1, 2, 1, 0, 2, 66, 0, 0, 100, 0, 0, 0, 116, 0, 0, 0, 72, 1, 0, 0, 120, 0, 0, 0,
    130, 0, 0, 0, 72, 1, 0, 0, 82, 83, 68, 83, 17, 18, 19, 20, 21, 22, 23, 24, 25, 26, 27, 28, 29, 30, 31, 32, 9, 0, 0, 0,
    98, 46, 112, 100, 98, 0, 0, 0, 78, 66, 49, 48, 0, 0, 0, 0, 51, 34, 17, 95, 3, 0, 0, 0, 99, 46, 112, 100, 98, 0, 0, 0,
    0, 0, 0, 0, 68, 51, 34, 17, 1, 0, 0, 0, 2, 0, 0, 0, 30, 0, 0, 0, 104, 1, 0, 0, 104, 1, 0, 0, 0, 0, 0, 0,
    136, 119, 102, 85, 2, 0, 0, 0, 2, 0, 0, 0, 22, 0, 0, 0, 136, 1, 0, 0, 136, 1, 0, 0, 161, 162, 163, 164, 165, 166, 167, 168,
    5, 0, 0, 0, 0, 0, 0, 0, 100, 0, 0, 64, 1, 0, 0, 0, 120, 0, 0, 64, 1, 0, 0, 0, 0, 0, 0, 0, 0, 0, 0, 0,
    216, 1, 0, 64, 1, 0, 0, 0, 224, 1, 0, 64, 1, 0, 0, 0, 224, 1, 0, 64, 1, 0, 0, 0, 232, 1, 0, 64, 1, 0, 0, 0,
    0, 0, 0, 0, 0, 0, 0, 0, 112, 0, 0, 0, 0, 0, 0, 0, 0, 0, 0, 0, 0, 0, 0, 0, 0, 0, 0, 0, 0, 0, 0, 0,
    0, 0, 0, 0, 0, 0, 0, 0, 0, 0, 0, 0, 0, 0, 0, 0, 0, 0, 0, 0, 0, 0, 0, 0, 0, 0, 0, 0, 0, 0, 0, 0,
    0, 0, 0, 0, 0, 0, 0, 0, 0, 0, 0, 0, 0, 0, 0, 0, 0, 0, 0, 0, 0, 0, 0, 0, 0, 0, 0, 0, 0, 0, 0, 0,
    224, 1, 0, 64, 1, 0, 0, 0, 232, 1, 0, 64, 1, 0, 0, 0, 2, 0, 0, 0, 0, 0, 0, 0]

def demoFileBytes : Bytes := #[
    77, 90, 0, 0, 0, 0, 0, 0, 0, 0, 0, 0, 0, 0, 0, 0, 0, 0, 0, 0, 0, 0, 0, 0, 0, 0, 0, 0, 0, 0, 0, 0,
    0, 0, 0, 0, 0, 0, 0, 0, 0, 0, 0, 0, 0, 0, 0, 0, 0, 0, 0, 0, 0, 0, 0, 0, 0, 0, 0, 0, 64, 0, 0, 0,
    80, 69, 0, 0, 76, 1, 1, 0, 0, 0, 0, 95, 0, 0, 0, 0, 0, 0, 0, 0, 224, 0, 34, 32, 11, 1, 14, 0, 0, 2, 0, 0,
    0, 2, 0, 0, 0, 0, 0, 0, 0, 16, 0, 0, 0, 16, 0, 0, 0, 32, 0, 0, 0, 0, 64, 0, 0, 16, 0, 0, 0, 2, 0, 0,
    6, 0, 0, 0, 0, 0, 0, 0, 6, 0, 0, 0, 0, 0, 0, 0, 0, 32, 0, 0, 96, 1, 0, 0, 0, 0, 0, 0, 3, 0, 64, 129,
    0, 0, 16, 0, 0, 16, 0, 0, 0, 0, 16, 0, 0, 16, 0, 0, 0, 0, 0, 0, 16, 0, 0, 0, 0, 0, 0, 0, 0, 0, 0, 0,
    0, 0, 0, 0, 0, 0, 0, 0, 0, 0, 0, 0, 0, 0, 0, 0, 0, 0, 0, 0, 0, 0, 0, 0, 0, 0, 0, 0, 0, 0, 0, 0,
    0, 0, 0, 0, 0, 0, 0, 0, 24, 16, 0, 0, 28, 0, 0, 0, 0, 0, 0, 0, 0, 0, 0, 0, 0, 0, 0, 0, 0, 0, 0, 0,
    64, 16, 0, 0, 24, 0, 0, 0, 0, 0, 0, 0, 0, 0, 0, 0, 0, 0, 0, 0, 0, 0, 0, 0, 0, 0, 0, 0, 0, 0, 0, 0,
    0, 0, 0, 0, 0, 0, 0, 0, 0, 0, 0, 0, 0, 0, 0, 0, 0, 0, 0, 0, 0, 0, 0, 0, 46, 114, 100, 97, 116, 97, 0, 0,
    128, 0, 0, 0, 0, 16, 0, 0, 128, 0, 0, 0, 96, 1, 0, 0, 0, 0, 0, 0, 0, 0, 0, 0, 0, 0, 0, 0, 64, 0, 0, 64,
    78, 66, 49, 48, 0, 0, 0, 0, 102, 85, 68, 95, 4, 0, 0, 0, 100, 46, 112, 100, 98, 0, 0, 0, 0, 0, 0, 0, 13, 12, 11, 10,
    1, 0, 0, 0, 2, 0, 0, 0, 22, 0, 0, 0, 0, 16, 0, 0, 96, 1, 0, 0, 0, 0, 0, 0, 16, 16, 64, 0, 0, 0, 0, 0,
    0, 16, 64, 0, 4, 16, 64, 0, 4, 16, 64, 0, 56, 16, 64, 0, 0, 0, 0, 0, 0, 0, 0, 0, 0, 0, 0, 0, 0, 0, 0, 0,
    0, 0, 0, 0, 0, 0, 0, 0, 0, 0, 0, 0, 0, 0, 0, 0, 0, 0, 0, 0, 0, 0, 0, 0, 0, 0, 0, 0, 0, 0, 0, 0]


def demoView64 : View := ⟨⟨demoBytes64, 0⟩, .pe64, .view, 0x140000000⟩
def demoFile32 : View := ⟨⟨demoFileBytes, 0⟩, .pe32, .file, 0x400000⟩
def demoFileAsView : View := ⟨⟨demoFileBytes, 0⟩, .pe32, .view, 0x400000⟩

/-- the three images are accepted by the constructors of their format / kind (`demoBytes64` is not a PE32
image, `demoFileBytes` not a PE32+ one), also by the format-agnostic ones -/
theorem demo_views_constructed :
    fromBytes .pe32 .view ⟨demoBytes, 0⟩ = .ok demoView ∧ fromBytes .pe32 .file ⟨demoBytes, 0⟩ = .ok demoFile ∧
    fromBytes .pe64 .view ⟨demoBytes64, 0⟩ = .ok demoView64 ∧ fromBytes .pe32 .file ⟨demoFileBytes, 0⟩ = .ok demoFile32 ∧
    fromBytes .pe32 .view ⟨demoBytes64, 0⟩ = .err .peMagic ∧ fromBytes .pe64 .file ⟨demoFileBytes, 0⟩ = .err .peMagic ∧
    wrapFromBytes .view ⟨demoBytes64, 0⟩ = .ok demoView64 ∧ wrapFromBytes .file ⟨demoFileBytes, 0⟩ = .ok demoFile32 := by
  have b1 : imageBaseField .pe32 demoBytes = 0x400000 := by decide +kernel
  have b2 : imageBaseField .pe64 demoBytes64 = 0x140000000 := by decide +kernel
  have b3 : imageBaseField .pe32 demoFileBytes = 0x400000 := by decide +kernel
  have a1 : Accept .pe32 ⟨demoBytes, 0⟩ := by decide +kernel
  have a2 : Accept .pe64 ⟨demoBytes64, 0⟩ := by decide +kernel
  have a3 : Accept .pe32 ⟨demoFileBytes, 0⟩ := by decide +kernel
  have e1 : validate .pe32 ⟨demoBytes64, 0⟩ = .err .peMagic := by decide +kernel
  have e2 : validate .pe64 ⟨demoFileBytes, 0⟩ = .err .peMagic := by decide +kernel
  have o3 : fromBytes .pe64 .view ⟨demoBytes64, 0⟩ = .ok demoView64 :=
    (fromBytes_ok_iff _ _ _ _).2 ⟨a2, by rw [b2]; rfl⟩
  have o4 : fromBytes .pe32 .file ⟨demoFileBytes, 0⟩ = .ok demoFile32 :=
    (fromBytes_ok_iff _ _ _ _).2 ⟨a3, by rw [b3]; rfl⟩
  have x2 : fromBytes .pe64 .file ⟨demoFileBytes, 0⟩ = .err .peMagic := by unfold fromBytes; rw [e2]
  refine ⟨(fromBytes_ok_iff _ _ _ _).2 ⟨a1, by rw [b1]; rfl⟩, (fromBytes_ok_iff _ _ _ _).2 ⟨a1, by rw [b1]; rfl⟩,
    o3, o4, by unfold fromBytes; rw [e1], x2, ?_, ?_⟩
  · unfold wrapFromBytes; rw [o3]
  · unfold wrapFromBytes; rw [x2, o4]

end Pelite.Dirs
