import PeliteModel.Model.Exec
import PeliteModel.Model.Scan
import PeliteModel.Spec.Scan
import PeliteModel.Lemmas.PeAddr
/-!
Lemmas about the interpreter model `Exec.exec` (C02 / C03 of src/pe64/scanner.rs and the facts C10
needs about it): totality, fuel sufficiency / recursion depth, the prefix lemma and independence of
the save array.
-/
namespace Pelite.Exec
open Pelite.Pattern

/-- What the interpreter needs from an implementation of `trait Scan` to be panic free: a
successful one-byte read lies strictly below `u32::MAX` (so `self.cursor += 1` cannot overflow) and
yields a byte.  `ofView_wf` / `ofRaw_wf` prove it for the two implementations (buffers < 4 GiB). -/
structure ScanI.WF (S : ScanI) : Prop where
  read1 : ∀ rva v, S.read 1 rva = some v → rva + 1 < 4294967296 ∧ v < 256

/-! ### one loop iteration -/

theorem step_pc {S : ScanI} {a : Atom} {st : St} {m e : Nat} {st' : St} {m' e' : Nat}
    (h : step S a st m e = .ok (some (st', m', e'))) : st'.pc = st.pc := by
  cases a <;> simp only [step] at h <;> (repeat' split at h) <;> simp_all <;> (obtain ⟨rfl, _⟩ := h; rfl)

/-- no iteration panics: the only checked arithmetic is `cursor += 1` after a successful read -/
theorem step_ok {S : ScanI} (hS : S.WF) (a : Atom) (st : St) (m e : Nat) :
    ∃ o, step S a st m e = .ok o := by
  cases a <;> simp only [step] <;> (repeat' split) <;> simp_all
  next h _ _ => have := (hS.read1 _ _ h).1; omega

/-! ### `exec_many` -/

theorem manyLoop_pc_le {mem : Bytes} {ex : St → Out (Bool × St)} {cursor pc off : Nat} {peek : Option Nat}
    (hex : ∀ s b s', ex s = .ok (b, s') → s.pc ≤ s'.pc) :
    ∀ k i st b st', manyLoop mem ex cursor pc off peek k i st = .ok (b, st') → pc ≤ st.pc → pc ≤ st'.pc := by
  intro k
  induction k with
  | zero => intro i st b st' h hp; simp only [manyLoop] at h; cases h; exact hp
  | succ k ih =>
    intro i st b st' h hp
    simp only [manyLoop] at h
    split at h
    · split at h
      · next s'' hs => cases h; exact hex _ _ _ hs
      · next s'' hs => exact ih _ _ _ _ h (hex _ _ _ hs)
      · next hn1 hn2 =>
        cases b with
        | false => exact (hn2 _ h).elim
        | true => exact (hn1 _ h).elim
    · exact ih _ _ _ _ h hp

theorem manyLoop_total {mem : Bytes} {ex : St → Out (Bool × St)} {cursor pc off : Nat} {peek : Option Nat}
    (hex : ∀ s, s.pc = pc → ∃ r, ex s = .ok r) :
    ∀ k i st, ∃ r, manyLoop mem ex cursor pc off peek k i st = .ok r := by
  intro k
  induction k with
  | zero => intro i st; exact ⟨_, rfl⟩
  | succ k ih =>
    intro i st
    simp only [manyLoop]
    split
    · obtain ⟨⟨b, s'⟩, hr⟩ := hex { st with cursor := wadd32 cursor i, pc := pc } rfl
      rw [hr]
      cases b
      · exact ih _ _
      · exact ⟨_, rfl⟩
    · exact ih _ _

theorem execMany_none {S : ScanI} {pat : List Atom} {ex : St → Out (Bool × St)} {st : St} {limit : Nat}
    (hs : S.slice st.cursor = none) : execMany S pat ex st limit = .ok (false, st) := by
  simp [execMany, hs]

theorem execMany_some {S : ScanI} {pat : List Atom} {ex : St → Out (Bool × St)} {st : St} {limit off len : Nat}
    (hs : S.slice st.cursor = some (off, len)) (hle : st.pc ≤ pat.length) :
    execMany S pat ex st limit =
      manyLoop S.mem ex st.cursor st.pc off (peekByte (pat.drop st.pc))
        (if limit = 0 then len else min limit len) 0 st := by
  simp [execMany, hs, hle]

/-! ### the program counter only moves forward -/

/-- **every call of `exec` returns with a `pc` at or beyond the one it started with** — hence the
continuation of the loop and every nested call start at a strictly larger `pc` than the atom that
caused them. -/
theorem exec_pc_mono (S : ScanI) (pat : List Atom) :
    ∀ fuel st mask ext b st', exec S pat fuel st mask ext = .ok (b, st') → st.pc ≤ st'.pc := by
  intro fuel st mask ext
  fun_induction exec S pat fuel st mask ext with
  | case1 => intro b st' h; cases h
  | case2 => intro b st' h; cases h; exact Nat.le_refl _
  | case3 fuel st0 mask ext st skip cursor st1 h1 hp ih2 ih1 =>
    intro b st' h
    have := ih2 _ _ h1
    have := ih1 _ _ h
    simp only [st] at *; omega
  | case4 fuel st0 mask ext st skip hp hne ih1 =>
    intro b st' h
    have := ih1 _ _ h
    simp only [st] at *; omega
  | case5 fuel st0 mask ext st hp => intro b st' h; cases h; simp only [st]; omega
  | case6 fuel st0 mask ext st limit hp ih1 =>
    intro b st' h
    obtain ⟨hlt, _⟩ := List.getElem?_eq_some_iff.1 hp
    cases hsl : S.slice st.cursor with
    | none => rw [execMany_none hsl] at h; cases h; simp only [st]; omega
    | some ol =>
      obtain ⟨off, len⟩ := ol
      rw [execMany_some hsl (by simp only [st]; omega)] at h
      have := manyLoop_pc_le (fun s b s' hs => ih1 s b s' hs) _ _ _ _ _ h (Nat.le_refl _)
      simp only [st] at this; omega
  | case7 fuel st0 mask ext st next st1 h1 hp ih2 ih1 =>
    intro b st' h
    have := ih2 _ _ h1
    have := ih1 _ _ h
    simp only [st] at *; omega
  | case8 fuel st0 mask ext st next st1 h1 hp ih2 ih1 =>
    intro b st' h
    have := ih1 _ _ h
    simp only [st] at *; omega
  | case9 fuel st0 mask ext st next hp hn1 hn2 ih1 =>
    intro b st' h
    have := ih1 _ _ h
    simp only [st] at *; omega
  | case10 fuel st0 mask ext st next hp => intro b st' h; cases h; simp only [st]; omega
  | case11 fuel st0 mask ext st a _ _ _ _ _ hs hp => intro b st' h; cases h; simp only [st]; omega
  | case12 fuel st0 mask ext st a _ _ _ _ _ st1 m1 e1 hs hp ih1 =>
    intro b st' h
    have := ih1 _ _ h
    have := step_pc hs
    simp only [st] at *; omega
  | case13 => intro b st' h; cases h
  | case14 => intro b st' h; cases h
  | case15 => intro b st' h; cases h
  | case16 => intro b st' h; cases h

/-! ### totality: no panic, no undefined behaviour, fuel `pat.length + 1 - pc` suffices -/

/-- **(a)** `exec` started at `pc` with fuel `≥ pat.length + 1 - pc` (and `≥ 1`) returns normally.
The fuel is handed down to the nested calls and the loop continuation alike, so it bounds the depth
of the chain of active frames: every frame starts at a strictly larger `pc` than its caller's
current atom (`exec_pc_mono`), i.e. the Rust recursion depth is at most `pat.len() + 1`. -/
theorem exec_total {S : ScanI} (hS : S.WF) (pat : List Atom) :
    ∀ fuel st mask ext, pat.length + 1 ≤ fuel + st.pc → 1 ≤ fuel →
      ∃ r, exec S pat fuel st mask ext = .ok r := by
  intro fuel st mask ext
  fun_induction exec S pat fuel st mask ext with
  | case1 => intro _ h; omega
  | case2 => intro _ _; exact ⟨_, rfl⟩
  | case3 fuel st0 mask ext st skip cursor st1 h1 hp ih2 ih1 =>
    intro hf _
    obtain ⟨hlt, _⟩ := List.getElem?_eq_some_iff.1 hp
    have := exec_pc_mono S pat _ _ _ _ _ _ h1
    apply ih1 <;> (try simp only [st] at *) <;> omega
  | case4 fuel st0 mask ext st skip hp hne ih1 =>
    intro hf _
    obtain ⟨hlt, _⟩ := List.getElem?_eq_some_iff.1 hp
    apply ih1 <;> (try simp only [st] at *) <;> omega
  | case5 => intro _ _; exact ⟨_, rfl⟩
  | case6 fuel st0 mask ext st limit hp ih1 =>
    intro hf _
    obtain ⟨hlt, _⟩ := List.getElem?_eq_some_iff.1 hp
    cases hsl : S.slice st.cursor with
    | none => rw [execMany_none hsl]; exact ⟨_, rfl⟩
    | some ol =>
      obtain ⟨off, len⟩ := ol
      rw [execMany_some hsl (by simp only [st]; omega)]
      apply manyLoop_total
      intro s hs
      apply ih1 <;> (try simp only [hs, st]) <;> omega
  | case7 fuel st0 mask ext st next st1 h1 hp ih2 ih1 =>
    intro hf _
    obtain ⟨hlt, _⟩ := List.getElem?_eq_some_iff.1 hp
    have := exec_pc_mono S pat _ _ _ _ _ _ h1
    apply ih1 <;> (try simp only [st] at *) <;> omega
  | case8 fuel st0 mask ext st next st1 h1 hp ih2 ih1 =>
    intro hf _
    obtain ⟨hlt, _⟩ := List.getElem?_eq_some_iff.1 hp
    apply ih1 <;> (try simp only [st] at *) <;> omega
  | case9 fuel st0 mask ext st next hp hn1 hn2 ih1 =>
    intro hf _
    obtain ⟨hlt, _⟩ := List.getElem?_eq_some_iff.1 hp
    obtain ⟨⟨b, s'⟩, hr⟩ := ih1 (by simp only [st]; omega) (by omega)
    cases b
    · exact absurd hr (hn2 s')
    · exact absurd hr (hn1 s')
  | case10 => intro _ _; exact ⟨_, rfl⟩
  | case11 => intro _ _; exact ⟨_, rfl⟩
  | case12 fuel st0 mask ext st a _ _ _ _ _ st1 m1 e1 hs hp ih1 =>
    intro hf _
    obtain ⟨hlt, _⟩ := List.getElem?_eq_some_iff.1 hp
    have := step_pc hs
    apply ih1 <;> (try simp only [st] at *) <;> omega
  | case13 fuel st0 mask ext st a _ _ _ _ _ e hs => obtain ⟨o, ho⟩ := step_ok hS a st mask ext; rw [ho] at hs; cases hs
  | case14 fuel st0 mask ext st a _ _ _ _ _ e hs => obtain ⟨o, ho⟩ := step_ok hS a st mask ext; rw [ho] at hs; cases hs
  | case15 fuel st0 mask ext st a _ _ _ _ _ e hs => obtain ⟨o, ho⟩ := step_ok hS a st mask ext; rw [ho] at hs; cases hs
  | case16 fuel st0 mask ext st a _ _ _ _ _ hs => obtain ⟨o, ho⟩ := step_ok hS a st mask ext; rw [ho] at hs; cases hs

/-- `Scanner::exec` returns normally for every atom list, cursor and save array -/
theorem run_total {S : ScanI} (hS : S.WF) (pat : List Atom) (c : Nat) (save : Array Nat) :
    ∃ b s, run S pat c save = .ok (b, s) := by
  obtain ⟨⟨b, st⟩, h⟩ := exec_total hS pat (fuelFor pat) ⟨0, c, save⟩ 0xff 0 (by simp [fuelFor]) (by simp [fuelFor])
  exact ⟨b, st.save, by simp only [run, h]⟩

/-! ### unfolding `exec` one atom at a time -/

/-- the atoms `exec` handles itself (recursive calls / early `return true`) -/
def isCtl : Atom → Bool
  | .push _ | .pop | .many _ | .case _ | .brk _ => true
  | _ => false

theorem exec_zero (S : ScanI) (pat : List Atom) (st : St) (m e : Nat) : exec S pat 0 st m e = .diverge := rfl

theorem exec_none {S : ScanI} {pat : List Atom} {fuel : Nat} {st : St} {m e : Nat}
    (hp : pat[st.pc]? = none) : exec S pat (fuel + 1) st m e = .ok (true, st) := by
  rw [exec]; simp only [hp]

theorem exec_push {S : ScanI} {pat : List Atom} {fuel : Nat} {st : St} {m e skip : Nat}
    (hp : pat[st.pc]? = some (.push skip)) :
    exec S pat (fuel + 1) st m e =
      match exec S pat fuel { st with pc := st.pc + 1 } 0xff 0 with
      | .ok (true, st') => exec S pat fuel { st' with cursor := wadd32 st.cursor (skipAmt S e skip) } 0xff 0
      | o => o := by
  rw [exec]; simp only [hp] <;> rfl

theorem exec_pop {S : ScanI} {pat : List Atom} {fuel : Nat} {st : St} {m e : Nat}
    (hp : pat[st.pc]? = some .pop) :
    exec S pat (fuel + 1) st m e = .ok (true, { st with pc := st.pc + 1 }) := by
  rw [exec]; simp only [hp]

theorem exec_many {S : ScanI} {pat : List Atom} {fuel : Nat} {st : St} {m e limit : Nat}
    (hp : pat[st.pc]? = some (.many limit)) :
    exec S pat (fuel + 1) st m e =
      execMany S pat (fun s => exec S pat fuel s 0xff 0) { st with pc := st.pc + 1 } (e + limit) := by
  rw [exec]; simp only [hp]

theorem exec_case {S : ScanI} {pat : List Atom} {fuel : Nat} {st : St} {m e next : Nat}
    (hp : pat[st.pc]? = some (.case next)) :
    exec S pat (fuel + 1) st m e =
      match exec S pat fuel { st with pc := st.pc + 1 } 0xff 0 with
      | .ok (true, st') => exec S pat fuel st' m e
      | .ok (false, st') => exec S pat fuel { st' with pc := st.pc + 1 + next, cursor := st.cursor } m e
      | o => o := by
  rw [exec]; simp only [hp] <;> rfl

theorem exec_brk {S : ScanI} {pat : List Atom} {fuel : Nat} {st : St} {m e next : Nat}
    (hp : pat[st.pc]? = some (.brk next)) :
    exec S pat (fuel + 1) st m e = .ok (true, { st with pc := st.pc + 1 + next }) := by
  rw [exec]; simp only [hp]

theorem exec_simple {S : ScanI} {pat : List Atom} {fuel : Nat} {st : St} {m e : Nat} {a : Atom}
    (hp : pat[st.pc]? = some a) (ha : isCtl a = false) :
    exec S pat (fuel + 1) st m e =
      match step S a { st with pc := st.pc + 1 } m e with
      | .ok none => .ok (false, { st with pc := st.pc + 1 })
      | .ok (some (st', m', e')) => exec S pat fuel st' m' e'
      | .err x => .err x
      | .panic s => .panic s
      | .ub s => .ub s
      | .diverge => .diverge := by
  rw [exec]; simp only [hp]
  cases a <;> first | (simp [isCtl] at ha; done) | rfl

/-! ### (b) the prefix lemma -/

theorem and255 (v : Nat) : v &&& 255 = v % 256 := Nat.and_two_pow_sub_one_eq_mod v 8

/-- If `exec` (with the initial mask `0xff`) succeeds from `pc` at `cursor`, the literal prefix that
`Matches::setup` extracts from `pat[pc..]` is what the image holds at `cursor..`. -/
theorem exec_prefix {S : ScanI} (hS : S.WF) (pat : List Atom) (hok : pat.all Atom.ok = true) :
    ∀ fuel st room e st', exec S pat fuel st 0xff e = .ok (true, st') →
      ∀ i b, (Scan.setupGo (pat.drop st.pc) room)[i]? = some b → S.read 1 (st.cursor + i) = some b := by
  intro fuel
  induction fuel with
  | zero => intro st room e st' h; cases h
  | succ fuel ih =>
    intro st room e st' h i b hb
    cases hp : pat[st.pc]? with
    | none =>
      rw [List.drop_eq_nil_of_le (List.getElem?_eq_none_iff.1 hp)] at hb
      simp [Scan.setupGo] at hb
    | some a =>
      obtain ⟨hlt, hget⟩ := List.getElem?_eq_some_iff.1 hp
      have haok : Atom.ok a = true := List.all_eq_true.1 hok a (List.mem_of_getElem? hp)
      rw [List.drop_eq_getElem_cons hlt, hget] at hb
      cases a with
      | byte b0 =>
        rw [exec_simple hp rfl] at h
        simp only [step] at h
        simp only [Scan.setupGo] at hb
        split at hb
        · simp at hb
        · cases hr : S.read 1 st.cursor with
          | none => simp [hr] at h
          | some v =>
            obtain ⟨hv1, hv2⟩ := hS.read1 _ _ hr
            by_cases hand : v &&& 255 = b0 &&& 255
            · simp only [hr, hand, if_true, hv1] at h
              simp only [and255] at hand
              have hb0 : b0 < 256 := by simpa [Atom.ok] using haok
              have hvb : v = b0 := by omega
              cases i with
              | zero =>
                simp only [List.getElem?_cons_zero, Option.some.injEq] at hb
                rw [Nat.add_zero, hr, hvb, hb]
              | succ j =>
                simp only [List.getElem?_cons_succ] at hb
                have := ih _ _ _ _ h j b hb
                simpa [Nat.add_assoc, Nat.add_comm 1 j] using this
            · simp [hr, hand] at h
      | save slot =>
        rw [exec_simple hp rfl] at h
        simp only [step] at h
        simp only [Scan.setupGo] at hb
        exact ih _ _ _ _ h i b hb
      | aligned n =>
        rw [exec_simple hp rfl] at h
        simp only [step] at h
        simp only [Scan.setupGo] at hb
        by_cases hal : n < 32 ∧ st.cursor % 2 ^ n ≠ 0
        · simp [hal] at h
        · simp only [hal, if_false] at h
          exact ih _ _ _ _ h i b hb
      | nop =>
        rw [exec_simple hp rfl] at h
        simp only [step] at h
        simp only [Scan.setupGo] at hb
        exact ih _ _ _ _ h i b hb
      | _ => simp [Scan.setupGo] at hb

/-- **(b)** if `Scanner::exec` succeeds at `c`, the image holds the literal prefix `setup pat`
(`qsbuf[..qslen]`) at `c ..` — what makes strategies 1 and 2 complete. -/
theorem run_prefix {S : ScanI} (hS : S.WF) (pat : List Atom) (hok : pat.all Atom.ok = true)
    (c : Nat) (save s' : Array Nat) (h : run S pat c save = .ok (true, s')) :
    ∀ i b, (Scan.setup pat)[i]? = some b → S.read 1 (c + i) = some b := by
  unfold run at h
  split at h <;> try (cases h; done)
  next bb st hex =>
    simp only [Out.ok.injEq, Prod.mk.injEq] at h
    rw [h.1] at hex
    intro i b hb
    exact exec_prefix hS pat hok _ ⟨0, c, save⟩ Scan.QS_BUF_LEN 0 st hex i b (by simpa [Scan.setup] using hb)

/-! ### independence of the save array -/

/-- two outcomes that agree on everything but the save array -/
inductive OSim : Out (Bool × St) → Out (Bool × St) → Prop
  | ok (b : Bool) (s1 s2 : St) : s1.pc = s2.pc → s1.cursor = s2.cursor → OSim (.ok (b, s1)) (.ok (b, s2))
  | err (e : Err) : OSim (.err e) (.err e)
  | panic (s : String) : OSim (.panic s) (.panic s)
  | ub (s : String) : OSim (.ub s) (.ub s)
  | diverge : OSim .diverge .diverge

inductive SSim : Out (Option (St × Nat × Nat)) → Out (Option (St × Nat × Nat)) → Prop
  | none : SSim (.ok none) (.ok none)
  | some (s1 s2 : St) (m e : Nat) : s1.pc = s2.pc → s1.cursor = s2.cursor →
      SSim (.ok (some (s1, m, e))) (.ok (some (s2, m, e)))
  | err (e : Err) : SSim (.err e) (.err e)
  | panic (s : String) : SSim (.panic s) (.panic s)
  | ub (s : String) : SSim (.ub s) (.ub s)
  | diverge : SSim .diverge .diverge

theorem step_sim {S : ScanI} {a : Atom} (ha : Scan.noRead a = true) (pc cur : Nat) (s1 s2 : Array Nat) (m e : Nat) :
    SSim (step S a ⟨pc, cur, s1⟩ m e) (step S a ⟨pc, cur, s2⟩ m e) := by
  cases a <;> simp [Scan.noRead] at ha <;> simp only [step] <;> (repeat' split) <;>
    first | (constructor <;> rfl) | constructor | (simp_all; done)

theorem manyLoop_sim {mem : Bytes} {ex : St → Out (Bool × St)} {cursor pc off : Nat} {peek : Option Nat}
    (hex : ∀ pc cur s1 s2, OSim (ex ⟨pc, cur, s1⟩) (ex ⟨pc, cur, s2⟩)) :
    ∀ k i pc0 cur0 s1 s2, OSim (manyLoop mem ex cursor pc off peek k i ⟨pc0, cur0, s1⟩)
      (manyLoop mem ex cursor pc off peek k i ⟨pc0, cur0, s2⟩) := by
  intro k
  induction k with
  | zero => intro i pc0 cur0 s1 s2; exact .ok _ _ _ rfl rfl
  | succ k ih =>
    intro i pc0 cur0 s1 s2
    simp only [manyLoop]
    split
    · have h := hex pc (wadd32 cursor i) s1 s2
      generalize ex ⟨pc, wadd32 cursor i, s1⟩ = o1 at h
      generalize ex ⟨pc, wadd32 cursor i, s2⟩ = o2 at h
      cases h with
      | ok b t1 t2 hpc hcur =>
        cases b
        · obtain ⟨p1, c1, v1⟩ := t1
          obtain ⟨p2, c2, v2⟩ := t2
          simp only at hpc hcur
          subst hpc hcur
          exact ih _ _ _ _ _
        · exact .ok _ _ _ hpc hcur
      | err e => exact .err e
      | panic s => exact .panic s
      | ub s => exact .ub s
      | diverge => exact .diverge
    · exact ih _ _ _ _ _

/-- For a pattern without `Check` / `Pir` (the only atoms that read the save array) the outcome of
`exec` — result, `pc`, cursor, and whether it panics — does not depend on the contents or the length
of the save array. -/
theorem exec_sim (S : ScanI) (pat : List Atom) (hnr : pat.all Scan.noRead = true) :
    ∀ fuel pc cur s1 s2 m e, OSim (exec S pat fuel ⟨pc, cur, s1⟩ m e) (exec S pat fuel ⟨pc, cur, s2⟩ m e) := by
  intro fuel
  induction fuel with
  | zero => intro pc cur s1 s2 m e; exact .diverge
  | succ fuel ih =>
    intro pc cur s1 s2 m e
    cases hp : pat[pc]? with
    | none => rw [exec_none (st := ⟨pc, cur, s1⟩) hp, exec_none (st := ⟨pc, cur, s2⟩) hp]; exact .ok _ _ _ rfl rfl
    | some a =>
      have hanr : Scan.noRead a = true := List.all_eq_true.1 hnr a (List.mem_of_getElem? hp)
      by_cases hc : isCtl a = true
      · cases a <;> simp [isCtl] at hc
        · -- push
          rw [exec_push (st := ⟨pc, cur, s1⟩) hp, exec_push (st := ⟨pc, cur, s2⟩) hp]
          have h := ih (pc + 1) cur s1 s2 255 0
          simp only
          generalize exec S pat fuel ⟨pc + 1, cur, s1⟩ 255 0 = o1 at h
          generalize exec S pat fuel ⟨pc + 1, cur, s2⟩ 255 0 = o2 at h
          cases h with
          | ok b t1 t2 hpc hcur =>
            cases b
            · exact .ok _ _ _ hpc hcur
            · obtain ⟨p1, c1, v1⟩ := t1
              obtain ⟨p2, c2, v2⟩ := t2
              simp only at hpc hcur
              subst hpc hcur
              exact ih _ _ _ _ _ _
          | err e => exact .err e
          | panic s => exact .panic s
          | ub s => exact .ub s
          | diverge => exact .diverge
        · -- pop
          rw [exec_pop (st := ⟨pc, cur, s1⟩) hp, exec_pop (st := ⟨pc, cur, s2⟩) hp]; exact .ok _ _ _ rfl rfl
        · -- many
          rw [exec_many (st := ⟨pc, cur, s1⟩) hp, exec_many (st := ⟨pc, cur, s2⟩) hp]
          unfold execMany
          simp only
          split
          · exact .ok _ _ _ rfl rfl
          · split
            · exact manyLoop_sim (fun pc cur s1 s2 => ih pc cur s1 s2 255 0) _ _ _ _ _ _
            · exact .panic _
        · -- case
          rw [exec_case (st := ⟨pc, cur, s1⟩) hp, exec_case (st := ⟨pc, cur, s2⟩) hp]
          have h := ih (pc + 1) cur s1 s2 255 0
          simp only
          generalize exec S pat fuel ⟨pc + 1, cur, s1⟩ 255 0 = o1 at h
          generalize exec S pat fuel ⟨pc + 1, cur, s2⟩ 255 0 = o2 at h
          cases h with
          | ok b t1 t2 hpc hcur =>
            obtain ⟨p1, c1, v1⟩ := t1
            obtain ⟨p2, c2, v2⟩ := t2
            simp only at hpc hcur
            subst hpc hcur
            cases b
            · exact ih _ _ _ _ _ _
            · exact ih _ _ _ _ _ _
          | err e => exact .err e
          | panic s => exact .panic s
          | ub s => exact .ub s
          | diverge => exact .diverge
        · -- break
          rw [exec_brk (st := ⟨pc, cur, s1⟩) hp, exec_brk (st := ⟨pc, cur, s2⟩) hp]; exact .ok _ _ _ rfl rfl
      · have hc' : isCtl a = false := by simpa using hc
        rw [exec_simple (st := ⟨pc, cur, s1⟩) hp hc', exec_simple (st := ⟨pc, cur, s2⟩) hp hc']
        have h := step_sim (S := S) hanr (pc + 1) cur s1 s2 m e
        simp only
        generalize step S a ⟨pc + 1, cur, s1⟩ m e = o1 at h
        generalize step S a ⟨pc + 1, cur, s2⟩ m e = o2 at h
        cases h with
        | none => exact .ok _ _ _ rfl rfl
        | some t1 t2 m' e' hpc hcur =>
          obtain ⟨p1, c1, v1⟩ := t1
          obtain ⟨p2, c2, v2⟩ := t2
          simp only at hpc hcur
          subst hpc hcur
          exact ih _ _ _ _ _ _
        | err e => exact .err e
        | panic s => exact .panic s
        | ub s => exact .ub s
        | diverge => exact .diverge

/-- `Scanner::exec` on a pattern without `Check` / `Pir`: whether it succeeds does not depend on the
save array it is given -/
theorem run_save_indep (S : ScanI) (pat : List Atom) (hnr : pat.all Scan.noRead = true)
    (c : Nat) (s1 s2 t1 : Array Nat) (b : Bool) (h : run S pat c s1 = .ok (b, t1)) :
    ∃ t2, run S pat c s2 = .ok (b, t2) := by
  have hs := exec_sim S pat hnr (fuelFor pat) 0 c s1 s2 255 0
  unfold run at h ⊢
  generalize exec S pat (fuelFor pat) ⟨0, c, s1⟩ 255 0 = o1 at hs h
  generalize exec S pat (fuelFor pat) ⟨0, c, s2⟩ 255 0 = o2 at hs
  cases hs with
  | ok b' u1 u2 _ _ => simp only [Out.ok.injEq, Prod.mk.injEq] at h; exact ⟨u2.save, by rw [h.1]⟩
  | err e => cases h
  | panic s => cases h
  | ub s => cases h
  | diverge => cases h

/-! ### the two implementations of `trait Scan` satisfy `ScanI.WF` -/

theorem ofRaw_wf (f : Pe.Fmt) (b : Bytes) (hb : b.size < 4294967296) : (ofRaw f b).WF := by
  constructor
  intro rva v h
  simp only [ofRaw] at h
  split at h
  · simp only [Option.some.injEq] at h
    subst h
    exact ⟨by omega, byteAt_lt _ _⟩
  · cases h

open Pelite.Pe in
/-- what a successful `read` on a mapped view returned -/
theorem ofView_read_view {v : Pe.View} (hk : v.kind = .view) {w rva x : Nat}
    (h : (ofView v).read w rva = some x) : rva ≠ 0 ∧ rva + w ≤ v.b.size ∧ x = leN v.b w rva := by
  simp only [ofView, View.slice, hk, sliceSection] at h
  by_cases h0 : rva = 0
  · simp [h0] at h
  · have hp : alignedTo "slice_section:aligned_to" (v.img.base + rva) 1 = .ok true := by
      simp [alignedTo_eq, Nat.mod_one]; decide
    simp only [h0, if_false, hp] at h
    split at h
    · next r hr =>
      split at hr
      · next hc =>
        simp only [Out.ok.injEq] at hr
        subst hr
        simp only [Option.some.injEq] at h
        refine ⟨h0, ?_, h.symm⟩
        have : v.b = v.img.bytes := rfl
        rw [this]; omega
      · cases hr
    · cases h

open Pelite.Pe in
/-- what a successful `read` on a file view returned: the bytes of the first section whose virtual
extent contains the rva -/
theorem ofView_read_file {v : Pe.View} (hk : v.kind = .file) {w rva x : Nat}
    (h : (ofView v).read w rva = some x) :
    ∃ s o l, firstV v.secs rva = some s ∧ rangeOne v.b.size s rva w = .ok (o, l) ∧ x = leN v.b w o := by
  simp only [ofView, View.slice, hk] at h
  split at h
  · next r hr =>
    obtain ⟨_, _, _, o, l, hrf, _, rfl⟩ := (sliceFile_ok_iff_range _ _ _ _ _ _).1 hr
    rw [rangeFile_eq] at hrf
    simp only [Option.some.injEq] at h
    cases hf : firstV v.secs rva with
    | none => simp [hf] at hrf
    | some s =>
      simp only [hf] at hrf
      exact ⟨s, o, l, rfl, hrf, h.symm⟩
  · cases h

open Pelite.Pe in
/-- **`impl Scan for P: Pe`** is well behaved for every image below 4 GiB: a one-byte read that
succeeds lies strictly below `u32::MAX` — on file views because the section's virtual end
`va.wrapping_add(max(vs, rs))` is a `u32` above the rva, on mapped views because the rva is inside
the buffer. -/
theorem ofView_wf (v : Pe.View) (hsz : v.b.size < 4294967296) : (ofView v).WF := by
  constructor
  intro rva x h
  cases hk : v.kind with
  | view =>
    obtain ⟨_, h2, rfl⟩ := ofView_read_view hk h
    exact ⟨by omega, byteAt_lt _ _⟩
  | file =>
    obtain ⟨s, o, l, hf, _, rfl⟩ := ofView_read_file hk h
    have hc := (containsRva_iff s rva).1 (firstV_some hf).2
    refine ⟨?_, byteAt_lt _ _⟩
    have : wadd32 s.va (max s.vs s.rs) < 4294967296 := by unfold wadd32; omega
    omega

end Pelite.Exec
