import PeliteModel.Model.Exec
import PeliteModel.Model.Scan
import PeliteModel.Spec.Scan
import PeliteModel.Lemmas.PeAddr
/-!
Lemmas about the interpreter model `Exec.exec` (C02 / C03 of src/pe64/scanner.rs and the facts C10
needs about it): totality, fuel sufficiency / recursion depth, the prefix lemma and independence of
the save array.
-/
namespace Pelite.Exec
open Pelite.Pattern

/-- What the interpreter needs from an implementation of `trait Scan` to be panic free: a
successful one-byte read lies strictly below `u32::MAX` (so `self.cursor += 1` cannot overflow) and
yields a byte.  `ofView_wf` / `ofRaw_wf` prove it for the two implementations (buffers < 4 GiB). -/
structure ScanI.WF (S : ScanI) : Prop where
  read1 : ∀ rva v, S.read 1 rva = some v → rva + 1 < 4294967296 ∧ v < 256
  /-- a `w`-byte read yields a `w`-byte value -/
  read_lt : ∀ w rva v, S.read w rva = some v → v < 256 ^ w
  /-- `pointer` yields an `Rva` (`u32`) -/
  pointer_lt : ∀ va r, S.pointer va = some r → r < 4294967296

/-! ### one loop iteration -/

theorem step_pc {S : ScanI} {a : Atom} {st : St} {m e : Nat} {st' : St} {m' e' : Nat}
    (h : step S a st m e = .ok (some (st', m', e'))) : st'.pc = st.pc := by
  cases a <;> simp only [step] at h <;> (repeat' split at h) <;> simp_all <;> (obtain ⟨rfl, _⟩ := h; rfl)

/-- no iteration panics: the only checked arithmetic is `cursor += 1` after a successful read -/
theorem step_ok {S : ScanI} (hS : S.WF) (a : Atom) (st : St) (m e : Nat) :
    ∃ o, step S a st m e = .ok o := by
  cases a <;> simp only [step] <;> (repeat' split) <;> simp_all
  next h _ _ => have := (hS.read1 _ _ h).1; omega

/-! ### `exec_many` -/

theorem manyLoop_pc_le {mem : Bytes} {ex : St → Out (Bool × St)} {cursor pc off : Nat} {peek : Option Nat}
    (hex : ∀ s b s', ex s = .ok (b, s') → s.pc ≤ s'.pc) :
    ∀ k i st b st', manyLoop mem ex cursor pc off peek k i st = .ok (b, st') → pc ≤ st.pc → pc ≤ st'.pc := by
  intro k
  induction k with
  | zero => intro i st b st' h hp; simp only [manyLoop] at h; cases h; exact hp
  | succ k ih =>
    intro i st b st' h hp
    simp only [manyLoop] at h
    split at h
    · split at h
      · next s'' hs => cases h; exact hex _ _ _ hs
      · next s'' hs => exact ih _ _ _ _ h (hex _ _ _ hs)
      · next hn1 hn2 =>
        cases b with
        | false => exact (hn2 _ h).elim
        | true => exact (hn1 _ h).elim
    · exact ih _ _ _ _ h hp

theorem manyLoop_total {mem : Bytes} {ex : St → Out (Bool × St)} {cursor pc off : Nat} {peek : Option Nat}
    (hex : ∀ s, s.pc = pc → ∃ r, ex s = .ok r) :
    ∀ k i st, ∃ r, manyLoop mem ex cursor pc off peek k i st = .ok r := by
  intro k
  induction k with
  | zero => intro i st; exact ⟨_, rfl⟩
  | succ k ih =>
    intro i st
    simp only [manyLoop]
    split
    · obtain ⟨⟨b, s'⟩, hr⟩ := hex { st with cursor := wadd32 cursor i, pc := pc } rfl
      rw [hr]
      cases b
      · exact ih _ _
      · exact ⟨_, rfl⟩
    · exact ih _ _

theorem execMany_none {S : ScanI} {pat : List Atom} {ex : St → Out (Bool × St)} {st : St} {limit : Nat}
    (hs : S.slice st.cursor = none) : execMany S pat ex st limit = .ok (false, st) := by
  simp [execMany, hs]

theorem execMany_some {S : ScanI} {pat : List Atom} {ex : St → Out (Bool × St)} {st : St} {limit off len : Nat}
    (hs : S.slice st.cursor = some (off, len)) (hle : st.pc ≤ pat.length) :
    execMany S pat ex st limit =
      manyLoop S.mem ex st.cursor st.pc off (peekByte (pat.drop st.pc))
        (if limit = 0 then len else min limit len) 0 st := by
  simp [execMany, hs, hle]

/-! ### the program counter only moves forward -/

/-- **every call of `exec` returns with a `pc` at or beyond the one it started with** — hence the
continuation of the loop and every nested call start at a strictly larger `pc` than the atom that
caused them. -/
theorem exec_pc_mono (S : ScanI) (pat : List Atom) :
    ∀ fuel st mask ext b st', exec S pat fuel st mask ext = .ok (b, st') → st.pc ≤ st'.pc := by
  intro fuel st mask ext
  fun_induction exec S pat fuel st mask ext with
  | case1 => intro b st' h; cases h
  | case2 => intro b st' h; cases h; exact Nat.le_refl _
  | case3 fuel st0 mask ext st skip cursor st1 h1 hp ih2 ih1 =>
    intro b st' h
    have := ih2 _ _ h1
    have := ih1 _ _ h
    simp only [st] at *; omega
  | case4 fuel st0 mask ext st skip hp hne ih1 =>
    intro b st' h
    have := ih1 _ _ h
    simp only [st] at *; omega
  | case5 fuel st0 mask ext st hp => intro b st' h; cases h; simp only [st]; omega
  | case6 fuel st0 mask ext st limit hp ih1 =>
    intro b st' h
    obtain ⟨hlt, _⟩ := List.getElem?_eq_some_iff.1 hp
    cases hsl : S.slice st.cursor with
    | none => rw [execMany_none hsl] at h; cases h; simp only [st]; omega
    | some ol =>
      obtain ⟨off, len⟩ := ol
      rw [execMany_some hsl (by simp only [st]; omega)] at h
      have := manyLoop_pc_le (fun s b s' hs => ih1 s b s' hs) _ _ _ _ _ h (Nat.le_refl _)
      simp only [st] at this; omega
  | case7 fuel st0 mask ext st next st1 h1 hp ih2 ih1 =>
    intro b st' h
    have := ih2 _ _ h1
    have := ih1 _ _ h
    simp only [st] at *; omega
  | case8 fuel st0 mask ext st next st1 h1 hp ih2 ih1 =>
    intro b st' h
    have := ih1 _ _ h
    simp only [st] at *; omega
  | case9 fuel st0 mask ext st next hp hn1 hn2 ih1 =>
    intro b st' h
    have := ih1 _ _ h
    simp only [st] at *; omega
  | case10 fuel st0 mask ext st next hp => intro b st' h; cases h; simp only [st]; omega
  | case11 fuel st0 mask ext st a _ _ _ _ _ hs hp => intro b st' h; cases h; simp only [st]; omega
  | case12 fuel st0 mask ext st a _ _ _ _ _ st1 m1 e1 hs hp ih1 =>
    intro b st' h
    have := ih1 _ _ h
    have := step_pc hs
    simp only [st] at *; omega
  | case13 => intro b st' h; cases h
  | case14 => intro b st' h; cases h
  | case15 => intro b st' h; cases h
  | case16 => intro b st' h; cases h

/-! ### totality: no panic, no undefined behaviour, fuel `pat.length + 1 - pc` suffices -/

/-- **(a)** `exec` started at `pc` with fuel `≥ pat.length + 1 - pc` (and `≥ 1`) returns normally.
The fuel is handed down to the nested calls and the loop continuation alike, so it bounds the depth
of the chain of active frames: every frame starts at a strictly larger `pc` than its caller's
current atom (`exec_pc_mono`), i.e. the Rust recursion depth is at most `pat.len() + 1`. -/
theorem exec_total {S : ScanI} (hS : S.WF) (pat : List Atom) :
    ∀ fuel st mask ext, pat.length + 1 ≤ fuel + st.pc → 1 ≤ fuel →
      ∃ r, exec S pat fuel st mask ext = .ok r := by
  intro fuel st mask ext
  fun_induction exec S pat fuel st mask ext with
  | case1 => intro _ h; omega
  | case2 => intro _ _; exact ⟨_, rfl⟩
  | case3 fuel st0 mask ext st skip cursor st1 h1 hp ih2 ih1 =>
    intro hf _
    obtain ⟨hlt, _⟩ := List.getElem?_eq_some_iff.1 hp
    have := exec_pc_mono S pat _ _ _ _ _ _ h1
    apply ih1 <;> (try simp only [st] at *) <;> omega
  | case4 fuel st0 mask ext st skip hp hne ih1 =>
    intro hf _
    obtain ⟨hlt, _⟩ := List.getElem?_eq_some_iff.1 hp
    apply ih1 <;> (try simp only [st] at *) <;> omega
  | case5 => intro _ _; exact ⟨_, rfl⟩
  | case6 fuel st0 mask ext st limit hp ih1 =>
    intro hf _
    obtain ⟨hlt, _⟩ := List.getElem?_eq_some_iff.1 hp
    cases hsl : S.slice st.cursor with
    | none => rw [execMany_none hsl]; exact ⟨_, rfl⟩
    | some ol =>
      obtain ⟨off, len⟩ := ol
      rw [execMany_some hsl (by simp only [st]; omega)]
      apply manyLoop_total
      intro s hs
      apply ih1 <;> (try simp only [hs, st]) <;> omega
  | case7 fuel st0 mask ext st next st1 h1 hp ih2 ih1 =>
    intro hf _
    obtain ⟨hlt, _⟩ := List.getElem?_eq_some_iff.1 hp
    have := exec_pc_mono S pat _ _ _ _ _ _ h1
    apply ih1 <;> (try simp only [st] at *) <;> omega
  | case8 fuel st0 mask ext st next st1 h1 hp ih2 ih1 =>
    intro hf _
    obtain ⟨hlt, _⟩ := List.getElem?_eq_some_iff.1 hp
    apply ih1 <;> (try simp only [st] at *) <;> omega
  | case9 fuel st0 mask ext st next hp hn1 hn2 ih1 =>
    intro hf _
    obtain ⟨hlt, _⟩ := List.getElem?_eq_some_iff.1 hp
    obtain ⟨⟨b, s'⟩, hr⟩ := ih1 (by simp only [st]; omega) (by omega)
    cases b
    · exact absurd hr (hn2 s')
    · exact absurd hr (hn1 s')
  | case10 => intro _ _; exact ⟨_, rfl⟩
  | case11 => intro _ _; exact ⟨_, rfl⟩
  | case12 fuel st0 mask ext st a _ _ _ _ _ st1 m1 e1 hs hp ih1 =>
    intro hf _
    obtain ⟨hlt, _⟩ := List.getElem?_eq_some_iff.1 hp
    have := step_pc hs
    apply ih1 <;> (try simp only [st] at *) <;> omega
  | case13 fuel st0 mask ext st a _ _ _ _ _ e hs => obtain ⟨o, ho⟩ := step_ok hS a st mask ext; rw [ho] at hs; cases hs
  | case14 fuel st0 mask ext st a _ _ _ _ _ e hs => obtain ⟨o, ho⟩ := step_ok hS a st mask ext; rw [ho] at hs; cases hs
  | case15 fuel st0 mask ext st a _ _ _ _ _ e hs => obtain ⟨o, ho⟩ := step_ok hS a st mask ext; rw [ho] at hs; cases hs
  | case16 fuel st0 mask ext st a _ _ _ _ _ hs => obtain ⟨o, ho⟩ := step_ok hS a st mask ext; rw [ho] at hs; cases hs

/-- `Scanner::exec` returns normally for every atom list, cursor and save array -/
theorem run_total {S : ScanI} (hS : S.WF) (pat : List Atom) (c : Nat) (save : Array Nat) :
    ∃ b s, run S pat c save = .ok (b, s) := by
  obtain ⟨⟨b, st⟩, h⟩ := exec_total hS pat (fuelFor pat) ⟨0, c, save⟩ 0xff 0 (by simp [fuelFor]) (by simp [fuelFor])
  exact ⟨b, st.save, by simp only [run, h]⟩

/-! ### unfolding `exec` one atom at a time -/

/-- the atoms `exec` handles itself (recursive calls / early `return true`) -/
def isCtl : Atom → Bool
  | .push _ | .pop | .many _ | .case _ | .brk _ => true
  | _ => false

theorem exec_zero (S : ScanI) (pat : List Atom) (st : St) (m e : Nat) : exec S pat 0 st m e = .diverge := rfl

theorem exec_none {S : ScanI} {pat : List Atom} {fuel : Nat} {st : St} {m e : Nat}
    (hp : pat[st.pc]? = none) : exec S pat (fuel + 1) st m e = .ok (true, st) := by
  rw [exec]; simp only [hp]

theorem exec_push {S : ScanI} {pat : List Atom} {fuel : Nat} {st : St} {m e skip : Nat}
    (hp : pat[st.pc]? = some (.push skip)) :
    exec S pat (fuel + 1) st m e =
      match exec S pat fuel { st with pc := st.pc + 1 } 0xff 0 with
      | .ok (true, st') => exec S pat fuel { st' with cursor := wadd32 st.cursor (skipAmt S e skip) } 0xff 0
      | o => o := by
  rw [exec]; simp only [hp] <;> rfl

theorem exec_pop {S : ScanI} {pat : List Atom} {fuel : Nat} {st : St} {m e : Nat}
    (hp : pat[st.pc]? = some .pop) :
    exec S pat (fuel + 1) st m e = .ok (true, { st with pc := st.pc + 1 }) := by
  rw [exec]; simp only [hp]

theorem exec_many {S : ScanI} {pat : List Atom} {fuel : Nat} {st : St} {m e limit : Nat}
    (hp : pat[st.pc]? = some (.many limit)) :
    exec S pat (fuel + 1) st m e =
      execMany S pat (fun s => exec S pat fuel s 0xff 0) { st with pc := st.pc + 1 } (e + limit) := by
  rw [exec]; simp only [hp]

theorem exec_case {S : ScanI} {pat : List Atom} {fuel : Nat} {st : St} {m e next : Nat}
    (hp : pat[st.pc]? = some (.case next)) :
    exec S pat (fuel + 1) st m e =
      match exec S pat fuel { st with pc := st.pc + 1 } 0xff 0 with
      | .ok (true, st') => exec S pat fuel st' m e
      | .ok (false, st') => exec S pat fuel { st' with pc := st.pc + 1 + next, cursor := st.cursor } m e
      | o => o := by
  rw [exec]; simp only [hp] <;> rfl

theorem exec_brk {S : ScanI} {pat : List Atom} {fuel : Nat} {st : St} {m e next : Nat}
    (hp : pat[st.pc]? = some (.brk next)) :
    exec S pat (fuel + 1) st m e = .ok (true, { st with pc := st.pc + 1 + next }) := by
  rw [exec]; simp only [hp]

theorem exec_simple {S : ScanI} {pat : List Atom} {fuel : Nat} {st : St} {m e : Nat} {a : Atom}
    (hp : pat[st.pc]? = some a) (ha : isCtl a = false) :
    exec S pat (fuel + 1) st m e =
      match step S a { st with pc := st.pc + 1 } m e with
      | .ok none => .ok (false, { st with pc := st.pc + 1 })
      | .ok (some (st', m', e')) => exec S pat fuel st' m' e'
      | .err x => .err x
      | .panic s => .panic s
      | .ub s => .ub s
      | .diverge => .diverge := by
  rw [exec]; simp only [hp]
  cases a <;> first | (simp [isCtl] at ha; done) | rfl

/-! ### (b) the prefix lemma -/

theorem and255 (v : Nat) : v &&& 255 = v % 256 := Nat.and_two_pow_sub_one_eq_mod v 8

/-- If `exec` (with the initial mask `0xff`) succeeds from `pc` at `cursor`, the literal prefix that
`Matches::setup` extracts from `pat[pc..]` is what the image holds at `cursor..`. -/
theorem exec_prefix {S : ScanI} (hS : S.WF) (pat : List Atom) (hok : pat.all Atom.ok = true) :
    ∀ fuel st room e st', exec S pat fuel st 0xff e = .ok (true, st') →
      ∀ i b, (Scan.setupGo (pat.drop st.pc) room)[i]? = some b → S.read 1 (st.cursor + i) = some b := by
  intro fuel
  induction fuel with
  | zero => intro st room e st' h; cases h
  | succ fuel ih =>
    intro st room e st' h i b hb
    cases hp : pat[st.pc]? with
    | none =>
      rw [List.drop_eq_nil_of_le (List.getElem?_eq_none_iff.1 hp)] at hb
      simp [Scan.setupGo] at hb
    | some a =>
      obtain ⟨hlt, hget⟩ := List.getElem?_eq_some_iff.1 hp
      have haok : Atom.ok a = true := List.all_eq_true.1 hok a (List.mem_of_getElem? hp)
      rw [List.drop_eq_getElem_cons hlt, hget] at hb
      cases a with
      | byte b0 =>
        rw [exec_simple hp rfl] at h
        simp only [step] at h
        simp only [Scan.setupGo] at hb
        split at hb
        · simp at hb
        · cases hr : S.read 1 st.cursor with
          | none => simp [hr] at h
          | some v =>
            obtain ⟨hv1, hv2⟩ := hS.read1 _ _ hr
            by_cases hand : v &&& 255 = b0 &&& 255
            · simp only [hr, hand, if_true, hv1] at h
              simp only [and255] at hand
              have hb0 : b0 < 256 := by simpa [Atom.ok] using haok
              have hvb : v = b0 := by omega
              cases i with
              | zero =>
                simp only [List.getElem?_cons_zero, Option.some.injEq] at hb
                rw [Nat.add_zero, hr, hvb, hb]
              | succ j =>
                simp only [List.getElem?_cons_succ] at hb
                have := ih _ _ _ _ h j b hb
                simpa [Nat.add_assoc, Nat.add_comm 1 j] using this
            · simp [hr, hand] at h
      | save slot =>
        rw [exec_simple hp rfl] at h
        simp only [step] at h
        simp only [Scan.setupGo] at hb
        exact ih _ _ _ _ h i b hb
      | aligned n =>
        rw [exec_simple hp rfl] at h
        simp only [step] at h
        simp only [Scan.setupGo] at hb
        by_cases hal : n < 32 ∧ st.cursor % 2 ^ n ≠ 0
        · simp [hal] at h
        · simp only [hal, if_false] at h
          exact ih _ _ _ _ h i b hb
      | nop =>
        rw [exec_simple hp rfl] at h
        simp only [step] at h
        simp only [Scan.setupGo] at hb
        exact ih _ _ _ _ h i b hb
      | _ => simp [Scan.setupGo] at hb

/-- **(b)** if `Scanner::exec` succeeds at `c`, the image holds the literal prefix `setup pat`
(`qsbuf[..qslen]`) at `c ..` — what makes strategies 1 and 2 complete. -/
theorem run_prefix {S : ScanI} (hS : S.WF) (pat : List Atom) (hok : pat.all Atom.ok = true)
    (c : Nat) (save s' : Array Nat) (h : run S pat c save = .ok (true, s')) :
    ∀ i b, (Scan.setup pat)[i]? = some b → S.read 1 (c + i) = some b := by
  unfold run at h
  split at h <;> try (cases h; done)
  next bb st hex =>
    simp only [Out.ok.injEq, Prod.mk.injEq] at h
    rw [h.1] at hex
    intro i b hb
    exact exec_prefix hS pat hok _ ⟨0, c, save⟩ Scan.QS_BUF_LEN 0 st hex i b (by simpa [Scan.setup] using hb)

/-! ### independence of the save array -/

/-- two outcomes that agree on everything but the save array -/
inductive OSim : Out (Bool × St) → Out (Bool × St) → Prop
  | ok (b : Bool) (s1 s2 : St) : s1.pc = s2.pc → s1.cursor = s2.cursor → OSim (.ok (b, s1)) (.ok (b, s2))
  | err (e : Err) : OSim (.err e) (.err e)
  | panic (s : String) : OSim (.panic s) (.panic s)
  | ub (s : String) : OSim (.ub s) (.ub s)
  | diverge : OSim .diverge .diverge

inductive SSim : Out (Option (St × Nat × Nat)) → Out (Option (St × Nat × Nat)) → Prop
  | none : SSim (.ok none) (.ok none)
  | some (s1 s2 : St) (m e : Nat) : s1.pc = s2.pc → s1.cursor = s2.cursor →
      SSim (.ok (some (s1, m, e))) (.ok (some (s2, m, e)))
  | err (e : Err) : SSim (.err e) (.err e)
  | panic (s : String) : SSim (.panic s) (.panic s)
  | ub (s : String) : SSim (.ub s) (.ub s)
  | diverge : SSim .diverge .diverge

theorem step_sim {S : ScanI} {a : Atom} (ha : Scan.noRead a = true) (pc cur : Nat) (s1 s2 : Array Nat) (m e : Nat) :
    SSim (step S a ⟨pc, cur, s1⟩ m e) (step S a ⟨pc, cur, s2⟩ m e) := by
  cases a <;> simp [Scan.noRead] at ha <;> simp only [step] <;> (repeat' split) <;>
    first | (constructor <;> rfl) | constructor | (simp_all; done)

theorem manyLoop_sim {mem : Bytes} {ex : St → Out (Bool × St)} {cursor pc off : Nat} {peek : Option Nat}
    (hex : ∀ pc cur s1 s2, OSim (ex ⟨pc, cur, s1⟩) (ex ⟨pc, cur, s2⟩)) :
    ∀ k i pc0 cur0 s1 s2, OSim (manyLoop mem ex cursor pc off peek k i ⟨pc0, cur0, s1⟩)
      (manyLoop mem ex cursor pc off peek k i ⟨pc0, cur0, s2⟩) := by
  intro k
  induction k with
  | zero => intro i pc0 cur0 s1 s2; exact .ok _ _ _ rfl rfl
  | succ k ih =>
    intro i pc0 cur0 s1 s2
    simp only [manyLoop]
    split
    · have h := hex pc (wadd32 cursor i) s1 s2
      generalize ex ⟨pc, wadd32 cursor i, s1⟩ = o1 at h
      generalize ex ⟨pc, wadd32 cursor i, s2⟩ = o2 at h
      cases h with
      | ok b t1 t2 hpc hcur =>
        cases b
        · obtain ⟨p1, c1, v1⟩ := t1
          obtain ⟨p2, c2, v2⟩ := t2
          simp only at hpc hcur
          subst hpc hcur
          exact ih _ _ _ _ _
        · exact .ok _ _ _ hpc hcur
      | err e => exact .err e
      | panic s => exact .panic s
      | ub s => exact .ub s
      | diverge => exact .diverge
    · exact ih _ _ _ _ _

/-- For a pattern without `Check` / `Pir` (the only atoms that read the save array) the outcome of
`exec` — result, `pc`, cursor, and whether it panics — does not depend on the contents or the length
of the save array. -/
theorem exec_sim (S : ScanI) (pat : List Atom) (hnr : pat.all Scan.noRead = true) :
    ∀ fuel pc cur s1 s2 m e, OSim (exec S pat fuel ⟨pc, cur, s1⟩ m e) (exec S pat fuel ⟨pc, cur, s2⟩ m e) := by
  intro fuel
  induction fuel with
  | zero => intro pc cur s1 s2 m e; exact .diverge
  | succ fuel ih =>
    intro pc cur s1 s2 m e
    cases hp : pat[pc]? with
    | none => rw [exec_none (st := ⟨pc, cur, s1⟩) hp, exec_none (st := ⟨pc, cur, s2⟩) hp]; exact .ok _ _ _ rfl rfl
    | some a =>
      have hanr : Scan.noRead a = true := List.all_eq_true.1 hnr a (List.mem_of_getElem? hp)
      by_cases hc : isCtl a = true
      · cases a <;> simp [isCtl] at hc
        · -- push
          rw [exec_push (st := ⟨pc, cur, s1⟩) hp, exec_push (st := ⟨pc, cur, s2⟩) hp]
          have h := ih (pc + 1) cur s1 s2 255 0
          simp only
          generalize exec S pat fuel ⟨pc + 1, cur, s1⟩ 255 0 = o1 at h
          generalize exec S pat fuel ⟨pc + 1, cur, s2⟩ 255 0 = o2 at h
          cases h with
          | ok b t1 t2 hpc hcur =>
            cases b
            · exact .ok _ _ _ hpc hcur
            · obtain ⟨p1, c1, v1⟩ := t1
              obtain ⟨p2, c2, v2⟩ := t2
              simp only at hpc hcur
              subst hpc hcur
              exact ih _ _ _ _ _ _
          | err e => exact .err e
          | panic s => exact .panic s
          | ub s => exact .ub s
          | diverge => exact .diverge
        · -- pop
          rw [exec_pop (st := ⟨pc, cur, s1⟩) hp, exec_pop (st := ⟨pc, cur, s2⟩) hp]; exact .ok _ _ _ rfl rfl
        · -- many
          rw [exec_many (st := ⟨pc, cur, s1⟩) hp, exec_many (st := ⟨pc, cur, s2⟩) hp]
          unfold execMany
          simp only
          split
          · exact .ok _ _ _ rfl rfl
          · split
            · exact manyLoop_sim (fun pc cur s1 s2 => ih pc cur s1 s2 255 0) _ _ _ _ _ _
            · exact .panic _
        · -- case
          rw [exec_case (st := ⟨pc, cur, s1⟩) hp, exec_case (st := ⟨pc, cur, s2⟩) hp]
          have h := ih (pc + 1) cur s1 s2 255 0
          simp only
          generalize exec S pat fuel ⟨pc + 1, cur, s1⟩ 255 0 = o1 at h
          generalize exec S pat fuel ⟨pc + 1, cur, s2⟩ 255 0 = o2 at h
          cases h with
          | ok b t1 t2 hpc hcur =>
            obtain ⟨p1, c1, v1⟩ := t1
            obtain ⟨p2, c2, v2⟩ := t2
            simp only at hpc hcur
            subst hpc hcur
            cases b
            · exact ih _ _ _ _ _ _
            · exact ih _ _ _ _ _ _
          | err e => exact .err e
          | panic s => exact .panic s
          | ub s => exact .ub s
          | diverge => exact .diverge
        · -- break
          rw [exec_brk (st := ⟨pc, cur, s1⟩) hp, exec_brk (st := ⟨pc, cur, s2⟩) hp]; exact .ok _ _ _ rfl rfl
      · have hc' : isCtl a = false := by simpa using hc
        rw [exec_simple (st := ⟨pc, cur, s1⟩) hp hc', exec_simple (st := ⟨pc, cur, s2⟩) hp hc']
        have h := step_sim (S := S) hanr (pc + 1) cur s1 s2 m e
        simp only
        generalize step S a ⟨pc + 1, cur, s1⟩ m e = o1 at h
        generalize step S a ⟨pc + 1, cur, s2⟩ m e = o2 at h
        cases h with
        | none => exact .ok _ _ _ rfl rfl
        | some t1 t2 m' e' hpc hcur =>
          obtain ⟨p1, c1, v1⟩ := t1
          obtain ⟨p2, c2, v2⟩ := t2
          simp only at hpc hcur
          subst hpc hcur
          exact ih _ _ _ _ _ _
        | err e => exact .err e
        | panic s => exact .panic s
        | ub s => exact .ub s
        | diverge => exact .diverge

/-- `Scanner::exec` on a pattern without `Check` / `Pir`: whether it succeeds does not depend on the
save array it is given -/
theorem run_save_indep (S : ScanI) (pat : List Atom) (hnr : pat.all Scan.noRead = true)
    (c : Nat) (s1 s2 t1 : Array Nat) (b : Bool) (h : run S pat c s1 = .ok (b, t1)) :
    ∃ t2, run S pat c s2 = .ok (b, t2) := by
  have hs := exec_sim S pat hnr (fuelFor pat) 0 c s1 s2 255 0
  unfold run at h ⊢
  generalize exec S pat (fuelFor pat) ⟨0, c, s1⟩ 255 0 = o1 at hs h
  generalize exec S pat (fuelFor pat) ⟨0, c, s2⟩ 255 0 = o2 at hs
  cases hs with
  | ok b' u1 u2 _ _ => simp only [Out.ok.injEq, Prod.mk.injEq] at h; exact ⟨u2.save, by rw [h.1]⟩
  | err e => cases h
  | panic s => cases h
  | ub s => cases h
  | diverge => cases h

/-! ### the two implementations of `trait Scan` satisfy `ScanI.WF` -/

theorem leN_lt (b : Bytes) (w off : Nat) : leN b w off < 256 ^ w := by
  unfold leN
  split
  · exact byteAt_lt _ _
  · exact le16_lt _ _
  · exact le32_lt _ _
  · exact le64_lt _ _
  · exact Nat.pow_pos (by decide)

theorem ofRaw_wf (f : Pe.Fmt) (b : Bytes) (hb : b.size < 4294967296) : (ofRaw f b).WF := by
  refine ⟨?_, ?_, ?_⟩
  · intro rva v h
    simp only [ofRaw] at h
    split at h
    · simp only [Option.some.injEq] at h
      subst h
      exact ⟨by omega, byteAt_lt _ _⟩
    · cases h
  · intro w rva v h
    simp only [ofRaw] at h
    split at h
    · simp only [Option.some.injEq] at h
      subst h
      exact leN_lt _ _ _
    · cases h
  · intro va r h
    simp only [ofRaw, Option.some.injEq] at h
    omega

open Pelite.Pe in
/-- what a successful `read` on a mapped view returned -/
theorem ofView_read_view {v : Pe.View} (hk : v.kind = .view) {w rva x : Nat}
    (h : (ofView v).read w rva = some x) : rva ≠ 0 ∧ rva + w ≤ v.b.size ∧ x = leN v.b w rva := by
  simp only [ofView, View.slice, hk, sliceSection] at h
  by_cases h0 : rva = 0
  · simp [h0] at h
  · have hp : alignedTo "slice_section:aligned_to" (v.img.base + rva) 1 = .ok true := by
      simp [alignedTo_eq, Nat.mod_one]; decide
    simp only [h0, if_false, hp] at h
    split at h
    · next r hr =>
      split at hr
      · next hc =>
        simp only [Out.ok.injEq] at hr
        subst hr
        simp only [Option.some.injEq] at h
        refine ⟨h0, ?_, h.symm⟩
        have : v.b = v.img.bytes := rfl
        rw [this]; omega
      · cases hr
    · cases h

open Pelite.Pe in
/-- what a successful `read` on a file view returned: the bytes of the first section whose virtual
extent contains the rva -/
theorem ofView_read_file {v : Pe.View} (hk : v.kind = .file) {w rva x : Nat}
    (h : (ofView v).read w rva = some x) :
    ∃ s o l, firstV v.secs rva = some s ∧ rangeOne v.b.size s rva w = .ok (o, l) ∧ x = leN v.b w o := by
  simp only [ofView, View.slice, hk] at h
  split at h
  · next r hr =>
    obtain ⟨_, _, _, o, l, hrf, _, rfl⟩ := (sliceFile_ok_iff_range _ _ _ _ _ _).1 hr
    rw [rangeFile_eq] at hrf
    simp only [Option.some.injEq] at h
    cases hf : firstV v.secs rva with
    | none => simp [hf] at hrf
    | some s =>
      simp only [hf] at hrf
      exact ⟨s, o, l, rfl, hrf, h.symm⟩
  · cases h

open Pelite.Pe in
/-- **`impl Scan for P: Pe`** is well behaved for every image below 4 GiB: a one-byte read that
succeeds lies strictly below `u32::MAX` — on file views because the section's virtual end
`va.wrapping_add(max(vs, rs))` is a `u32` above the rva, on mapped views because the rva is inside
the buffer. -/
theorem ofView_wf (v : Pe.View) (hsz : v.b.size < 4294967296) : (ofView v).WF := by
  refine ⟨?_, ?_, ?_⟩
  · intro rva x h
    cases hk : v.kind with
    | view =>
      obtain ⟨_, h2, rfl⟩ := ofView_read_view hk h
      exact ⟨by omega, byteAt_lt _ _⟩
    | file =>
      obtain ⟨s, o, l, hf, _, rfl⟩ := ofView_read_file hk h
      have hc := (containsRva_iff s rva).1 (firstV_some hf).2
      refine ⟨?_, byteAt_lt _ _⟩
      have : wadd32 s.va (max s.vs s.rs) < 4294967296 := by unfold wadd32; omega
      omega
  · intro w rva x h
    simp only [ofView] at h
    split at h
    · simp only [Option.some.injEq] at h
      subst h
      exact leN_lt _ _ _
    · cases h
  · intro va r h
    simp only [ofView, View.vaToRva] at h
    have := le32_lt v.b (optOff v.b + 56)
    split at h
    · next r' hr =>
      split at hr
      · cases hr
      · split at hr
        · cases hr
        · simp only [Out.ok.injEq] at hr
          simp only [Option.some.injEq] at h
          unfold sizeOfImage at *
          omega
    · cases h

/-! ### the model's integers stay in their machine ranges -/

theorem vtypeName_lt {S : ScanI} {c r : Nat} (h : vtypeName S c = some r) : r < 4294967296 := by
  unfold vtypeName at h
  split at h <;> split at h <;> try (cases h; done)
  all_goals
    simp only [Option.bind_eq_bind, Option.bind_eq_some_iff, Option.some.injEq] at h
    obtain ⟨_, _, _, _, h⟩ := h
    first
    | (obtain ⟨_, _, _, _, h⟩ := h; subst h; unfold wadd32; omega)
    | (obtain ⟨_, _, h⟩ := h; subst h; unfold wadd32; omega)

/-- one iteration keeps the cursor a `u32` -/
theorem step_cursor_lt {S : ScanI} (hS : S.WF) {a : Atom} {st : St} {m e : Nat} {st' : St} {m' e' : Nat}
    (h : step S a st m e = .ok (some (st', m', e'))) (hc : st.cursor < 4294967296) : st'.cursor < 4294967296 := by
  cases a with
  | ptr =>
    simp only [step] at h
    split at h
    · next rva hb =>
      simp only [Out.ok.injEq, Option.some.injEq, Prod.mk.injEq] at h
      obtain ⟨rfl, _⟩ := h
      rcases Option.bind_eq_some_iff.1 hb with ⟨va, _, hp⟩
      exact hS.pointer_lt _ _ hp
    · cases h
  | vTypeName =>
    simp only [step] at h
    split at h
    · next c hv =>
      simp only [Out.ok.injEq, Option.some.injEq, Prod.mk.injEq] at h
      obtain ⟨rfl, _⟩ := h
      exact vtypeName_lt hv
    · cases h
  | _ =>
    simp only [step] at h <;> (repeat' split at h) <;>
    simp only [Out.ok.injEq, Option.some.injEq, Prod.mk.injEq, reduceCtorEq] at h <;>
    (try (obtain ⟨rfl, _⟩ := h)) <;> (try (cases h; done)) <;>
    (try (simp only [wadd32, wsub32]; omega)) <;> (try exact hc)

theorem manyLoop_cursor_lt {mem : Bytes} {ex : St → Out (Bool × St)} {cursor pc off : Nat} {peek : Option Nat}
    (hex : ∀ s b s', ex s = .ok (b, s') → s.cursor < 4294967296 → s'.cursor < 4294967296) :
    ∀ k i st b st', manyLoop mem ex cursor pc off peek k i st = .ok (b, st') →
      st.cursor < 4294967296 → st'.cursor < 4294967296 := by
  intro k
  induction k with
  | zero => intro i st b st' h hp; simp only [manyLoop] at h; cases h; exact hp
  | succ k ih =>
    intro i st b st' h hp
    simp only [manyLoop] at h
    split at h
    · have hw : wadd32 cursor i < 4294967296 := by unfold wadd32; omega
      split at h
      · next s'' hs => cases h; exact hex _ _ _ hs hw
      · next s'' hs => exact ih _ _ _ _ h (hex _ _ _ hs hw)
      · next hn1 hn2 =>
        cases b with
        | false => exact (hn2 _ h).elim
        | true => exact (hn1 _ h).elim
    · exact ih _ _ _ _ h hp

/-- `self.cursor` is a `u32` throughout (the model's `Nat` never leaves the machine range) -/
theorem exec_cursor_lt {S : ScanI} (hS : S.WF) (pat : List Atom) :
    ∀ fuel st mask ext b st', exec S pat fuel st mask ext = .ok (b, st') →
      st.cursor < 4294967296 → st'.cursor < 4294967296 := by
  intro fuel st mask ext
  fun_induction exec S pat fuel st mask ext with
  | case1 => intro b st' h; cases h
  | case2 => intro b st' h hc; cases h; exact hc
  | case3 fuel st0 mask ext st skip cursor st1 h1 hp ih2 ih1 =>
    intro b st' h hc
    exact ih1 _ _ h (by simp only [cursor, wadd32]; omega)
  | case4 fuel st0 mask ext st skip hp hne ih1 => intro b st' h hc; exact ih1 _ _ h hc
  | case5 fuel st0 mask ext st hp => intro b st' h hc; cases h; exact hc
  | case6 fuel st0 mask ext st limit hp ih1 =>
    intro b st' h hc
    obtain ⟨hlt, _⟩ := List.getElem?_eq_some_iff.1 hp
    cases hsl : S.slice st.cursor with
    | none => rw [execMany_none hsl] at h; cases h; exact hc
    | some ol =>
      obtain ⟨off, len⟩ := ol
      rw [execMany_some hsl (by simp only [st]; omega)] at h
      exact manyLoop_cursor_lt (fun s b s' hs => ih1 s b s' hs) _ _ _ _ _ h hc
  | case7 fuel st0 mask ext st next st1 h1 hp ih2 ih1 =>
    intro b st' h hc
    exact ih1 _ _ h (ih2 _ _ h1 hc)
  | case8 fuel st0 mask ext st next st1 h1 hp ih2 ih1 => intro b st' h hc; exact ih1 _ _ h hc
  | case9 fuel st0 mask ext st next hp hn1 hn2 ih1 => intro b st' h hc; exact ih1 _ _ h hc
  | case10 fuel st0 mask ext st next hp => intro b st' h hc; cases h; exact hc
  | case11 fuel st0 mask ext st a _ _ _ _ _ hs hp => intro b st' h hc; cases h; exact hc
  | case12 fuel st0 mask ext st a _ _ _ _ _ st1 m1 e1 hs hp ih1 =>
    intro b st' h hc
    exact ih1 _ _ h (step_cursor_lt hS hs hc)
  | case13 => intro b st' h; cases h
  | case14 => intro b st' h; cases h
  | case15 => intro b st' h; cases h
  | case16 => intro b st' h; cases h

theorem manyLoop_pc_bound {mem : Bytes} {ex : St → Out (Bool × St)} {cursor pc off : Nat} {peek : Option Nat} (B : Nat)
    (hex : ∀ s b s', ex s = .ok (b, s') → s.pc ≤ B → s'.pc ≤ B) (hpc : pc ≤ B) :
    ∀ k i st b st', manyLoop mem ex cursor pc off peek k i st = .ok (b, st') → st.pc ≤ B → st'.pc ≤ B := by
  intro k
  induction k with
  | zero => intro i st b st' h hp; simp only [manyLoop] at h; cases h; exact hp
  | succ k ih =>
    intro i st b st' h hp
    simp only [manyLoop] at h
    split at h
    · split at h
      · next s'' hs => cases h; exact hex _ _ _ hs hpc
      · next s'' hs => exact ih _ _ _ _ h (hex _ _ _ hs hpc)
      · next hn1 hn2 =>
        cases b with
        | false => exact (hn2 _ h).elim
        | true => exact (hn1 _ h).elim
    · exact ih _ _ _ _ h hp

/-- `self.pc` never exceeds `pat.len() + 255` (a `Break` / failed `Case` may move it past the end by
at most its `u8` argument, after which the loop ends): the `usize` additions cannot overflow. -/
theorem exec_pc_le (S : ScanI) (pat : List Atom) (hok : pat.all Atom.ok = true) :
    ∀ fuel st mask ext b st', exec S pat fuel st mask ext = .ok (b, st') →
      st.pc ≤ pat.length + 255 → st'.pc ≤ pat.length + 255 := by
  intro fuel st mask ext
  fun_induction exec S pat fuel st mask ext with
  | case1 => intro b st' h; cases h
  | case2 => intro b st' h hc; cases h; exact hc
  | case3 fuel st0 mask ext st skip cursor st1 h1 hp ih2 ih1 =>
    intro b st' h hc
    obtain ⟨hlt, _⟩ := List.getElem?_eq_some_iff.1 hp
    have h2 := ih2 _ _ h1 (by simp only [st]; omega)
    exact ih1 _ _ h h2
  | case4 fuel st0 mask ext st skip hp hne ih1 =>
    intro b st' h hc
    obtain ⟨hlt, _⟩ := List.getElem?_eq_some_iff.1 hp
    exact ih1 _ _ h (by simp only [st]; omega)
  | case5 fuel st0 mask ext st hp =>
    intro b st' h hc; cases h
    obtain ⟨hlt, _⟩ := List.getElem?_eq_some_iff.1 hp
    simp only [st]; omega
  | case6 fuel st0 mask ext st limit hp ih1 =>
    intro b st' h hc
    obtain ⟨hlt, _⟩ := List.getElem?_eq_some_iff.1 hp
    cases hsl : S.slice st.cursor with
    | none => rw [execMany_none hsl] at h; cases h; simp only [st]; omega
    | some ol =>
      obtain ⟨off, len⟩ := ol
      rw [execMany_some hsl (by simp only [st]; omega)] at h
      exact manyLoop_pc_bound _ (fun s b s' hs => ih1 s b s' hs) (by simp only [st]; omega) _ _ _ _ _ h (by simp only [st]; omega)
  | case7 fuel st0 mask ext st next st1 h1 hp ih2 ih1 =>
    intro b st' h hc
    obtain ⟨hlt, _⟩ := List.getElem?_eq_some_iff.1 hp
    have h2 := ih2 _ _ h1 (by simp only [st]; omega)
    exact ih1 _ _ h h2
  | case8 fuel st0 mask ext st next st1 h1 hp ih2 ih1 =>
    intro b st' h hc
    obtain ⟨hlt, _⟩ := List.getElem?_eq_some_iff.1 hp
    have hn : next < 256 := by simpa [Atom.ok] using List.all_eq_true.1 hok _ (List.mem_of_getElem? hp)
    exact ih1 _ _ h (by simp only [st]; omega)
  | case9 fuel st0 mask ext st next hp hn1 hn2 ih1 =>
    intro b st' h hc
    obtain ⟨hlt, _⟩ := List.getElem?_eq_some_iff.1 hp
    exact ih1 _ _ h (by simp only [st]; omega)
  | case10 fuel st0 mask ext st next hp =>
    intro b st' h hc; cases h
    obtain ⟨hlt, _⟩ := List.getElem?_eq_some_iff.1 hp
    have hn : next < 256 := by simpa [Atom.ok] using List.all_eq_true.1 hok _ (List.mem_of_getElem? hp)
    simp only [st]; omega
  | case11 fuel st0 mask ext st a _ _ _ _ _ hs hp =>
    intro b st' h hc; cases h
    obtain ⟨hlt, _⟩ := List.getElem?_eq_some_iff.1 hp
    simp only [st]; omega
  | case12 fuel st0 mask ext st a _ _ _ _ _ st1 m1 e1 hs hp ih1 =>
    intro b st' h hc
    obtain ⟨hlt, _⟩ := List.getElem?_eq_some_iff.1 hp
    have := step_pc hs
    exact ih1 _ _ h (by simp only [st] at this; omega)
  | case13 => intro b st' h; cases h
  | case14 => intro b st' h; cases h
  | case15 => intro b st' h; cases h
  | case16 => intro b st' h; cases h

/-- every slot of the save array is a `u32` -/
def SaveOK (save : Array Nat) : Prop := ∀ (i v : Nat), save[i]? = some v → v < 4294967296

theorem saveSet_ok {save : Array Nat} (hs : SaveOK save) (slot : Nat) {v : Nat} (hv : v < 4294967296) :
    SaveOK (saveSet save slot v) := by
  intro i x hx
  simp only [saveSet, Array.getElem?_setIfInBounds] at hx
  split at hx
  · split at hx
    · cases hx; exact hv
    · cases hx
  · exact hs i x hx

theorem saveSet_size (save : Array Nat) (slot v : Nat) : (saveSet save slot v).size = save.size := by
  simp [saveSet]

theorem sext8_lt {v : Nat} (h : v < 256) : sext8 v < 4294967296 := by unfold sext8; split <;> omega
theorem sext16_lt {v : Nat} (h : v < 65536) : sext16 v < 4294967296 := by unfold sext16; split <;> omega

/-- one iteration keeps every save slot a `u32` and the length of the save array -/
theorem step_save_ok {S : ScanI} (hS : S.WF) {a : Atom} {st : St} {m e : Nat} {st' : St} {m' e' : Nat}
    (h : step S a st m e = .ok (some (st', m', e'))) (hc : st.cursor < 4294967296) (hs : SaveOK st.save) :
    SaveOK st'.save ∧ st'.save.size = st.save.size := by
  cases a <;> simp only [step] at h <;> (repeat' split at h) <;>
    simp only [Out.ok.injEq, Option.some.injEq, Prod.mk.injEq, reduceCtorEq] at h <;>
    (try (obtain ⟨rfl, _⟩ := h)) <;> (try (cases h; done)) <;>
    first
    | exact ⟨hs, rfl⟩
    | exact ⟨saveSet_ok hs _ hc, saveSet_size _ _ _⟩
    | exact ⟨saveSet_ok hs _ (by decide), saveSet_size _ _ _⟩
    | exact ⟨saveSet_ok hs _ (sext8_lt (by have := hS.read_lt _ _ _ (by assumption); simpa using this)), saveSet_size _ _ _⟩
    | exact ⟨saveSet_ok hs _ (sext16_lt (by have := hS.read_lt _ _ _ (by assumption); simpa using this)), saveSet_size _ _ _⟩
    | exact ⟨saveSet_ok hs _ (by have := hS.read_lt _ _ _ (by assumption); simp at this; omega), saveSet_size _ _ _⟩

/-- the state stays in machine range: cursor and every save slot are `u32`s, the save array keeps
its length (`save: &mut [Rva]`) -/
def St.InRange (n : Nat) (st : St) : Prop :=
  st.cursor < 4294967296 ∧ SaveOK st.save ∧ st.save.size = n

theorem manyLoop_inRange {mem : Bytes} {ex : St → Out (Bool × St)} {cursor pc off : Nat} {peek : Option Nat} (n : Nat)
    (hex : ∀ s b s', ex s = .ok (b, s') → s.InRange n → s'.InRange n) :
    ∀ k i st b st', manyLoop mem ex cursor pc off peek k i st = .ok (b, st') → st.InRange n → st'.InRange n := by
  intro k
  induction k with
  | zero => intro i st b st' h hp; simp only [manyLoop] at h; cases h; exact hp
  | succ k ih =>
    intro i st b st' h hp
    simp only [manyLoop] at h
    split at h
    · have hw : St.InRange n { st with cursor := wadd32 cursor i, pc := pc } :=
        ⟨by simp only [wadd32]; omega, hp.2.1, hp.2.2⟩
      split at h
      · next s'' hs => cases h; exact hex _ _ _ hs hw
      · next s'' hs => exact ih _ _ _ _ h (hex _ _ _ hs hw)
      · next hn1 hn2 =>
        cases b with
        | false => exact (hn2 _ h).elim
        | true => exact (hn1 _ h).elim
    · exact ih _ _ _ _ h hp

/-- **the model's integers are the machine's**: started with a `u32` cursor and `u32` save slots,
`exec` keeps them `u32`s (every `Nat` the model manipulates is the value the Rust code holds) and
never changes the length of the save array. -/
theorem exec_inRange {S : ScanI} (hS : S.WF) (pat : List Atom) (n : Nat) :
    ∀ fuel st mask ext b st', exec S pat fuel st mask ext = .ok (b, st') → st.InRange n → st'.InRange n := by
  intro fuel st mask ext
  fun_induction exec S pat fuel st mask ext with
  | case1 => intro b st' h; cases h
  | case2 => intro b st' h hc; cases h; exact hc
  | case3 fuel st0 mask ext st skip cursor st1 h1 hp ih2 ih1 =>
    intro b st' h hc
    have h2 := ih2 _ _ h1 hc
    exact ih1 _ _ h ⟨by simp only [cursor, wadd32]; omega, h2.2.1, h2.2.2⟩
  | case4 fuel st0 mask ext st skip hp hne ih1 => intro b st' h hc; exact ih1 _ _ h hc
  | case5 fuel st0 mask ext st hp => intro b st' h hc; cases h; exact hc
  | case6 fuel st0 mask ext st limit hp ih1 =>
    intro b st' h hc
    obtain ⟨hlt, _⟩ := List.getElem?_eq_some_iff.1 hp
    cases hsl : S.slice st.cursor with
    | none => rw [execMany_none hsl] at h; cases h; exact hc
    | some ol =>
      obtain ⟨off, len⟩ := ol
      rw [execMany_some hsl (by simp only [st]; omega)] at h
      exact manyLoop_inRange n (fun s b s' hs => ih1 s b s' hs) _ _ _ _ _ h hc
  | case7 fuel st0 mask ext st next st1 h1 hp ih2 ih1 =>
    intro b st' h hc
    exact ih1 _ _ h (ih2 _ _ h1 hc)
  | case8 fuel st0 mask ext st next st1 h1 hp ih2 ih1 =>
    intro b st' h hc
    have h2 := ih2 _ _ h1 hc
    exact ih1 _ _ h ⟨hc.1, h2.2.1, h2.2.2⟩
  | case9 fuel st0 mask ext st next hp hn1 hn2 ih1 => intro b st' h hc; exact ih1 _ _ h hc
  | case10 fuel st0 mask ext st next hp => intro b st' h hc; cases h; exact hc
  | case11 fuel st0 mask ext st a _ _ _ _ _ hs hp => intro b st' h hc; cases h; exact hc
  | case12 fuel st0 mask ext st a _ _ _ _ _ st1 m1 e1 hs hp ih1 =>
    intro b st' h hc
    have h2 := step_save_ok hS hs hc.1 hc.2.1
    exact ih1 _ _ h ⟨step_cursor_lt hS hs hc.1, h2.1, by rw [h2.2]; exact hc.2.2⟩
  | case13 => intro b st' h; cases h
  | case14 => intro b st' h; cases h
  | case15 => intro b st' h; cases h
  | case16 => intro b st' h; cases h

/-! ### the captures do not depend on stale save contents -/

/-- slot by slot: after the two runs either both arrays hold the same value, or each still holds
what it was given (the runs did not write the slot) -/
def SaveRel (s1 s2 t1 t2 : Array Nat) : Prop :=
  t1.size = t2.size ∧ ∀ i : Nat, t1[i]? = t2[i]? ∨ (t1[i]? = s1[i]? ∧ t2[i]? = s2[i]?)

theorem SaveRel.refl {s1 s2 : Array Nat} (h : s1.size = s2.size) : SaveRel s1 s2 s1 s2 :=
  ⟨h, fun _ => .inr ⟨rfl, rfl⟩⟩

theorem SaveRel.trans {s1 s2 t1 t2 u1 u2 : Array Nat} (h1 : SaveRel s1 s2 t1 t2) (h2 : SaveRel t1 t2 u1 u2) :
    SaveRel s1 s2 u1 u2 := by
  refine ⟨h2.1, fun i => ?_⟩
  rcases h2.2 i with h | ⟨ha, hb⟩
  · exact .inl h
  · rcases h1.2 i with h | ⟨hc, hd⟩
    · exact .inl (by rw [ha, hb, h])
    · exact .inr ⟨by rw [ha, hc], by rw [hb, hd]⟩

theorem SaveRel.set {s1 s2 t1 t2 : Array Nat} (h : SaveRel s1 s2 t1 t2) (k v : Nat) :
    SaveRel s1 s2 (saveSet t1 k v) (saveSet t2 k v) := by
  refine ⟨by simp [saveSet, h.1], fun i => ?_⟩
  simp only [saveSet, Array.getElem?_setIfInBounds, h.1]
  by_cases hk : k = i
  · simp [hk]
  · simp only [hk, if_false]; exact h.2 i

inductive OSim2 (s1 s2 : Array Nat) : Out (Bool × St) → Out (Bool × St) → Prop
  | ok (b : Bool) (u1 u2 : St) : u1.pc = u2.pc → u1.cursor = u2.cursor → SaveRel s1 s2 u1.save u2.save →
      OSim2 s1 s2 (.ok (b, u1)) (.ok (b, u2))
  | err (e : Err) : OSim2 s1 s2 (.err e) (.err e)
  | panic (s : String) : OSim2 s1 s2 (.panic s) (.panic s)
  | ub (s : String) : OSim2 s1 s2 (.ub s) (.ub s)
  | diverge : OSim2 s1 s2 .diverge .diverge

theorem OSim2.lift {s1 s2 t1 t2 : Array Nat} {o1 o2 : Out (Bool × St)} (hr : SaveRel s1 s2 t1 t2)
    (h : OSim2 t1 t2 o1 o2) : OSim2 s1 s2 o1 o2 := by
  cases h with
  | ok b u1 u2 h1 h2 h3 => exact .ok b u1 u2 h1 h2 (hr.trans h3)
  | err e => exact .err e
  | panic s => exact .panic s
  | ub s => exact .ub s
  | diverge => exact .diverge

inductive SSim2 (s1 s2 : Array Nat) : Out (Option (St × Nat × Nat)) → Out (Option (St × Nat × Nat)) → Prop
  | none : SSim2 s1 s2 (.ok none) (.ok none)
  | some (u1 u2 : St) (m e : Nat) : u1.pc = u2.pc → u1.cursor = u2.cursor → SaveRel s1 s2 u1.save u2.save →
      SSim2 s1 s2 (.ok (some (u1, m, e))) (.ok (some (u2, m, e)))
  | err (e : Err) : SSim2 s1 s2 (.err e) (.err e)
  | panic (s : String) : SSim2 s1 s2 (.panic s) (.panic s)
  | ub (s : String) : SSim2 s1 s2 (.ub s) (.ub s)
  | diverge : SSim2 s1 s2 .diverge .diverge

theorem step_sim2 {S : ScanI} {a : Atom} (ha : Scan.noRead a = true) (pc cur : Nat) (s1 s2 : Array Nat)
    (hsz : s1.size = s2.size) (m e : Nat) :
    SSim2 s1 s2 (step S a ⟨pc, cur, s1⟩ m e) (step S a ⟨pc, cur, s2⟩ m e) := by
  have hr := SaveRel.refl hsz
  cases a <;> simp [Scan.noRead] at ha <;> simp only [step] <;> (repeat' split) <;>
    first
    | exact .none
    | exact .some _ _ _ _ rfl rfl hr
    | exact .some _ _ _ _ rfl rfl (hr.set _ _)
    | exact .panic _
    | (simp_all; done)

theorem manyLoop_sim2 {mem : Bytes} {ex : St → Out (Bool × St)} {cursor pc off : Nat} {peek : Option Nat}
    (hex : ∀ pc cur a1 a2, a1.size = a2.size → OSim2 a1 a2 (ex ⟨pc, cur, a1⟩) (ex ⟨pc, cur, a2⟩)) :
    ∀ k i pc0 cur0 t1 t2, t1.size = t2.size →
      OSim2 t1 t2 (manyLoop mem ex cursor pc off peek k i ⟨pc0, cur0, t1⟩)
        (manyLoop mem ex cursor pc off peek k i ⟨pc0, cur0, t2⟩) := by
  intro k
  induction k with
  | zero => intro i pc0 cur0 t1 t2 hsz; exact .ok _ _ _ rfl rfl (SaveRel.refl hsz)
  | succ k ih =>
    intro i pc0 cur0 t1 t2 hsz
    simp only [manyLoop]
    split
    · have h := hex pc (wadd32 cursor i) t1 t2 hsz
      generalize ex ⟨pc, wadd32 cursor i, t1⟩ = o1 at h
      generalize ex ⟨pc, wadd32 cursor i, t2⟩ = o2 at h
      cases h with
      | ok b u1 u2 hpc hcur hrel =>
        cases b
        · obtain ⟨p1, c1, v1⟩ := u1
          obtain ⟨p2, c2, v2⟩ := u2
          simp only at hpc hcur hrel
          subst hpc hcur
          exact (ih _ _ _ _ _ hrel.1).lift hrel
        · exact .ok _ _ _ hpc hcur hrel
      | err e => exact .err e
      | panic s => exact .panic s
      | ub s => exact .ub s
      | diverge => exact .diverge
    · exact ih _ _ _ _ _ hsz

/-- For a pattern without `Check` / `Pir`, run on two save arrays of the same length: same outcome,
and every slot afterwards holds the same value in both or was written by neither. -/
theorem exec_sim2 (S : ScanI) (pat : List Atom) (hnr : pat.all Scan.noRead = true) :
    ∀ fuel pc cur t1 t2 m e, t1.size = t2.size →
      OSim2 t1 t2 (exec S pat fuel ⟨pc, cur, t1⟩ m e) (exec S pat fuel ⟨pc, cur, t2⟩ m e) := by
  intro fuel
  induction fuel with
  | zero => intro pc cur t1 t2 m e _; exact .diverge
  | succ fuel ih =>
    intro pc cur t1 t2 m e hsz
    have hr0 := SaveRel.refl hsz
    cases hp : pat[pc]? with
    | none => rw [exec_none (st := ⟨pc, cur, t1⟩) hp, exec_none (st := ⟨pc, cur, t2⟩) hp]; exact .ok _ _ _ rfl rfl hr0
    | some a =>
      have hanr : Scan.noRead a = true := List.all_eq_true.1 hnr a (List.mem_of_getElem? hp)
      by_cases hc : isCtl a = true
      · cases a <;> simp [isCtl] at hc
        · -- push
          rw [exec_push (st := ⟨pc, cur, t1⟩) hp, exec_push (st := ⟨pc, cur, t2⟩) hp]
          have h := ih (pc + 1) cur t1 t2 255 0 hsz
          simp only
          generalize exec S pat fuel ⟨pc + 1, cur, t1⟩ 255 0 = o1 at h
          generalize exec S pat fuel ⟨pc + 1, cur, t2⟩ 255 0 = o2 at h
          cases h with
          | ok b u1 u2 hpc hcur hrel =>
            cases b
            · exact .ok _ _ _ hpc hcur hrel
            · obtain ⟨p1, c1, v1⟩ := u1
              obtain ⟨p2, c2, v2⟩ := u2
              simp only at hpc hcur hrel
              subst hpc hcur
              exact (ih _ _ _ _ _ _ hrel.1).lift hrel
          | err e => exact .err e
          | panic s => exact .panic s
          | ub s => exact .ub s
          | diverge => exact .diverge
        · -- pop
          rw [exec_pop (st := ⟨pc, cur, t1⟩) hp, exec_pop (st := ⟨pc, cur, t2⟩) hp]; exact .ok _ _ _ rfl rfl hr0
        · -- many
          rw [exec_many (st := ⟨pc, cur, t1⟩) hp, exec_many (st := ⟨pc, cur, t2⟩) hp]
          unfold execMany
          simp only
          split
          · exact .ok _ _ _ rfl rfl hr0
          · split
            · exact manyLoop_sim2 (fun pc cur a1 a2 h => ih pc cur a1 a2 255 0 h) _ _ _ _ _ _ hsz
            · exact .panic _
        · -- case
          rw [exec_case (st := ⟨pc, cur, t1⟩) hp, exec_case (st := ⟨pc, cur, t2⟩) hp]
          have h := ih (pc + 1) cur t1 t2 255 0 hsz
          simp only
          generalize exec S pat fuel ⟨pc + 1, cur, t1⟩ 255 0 = o1 at h
          generalize exec S pat fuel ⟨pc + 1, cur, t2⟩ 255 0 = o2 at h
          cases h with
          | ok b u1 u2 hpc hcur hrel =>
            obtain ⟨p1, c1, v1⟩ := u1
            obtain ⟨p2, c2, v2⟩ := u2
            simp only at hpc hcur hrel
            subst hpc hcur
            cases b
            · exact (ih _ _ _ _ _ _ hrel.1).lift hrel
            · exact (ih _ _ _ _ _ _ hrel.1).lift hrel
          | err e => exact .err e
          | panic s => exact .panic s
          | ub s => exact .ub s
          | diverge => exact .diverge
        · -- break
          rw [exec_brk (st := ⟨pc, cur, t1⟩) hp, exec_brk (st := ⟨pc, cur, t2⟩) hp]; exact .ok _ _ _ rfl rfl hr0
      · have hc' : isCtl a = false := by simpa using hc
        rw [exec_simple (st := ⟨pc, cur, t1⟩) hp hc', exec_simple (st := ⟨pc, cur, t2⟩) hp hc']
        have h := step_sim2 (S := S) hanr (pc + 1) cur t1 t2 hsz m e
        simp only
        generalize step S a ⟨pc + 1, cur, t1⟩ m e = o1 at h
        generalize step S a ⟨pc + 1, cur, t2⟩ m e = o2 at h
        cases h with
        | none => exact .ok _ _ _ rfl rfl hr0
        | some u1 u2 m' e' hpc hcur hrel =>
          obtain ⟨p1, c1, v1⟩ := u1
          obtain ⟨p2, c2, v2⟩ := u2
          simp only at hpc hcur hrel
          subst hpc hcur
          exact (ih _ _ _ _ _ _ hrel.1).lift hrel
        | err e => exact .err e
        | panic s => exact .panic s
        | ub s => exact .ub s
        | diverge => exact .diverge

/-- `Scanner::exec` on a pattern without `Check` / `Pir`, on two save arrays of the same length:
the same result, and the captures differ only in slots the execution does not write. -/
theorem run_captures_indep (S : ScanI) (pat : List Atom) (hnr : pat.all Scan.noRead = true)
    (c : Nat) (s1 s2 t1 : Array Nat) (hsz : s1.size = s2.size) (b : Bool) (h : run S pat c s1 = .ok (b, t1)) :
    ∃ t2, run S pat c s2 = .ok (b, t2) ∧ SaveRel s1 s2 t1 t2 := by
  have hs := exec_sim2 S pat hnr (fuelFor pat) 0 c s1 s2 255 0 hsz
  unfold run at h ⊢
  generalize exec S pat (fuelFor pat) ⟨0, c, s1⟩ 255 0 = o1 at hs h
  generalize exec S pat (fuelFor pat) ⟨0, c, s2⟩ 255 0 = o2 at hs
  cases hs with
  | ok b' u1 u2 _ _ hrel =>
    simp only [Out.ok.injEq, Prod.mk.injEq] at h
    obtain ⟨rfl, rfl⟩ := h
    exact ⟨u2.save, rfl, hrel⟩
  | err e => cases h
  | panic s => cases h
  | ub s => cases h
  | diverge => cases h

end Pelite.Exec
