import PeliteModel.Lemmas.Scan
import PeliteModel.Lemmas.Pattern
/-!
Frame lemmas for the interpreter model `Exec.exec`: which save slots an execution can change.

`exec_rel` is the generic fact everything rests on: an execution started at `pc ≥ lo` only ever runs
atoms at indices `≥ lo` (the program counter never decreases, `exec_pc_mono`), so any reflexive and
transitive relation between save arrays that every single `step` of such an atom establishes relates
the save array `exec` is given to the one it leaves — on every path: nested `Push` frames, both
outcomes of a `Case`, every attempt of `exec_many` (failed attempts leave their writes behind), and
the failing paths as well.
-/
namespace Pelite.Exec
open Pelite.Pattern

/-- the save slot an atom WRITES (`Save`, `Zero`, the six `Read*`); `Pir` and `Check` only read theirs -/
def wslot : Atom → Option Nat
  | .save s | .zero s | .readI8 s | .readI16 s | .readI32 s | .readU8 s | .readU16 s | .readU32 s => some s
  | _ => none

/-- a written slot is one of the slots `save_len` looks at -/
theorem slotOf_of_wslot {a : Atom} {k : Nat} (h : wslot a = some k) : slotOf a = some k := by
  cases a <;> simp_all [wslot, slotOf]

/-- `t` is `s` except possibly at the indices in `W`; same length -/
def Frame (W : Nat → Prop) (s t : Array Nat) : Prop :=
  t.size = s.size ∧ ∀ i : Nat, ¬ W i → t[i]? = s[i]?

theorem Frame.refl (W : Nat → Prop) (s : Array Nat) : Frame W s s := ⟨rfl, fun _ _ => rfl⟩

theorem Frame.trans {W : Nat → Prop} {a b c : Array Nat} (h1 : Frame W a b) (h2 : Frame W b c) : Frame W a c :=
  ⟨h2.1.trans h1.1, fun i hi => (h2.2 i hi).trans (h1.2 i hi)⟩

theorem Frame.mono {W W' : Nat → Prop} {s t : Array Nat} (h : Frame W s t) (hW : ∀ i, W i → W' i) : Frame W' s t :=
  ⟨h.1, fun i hi => h.2 i (fun hw => hi (hW i hw))⟩

theorem Frame.set (W : Nat → Prop) (s : Array Nat) (k v : Nat) (hk : W k) : Frame W s (saveSet s k v) := by
  refine ⟨saveSet_size _ _ _, fun i hi => ?_⟩
  simp only [saveSet, Array.getElem?_setIfInBounds]
  by_cases hki : k = i
  · subst hki; exact absurd hk hi
  · simp [hki]

/-- one loop iteration changes at most the slot its atom writes, and never the length -/
theorem step_frame {S : ScanI} {a : Atom} {st : St} {m e : Nat} {st' : St} {m' e' : Nat}
    (h : step S a st m e = .ok (some (st', m', e'))) : Frame (fun i => wslot a = some i) st.save st'.save := by
  cases a <;> simp only [step] at h <;> (repeat' split at h) <;>
    simp only [Out.ok.injEq, Option.some.injEq, Prod.mk.injEq, reduceCtorEq] at h <;>
    (try (obtain ⟨rfl, _⟩ := h)) <;> (try (cases h; done)) <;>
    first
    | exact Frame.refl _ _
    | exact Frame.set _ _ _ _ rfl

/-! ### the generic lemma -/

theorem manyLoop_rel {R : Array Nat → Array Nat → Prop} (hrefl : ∀ s, R s s)
    (htrans : ∀ a b c, R a b → R b c → R a c)
    {mem : Bytes} {ex : St → Out (Bool × St)} {cursor pc off : Nat} {peek : Option Nat}
    (hex : ∀ s b s', ex s = .ok (b, s') → s.pc = pc → R s.save s'.save) :
    ∀ k i st b st', manyLoop mem ex cursor pc off peek k i st = .ok (b, st') → R st.save st'.save := by
  intro k
  induction k with
  | zero => intro i st b st' h; simp only [manyLoop] at h; cases h; exact hrefl _
  | succ k ih =>
    intro i st b st' h
    simp only [manyLoop] at h
    split at h
    · split at h
      · next s'' hs => cases h; exact hex { st with cursor := wadd32 cursor i, pc := pc } _ _ hs rfl
      · next s'' hs =>
        exact htrans _ _ _ (hex { st with cursor := wadd32 cursor i, pc := pc } _ _ hs rfl) (ih _ _ _ _ h)
      · next hn1 hn2 =>
        cases b with
        | false => exact (hn2 _ h).elim
        | true => exact (hn1 _ h).elim
    · exact ih _ _ _ _ h

/-- **Generic frame lemma.**  Let `R` be reflexive and transitive and let every successful `step` of
an atom at an index `≥ lo` relate the save array before to the one after.  Then every call of `exec`
that starts at a `pc ≥ lo` and returns relates the save array it was given to the one it leaves —
whatever it returns, for every atom list. -/
theorem exec_rel (S : ScanI) (pat : List Atom) (lo : Nat) (R : Array Nat → Array Nat → Prop)
    (hrefl : ∀ s, R s s) (htrans : ∀ a b c, R a b → R b c → R a c)
    (hstep : ∀ j a, lo ≤ j → pat[j]? = some a → ∀ st m e st' m' e',
      step S a st m e = .ok (some (st', m', e')) → R st.save st'.save) :
    ∀ fuel st mask ext b st', exec S pat fuel st mask ext = .ok (b, st') → lo ≤ st.pc → R st.save st'.save := by
  intro fuel st mask ext
  fun_induction exec S pat fuel st mask ext with
  | case1 => intro b st' h; cases h
  | case2 => intro b st' h _; cases h; exact hrefl _
  | case3 fuel st0 mask ext st skip cursor st1 h1 hp ih2 ih1 =>
    intro b st' h hlo
    have hm := exec_pc_mono S pat _ _ _ _ _ _ h1
    have h2 := ih2 _ _ h1 (by simp only [st]; omega)
    have h3 := ih1 _ _ h (by simp only [st] at hm ⊢; omega)
    exact htrans _ _ _ h2 h3
  | case4 fuel st0 mask ext st skip hp hne ih1 =>
    intro b st' h hlo
    exact ih1 _ _ h (by simp only [st]; omega)
  | case5 fuel st0 mask ext st hp => intro b st' h _; cases h; exact hrefl _
  | case6 fuel st0 mask ext st limit hp ih1 =>
    intro b st' h hlo
    obtain ⟨hlt, _⟩ := List.getElem?_eq_some_iff.1 hp
    cases hsl : S.slice st.cursor with
    | none => rw [execMany_none hsl] at h; cases h; exact hrefl _
    | some ol =>
      obtain ⟨off, len⟩ := ol
      rw [execMany_some hsl (by simp only [st]; omega)] at h
      have := manyLoop_rel hrefl htrans (pc := st.pc)
        (fun s b s' hs hpc => ih1 s b s' hs (by (try simp only [st] at hpc); omega)) _ _ _ _ _ h
      exact this
  | case7 fuel st0 mask ext st next st1 h1 hp ih2 ih1 =>
    intro b st' h hlo
    have hm := exec_pc_mono S pat _ _ _ _ _ _ h1
    have h2 := ih2 _ _ h1 (by simp only [st]; omega)
    have h3 := ih1 _ _ h (by (try simp only [st] at hm); omega)
    exact htrans _ _ _ h2 h3
  | case8 fuel st0 mask ext st next st1 h1 hp ih2 ih1 =>
    intro b st' h hlo
    have h2 := ih2 _ _ h1 (by simp only [st]; omega)
    have h3 := ih1 _ _ h (by simp only [st]; omega)
    exact htrans _ _ _ h2 h3
  | case9 fuel st0 mask ext st next hp hn1 hn2 ih1 =>
    intro b st' h hlo
    exact ih1 _ _ h (by simp only [st]; omega)
  | case10 fuel st0 mask ext st next hp => intro b st' h _; cases h; exact hrefl _
  | case11 fuel st0 mask ext st a _ _ _ _ _ hs hp => intro b st' h _; cases h; exact hrefl _
  | case12 fuel st0 mask ext st a _ _ _ _ _ st1 m1 e1 hs hp ih1 =>
    intro b st' h hlo
    have h2 := hstep _ a hlo hp _ _ _ _ _ _ hs
    have := step_pc hs
    have h3 := ih1 _ _ h (by simp only [st] at this; omega)
    exact htrans _ _ _ h2 h3
  | case13 => intro b st' h; cases h
  | case14 => intro b st' h; cases h
  | case15 => intro b st' h; cases h
  | case16 => intro b st' h; cases h

/-! ### instances -/

/-- the slots written by the atoms at indices `≥ lo` -/
def WrittenFrom (pat : List Atom) (lo : Nat) (i : Nat) : Prop :=
  ∃ j a, lo ≤ j ∧ pat[j]? = some a ∧ wslot a = some i

/-- **Frame lemma for `exec`**: a call that starts at `pc` leaves the length of the save array alone
and changes at most the slots written by atoms at indices `≥ pc`. -/
theorem exec_frame (S : ScanI) (pat : List Atom) (fuel : Nat) (st : St) (mask ext : Nat) (b : Bool) (st' : St)
    (h : exec S pat fuel st mask ext = .ok (b, st')) : Frame (WrittenFrom pat st.pc) st.save st'.save :=
  exec_rel S pat st.pc (Frame (WrittenFrom pat st.pc)) (Frame.refl _) (fun _ _ _ => Frame.trans)
    (fun j a hj hp _ _ _ _ _ _ hs => (step_frame hs).mono (fun _ hi => ⟨j, a, hj, hp, hi⟩))
    fuel st mask ext b st' h (Nat.le_refl _)

theorem run_exec {S : ScanI} {pat : List Atom} {c : Nat} {save save' : Array Nat} {b : Bool}
    (h : run S pat c save = .ok (b, save')) :
    ∃ st', exec S pat (fuelFor pat) ⟨0, c, save⟩ 0xff 0 = .ok (b, st') ∧ st'.save = save' := by
  unfold run at h
  split at h <;> try (cases h; done)
  next b' st hex =>
    simp only [Out.ok.injEq, Prod.mk.injEq] at h
    obtain ⟨rfl, rfl⟩ := h
    exact ⟨st, hex, rfl⟩

/-- **Frame lemma for `Scanner::exec`** (sharp form: `Pir` / `Check` slots are not written either) -/
theorem run_frame (S : ScanI) (pat : List Atom) (c : Nat) (save save' : Array Nat) (b : Bool)
    (h : run S pat c save = .ok (b, save')) :
    save'.size = save.size ∧ ∀ i : Nat, (∀ a ∈ pat, wslot a ≠ some i) → save'[i]? = save[i]? := by
  obtain ⟨st', hex, rfl⟩ := run_exec h
  have hf := exec_frame S pat _ _ _ _ _ _ hex
  refine ⟨hf.1, fun i hi => hf.2 i ?_⟩
  rintro ⟨j, a, _, hp, hw⟩
  exact hi a (List.mem_of_getElem? hp) hw

/-- a pattern that starts with `Save(s)` and does not write slot `s` again leaves the start cursor in
slot `s` (when the caller's array has that slot) — whatever the outcome -/
theorem run_first_save (S : ScanI) (pat : List Atom) (s : Nat) (h0 : pat[0]? = some (.save s))
    (hno : ∀ j a, 0 < j → pat[j]? = some a → wslot a ≠ some s)
    (c : Nat) (save save' : Array Nat) (b : Bool) (h : run S pat c save = .ok (b, save')) :
    save'.size = save.size ∧ (s < save.size → save'[s]? = some c) := by
  obtain ⟨st', hex, rfl⟩ := run_exec h
  have hsz := (exec_frame S pat _ _ _ _ _ _ hex).1
  refine ⟨hsz, fun hs => ?_⟩
  have hp : pat[(⟨0, c, save⟩ : St).pc]? = some (.save s) := h0
  unfold fuelFor at hex
  rw [exec_simple hp rfl] at hex
  simp only [step] at hex
  have hf := exec_frame S pat _ _ _ _ _ _ hex
  have := hf.2 s (by
    rintro ⟨j, a, hj, hpj, hw⟩
    exact hno j a (by simp at hj; omega) hpj hw)
  rw [this]
  simp [saveSet, hs]

/-- decidable form of the hypothesis of `run_first_save` for slot 0: the pattern starts with
`Save(0)` and no later atom writes slot 0 -/
def slot0Reserved : List Atom → Bool
  | .save 0 :: r => r.all (fun a => wslot a != some 0)
  | _ => false

theorem slot0Reserved_spec {pat : List Atom} (h : slot0Reserved pat = true) :
    pat[0]? = some (.save 0) ∧ ∀ j a, 0 < j → pat[j]? = some a → wslot a ≠ some 0 := by
  unfold slot0Reserved at h
  split at h
  · next r =>
    refine ⟨rfl, ?_⟩
    intro j a hj hp hw
    obtain ⟨i, rfl⟩ : ∃ i, j = i + 1 := ⟨j - 1, by omega⟩
    rw [List.getElem?_cons_succ] at hp
    have := List.all_eq_true.1 h a (List.mem_of_getElem? hp)
    simp [hw] at this
  · cases h

theorem slot0Reserved_of {pat : List Atom} (h0 : pat[0]? = some (.save 0))
    (hno : ∀ j a, 0 < j → pat[j]? = some a → wslot a ≠ some 0) : slot0Reserved pat = true := by
  cases pat with
  | nil => simp at h0
  | cons a0 r =>
    simp only [List.getElem?_cons_zero, Option.some.injEq] at h0
    subst h0
    simp only [slot0Reserved, List.all_eq_true]
    intro a ha
    obtain ⟨i, hi⟩ := List.mem_iff_getElem?.mp ha
    have := hno (i + 1) a (Nat.succ_pos _) (by rw [List.getElem?_cons_succ]; exact hi)
    simpa using this

end Pelite.Exec

/-! ### the scanner: `next` and whole scans -/
namespace Pelite.Scan
open Pelite.Pattern Pelite.Exec

/-- the slots some atom of the pattern writes -/
def Written (pat : List Atom) (i : Nat) : Prop := ∃ a ∈ pat, wslot a = some i

/-- every call of the interpreter `next` is instantiated with is framed by the pattern's written slots -/
theorem interp_keeps_frame (v : Pe.View) (pat : List Atom) : (interp v pat).Keeps (Frame (Written pat)) where
  refl := Frame.refl _
  trans := fun _ _ _ => Frame.trans
  call := by
    intro c s b s' h
    obtain ⟨h1, h2⟩ := run_frame (ofView v) pat c s s' b h
    exact ⟨h1, fun i hi => h2 i (fun a ha hw => hi ⟨a, ha, hw⟩)⟩

/-- one call of `next`: the save array keeps its length and changes only in written slots -/
theorem next_frame (v : Pe.View) (pat : List Atom) (m : MSt) (save : Array Nat) (r : Res)
    (h : next v pat m save = .ok r) : Frame (Written pat) save r.save :=
  nextWith_rel (interp_keeps_frame v pat) v (setup pat) m save r h

/-- a whole scan: the same for the final array and for every recorded array -/
theorem scanAll_frame (v : Pe.View) (pat : List Atom) (n : Nat) (m : MSt) (save : Array Nat) (a : All)
    (h : scanAll (next v pat) n m save = .ok a) :
    Frame (Written pat) save a.save ∧ ∀ x ∈ a.hits, Frame (Written pat) save x.2 :=
  scanAll_rel (Frame.refl _) (fun _ _ _ => Frame.trans) (fun m s r hr => next_frame v pat m s r hr) n m save a h

theorem not_written_of_saveLen_le {pat : List Atom} {i : Nat} (h : saveLen pat ≤ i) : ¬ Written pat i := by
  rintro ⟨a, ha, hw⟩
  have := saveLen_covers ha (slotOf_of_wslot hw)
  omega

end Pelite.Scan
