import PeliteModel.Spec.Exports
import PeliteModel.Lemmas.Typed
/-! Helper lemmas for C08 (export directory). -/
namespace Pelite.Exports
open Pelite.Pe

/-! ### outcomes: value or typed error -/

theorem okOrErr_ok {α} (a : α) : OkOrErr (Out.ok a) := .inl ⟨a, rfl⟩
theorem okOrErr_err {α} (e : Err) : OkOrErr (Out.err e : Out α) := .inr ⟨e, rfl⟩

theorem okOrErr_bind {α β} {x : Out α} {f : α → Out β} (hx : OkOrErr x) (hf : ∀ a, OkOrErr (f a)) :
    OkOrErr (x.bind f) := by
  rcases hx with ⟨a, rfl⟩ | ⟨e, rfl⟩
  · exact hf a
  · exact .inr ⟨e, rfl⟩

theorem okOrErr_cases {α} {x : Out α} (h : OkOrErr x) : (∃ a, x = .ok a) ∨ (∃ e, x = .err e) := h

theorem discard_eq {α β} {x : Out α} (hx : OkOrErr x) (k : Out β) : discard x k = k := by
  rcases hx with ⟨a, rfl⟩ | ⟨e, rfl⟩ <;> rfl

theorem okOrErr_mapOut {α β} {x : Out α} (f : α → β) (hx : OkOrErr x) : OkOrErr (mapOut f x) := by
  rcases hx with ⟨a, rfl⟩ | ⟨e, rfl⟩
  · exact .inl ⟨_, rfl⟩
  · exact .inr ⟨_, rfl⟩

theorem mapOut_ok_iff {α β} {x : Out α} {f : α → β} {b : β} :
    mapOut f x = .ok b ↔ ∃ a, x = .ok a ∧ f a = b := by
  cases x <;> simp [mapOut]

/-! ### the read primitives on an RVA: total, and sound for every view -/

theorem at_rva (v : View) (r min a : Nat) : v.at (.rva r) min a = v.slice r min a := rfl

theorem rangeFile_okOrErr (size : Nat) (secs : List Sec) (rva min : Nat) :
    OkOrErr (rangeFile size secs rva min) := by
  induction secs with
  | nil => exact .inr ⟨_, rfl⟩
  | cons s rest ih =>
    unfold rangeFile
    dsimp only
    split
    · split
      · split
        · exact .inl ⟨_, rfl⟩
        · split <;> exact .inr ⟨_, rfl⟩
      · exact .inr ⟨_, rfl⟩
    · exact ih

theorem fileTail_okOrErr (img : Img) (secs : List Sec) (rva min align : Nat) :
    OkOrErr (fileTail img secs rva min align) := by
  unfold fileTail
  rcases rangeFile_okOrErr img.bytes.size secs rva min with ⟨⟨o, l⟩, h⟩ | ⟨e, h⟩
  · rw [h]; dsimp only; split
    · exact .inl ⟨_, rfl⟩
    · exact .inr ⟨_, rfl⟩
  · rw [h]; exact .inr ⟨_, rfl⟩

theorem slice_okOrErr (v : View) (r min a : Nat) (hp : isPow2 a = true) : OkOrErr (v.slice r min a) := by
  unfold View.slice
  cases v.kind
  · show OkOrErr (sliceFile v.img v.secs r min a)
    rw [sliceFile_eq_tail]
    split
    · exact .inr ⟨_, rfl⟩
    · split
      · exact fileTail_okOrErr ..
      · exact .inr ⟨_, rfl⟩
  · show OkOrErr (sliceSection v.img r min a)
    rw [sliceSection_eq]
    split
    · exact .inr ⟨_, rfl⟩
    · split
      · split
        · exact .inl ⟨_, rfl⟩
        · exact .inr ⟨_, rfl⟩
      · exact .inr ⟨_, rfl⟩

theorem slice_sound (v : View) {r min a : Nat} {ref : Ref} (h : v.slice r min a = .ok ref) :
    RefOK v.img ref ∧ min ≤ ref.len ∧ ref.align = a := by
  unfold View.slice at h
  cases hk : v.kind
  · rw [hk] at h
    exact sliceFile_sound' (sections_in_range v.b) h
  · rw [hk] at h
    exact sliceSection_sound h

theorem derva_okOrErr (v : View) (r size a : Nat) (hp : isPow2 a = true) : OkOrErr (v.derva (.rva r) size a) := by
  unfold View.derva
  rw [at_rva]
  rcases slice_okOrErr v r size a hp with ⟨x, h⟩ | ⟨e, h⟩ <;> rw [h]
  · exact .inl ⟨_, rfl⟩
  · exact .inr ⟨_, rfl⟩

theorem derva_sound (v : View) {r size a : Nat} {ref : Ref} (h : v.derva (.rva r) size a = .ok ref) :
    RefOK v.img ref ∧ ref.len = size ∧ ref.align = a := by
  unfold View.derva at h
  rw [at_rva] at h
  cases hs : v.slice r size a with
  | ok s =>
    rw [hs] at h
    cases h
    obtain ⟨⟨h1, h2⟩, h3, h4⟩ := slice_sound v hs
    refine ⟨⟨?_, ?_⟩, rfl, rfl⟩
    · show s.off + size ≤ _
      omega
    · show (v.img.base + s.off) % a = 0
      rw [← h4]; exact h2
  | _ => rw [hs] at h; cases h

theorem dervaSlice_okOrErr (v : View) (r size a len : Nat) (hp : isPow2 a = true) :
    OkOrErr (v.dervaSlice (.rva r) size a len) := by
  rw [dervaSlice_unfold]
  rw [at_rva]
  split
  · exact .inr ⟨_, rfl⟩
  · rcases slice_okOrErr v r (size * len) a hp with ⟨x, h⟩ | ⟨e, h⟩ <;> rw [h]
    · exact .inl ⟨_, rfl⟩
    · exact .inr ⟨_, rfl⟩

theorem dervaSlice_sound (v : View) {r size a len : Nat} {ref : Ref}
    (h : v.dervaSlice (.rva r) size a len = .ok ref) :
    RefOK v.img ref ∧ ref.len = size * len ∧ ref.align = a := by
  rw [dervaSlice_unfold] at h
  rw [at_rva] at h
  split at h
  · cases h
  · cases hs : v.slice r (size * len) a with
    | ok s =>
      rw [hs] at h
      cases h
      obtain ⟨⟨h1, h2⟩, h3, h4⟩ := slice_sound v hs
      refine ⟨⟨?_, ?_⟩, rfl, rfl⟩
      · show s.off + size * len ≤ _
        omega
      · show (v.img.base + s.off) % a = 0
        rw [← h4]; exact h2
    | _ => rw [hs] at h; cases h

theorem dervaCStr_okOrErr (v : View) (r : Nat) : OkOrErr (v.dervaCStr (.rva r)) := by
  unfold View.dervaCStr
  rw [at_rva]
  rcases slice_okOrErr v r 0 1 (by decide) with ⟨x, h⟩ | ⟨e, h⟩ <;> rw [h]
  · dsimp only
    cases cstrFromBytes v.b x.off x.len
    · exact .inr ⟨_, rfl⟩
    · exact .inl ⟨_, rfl⟩
  · exact .inr ⟨_, rfl⟩

/-- a C string handed out: inside the buffer, at least its NUL, the NUL is its last byte and the only one -/
theorem dervaCStr_sound (v : View) {r : Nat} {ref : Ref} (h : v.dervaCStr (.rva r) = .ok ref) :
    RefOK v.img ref ∧ 1 ≤ ref.len ∧ ref.align = 1 ∧ byteAt v.b (ref.off + (ref.len - 1)) = 0 ∧
    ∀ j, j + 1 < ref.len → byteAt v.b (ref.off + j) ≠ 0 := by
  unfold View.dervaCStr at h
  rw [at_rva] at h
  cases hs : v.slice r 0 1 with
  | ok s =>
    rw [hs] at h
    dsimp only at h
    unfold cstrFromBytes at h
    cases hf : findNul v.b s.off s.len 0 with
    | none => rw [hf] at h; cases h
    | some n =>
      rw [hf] at h
      cases h
      obtain ⟨_, h2, h3, h4⟩ := findNul_some _ _ _ hf
      obtain ⟨⟨h5, _⟩, _, _⟩ := slice_sound v hs
      refine ⟨⟨?_, Nat.mod_one _⟩, by simp, rfl, ?_, ?_⟩
      · show s.off + (n + 1) ≤ _
        omega
      · show byteAt v.b (s.off + (n + 1 - 1)) = 0
        simpa using h3
      · intro j hj
        exact h4 j (Nat.zero_le _) (by simp at hj; omega)
  | _ => rw [hs] at h; cases h

theorem getElem?_map_range (f : Nat → Nat) (n i : Nat) :
    ((List.range n).map f)[i]? = if i < n then some (f i) else none := by
  by_cases h : i < n
  · simp [h]
  · simp [h]

theorem tablesOf_fns (y : By) (i : Nat) : (tablesOf y).fns[i]? = if i < y.fns.cnt then some (y.fnAt i) else none :=
  getElem?_map_range _ _ _
theorem tablesOf_names (y : By) (i : Nat) : (tablesOf y).names[i]? = if i < y.names.cnt then some (y.nameAt i) else none :=
  getElem?_map_range _ _ _
theorem tablesOf_idx (y : By) (i : Nat) : (tablesOf y).idx[i]? = if i < y.idx.cnt then some (y.idxAt i) else none :=
  getElem?_map_range _ _ _
theorem tablesOf_names_length (y : By) : (tablesOf y).names.length = y.names.cnt := by simp [tablesOf]

theorem isForwarded_iff (y : By) (rva : Nat) :
    y.exp.isForwarded rva = true ↔ ((tablesOf y).dirVA ≤ rva ∧ rva < (tablesOf y).dirVA + (tablesOf y).dirSize) := by
  unfold Exports.isForwarded
  show decide (rva ≥ y.exp.ddVA ∧ rva - y.exp.ddVA < y.exp.ddSize) = true ↔ (y.exp.ddVA ≤ rva ∧ rva < y.exp.ddVA + y.exp.ddSize)
  simp only [decide_eq_true_eq]
  omega

theorem index_abs (y : By) (i : Nat) :
    mapOut (Export.abs y.b) (y.index i) = Spec.index (tablesOf y) (cstrOf y.exp.v) i := by
  unfold By.index Spec.index
  rw [tablesOf_fns]
  by_cases hi : i < y.fns.cnt
  · simp only [hi, if_true]
    unfold Exports.symbolFromRva
    show mapOut (Export.abs y.b) (if y.fnAt i = 0 then _ else _) = _
    by_cases h0 : y.fnAt i = 0
    · simp only [h0, if_true]; rfl
    · simp only [h0, if_false]
      show mapOut _ (if y.exp.isForwarded (y.fnAt i) = true then _ else _) = _
      by_cases hf : y.exp.isForwarded (y.fnAt i) = true
      · rw [if_pos hf, if_pos ((isForwarded_iff y _).1 hf)]
        show mapOut (Export.abs y.b) ((y.exp.v.dervaCStr (.rva (y.fnAt i))).bind fun c => .ok (.forward c)) =
          mapOut Spec.Sym.forward (mapOut (cstrBytes y.exp.v.b) (y.exp.v.dervaCStr (.rva (y.fnAt i))))
        cases y.exp.v.dervaCStr (.rva (y.fnAt i)) <;> rfl
      · rw [if_neg hf, if_neg (fun h => hf ((isForwarded_iff y _).2 h))]
        rfl
  · simp only [hi, if_false]; rfl

theorem ordinal_abs (y : By) (o : Nat) :
    mapOut (Export.abs y.b) (y.ordinal o) = Spec.ordinal (tablesOf y) (cstrOf y.exp.v) o := by
  unfold By.ordinal Spec.ordinal
  show mapOut _ (if o < y.exp.base then _ else _) = if o < y.exp.base then _ else _
  split
  · rfl
  · exact index_abs y _

theorem hint_abs (y : By) (h : Nat) :
    mapOut (Export.abs y.b) (y.hint h) = Spec.hint (tablesOf y) (cstrOf y.exp.v) h := by
  unfold By.hint Spec.hint
  rw [tablesOf_idx]
  split
  · exact index_abs y _
  · rfl

theorem nameOfHint_abs (y : By) (h : Nat) :
    mapOut (cstrBytes y.b) (y.nameOfHint h) = Spec.nameOfHint (tablesOf y) (cstrOf y.exp.v) h := by
  unfold By.nameOfHint Spec.nameOfHint
  rw [tablesOf_names]
  split
  · rfl
  · rfl

theorem symbolFromRva_okOrErr (e : Exports) (o : Nat) : OkOrErr (e.symbolFromRva o) := by
  unfold Exports.symbolFromRva
  dsimp only
  split
  · exact okOrErr_err _
  · split
    · exact okOrErr_bind (dervaCStr_okOrErr _ _) (fun _ => okOrErr_ok _)
    · exact okOrErr_ok _

theorem index_okOrErr (y : By) (i : Nat) : OkOrErr (y.index i) := by
  unfold By.index
  split
  · exact symbolFromRva_okOrErr _ _
  · exact okOrErr_err _

theorem ordinal_okOrErr (y : By) (o : Nat) : OkOrErr (y.ordinal o) := by
  unfold By.ordinal
  split
  · exact okOrErr_err _
  · exact index_okOrErr _ _

theorem hint_okOrErr (y : By) (h : Nat) : OkOrErr (y.hint h) := by
  unfold By.hint
  split
  · exact index_okOrErr _ _
  · exact okOrErr_err _

theorem nameOfHint_okOrErr (y : By) (h : Nat) : OkOrErr (y.nameOfHint h) := by
  unfold By.nameOfHint
  split
  · exact dervaCStr_okOrErr _ _
  · exact okOrErr_err _

theorem nameLinearLoop_okOrErr (y : By) (q : List Nat) : ∀ n h, OkOrErr (y.nameLinearLoop q n h) := by
  intro n
  induction n with
  | zero => intro h; exact okOrErr_err _
  | succ n ih =>
    intro h
    unfold By.nameLinearLoop
    rcases nameOfHint_okOrErr y h with ⟨c, hc⟩ | ⟨e, hc⟩ <;> rw [hc] <;> dsimp only
    · split
      · exact hint_okOrErr _ _
      · exact ih _
    · exact ih _

theorem nameLinear_okOrErr (y : By) (q : List Nat) : OkOrErr (y.nameLinear q) := nameLinearLoop_okOrErr y q _ _

/-- the binary search never indexes outside the name table, never underflows, and terminates -/
theorem nameLoop_okOrErr (y : By) (q : List Nat) (lower upper : Nat) (h1 : lower ≤ upper) (h2 : upper ≤ y.names.cnt) :
    OkOrErr (y.nameLoop q lower upper) := by
  fun_induction By.nameLoop y q lower upper with
  | case1 lower => exact okOrErr_err _
  | case2 lower upper hne hlt => omega
  | case3 lower upper hne hlt i hi c hc s hqs ih => exact ih (by omega) (by omega)
  | case4 lower upper hne hlt i hi c hc s hqs hsq ih => exact ih (by omega) (by omega)
  | case5 lower upper hne hlt i hi c hc s hqs hsq hix => exact index_okOrErr _ _
  | case6 => exact okOrErr_err _
  | case7 lower upper hne hlt i hi e hc => exact okOrErr_err _
  | case8 lower upper hne hlt i hi s hc =>
    rcases dervaCStr_okOrErr y.exp.v (y.nameAt i) with ⟨c, h⟩ | ⟨e, h⟩ <;> rw [h] at hc <;> cases hc
  | case9 lower upper hne hlt i hi s hc =>
    rcases dervaCStr_okOrErr y.exp.v (y.nameAt i) with ⟨c, h⟩ | ⟨e, h⟩ <;> rw [h] at hc <;> cases hc
  | case10 lower upper hne hlt i hi hc =>
    rcases dervaCStr_okOrErr y.exp.v (y.nameAt i) with ⟨c, h⟩ | ⟨e, h⟩ <;> rw [h] at hc <;> cases hc
  | case11 lower upper hne hlt i hi => omega


theorem name_okOrErr (y : By) (q : List Nat) : OkOrErr (y.name q) :=
  nameLoop_okOrErr y q 0 _ (Nat.zero_le _) (Nat.le_refl _)

theorem hintName_okOrErr (y : By) (h : Nat) (q : List Nat) : OkOrErr (y.hintName h q) := by
  unfold By.hintName
  rcases hint_okOrErr y h with ⟨e, he⟩ | ⟨e, he⟩ <;> rw [he] <;> dsimp only
  · rcases nameOfHint_okOrErr y h with ⟨c, hc⟩ | ⟨e', hc⟩ <;> rw [hc] <;> dsimp only
    · split
      · exact okOrErr_ok _
      · exact name_okOrErr _ _
    · exact name_okOrErr _ _
  · exact name_okOrErr _ _

theorem import_okOrErr (y : By) (i : ImportQ) : OkOrErr (y.import i) := by
  cases i with
  | byName h q => exact hintName_okOrErr _ _ _
  | byOrdinal o => exact ordinal_okOrErr _ _

theorem nameLookup_okOrErr (y : By) (i : Nat) : OkOrErr (y.nameLookup i) := by
  unfold By.nameLookup
  split
  · split
    · exact okOrErr_bind (dervaCStr_okOrErr _ _) (fun _ => okOrErr_ok _)
    · exact okOrErr_err _
  · exact okOrErr_ok _

theorem checkSortedLoop_eq (y : By) (n h : Nat) (last : List Nat) :
    y.checkSortedLoop (n + 1) h last =
      (y.nameOfHint h).bind fun c =>
        if cstrBytes y.b c < last then .ok false else y.checkSortedLoop n (h + 1) (cstrBytes y.b c) := by
  rw [By.checkSortedLoop, discard_eq (nameOfHint_okOrErr y h), discard_eq (hint_okOrErr y h)]

theorem checkSortedLoop_okOrErr (y : By) : ∀ n h last, OkOrErr (y.checkSortedLoop n h last) := by
  intro n
  induction n with
  | zero => intro h last; exact okOrErr_ok _
  | succ n ih =>
    intro h last
    rw [checkSortedLoop_eq]
    refine okOrErr_bind (nameOfHint_okOrErr y h) (fun c => ?_)
    split
    · exact okOrErr_ok _
    · exact ih _ _

theorem checkSorted_okOrErr (y : By) : OkOrErr y.checkSorted := checkSortedLoop_okOrErr y _ _ _

theorem tryFrom_okOrErr (v : View) : OkOrErr (tryFrom v) := by
  unfold tryFrom
  split
  · exact okOrErr_err _
  · exact okOrErr_bind (derva_okOrErr _ _ _ _ (by decide)) (fun _ => okOrErr_ok _)

theorem mkTab_okOrErr {r : Out Ref} (hr : OkOrErr r) (cnt : Nat) : OkOrErr (mkTab r cnt) := by
  rcases hr with ⟨a, rfl⟩ | ⟨e, rfl⟩
  · exact okOrErr_ok _
  · cases e <;> first | exact okOrErr_ok _ | exact okOrErr_err _

theorem functions_okOrErr (e : Exports) : OkOrErr e.functions := dervaSlice_okOrErr _ _ _ _ _ (by decide)
theorem names_okOrErr (e : Exports) : OkOrErr e.names := dervaSlice_okOrErr _ _ _ _ _ (by decide)
theorem nameIndices_okOrErr (e : Exports) : OkOrErr e.nameIndices := dervaSlice_okOrErr _ _ _ _ _ (by decide)
theorem dllName_okOrErr (e : Exports) : OkOrErr e.dllName := dervaCStr_okOrErr _ _

theorem by_okOrErr (e : Exports) : OkOrErr e.by := by
  unfold Exports.by
  refine okOrErr_bind (mkTab_okOrErr (functions_okOrErr e) _) (fun _ => ?_)
  refine okOrErr_bind (mkTab_okOrErr (names_okOrErr e) _) (fun _ => ?_)
  exact okOrErr_bind (mkTab_okOrErr (nameIndices_okOrErr e) _) (fun _ => okOrErr_ok _)

theorem getExport_okOrErr (v : View) (q : Query) : OkOrErr (getExport v q) := by
  unfold getExport
  refine okOrErr_bind (tryFrom_okOrErr v) (fun e => okOrErr_bind (by_okOrErr e) (fun y => ?_))
  cases q with
  | name n => exact name_okOrErr _ _
  | ordinal o => exact ordinal_okOrErr _ _
  | «import» i => exact import_okOrErr _ _

theorem rvaToVa_okOrErr (v : View) (r : Nat) : OkOrErr (v.rvaToVa r) := by
  unfold View.rvaToVa
  split
  · exact okOrErr_err _
  · split
    · split
      · exact okOrErr_ok _
      · exact okOrErr_err _
    · exact okOrErr_err _

theorem getProcAddress_okOrErr (v : View) (q : Query) : OkOrErr (getProcAddress v q) := by
  unfold getProcAddress
  refine okOrErr_bind (getExport_okOrErr v q) (fun e => ?_)
  cases e with
  | symbol r => exact rvaToVa_okOrErr _ _
  | forward r => exact okOrErr_err _

theorem iter_okOrErr (y : By) : ∀ x ∈ y.iter, OkOrErr x := by
  intro x hx
  unfold By.iter at hx
  obtain ⟨i, _, rfl⟩ := List.mem_map.1 hx
  exact symbolFromRva_okOrErr _ _

theorem iterNames_okOrErr (y : By) : ∀ x ∈ y.iterNames, OkOrErr x.1 ∧ OkOrErr x.2 := by
  intro x hx
  unfold By.iterNames at hx
  obtain ⟨i, _, rfl⟩ := List.mem_map.1 hx
  exact ⟨nameOfHint_okOrErr _ _, hint_okOrErr _ _⟩

/-- `iter_name_indices` (format specific and wrapper): the checked indexing never fails -/
theorem iterNameIndices_ok (y : By) : ∀ x ∈ y.iterNameIndices,
    ∃ h, h < y.names.cnt ∧ h < y.idx.cnt ∧ x = .ok (y.nameOfHint h, y.idxAt h) := by
  intro x hx
  unfold By.iterNameIndices at hx
  obtain ⟨h, hh, rfl⟩ := List.mem_map.1 hx
  have := List.mem_range.1 hh
  refine ⟨h, by omega, by omega, ?_⟩
  rw [if_pos (by omega)]

/-! ### references handed out -/

theorem bind_eq_ok {α β} {x : Out α} {f : α → Out β} {b : β} (h : x.bind f = .ok b) :
    ∃ a, x = .ok a ∧ f a = .ok b := by
  cases x with
  | ok a => exact ⟨a, rfl, h⟩
  | _ => cases h

theorem mkTab_sound {img : Img} {r : Out Ref} {cnt size : Nat} {t : Tab}
    (hr : ∀ ref, r = .ok ref → RefOK img ref ∧ ref.len = size * cnt ∧ ref.align = size)
    (h : mkTab r cnt = .ok t) : Tab.OK img t size ∧ (t.cnt = cnt ∨ t.cnt = 0) := by
  unfold mkTab at h
  split at h
  next ref =>
    cases h
    obtain ⟨⟨h1, h2⟩, h3, h4⟩ := hr ref rfl
    refine ⟨.inr ⟨rfl, ?_, ?_⟩, .inl rfl⟩
    · show ref.off + size * cnt ≤ _
      omega
    · show (img.base + ref.off) % size = 0
      rw [← h4]; exact h2
  next => cases h; exact ⟨.inl ⟨rfl, rfl⟩, .inr rfl⟩
  all_goals cases h

theorem by_ok {e : Exports} {y : By} (h : e.by = .ok y) : y.exp = e ∧ y.WF := by
  unfold Exports.by at h
  cases hf : mkTab e.functions e.nFns with
  | ok f =>
    rw [hf] at h
    cases hn : mkTab e.names e.nNames with
    | ok n =>
      rw [hn] at h
      cases hi : mkTab e.nameIndices e.nNames with
      | ok i =>
        rw [hi] at h
        cases h
        refine ⟨rfl, ⟨?_, ?_, ?_⟩⟩
        · exact (mkTab_sound (fun ref hr => dervaSlice_sound e.v hr) hf).1
        · exact (mkTab_sound (fun ref hr => dervaSlice_sound e.v hr) hn).1
        · exact (mkTab_sound (fun ref hr => dervaSlice_sound e.v hr) hi).1
      | _ => rw [hi] at h; cases h
    | _ => rw [hn] at h; cases h
  | _ => rw [hf] at h; cases h

theorem tryFrom_ok {v : View} {e : Exports} (h : tryFrom v = .ok e) :
    e.v = v ∧ RefOK v.img e.image ∧ v.dataDir 0 = some (e.ddVA, e.ddSize) := by
  unfold tryFrom at h
  split at h
  · cases h
  next va size hd =>
    cases hs : v.derva (.rva va) 40 4 with
    | ok r =>
      rw [hs] at h
      cases h
      obtain ⟨⟨h1, h2⟩, h3, h4⟩ := derva_sound v hs
      refine ⟨rfl, ⟨?_, ?_⟩, hd⟩
      · show r.off + 40 ≤ _
        omega
      · show (v.img.base + r.off) % 4 = 0
        rw [← h4]; exact h2
    | _ => rw [hs] at h; cases h

theorem symbolFromRva_sound (e : Exports) {o : Nat} {x : Export} (h : e.symbolFromRva o = .ok x) :
    (x = .symbol ⟨o, 4, 4⟩ ∧ le32 e.b o ≠ 0 ∧ e.isForwarded (le32 e.b o) = false) ∨
    (∃ c, x = .forward c ∧ e.v.dervaCStr (.rva (le32 e.b o)) = .ok c ∧ e.isForwarded (le32 e.b o) = true) := by
  unfold Exports.symbolFromRva at h
  dsimp only at h
  split at h
  · cases h
  next h0 =>
    split at h
    next hf =>
      cases hc : e.v.dervaCStr (.rva (le32 e.b o)) with
      | ok c => rw [hc] at h; cases h; exact .inr ⟨c, rfl, rfl, hf⟩
      | _ => rw [hc] at h; cases h
    next hf =>
      cases h
      exact .inl ⟨rfl, h0, by simpa using hf⟩

theorem index_sound {y : By} (hw : y.WF) {i : Nat} {x : Export} (h : y.index i = .ok x) :
    RefOK y.exp.v.img x.ref ∧ i < y.fns.cnt := by
  unfold By.index at h
  split at h
  next hi =>
    refine ⟨?_, hi⟩
    rcases symbolFromRva_sound _ h with ⟨rfl, _, _⟩ | ⟨c, rfl, hc, _⟩
    · rcases hw.fns with ⟨_, h0⟩ | ⟨_, h1, h2⟩
      · omega
      · refine ⟨?_, ?_⟩
        · show y.fns.off + 4 * i + 4 ≤ _
          have : y.fns.off + 4 * y.fns.cnt ≤ y.exp.v.img.bytes.size := h1
          omega
        · show (y.exp.v.img.base + (y.fns.off + 4 * i)) % 4 = 0
          have : (y.exp.v.img.base + y.fns.off) % 4 = 0 := h2
          omega
    · exact (dervaCStr_sound _ hc).1
  · cases h

theorem ordinal_sound {y : By} (hw : y.WF) {o : Nat} {x : Export} (h : y.ordinal o = .ok x) :
    RefOK y.exp.v.img x.ref := by
  unfold By.ordinal at h
  split at h
  · cases h
  · exact (index_sound hw h).1

theorem hint_sound {y : By} (hw : y.WF) {hn : Nat} {x : Export} (h : y.hint hn = .ok x) :
    RefOK y.exp.v.img x.ref := by
  unfold By.hint at h
  split at h
  · exact (index_sound hw h).1
  · cases h

theorem nameOfHint_sound {y : By} {hn : Nat} {c : Ref} (h : y.nameOfHint hn = .ok c) :
    RefOK y.exp.v.img c ∧ hn < y.names.cnt := by
  unfold By.nameOfHint at h
  split at h
  next hi => exact ⟨(dervaCStr_sound _ h).1, hi⟩
  · cases h

theorem nameLinearLoop_sound {y : By} (hw : y.WF) (q : List Nat) :
    ∀ n h x, y.nameLinearLoop q n h = .ok x → RefOK y.exp.v.img x.ref := by
  intro n
  induction n with
  | zero => intro h x hx; cases hx
  | succ n ih =>
    intro h x hx
    unfold By.nameLinearLoop at hx
    split at hx
    · split at hx
      · exact hint_sound hw hx
      · exact ih _ _ hx
    · exact ih _ _ hx
    all_goals cases hx

theorem nameLoop_sound {y : By} (hw : y.WF) (q : List Nat) (lower upper : Nat) {x : Export}
    (h : y.nameLoop q lower upper = .ok x) : RefOK y.exp.v.img x.ref := by
  fun_induction By.nameLoop y q lower upper with
  | case1 lower => cases h
  | case2 lower upper hne hlt => cases h
  | case3 lower upper hne hlt i hi c hc s hqs ih => exact ih h
  | case4 lower upper hne hlt i hi c hc s hqs hsq ih => exact ih h
  | case5 lower upper hne hlt i hi c hc s hqs hsq hix => exact (index_sound hw h).1
  | case6 => cases h
  | case7 lower upper hne hlt i hi e hc => cases h
  | case8 lower upper hne hlt i hi s hc => cases h
  | case9 lower upper hne hlt i hi s hc => cases h
  | case10 lower upper hne hlt i hi hc => cases h
  | case11 lower upper hne hlt i hi => cases h

theorem hintName_sound {y : By} (hw : y.WF) {hn : Nat} {q : List Nat} {x : Export}
    (h : y.hintName hn q = .ok x) : RefOK y.exp.v.img x.ref := by
  unfold By.hintName at h
  split at h
  next e he =>
    split at h
    · split at h
      · cases h; exact hint_sound hw he
      · exact nameLoop_sound hw _ _ _ h
    · exact nameLoop_sound hw _ _ _ h
    all_goals cases h
  · exact nameLoop_sound hw _ _ _ h
  all_goals cases h

theorem import_sound {y : By} (hw : y.WF) {i : ImportQ} {x : Export}
    (h : y.import i = .ok x) : RefOK y.exp.v.img x.ref := by
  cases i with
  | byName hn q => exact hintName_sound hw h
  | byOrdinal o => exact ordinal_sound hw h

theorem nameLookup_sound {y : By} {i hn : Nat} {c : Ref} (h : y.nameLookup i = .ok (.byName hn c)) :
    RefOK y.exp.v.img c ∧ hn < y.names.cnt := by
  unfold By.nameLookup at h
  split at h
  next h' hp =>
    split at h
    next hlt =>
      cases hc : y.exp.v.dervaCStr (.rva (y.nameAt h')) with
      | ok c' =>
        rw [hc] at h
        cases h
        exact ⟨(dervaCStr_sound _ hc).1, hlt⟩
      | _ => rw [hc] at h; cases h
    · cases h
  · cases h

theorem getExport_ok {v : View} {q : Query} {x : Export} (h : getExport v q = .ok x) :
    ∃ e y, tryFrom v = .ok e ∧ e.by = .ok y ∧ y.exp.v = v ∧ y.WF ∧
      (match q with
       | .name n => y.name n
       | .ordinal o => y.ordinal o
       | .import i => y.import i) = .ok x := by
  unfold getExport at h
  obtain ⟨e, he, h⟩ := bind_eq_ok h
  obtain ⟨y, hy, h⟩ := bind_eq_ok h
  obtain ⟨hev, _, _⟩ := tryFrom_ok he
  obtain ⟨hye, hw⟩ := by_ok hy
  exact ⟨e, y, he, hy, by rw [hye, hev], hw, h⟩

theorem getExport_sound {v : View} {q : Query} {x : Export} (h : getExport v q = .ok x) :
    RefOK v.img x.ref := by
  obtain ⟨e, y, _, _, hv, hw, h⟩ := getExport_ok h
  rw [← hv]
  cases q with
  | name n => exact nameLoop_sound hw _ _ _ h
  | ordinal o => exact ordinal_sound hw h
  | «import» i => exact import_sound hw h

/-! ### linear search -/

/-- the name of hint `h` as bytes (the model's read, abstracted) -/
def By.nameStr (y : By) (h : Nat) : Out (List Nat) := mapOut (cstrBytes y.b) (y.nameOfHint h)

theorem nameStr_eq_spec (y : By) (h : Nat) :
    y.nameStr h = Spec.nameOfHint (tablesOf y) (cstrOf y.exp.v) h := nameOfHint_abs y h

theorem nameStr_ok_lt {y : By} {h : Nat} {s : List Nat} (hs : y.nameStr h = .ok s) : h < y.names.cnt := by
  unfold By.nameStr at hs
  obtain ⟨c, hc, _⟩ := mapOut_ok_iff.1 hs
  exact (nameOfHint_sound hc).2

theorem nameLinearLoop_step (y : By) (q : List Nat) (n h : Nat) :
    y.nameLinearLoop q (n + 1) h =
      if y.nameStr h = .ok q then y.hint h else y.nameLinearLoop q n (h + 1) := by
  rw [By.nameLinearLoop]
  unfold By.nameStr
  rcases nameOfHint_okOrErr y h with ⟨c, hc⟩ | ⟨e, hc⟩ <;> rw [hc] <;> dsimp only
  · by_cases he : cstrBytes y.b c = q
    · have : mapOut (cstrBytes y.b) (Out.ok c) = Out.ok q := by show Out.ok _ = _; rw [he]
      rw [if_pos he, if_pos this]
    · have : ¬ mapOut (cstrBytes y.b) (Out.ok c) = Out.ok q := fun h' => he (Out.ok.inj h')
      rw [if_neg he, if_neg this]
  · have : ¬ mapOut (cstrBytes y.b) (Out.err e : Out Ref) = Out.ok q := fun h' => by cases h'
    rw [if_neg this]

theorem nameLinearLoop_none (y : By) (q : List Nat) : ∀ n h0,
    (∀ h, h0 ≤ h → h < h0 + n → y.nameStr h ≠ .ok q) → y.nameLinearLoop q n h0 = .err .null := by
  intro n
  induction n with
  | zero => intro h0 _; rfl
  | succ n ih =>
    intro h0 hne
    rw [nameLinearLoop_step, if_neg (hne h0 (Nat.le_refl _) (by omega))]
    exact ih _ (fun h h1 h2 => hne h (by omega) (by omega))

theorem nameLinearLoop_first (y : By) (q : List Nat) : ∀ n h0 h, h0 ≤ h → h < h0 + n →
    y.nameStr h = .ok q → (∀ h', h0 ≤ h' → h' < h → y.nameStr h' ≠ .ok q) →
    y.nameLinearLoop q n h0 = y.hint h := by
  intro n
  induction n with
  | zero => intro h0 h h1 h2; omega
  | succ n ih =>
    intro h0 h h1 h2 hq hne
    rw [nameLinearLoop_step]
    by_cases he : h0 = h
    · subst he; rw [if_pos hq]
    · rw [if_neg (hne h0 (Nat.le_refl _) (by omega))]
      exact ih _ _ (by omega) (by omega) hq (fun h' a b => hne h' (by omega) b)

theorem nameLinearLoop_abs (y : By) (q : List Nat) : ∀ n h0,
    mapOut (Export.abs y.b) (y.nameLinearLoop q n h0) =
      match ((List.range' h0 n).filter fun h => Spec.nameOfHint (tablesOf y) (cstrOf y.exp.v) h = .ok q).head? with
      | none => .err .null
      | some h => Spec.hint (tablesOf y) (cstrOf y.exp.v) h := by
  intro n
  induction n with
  | zero => intro h0; rfl
  | succ n ih =>
    intro h0
    rw [nameLinearLoop_step, List.range'_succ, List.filter_cons, nameStr_eq_spec]
    by_cases hq : Spec.nameOfHint (tablesOf y) (cstrOf y.exp.v) h0 = .ok q
    · rw [if_pos hq, if_pos (by simpa using hq)]
      exact hint_abs y h0
    · rw [if_neg hq, if_neg (by simpa using hq)]
      exact ih _

theorem nameLinear_abs (y : By) (q : List Nat) :
    mapOut (Export.abs y.b) (y.nameLinear q) = Spec.nameLinear (tablesOf y) (cstrOf y.exp.v) q := by
  unfold By.nameLinear Spec.nameLinear Spec.hintsOf
  rw [nameLinearLoop_abs, tablesOf_names_length, List.range_eq_range']
  rfl

/-! ### reverse lookup -/

theorem position_eq (y : By) (index : Nat) : ∀ n h0,
    y.position index n h0 = (((List.range' h0 n).map y.idxAt).findIdx? (fun x => x = index)).map (· + h0) := by
  intro n
  induction n with
  | zero => intro h0; rfl
  | succ n ih =>
    intro h0
    rw [By.position, List.range'_succ, List.map_cons, List.findIdx?_cons]
    by_cases he : y.idxAt h0 = index
    · simp [he]
    · rw [if_neg he, ih]
      simp only [he, decide_false, Bool.false_eq_true, if_false, Option.map_map]
      congr 1
      funext x
      simp only [Function.comp]
      omega

theorem nameLookup_abs (y : By) (i : Nat) :
    mapOut (Import.abs y.b) (y.nameLookup i) = Spec.nameLookup (tablesOf y) (cstrOf y.exp.v) i := by
  unfold By.nameLookup Spec.nameLookup
  rw [position_eq]
  have e : (tablesOf y).idx = (List.range' 0 y.idx.cnt).map y.idxAt := by
    show (List.range y.idx.cnt).map y.idxAt = _
    rw [List.range_eq_range']
  rw [e]
  cases hf : ((List.range' 0 y.idx.cnt).map y.idxAt).findIdx? (fun x => x = i) with
  | none =>
    show _ = Out.ok (Spec.Imp.byOrdinal ((i + y.exp.base) % 65536))
    simp only [Option.map_none, mapOut, Import.abs]
    congr 2
    omega
  | some h =>
    simp only [Option.map_some, Nat.add_zero]
    rw [tablesOf_names]
    by_cases hl : h < y.names.cnt
    · simp only [hl, if_true]
      show mapOut _ ((y.exp.v.dervaCStr (.rva (y.nameAt h))).bind _) =
        mapOut (Spec.Imp.byName h) (mapOut (cstrBytes y.exp.v.b) (y.exp.v.dervaCStr (.rva (y.nameAt h))))
      cases y.exp.v.dervaCStr (.rva (y.nameAt h)) <;> rfl
    · simp only [hl, if_false]
      rfl

/-! ### sortedness -/

theorem sorted_iff (T : Spec.Tables) (cs : Nat → Out (List Nat)) :
    Spec.sorted T cs = true ↔
      ∀ h, h < T.names.length → ∃ s, Spec.nameOfHint T cs h = .ok s ∧
        (h = 0 ∨ ∃ p, Spec.nameOfHint T cs (h - 1) = .ok p ∧ ¬ s < p) := by
  unfold Spec.sorted
  simp only [List.all_eq_true, List.mem_range]
  constructor
  · intro H h hh
    have := H h hh
    cases hs : Spec.nameOfHint T cs h with
    | ok s =>
      rw [hs] at this
      simp only [Bool.or_eq_true, beq_iff_eq] at this
      refine ⟨s, rfl, ?_⟩
      rcases this with h0 | hp
      · exact .inl h0
      · cases hp' : Spec.nameOfHint T cs (h - 1) with
        | ok p => rw [hp'] at hp; exact .inr ⟨p, rfl, by simpa using hp⟩
        | _ => rw [hp'] at hp; cases hp
    | _ => rw [hs] at this; cases this
  · intro H h hh
    obtain ⟨s, hs, hp⟩ := H h hh
    rw [hs]
    simp only [Bool.or_eq_true, beq_iff_eq]
    rcases hp with h0 | ⟨p, hp, hlt⟩
    · exact .inl h0
    · right; rw [hp]; simpa using hlt

theorem nameDetermined_iff (T : Spec.Tables) (cs : Nat → Out (List Nat)) :
    Spec.nameDetermined T cs = true ↔
      ∀ h, h < T.names.length → ∃ s, Spec.nameOfHint T cs h = .ok s ∧
        (h = 0 ∨ ∃ p, Spec.nameOfHint T cs (h - 1) = .ok p ∧ p < s) := by
  unfold Spec.nameDetermined
  simp only [List.all_eq_true, List.mem_range]
  constructor
  · intro H h hh
    have := H h hh
    cases hs : Spec.nameOfHint T cs h with
    | ok s =>
      rw [hs] at this
      simp only [Bool.or_eq_true, beq_iff_eq] at this
      refine ⟨s, rfl, ?_⟩
      rcases this with h0 | hp
      · exact .inl h0
      · cases hp' : Spec.nameOfHint T cs (h - 1) with
        | ok p => rw [hp'] at hp; exact .inr ⟨p, rfl, by simpa using hp⟩
        | _ => rw [hp'] at hp; cases hp
    | _ => rw [hs] at this; cases this
  · intro H h hh
    obtain ⟨s, hs, hp⟩ := H h hh
    rw [hs]
    simp only [Bool.or_eq_true, beq_iff_eq]
    rcases hp with h0 | ⟨p, hp, hlt⟩
    · exact .inl h0
    · right; rw [hp]; simpa using hlt

/-- the name of hint `h`, `[]` when unreadable -/
def By.nm (y : By) (h : Nat) : List Nat :=
  match y.nameStr h with
  | .ok s => s
  | _ => []

theorem mono_of_consecutive (nm : Nat → List Nat) (n : Nat)
    (hc : ∀ h, 0 < h → h < n → ¬ nm h < nm (h - 1)) : ∀ j i, i ≤ j → j < n → nm i ≤ nm j := by
  intro j
  induction j with
  | zero => intro i hi _; have : i = 0 := by omega
            subst this; exact List.le_refl _
  | succ j ih =>
    intro i hi hj
    by_cases he : i = j + 1
    · subst he; exact List.le_refl _
    · have h1 := ih i (by omega) (by omega)
      have h2 : nm j ≤ nm (j + 1) := List.not_lt.1 (hc (j + 1) (by omega) hj)
      exact List.le_trans h1 h2

theorem strict_of_consecutive (nm : Nat → List Nat) (n : Nat)
    (hc : ∀ h, 0 < h → h < n → nm (h - 1) < nm h) : ∀ j i, i < j → j < n → nm i < nm j := by
  intro j
  induction j with
  | zero => intro i hi _; omega
  | succ j ih =>
    intro i hi hj
    have h2 : nm j < nm (j + 1) := hc (j + 1) (by omega) hj
    by_cases he : i = j
    · subst he; exact h2
    · exact List.lt_trans (ih i (by omega) (by omega)) h2

theorem sorted_nm {y : By} (hs : Spec.sorted (tablesOf y) (cstrOf y.exp.v) = true) :
    (∀ h, h < y.names.cnt → y.nameStr h = .ok (y.nm h)) ∧
    (∀ i j, i ≤ j → j < y.names.cnt → y.nm i ≤ y.nm j) := by
  rw [sorted_iff, tablesOf_names_length] at hs
  have hr : ∀ h, h < y.names.cnt → y.nameStr h = .ok (y.nm h) := by
    intro h hh
    obtain ⟨s, hs1, _⟩ := hs h hh
    rw [← nameStr_eq_spec] at hs1
    unfold By.nm
    rw [hs1]
  refine ⟨hr, fun i j hij hj => mono_of_consecutive y.nm y.names.cnt ?_ j i hij hj⟩
  intro h h0 hh
  obtain ⟨s, hs1, hs2⟩ := hs h hh
  rcases hs2 with h0' | ⟨p, hp, hlt⟩
  · omega
  · rw [← nameStr_eq_spec] at hs1 hp
    rw [hr h hh] at hs1
    rw [hr (h - 1) (by omega)] at hp
    cases hs1; cases hp
    exact hlt

theorem determined_nm {y : By} (hs : Spec.nameDetermined (tablesOf y) (cstrOf y.exp.v) = true) :
    (∀ h, h < y.names.cnt → y.nameStr h = .ok (y.nm h)) ∧
    (∀ i j, i < j → j < y.names.cnt → y.nm i < y.nm j) := by
  rw [nameDetermined_iff, tablesOf_names_length] at hs
  have hr : ∀ h, h < y.names.cnt → y.nameStr h = .ok (y.nm h) := by
    intro h hh
    obtain ⟨s, hs1, _⟩ := hs h hh
    rw [← nameStr_eq_spec] at hs1
    unfold By.nm
    rw [hs1]
  refine ⟨hr, fun i j hij hj => strict_of_consecutive y.nm y.names.cnt ?_ j i hij hj⟩
  intro h h0 hh
  obtain ⟨s, hs1, hs2⟩ := hs h hh
  rcases hs2 with h0' | ⟨p, hp, hlt⟩
  · omega
  · rw [← nameStr_eq_spec] at hs1 hp
    rw [hr h hh] at hs1
    rw [hr (h - 1) (by omega)] at hp
    cases hs1; cases hp
    exact hlt

theorem determined_sorted {T : Spec.Tables} {cs : Nat → Out (List Nat)}
    (h : Spec.nameDetermined T cs = true) : Spec.sorted T cs = true := by
  rw [nameDetermined_iff] at h
  rw [sorted_iff]
  intro i hi
  obtain ⟨s, hs, hp⟩ := h i hi
  refine ⟨s, hs, ?_⟩
  rcases hp with h0 | ⟨p, hp, hlt⟩
  · exact .inl h0
  · exact .inr ⟨p, hp, List.lt_asymm hlt⟩


/-! ### binary search -/

theorem lt_of_lt_of_le' {a b c : List Nat} (hab : a < b) (hbc : b ≤ c) : a < c :=
  List.not_le.1 (fun hca : c ≤ a => (List.not_lt.2 hbc) (List.lt_of_le_of_lt hca hab))

theorem nameStr_of_derva {y : By} {i : Nat} {c : Ref} (hi : i < y.names.cnt)
    (hc : y.exp.v.dervaCStr (.rva (y.nameAt i)) = .ok c) : y.nameStr i = .ok (cstrBytes y.b c) := by
  unfold By.nameStr By.nameOfHint
  rw [if_pos hi, hc]
  rfl

theorem nameStr_of_derva_ne {y : By} {i : Nat} {s : List Nat} (hi : i < y.names.cnt)
    (hr : y.nameStr i = .ok s) : ∃ c, y.exp.v.dervaCStr (.rva (y.nameAt i)) = .ok c ∧ cstrBytes y.b c = s := by
  unfold By.nameStr By.nameOfHint at hr
  rw [if_pos hi] at hr
  exact mapOut_ok_iff.1 hr

/-- the loop invariant of `By::name_`: every name below `lower` is smaller than the query, every
name from `upper` on is greater; the loop ends with Null only if no name equals the query, and
otherwise answers `hint h` for an `h` whose name is the query -/
theorem nameLoop_spec (y : By) (q : List Nat) (nm : Nat → List Nat)
    (hr : ∀ h, h < y.names.cnt → y.nameStr h = .ok (nm h))
    (hm : ∀ i j, i ≤ j → j < y.names.cnt → nm i ≤ nm j)
    (lower upper : Nat) (h1 : lower ≤ upper) (h2 : upper ≤ y.names.cnt)
    (hlo : ∀ h, h < lower → nm h < q) (hup : ∀ h, upper ≤ h → h < y.names.cnt → q < nm h) :
    ((∀ h, h < y.names.cnt → nm h ≠ q) ∧ y.nameLoop q lower upper = .err .null) ∨
    (∃ h, h < y.names.cnt ∧ nm h = q ∧ y.nameLoop q lower upper = y.hint h) := by
  fun_induction By.nameLoop y q lower upper with
  | case1 lower =>
    left
    refine ⟨?_, rfl⟩
    intro h hh he
    by_cases hl : h < lower
    · have := hlo h hl; rw [he] at this; exact List.lt_irrefl _ this
    · have := hup h (by omega) hh; rw [he] at this; exact List.lt_irrefl _ this
  | case2 lower upper hne hlt => omega
  | case3 lower upper hne hlt i hi c hc s hqs ih =>
    have hs : nm i = s := by
      have := hr i hi; rw [nameStr_of_derva hi hc] at this; exact (Out.ok.inj this).symm
    refine ih (by omega) (by omega) hlo ?_
    intro h hih hh
    exact lt_of_lt_of_le' (by rw [hs]; exact hqs) (hm i h hih hh)
  | case4 lower upper hne hlt i hi c hc s hqs hsq ih =>
    have hs : nm i = s := by
      have := hr i hi; rw [nameStr_of_derva hi hc] at this; exact (Out.ok.inj this).symm
    refine ih (by omega) (by omega) ?_ hup
    intro h hh
    exact List.lt_of_le_of_lt (hm h i (by omega) hi) (by rw [hs]; exact hsq)
  | case5 lower upper hne hlt i hi c hc s hqs hsq hix =>
    have hs : nm i = s := by
      have := hr i hi; rw [nameStr_of_derva hi hc] at this; exact (Out.ok.inj this).symm
    right
    refine ⟨i, hi, ?_, ?_⟩
    · rw [hs]; exact List.le_antisymm (List.not_lt.1 hqs) (List.not_lt.1 hsq)
    · unfold By.hint; rw [if_pos hix]
  | case6 lower upper hne hlt i hi c hc s hqs hsq hix =>
    have hs : nm i = s := by
      have := hr i hi; rw [nameStr_of_derva hi hc] at this; exact (Out.ok.inj this).symm
    right
    refine ⟨i, hi, ?_, ?_⟩
    · rw [hs]; exact List.le_antisymm (List.not_lt.1 hqs) (List.not_lt.1 hsq)
    · unfold By.hint; rw [if_neg hix]
  | case7 lower upper hne hlt i hi e hc =>
    obtain ⟨c, hc', _⟩ := nameStr_of_derva_ne hi (hr i hi); rw [hc] at hc'; cases hc'
  | case8 lower upper hne hlt i hi s hc =>
    obtain ⟨c, hc', _⟩ := nameStr_of_derva_ne hi (hr i hi); rw [hc] at hc'; cases hc'
  | case9 lower upper hne hlt i hi s hc =>
    obtain ⟨c, hc', _⟩ := nameStr_of_derva_ne hi (hr i hi); rw [hc] at hc'; cases hc'
  | case10 lower upper hne hlt i hi hc =>
    obtain ⟨c, hc', _⟩ := nameStr_of_derva_ne hi (hr i hi); rw [hc] at hc'; cases hc'
  | case11 lower upper hne hlt i hi => omega

theorem name_sorted (y : By) (q : List Nat) (hs : Spec.sorted (tablesOf y) (cstrOf y.exp.v) = true) :
    ((∀ h, y.nameStr h ≠ .ok q) ∧ y.name q = .err .null) ∨
    (∃ h, h < y.names.cnt ∧ y.nameStr h = .ok q ∧ y.name q = y.hint h) := by
  obtain ⟨hr, hm⟩ := sorted_nm hs
  rcases nameLoop_spec y q y.nm hr hm 0 y.names.cnt (Nat.zero_le _) (Nat.le_refl _)
      (fun h hh => by omega) (fun h h1 h2 => by omega) with ⟨hne, hnull⟩ | ⟨h, hh, he, hres⟩
  · left
    refine ⟨?_, hnull⟩
    intro h hq
    have hh := nameStr_ok_lt hq
    rw [hr h hh] at hq
    exact hne h hh (Out.ok.inj hq)
  · right
    exact ⟨h, hh, by rw [hr h hh, he], hres⟩

/-- sorted without duplicates: binary and linear search are the same function -/
theorem name_eq_nameLinear (y : By) (q : List Nat)
    (hd : Spec.nameDetermined (tablesOf y) (cstrOf y.exp.v) = true) : y.name q = y.nameLinear q := by
  obtain ⟨hr, hst⟩ := determined_nm hd
  rcases name_sorted y q (determined_sorted hd) with ⟨hne, hnull⟩ | ⟨h, hh, he, hres⟩
  · rw [hnull]
    unfold By.nameLinear
    rw [nameLinearLoop_none]
    intro h _ _
    exact hne h
  · rw [hres]
    unfold By.nameLinear
    rw [nameLinearLoop_first y q _ 0 h (Nat.zero_le _) (by omega) he]
    intro h' _ hlt hq
    have h1 := hr h hh
    have h2 := hr h' (by omega)
    rw [he] at h1; rw [hq] at h2
    have := hst h' h hlt hh
    rw [← Out.ok.inj h1, ← Out.ok.inj h2] at this
    exact List.lt_irrefl _ this

theorem name_abs (y : By) (q : List Nat)
    (hd : Spec.nameDetermined (tablesOf y) (cstrOf y.exp.v) = true) :
    mapOut (Export.abs y.b) (y.name q) = Spec.name (tablesOf y) (cstrOf y.exp.v) q := by
  rw [name_eq_nameLinear y q hd]
  exact nameLinear_abs y q

/-! ### `check_sorted` -/

theorem nm_of_ok {y : By} {h : Nat} {s : List Nat} (hs : y.nameStr h = .ok s) : y.nm h = s := by
  unfold By.nm; rw [hs]

theorem checkSortedLoop_step (y : By) (n h : Nat) (last : List Nat) :
    y.checkSortedLoop (n + 1) h last =
      (y.nameStr h).bind fun s => if s < last then .ok false else y.checkSortedLoop n (h + 1) s := by
  rw [checkSortedLoop_eq]
  unfold By.nameStr
  cases y.nameOfHint h <;> rfl

theorem checkSortedLoop_true (y : By) : ∀ n h last, h + n = y.names.cnt →
    (y.checkSortedLoop n h last = .ok true ↔
      ∀ h', h ≤ h' → h' < y.names.cnt →
        ∃ s, y.nameStr h' = .ok s ∧ ¬ s < (if h' = h then last else y.nm (h' - 1))) := by
  intro n
  induction n with
  | zero =>
    intro h last hn
    constructor
    · intro _ h' h1 h2; omega
    · intro _; rfl
  | succ n ih =>
    intro h last hn
    rw [checkSortedLoop_step]
    cases hs : y.nameStr h with
    | ok s =>
      show (if s < last then Out.ok false else y.checkSortedLoop n (h + 1) s) = Out.ok true ↔ _
      by_cases hlt : s < last
      · rw [if_pos hlt]
        constructor
        · intro hc; cases hc
        · intro H
          obtain ⟨s', hs', hn'⟩ := H h (Nat.le_refl _) (by omega)
          rw [hs] at hs'; cases hs'
          rw [if_pos rfl] at hn'
          exact absurd hlt hn'
      · rw [if_neg hlt, ih (h + 1) s (by omega)]
        constructor
        · intro H h' h1 h2
          by_cases he : h' = h
          · subst he; exact ⟨s, hs, by rw [if_pos rfl]; exact hlt⟩
          · obtain ⟨s', hs', hn'⟩ := H h' (by omega) h2
            refine ⟨s', hs', ?_⟩
            rw [if_neg he]
            by_cases he' : h' = h + 1
            · rw [if_pos he'] at hn'
              subst he'
              rw [Nat.add_sub_cancel, nm_of_ok hs]; exact hn'
            · rw [if_neg he'] at hn'; exact hn'
        · intro H h' h1 h2
          obtain ⟨s', hs', hn'⟩ := H h' (by omega) h2
          refine ⟨s', hs', ?_⟩
          rw [if_neg (by omega)] at hn'
          by_cases he' : h' = h + 1
          · rw [if_pos he']
            subst he'
            rw [Nat.add_sub_cancel, nm_of_ok hs] at hn'; exact hn'
          · rw [if_neg he']; exact hn'
    | _ =>
      constructor
      · intro hc; cases hc
      · intro H
        obtain ⟨s', hs', _⟩ := H h (Nat.le_refl _) (by omega)
        rw [hs] at hs'; cases hs'

/-- `check_sorted` answers `Ok(true)` exactly when every name is readable and the names are
non-decreasing in bytewise lexicographic order -/
theorem checkSorted_true_iff (y : By) :
    y.checkSorted = .ok true ↔ Spec.sorted (tablesOf y) (cstrOf y.exp.v) = true := by
  unfold By.checkSorted
  rw [checkSortedLoop_true y _ 0 [] (by omega), sorted_iff, tablesOf_names_length]
  constructor
  · intro H h hh
    obtain ⟨s, hs, hn⟩ := H h (Nat.zero_le _) hh
    refine ⟨s, by rw [← nameStr_eq_spec]; exact hs, ?_⟩
    by_cases h0 : h = 0
    · exact .inl h0
    · right
      obtain ⟨p, hp, _⟩ := H (h - 1) (Nat.zero_le _) (by omega)
      refine ⟨p, by rw [← nameStr_eq_spec]; exact hp, ?_⟩
      rw [if_neg h0, nm_of_ok hp] at hn
      exact hn
  · intro H h _ hh
    obtain ⟨s, hs, hp⟩ := H h hh
    rw [← nameStr_eq_spec] at hs
    refine ⟨s, hs, ?_⟩
    rcases hp with h0 | ⟨p, hp, hlt⟩
    · rw [if_pos h0]; exact List.not_lt_nil _
    · rw [← nameStr_eq_spec] at hp
      by_cases h0 : h = 0
      · rw [if_pos h0]; exact List.not_lt_nil _
      · rw [if_neg h0, nm_of_ok hp]; exact hlt

/-! ### hint with name fallback, import descriptors -/

theorem hintName_eq (y : By) (h : Nat) (q : List Nat) :
    y.hintName h q =
      if (y.hint h).isOk = true ∧ y.nameStr h = .ok q then y.hint h else y.name q := by
  unfold By.hintName By.nameStr
  rcases hint_okOrErr y h with ⟨e, he⟩ | ⟨e, he⟩ <;> rw [he] <;> dsimp only
  · rcases nameOfHint_okOrErr y h with ⟨c, hc⟩ | ⟨e', hc⟩ <;> rw [hc] <;> dsimp only
    · by_cases hq : cstrBytes y.b c = q
      · have : (Out.ok e : Out Export).isOk = true ∧ mapOut (cstrBytes y.b) (Out.ok c) = Out.ok q :=
          ⟨rfl, by show Out.ok _ = _; rw [hq]⟩
        rw [if_pos hq, if_pos this]
      · have : ¬ ((Out.ok e : Out Export).isOk = true ∧ mapOut (cstrBytes y.b) (Out.ok c) = Out.ok q) :=
          fun h' => hq (Out.ok.inj h'.2)
        rw [if_neg hq, if_neg this]
    · have : ¬ ((Out.ok e : Out Export).isOk = true ∧ mapOut (cstrBytes y.b) (Out.err e' : Out Ref) = Out.ok q) :=
        fun h' => by cases h'.2
      rw [if_neg this]
  · have : ¬ ((Out.err e : Out Export).isOk = true ∧ mapOut (cstrBytes y.b) (y.nameOfHint h) = Out.ok q) :=
      fun h' => by cases h'.1
    rw [if_neg this]

theorem hintName_abs (y : By) (h : Nat) (q : List Nat)
    (hd : Spec.nameDetermined (tablesOf y) (cstrOf y.exp.v) = true) :
    mapOut (Export.abs y.b) (y.hintName h q) = Spec.hintName (tablesOf y) (cstrOf y.exp.v) h q := by
  unfold Spec.hintName
  rw [← hint_abs, ← nameStr_eq_spec, ← name_abs y q hd]
  unfold By.hintName By.nameStr
  rcases hint_okOrErr y h with ⟨e, he⟩ | ⟨e, he⟩ <;> rw [he]
  · rcases nameOfHint_okOrErr y h with ⟨c, hc⟩ | ⟨e', hc⟩ <;> rw [hc]
    · show mapOut _ (if cstrBytes y.b c = q then Out.ok e else y.name q) =
        if cstrBytes y.b c = q then Out.ok (Export.abs y.b e) else mapOut _ (y.name q)
      split <;> rfl
    · rfl
  · rfl

theorem import_abs (y : By) (i : ImportQ)
    (hd : Spec.nameDetermined (tablesOf y) (cstrOf y.exp.v) = true) :
    mapOut (Export.abs y.b) (y.import i) =
      match i with
      | .byName h q => Spec.hintName (tablesOf y) (cstrOf y.exp.v) h q
      | .byOrdinal o => Spec.ordinal (tablesOf y) (cstrOf y.exp.v) o := by
  cases i with
  | byName h q => exact hintName_abs y h q hd
  | byOrdinal o => exact ordinal_abs y o

/-! ### get_proc_address -/

theorem getProcAddress_abs (v : View) (q : Query) :
    getProcAddress v q =
      Spec.procAddress v.imageBase (sizeOfImage v.b) v.fmt.vaLimit (mapOut (Export.abs v.b) (getExport v q)) := by
  unfold getProcAddress
  cases getExport v q with
  | ok e =>
    cases e with
    | symbol r => rfl
    | forward r => rfl
  | _ => rfl

/-! ### null sub-tables -/

theorem slice_null (v : View) (min a : Nat) : v.slice 0 min a = .err .null := by
  unfold View.slice
  cases v.kind <;> simp [sliceFile, sliceSection]

theorem dervaSlice_null (v : View) (size a len : Nat) (h : size * len < 18446744073709551616) :
    v.dervaSlice (.rva 0) size a len = .err .null := by
  rw [dervaSlice_unfold]
  rw [if_neg (by omega), at_rva, slice_null]

theorem mkTab_null (cnt : Nat) : mkTab (.err .null) cnt = .ok ⟨0, 0, true⟩ := rfl

theorem by_tables {e : Exports} {y : By} (h : e.by = .ok y) :
    mkTab e.functions e.nFns = .ok y.fns ∧ mkTab e.names e.nNames = .ok y.names ∧
    mkTab e.nameIndices e.nNames = .ok y.idx := by
  unfold Exports.by at h
  obtain ⟨f, hf, h⟩ := bind_eq_ok h
  obtain ⟨n, hn, h⟩ := bind_eq_ok h
  obtain ⟨i, hi, h⟩ := bind_eq_ok h
  cases h
  exact ⟨hf, hn, hi⟩

/-- on ANY table (sorted or not) the binary search answers an entry only through a hint whose name
equals the query -/
theorem nameLoop_ok (y : By) (q : List Nat) (lower upper : Nat) (x : Export)
    (h : y.nameLoop q lower upper = .ok x) :
    ∃ hn, hn < y.names.cnt ∧ y.nameStr hn = .ok q ∧ y.hint hn = .ok x := by
  fun_induction By.nameLoop y q lower upper with
  | case1 lower => cases h
  | case2 lower upper hne hlt => cases h
  | case3 lower upper hne hlt i hi c hc s hqs ih => exact ih h
  | case4 lower upper hne hlt i hi c hc s hqs hsq ih => exact ih h
  | case5 lower upper hne hlt i hi c hc s hqs hsq hix =>
    refine ⟨i, hi, ?_, ?_⟩
    · rw [nameStr_of_derva hi hc]
      exact congrArg Out.ok (List.le_antisymm (List.not_lt.1 hqs) (List.not_lt.1 hsq))
    · unfold By.hint; rw [if_pos hix]; exact h
  | case6 => cases h
  | case7 lower upper hne hlt i hi e hc => cases h
  | case8 lower upper hne hlt i hi s hc => cases h
  | case9 lower upper hne hlt i hi s hc => cases h
  | case10 lower upper hne hlt i hi hc => cases h
  | case11 lower upper hne hlt i hi => cases h

/-! ### the four cases of an address-table entry, the errors of an ordinal -/

theorem index_cases (y : By) (i : Nat) :
    (y.fns.cnt ≤ i → y.index i = .err .bounds) ∧
    (i < y.fns.cnt → y.fnAt i = 0 → y.index i = .err .null) ∧
    (i < y.fns.cnt → y.fnAt i ≠ 0 → (y.exp.ddVA ≤ y.fnAt i ∧ y.fnAt i < y.exp.ddVA + y.exp.ddSize) →
      y.index i = (y.exp.v.dervaCStr (.rva (y.fnAt i))).bind fun c => .ok (.forward c)) ∧
    (i < y.fns.cnt → y.fnAt i ≠ 0 → ¬ (y.exp.ddVA ≤ y.fnAt i ∧ y.fnAt i < y.exp.ddVA + y.exp.ddSize) →
      y.index i = .ok (.symbol ⟨y.fns.off + 4 * i, 4, 4⟩)) := by
  have hs : ∀ hi : i < y.fns.cnt, y.index i =
      (if y.fnAt i = 0 then .err .null
       else if y.exp.isForwarded (y.fnAt i) = true then
         (y.exp.v.dervaCStr (.rva (y.fnAt i))).bind fun c => .ok (.forward c)
       else .ok (.symbol ⟨y.fns.off + 4 * i, 4, 4⟩)) := by
    intro hi
    unfold By.index
    rw [if_pos hi]
    rfl
  refine ⟨?_, ?_, ?_, ?_⟩
  · intro hi
    unfold By.index
    rw [if_neg (by omega)]
  · intro hi h0
    rw [hs hi, if_pos h0]
  · intro hi h0 hin
    rw [hs hi, if_neg h0, if_pos ((isForwarded_iff y _).2 hin)]
  · intro hi h0 hin
    rw [hs hi, if_neg h0, if_neg (fun h => hin ((isForwarded_iff y _).1 h))]

theorem index_err (y : By) (i : Nat) (er : Err) (h : y.index i = .err er) :
    er = .bounds ∨ er = .null ∨ (i < y.fns.cnt ∧ y.exp.v.dervaCStr (.rva (y.fnAt i)) = .err er) := by
  obtain ⟨h1, h2, h3, h4⟩ := index_cases y i
  by_cases hi : i < y.fns.cnt
  · by_cases h0 : y.fnAt i = 0
    · rw [h2 hi h0] at h; cases h; exact .inr (.inl rfl)
    · by_cases hin : y.exp.ddVA ≤ y.fnAt i ∧ y.fnAt i < y.exp.ddVA + y.exp.ddSize
      · rw [h3 hi h0 hin] at h
        cases hc : y.exp.v.dervaCStr (.rva (y.fnAt i)) with
        | err e' => rw [hc] at h; cases h; exact .inr (.inr ⟨hi, rfl⟩)
        | _ => rw [hc] at h; cases h
      · rw [h4 hi h0 hin] at h; cases h
  · rw [h1 (by omega)] at h; cases h; exact .inl rfl

theorem ordinal_errors (y : By) (o : Nat) :
    (o < y.exp.base → y.ordinal o = .err .bounds) ∧
    (y.exp.base ≤ o → y.fns.cnt ≤ o - y.exp.base → y.ordinal o = .err .bounds) ∧
    (y.exp.base ≤ o → o - y.exp.base < y.fns.cnt → y.fnAt (o - y.exp.base) = 0 → y.ordinal o = .err .null) ∧
    (∀ er, y.ordinal o = .err er → er = .bounds ∨ er = .null ∨
      (o - y.exp.base < y.fns.cnt ∧ y.exp.v.dervaCStr (.rva (y.fnAt (o - y.exp.base))) = .err er)) := by
  obtain ⟨h1, h2, _, _⟩ := index_cases y (o - y.exp.base)
  refine ⟨?_, ?_, ?_, ?_⟩
  · intro hb
    unfold By.ordinal
    rw [if_pos hb]
  · intro hb hi
    unfold By.ordinal
    rw [if_neg (by omega)]
    exact h1 hi
  · intro hb hi h0
    unfold By.ordinal
    rw [if_neg (by omega)]
    exact h2 hi h0
  · intro er h
    unfold By.ordinal at h
    split at h
    · cases h; exact .inl rfl
    · exact index_err y _ er h

end Pelite.Exports
