import PeliteModel.Spec.Imports
import PeliteModel.Thm.C05
/-! Helper lemmas for C09 (property theorems live in `Thm/C09.lean`). -/
namespace Pelite.Imports
open Pelite Pelite.Pe

/-! ### `firstIdx`: least index satisfying a predicate -/

theorem firstIdx_succ (n : Nat) (p : Nat → Bool) :
    firstIdx (n + 1) p = match firstIdx n p with
      | some k => some k
      | none => if p n = true then some n else none := by
  unfold firstIdx
  rw [List.range_succ, List.find?_append]
  cases h : List.find? p (List.range n) with
  | some k => simp
  | none => by_cases hp : p n = true <;> simp [hp]

theorem firstIdx_some {n : Nat} {p : Nat → Bool} {k : Nat} :
    firstIdx n p = some k ↔ k < n ∧ p k = true ∧ ∀ j, j < k → p j = false := by
  induction n generalizing k with
  | zero => simp [firstIdx]
  | succ n ih =>
    rw [firstIdx_succ]
    cases h : firstIdx n p with
    | some k' =>
      simp only [Option.some.injEq]
      constructor
      · rintro rfl
        obtain ⟨h1, h2, h3⟩ := (h ▸ ih (k := k')).1 rfl
        exact ⟨by omega, h2, h3⟩
      · rintro ⟨h1, h2, h3⟩
        obtain ⟨g1, g2, g3⟩ := (h ▸ ih (k := k')).1 rfl
        by_cases hlt : k' < k
        · rw [h3 k' hlt] at g2; cases g2
        · by_cases hgt : k < k'
          · rw [g3 k hgt] at h2; cases h2
          · omega
    | none =>
      have hn : ∀ j, j < n → p j = false := by
        intro j hj
        cases hpj : p j with
        | false => rfl
        | true =>
          -- least such index exists below n: contradiction with `none`
          exfalso
          have : ∃ m, m ≤ j ∧ p m = true ∧ ∀ i, i < m → p i = false := by
            induction j using Nat.strongRecOn with
            | _ j ihj =>
              by_cases hex : ∃ i, i < j ∧ p i = true
              · obtain ⟨i, hi, hpi⟩ := hex
                obtain ⟨m, hm1, hm2, hm3⟩ := ihj i hi (by omega) hpi
                exact ⟨m, by omega, hm2, hm3⟩
              · refine ⟨j, Nat.le_refl _, hpj, ?_⟩
                intro i hi
                cases hpi : p i with
                | false => rfl
                | true => exact absurd ⟨i, hi, hpi⟩ hex
          obtain ⟨m, hm1, hm2, hm3⟩ := this
          have := (ih (k := m)).2 ⟨by omega, hm2, hm3⟩
          rw [h] at this; cases this
      by_cases hp : p n = true
      · rw [if_pos hp]
        simp only [Option.some.injEq]
        constructor
        · rintro rfl; exact ⟨by omega, hp, hn⟩
        · rintro ⟨h1, h2, h3⟩
          by_cases hkn : k = n
          · exact hkn.symm
          · rw [hn k (by omega)] at h2; cases h2
      · rw [if_neg hp]
        constructor
        · intro hh; cases hh
        · rintro ⟨h1, h2, h3⟩
          by_cases hkn : k = n
          · subst hkn; exact absurd h2 hp
          · rw [hn k (by omega)] at h2; cases h2

theorem firstIdx_none {n : Nat} {p : Nat → Bool} :
    firstIdx n p = none ↔ ∀ j, j < n → p j = false := by
  unfold firstIdx
  simp

/-! ### the generic sentinel loop of `Model/Typed.lean`: completeness and outcome classes -/

theorem sliceFLoop_complete {b : Bytes} {off blen size : Nat} {stop : Nat → Bool} :
    ∀ (fuel len n : Nat), len ≤ n → n + 1 ≤ fuel + len → (n + 1) * size ≤ blen →
      stop (leN b (off + n * size) size) = true →
      (∀ j, len ≤ j → j < n → stop (leN b (off + j * size) size) = false) →
      sliceFLoop b off blen size stop fuel len = .ok n := by
  intro fuel
  induction fuel with
  | zero => intro len n h1 h2; omega
  | succ fuel ih =>
    intro len n h1 h2 h3 h4 h5
    rw [sliceFLoop_succ]
    have hle : (len + 1) * size ≤ (n + 1) * size := Nat.mul_le_mul_right _ (by omega)
    rw [Nat.succ_mul] at hle
    rw [if_neg (by omega)]
    by_cases hln : len = n
    · subst hln; rw [if_pos h4]
    · rw [if_neg (by rw [h5 len (Nat.le_refl _) (by omega)]; simp)]
      exact ih (len + 1) n (by omega) (by omega) h3 h4 (fun j hj1 hj2 => h5 j (by omega) hj2)

theorem sliceFLoop_eq_first {b : Bytes} {off blen size : Nat} {stop : Nat → Bool} (hs : 1 ≤ size) :
    sliceFLoop b off blen size stop (blen + 2) 0 =
      match firstIdx (blen / size) (fun i => stop (leN b (off + i * size) size)) with
      | some n => .ok n
      | none => .err .bounds := by
  cases h : firstIdx (blen / size) (fun i => stop (leN b (off + i * size) size)) with
  | some n =>
    obtain ⟨h1, h2, h3⟩ := firstIdx_some.1 h
    have hfit : (n + 1) * size ≤ blen := Nat.mul_le_of_le_div _ _ _ (by omega)
    have hn : n + 1 ≤ (n + 1) * size := Nat.le_mul_of_pos_right _ hs
    exact sliceFLoop_complete (blen + 2) 0 n (Nat.zero_le _) (by omega) hfit h2 (fun j _ hj => h3 j hj)
  | none =>
    have hn := firstIdx_none.1 h
    refine sliceFLoop_bounds hs (blen + 2) 0 (by omega) (by omega) ?_
    intro j _ hj
    exact hn j ((Nat.le_div_iff_mul_le (by omega)).2 hj)

/-! ### NUL search -/

theorem findNul_eq_first (b : Bytes) (off : Nat) :
    ∀ (n i : Nat), findNul b off n i =
      (firstIdx n (fun j => byteAt b (off + (i + j)) == 0)).map (· + i) := by
  intro n
  induction n with
  | zero => intro i; simp [findNul, firstIdx]
  | succ n ih =>
    intro i
    unfold findNul
    by_cases hz : byteAt b (off + i) = 0
    · rw [if_pos hz]
      have : firstIdx (n + 1) (fun j => byteAt b (off + (i + j)) == 0) = some 0 :=
        firstIdx_some.2 ⟨by omega, by simpa using hz, fun j hj => by omega⟩
      rw [this]; simp
    · rw [if_neg hz, ih (i + 1)]
      cases h : firstIdx n (fun j => byteAt b (off + (i + 1 + j)) == 0) with
      | some k =>
        obtain ⟨h1, h2, h3⟩ := firstIdx_some.1 h
        have : firstIdx (n + 1) (fun j => byteAt b (off + (i + j)) == 0) = some (k + 1) := by
          refine firstIdx_some.2 ⟨by omega, ?_, ?_⟩
          · rw [← h2]; congr 3; omega
          · intro j hj
            cases j with
            | zero => simpa using hz
            | succ j => rw [← h3 j (by omega)]; congr 3; omega
        rw [this]; simp; omega
      | none =>
        have hn := firstIdx_none.1 h
        have : firstIdx (n + 1) (fun j => byteAt b (off + (i + j)) == 0) = none := by
          refine firstIdx_none.2 ?_
          intro j hj
          cases j with
          | zero => simpa using hz
          | succ j => rw [← hn j (by omega)]; congr 3; omega
        rw [this]; simp

theorem findNul_zero_eq_first (b : Bytes) (off n : Nat) :
    findNul b off n 0 = firstIdx n (fun j => byteAt b (off + j) == 0) := by
  rw [findNul_eq_first]
  simp

/-! ### untyped slices by rva: soundness and outcome classes, for every view -/

theorem at_rva_sound (v : View) {r min align : Nat} {ref : Ref} (h : v.at (.rva r) min align = .ok ref) :
    RefOK v.img ref ∧ min ≤ ref.len ∧ ref.align = align := by
  have hs : ∀ s ∈ sections v.img.bytes, s.InRange := C07_sections_in_range _
  unfold View.at View.slice at h
  cases hk : v.kind
  · rw [hk] at h; exact sliceFile_sound' hs h
  · rw [hk] at h; exact sliceSection_sound h

theorem rangeFile_okOrErr (size : Nat) (secs : List Sec) (rva min : Nat) :
    OkOrErr (rangeFile size secs rva min) := by
  induction secs with
  | nil => exact .inr ⟨_, rfl⟩
  | cons s rest ih =>
    unfold rangeFile
    dsimp only
    repeat' split
    all_goals first | exact .inl ⟨_, rfl⟩ | exact .inr ⟨_, rfl⟩ | exact ih

theorem fileTail_okOrErr (img : Img) (secs : List Sec) (rva min align : Nat) :
    OkOrErr (fileTail img secs rva min align) := by
  unfold fileTail
  obtain ⟨⟨o, l⟩, h⟩ | ⟨e, h⟩ := rangeFile_okOrErr img.bytes.size secs rva min
  · rw [h]; dsimp only; split
    · exact .inl ⟨_, rfl⟩
    · exact .inr ⟨_, rfl⟩
  · rw [h]; exact .inr ⟨_, rfl⟩

/-- with an alignment that is a power of two (every Rust type's is) `slice` is a value or an error -/
theorem at_rva_okOrErr (v : View) (r min align : Nat) (hp : isPow2 align = true) :
    OkOrErr (v.at (.rva r) min align) := by
  unfold View.at View.slice
  cases v.kind
  · show OkOrErr (sliceFile _ _ _ _ _)
    rw [sliceFile_eq_tail]
    by_cases h0 : r = 0
    · rw [if_pos h0]; exact .inr ⟨_, rfl⟩
    · rw [if_neg h0, if_pos hp]
      by_cases h1 : (v.img.base + r) % align = 0
      · rw [if_pos h1]; exact fileTail_okOrErr ..
      · rw [if_neg h1]; exact .inr ⟨_, rfl⟩
  · show OkOrErr (sliceSection _ _ _ _)
    rw [sliceSection_eq]
    by_cases h0 : r = 0
    · rw [if_pos h0]; exact .inr ⟨_, rfl⟩
    · rw [if_neg h0, if_pos hp]
      by_cases h1 : (v.img.base + r) % align = 0
      · rw [if_pos h1]
        by_cases h2 : r ≤ v.img.bytes.size ∧ v.img.bytes.size - r ≥ min
        · rw [if_pos h2]; exact .inl ⟨_, rfl⟩
        · rw [if_neg h2]; exact .inr ⟨_, rfl⟩
      · rw [if_neg h1]; exact .inr ⟨_, rfl⟩

theorem okOrErr_bind {α β} {x : Out α} {f : α → Out β} (hx : OkOrErr x) (hf : ∀ a, x = .ok a → OkOrErr (f a)) :
    OkOrErr (x >>= f) := by
  obtain ⟨a, h⟩ | ⟨e, h⟩ := hx
  · rw [h]; exact hf a h
  · rw [h]; exact .inr ⟨_, rfl⟩

/-! ### the descriptor scan -/

theorem descLoop_succ (img : Img) (off blen fuel len : Nat) :
    descLoop img off blen (fuel + 1) len =
      if len * descSize + descSize > blen then .err .bounds
      else match rawRef "derva_slice_f:&*s" img (off + len * descSize) descSize descAlign with
        | .ok s => if isNullAt img.bytes s.off then .ok len else descLoop img off blen fuel (len + 1)
        | .err e => .err e | .panic s => .panic s | .ub s => .ub s | .diverge => .diverge := rfl

theorem descLoop_step {img : Img} {off blen : Nat} (hw : off + blen ≤ img.bytes.size)
    (ha : (img.base + off) % 4 = 0) (fuel len : Nat) (hfit : len * 20 + 20 ≤ blen) :
    descLoop img off blen (fuel + 1) len =
      if ftAt img.bytes off len = 0 then .ok len else descLoop img off blen fuel (len + 1) := by
  have hr : rawRef "derva_slice_f:&*s" img (off + len * descSize) descSize descAlign =
      .ok ⟨off + len * descSize, descSize, descAlign⟩ := by
    unfold rawRef
    have h1 : off + len * descSize + descSize ≤ img.bytes.size := by simp only [descSize]; omega
    have h2 : (img.base + (off + len * descSize)) % descAlign = 0 := by simp only [descSize, descAlign]; omega
    rw [if_pos ⟨h1, h2⟩]
  have hn : (isNullAt img.bytes (off + len * descSize) = true) ↔ ftAt img.bytes off len = 0 := by
    have e : off + len * descSize + offFT = off + 20 * len + 16 := by simp only [descSize, offFT]; omega
    simp only [isNullAt, ftAt, e, beq_iff_eq]
  rw [descLoop_succ, hr]
  have hc : ¬ (len * descSize + descSize > blen) := by simp only [descSize]; omega
  rw [if_neg hc]
  dsimp only
  by_cases hz : ftAt img.bytes off len = 0
  · rw [if_pos hz, if_pos (hn.2 hz)]
  · rw [if_neg hz, if_neg (fun h => hz (hn.1 h))]

theorem descLoop_short {img : Img} {off blen : Nat} (fuel len : Nat) (h : len * 20 + 20 > blen) :
    descLoop img off blen (fuel + 1) len = .err .bounds := by
  rw [descLoop_succ]
  have hc : len * descSize + descSize > blen := by simp only [descSize]; omega
  rw [if_pos hc]

theorem descLoop_complete {img : Img} {off blen : Nat} (hw : off + blen ≤ img.bytes.size)
    (ha : (img.base + off) % 4 = 0) :
    ∀ (fuel len n : Nat), len ≤ n → n + 1 ≤ fuel + len → (n + 1) * 20 ≤ blen →
      ftAt img.bytes off n = 0 → (∀ j, len ≤ j → j < n → ftAt img.bytes off j ≠ 0) →
      descLoop img off blen fuel len = .ok n := by
  intro fuel
  induction fuel with
  | zero => intro len n h1 h2; omega
  | succ fuel ih =>
    intro len n h1 h2 h3 h4 h5
    rw [descLoop_step hw ha fuel len (by omega)]
    by_cases hln : len = n
    · subst hln; rw [if_pos h4]
    · rw [if_neg (h5 len (Nat.le_refl _) (by omega))]
      exact ih (len + 1) n (by omega) (by omega) h3 h4 (fun j hj1 hj2 => h5 j (by omega) hj2)

theorem descLoop_bounds {img : Img} {off blen : Nat} (hw : off + blen ≤ img.bytes.size)
    (ha : (img.base + off) % 4 = 0) :
    ∀ (fuel len : Nat), blen + 2 ≤ fuel + len → len ≤ blen + 1 →
      (∀ j, len ≤ j → (j + 1) * 20 ≤ blen → ftAt img.bytes off j ≠ 0) →
      descLoop img off blen fuel len = .err .bounds := by
  intro fuel
  induction fuel with
  | zero => intro len h1 h2 _; omega
  | succ fuel ih =>
    intro len h1 h2 hns
    by_cases hb : len * 20 + 20 > blen
    · exact descLoop_short fuel len hb
    · rw [descLoop_step hw ha fuel len (by omega), if_neg (hns len (Nat.le_refl _) (by omega))]
      exact ih (len + 1) (by omega) (by omega) (fun j hj => hns j (by omega))

theorem descLoop_eq_first {img : Img} {off blen : Nat} (hw : off + blen ≤ img.bytes.size)
    (ha : (img.base + off) % 4 = 0) :
    descLoop img off blen (blen + 2) 0 = specDescCount img.bytes off blen := by
  unfold specDescCount
  cases h : firstIdx (blen / 20) (fun i => ftAt img.bytes off i == 0) with
  | some n =>
    obtain ⟨h1, h2, h3⟩ := firstIdx_some.1 h
    exact descLoop_complete hw ha (blen + 2) 0 n (Nat.zero_le _) (by omega) (by omega) (by simpa using h2)
      (fun j _ hj => by simpa using h3 j hj)
  | none =>
    have hn := firstIdx_none.1 h
    exact descLoop_bounds hw ha (blen + 2) 0 (by omega) (by omega)
      (fun j _ hj => by simpa using hn j (by omega))

/-! ### model = executable specification -/

theorem vaSize_pos (f : Fmt) : 1 ≤ vaSize f := by cases f <;> decide
theorem vaSize_pow2 (f : Fmt) : isPow2 (vaSize f) = true := by cases f <;> decide

theorem dataDir_lt {v : View} {i rva size : Nat} (h : v.dataDir i = some (rva, size)) :
    rva < 4294967296 ∧ size < 4294967296 := by
  unfold View.dataDir at h
  split at h
  · cases h; exact ⟨le32_lt _ _, le32_lt _ _⟩
  · cases h

theorem tryFrom_eq_spec (v : View) : tryFrom v = specTryFrom v := by
  unfold tryFrom specTryFrom
  cases hd : v.dataDir dirImport with
  | none => rfl
  | some p =>
    obtain ⟨rva, sz⟩ := p
    simp only [descAlign, descSize]
    cases hat : v.at (.rva rva) 0 4 with
    | ok w =>
      obtain ⟨⟨hw, ha⟩, _, hal⟩ := at_rva_sound v hat
      rw [hal] at ha
      simp only [Out.bind_ok]
      rw [descLoop_eq_first hw ha]
      show _ = match specDescCount v.img.bytes w.off w.len with
        | .ok n => _ | .err e => _ | .panic s => _ | .ub s => _ | .diverge => _
      cases specDescCount v.img.bytes w.off w.len <;> rfl
    | _ => rfl

theorem thunks_eq_spec (v : View) (rva : Nat) :
    v.dervaSliceS (.rva rva) (vaSize v.fmt) (vaSize v.fmt) 0 = specThunks v rva := by
  unfold View.dervaSliceS View.dervaSliceF specThunks specThunkCount
  cases hat : v.at (.rva rva) 0 (vaSize v.fmt) with
  | ok w =>
    dsimp only
    rw [sliceFLoop_eq_first (vaSize_pos _)]
    cases firstIdx (w.len / vaSize v.fmt) (fun i => leN v.b (w.off + i * vaSize v.fmt) (vaSize v.fmt) == 0) <;> rfl
  | _ => rfl

theorem cstr_eq_spec (v : View) (rva : Nat) : v.dervaCStr (.rva rva) = specCStr v rva := by
  unfold View.dervaCStr specCStr cstrFromBytes
  cases hat : v.at (.rva rva) 0 1 with
  | ok w =>
    dsimp only
    rw [findNul_zero_eq_first]
    cases firstIdx w.len (fun i => byteAt v.b (w.off + i) == 0) <;> rfl
  | _ => rfl

theorem land_two_pow_eq_zero (x n : Nat) : x &&& 2 ^ n = 0 ↔ x.testBit n = false := by
  constructor
  · intro h
    have := congrArg (fun y => Nat.testBit y n) h
    simpa [Nat.testBit_and, Nat.testBit_two_pow_self] using this
  · intro h
    apply Nat.eq_of_testBit_eq
    intro i
    simp only [Nat.testBit_and, Nat.testBit_two_pow, Nat.zero_testBit]
    by_cases hn : n = i
    · subst hn; simp [h]
    · simp [hn]

/-- `va & IMAGE_ORDINAL_FLAG == 0` tests the most significant bit of the thunk's own width -/
theorem flag_test (f : Fmt) (va : Nat) : (va &&& ordinalFlag f = 0) ↔ isOrdinal f va = false := by
  cases f
  · exact land_two_pow_eq_zero va 31
  · exact land_two_pow_eq_zero va 63

/-- a successful two-byte read at `rva` leaves room for `rva + 2` in a `u32` (file views: the
section's virtual extent does not wrap; mapped views: the buffer is shorter than 4 GiB) -/
theorem hint_ok_bound (v : View) (hsz : v.img.bytes.size < 4294967296) {rva : Nat} (hr : rva < 4294967296)
    {s : Ref} (h : v.at (.rva rva) 2 2 = .ok s) : rva + 2 < 4294967296 := by
  have hs : ∀ s ∈ sections v.img.bytes, s.InRange := C07_sections_in_range _
  unfold View.at View.slice at h
  cases hk : v.kind
  · rw [hk] at h
    obtain ⟨_, _, _, s', hf, h1, h2, h3, h4, _, _⟩ :=
      (C04_slice_file_ok_iff v.img (sections v.img.bytes) hs rva 2 2 hr s).1 h
    obtain ⟨hm, hc⟩ := firstV_some hf
    obtain ⟨c1, c2, c3⟩ := containsRva_nowrap (hs s' hm) hc
    omega
  · have h' : v.slice rva 2 2 = .ok s := by unfold View.slice; exact h
    obtain ⟨_, _, _, h1, h2, _⟩ := (C05_view_slice_iff v hk rva 2 2 s).1 h'
    omega

theorem import_eq_spec (v : View) (hsz : v.img.bytes.size < 4294967296) (va : Nat) :
    importFromVa v va = specImport v va := by
  unfold importFromVa specImport decodeThunk
  by_cases hf : va &&& ordinalFlag v.fmt = 0
  · rw [if_pos hf, (flag_test _ _).1 hf]
    simp only [Bool.false_eq_true, if_false]
    unfold View.derva
    cases hat : v.at (.rva (va % 4294967296)) 2 2 with
    | ok s =>
      have hb := hint_ok_bound v hsz (Nat.mod_lt _ (by decide)) hat
      simp only [Out.bind_ok]
      unfold padd32
      rw [if_pos hb]
      simp only [Out.bind_ok]
      rw [cstr_eq_spec]
      cases specCStr v (va % 4294967296 + 2) <;> rfl
    | _ => rfl
  · rw [if_neg hf]
    have : isOrdinal v.fmt va = true := by
      cases h : isOrdinal v.fmt va with
      | true => rfl
      | false => exact absurd ((flag_test _ _).2 h) hf
    rw [this]
    rfl

theorem iat_eq_spec (v : View) : iatTryFrom v = specIat v := by
  unfold iatTryFrom specIat
  cases hd : v.dataDir dirIAT with
  | none => rfl
  | some p =>
    obtain ⟨rva, size⟩ := p
    obtain ⟨_, hlt⟩ := dataDir_lt hd
    dsimp only
    rw [dervaSlice_unfold]
    have hle : vaSize v.fmt * (size / vaSize v.fmt) ≤ size := Nat.mul_div_le _ _
    rw [if_neg (by omega), Nat.mul_comm]
    cases v.at (.rva rva) (size / vaSize v.fmt * vaSize v.fmt) (vaSize v.fmt) <;> rfl

/-! ### the executable specification against the layout relations -/

theorem specDescCount_ok_iff (b : Bytes) (off len n : Nat) :
    specDescCount b off len = .ok n ↔ IsImportDir b off len n := by
  unfold specDescCount
  constructor
  · intro h
    cases hf : firstIdx (len / 20) (fun i => ftAt b off i == 0) with
    | some k =>
      rw [hf] at h; cases h
      obtain ⟨h1, h2, h3⟩ := firstIdx_some.1 hf
      exact ⟨by omega, fun i hi => by simpa using h3 i hi, by simpa using h2⟩
    | none => rw [hf] at h; cases h
  · rintro ⟨h1, h2, h3⟩
    have hk : n < len / 20 := by omega
    rw [firstIdx_some.2 ⟨hk, by simpa using h3, fun j hj => by simpa using h2 j hj⟩]

theorem specDescCount_bounds (b : Bytes) (off len : Nat) (h : ∀ n, ¬ IsImportDir b off len n) :
    specDescCount b off len = .err .bounds := by
  cases hc : specDescCount b off len with
  | ok n => exact absurd ((specDescCount_ok_iff ..).1 hc) (h n)
  | err e =>
    unfold specDescCount at hc
    split at hc
    · cases hc
    · exact hc.symm
  | _ => unfold specDescCount at hc; split at hc <;> cases hc

theorem specThunkCount_ok_iff (b : Bytes) (off len sz n : Nat) (hs : 1 ≤ sz) :
    specThunkCount b off len sz = .ok n ↔ IsThunkTable b off len sz n := by
  unfold specThunkCount
  constructor
  · intro h
    cases hf : firstIdx (len / sz) (fun i => leN b (off + i * sz) sz == 0) with
    | some k =>
      rw [hf] at h; cases h
      obtain ⟨h1, h2, h3⟩ := firstIdx_some.1 hf
      exact ⟨(Nat.le_div_iff_mul_le (by omega)).1 h1, fun i hi => by simpa using h3 i hi, by simpa using h2⟩
    | none => rw [hf] at h; cases h
  · rintro ⟨h1, h2, h3⟩
    rw [firstIdx_some.2 ⟨(Nat.le_div_iff_mul_le (by omega)).2 h1, by simpa using h3,
      fun j hj => by simpa using h2 j hj⟩]

theorem specThunkCount_bounds (b : Bytes) (off len sz : Nat) (hs : 1 ≤ sz)
    (h : ∀ n, ¬ IsThunkTable b off len sz n) : specThunkCount b off len sz = .err .bounds := by
  cases hc : specThunkCount b off len sz with
  | ok n => exact absurd ((specThunkCount_ok_iff _ _ _ _ _ hs).1 hc) (h n)
  | err e =>
    unfold specThunkCount at hc
    split at hc
    · cases hc
    · exact hc.symm
  | _ => unfold specThunkCount at hc; split at hc <;> cases hc

theorem firstNul_some_iff (b : Bytes) (off len n : Nat) :
    firstIdx len (fun i => byteAt b (off + i) == 0) = some n ↔ IsCStr b off len n := by
  constructor
  · intro hf
    obtain ⟨h1, h2, h3⟩ := firstIdx_some.1 hf
    exact ⟨by omega, fun i hi => by simpa using h3 i hi, by simpa using h2⟩
  · rintro ⟨h1, h2, h3⟩
    exact firstIdx_some.2 ⟨by omega, by simpa using h3, fun j hj => by simpa using h2 j hj⟩

theorem specTryFrom_answer (v : View) (rva sz : Nat) (hd : v.dataDir dirImport = some (rva, sz)) :
    ImportDirAnswer v rva (specTryFrom v) := by
  unfold ImportDirAnswer specTryFrom
  rw [hd]
  dsimp only
  obtain ⟨w, h⟩ | ⟨e, h⟩ := at_rva_okOrErr v rva 0 4 (by decide)
  · rw [h]
    dsimp only
    refine ⟨?_, ?_⟩
    · intro n hn; rw [(specDescCount_ok_iff ..).2 hn]
    · intro hn; rw [specDescCount_bounds _ _ _ hn]
  · rw [h]

theorem specThunks_answer (v : View) (rva : Nat) : ThunkTableAnswer v rva (specThunks v rva) := by
  unfold ThunkTableAnswer specThunks
  obtain ⟨w, h⟩ | ⟨e, h⟩ := at_rva_okOrErr v rva 0 (vaSize v.fmt) (vaSize_pow2 _)
  · rw [h]
    dsimp only
    refine ⟨?_, ?_⟩
    · intro n hn; rw [(specThunkCount_ok_iff _ _ _ _ _ (vaSize_pos _)).2 hn]
    · intro hn; rw [specThunkCount_bounds _ _ _ _ (vaSize_pos _) hn]
  · rw [h]

theorem specCStr_answer (v : View) (rva : Nat) : CStrAnswer v rva (specCStr v rva) := by
  unfold CStrAnswer specCStr
  obtain ⟨w, h⟩ | ⟨e, h⟩ := at_rva_okOrErr v rva 0 1 (by decide)
  · rw [h]
    dsimp only
    refine ⟨?_, ?_⟩
    · intro n hn; rw [(firstNul_some_iff ..).2 hn]
    · intro hn
      cases hf : firstIdx w.len (fun i => byteAt v.b (w.off + i) == 0) with
      | some k => exact absurd ((firstNul_some_iff ..).1 hf) (hn k)
      | none => rfl
  · rw [h]

/-! ### the two readings of "terminator" -/

theorem allZero_ft {b : Bytes} {off i : Nat} (h : AllZeroAt b (off + 20 * i)) : ftAt b off i = 0 := h.2.2.2.2

theorem readings_agree (b : Bytes) (off len : Nat) (hwf : WellFormedDir b off len) (n : Nat) :
    IsImportDir b off len n ↔ IsImportDirZ b off len n := by
  constructor
  · rintro ⟨h1, h2, h3⟩
    exact ⟨h1, fun i hi hz => h2 i hi (allZero_ft hz), hwf n h1 h3⟩
  · rintro ⟨h1, h2, h3⟩
    refine ⟨h1, ?_, allZero_ft h3⟩
    intro i hi hz
    exact h2 i hi (hwf i (by omega) hz)

/-- `WellFormedDir` only speaks of the `len / 20` records that fit into the window: a bounded, hence
decidable, statement -/
theorem wellFormedDir_iff_bounded (b : Bytes) (off len : Nat) :
    WellFormedDir b off len ↔ ∀ i, i < len / 20 → ftAt b off i = 0 → AllZeroAt b (off + 20 * i) := by
  unfold WellFormedDir
  constructor
  · intro h i hi hz
    exact h i (by omega) hz
  · intro h i hi hz
    exact h i (by omega) hz

instance (b : Bytes) (off len : Nat) : Decidable (WellFormedDir b off len) :=
  decidable_of_iff _ (wellFormedDir_iff_bounded b off len).symm

/-- the descriptor counts of both readings are bounded by the window, so "the window holds a directory
of `n` descriptors" is decidable too (for the examples) -/
instance (b : Bytes) (off len n : Nat) : Decidable (IsImportDir b off len n) :=
  decidable_of_iff ((n + 1) * 20 ≤ len ∧ (∀ i, i < n → ftAt b off i ≠ 0) ∧ ftAt b off n = 0)
    ⟨fun ⟨h1, h2, h3⟩ => ⟨h1, h2, h3⟩, fun ⟨h1, h2, h3⟩ => ⟨h1, h2, h3⟩⟩

instance (b : Bytes) (off len n : Nat) : Decidable (IsImportDirZ b off len n) :=
  decidable_of_iff ((n + 1) * 20 ≤ len ∧ (∀ i, i < n → ¬ AllZeroAt b (off + 20 * i)) ∧ AllZeroAt b (off + 20 * n))
    ⟨fun ⟨h1, h2, h3⟩ => ⟨h1, h2, h3⟩, fun ⟨h1, h2, h3⟩ => ⟨h1, h2, h3⟩⟩

/-! ### element references of an array reference -/

theorem thunkRefs_eq (f : Fmt) (off n : Nat) :
    thunkRefs f ⟨off, n * vaSize f, vaSize f⟩ =
      (List.range n).map (fun i => ⟨off + vaSize f * i, vaSize f, vaSize f⟩) := by
  unfold thunkRefs
  simp only
  rw [Nat.mul_div_cancel _ (vaSize_pos f)]

theorem descs_eq (off n : Nat) :
    descs ⟨off, n * 20, 4⟩ = (List.range n).map (fun i => ⟨off + 20 * i, 20, 4⟩) := by
  unfold descs
  simp only [descSize, descAlign]
  rw [Nat.mul_div_cancel _ (by decide)]

theorem thunkRefs_ok {img : Img} {f : Fmt} {arr : Ref} (h : RefOK img arr) (hal : arr.align = vaSize f) :
    ∀ t ∈ thunkRefs f arr, RefOK img t := by
  intro t ht
  unfold thunkRefs at ht
  obtain ⟨i, hi, rfl⟩ := List.mem_map.1 ht
  have hi' := List.mem_range.1 hi
  obtain ⟨h1, h2⟩ := h
  rw [hal] at h2
  have hfit : (i + 1) * vaSize f ≤ arr.len := (Nat.le_div_iff_mul_le (vaSize_pos f)).1 hi'
  unfold RefOK
  cases f
  · simp only [vaSize, Fmt.ptrSize] at *; omega
  · simp only [vaSize, Fmt.ptrSize] at *; omega

theorem descs_ok {img : Img} {arr : Ref} (h : RefOK img arr) (hal : arr.align = 4) :
    ∀ d ∈ descs arr, RefOK img d := by
  intro d hd
  unfold descs at hd
  obtain ⟨i, hi, rfl⟩ := List.mem_map.1 hd
  have hi' := List.mem_range.1 hi
  obtain ⟨h1, h2⟩ := h
  rw [hal] at h2
  unfold RefOK
  simp only [descSize, descAlign] at *
  omega

/-! ### uniqueness of the layouts -/

theorem IsImportDir.unique {b : Bytes} {off len n m : Nat} (h1 : IsImportDir b off len n)
    (h2 : IsImportDir b off len m) : n = m := by
  by_cases hlt : n < m
  · exact absurd h1.term (h2.live n hlt)
  · by_cases hgt : m < n
    · exact absurd h2.term (h1.live m hgt)
    · omega

theorem IsThunkTable.unique {b : Bytes} {off len sz n m : Nat} (h1 : IsThunkTable b off len sz n)
    (h2 : IsThunkTable b off len sz m) : n = m := by
  by_cases hlt : n < m
  · exact absurd h1.term (h2.live n hlt)
  · by_cases hgt : m < n
    · exact absurd h2.term (h1.live m hgt)
    · omega

/-! ### outcome classes of the executable specification -/

theorem specDescCount_okOrErr (b : Bytes) (off len : Nat) : OkOrErr (specDescCount b off len) := by
  unfold specDescCount; split
  · exact .inl ⟨_, rfl⟩
  · exact .inr ⟨_, rfl⟩

theorem specThunkCount_okOrErr (b : Bytes) (off len sz : Nat) : OkOrErr (specThunkCount b off len sz) := by
  unfold specThunkCount; split
  · exact .inl ⟨_, rfl⟩
  · exact .inr ⟨_, rfl⟩

theorem specTryFrom_okOrErr (v : View) : OkOrErr (specTryFrom v) := by
  unfold specTryFrom
  split
  · exact .inr ⟨_, rfl⟩
  · rename_i rva sz _
    obtain ⟨w, h⟩ | ⟨e, h⟩ := at_rva_okOrErr v rva 0 4 (by decide)
    · rw [h]; dsimp only
      obtain ⟨n, hn⟩ | ⟨e, hn⟩ := specDescCount_okOrErr v.b w.off w.len
      · rw [hn]; exact .inl ⟨_, rfl⟩
      · rw [hn]; exact .inr ⟨_, rfl⟩
    · rw [h]; exact .inr ⟨_, rfl⟩

theorem specThunks_okOrErr (v : View) (rva : Nat) : OkOrErr (specThunks v rva) := by
  unfold specThunks
  obtain ⟨w, h⟩ | ⟨e, h⟩ := at_rva_okOrErr v rva 0 (vaSize v.fmt) (vaSize_pow2 _)
  · rw [h]; dsimp only
    obtain ⟨n, hn⟩ | ⟨e, hn⟩ := specThunkCount_okOrErr v.b w.off w.len (vaSize v.fmt)
    · rw [hn]; exact .inl ⟨_, rfl⟩
    · rw [hn]; exact .inr ⟨_, rfl⟩
  · rw [h]; exact .inr ⟨_, rfl⟩

theorem specCStr_okOrErr (v : View) (rva : Nat) : OkOrErr (specCStr v rva) := by
  unfold specCStr
  obtain ⟨w, h⟩ | ⟨e, h⟩ := at_rva_okOrErr v rva 0 1 (by decide)
  · rw [h]; dsimp only; split
    · exact .inl ⟨_, rfl⟩
    · exact .inr ⟨_, rfl⟩
  · rw [h]; exact .inr ⟨_, rfl⟩

theorem specImport_okOrErr (v : View) (va : Nat) : OkOrErr (specImport v va) := by
  unfold specImport
  split
  · exact .inl ⟨_, rfl⟩
  · rename_i rva _
    obtain ⟨w, h⟩ | ⟨e, h⟩ := at_rva_okOrErr v rva 2 2 (by decide)
    · rw [h]; dsimp only
      obtain ⟨n, hn⟩ | ⟨e, hn⟩ := specCStr_okOrErr v (rva + 2)
      · rw [hn]; exact .inl ⟨_, rfl⟩
      · rw [hn]; exact .inr ⟨_, rfl⟩
    · rw [h]; exact .inr ⟨_, rfl⟩

theorem specIat_okOrErr (v : View) : OkOrErr (specIat v) := by
  unfold specIat
  split
  · exact .inr ⟨_, rfl⟩
  · rename_i rva size _
    dsimp only
    obtain ⟨w, h⟩ | ⟨e, h⟩ := at_rva_okOrErr v rva (size / vaSize v.fmt * vaSize v.fmt) (vaSize v.fmt) (vaSize_pow2 _)
    · rw [h]; exact .inl ⟨_, rfl⟩
    · rw [h]; exact .inr ⟨_, rfl⟩

/-! ### what a successful answer looks like (for the C01 obligations) -/

theorem specTryFrom_ok {v : View} {image : Ref} (h : specTryFrom v = .ok image) :
    ∃ rva sz w n, v.dataDir dirImport = some (rva, sz) ∧ v.at (.rva rva) 0 4 = .ok w ∧
      IsImportDir v.b w.off w.len n ∧ image = ⟨w.off, n * 20, 4⟩ := by
  unfold specTryFrom at h
  split at h
  · cases h
  · rename_i rva sz hd
    cases hat : v.at (.rva rva) 0 4 with
    | ok w =>
      rw [hat] at h; dsimp only at h
      cases hc : specDescCount v.b w.off w.len with
      | ok n =>
        rw [hc] at h; cases h
        exact ⟨rva, sz, w, n, hd, hat, (specDescCount_ok_iff ..).1 hc, rfl⟩
      | _ => rw [hc] at h; cases h
    | _ => rw [hat] at h; cases h

theorem specThunks_ok {v : View} {rva : Nat} {s : Ref} (h : specThunks v rva = .ok s) :
    ∃ w n, v.at (.rva rva) 0 (vaSize v.fmt) = .ok w ∧ IsThunkTable v.b w.off w.len (vaSize v.fmt) n ∧
      s = ⟨w.off, n * vaSize v.fmt, vaSize v.fmt⟩ := by
  unfold specThunks at h
  cases hat : v.at (.rva rva) 0 (vaSize v.fmt) with
  | ok w =>
    rw [hat] at h; dsimp only at h
    cases hc : specThunkCount v.b w.off w.len (vaSize v.fmt) with
    | ok n =>
      rw [hc] at h; cases h
      exact ⟨w, n, rfl, (specThunkCount_ok_iff _ _ _ _ _ (vaSize_pos _)).1 hc, rfl⟩
    | _ => rw [hc] at h; cases h
  | _ => rw [hat] at h; cases h

theorem specCStr_ok {v : View} {rva : Nat} {c : Ref} (h : specCStr v rva = .ok c) :
    ∃ w n, v.at (.rva rva) 0 1 = .ok w ∧ IsCStr v.b w.off w.len n ∧ c = ⟨w.off, n + 1, 1⟩ := by
  unfold specCStr at h
  cases hat : v.at (.rva rva) 0 1 with
  | ok w =>
    rw [hat] at h; dsimp only at h
    cases hf : firstIdx w.len (fun i => byteAt v.b (w.off + i) == 0) with
    | some n =>
      rw [hf] at h; cases h
      exact ⟨w, n, rfl, (firstNul_some_iff ..).1 hf, rfl⟩
    | none => rw [hf] at h; cases h
  | _ => rw [hat] at h; cases h

theorem specIat_ok {v : View} {image : Ref} (h : specIat v = .ok image) :
    ∃ rva size w, v.dataDir dirIAT = some (rva, size) ∧
      v.at (.rva rva) (size / vaSize v.fmt * vaSize v.fmt) (vaSize v.fmt) = .ok w ∧
      image = ⟨w.off, size / vaSize v.fmt * vaSize v.fmt, vaSize v.fmt⟩ := by
  unfold specIat at h
  split at h
  · cases h
  · rename_i rva size hd
    dsimp only at h
    cases hat : v.at (.rva rva) (size / vaSize v.fmt * vaSize v.fmt) (vaSize v.fmt) with
    | ok w => rw [hat] at h; cases h; exact ⟨rva, size, w, hd, hat, rfl⟩
    | _ => rw [hat] at h; cases h

theorem cstr_refok {v : View} {rva : Nat} {c : Ref} (h : v.dervaCStr (.rva rva) = .ok c) : RefOK v.img c := by
  rw [cstr_eq_spec] at h
  obtain ⟨w, n, hat, hc, rfl⟩ := specCStr_ok h
  obtain ⟨⟨h1, _⟩, _, _⟩ := at_rva_sound v hat
  have := hc.fits
  exact ⟨by show w.off + (n + 1) ≤ _; omega, Nat.mod_one _⟩

theorem thunks_refok {v : View} {rva : Nat} {s : Ref}
    (h : v.dervaSliceS (.rva rva) (vaSize v.fmt) (vaSize v.fmt) 0 = .ok s) :
    RefOK v.img s ∧ s.align = vaSize v.fmt := by
  rw [thunks_eq_spec] at h
  obtain ⟨w, n, hat, hc, rfl⟩ := specThunks_ok h
  obtain ⟨⟨h1, h2⟩, _, hal⟩ := at_rva_sound v hat
  have hf := hc.fits
  rw [Nat.succ_mul] at hf
  rw [hal] at h2
  exact ⟨⟨by show w.off + n * vaSize v.fmt ≤ _; omega, h2⟩, rfl⟩

theorem bind_eq_ok {α β} {x : Out α} {f : α → Out β} {b : β} :
    (x >>= f) = .ok b ↔ ∃ a, x = .ok a ∧ f a = .ok b := by
  cases x with
  | ok a => simp
  | _ => simp

theorem import_name_refok {v : View} {va h : Nat} {nm : Ref}
    (hi : importFromVa v va = .ok (.byName h nm)) : RefOK v.img nm := by
  unfold importFromVa at hi
  split at hi
  · obtain ⟨hint, _, hi⟩ := bind_eq_ok.1 hi
    obtain ⟨rva2, _, hi⟩ := bind_eq_ok.1 hi
    obtain ⟨name, hn, hi⟩ := bind_eq_ok.1 hi
    cases hi
    exact cstr_refok hn
  · cases hi

end Pelite.Imports
