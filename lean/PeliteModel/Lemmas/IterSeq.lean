/-!
The sequence specification of C18 for forward iterators, for any item type (core-only: the driver
links it to print the specification's answer next to the model's).

"Every iterator the library hands out behaves like the plain front-to-back sequence of its items:
for any interleaving of next, nth, size_hint, count and clone the results equal those of the same
calls on a deque holding that sequence".  `DequeSpec` is the deque; `Seq.runSeq` replays a whole
history on it.  It is the forward fragment of the double-ended `Rich.Spec.runDeque`
(`C18_seq_is_deque_fragment` in Thm/C18.lean).

Size hints: a deque knows its length, so its own `size_hint` is exact; an iterator that is not
`ExactSizeIterator` only promises *sound* bounds.  The specification therefore takes the hint
policy of the iterator type as a parameter (`Hint`: remaining length ↦ answer) and what C18 asks of
it is `Hint.Sound` (lower bound ≤ remaining length ≤ upper bound), resp. `= Hint.exact` for
exact-size iterators.
-/
namespace Pelite.DequeSpec

def next {α} (q : List α) : Option α × List α := (q.head?, q.tail)
def nextBack {α} (q : List α) : Option α × List α := (q.getLast?, q.dropLast)
def nth {α} (q : List α) (n : Nat) : Option α × List α := (q[n]?, q.drop (n + 1))

end Pelite.DequeSpec

namespace Pelite.Seq

/-- the calls a forward iterator (`Iterator + Clone`) offers -/
inductive Op
  | next | nth (n : Nat) | sizeHint | count | clone
  deriving DecidableEq, Repr

inductive Res (α : Type)
  | item (r : Option α)                   -- next / nth
  | num (n : Nat)                         -- `it.clone().count()`
  | hint (lo : Nat) (hi : Option Nat)     -- size_hint
  | list (l : List α)                     -- the items a clone still yields; the history goes on with the clone
  deriving DecidableEq, Repr

/-- size-hint policy of an iterator type: remaining length ↦ `(lower, upper)` -/
abbrev Hint := Nat → Nat × Option Nat

/-- what `Iterator::size_hint` must satisfy -/
def Hint.Sound (h : Hint) : Prop := ∀ n, (h n).1 ≤ n ∧ ∀ hi ∈ (h n).2, n ≤ hi

/-- `ExactSizeIterator` -/
def Hint.exact : Hint := fun n => (n, some n)
/-- the provided `size_hint` of `core::iter::Iterator` -/
def Hint.unknown : Hint := fun _ => (0, none)

theorem Hint.exact_sound : Hint.exact.Sound := by
  intro n; simp [Hint.exact]

theorem Hint.unknown_sound : Hint.unknown.Sound := by
  intro n; simp [Hint.unknown]

def stepSeq {α : Type} (hint : Hint) (q : List α) : Op → Res α × List α
  | .next => (.item (DequeSpec.next q).1, (DequeSpec.next q).2)
  | .nth n => (.item (DequeSpec.nth q n).1, (DequeSpec.nth q n).2)
  | .sizeHint => (.hint (hint q.length).1 (hint q.length).2, q)
  | .count => (.num q.length, q)
  | .clone => (.list q, q)

/-- the answers of a whole call history on the sequence `q` -/
def runSeq {α : Type} (hint : Hint) : List α → List Op → List (Res α)
  | _, [] => []
  | q, o :: os => (stepSeq hint q o).1 :: runSeq hint (stepSeq hint q o).2 os

/-- the sequence that is left after a history -/
def afterSeq {α : Type} (hint : Hint) : List α → List Op → List α
  | q, [] => q
  | q, o :: os => afterSeq hint (stepSeq hint q o).2 os

/-- fused: on the exhausted sequence every call answers `none` / `0` / nothing, whatever the history -/
theorem runSeq_nil_fused {α : Type} (hint : Hint) (ops : List Op) :
    afterSeq hint ([] : List α) ops = [] ∧
    ∀ r ∈ runSeq hint ([] : List α) ops,
      r = .item none ∨ r = .num 0 ∨ r = .hint (hint 0).1 (hint 0).2 ∨ r = .list [] := by
  induction ops with
  | nil => exact ⟨rfl, fun r hr => by cases hr⟩
  | cons o os ih =>
    have hst : (stepSeq hint ([] : List α) o).2 = [] := by
      cases o <;> simp [stepSeq, DequeSpec.next, DequeSpec.nth]
    refine ⟨by rw [afterSeq, hst]; exact ih.1, ?_⟩
    intro r hr
    rw [runSeq, hst] at hr
    rcases List.mem_cons.mp hr with rfl | hr
    · cases o <;> simp [stepSeq, DequeSpec.next, DequeSpec.nth]
    · exact ih.2 r hr

end Pelite.Seq
