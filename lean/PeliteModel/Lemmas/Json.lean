import PeliteModel.Model.Json
import PeliteModel.Spec.JsonText
import PeliteModel.Thm.C05
import PeliteModel.Thm.C07
/-! Helper lemmas for C19. -/
namespace Pelite.Pe

/-- the agnostic constructor's error is the PE32+ parser's, or (on `PeMagic`) the PE32 parser's -/
theorem wrap_err_imp (k : Kind) (img : Img) (e : Err) (h : wrapFromBytes k img = .err e) :
    fromBytes .pe64 k img = .err e ∨ (fromBytes .pe64 k img = .err .peMagic ∧ fromBytes .pe32 k img = .err e) := by
  unfold wrapFromBytes at h
  split at h
  · cases h
  · rename_i h64
    exact .inr ⟨h64, h⟩
  · exact .inl h

/-- the directory entry as a total function of the index -/
def View.ddEntry (v : View) (i : Nat) : Nat × Nat :=
  (le32 v.b (ntEnd v.fmt v.b + 8 * i), le32 v.b (ntEnd v.fmt v.b + 8 * i + 4))

theorem dataDir_of_lt (v : View) {i : Nat} (h : i < numDataDirs v.fmt v.b) : v.dataDir i = some (v.ddEntry i) := by
  unfold View.dataDir View.ddEntry
  rw [if_pos h]

/-- the serialized data-directory list is the table, entry by entry -/
theorem dataDirs_eq_map (v : View) :
    (List.range (numDataDirs v.fmt v.b)).filterMap v.dataDir = (List.range (numDataDirs v.fmt v.b)).map v.ddEntry := by
  have key : ∀ l : List Nat, (∀ i ∈ l, i < numDataDirs v.fmt v.b) → l.filterMap v.dataDir = l.map v.ddEntry := by
    intro l
    induction l with
    | nil => intro _; rfl
    | cons a t ih =>
      intro hl
      rw [List.filterMap_cons, dataDir_of_lt v (hl a (by simp)), List.map_cons,
        ih (fun i hi => hl i (List.mem_cons_of_mem _ hi))]
  exact key _ (fun i hi => List.mem_range.1 hi)

theorem ddSection_eq_findIdx (secs : List Sec) (va : Nat) :
    ddSection secs va = secs.findIdx? (fun s => decide (s.va ≤ va ∧ va - s.va < s.vs)) := by
  induction secs with
  | nil => rfl
  | cons s rest ih =>
    simp only [ddSection, List.findIdx?_cons, ge_iff_le, ih]
    split <;> simp_all

/-- `View.baseRelocsRef` succeeds exactly through a successful `slice` of the directory -/
theorem baseRelocsRef_ok {v : View} {r : Ref} (h : v.baseRelocsRef = .ok r) :
    ∃ va size s, v.dataDir 5 = some (va, size) ∧ v.slice va size 4 = .ok s ∧ r = ⟨s.off, size, 4⟩ := by
  unfold View.baseRelocsRef at h
  split at h
  · cases h
  · rename_i va size hdd
    split at h <;> first | cases h | skip
    rename_i s hs
    exact ⟨va, size, s, hdd, hs, rfl⟩

end Pelite.Pe

/-! ## the printed text reads back: `Json.parse (Json.print j) = some j` -/
namespace Pelite.Json

/-! ### unfolding lemmas (the generated equations split along the nested matches) -/

theorem readStrBody_cons (c : Nat) (r : List Nat) : readStrBody (c :: r) =
    if c = 34 then some ([], r)
    else if c = 92 then
      match r with
      | [] => none
      | e :: r1 =>
        if e = 117 then
          match r1 with
          | a :: b :: x :: y :: r2 =>
            if a = 48 ∧ b = 48 then
              match hexVal x, hexVal y with
              | some hx, some hy =>
                if 16 * hx + hy < 128 then
                  (readStrBody r2).map (fun p => ((16 * hx + hy) :: p.1, p.2))
                else none
              | _, _ => none
            else none
          | _ => none
        else
          match unescChar e with
          | some v => (readStrBody r1).map (fun p => (v :: p.1, p.2))
          | none => none
    else if c < 32 then none
    else (readStrBody r).map (fun p => (c :: p.1, p.2)) := by
  rw [readStrBody.eq_def] <;> rfl

theorem parseVal_cons (fuel c : Nat) (r : List Nat) : parseVal (fuel + 1) (c :: r) =
    if isDigit c then (readNum (c :: r)).map (fun p => (Json.num p.1, p.2))
    else if c = 110 then (expect [117, 108, 108] r).map (fun r' => (Json.null, r'))
    else if c = 116 then (expect [114, 117, 101] r).map (fun r' => (Json.bool true, r'))
    else if c = 102 then (expect [97, 108, 115, 101] r).map (fun r' => (Json.bool false, r'))
    else if c = 34 then (readStrBody r).map (fun p => (Json.str p.1, p.2))
    else if c = 91 then
      match r with
      | [] => none
      | d :: r' =>
        if d = 93 then some (Json.arr [], r')
        else (parseElems fuel (d :: r')).map (fun p => (Json.arr p.1, p.2))
    else if c = 123 then
      match r with
      | [] => none
      | d :: r' =>
        if d = 125 then some (Json.obj [], r')
        else (parseMembers fuel (d :: r')).map (fun p => (Json.obj p.1, p.2))
    else none := by
  rw [parseVal.eq_def] <;> rfl

theorem parseElems_succ (fuel : Nat) (t : List Nat) : parseElems (fuel + 1) t =
    match parseVal fuel t with
    | none => none
    | some (_, []) => none
    | some (v, c :: r) =>
      if c = 93 then some ([v], r)
      else if c = 44 then (parseElems fuel r).map (fun p => (v :: p.1, p.2))
      else none := by
  rw [parseElems.eq_def] <;> rfl

theorem parseMembers_succ (fuel : Nat) (t : List Nat) : parseMembers (fuel + 1) t =
    match readStr t with
    | none => none
    | some (_, []) => none
    | some (k, d :: r1) =>
      if d = 58 then
        match parseVal fuel r1 with
        | none => none
        | some (_, []) => none
        | some (v, e :: r2) =>
          if e = 125 then some ([(k, v)], r2)
          else if e = 44 then (parseMembers fuel r2).map (fun p => ((k, v) :: p.1, p.2))
          else none
      else none := by
  rw [parseMembers.eq_def] <;> rfl

/-! ### examples -/

-- {"a":[1,null,"x\n"],"":{}}
example : parse [123, 34, 97, 34, 58, 91, 49, 44, 110, 117, 108, 108, 44, 34, 120, 92, 110, 34, 93,
      44, 34, 34, 58, 123, 125, 125]
    = some (.obj [([97], .arr [.num 1, .null, .str [120, 10]]), ([], .obj [])]) := by rfl
-- [1,]
example : parse [91, 49, 44, 93] = none := by rfl
-- 01
example : parse [48, 49] = none := by rfl
-- "a
example : parse [34, 97] = none := by rfl
-- "a<LF>"
example : parse [34, 97, 10, 34] = none := by rfl
-- nul
example : parse [110, 117, 108] = none := by rfl
-- [] {} 0 [0,10] true false
example : parse [91, 93] = some (.arr []) := by rfl
example : parse [123, 125] = some (.obj []) := by rfl
example : parse [48] = some (.num 0) := by rfl
example : parse [91, 48, 44, 49, 48, 93] = some (.arr [.num 0, .num 10]) := by rfl
example : parse [116, 114, 117, 101] = some (.bool true) := by rfl
example : parse [102, 97, 108, 115, 101] = some (.bool false) := by rfl
-- "\u001F\u001f\/" : both hex cases, the solidus escape
example : parse [34, 92, 117, 48, 48, 49, 70, 92, 117, 48, 48, 49, 102, 92, 47, 34]
    = some (.str [31, 31, 47]) := by rfl
-- bytes 0x7F and >= 0x80 verbatim
example : parse [34, 127, 195, 169, 34] = some (.str [127, 195, 169]) := by rfl
-- duplicate keys kept in order: {"a":1,"a":2}
example : parse [123, 34, 97, 34, 58, 49, 44, 34, 97, 34, 58, 50, 125]
    = some (.obj [([97], .num 1), ([97], .num 2)]) := by rfl
-- rejected: "\u0080" (outside the subset), "\x", -1, 1.5, 1e3, " 1", "1 ", {"a":1,}, {"a"}, [1 2], 1 1, empty text
example : parse [34, 92, 117, 48, 48, 56, 48, 34] = none := by rfl
example : parse [34, 92, 120, 34] = none := by rfl
example : parse [45, 49] = none := by rfl
example : parse [49, 46, 53] = none := by rfl
example : parse [49, 101, 51] = none := by rfl
example : parse [32, 49] = none := by rfl
example : parse [49, 32] = none := by rfl
example : parse [123, 34, 97, 34, 58, 49, 44, 125] = none := by rfl
example : parse [123, 34, 97, 34, 125] = none := by rfl
example : parse [91, 49, 32, 50, 93] = none := by rfl
example : parse [91, 49, 93, 93] = none := by rfl
example : parse [] = none := by rfl
example : parse [91, 48, 48, 93] = none := by rfl

/-! ### lemmas: numbers -/

theorem isDigit_iff (c : Nat) : isDigit c = true ↔ 48 ≤ c ∧ c ≤ 57 := by
  simp [isDigit]

/-- the input does not go on with a digit -/
def noDigitHead : List Nat → Bool
  | [] => true
  | c :: _ => !isDigit c

theorem decimal_zero : decimal 0 = [48] := by
  rw [decimal]; simp

theorem decimal_digits (n : Nat) : ∀ c ∈ decimal n, isDigit c = true := by
  fun_induction decimal n with
  | case1 n h => intro c hc; simp at hc; subst hc; simp [isDigit]; omega
  | case2 n h ih =>
    intro c hc
    simp only [List.mem_append, List.mem_singleton] at hc
    rcases hc with hc | hc
    · exact ih c hc
    · subst hc; simp [isDigit]; omega

theorem decimal_ne_nil (n : Nat) : decimal n ≠ [] := by
  fun_induction decimal n with
  | case1 n h => simp
  | case2 n h ih => simp

theorem decimal_head (n : Nat) : (decimal n).head? = some 48 → n = 0 := by
  fun_induction decimal n with
  | case1 n h => simp
  | case2 n h ih =>
    intro hh
    cases hd : decimal (n / 10) with
    | nil => exact absurd hd (decimal_ne_nil _)
    | cons a l =>
      rw [hd] at hh ih
      simp at hh ih
      have := ih hh
      omega

theorem leadingZero_head (l : List Nat) (h : leadingZero l = true) :
    l.head? = some 48 ∧ 2 ≤ l.length := by
  match l, h with
  | d :: _ :: _, h => simp [leadingZero] at h; simp [h]

theorem decimal_not_leadingZero (n : Nat) : leadingZero (decimal n) = false := by
  cases hl : leadingZero (decimal n) with
  | false => rfl
  | true =>
    have ⟨h1, h2⟩ := leadingZero_head _ hl
    have := decimal_head n h1
    subst this
    rw [decimal_zero] at h2
    simp at h2

theorem foldl_digits_snoc (l : List Nat) (d a : Nat) :
    (l ++ [d]).foldl (fun a d => 10 * a + (d - 48)) a
      = 10 * l.foldl (fun a d => 10 * a + (d - 48)) a + (d - 48) := by
  simp [List.foldl_append]

theorem digitsVal_decimal (n : Nat) : digitsVal (decimal n) = n := by
  fun_induction decimal n with
  | case1 n h => simp [digitsVal]
  | case2 n h ih =>
    unfold digitsVal at ih ⊢
    rw [foldl_digits_snoc, ih]
    omega

theorem takeWhile_digits (l rest : List Nat) (hl : ∀ c ∈ l, isDigit c = true)
    (hr : noDigitHead rest = true) :
    (l ++ rest).takeWhile isDigit = l ∧ (l ++ rest).dropWhile isDigit = rest := by
  induction l with
  | nil =>
    cases rest with
    | nil => simp
    | cons c r =>
      simp [noDigitHead] at hr
      simp [hr]
  | cons a l ih =>
    have ha : isDigit a = true := hl a (by simp)
    have := ih (fun c hc => hl c (by simp [hc]))
    simp [ha, this]

theorem readNum_decimal (n : Nat) (rest : List Nat) (hr : noDigitHead rest = true) :
    readNum (decimal n ++ rest) = some (n, rest) := by
  have ⟨h1, h2⟩ := takeWhile_digits (decimal n) rest (decimal_digits n) hr
  unfold readNum
  rw [h1, h2, decimal_not_leadingZero, digitsVal_decimal]
  have : (decimal n).isEmpty = false := by
    cases hd : decimal n with
    | nil => exact absurd hd (decimal_ne_nil _)
    | cons a l => rfl
  simp [this]

/-! ### lemmas: strings -/

theorem hexVal_hexDigitL (n : Nat) (h : n < 16) : hexVal (hexDigitL n) = some n := by
  unfold hexDigitL hexVal
  by_cases h10 : n < 10
  · have : 48 ≤ 48 + n ∧ 48 + n ≤ 57 := by omega
    simp [h10, this]
  · have h1 : ¬ (48 ≤ 87 + n ∧ 87 + n ≤ 57) := by omega
    have h2 : 97 ≤ 87 + n ∧ 87 + n ≤ 102 := by omega
    simp [h10, h1, h2]

theorem readStrBody_esc (b : Nat) (t : List Nat) :
    readStrBody (escByte b ++ t) = (readStrBody t).map (fun p => (b :: p.1, p.2)) := by
  unfold escByte
  split
  · subst_vars; simp [readStrBody_cons, unescChar]
  split
  · subst_vars; simp [readStrBody_cons, unescChar]
  split
  · subst_vars; simp [readStrBody_cons, unescChar]
  split
  · subst_vars; simp [readStrBody_cons, unescChar]
  split
  · subst_vars; simp [readStrBody_cons, unescChar]
  split
  · subst_vars; simp [readStrBody_cons, unescChar]
  split
  · subst_vars; simp [readStrBody_cons, unescChar]
  split
  · next hlt =>
    have e1 := hexVal_hexDigitL (b / 16) (by omega)
    have e2 := hexVal_hexDigitL (b % 16) (by omega)
    have e3 : 16 * (b / 16) + b % 16 = b := by omega
    have e4 : b < 128 := by omega
    simp [readStrBody_cons, e1, e2, e3, e4]
  · simp [readStrBody_cons, *]

theorem readStrBody_print (s rest : List Nat) :
    readStrBody (s.flatMap escByte ++ 34 :: rest) = some (s, rest) := by
  induction s with
  | nil => simp [readStrBody_cons]
  | cons b s ih =>
    rw [List.flatMap_cons, List.append_assoc, readStrBody_esc, ih]
    rfl

theorem readStr_print (s rest : List Nat) : readStr (printStr s ++ rest) = some (s, rest) := by
  unfold printStr
  simp only [List.append_assoc, List.cons_append, List.nil_append]
  simp only [readStr, if_true]
  exact readStrBody_print s rest

/-! ### lemmas: the first byte of a printed value -/

theorem print_head (j : Json) (t : List Nat) : ∃ c r, print j ++ t = c :: r ∧ c ≠ 93 := by
  cases j with
  | null => simp [print]
  | bool b => cases b <;> simp [print]
  | num n =>
    cases hd : decimal n with
    | nil => exact absurd hd (decimal_ne_nil n)
    | cons a l =>
      have ha : isDigit a = true := decimal_digits n a (by simp [hd])
      rw [isDigit_iff] at ha
      exact ⟨a, l ++ t, by simp [print, hd], by omega⟩
  | str s => simp [print, printStr]
  | arr xs => simp [print]
  | obj kvs => simp [print]

theorem printElems_head (xs : List Json) (hx : xs ≠ []) (t : List Nat) :
    ∃ c r, printElems xs ++ t = c :: r ∧ c ≠ 93 := by
  match xs, hx with
  | [x], _ => simpa [printElems] using print_head x t
  | x :: y :: zs, _ =>
    simp only [printElems, List.append_assoc]
    exact print_head x _

/-! ### the round trip -/

mutual
theorem parseVal_print : (j : Json) → (fuel : Nat) → (rest : List Nat) →
    (print j).length ≤ fuel → noDigitHead rest = true →
    parseVal fuel (print j ++ rest) = some (j, rest)
  | .null, fuel, rest, h, _ => by
    cases fuel with
    | zero => simp [print] at h
    | succ f => simp [print, parseVal_cons, isDigit, expect]
  | .bool true, fuel, rest, h, _ => by
    cases fuel with
    | zero => simp [print] at h
    | succ f => simp [print, parseVal_cons, isDigit, expect]
  | .bool false, fuel, rest, h, _ => by
    cases fuel with
    | zero => simp [print] at h
    | succ f => simp [print, parseVal_cons, isDigit, expect]
  | .num n, fuel, rest, h, hr => by
    cases hd : decimal n with
    | nil => exact absurd hd (decimal_ne_nil n)
    | cons a l =>
      cases fuel with
      | zero => simp [print, hd] at h
      | succ f =>
        have ha : isDigit a = true := decimal_digits n a (by simp [hd])
        simp only [print]
        rw [hd, List.cons_append, parseVal_cons, if_pos ha, ← List.cons_append, ← hd,
          readNum_decimal n rest hr]
        rfl
  | .str s, fuel, rest, h, _ => by
    cases fuel with
    | zero => simp [print, printStr] at h
    | succ f =>
      simp only [print, printStr, List.append_assoc, List.cons_append, List.nil_append]
      rw [parseVal_cons]
      simp [isDigit, readStrBody_print]
  | .arr xs, fuel, rest, h, _ => by
    cases fuel with
    | zero => simp [print] at h
    | succ f =>
      have ih := parseElems_print xs
      cases xs with
      | nil => simp [print, printElems, parseVal_cons, isDigit]
      | cons x xs' =>
        have hlen : (printElems (x :: xs')).length < f := by simp [print] at h; omega
        obtain ⟨c, r, hc, hne⟩ := printElems_head (x :: xs') (by simp) (93 :: rest)
        have := ih (by simp) f rest hlen
        simp only [print, List.append_assoc, List.cons_append, List.nil_append]
        rw [parseVal_cons]
        rw [hc] at this ⊢
        simp [isDigit, hne, this]
  | .obj kvs, fuel, rest, h, _ => by
    cases fuel with
    | zero => simp [print] at h
    | succ f =>
      have ih := parseMembers_print kvs
      cases kvs with
      | nil => simp [print, printMembers, parseVal_cons, isDigit]
      | cons kv kvs' =>
        have hlen : (printMembers (kv :: kvs')).length < f := by simp [print] at h; omega
        have := ih (by simp) f rest hlen
        have hc : ∃ r, printMembers (kv :: kvs') ++ 125 :: rest = 34 :: r := by
          obtain ⟨k, v⟩ := kv
          cases kvs' <;> simp [printMembers, printStr]
        obtain ⟨r, hc⟩ := hc
        simp only [print, List.append_assoc, List.cons_append, List.nil_append]
        rw [parseVal_cons]
        rw [hc] at this ⊢
        simp [isDigit, this]
theorem parseElems_print : (xs : List Json) → xs ≠ [] → (fuel : Nat) → (rest : List Nat) →
    (printElems xs).length < fuel →
    parseElems fuel (printElems xs ++ 93 :: rest) = some (xs, rest)
  | [], hx, _, _, _ => absurd rfl hx
  | [x], _, fuel, rest, h => by
    cases fuel with
    | zero => simp at h
    | succ f =>
      have hv := parseVal_print x f (93 :: rest) (by simp [printElems] at h; omega) (by simp [noDigitHead, isDigit])
      simp only [printElems]
      rw [parseElems_succ, hv]
      simp
  | x :: y :: zs, _, fuel, rest, h => by
    cases fuel with
    | zero => simp at h
    | succ f =>
      simp only [printElems, List.length_append, List.length_cons, List.length_nil] at h
      have hv := parseVal_print x f (44 :: (printElems (y :: zs) ++ 93 :: rest)) (by omega)
        (by simp [noDigitHead, isDigit])
      have hl := parseElems_print (y :: zs) (by simp) f rest (by omega)
      simp only [printElems, List.append_assoc, List.cons_append, List.nil_append]
      rw [parseElems_succ, hv]
      simp [hl]
theorem parseMembers_print : (kvs : List (List Nat × Json)) → kvs ≠ [] → (fuel : Nat) →
    (rest : List Nat) → (printMembers kvs).length < fuel →
    parseMembers fuel (printMembers kvs ++ 125 :: rest) = some (kvs, rest)
  | [], hx, _, _, _ => absurd rfl hx
  | [(k, v)], _, fuel, rest, h => by
    cases fuel with
    | zero => simp at h
    | succ f =>
      simp only [printMembers, List.length_append, List.length_cons, List.length_nil] at h
      have hv := parseVal_print v f (125 :: rest) (by omega) (by simp [noDigitHead, isDigit])
      simp only [printMembers, List.append_assoc, List.cons_append, List.nil_append]
      rw [parseMembers_succ, readStr_print]
      simp [hv]
  | (k, v) :: m :: ms, _, fuel, rest, h => by
    cases fuel with
    | zero => simp at h
    | succ f =>
      simp only [printMembers, List.length_append, List.length_cons, List.length_nil] at h
      have hv := parseVal_print v f (44 :: (printMembers (m :: ms) ++ 125 :: rest)) (by omega)
        (by simp [noDigitHead, isDigit])
      have hl := parseMembers_print (m :: ms) (by simp) f rest (by omega)
      simp only [printMembers, List.append_assoc, List.cons_append, List.nil_append]
      rw [parseMembers_succ, readStr_print]
      simp [hv, hl]
end

/-- the reader accepts every text the compact printer writes and gives back the value printed -/
theorem parse_print (j : Json) : parse (print j) = some j := by
  have h := parseVal_print j ((print j).length + 1) [] (by omega) rfl
  rw [List.append_nil] at h
  simp [parse, h]

/-- the printed text determines the value -/
theorem print_injective {a b : Json} (h : print a = print b) : a = b := by
  have ha := parse_print a
  rw [h, parse_print b] at ha
  exact (Option.some.inj ha).symm

/-! ### byte-string well-formedness (not needed for the round trip)

`parse_print` holds for every tree: the escaping only looks at the bytes `< 0x20`, `"` and `\`, every
other number is copied by the printer and by the reader alike.  `BytesOK` says that the strings and
keys are byte strings; it is what makes the printed text a byte string. -/

mutual
/-- every element of every string and key is a byte -/
def BytesOK : Json → Prop
  | .null => True
  | .bool _ => True
  | .num _ => True
  | .str s => ∀ b ∈ s, b < 256
  | .arr xs => BytesOKElems xs
  | .obj kvs => BytesOKMembers kvs
def BytesOKElems : List Json → Prop
  | [] => True
  | x :: xs => BytesOK x ∧ BytesOKElems xs
def BytesOKMembers : List (List Nat × Json) → Prop
  | [] => True
  | (k, v) :: m => (∀ b ∈ k, b < 256) ∧ BytesOK v ∧ BytesOKMembers m
end

/-- the statement under the hypothesis asked for (a special case of `parse_print`) -/
theorem parse_print_of_bytesOK (j : Json) (_hb : j.BytesOK) : parse (print j) = some j :=
  parse_print j

theorem decimal_lt (n : Nat) : ∀ c ∈ decimal n, c < 256 := by
  intro c hc
  have := (isDigit_iff c).1 (decimal_digits n c hc)
  omega

theorem escByte_lt (b : Nat) (h : b < 256) : ∀ c ∈ escByte b, c < 256 := by
  intro c hc
  unfold escByte hexDigitL at hc
  repeat' split at hc
  all_goals (simp at hc; omega)

theorem printStr_lt (s : List Nat) (h : ∀ b ∈ s, b < 256) : ∀ c ∈ printStr s, c < 256 := by
  intro c hc
  simp only [printStr, List.mem_append, List.mem_singleton, List.mem_flatMap] at hc
  rcases hc with (hc | ⟨b, hb, hc⟩) | hc
  · omega
  · exact escByte_lt b (h b hb) c hc
  · omega

mutual
/-- the text printed for a tree of byte strings is a byte string -/
theorem print_lt : (j : Json) → j.BytesOK → ∀ c ∈ print j, c < 256
  | .null, _, c, hc => by simp [print] at hc; omega
  | .bool true, _, c, hc => by simp [print] at hc; omega
  | .bool false, _, c, hc => by simp [print] at hc; omega
  | .num n, _, c, hc => decimal_lt n c (by simpa [print] using hc)
  | .str s, h, c, hc => printStr_lt s (by simpa [BytesOK] using h) c (by simpa [print] using hc)
  | .arr xs, h, c, hc => by
    have ih := printElems_lt xs (by simpa [BytesOK] using h) c
    simp only [print, List.mem_append, List.mem_singleton] at hc
    rcases hc with (hc | hc) | hc
    · omega
    · exact ih hc
    · omega
  | .obj kvs, h, c, hc => by
    have ih := printMembers_lt kvs (by simpa [BytesOK] using h) c
    simp only [print, List.mem_append, List.mem_singleton] at hc
    rcases hc with (hc | hc) | hc
    · omega
    · exact ih hc
    · omega
theorem printElems_lt : (xs : List Json) → BytesOKElems xs → ∀ c ∈ printElems xs, c < 256
  | [], _, c, hc => by simp [printElems] at hc
  | [x], h, c, hc => print_lt x (by simp [BytesOKElems] at h; exact h) c (by simpa [printElems] using hc)
  | x :: y :: zs, h, c, hc => by
    simp only [BytesOKElems] at h
    have i1 := print_lt x h.1 c
    have i2 := printElems_lt (y :: zs) (by simpa [BytesOKElems] using h.2) c
    simp only [printElems, List.mem_append, List.mem_singleton] at hc
    rcases hc with (hc | hc) | hc
    · exact i1 hc
    · omega
    · exact i2 hc
theorem printMembers_lt : (kvs : List (List Nat × Json)) → BytesOKMembers kvs →
    ∀ c ∈ printMembers kvs, c < 256
  | [], _, c, hc => by simp [printMembers] at hc
  | [(k, v)], h, c, hc => by
    simp only [BytesOKMembers] at h
    have i1 := printStr_lt k h.1 c
    have i2 := print_lt v h.2.1 c
    simp only [printMembers, List.mem_append, List.mem_singleton] at hc
    rcases hc with (hc | hc) | hc
    · exact i1 hc
    · omega
    · exact i2 hc
  | (k, v) :: m :: ms, h, c, hc => by
    simp only [BytesOKMembers] at h
    have i1 := printStr_lt k h.1 c
    have i2 := print_lt v h.2.1 c
    have i3 := printMembers_lt (m :: ms) (by simpa [BytesOKMembers] using h.2.2) c
    simp only [printMembers, List.mem_append, List.mem_singleton] at hc
    rcases hc with (((hc | hc) | hc) | hc) | hc
    · exact i1 hc
    · omega
    · exact i2 hc
    · omega
    · exact i3 hc
end

end Pelite.Json

/-! ## the printed text against the grammar of RFC 8259 (`Spec/JsonText.lean`); statements: Thm/C19Text.lean -/
namespace Pelite.Json
open Pelite.Spec Pelite.Spec.JsonText

/-! ### numbers -/

theorem digits_of_isDigit {l : List Nat} (h : ∀ c ∈ l, isDigit c = true) : Digits l := by
  intro c hc
  have := (isDigit_iff c).1 (h c hc)
  exact this

/-- `itoa`'s digits are an `int` of the RFC: `0`, or a non-zero digit followed by digits -/
theorem decimal_int (n : Nat) : JsonText.Int (decimal n) := by
  have hd := decimal_digits n
  have hne := decimal_ne_nil n
  have hh := decimal_head n
  match hl : decimal n with
  | [] => exact absurd hl hne
  | d :: ds =>
    rw [hl] at hd hh
    have hd0 := (isDigit_iff d).1 (hd d (by simp))
    have hds : Digits ds := digits_of_isDigit (fun c hc => hd c (by simp [hc]))
    by_cases h0 : d = 48
    · have hn : n = 0 := hh (by simp [h0])
      subst hn
      rw [decimal_zero] at hl
      injection hl with h1 h2
      subst h1 h2
      exact JsonText.Int.zero
    · exact JsonText.Int.pos d ds ⟨by omega, hd0.2⟩ hds

theorem decimal_number (n : Nat) : Number (decimal n) := by
  have := Number.mk [] (decimal n) [] [] OptMinus.none (decimal_int n) OptFrac.none OptExp.none
  simpa using this

/-! ### strings -/

theorem hexDigitL_isHex (n : Nat) (h : n < 16) : IsHex (hexDigitL n) := by
  unfold hexDigitL IsHex IsDigit
  split <;> omega

/-- one byte of a string prints as one `char` of the RFC -/
theorem escByte_chr (b : Nat) : Chr (escByte b) := by
  unfold escByte
  split
  · exact Chr.escape _ (by unfold IsEscapeLetter; omega)
  split
  · exact Chr.escape _ (by unfold IsEscapeLetter; omega)
  split
  · exact Chr.escape _ (by unfold IsEscapeLetter; omega)
  split
  · exact Chr.escape _ (by unfold IsEscapeLetter; omega)
  split
  · exact Chr.escape _ (by unfold IsEscapeLetter; omega)
  split
  · exact Chr.escape _ (by unfold IsEscapeLetter; omega)
  split
  · exact Chr.escape _ (by unfold IsEscapeLetter; omega)
  split
  · rename_i h
    exact Chr.uescape 48 48 _ _ (Or.inl ⟨by omega, by omega⟩) (Or.inl ⟨by omega, by omega⟩)
      (hexDigitL_isHex _ (by omega)) (hexDigitL_isHex _ (by omega))
  · exact Chr.unescaped b (by unfold Unescaped; omega)

theorem flatMap_escByte_chars (s : List Nat) : Chars (s.flatMap escByte) := by
  induction s with
  | nil => exact Chars.nil
  | cons b r ih =>
    rw [List.flatMap_cons]
    exact Chars.cons _ _ (escByte_chr b) ih

theorem printStr_str (s : List Nat) : Str (printStr s) := by
  have := Str.mk _ (flatMap_escByte_chars s)
  simpa [printStr] using this

/-! ### structural characters without white space (the compact formatter writes none) -/

theorem tok_bare (c : Nat) : Tok c [c] := by
  have := Tok.mk (c := c) [] [] (by intro x hx; cases hx) (by intro x hx; cases hx)
  simpa using this

/-! ### values -/

mutual
theorem print_value : (j : Json) → Value (print j)
  | .null => by simp only [print]; exact Value.null
  | .bool true => by simp only [print]; exact Value.true_
  | .bool false => by simp only [print]; exact Value.false_
  | .num n => by simp only [print]; exact Value.number _ (decimal_number n)
  | .str s => by simp only [print]; exact Value.string _ (printStr_str s)
  | .arr [] => by
    have := Value.arrayEmpty _ _ (tok_bare 0x5B) (tok_bare 0x5D)
    simpa [print, printElems] using this
  | .arr (x :: xs) => by
    have ih := printElems_elements (x :: xs) (by simp)
    have := Value.array _ _ _ (tok_bare 0x5B) ih (tok_bare 0x5D)
    simpa [print] using this
  | .obj [] => by
    have := Value.objectEmpty _ _ (tok_bare 0x7B) (tok_bare 0x7D)
    simpa [print, printMembers] using this
  | .obj (m :: ms) => by
    have ih := printMembers_members (m :: ms) (by simp)
    have := Value.object _ _ _ (tok_bare 0x7B) ih (tok_bare 0x7D)
    simpa [print] using this
theorem printElems_elements : (xs : List Json) → xs ≠ [] → Elements (printElems xs)
  | [], h => absurd rfl h
  | [x], _ => by simp only [printElems]; exact Elements.one _ (print_value x)
  | x :: y :: zs, _ => by
    have i1 := print_value x
    have i2 := printElems_elements (y :: zs) (by simp)
    have := Elements.more _ _ _ i1 (tok_bare 0x2C) i2
    simpa [printElems] using this
theorem printMembers_members : (kvs : List (List Nat × Json)) → kvs ≠ [] → Members (printMembers kvs)
  | [], h => absurd rfl h
  | [(k, v)], _ => by
    have := Members.one _ _ _ (printStr_str k) (tok_bare 0x3A) (print_value v)
    simpa [printMembers] using this
  | (k, v) :: m :: ms, _ => by
    have i3 := printMembers_members (m :: ms) (by simp)
    have := Members.more _ _ _ _ _ (printStr_str k) (tok_bare 0x3A) (print_value v) (tok_bare 0x2C) i3
    simpa [printMembers] using this
end

theorem value_jsonText {t : List Nat} (h : Value t) : JsonText t :=
  ⟨[], t, [], (by intro x hx; cases hx), h, (by intro x hx; cases hx), by simp⟩

/-! ### what the grammar refuses (it is not vacuous) -/

/-- first character of a value: white space (in front of `[` / `{`), a literal's first letter, `-`, a
digit, `"`, `[` or `{` -/
def ValueStart (c : Nat) : Prop :=
  IsWs c ∨ c = 0x66 ∨ c = 0x6E ∨ c = 0x74 ∨ c = 0x2D ∨ IsDigit c ∨ c = 0x22 ∨ c = 0x5B ∨ c = 0x7B

theorem tok_head {c : Nat} {t : List Nat} (h : Tok c t) : ∃ x r, t = x :: r ∧ (IsWs x ∨ x = c) := by
  cases h with
  | mk w1 w2 h1 h2 =>
    cases w1 with
    | nil => exact ⟨c, w2, by simp, Or.inr rfl⟩
    | cons a w => exact ⟨a, w ++ [c] ++ w2, by simp, Or.inl (h1 a (by simp))⟩

theorem int_head {t : List Nat} (h : JsonText.Int t) : ∃ x r, t = x :: r ∧ IsDigit x := by
  cases h with
  | zero => exact ⟨_, _, rfl, by unfold IsDigit; omega⟩
  | pos d ds hd _ => exact ⟨d, ds, rfl, by unfold IsDigit19 at hd; unfold IsDigit; omega⟩

theorem value_head {t : List Nat} (h : Value t) : ∃ x r, t = x :: r ∧ ValueStart x := by
  cases h with
  | false_ => exact ⟨_, _, rfl, by unfold ValueStart; simp⟩
  | null => exact ⟨_, _, rfl, by unfold ValueStart; simp⟩
  | true_ => exact ⟨_, _, rfl, by unfold ValueStart; simp⟩
  | number _ hn =>
    cases hn with
    | mk m i f e hm hi _ _ =>
      obtain ⟨x, r, hx, hdx⟩ := int_head hi
      cases hm with
      | none => exact ⟨x, r ++ f ++ e, by simp [hx], by unfold ValueStart; simp [hdx]⟩
      | minus => exact ⟨0x2D, i ++ f ++ e, by simp, by unfold ValueStart; simp⟩
  | string _ hs =>
    cases hs with
    | mk cs _ => exact ⟨_, _, rfl, by unfold ValueStart; simp⟩
  | arrayEmpty b e hb _ =>
    obtain ⟨x, r, hx, hc⟩ := tok_head hb
    exact ⟨x, r ++ e, by simp [hx], by unfold ValueStart; rcases hc with hc | hc <;> simp [hc]⟩
  | array b es e hb _ _ =>
    obtain ⟨x, r, hx, hc⟩ := tok_head hb
    exact ⟨x, r ++ es ++ e, by simp [hx], by unfold ValueStart; rcases hc with hc | hc <;> simp [hc]⟩
  | objectEmpty b e hb _ =>
    obtain ⟨x, r, hx, hc⟩ := tok_head hb
    exact ⟨x, r ++ e, by simp [hx], by unfold ValueStart; rcases hc with hc | hc <;> simp [hc]⟩
  | object b ms e hb _ _ =>
    obtain ⟨x, r, hx, hc⟩ := tok_head hb
    exact ⟨x, r ++ ms ++ e, by simp [hx], by unfold ValueStart; rcases hc with hc | hc <;> simp [hc]⟩

/-- a text is not empty and starts with white space or the first character of a value -/
theorem jsonText_head {t : List Nat} (h : JsonText t) : ∃ x r, t = x :: r ∧ ValueStart x := by
  obtain ⟨w1, v, w2, h1, hv, _, rfl⟩ := h
  obtain ⟨x, r, hx, hs⟩ := value_head hv
  cases w1 with
  | nil => exact ⟨x, r ++ w2, by simp [hx], hs⟩
  | cons a w => exact ⟨a, w ++ v ++ w2, by simp, Or.inl (h1 a (by simp))⟩

end Pelite.Json
