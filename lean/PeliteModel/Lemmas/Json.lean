import PeliteModel.Model.Json
import PeliteModel.Thm.C05
import PeliteModel.Thm.C07
/-! Helper lemmas for C19. -/
namespace Pelite.Pe

/-- the agnostic constructor's error is the PE32+ parser's, or (on `PeMagic`) the PE32 parser's -/
theorem wrap_err_imp (k : Kind) (img : Img) (e : Err) (h : wrapFromBytes k img = .err e) :
    fromBytes .pe64 k img = .err e ∨ (fromBytes .pe64 k img = .err .peMagic ∧ fromBytes .pe32 k img = .err e) := by
  unfold wrapFromBytes at h
  split at h
  · cases h
  · rename_i h64
    exact .inr ⟨h64, h⟩
  · exact .inl h

/-- the directory entry as a total function of the index -/
def View.ddEntry (v : View) (i : Nat) : Nat × Nat :=
  (le32 v.b (ntEnd v.fmt v.b + 8 * i), le32 v.b (ntEnd v.fmt v.b + 8 * i + 4))

theorem dataDir_of_lt (v : View) {i : Nat} (h : i < numDataDirs v.fmt v.b) : v.dataDir i = some (v.ddEntry i) := by
  unfold View.dataDir View.ddEntry
  rw [if_pos h]

/-- the serialized data-directory list is the table, entry by entry -/
theorem dataDirs_eq_map (v : View) :
    (List.range (numDataDirs v.fmt v.b)).filterMap v.dataDir = (List.range (numDataDirs v.fmt v.b)).map v.ddEntry := by
  have key : ∀ l : List Nat, (∀ i ∈ l, i < numDataDirs v.fmt v.b) → l.filterMap v.dataDir = l.map v.ddEntry := by
    intro l
    induction l with
    | nil => intro _; rfl
    | cons a t ih =>
      intro hl
      rw [List.filterMap_cons, dataDir_of_lt v (hl a (by simp)), List.map_cons,
        ih (fun i hi => hl i (List.mem_cons_of_mem _ hi))]
  exact key _ (fun i hi => List.mem_range.1 hi)

theorem ddSection_eq_findIdx (secs : List Sec) (va : Nat) :
    ddSection secs va = secs.findIdx? (fun s => decide (s.va ≤ va ∧ va - s.va < s.vs)) := by
  induction secs with
  | nil => rfl
  | cons s rest ih =>
    simp only [ddSection, List.findIdx?_cons, ge_iff_le, ih]
    split <;> simp_all

/-- `View.baseRelocsRef` succeeds exactly through a successful `slice` of the directory -/
theorem baseRelocsRef_ok {v : View} {r : Ref} (h : v.baseRelocsRef = .ok r) :
    ∃ va size s, v.dataDir 5 = some (va, size) ∧ v.slice va size 4 = .ok s ∧ r = ⟨s.off, size, 4⟩ := by
  unfold View.baseRelocsRef at h
  split at h
  · cases h
  · rename_i va size hdd
    split at h <;> first | cases h | skip
    rename_i s hs
    exact ⟨va, size, s, hdd, hs, rfl⟩

end Pelite.Pe
