import PeliteModel.Model.JsonDirs
import PeliteModel.Lemmas.Json
import PeliteModel.Lemmas.RelocsFold
import PeliteModel.Lemmas.Exports
import PeliteModel.Lemmas.Imports
import PeliteModel.Lemmas.Dirs
import PeliteModel.Lemmas.Rich
import PeliteModel.Lemmas.Resources
import PeliteModel.Lemmas.ResView
/-!
Helper lemmas for the serializer half of C19 (`Thm/C19Json.lean`), part 1: what each field of
`View.serializePe` IS whenever the serialization returns (no hypothesis on the image).
-/
namespace Pelite

/-! ### `Out` plumbing -/

theorem Out.bind_eq_ok {α β} {x : Out α} {f : α → Out β} {b : β} (h : (x >>= f) = .ok b) :
    ∃ a, x = .ok a ∧ f a = .ok b := by
  cases x with
  | ok a => exact ⟨a, rfl, h⟩
  | err e => cases h
  | panic s => cases h
  | ub s => cases h
  | diverge => cases h

theorem Out.okOpt_eq_ok {α} {x : Out α} {o : Option α} (h : x.okOpt = .ok o) : o = x.toOption := by
  cases x <;> first | (cases h; rfl) | cases h

theorem Out.okOpt_ok {α} (a : α) : (Out.ok a).okOpt = .ok (some a) := rfl
theorem Out.okOpt_err {α} (e : Err) : (Out.err e : Out α).okOpt = .ok none := rfl

/-- an accessor that answers a value or a library error: `.ok()` returns -/
theorem Out.okOpt_of_ok_or_err {α} {x : Out α} (h : (∃ a, x = .ok a) ∨ (∃ e, x = .err e)) :
    x.okOpt = .ok x.toOption := by
  rcases h with ⟨a, rfl⟩ | ⟨e, rfl⟩ <;> rfl

theorem Out.toOption_eq_some {α} {x : Out α} {a : α} : x.toOption = some a ↔ x = .ok a := by
  cases x <;> simp [Out.toOption]

theorem Out.toOption_eq_none_of_err {α} {x : Out α} {e : Err} (h : x = .err e) : x.toOption = none := by
  rw [h]; rfl

namespace Pe
open Pelite.Json

/-! ### `collect_seq` -/

theorem seqOut_ok {α β} {f : α → Out β} {g : α → β} :
    ∀ (l : List α) (r : List β), seqOut f l = .ok r → (∀ a ∈ l, ∀ b, f a = .ok b → b = g a) → r = l.map g := by
  intro l
  induction l with
  | nil => intro r h _; cases h; rfl
  | cons a t ih =>
    intro r h hg
    unfold seqOut at h
    obtain ⟨x, hx, h⟩ := Out.bind_eq_ok h
    obtain ⟨tl, htl, h⟩ := Out.bind_eq_ok h
    cases h
    rw [List.map_cons, hg a (by simp) x hx, ih tl htl (fun a' ha' => hg a' (List.mem_cons_of_mem _ ha'))]

theorem seqOut_total {α β} {f : α → Out β} :
    ∀ (l : List α), (∀ a ∈ l, ∃ b, f a = .ok b) → ∃ r, seqOut f l = .ok r := by
  intro l
  induction l with
  | nil => intro _; exact ⟨[], rfl⟩
  | cons a t ih =>
    intro h
    obtain ⟨b, hb⟩ := h a (by simp)
    obtain ⟨r, hr⟩ := ih (fun a' ha' => h a' (List.mem_cons_of_mem _ ha'))
    refine ⟨b :: r, ?_⟩
    unfold seqOut
    rw [hb, Out.bind_ok, hr, Out.bind_ok]

/-! ### exports -/

/-- one export name as the "names" map shows it: present when the name decodes and is UTF-8 -/
def nameEntry (y : Exports.By) (h : Nat) : Option (List Nat × Nat) :=
  (exportNameStr y.b (y.nameOfHint h).toOption).map fun s => (s, y.idxAt h)

/-- the value of `<By as Serialize>` in terms of the accessors -/
def bySpec (y : Exports.By) : ExportsJson :=
  { dllName := y.exp.dllName.toOption.map (cstrText y.b),
    timeDateStamp := le32 y.b (y.exp.off + 4),
    version := (le16 y.b (y.exp.off + 8), le16 y.b (y.exp.off + 10)),
    ordinalBase := y.exp.ordinalBase,
    functions := (List.range y.fns.cnt).map y.fnAt,
    names := (List.range (min y.names.cnt y.idx.cnt)).filterMap (nameEntry y) }

def exportsSpec (v : View) : Option ExportsJson :=
  (Exports.tryFrom v).toOption.bind fun e => e.by.toOption.map bySpec

/-- the items of the iterator as the filter sees them -/
def nameItem (y : Exports.By) (it : Out (Out Ref × Nat)) : Option (List Nat × Nat) :=
  match it with
  | .ok p => (exportNameStr y.b p.1.toOption).map fun s => (s, p.2)
  | _ => none

theorem exportNames_ok (y : Exports.By) :
    ∀ (items : List (Out (Out Ref × Nat))) (r : List (List Nat × Nat)),
      exportNames y items = .ok r → r = items.filterMap (nameItem y) := by
  intro items
  induction items with
  | nil => intro r h; cases h; rfl
  | cons it rest ih =>
    intro r h
    unfold exportNames at h
    obtain ⟨p, hp, h1⟩ := Out.bind_eq_ok h
    obtain ⟨name, hname, h2⟩ := Out.bind_eq_ok h1
    obtain ⟨tl, htl, h3⟩ := Out.bind_eq_ok h2
    have hn := Out.okOpt_eq_ok hname
    have htl' := ih tl htl
    rw [hp, List.filterMap_cons]
    simp only [nameItem]
    rw [← hn, ← htl']
    cases hs : exportNameStr y.b name with
    | none => rw [hs] at h3; cases h3; rfl
    | some s => rw [hs] at h3; cases h3; rfl

theorem exportNames_total (y : Exports.By) :
    ∀ (items : List (Out (Out Ref × Nat))),
      (∀ it ∈ items, ∃ n i, it = .ok (n, i) ∧ ((∃ a, n = .ok a) ∨ (∃ e, n = .err e))) →
      ∃ r, exportNames y items = .ok r := by
  intro items
  induction items with
  | nil => intro _; exact ⟨[], rfl⟩
  | cons it rest ih =>
    intro h
    obtain ⟨n, i, hit, hn⟩ := h it (by simp)
    obtain ⟨tl, htl⟩ := ih (fun it' hit' => h it' (List.mem_cons_of_mem _ hit'))
    subst hit
    unfold exportNames
    rw [Out.bind_ok]
    show ∃ r, (n.okOpt >>= fun name => exportNames y rest >>= fun tl =>
      match exportNameStr y.b name with
      | some s => Out.ok ((s, i) :: tl)
      | none => Out.ok tl) = Out.ok r
    rw [Out.okOpt_of_ok_or_err hn, Out.bind_ok, htl, Out.bind_ok]
    cases exportNameStr y.b n.toOption with
    | none => exact ⟨_, rfl⟩
    | some s => exact ⟨_, rfl⟩

theorem filterMap_congr' {α β} {f g : α → Option β} : ∀ (l : List α), (∀ a ∈ l, f a = g a) → l.filterMap f = l.filterMap g := by
  intro l
  induction l with
  | nil => intro _; rfl
  | cons a t ih =>
    intro h
    rw [List.filterMap_cons, List.filterMap_cons, h a (by simp), ih (fun a' ha' => h a' (List.mem_cons_of_mem _ ha'))]

theorem iterNameIndices_filterMap (y : Exports.By) :
    y.iterNameIndices.filterMap (nameItem y) = (List.range (min y.names.cnt y.idx.cnt)).filterMap (nameEntry y) := by
  unfold Exports.By.iterNameIndices
  rw [List.filterMap_map]
  apply filterMap_congr'
  intro h hh
  have hlt : h < y.idx.cnt := by
    have := List.mem_range.1 hh
    omega
  simp only [Function.comp, if_pos hlt]
  rfl

theorem serializeBy_ok {y : Exports.By} {j : ExportsJson} (h : serializeBy y = .ok j) : j = bySpec y := by
  unfold serializeBy at h
  obtain ⟨dll, hdll, h⟩ := Out.bind_eq_ok h
  obtain ⟨names, hnames, h⟩ := Out.bind_eq_ok h
  cases h
  rw [Out.okOpt_eq_ok hdll, exportNames_ok y _ _ hnames, iterNameIndices_filterMap]
  rfl

theorem exportsJson_ok {v : View} {o : Option ExportsJson} (h : v.exportsJson = .ok o) : o = exportsSpec v := by
  unfold View.exportsJson at h
  obtain ⟨oe, hoe, h⟩ := Out.bind_eq_ok h
  have hoe' := Out.okOpt_eq_ok hoe
  unfold exportsSpec
  rw [← hoe']
  cases oe with
  | none => cases h; rfl
  | some e =>
    unfold serializeExports at h
    obtain ⟨oy, hoy, h⟩ := Out.bind_eq_ok h
    have hoy' := Out.okOpt_eq_ok hoy
    show o = e.by.toOption.map bySpec
    rw [← hoy']
    cases oy with
    | none => cases h; rfl
    | some y =>
      obtain ⟨j, hj, h⟩ := Out.bind_eq_ok h
      cases h
      rw [serializeBy_ok hj]
      rfl

/-! ### imports -/

def descSpec (v : View) (d : Ref) : DescJson :=
  { dllName := (Imports.dllName v d).toOption.map (cstrText v.b),
    int := (Imports.int v d).toOption.map fun items => items.filterMap fun it => it.toOption.map (importJson v.b) }

def importsSpec (v : View) : Option (List DescJson) :=
  (Imports.tryFrom v).toOption.map fun image => (Imports.descs image).map (descSpec v)

theorem intItems_ok (b : Bytes) :
    ∀ (items : List (Out Imports.Import)) (r : List ImportJson), intItems b items = .ok r →
      r = items.filterMap fun it => it.toOption.map (importJson b) := by
  intro items
  induction items with
  | nil => intro r h; cases h; rfl
  | cons it rest ih =>
    intro r h
    unfold intItems at h
    obtain ⟨oi, hoi, h⟩ := Out.bind_eq_ok h
    obtain ⟨tl, htl, h⟩ := Out.bind_eq_ok h
    rw [List.filterMap_cons, ← Out.okOpt_eq_ok hoi, ← ih tl htl]
    cases oi with
    | none => cases h; rfl
    | some i => cases h; rfl

theorem intItems_total (b : Bytes) :
    ∀ (items : List (Out Imports.Import)), (∀ it ∈ items, (∃ a, it = .ok a) ∨ (∃ e, it = .err e)) →
      ∃ r, intItems b items = .ok r := by
  intro items
  induction items with
  | nil => intro _; exact ⟨[], rfl⟩
  | cons it rest ih =>
    intro h
    obtain ⟨tl, htl⟩ := ih (fun it' hit' => h it' (List.mem_cons_of_mem _ hit'))
    unfold intItems
    rw [Out.okOpt_of_ok_or_err (h it (by simp)), Out.bind_ok, htl, Out.bind_ok]
    cases it.toOption with
    | none => exact ⟨_, rfl⟩
    | some i => exact ⟨_, rfl⟩

theorem serializeDesc_ok {v : View} {d : Ref} {j : DescJson} (h : serializeDesc v d = .ok j) : j = descSpec v d := by
  unfold serializeDesc at h
  obtain ⟨dll, hdll, h⟩ := Out.bind_eq_ok h
  obtain ⟨oint, hoint, h⟩ := Out.bind_eq_ok h
  obtain ⟨int, hint, h⟩ := Out.bind_eq_ok h
  cases h
  unfold descSpec
  rw [← Out.okOpt_eq_ok hdll, ← Out.okOpt_eq_ok hoint]
  cases oint with
  | none => cases hint; rfl
  | some items =>
    obtain ⟨l, hl, hint⟩ := Out.bind_eq_ok hint
    cases hint
    rw [intItems_ok v.b items l hl]
    rfl

theorem importsJson_ok {v : View} {o : Option (List DescJson)} (h : v.importsJson = .ok o) : o = importsSpec v := by
  unfold View.importsJson at h
  obtain ⟨oi, hoi, h⟩ := Out.bind_eq_ok h
  unfold importsSpec
  rw [← Out.okOpt_eq_ok hoi]
  cases oi with
  | none => cases h; rfl
  | some image =>
    obtain ⟨l, hl, h⟩ := Out.bind_eq_ok h
    cases h
    rw [seqOut_ok _ _ hl (g := descSpec v) (fun d _ b hb => serializeDesc_ok hb)]
    rfl

/-! ### base relocations -/

def relocsSpec (v : View) : Option RelocsJson :=
  v.baseRelocsBytes.toOption.map fun data => ⟨(Relocs.flat data).map (·.1), (Relocs.flat data).map (·.2)⟩

theorem serializeRelocs_eq (data : Bytes) :
    serializeRelocs data = ⟨(Relocs.flat data).map (·.1), (Relocs.flat data).map (·.2)⟩ := by
  have hfe : ∀ {σ : Type} (g : Nat → Nat → σ → σ) (s : σ),
      Relocs.forEach g data s = (Relocs.flat data).foldl (fun s p => g p.1 p.2 s) s := by
    intro σ g s
    unfold Relocs.forEach
    rw [Relocs.fold_eq_flat, Relocs.foldl_snd]
  unfold serializeRelocs
  rw [hfe]
  have key : ∀ (l : List (Nat × Nat)) (acc : List Nat × List Nat),
      l.foldl (fun (s : List Nat × List Nat) p => (p.1 :: s.1, p.2 :: s.2)) acc =
        ((l.map (·.1)).reverse ++ acc.1, (l.map (·.2)).reverse ++ acc.2) := by
    intro l
    induction l with
    | nil => intro acc; rfl
    | cons p l ih => intro acc; rw [List.foldl_cons, ih]; simp
  rw [key]
  simp

theorem baseRelocsJson_ok {v : View} {o : Option RelocsJson} (h : v.baseRelocsJson = .ok o) : o = relocsSpec v := by
  unfold View.baseRelocsJson at h
  obtain ⟨od, hod, h⟩ := Out.bind_eq_ok h
  cases h
  unfold relocsSpec
  rw [← Out.okOpt_eq_ok hod]
  cases od with
  | none => rfl
  | some data => show some (serializeRelocs data) = _; rw [serializeRelocs_eq]; rfl

/-! ### rich structure -/

theorem richJson_ok {v : View} {o : Option RichJson} (h : v.richJson = .ok o) :
    ((Rich.ofImage v.img).toOption = none → o = none) ∧
    (∀ r, Rich.ofImage v.img = .ok r →
      ∃ k c it, r.xorKey = .ok k ∧ r.checksum = .ok c ∧ r.records = .ok it ∧ o = some ⟨k, c, it.collect⟩) := by
  unfold View.richJson at h
  obtain ⟨oo, hoo, h⟩ := Out.bind_eq_ok h
  have hoo' := Out.okOpt_eq_ok hoo
  refine ⟨fun hn => ?_, fun r hr => ?_⟩
  · rw [hn] at hoo'; subst hoo'; cases h; rfl
  · rw [hr] at hoo'
    subst hoo'
    obtain ⟨j, hj, h⟩ := Out.bind_eq_ok h
    cases h
    unfold serializeRich at hj
    obtain ⟨k, hk, hj⟩ := Out.bind_eq_ok hj
    obtain ⟨c, hc, hj⟩ := Out.bind_eq_ok hj
    obtain ⟨it, hit, hj⟩ := Out.bind_eq_ok hj
    cases hj
    exact ⟨k, c, it, hk, hc, hit, rfl⟩

/-! ### debug -/

def debugDirSpec (v : View) (d : Nat) : DebugDirJson :=
  { type := debugTypeName (Dirs.ddType v.b d), timeDateStamp := Dirs.ddTimeDateStamp v.b d,
    version := (Dirs.ddMajor v.b d, Dirs.ddMinor v.b d),
    entry := (Dirs.dirEntry v d).toOption.bind fun e => (entryJson v e).toOption }

def debugSpec (v : View) : Option (List DebugDirJson) :=
  (Dirs.debugTryFrom v).toOption.map fun t =>
    (List.range (Dirs.debugCount t)).map fun i => debugDirSpec v (Dirs.debugEntryOff t i)

theorem serializeDebugDir_ok {v : View} {d : Nat} {j : DebugDirJson} (h : serializeDebugDir v d = .ok j) :
    j = debugDirSpec v d := by
  unfold serializeDebugDir at h
  obtain ⟨oe, hoe, h⟩ := Out.bind_eq_ok h
  obtain ⟨entry, hentry, h⟩ := Out.bind_eq_ok h
  cases h
  unfold debugDirSpec
  rw [← Out.okOpt_eq_ok hoe]
  cases oe with
  | none => cases hentry; rfl
  | some e =>
    obtain ⟨x, hx, hentry⟩ := Out.bind_eq_ok hentry
    cases hentry
    show _ = ({ type := _, timeDateStamp := _, version := _, entry := (entryJson v e).toOption } : DebugDirJson)
    rw [hx]
    rfl

theorem debugJson_ok {v : View} {o : Option (List DebugDirJson)} (h : v.debugJson = .ok o) : o = debugSpec v := by
  unfold View.debugJson at h
  obtain ⟨ot, hot, h⟩ := Out.bind_eq_ok h
  unfold debugSpec
  rw [← Out.okOpt_eq_ok hot]
  cases ot with
  | none => cases h; rfl
  | some t =>
    obtain ⟨l, hl, h⟩ := Out.bind_eq_ok h
    cases h
    rw [seqOut_ok _ _ hl (g := fun i => debugDirSpec v (Dirs.debugEntryOff t i)) (fun i _ b hb => serializeDebugDir_ok hb)]
    rfl

/-! ### tls, load config -/

def tlsSpec (v : View) : Option TlsJson :=
  (Dirs.tlsTryFrom v).toOption.map fun t =>
    { rawData := (Dirs.tlsRawData v t).toOption.map (bytesOf v.b),
      callbacks := (Dirs.tlsCallbacks v t).toOption.map fun r => valsOf v.b r v.fmt.ptrSize }

theorem tlsJson_ok {v : View} {o : Option TlsJson} (h : v.tlsJson = .ok o) : o = tlsSpec v := by
  unfold View.tlsJson at h
  obtain ⟨ot, hot, h⟩ := Out.bind_eq_ok h
  unfold tlsSpec
  rw [← Out.okOpt_eq_ok hot]
  cases ot with
  | none => cases h; rfl
  | some t =>
    obtain ⟨j, hj, h⟩ := Out.bind_eq_ok h
    cases h
    unfold serializeTls at hj
    obtain ⟨raw, hraw, hj⟩ := Out.bind_eq_ok hj
    obtain ⟨cbs, hcbs, hj⟩ := Out.bind_eq_ok hj
    cases hj
    rw [Out.okOpt_eq_ok hraw, Out.okOpt_eq_ok hcbs]
    rfl

def loadConfigSpec (v : View) : Option LoadConfigJson :=
  (Dirs.lcTryFrom v).toOption.map fun t =>
    { securityCookie := (Dirs.lcSecurityCookie v t).toOption.map fun r => le32 v.b r.off,
      seHandlerTable := (Dirs.lcSeHandlerTable v t).toOption.map fun r => valsOf v.b r v.fmt.ptrSize }

theorem loadConfigJson_ok {v : View} {o : Option LoadConfigJson} (h : v.loadConfigJson = .ok o) :
    o = loadConfigSpec v := by
  unfold View.loadConfigJson at h
  obtain ⟨ot, hot, h⟩ := Out.bind_eq_ok h
  unfold loadConfigSpec
  rw [← Out.okOpt_eq_ok hot]
  cases ot with
  | none => cases h; rfl
  | some t =>
    obtain ⟨j, hj, h⟩ := Out.bind_eq_ok h
    cases h
    unfold serializeLoadConfig at hj
    obtain ⟨ck, hck, hj⟩ := Out.bind_eq_ok hj
    obtain ⟨tab, htab, hj⟩ := Out.bind_eq_ok hj
    cases hj
    rw [Out.okOpt_eq_ok hck, Out.okOpt_eq_ok htab]
    rfl

/-! ### security -/

theorem securityJson_ok {v : View} {o : Option SecurityJson} (h : v.securityJson = .ok o) :
    ((Dirs.securityTryFrom v).toOption = none → o = none) ∧
    (∀ s, Dirs.securityTryFrom v = .ok s →
      ∃ ty data, Dirs.secCertType v s = .ok ty ∧ Dirs.secCertData v s = .ok data ∧ o = some ⟨ty, bytesOf v.b data⟩) := by
  unfold View.securityJson at h
  obtain ⟨os, hos, h⟩ := Out.bind_eq_ok h
  have hos' := Out.okOpt_eq_ok hos
  refine ⟨fun hn => ?_, fun s hs => ?_⟩
  · rw [hn] at hos'; subst hos'; cases h; rfl
  · rw [hs] at hos'
    subst hos'
    obtain ⟨j, hj, h⟩ := Out.bind_eq_ok h
    cases h
    unfold serializeSecurity at hj
    obtain ⟨ty, hty, hj⟩ := Out.bind_eq_ok hj
    obtain ⟨data, hdata, hj⟩ := Out.bind_eq_ok hj
    cases hj
    exact ⟨ty, data, hty, hdata, rfl⟩

/-! ### resources -/

theorem resourcesJson_ok {v : View} {j : Json} (h : v.resourcesJson = .ok j) :
    ((Resources.ofView v).toOption = none → j = .null) ∧
    (∀ r o, Resources.ofView v = .ok (r, o) →
      ((Resources.root r).toOption = none → j = .null) ∧
      (∀ d, Resources.root r = .ok d →
        ∃ jb, serResDir r Resources.FSCK_MAX_DEPTH true d (Resources.fsckBudget r) = .ok jb ∧ j = jb.1)) := by
  unfold View.resourcesJson at h
  obtain ⟨oo, hoo, h⟩ := Out.bind_eq_ok h
  have hoo' := Out.okOpt_eq_ok hoo
  refine ⟨fun hn => ?_, fun r o hr => ?_⟩
  · rw [hn] at hoo'; subst hoo'; cases h; rfl
  · rw [hr] at hoo'
    subst hoo'
    unfold serializeResources at h
    obtain ⟨od, hod, h⟩ := Out.bind_eq_ok h
    have hod' := Out.okOpt_eq_ok hod
    refine ⟨fun hn => ?_, fun d hd => ?_⟩
    · rw [hn] at hod'; subst hod'; cases h; rfl
    · rw [hd] at hod'
      subst hod'
      obtain ⟨jb, hjb, h⟩ := Out.bind_eq_ok h
      cases h
      exact ⟨jb, hjb, rfl⟩

/-! ### the document: each field of a returned serialization is the field function's answer -/

theorem serializePe_ok {v : View} {j : PeJson} (h : v.serializePe = .ok j) :
    (j.headers = v.headerJson ∧ j.headersDoc = v.headersJson) ∧ v.richJson = .ok j.richStructure ∧ v.exportsJson = .ok j.exports ∧
    v.importsJson = .ok j.imports ∧ v.baseRelocsJson = .ok j.baseRelocs ∧ v.debugJson = .ok j.debug ∧
    v.tlsJson = .ok j.tls ∧ v.loadConfigJson = .ok j.loadConfig ∧ v.securityJson = .ok j.security ∧
    v.resourcesJson = .ok j.resources := by
  unfold View.serializePe at h
  obtain ⟨a1, h1, h⟩ := Out.bind_eq_ok h
  obtain ⟨a2, h2, h⟩ := Out.bind_eq_ok h
  obtain ⟨a3, h3, h⟩ := Out.bind_eq_ok h
  obtain ⟨a4, h4, h⟩ := Out.bind_eq_ok h
  obtain ⟨a5, h5, h⟩ := Out.bind_eq_ok h
  obtain ⟨a6, h6, h⟩ := Out.bind_eq_ok h
  obtain ⟨a7, h7, h⟩ := Out.bind_eq_ok h
  obtain ⟨a8, h8, h⟩ := Out.bind_eq_ok h
  obtain ⟨a9, h9, h⟩ := Out.bind_eq_ok h
  cases h
  exact ⟨⟨rfl, rfl⟩, h1, h2, h3, h4, h5, h6, h7, h8, h9⟩

theorem serializePe_of_fields {v : View} {a1 a2 a3 a4 a5 a6 a7 a8 a9}
    (h1 : v.richJson = .ok a1) (h2 : v.exportsJson = .ok a2) (h3 : v.importsJson = .ok a3)
    (h4 : v.baseRelocsJson = .ok a4) (h5 : v.debugJson = .ok a5) (h6 : v.tlsJson = .ok a6)
    (h7 : v.loadConfigJson = .ok a7) (h8 : v.securityJson = .ok a8) (h9 : v.resourcesJson = .ok a9) :
    ∃ j, v.serializePe = .ok j := by
  unfold View.serializePe
  rw [h1, Out.bind_ok, h2, Out.bind_ok, h3, Out.bind_ok, h4, Out.bind_ok, h5, Out.bind_ok, h6, Out.bind_ok,
    h7, Out.bind_ok, h8, Out.bind_ok, h9, Out.bind_ok]
  exact ⟨_, rfl⟩

/-! ## part 2: the serializer returns (no panic, no unchecked access, no hang) -/

/-! ### exports: every view -/

theorem serializeBy_total (y : Exports.By) : ∃ j, serializeBy y = .ok j := by
  unfold serializeBy
  rw [Out.okOpt_of_ok_or_err (Exports.dllName_okOrErr y.exp), Out.bind_ok]
  obtain ⟨names, hn⟩ := exportNames_total y y.iterNameIndices (by
    intro it hit
    obtain ⟨h, _, _, rfl⟩ := Exports.iterNameIndices_ok y it hit
    exact ⟨_, _, rfl, Exports.nameOfHint_okOrErr y h⟩)
  rw [hn, Out.bind_ok]
  exact ⟨_, rfl⟩

theorem exportsJson_total (v : View) : ∃ o, v.exportsJson = .ok o := by
  unfold View.exportsJson
  rw [Out.okOpt_of_ok_or_err (Exports.tryFrom_okOrErr v), Out.bind_ok]
  cases (Exports.tryFrom v).toOption with
  | none => exact ⟨_, rfl⟩
  | some e =>
    show ∃ o, serializeExports e = .ok o
    unfold serializeExports
    rw [Out.okOpt_of_ok_or_err (Exports.by_okOrErr e), Out.bind_ok]
    cases e.by.toOption with
    | none => exact ⟨_, rfl⟩
    | some y =>
      obtain ⟨j, hj⟩ := serializeBy_total y
      show ∃ o, (serializeBy y >>= fun j => Out.ok (some j)) = Out.ok o
      rw [hj]; exact ⟨_, rfl⟩

/-! ### imports: buffers below 4 GiB (the `rva + 2` of `import_from_va`) -/

theorem serializeDesc_total (v : View) (hsz : v.img.bytes.size < 4294967296) (d : Ref) :
    ∃ j, serializeDesc v d = .ok j := by
  have hdll : OkOrErr (Imports.dllName v d) := by
    unfold Imports.dllName; rw [Imports.cstr_eq_spec]; exact Imports.specCStr_okOrErr v _
  have hsl : OkOrErr (Imports.intSlice v d) := by
    unfold Imports.intSlice; rw [Imports.thunks_eq_spec]; exact Imports.specThunks_okOrErr v _
  have hint : OkOrErr (Imports.int v d) := by
    unfold Imports.int
    rcases hsl with ⟨s, hs⟩ | ⟨e, he⟩
    · rw [hs]; exact .inl ⟨_, rfl⟩
    · rw [he]; exact .inr ⟨_, rfl⟩
  unfold serializeDesc
  rw [Out.okOpt_of_ok_or_err hdll, Out.bind_ok, Out.okOpt_of_ok_or_err hint, Out.bind_ok]
  cases hitems : (Imports.int v d).toOption with
  | none => exact ⟨_, rfl⟩
  | some items =>
    have hi := Out.toOption_eq_some.1 hitems
    unfold Imports.int at hi
    obtain ⟨s, _, hi⟩ := Out.bind_eq_ok hi
    cases hi
    obtain ⟨l, hl⟩ := intItems_total v.b
      ((Imports.thunkRefs v.fmt s).map (fun t => Imports.importFromVa v (Imports.thunkVal v t))) (by
      intro it hit
      obtain ⟨t, _, rfl⟩ := List.mem_map.1 hit
      show OkOrErr (Imports.importFromVa v (Imports.thunkVal v t))
      rw [Imports.import_eq_spec v hsz]
      exact Imports.specImport_okOrErr v _)
    simp only
    rw [hl, Out.bind_ok, Out.bind_ok]
    exact ⟨_, rfl⟩

theorem importsJson_total (v : View) (hsz : v.img.bytes.size < 4294967296) : ∃ o, v.importsJson = .ok o := by
  have ht : OkOrErr (Imports.tryFrom v) := by rw [Imports.tryFrom_eq_spec]; exact Imports.specTryFrom_okOrErr v
  unfold View.importsJson
  rw [Out.okOpt_of_ok_or_err ht, Out.bind_ok]
  cases (Imports.tryFrom v).toOption with
  | none => exact ⟨_, rfl⟩
  | some image =>
    obtain ⟨l, hl⟩ := seqOut_total (f := serializeDesc v) (Imports.descs image) (fun d _ => serializeDesc_total v hsz d)
    simp only
    rw [hl, Out.bind_ok]
    exact ⟨_, rfl⟩

/-! ### base relocations: every view -/

theorem baseRelocsJson_total (v : View) : ∃ o, v.baseRelocsJson = .ok o := by
  have hr : OkOrErr v.baseRelocsRef := by
    unfold View.baseRelocsRef
    cases v.dataDir 5 with
    | none => exact .inr ⟨_, rfl⟩
    | some p =>
      obtain ⟨va, size⟩ := p
      rcases Exports.slice_okOrErr v va size 4 (by decide) with ⟨s, hs⟩ | ⟨e, he⟩
      · simp only; rw [hs]; exact .inl ⟨_, rfl⟩
      · simp only; rw [he]; exact .inr ⟨_, rfl⟩
  have hb : OkOrErr v.baseRelocsBytes := by
    unfold View.baseRelocsBytes
    rcases hr with ⟨s, hs⟩ | ⟨e, he⟩
    · rw [hs]; exact .inl ⟨_, rfl⟩
    · rw [he]; exact .inr ⟨_, rfl⟩
  unfold View.baseRelocsJson
  rw [Out.okOpt_of_ok_or_err hb, Out.bind_ok]
  exact ⟨_, rfl⟩

/-! ### rich structure: image at a dword-aligned address -/

theorem serializeRich_total (image : List Nat) (hw : ∀ w ∈ image, w < 4294967296) (r : Rich.RichS)
    (h : Rich.tryFrom image = .ok r) : ∃ j, serializeRich r = .ok j := by
  obtain ⟨h16, hle, s, e, k, rfl, hwf, _, _⟩ := Rich.tryFrom_sound image r h
  obtain ⟨hl1, hl2, _⟩ := Rich.parsed_shape _ s e k hwf
  obtain ⟨w1, w2, w3, _⟩ := hwf
  have h15 : image.getD 15 0 < 4294967296 := by
    rw [List.getD_eq_getElem?_getD]
    cases hg : image[15]? with
    | none => decide
    | some x => exact hw x (List.mem_of_getElem? hg)
  have hal : (Rich.Spec.areaOf image).length ≤ image.getD 15 0 / 4 := by
    unfold Rich.Spec.areaOf; rw [List.length_take]; omega
  generalize hA : Rich.Spec.areaOf image = area at *
  generalize hM : (area.take e).drop s = M at *
  generalize hD : area.take s = D at *
  have hx : Rich.RichS.xorKey ⟨D, M⟩ = .ok M[1] := Rich.idx_ok _ M 1 (by omega)
  have hrec : Rich.RichS.records ⟨D, M⟩ = .ok ⟨(M.take (M.length - 2)).drop 4, M[1]⟩ := by
    unfold Rich.RichS.records psub
    simp only
    rw [if_pos (by omega), Out.bind_ok, Rich.slice_ok _ _ _ _ ⟨by omega, by omega⟩, Out.bind_ok, hx, Out.bind_ok]
  have hc : ∃ c, Rich.RichS.checksum ⟨D, M⟩ = .ok c := by
    unfold Rich.RichS.checksum
    rw [hrec, Out.bind_ok]
    unfold Rich.checksumOf
    simp only
    rw [Rich.csumStub_eq D 0 _ (by decide) (by omega) (Nat.mod_lt _ (by decide)), Out.bind_ok]
    exact ⟨_, rfl⟩
  obtain ⟨c, hc⟩ := hc
  unfold serializeRich
  rw [hx, Out.bind_ok, hc, Out.bind_ok, hrec, Out.bind_ok]
  exact ⟨_, rfl⟩

theorem richJson_total (v : View) (hb : v.img.base % 4 = 0) : ∃ o, v.richJson = .ok o := by
  unfold View.richJson
  rw [Rich.ofImage_eq v.img hb]
  have ht : OkOrErr (Rich.tryFrom (Rich.words v.img.bytes)) := by
    rcases Rich.tryFrom_total (Rich.words v.img.bytes) with ⟨r, hr⟩ | hr | hr
    · exact .inl ⟨r, hr⟩
    · exact .inr ⟨_, hr⟩
    · exact .inr ⟨_, hr⟩
  rw [Out.okOpt_of_ok_or_err ht, Out.bind_ok]
  cases hr : (Rich.tryFrom (Rich.words v.img.bytes)).toOption with
  | none => exact ⟨_, rfl⟩
  | some r =>
    obtain ⟨j, hj⟩ := serializeRich_total _ (Rich.words_lt v.img.bytes) r (Out.toOption_eq_some.1 hr)
    simp only
    rw [hj, Out.bind_ok]
    exact ⟨_, rfl⟩

/-! ### debug, tls, load config: every view -/

theorem entryJson_total (v : View) (e : Dirs.Entry) : ∃ j, entryJson v e = .ok j := by
  cases e with
  | codeView cv => exact ⟨_, rfl⟩
  | dbg im => exact ⟨_, rfl⟩
  | pgo image =>
    obtain ⟨l, hl, _⟩ := Dirs.pgoItems_safe v.b image
    unfold entryJson
    simp only
    rw [hl, Out.bind_ok]
    exact ⟨_, rfl⟩
  | unknown data => exact ⟨_, rfl⟩

theorem serializeDebugDir_total (v : View) (d : Nat) : ∃ j, serializeDebugDir v d = .ok j := by
  unfold serializeDebugDir
  rw [Out.okOpt_of_ok_or_err (Dirs.dirEntry_safe v d).1, Out.bind_ok]
  cases (Dirs.dirEntry v d).toOption with
  | none => exact ⟨_, rfl⟩
  | some e =>
    obtain ⟨j, hj⟩ := entryJson_total v e
    simp only
    rw [hj, Out.bind_ok, Out.bind_ok]
    exact ⟨_, rfl⟩

theorem debugJson_total (v : View) : ∃ o, v.debugJson = .ok o := by
  have ht : OkOrErr (Dirs.debugTryFrom v) := by rw [Dirs.debugTryFrom_eq]; exact (Dirs.tableTryFrom_safe v 6 28).1
  unfold View.debugJson
  rw [Out.okOpt_of_ok_or_err ht, Out.bind_ok]
  cases (Dirs.debugTryFrom v).toOption with
  | none => exact ⟨_, rfl⟩
  | some t =>
    obtain ⟨l, hl⟩ := seqOut_total (f := fun i => serializeDebugDir v (Dirs.debugEntryOff t i))
      (List.range (Dirs.debugCount t)) (fun i _ => serializeDebugDir_total v _)
    simp only
    rw [hl, Out.bind_ok]
    exact ⟨_, rfl⟩

theorem tlsJson_total (v : View) : ∃ o, v.tlsJson = .ok o := by
  have ht : OkOrErr (Dirs.tlsTryFrom v) := by
    unfold Dirs.tlsTryFrom
    cases v.dataDir 9 with
    | none => exact .inr ⟨_, rfl⟩
    | some p => exact (Dirs.derva_safe v _ _ _ (Dirs.isPow2_tls v.fmt)).1
  unfold View.tlsJson
  rw [Out.okOpt_of_ok_or_err ht, Out.bind_ok]
  cases (Dirs.tlsTryFrom v).toOption with
  | none => exact ⟨_, rfl⟩
  | some t =>
  suffices hj : ∃ j, serializeTls v t = .ok j by
    obtain ⟨j, hj⟩ := hj
    simp only
    rw [hj, Out.bind_ok]
    exact ⟨_, rfl⟩
  have hps : 1 ≤ v.fmt.ptrSize := by cases v.fmt <;> decide
  have hraw : OkOrErr (Dirs.tlsRawData v t) := by
    unfold Dirs.tlsRawData
    split
    · exact .inr ⟨_, rfl⟩
    · exact (Dirs.dervaSlice_safe v _ 1 1 _ Dirs.isPow2_1).1
  have hcb : OkOrErr (Dirs.tlsCallbacks v t) := (Dirs.dervaSliceS_safe v _ _ _ 0 hps (Dirs.isPow2_ptr v.fmt)).1
  unfold serializeTls
  rw [Out.okOpt_of_ok_or_err hraw, Out.bind_ok, Out.okOpt_of_ok_or_err hcb, Out.bind_ok]
  exact ⟨_, rfl⟩

theorem loadConfigJson_total (v : View) : ∃ o, v.loadConfigJson = .ok o := by
  have ht : OkOrErr (Dirs.lcTryFrom v) := by
    unfold Dirs.lcTryFrom
    cases v.dataDir 10 with
    | none => exact .inr ⟨_, rfl⟩
    | some p => exact (Dirs.derva_safe v _ _ _ (Dirs.isPow2_lc v.fmt)).1
  unfold View.loadConfigJson
  rw [Out.okOpt_of_ok_or_err ht, Out.bind_ok]
  cases (Dirs.lcTryFrom v).toOption with
  | none => exact ⟨_, rfl⟩
  | some t =>
  suffices hj : ∃ j, serializeLoadConfig v t = .ok j by
    obtain ⟨j, hj⟩ := hj
    simp only
    rw [hj, Out.bind_ok]
    exact ⟨_, rfl⟩
  have hck : OkOrErr (Dirs.lcSecurityCookie v t) := (Dirs.derva_safe v _ 4 4 Dirs.isPow2_4).1
  have htab : OkOrErr (Dirs.lcSeHandlerTable v t) := (Dirs.dervaSlice_safe v _ _ _ _ (Dirs.isPow2_ptr v.fmt)).1
  unfold serializeLoadConfig
  rw [Out.okOpt_of_ok_or_err hck, Out.bind_ok, Out.okOpt_of_ok_or_err htab, Out.bind_ok]
  exact ⟨_, rfl⟩

/-! ### security: image at a dword-aligned address -/

theorem securityJson_total (v : View) (hb : v.img.base % 4 = 0) : ∃ o, v.securityJson = .ok o := by
  unfold View.securityJson
  rw [Out.okOpt_of_ok_or_err (Dirs.securityTryFrom_okOrErr v hb), Out.bind_ok]
  cases hs : (Dirs.securityTryFrom v).toOption with
  | none => exact ⟨_, rfl⟩
  | some s =>
  suffices hj : ∃ j, serializeSecurity v s = .ok j by
    obtain ⟨j, hj⟩ := hj
    simp only
    rw [hj, Out.bind_ok]
    exact ⟨_, rfl⟩
  obtain ⟨_, va, size, _, ⟨w1, w2, w3, w4, w5⟩, rfl⟩ :=
    (Dirs.securityTryFrom_ok_iff v hb s).1 (Out.toOption_eq_some.1 hs)
  have w5' : va + size ≤ v.img.bytes.size := w5
  have hal : (v.img.base + va) % 4 = 0 := by omega
  unfold serializeSecurity Dirs.secCertType Dirs.secImage Dirs.secCertData
  simp only
  rw [Dirs.rawRef_eq_ok (by omega) hal, Out.bind_ok, Out.bind_ok, if_neg (by omega),
    Dirs.rawRef_eq_ok (by omega) (Nat.mod_one _), Out.bind_ok]
  exact ⟨_, rfl⟩

/-! ### resources: every view (the depth / budget cut-off of commit 74c5571 makes the recursion structural) -/

theorem ok_or_err_of_safe {α} {x : Out α} (h : Resources.Safe x) : (∃ a, x = .ok a) ∨ (∃ e, x = .err e) := by
  cases x with
  | ok a => exact .inl ⟨a, rfl⟩
  | err e => exact .inr ⟨e, rfl⟩
  | panic s => exact h.elim
  | ub s => exact h.elim
  | diverge => exact h.elim

theorem serResEntries_total {r : Resources.Resources} (hb : Resources.Aligned r)
    (rec : Resources.Dir → Nat → Out (Json × Nat))
    (hrec : ∀ d b, Resources.DirOK r d → ∃ jb, rec d b = .ok jb) (named : Bool) :
    ∀ (es : List Resources.DirEntry) (b : Nat), ∃ lb, serResEntries rec r named es b = .ok lb := by
  intro es
  induction es with
  | nil => intro b; exact ⟨_, rfl⟩
  | cons e rest ih =>
    intro b
    unfold serResEntries
    rw [Out.okOpt_of_ok_or_err (ok_or_err_of_safe (Resources.safe_getName hb e)), Out.bind_ok]
    simp only
    rw [Out.okOpt_of_ok_or_err (ok_or_err_of_safe (Resources.safe_entry hb e)), Out.bind_ok]
    cases hen : (e.entry r).toOption with
    | none =>
      simp only [Out.bind_ok]
      obtain ⟨tl, htl⟩ := ih b
      rw [htl, Out.bind_ok]
      exact ⟨_, rfl⟩
    | some en =>
      cases en with
      | dir d =>
        obtain ⟨hd, _⟩ := Resources.entry_dir_ok hb (Out.toOption_eq_some.1 hen)
        obtain ⟨jb, hjb⟩ := hrec d b hd
        simp only
        rw [hjb, Out.bind_ok, Out.bind_ok]
        obtain ⟨tl, htl⟩ := ih jb.2
        rw [htl, Out.bind_ok]
        exact ⟨_, rfl⟩
      | data de =>
        simp only [Out.bind_ok]
        obtain ⟨tl, htl⟩ := ih b
        rw [htl, Out.bind_ok]
        exact ⟨_, rfl⟩

theorem serResDir_total {r : Resources.Resources} (hb : Resources.Aligned r) :
    ∀ (k : Nat) (named : Bool) (d : Resources.Dir) (b : Nat), Resources.DirOK r d →
      ∃ jb, serResDir r k named d b = .ok jb := by
  intro k
  induction k with
  | zero => intro named d b _; exact ⟨_, rfl⟩
  | succ k ih =>
    intro named d b hd
    unfold serResDir
    by_cases hz : b = 0
    · rw [if_pos hz]; exact ⟨_, rfl⟩
    · rw [if_neg hz, Resources.entries_eq hb hd, Out.bind_ok]
      obtain ⟨lb, hlb⟩ := serResEntries_total hb (serResDir r k false) (fun d b hd => ih false d b hd) named
        (Resources.entriesFrom r (d.off + 16) (d.named + d.ids)) (b - 1)
      rw [hlb, Out.bind_ok]
      exact ⟨_, rfl⟩

theorem resourcesJson_total (v : View) : ∃ j, v.resourcesJson = .ok j := by
  have ho : OkOrErr (Resources.ofView v) := by
    unfold Resources.ofView
    cases v.dataDir 2 with
    | none => exact .inr ⟨_, rfl⟩
    | some p =>
      obtain ⟨va, size⟩ := p
      rcases Exports.slice_okOrErr v va 0 4 (by decide) with ⟨s, hs⟩ | ⟨e, he⟩
      · simp only; rw [hs]; exact .inl ⟨_, rfl⟩
      · simp only; rw [he]; exact .inr ⟨_, rfl⟩
  unfold View.resourcesJson
  rw [Out.okOpt_of_ok_or_err ho, Out.bind_ok]
  cases hov : (Resources.ofView v).toOption with
  | none => exact ⟨_, rfl⟩
  | some rs =>
    obtain ⟨r, o⟩ := rs
    obtain ⟨hb, _⟩ := Resources.ofView_ok (Out.toOption_eq_some.1 hov)
    show ∃ j, serializeResources r = .ok j
    unfold serializeResources
    rw [Out.okOpt_of_ok_or_err (ok_or_err_of_safe (Resources.safe_root hb)), Out.bind_ok]
    cases hr : (Resources.root r).toOption with
    | none => exact ⟨_, rfl⟩
    | some d =>
      obtain ⟨jb, hjb⟩ := serResDir_total hb Resources.FSCK_MAX_DEPTH true d (Resources.fsckBudget r)
        (Resources.root_ok hb (Out.toOption_eq_some.1 hr))
      simp only
      rw [hjb, Out.bind_ok]
      exact ⟨_, rfl⟩

/-! ### the document -/

theorem serializePe_total (v : View) (hb : v.img.base % 4 = 0) (hsz : v.img.bytes.size < 4294967296) :
    ∃ j, v.serializePe = .ok j := by
  obtain ⟨_, h1⟩ := richJson_total v hb
  obtain ⟨_, h2⟩ := exportsJson_total v
  obtain ⟨_, h3⟩ := importsJson_total v hsz
  obtain ⟨_, h4⟩ := baseRelocsJson_total v
  obtain ⟨_, h5⟩ := debugJson_total v
  obtain ⟨_, h6⟩ := tlsJson_total v
  obtain ⟨_, h7⟩ := loadConfigJson_total v
  obtain ⟨_, h8⟩ := securityJson_total v hb
  obtain ⟨_, h9⟩ := resourcesJson_total v
  exact serializePe_of_fields h1 h2 h3 h4 h5 h6 h7 h8 h9

/-! ### the one `from_utf8_unchecked` of the serializer: `CodeView::format` -/

theorem rawRef_ok_eq {site : String} {img : Img} {off size align : Nat} {r : Ref}
    (h : rawRef site img off size align = .ok r) : r = ⟨off, size, align⟩ := by
  unfold rawRef at h
  split at h
  · cases h; rfl
  · cases h

/-- a decoded CodeView record starts with one of the two signatures -/
theorem codeView_sig {v : View} {d : Nat} {cv : Dirs.CodeView} (h : Dirs.codeView v d = .ok cv) :
    le32 v.b cv.image.off = Dirs.sigNB10 ∨ le32 v.b cv.image.off = Dirs.sigRSDS := by
  unfold Dirs.codeView at h
  cases hd : Dirs.dirData v d with
  | none => rw [hd] at h; cases h
  | some bytes =>
    rw [hd] at h
    simp only at h
    split at h
    · cases h
    split at h
    · cases h
    obtain ⟨sig, hsig, h⟩ := Out.bind_eq_ok h
    have hs := rawRef_ok_eq hsig
    subst hs
    simp only at h
    split at h
    · rename_i hnb
      obtain ⟨image, himage, h⟩ := Out.bind_eq_ok h
      obtain ⟨name, _, h⟩ := Out.bind_eq_ok h
      cases h
      rw [rawRef_ok_eq himage]
      exact .inl hnb
    · split at h
      · rename_i hrs
        split at h
        · cases h
        obtain ⟨image, himage, h⟩ := Out.bind_eq_ok h
        obtain ⟨name, _, h⟩ := Out.bind_eq_ok h
        cases h
        rw [rawRef_ok_eq himage]
        exact .inr hrs
      · cases h

theorem bytes_of_le32 (b : Bytes) (o : Nat) (b0 b1 b2 b3 : Nat) (h0 : b0 < 256) (h1 : b1 < 256) (h2 : b2 < 256)
    (_h3 : b3 < 256) (h : le32 b o = b0 + 256 * b1 + 65536 * b2 + 16777216 * b3) :
    bytesOf b ⟨o, 4, 1⟩ = [b0, b1, b2, b3] := by
  have g0 := byteAt_lt b o
  have g1 := byteAt_lt b (o + 1)
  have g2 := byteAt_lt b (o + 2)
  have g3 := byteAt_lt b (o + 3)
  unfold le32 at h
  have e0 : byteAt b o = b0 := by omega
  have e1 : byteAt b (o + 1) = b1 := by omega
  have e2 : byteAt b (o + 2) = b2 := by omega
  have e3 : byteAt b (o + 3) = b3 := by omega
  show (List.range 4).map (fun i => byteAt b (o + i)) = _
  rw [show List.range 4 = [0, 1, 2, 3] by decide]
  simp only [List.map_cons, List.map_nil, Nat.add_zero]
  rw [e0, e1, e2, e3]

/-- "format" of a serialized CodeView entry is the ASCII text `NB10` or `RSDS` -/
theorem codeView_format_ascii {v : View} {d : Nat} {cv : Dirs.CodeView} (h : Dirs.codeView v d = .ok cv) :
    bytesOf v.b ⟨cv.image.off, 4, 1⟩ = [78, 66, 49, 48] ∨ bytesOf v.b ⟨cv.image.off, 4, 1⟩ = [82, 83, 68, 83] := by
  rcases codeView_sig h with hs | hs
  · exact .inl (bytes_of_le32 _ _ 78 66 49 48 (by decide) (by decide) (by decide) (by decide) (by rw [hs]; rfl))
  · exact .inr (bytes_of_le32 _ _ 82 83 68 83 (by decide) (by decide) (by decide) (by decide) (by rw [hs]; rfl))

end Pe
end Pelite
