import PeliteModel.Lemmas.PeHdr
import PeliteModel.Model.ResFind
import PeliteModel.Model.Version
/-!
Hand-built PE32+ images for the witnesses of `Thm/Witnesses64.lean` (second audit round: every property whose
theorems quantify over formats and kinds gets a PE32+ instance and a file-view instance).  The three byte arrays were
laid out with the generators' PE builder (`vlib/pe.py`) and replayed through the real library and the model driver
(identical answers on `imports`/`iat`/`exports`/`export`/`scan`/`pat_exec`/`res`/`ver` operations) before being pasted here.

* `view64Bytes` — 448-byte PE32+ image without sections, taken as a MAPPED view (`view64`, ImageBase 0x140000000):
  import directory at 328 (one descriptor {OriginalFirstThunk 368, Name 422 "k.dll", FirstThunk 392} and the
  terminator), at 368 the name table of two 8-BYTE thunks {416 = by name, 0x8000000000000007 = ordinal 7 with bit 63,
  0}, at 392 the address table (same three values), at 416 hint 5 "Fn"; data directory 1 = (328, 40), 12 = (392, 24).
  At 428 the byte `e1` followed (unaligned, 429..436) by the absolute 8-byte pointer 0x1400001b8 = VA of offset 440,
  where `aa bb` is stored.
* `file64Bytes` — 504-byte PE32+ FILE with two sections: `.edata` (RVA 0x1000, raw data at file offset 408, 0x40 bytes)
  holds the export directory (Base 1, two functions 0x1800 / 0x2800, name pointers 0x2006 / 0x2008, ordinals 0 / 1);
  `.names` (RVA 0x2000, raw data at FILE OFFSET 472 — not its RVA —, 0x20 bytes) holds the strings "k.dll", "a", "b"
  and, at RVA 0x2010, `e1` + the absolute pointer 0x14000201a = VA of RVA 0x201a, where `aa bb` is stored (file
  offset 498).  Data directory 0 = (0x1000, 0x3c).
* `res64Bytes` — 552-byte PE32+ FILE with one section `.rsrc` (RVA 0x1000, raw data at file offset 368, 184 bytes):
  root directory → id 16 (RT_VERSION) → id 1 → language 0x409 → data entry at +72 {OffsetToData 0x1058, Size 92,
  CodePage 1252} → at +88 a VS_VERSIONINFO of 92 bytes: header, key "VS_VERSION_INFO", padding, and the 52 bytes of a
  VS_FIXEDFILEINFO (signature 0xFEEF04BD, file version 1.2.3.4, product version 5.6.7.8); no children.
  Data directory 2 = (0x1000, 180).
-/
namespace Pelite.Witness64
open Pelite Pelite.Pe

def view64Bytes : Bytes := #[
    77, 90, 0, 0, 0, 0, 0, 0, 0, 0, 0, 0, 0, 0, 0, 0, 0, 0, 0, 0, 0, 0, 0, 0, 0, 0, 0, 0, 0, 0, 0, 0,
    0, 0, 0, 0, 0, 0, 0, 0, 0, 0, 0, 0, 0, 0, 0, 0, 0, 0, 0, 0, 0, 0, 0, 0, 0, 0, 0, 0, 64, 0, 0, 0,
    80, 69, 0, 0, 100, 134, 0, 0, 0, 0, 0, 95, 0, 0, 0, 0, 0, 0, 0, 0, 240, 0, 34, 32, 11, 2, 14, 0, 0, 2, 0, 0,
    0, 2, 0, 0, 0, 0, 0, 0, 0, 16, 0, 0, 0, 16, 0, 0, 0, 0, 0, 64, 1, 0, 0, 0, 8, 0, 0, 0, 8, 0, 0, 0,
    6, 0, 0, 0, 0, 0, 0, 0, 6, 0, 0, 0, 0, 0, 0, 0, 192, 1, 0, 0, 72, 1, 0, 0, 0, 0, 0, 0, 3, 0, 96, 129,
    0, 0, 16, 0, 0, 0, 0, 0, 0, 16, 0, 0, 0, 0, 0, 0, 0, 0, 16, 0, 0, 0, 0, 0, 0, 16, 0, 0, 0, 0, 0, 0,
    0, 0, 0, 0, 16, 0, 0, 0, 0, 0, 0, 0, 0, 0, 0, 0, 72, 1, 0, 0, 40, 0, 0, 0, 0, 0, 0, 0, 0, 0, 0, 0,
    0, 0, 0, 0, 0, 0, 0, 0, 0, 0, 0, 0, 0, 0, 0, 0, 0, 0, 0, 0, 0, 0, 0, 0, 0, 0, 0, 0, 0, 0, 0, 0,
    0, 0, 0, 0, 0, 0, 0, 0, 0, 0, 0, 0, 0, 0, 0, 0, 0, 0, 0, 0, 0, 0, 0, 0, 0, 0, 0, 0, 0, 0, 0, 0,
    0, 0, 0, 0, 0, 0, 0, 0, 136, 1, 0, 0, 24, 0, 0, 0, 0, 0, 0, 0, 0, 0, 0, 0, 0, 0, 0, 0, 0, 0, 0, 0,
    0, 0, 0, 0, 0, 0, 0, 0, 112, 1, 0, 0, 0, 0, 0, 0, 0, 0, 0, 0, 166, 1, 0, 0, 136, 1, 0, 0, 0, 0, 0, 0,
    0, 0, 0, 0, 0, 0, 0, 0, 0, 0, 0, 0, 0, 0, 0, 0, 160, 1, 0, 0, 0, 0, 0, 0, 7, 0, 0, 0, 0, 0, 0, 128,
    0, 0, 0, 0, 0, 0, 0, 0, 160, 1, 0, 0, 0, 0, 0, 0, 7, 0, 0, 0, 0, 0, 0, 128, 0, 0, 0, 0, 0, 0, 0, 0,
    5, 0, 70, 110, 0, 0, 107, 46, 100, 108, 108, 0, 225, 184, 1, 0, 64, 1, 0, 0, 0, 0, 0, 0, 170, 187, 0, 0, 0, 0, 0, 0]

def file64Bytes : Bytes := #[
    77, 90, 0, 0, 0, 0, 0, 0, 0, 0, 0, 0, 0, 0, 0, 0, 0, 0, 0, 0, 0, 0, 0, 0, 0, 0, 0, 0, 0, 0, 0, 0,
    0, 0, 0, 0, 0, 0, 0, 0, 0, 0, 0, 0, 0, 0, 0, 0, 0, 0, 0, 0, 0, 0, 0, 0, 0, 0, 0, 0, 64, 0, 0, 0,
    80, 69, 0, 0, 100, 134, 2, 0, 0, 0, 0, 95, 0, 0, 0, 0, 0, 0, 0, 0, 240, 0, 34, 32, 11, 2, 14, 0, 0, 2, 0, 0,
    0, 2, 0, 0, 0, 0, 0, 0, 0, 16, 0, 0, 0, 16, 0, 0, 0, 0, 0, 64, 1, 0, 0, 0, 0, 16, 0, 0, 8, 0, 0, 0,
    6, 0, 0, 0, 0, 0, 0, 0, 6, 0, 0, 0, 0, 0, 0, 0, 0, 48, 0, 0, 152, 1, 0, 0, 0, 0, 0, 0, 3, 0, 96, 129,
    0, 0, 16, 0, 0, 0, 0, 0, 0, 16, 0, 0, 0, 0, 0, 0, 0, 0, 16, 0, 0, 0, 0, 0, 0, 16, 0, 0, 0, 0, 0, 0,
    0, 0, 0, 0, 16, 0, 0, 0, 0, 16, 0, 0, 60, 0, 0, 0, 0, 0, 0, 0, 0, 0, 0, 0, 0, 0, 0, 0, 0, 0, 0, 0,
    0, 0, 0, 0, 0, 0, 0, 0, 0, 0, 0, 0, 0, 0, 0, 0, 0, 0, 0, 0, 0, 0, 0, 0, 0, 0, 0, 0, 0, 0, 0, 0,
    0, 0, 0, 0, 0, 0, 0, 0, 0, 0, 0, 0, 0, 0, 0, 0, 0, 0, 0, 0, 0, 0, 0, 0, 0, 0, 0, 0, 0, 0, 0, 0,
    0, 0, 0, 0, 0, 0, 0, 0, 0, 0, 0, 0, 0, 0, 0, 0, 0, 0, 0, 0, 0, 0, 0, 0, 0, 0, 0, 0, 0, 0, 0, 0,
    0, 0, 0, 0, 0, 0, 0, 0, 46, 101, 100, 97, 116, 97, 0, 0, 64, 0, 0, 0, 0, 16, 0, 0, 64, 0, 0, 0, 152, 1, 0, 0,
    0, 0, 0, 0, 0, 0, 0, 0, 0, 0, 0, 0, 64, 0, 0, 64, 46, 110, 97, 109, 101, 115, 0, 0, 32, 0, 0, 0, 0, 32, 0, 0,
    32, 0, 0, 0, 216, 1, 0, 0, 0, 0, 0, 0, 0, 0, 0, 0, 0, 0, 0, 0, 64, 0, 0, 64, 0, 0, 0, 0, 1, 0, 0, 95,
    2, 0, 7, 0, 0, 32, 0, 0, 1, 0, 0, 0, 2, 0, 0, 0, 2, 0, 0, 0, 40, 16, 0, 0, 48, 16, 0, 0, 56, 16, 0, 0,
    0, 24, 0, 0, 0, 40, 0, 0, 6, 32, 0, 0, 8, 32, 0, 0, 0, 0, 1, 0, 0, 0, 0, 0, 107, 46, 100, 108, 108, 0, 97, 0,
    98, 0, 0, 0, 0, 0, 0, 0, 225, 26, 32, 0, 64, 1, 0, 0, 0, 0, 170, 187, 0, 0, 0, 0]

def res64Bytes : Bytes := #[
    77, 90, 0, 0, 0, 0, 0, 0, 0, 0, 0, 0, 0, 0, 0, 0, 0, 0, 0, 0, 0, 0, 0, 0, 0, 0, 0, 0, 0, 0, 0, 0,
    0, 0, 0, 0, 0, 0, 0, 0, 0, 0, 0, 0, 0, 0, 0, 0, 0, 0, 0, 0, 0, 0, 0, 0, 0, 0, 0, 0, 64, 0, 0, 0,
    80, 69, 0, 0, 100, 134, 1, 0, 0, 0, 0, 95, 0, 0, 0, 0, 0, 0, 0, 0, 240, 0, 34, 32, 11, 2, 14, 0, 0, 2, 0, 0,
    0, 2, 0, 0, 0, 0, 0, 0, 0, 16, 0, 0, 0, 16, 0, 0, 0, 0, 0, 64, 1, 0, 0, 0, 0, 16, 0, 0, 8, 0, 0, 0,
    6, 0, 0, 0, 0, 0, 0, 0, 6, 0, 0, 0, 0, 0, 0, 0, 0, 32, 0, 0, 112, 1, 0, 0, 0, 0, 0, 0, 3, 0, 96, 129,
    0, 0, 16, 0, 0, 0, 0, 0, 0, 16, 0, 0, 0, 0, 0, 0, 0, 0, 16, 0, 0, 0, 0, 0, 0, 16, 0, 0, 0, 0, 0, 0,
    0, 0, 0, 0, 16, 0, 0, 0, 0, 0, 0, 0, 0, 0, 0, 0, 0, 0, 0, 0, 0, 0, 0, 0, 0, 16, 0, 0, 180, 0, 0, 0,
    0, 0, 0, 0, 0, 0, 0, 0, 0, 0, 0, 0, 0, 0, 0, 0, 0, 0, 0, 0, 0, 0, 0, 0, 0, 0, 0, 0, 0, 0, 0, 0,
    0, 0, 0, 0, 0, 0, 0, 0, 0, 0, 0, 0, 0, 0, 0, 0, 0, 0, 0, 0, 0, 0, 0, 0, 0, 0, 0, 0, 0, 0, 0, 0,
    0, 0, 0, 0, 0, 0, 0, 0, 0, 0, 0, 0, 0, 0, 0, 0, 0, 0, 0, 0, 0, 0, 0, 0, 0, 0, 0, 0, 0, 0, 0, 0,
    0, 0, 0, 0, 0, 0, 0, 0, 46, 114, 115, 114, 99, 0, 0, 0, 184, 0, 0, 0, 0, 16, 0, 0, 184, 0, 0, 0, 112, 1, 0, 0,
    0, 0, 0, 0, 0, 0, 0, 0, 0, 0, 0, 0, 64, 0, 0, 64, 0, 0, 0, 0, 0, 0, 0, 0, 0, 0, 0, 0, 0, 0, 1, 0,
    16, 0, 0, 0, 24, 0, 0, 128, 0, 0, 0, 0, 0, 0, 0, 0, 0, 0, 0, 0, 0, 0, 1, 0, 1, 0, 0, 0, 48, 0, 0, 128,
    0, 0, 0, 0, 0, 0, 0, 0, 0, 0, 0, 0, 0, 0, 1, 0, 9, 4, 0, 0, 72, 0, 0, 0, 88, 16, 0, 0, 92, 0, 0, 0,
    228, 4, 0, 0, 0, 0, 0, 0, 92, 0, 52, 0, 0, 0, 86, 0, 83, 0, 95, 0, 86, 0, 69, 0, 82, 0, 83, 0, 73, 0, 79, 0,
    78, 0, 95, 0, 73, 0, 78, 0, 70, 0, 79, 0, 0, 0, 0, 0, 189, 4, 239, 254, 0, 0, 1, 0, 2, 0, 1, 0, 4, 0, 3, 0,
    6, 0, 5, 0, 8, 0, 7, 0, 63, 0, 0, 0, 0, 0, 0, 0, 4, 0, 4, 0, 1, 0, 0, 0, 0, 0, 0, 0, 0, 0, 0, 0,
    0, 0, 0, 0, 0, 0, 0, 0]

/-- the import / pointer image as a mapped PE32+ view -/
def view64 : View := ⟨⟨view64Bytes, 0⟩, .pe64, .view, 0x140000000⟩
/-- the two-section export image as a PE32+ file view -/
def file64 : View := ⟨⟨file64Bytes, 0⟩, .pe64, .file, 0x140000000⟩
/-- the resource image as a PE32+ file view -/
def res64 : View := ⟨⟨res64Bytes, 0⟩, .pe64, .file, 0x140000000⟩

/-- `Pe::resources()`, then `Resources::version_info()`: the words of the version block the lookup reaches
(`none` when the lookup fails with a `FindError`) — the composition the `res <k> version` operation runs -/
def versionWords (v : View) : Out (Option Version.Sl) :=
  (Resources.ofView v).bind fun p =>
    (Resources.versionInfo p.1).bind fun fr =>
      match fr with
      | .ok ref =>
        (Version.tryFrom (p.1.base + ref.off) (p.1.sec.extract ref.off (ref.off + ref.len))).bind fun w => .ok (some w)
      | .error _ => .ok none

end Pelite.Witness64
