import PeliteModel.Lemmas.Pattern
import PeliteModel.Spec.Scan
/-!
A second loop invariant of `parse_helper` (the first one, `Inv`, is in `Lemmas/Pattern.lean`):

* **which atom constructors the parser can emit** — by enumeration of every `result.push(..)`,
  `result[i] = ..` and `mem::replace(last, ..)` of the loop: never `Fuzzy`, `Back`, `Pir`, `VTypeName`,
  `Check`;
* **slot 0 is written by the leading `Save(0)` only** — the slot counter `save` starts at 1, is only
  incremented, and is reset at `|` / `)` to values that were themselves `≥ 1`.

Consequences for a successfully parsed pattern: it satisfies the pattern hypotheses of the C10
completeness theorems (`Atom.ok`, `noRead`), and the ghost match position of the scanner model is the
observable capture `save[0]`.
-/
namespace Pelite.Pattern

/-- split every `if` / `match` of a hypothesis, looking through the `let`s in between -/
local macro "splits_at " h:ident : tactic =>
  `(tactic| repeat' (first | split at $h:ident | dsimp only at $h:ident))

/-- the atom constructors `parse_helper` can put into the result vector -/
def emitted : Atom → Bool
  | .fuzzy _ | .back _ | .pir _ | .vTypeName | .check _ => false
  | _ => true

/-- shape of the atom at index `i`: an emitted constructor, and beyond index 0 never slot 0 -/
def ShapeAt (i : Nat) (a : Atom) : Prop :=
  emitted a = true ∧ ∀ k, slotOf a = some k → 0 < i → 0 < k

def AShape (r : Array Atom) : Prop := ∀ (i : Nat) a, r[i]? = some a → ShapeAt i a

theorem AShape.push {r : Array Atom} {a : Atom} (h : AShape r) (he : emitted a = true)
    (hs : ∀ k, slotOf a = some k → 0 < k) : AShape (r.push a) := by
  intro i a' hi
  rcases get_push_inv hi with hi | ⟨_, rfl⟩
  · exact h i a' hi
  · exact ⟨he, fun k hk _ => hs k hk⟩

theorem AShape.set {r : Array Atom} {a : Atom} (j : Nat) (h : AShape r) (he : emitted a = true)
    (hs : slotOf a = none) : AShape (r.setIfInBounds j a) := by
  intro i a' hi
  rw [Array.getElem?_setIfInBounds] at hi
  split at hi
  · split at hi
    · cases hi; exact ⟨he, fun k hk => by rw [hs] at hk; cases hk⟩
    · cases hi
  · exact h i a' hi

theorem AShape.setLast {r : Array Atom} {a : Atom} (h : AShape r) (he : emitted a = true)
    (hs : slotOf a = none) : AShape (setLast r a) := h.set _ he hs

/-- the second loop invariant -/
structure Shape (st : PSt) : Prop where
  atoms : AShape st.result
  save_pos : 0 < st.save
  subs_pos : ∀ s ∈ st.subs, 0 < s.save

theorem initSt_shape : Shape initSt := by
  refine ⟨?_, by simp [initSt], by simp [initSt]⟩
  intro i a hi
  have h0 : i = 0 := by
    rcases Nat.eq_zero_or_pos i with h0 | h0
    · exact h0
    · simp [initSt, Nat.ne_of_gt h0] at hi
  subst h0
  simp [initSt] at hi
  subst hi
  exact ⟨rfl, fun k _ h => absurd h (Nat.lt_irrefl 0)⟩

theorem Shape.pushA {st : PSt} {a : Atom} (h : Shape st) (he : emitted a = true) (hs : slotOf a = none) :
    Shape (pushA st a) :=
  ⟨h.atoms.push he (fun k hk => by rw [hs] at hk; cases hk), h.save_pos, h.subs_pos⟩

theorem opOpen_shape {st st' : PSt} (h : Shape st) (ho : opOpen st = .ok st') : Shape st' := by
  unfold opOpen at ho
  splits_at ho
  all_goals first
    | (cases ho; done)
    | (simp only [Res.ok.injEq] at ho; subst ho
       exact ⟨(h.atoms.setLast rfl rfl).push rfl (fun k hk => by simp [slotOf] at hk), h.save_pos, h.subs_pos⟩)

theorem opClose_shape {st st' : PSt} (h : Shape st) (ho : opClose st = .ok st') : Shape st' := by
  unfold opClose at ho
  splits_at ho
  all_goals first
    | (cases ho; done)
    | (simp only [Res.ok.injEq] at ho; subst ho
       exact ⟨h.atoms.push rfl (fun k hk => by simp [slotOf] at hk), h.save_pos, h.subs_pos⟩)

theorem opSubStart_shape {st st' : PSt} (h : Shape st) (ho : opSubStart st = .ok st') : Shape st' := by
  unfold opSubStart at ho
  simp only [Res.ok.injEq] at ho
  subst ho
  refine ⟨h.atoms.push rfl (fun k hk => by simp [slotOf] at hk), h.save_pos, ?_⟩
  intro s hs
  rcases List.mem_cons.mp hs with rfl | hs
  · exact h.save_pos
  · exact h.subs_pos s hs

theorem opSubCase_shape {st st' : PSt} (h : Shape st) (ho : opSubCase st = .ok st') : Shape st' := by
  unfold opSubCase at ho
  split at ho
  · cases ho
  · next sub subs hsubs =>
    have hsub : 0 < sub.save := h.subs_pos sub (by rw [hsubs]; exact List.mem_cons_self ..)
    have hrest : ∀ s ∈ subs, 0 < s.save := fun s hs => h.subs_pos s (by rw [hsubs]; exact List.mem_cons_of_mem _ hs)
    dsimp only at ho
    splits_at ho
    all_goals first
      | (cases ho; done)
      | (simp only [Res.ok.injEq] at ho; subst ho
         refine ⟨((h.atoms.push rfl (fun k hk => by simp [slotOf] at hk)).set _ rfl rfl).push rfl
           (fun k hk => by simp [slotOf] at hk), hsub, ?_⟩
         intro s hs
         rcases List.mem_cons.mp hs with rfl | hs
         · exact hsub
         · exact hrest s hs)

theorem fillBrks_shape : ∀ (brks : List Nat) (r r' : Array Atom), fillBrks r brks = .ok r' → AShape r → AShape r' := by
  intro brks
  induction brks with
  | nil => intro r r' h hr; simp only [fillBrks, Res.ok.injEq] at h; subst h; exact hr
  | cons b bs ih =>
    intro r r' h hr
    unfold fillBrks at h
    splits_at h
    all_goals first
      | (cases h; done)
      | exact ih _ _ h (hr.set _ rfl rfl)

theorem opSubEnd_shape {st st' : PSt} (h : Shape st) (ho : opSubEnd st = .ok st') : Shape st' := by
  unfold opSubEnd at ho
  split at ho
  · cases ho
  · next sub subs hsubs =>
    have hrest : ∀ s ∈ subs, 0 < s.save := fun s hs => h.subs_pos s (by rw [hsubs]; exact List.mem_cons_of_mem _ hs)
    dsimp only at ho
    split at ho
    · cases ho
    · split at ho
      · next r' hfb =>
        simp only [Res.ok.injEq] at ho; subst ho
        refine ⟨fillBrks_shape _ _ _ hfb (h.atoms.set _ rfl rfl), ?_, hrest⟩
        have := h.save_pos
        show 0 < max sub.saveNext st.save
        omega
      · cases ho
      · cases ho

theorem emitRange_shape {r : Array Atom} {n : Nat} {mk : Nat → Atom} (h : AShape r)
    (hmk : ∀ m, emitted (mk m) = true ∧ slotOf (mk m) = none) : AShape (emitRange r n mk) := by
  unfold emitRange
  dsimp only
  split
  · exact (h.push rfl (fun k hk => by simp [slotOf] at hk)).push (hmk _).1 (fun k hk => by rw [(hmk _).2] at hk; cases hk)
  · exact h.push (hmk _).1 (fun k hk => by rw [(hmk _).2] at hk; cases hk)

theorem opMany_shape {st : PSt} {rest : List UInt8} {nx : Next} (h : Shape st) (ho : opMany st rest = .ok nx) :
    Shape nx.st := by
  unfold opMany at ho
  split at ho
  · cases ho
  · cases ho
  · next lb seen chr rest' hml =>
    have h1 : AShape (if lb > 0 then emitRange st.result lb .skip else st.result) := by
      split
      · exact emitRange_shape h.atoms (fun m => ⟨rfl, rfl⟩)
      · exact h.atoms
    dsimp only at ho
    split at ho
    · cases ho
    · split at ho
      · simp only [Res.ok.injEq] at ho; subst ho
        exact ⟨h1, h.save_pos, h.subs_pos⟩
      · split at ho
        · cases ho
        · cases ho
        · split at ho
          · split at ho
            · cases ho
            · simp only [Res.ok.injEq] at ho; subst ho
              exact ⟨emitRange_shape h1 (fun m => ⟨rfl, rfl⟩), h.save_pos, h.subs_pos⟩
          · cases ho

theorem opHex_shape {st : PSt} {chr : Nat} {rest : List UInt8} {nx : Next} (h : Shape st)
    (ho : opHex st chr rest = .ok nx) : Shape nx.st := by
  unfold opHex at ho
  splits_at ho
  all_goals first
    | (cases ho; done)
    | (simp only [Res.ok.injEq] at ho; subst ho; exact h.pushA rfl rfl)

theorem quoted_shape : ∀ (cs : List UInt8) (r r' : Array Atom) (rest' : List UInt8),
    quoted cs r = some (r', rest') → AShape r → AShape r' := by
  intro cs
  induction cs with
  | nil => intro r r' rest' h; simp [quoted] at h
  | cons c cs ih =>
    intro r r' rest' h hr
    unfold quoted at h
    split at h
    · exact ih _ _ _ h (hr.push rfl (fun k hk => by simp [slotOf] at hk))
    · simp only [Option.some.injEq, Prod.mk.injEq] at h
      obtain ⟨rfl, _⟩ := h
      exact hr

theorem opQuote_shape {st : PSt} {rest : List UInt8} {nx : Next} (h : Shape st) (ho : opQuote st rest = .ok nx) :
    Shape nx.st := by
  unfold opQuote at ho
  split at ho
  · cases ho
  · next r rest' hq =>
    simp only [Res.ok.injEq] at ho; subst ho
    exact ⟨quoted_shape _ _ _ _ hq h.atoms, h.save_pos, h.subs_pos⟩

theorem opSlot_shape {st st' : PSt} {mk : Nat → Atom} (h : Shape st)
    (hmk : ∀ n, emitted (mk n) = true ∧ slotOf (mk n) = some n) (ho : opSlot st mk = .ok st') : Shape st' := by
  unfold opSlot at ho
  splits_at ho
  all_goals first
    | (cases ho; done)
    | (simp only [Res.ok.injEq] at ho; subst ho
       refine ⟨h.atoms.push (hmk _).1 (fun k hk => ?_), Nat.succ_pos _, h.subs_pos⟩
       rw [(hmk _).2] at hk
       cases hk
       exact h.save_pos)

theorem opSkip_shape {st : PSt} (h : Shape st) : Shape (opSkip st).1 := by
  unfold opSkip
  repeat' split
  all_goals first
    | exact h.pushA rfl rfl
    | exact ⟨h.atoms.setLast rfl rfl, h.save_pos, h.subs_pos⟩

theorem opAligned_shape {st : PSt} {rest : List UInt8} {nx : Next} (h : Shape st)
    (ho : opAligned st rest = .ok nx) : Shape nx.st := by
  unfold opAligned at ho
  splits_at ho
  all_goals first
    | (cases ho; done)
    | (simp only [Res.ok.injEq] at ho; subst ho; exact h.pushA rfl rfl)

theorem opRead_shape {st : PSt} {rest : List UInt8} {nx : Next} {mk1 mk2 mk4 : Nat → Atom} (h : Shape st)
    (h1 : ∀ n, emitted (mk1 n) = true ∧ slotOf (mk1 n) = some n)
    (h2 : ∀ n, emitted (mk2 n) = true ∧ slotOf (mk2 n) = some n)
    (h4 : ∀ n, emitted (mk4 n) = true ∧ slotOf (mk4 n) = some n)
    (ho : opRead st rest mk1 mk2 mk4 = .ok nx) : Shape nx.st := by
  unfold opRead at ho
  split at ho
  · cases ho
  · next c rest' =>
    dsimp only at ho
    split at ho
    · cases ho
    · next mk hmk =>
      have hmk' : ∀ n, emitted (mk n) = true ∧ slotOf (mk n) = some n := by
        split at hmk
        · cases hmk; exact h1
        · split at hmk
          · cases hmk; exact h2
          · split at hmk
            · cases hmk; exact h4
            · cases hmk
      split at ho
      · next st1 hs =>
        simp only [Res.ok.injEq] at ho; subst ho
        exact opSlot_shape h hmk' hs
      · cases ho
      · cases ho

/-- every arm of the `match` keeps the second invariant -/
theorem tok_shape {st : PSt} {chr : Nat} {rest : List UInt8} {nx : Next} (h : Shape st)
    (ht : tok chr rest st = .ok nx) : Shape nx.st := by
  unfold tok at ht
  split at ht
  · cases ht; exact h.pushA rfl rfl
  · cases ht; exact h.pushA rfl rfl
  · cases ht; exact h.pushA rfl rfl
  · exact opOpen_shape h (liftSt_ok ht)
  · exact opClose_shape h (liftSt_ok ht)
  · exact opSubStart_shape h (liftSt_ok ht)
  · exact opSubCase_shape h (liftSt_ok ht)
  · exact opSubEnd_shape h (liftSt_ok ht)
  · exact opMany_shape h ht
  · exact opHex_shape h ht
  · exact opQuote_shape h ht
  · exact opSlot_shape h (fun n => ⟨rfl, rfl⟩) (liftSt_ok ht)
  · simp only [Res.ok.injEq] at ht; subst ht; exact opSkip_shape h
  · exact opAligned_shape h ht
  · exact opRead_shape h (fun n => ⟨rfl, rfl⟩) (fun n => ⟨rfl, rfl⟩) (fun n => ⟨rfl, rfl⟩) ht
  · exact opRead_shape h (fun n => ⟨rfl, rfl⟩) (fun n => ⟨rfl, rfl⟩) (fun n => ⟨rfl, rfl⟩) ht
  · exact opSlot_shape h (fun n => ⟨rfl, rfl⟩) (liftSt_ok ht)
  · cases ht; exact h
  · cases ht

theorem trim_shape {r : Array Atom} (h : AShape r) : AShape (trim r) := by
  obtain ⟨_, h2, _, _⟩ := trim_spec r
  intro i a hi
  have hlt : i < (trim r).size := by
    rcases Nat.lt_or_ge i (trim r).size with hl | hl
    · exact hl
    · rw [Array.getElem?_eq_none hl] at hi; cases hi
  rw [h2 i hlt] at hi
  exact h i a hi

theorem parseLoop_shape : ∀ (fuel : Nat) (rest pat : List UInt8) (st : PSt) (r : Array Atom),
    parseLoop fuel rest pat st = .ok r → Shape st → AShape r := by
  intro fuel
  induction fuel with
  | zero => intro rest pat st r h; cases h
  | succ fuel ih =>
    intro rest pat st r h hs
    unfold parseLoop at h
    cases rest with
    | nil =>
      dsimp only at h
      unfold finish at h
      repeat' split at h
      all_goals first
        | (cases h; done)
        | skip
      next r' hr' =>
        split at hr'
        · cases hr'
        · split at hr'
          · cases hr'
          · simp only [Res.ok.injEq] at hr'
            simp only [LoopOut.ok.injEq] at h
            subst h hr'
            exact trim_shape hs.atoms
    | cons c rest =>
      dsimp only at h
      split at h
      · next nx hnx => exact ih _ _ _ _ h (tok_shape hs hnx)
      · cases h
      · cases h

/-- **shape of parser output**: every atom of a successfully parsed pattern is one of the emitted
constructors, and no atom other than the first mentions slot 0 -/
theorem parse_shape {s : List UInt8} {atoms : List Atom} (h : parse s = .ok atoms) :
    ∀ (i : Nat) a, atoms[i]? = some a → ShapeAt i a := by
  unfold parse at h
  split at h
  · next r hr =>
    simp only [ParseOut.ok.injEq] at h
    subst h
    have := parseLoop_shape _ _ _ _ _ hr initSt_shape
    intro i a hi
    exact this i a (by simpa using hi)
  · split at h <;> cases h
  · cases h
  · cases h

/-! ### consequences in the interpreter's vocabulary -/

theorem ok_of_argOf {a : Atom} (h : argOf a < 256) : Exec.Atom.ok a = true := by
  cases a <;> simp_all [argOf, Exec.Atom.ok]

theorem noRead_of_emitted {a : Atom} (h : emitted a = true) : Scan.noRead a = true := by
  cases a <;> simp_all [emitted, Scan.noRead]

/-- what the parser never emits, as a list of constructors -/
theorem emitted_iff (a : Atom) : emitted a = true ↔
    (∀ n, a ≠ .fuzzy n) ∧ (∀ n, a ≠ .back n) ∧ (∀ n, a ≠ .pir n) ∧ a ≠ .vTypeName ∧ (∀ n, a ≠ .check n) := by
  cases a <;> simp [emitted]

end Pelite.Pattern
