import PeliteModel.Model.Pattern
/-!
Helper lemmas for the pattern parser model: the loop invariant `Inv` of `parse_helper`, its
preservation by every arm of the `match`, absence of panics, and the facts about trimming.
Core-only.
-/
namespace Pelite.Pattern

/-! ## Vocabulary -/

def isCaseOrNop : Atom → Bool | .case _ | .nop => true | _ => false
def isBrk : Atom → Bool | .brk _ => true | _ => false
/-- atoms that are neither `Push` nor sub-pattern bookkeeping -/
def isPlain : Atom → Bool | .push _ | .brk _ | .case _ => false | _ => true
def isPush : Atom → Bool | .push _ => true | _ => false
def isPop : Atom → Bool | .pop => true | _ => false

/-- the save slot an atom reads or writes (exactly the atoms `save_len` looks at) -/
def slotOf : Atom → Option Nat
  | .save s | .pir s | .check s | .zero s | .readI8 s | .readI16 s | .readI32 s
  | .readU8 s | .readU16 s | .readU32 s => some s
  | _ => none

/-- the `u8` argument of an atom (0 when it has none) -/
def argOf : Atom → Nat
  | .byte n | .save n | .push n | .fuzzy n | .skip n | .back n | .rangext n | .many n | .pir n | .check n
  | .aligned n | .readI8 n | .readU8 n | .readI16 n | .readU16 n | .readI32 n | .readU32 n | .zero n
  | .case n | .brk n => n
  | _ => 0

/-- what may directly follow `Push(k)`: the same `Push(k)` again (from `{{`) or the jump atom it was made from -/
def PushNext (k : Nat) (b : Atom) : Prop :=
  b = .push k ∨ (k = 1 ∧ b = .jump1) ∨ (k = 4 ∧ b = .jump4) ∨ (k = 0 ∧ b = .ptr)

def maxNext : List Sub → Nat
  | [] => 0
  | s :: ss => max s.saveNext (maxNext ss)

/-- Invariant of the result vector relative to the open sub-patterns and the save high-water mark `M`. -/
structure RInv (r : Array Atom) (subs : List Sub) (M : Nat) : Prop where
  first : r[0]? = some (.save 0)
  adj : ∀ (i k : Nat), r[i]? = some (.push k) → ∃ b, r[i+1]? = some b ∧ PushNext k b
  brkT : ∀ (i n : Nat), r[i]? = some (.brk n) → i + 1 + n ≤ r.size
  caseT : ∀ (i n : Nat), r[i]? = some (.case n) →
    (∃ s ∈ subs, s.case = i) ∨ (∃ a, r[i+1+n]? = some a ∧ isCaseOrNop a = true)
  args : ∀ (i : Nat) a, r[i]? = some a → argOf a < 256
  slots : ∀ (i : Nat) a k, r[i]? = some a → slotOf a = some k → k < M
  subsC : ∀ s ∈ subs, ∃ a, r[s.case]? = some a ∧ isCaseOrNop a = true
  subsB : ∀ s ∈ subs, ∀ b ∈ s.brks, ∃ a, r[b]? = some a ∧ isBrk a = true

theorem brk_not_caseOrNop {a : Atom} (h : isBrk a = true) (h' : isCaseOrNop a = true) : False := by
  cases a <;> simp [isBrk, isCaseOrNop] at h h'

theorem get_push_inv {r : Array Atom} {i : Nat} {a b} (h : (r.push b)[i]? = some a) :
    r[i]? = some a ∨ (i = r.size ∧ a = b) := by grind

theorem RInv.mono {r subs M M'} (h : RInv r subs M) (hM : M ≤ M') : RInv r subs M' :=
  ⟨h.first, h.adj, h.brkT, h.caseT, h.args, fun i a k h1 h2 => Nat.lt_of_lt_of_le (h.slots i a k h1 h2) hM,
   h.subsC, h.subsB⟩

theorem RInv.size_pos {r subs M} (h : RInv r subs M) : 0 < r.size := by
  have := h.first; grind

/-- the last atom is never a `Push` (a `Push` always has a successor) -/
theorem RInv.back_not_push {r subs M k} (h : RInv r subs M) : r.back? ≠ some (.push k) := by
  intro hb
  obtain ⟨b, hb', _⟩ := h.adj (r.size - 1) k (by grind)
  have := h.size_pos
  grind

/-- `result.push(a)` for an atom that is neither `Push`, `Case` nor `Break` -/
theorem RInv.push_plain {r subs M a} (h : RInv r subs M) (hp : isPlain a = true) (ha : argOf a < 256)
    (hs : ∀ k, slotOf a = some k → k < M) : RInv (r.push a) subs M := by
  have h1 := h.first
  refine ⟨?_, ?_, ?_, ?_, ?_, ?_, ?_, ?_⟩
  · grind
  · intro i k hi
    have : r[i]? = some (.push k) := by grind [isPlain]
    obtain ⟨b, hb, hn⟩ := h.adj i k this
    exact ⟨b, by grind, hn⟩
  · intro i n hi
    have : r[i]? = some (.brk n) := by grind [isPlain]
    have := h.brkT i n this
    grind
  · intro i n hi
    have : r[i]? = some (.case n) := by grind [isPlain]
    rcases h.caseT i n this with h | ⟨a', h, h'⟩
    · exact Or.inl h
    · exact Or.inr ⟨a', by grind, h'⟩
  · intro i a' hi
    rcases get_push_inv hi with hi | ⟨_, rfl⟩
    · exact h.args i a' hi
    · exact ha
  · intro i a' k hi hk
    rcases get_push_inv hi with hi | ⟨_, rfl⟩
    · exact h.slots i a' k hi hk
    · exact hs k hk
  · intro s hs; obtain ⟨a', h, h'⟩ := h.subsC s hs; exact ⟨a', by grind, h'⟩
  · intro s hs b hb; obtain ⟨a', h, h'⟩ := h.subsB s hs b hb; exact ⟨a', by grind, h'⟩

/-- arm `{`: `mem::replace(last, Push(k))` then `push(jump)` -/
theorem RInv.open_ {r subs M k j} (h : RInv r subs M) (hb : r.back? = some j)
    (hj : (k = 1 ∧ j = .jump1) ∨ (k = 4 ∧ j = .jump4) ∨ (k = 0 ∧ j = .ptr)) :
    RInv ((setLast r (.push k)).push j) subs M := by
  have hsz := h.size_pos
  have h1 := h.first
  have hlast : r[r.size - 1]? = some j := by grind
  have hjplain : isPlain j = true ∧ isCaseOrNop j = false ∧ isBrk j = false ∧ slotOf j = none ∧ argOf j = 0 ∧ j ≠ .save 0 := by
    rcases hj with ⟨_, rfl⟩ | ⟨_, rfl⟩ | ⟨_, rfl⟩ <;> simp [isPlain, isCaseOrNop, isBrk, slotOf, argOf]
  unfold setLast
  refine ⟨?_, ?_, ?_, ?_, ?_, ?_, ?_, ?_⟩
  · grind
  · intro i k' hi
    by_cases hil : i = r.size - 1
    · subst hil
      refine ⟨j, by grind, ?_⟩
      have : k' = k := by grind
      subst this
      unfold PushNext; grind
    · have hi' : r[i]? = some (.push k') := by grind [isPlain]
      obtain ⟨b, hb', hn⟩ := h.adj i k' hi'
      by_cases hil2 : i + 1 = r.size - 1
      · have hbj : b = j := by grind
        subst hbj
        have : k' = k := by unfold PushNext at hn; grind
        subst this
        exact ⟨.push k', by grind, Or.inl rfl⟩
      · exact ⟨b, by grind, hn⟩
  · intro i n hi
    have : r[i]? = some (.brk n) := by grind [isPlain]
    have := h.brkT i n this
    grind
  · intro i n hi
    have : r[i]? = some (.case n) := by grind [isPlain]
    rcases h.caseT i n this with h | ⟨a', h, h'⟩
    · exact Or.inl h
    · exact Or.inr ⟨a', by grind, h'⟩
  · intro i a hi
    by_cases hil : i = r.size - 1
    · have : a = .push k := by grind
      subst this; simp [argOf]; omega
    · by_cases hil2 : i = r.size
      · have : a = j := by grind
        subst this; omega
      · exact h.args i a (by grind)
  · intro i a k' hi hs
    by_cases hil : i = r.size - 1
    · have : a = .push k := by grind
      subst this; simp [slotOf] at hs
    · by_cases hil2 : i = r.size
      · have : a = j := by grind
        subst this; grind
      · exact h.slots i a k' (by grind) hs
  · intro s hs; obtain ⟨a', h, h'⟩ := h.subsC s hs; exact ⟨a', by grind, h'⟩
  · intro s hs b hb; obtain ⟨a', h, h'⟩ := h.subsB s hs b hb; exact ⟨a', by grind, h'⟩

/-- arm `?`, coalescing: the last atom `Skip(n)` becomes `Skip(n+1)` -/
theorem RInv.skip_inc {r subs M n} (h : RInv r subs M) (hb : r.back? = some (.skip n)) (hn : n < 255) :
    RInv (setLast r (.skip (n + 1))) subs M := by
  have hsz := h.size_pos
  have h1 := h.first
  have hlast : r[r.size - 1]? = some (.skip n) := by grind
  unfold setLast
  refine ⟨?_, ?_, ?_, ?_, ?_, ?_, ?_, ?_⟩
  · grind
  · intro i k' hi
    have hi' : r[i]? = some (.push k') := by grind
    obtain ⟨b, hb', hn⟩ := h.adj i k' hi'
    by_cases hil2 : i + 1 = r.size - 1
    · have hbj : b = .skip n := by grind
      subst hbj
      unfold PushNext at hn; grind
    · exact ⟨b, by grind, hn⟩
  · intro i n hi
    have : r[i]? = some (.brk n) := by grind
    have := h.brkT i n this
    grind
  · intro i n hi
    have : r[i]? = some (.case n) := by grind
    rcases h.caseT i n this with h | ⟨a', h, h'⟩
    · exact Or.inl h
    · exact Or.inr ⟨a', by grind [isCaseOrNop], h'⟩
  · intro i a hi
    by_cases hil : i = r.size - 1
    · have : a = .skip (n + 1) := by grind
      subst this; simp [argOf]; omega
    · exact h.args i a (by grind)
  · intro i a k' hi hs
    by_cases hil : i = r.size - 1
    · have : a = .skip (n + 1) := by grind
      subst this; simp [slotOf] at hs
    · exact h.slots i a k' (by grind) hs
  · intro s hs; obtain ⟨a', h, h'⟩ := h.subsC s hs; exact ⟨a', by grind [isCaseOrNop], h'⟩
  · intro s hs b hb; obtain ⟨a', h, h'⟩ := h.subsB s hs b hb; exact ⟨a', by grind [isBrk], h'⟩

/-- arm `)`: `result[brk] = Break(result.len() - brk - 1)` -/
theorem RInv.set_brk {r subs M b a} (h : RInv r subs M) (hb : r[b]? = some a) (ha : isBrk a = true)
    (hoff : r.size - b - 1 < 256) : RInv (r.setIfInBounds b (.brk (r.size - b - 1))) subs M := by
  have h1 := h.first
  have hbs : b < r.size := by grind
  refine ⟨?_, ?_, ?_, ?_, ?_, ?_, ?_, ?_⟩
  · grind [isBrk]
  · intro i k' hi
    have hi' : r[i]? = some (.push k') := by grind
    obtain ⟨b', hb', hn⟩ := h.adj i k' hi'
    by_cases hil2 : i + 1 = b
    · have hbj : b' = a := by grind
      subst hbj
      unfold PushNext at hn; grind [isBrk]
    · exact ⟨b', by grind, hn⟩
  · intro i n hi
    by_cases hib : i = b
    · have : n = r.size - b - 1 := by grind
      grind
    · have : r[i]? = some (.brk n) := by grind
      have := h.brkT i n this
      grind
  · intro i n hi
    have : r[i]? = some (.case n) := by grind
    rcases h.caseT i n this with h | ⟨a', h, h'⟩
    · exact Or.inl h
    · exact Or.inr ⟨a', by grind [brk_not_caseOrNop], h'⟩
  · intro i a' hi
    by_cases hil : i = b
    · have : a' = .brk (r.size - b - 1) := by grind
      subst this; simp [argOf]; omega
    · exact h.args i a' (by grind)
  · intro i a' k' hi hs
    by_cases hil : i = b
    · have : a' = .brk (r.size - b - 1) := by grind
      subst this; simp [slotOf] at hs
    · exact h.slots i a' k' (by grind) hs
  · intro s hs; obtain ⟨a', h, h'⟩ := h.subsC s hs; exact ⟨a', by grind [brk_not_caseOrNop], h'⟩
  · intro s hs b' hb'; obtain ⟨a', h, h'⟩ := h.subsB s hs b' hb'
    by_cases hbb : b' = b
    · exact ⟨.brk (r.size - b - 1), by grind, rfl⟩
    · exact ⟨a', by grind, h'⟩

/-- arm `)`: the popped sub-pattern's last case becomes `Nop` -/
theorem RInv.set_nop {r sub subs M} (h : RInv r (sub :: subs) M) :
    RInv (r.setIfInBounds sub.case .nop) subs M ∧ sub.case < r.size := by
  have h1 := h.first
  obtain ⟨a, hb, ha⟩ := h.subsC sub (by simp)
  have hbs : sub.case < r.size := by grind
  refine ⟨⟨?_, ?_, ?_, ?_, ?_, ?_, ?_, ?_⟩, hbs⟩
  · grind [isCaseOrNop]
  · intro i k' hi
    have hi' : r[i]? = some (.push k') := by grind
    obtain ⟨b', hb', hn⟩ := h.adj i k' hi'
    by_cases hil2 : i + 1 = sub.case
    · have hbj : b' = a := by grind
      subst hbj
      unfold PushNext at hn; grind [isCaseOrNop]
    · exact ⟨b', by grind, hn⟩
  · intro i n hi
    have : r[i]? = some (.brk n) := by grind
    have := h.brkT i n this
    grind
  · intro i n hi
    have hic : i ≠ sub.case := by grind
    have : r[i]? = some (.case n) := by grind
    rcases h.caseT i n this with ⟨s, hs, hsi⟩ | ⟨a', h, h'⟩
    · rcases List.mem_cons.mp hs with rfl | hs
      · exact absurd hsi.symm hic
      · exact Or.inl ⟨s, hs, hsi⟩
    · by_cases ht : i + 1 + n = sub.case
      · exact Or.inr ⟨.nop, by grind, rfl⟩
      · exact Or.inr ⟨a', by grind, h'⟩
  · intro i a' hi
    by_cases hil : i = sub.case
    · have : a' = .nop := by grind
      subst this; simp [argOf]
    · exact h.args i a' (by grind)
  · intro i a' k' hi hs
    by_cases hil : i = sub.case
    · have : a' = .nop := by grind
      subst this; simp [slotOf] at hs
    · exact h.slots i a' k' (by grind) hs
  · intro s hs; obtain ⟨a', h, h'⟩ := h.subsC s (List.mem_cons_of_mem _ hs)
    by_cases hbb : s.case = sub.case
    · exact ⟨.nop, by grind, rfl⟩
    · exact ⟨a', by grind, h'⟩
  · intro s hs b' hb'; obtain ⟨a', h, h'⟩ := h.subsB s (List.mem_cons_of_mem _ hs) b' hb'
    exact ⟨a', by grind [brk_not_caseOrNop], h'⟩

/-- arm `(`: a new sub-pattern whose `Case(0)` is pushed -/
theorem RInv.sub_start {r subs M sub} (h : RInv r subs M) (hc : sub.case = r.size) (hbk : sub.brks = []) :
    RInv (r.push (.case 0)) (sub :: subs) M := by
  have h1 := h.first
  refine ⟨?_, ?_, ?_, ?_, ?_, ?_, ?_, ?_⟩
  · grind
  · intro i k hi
    have : r[i]? = some (.push k) := by grind
    obtain ⟨b, hb, hn⟩ := h.adj i k this
    exact ⟨b, by grind, hn⟩
  · intro i n hi
    have : r[i]? = some (.brk n) := by grind
    have := h.brkT i n this
    grind
  · intro i n hi
    by_cases hil : i = r.size
    · exact Or.inl ⟨sub, by simp, by omega⟩
    · have : r[i]? = some (.case n) := by grind
      rcases h.caseT i n this with ⟨s, hs, hsi⟩ | ⟨a', h, h'⟩
      · exact Or.inl ⟨s, List.mem_cons_of_mem _ hs, hsi⟩
      · exact Or.inr ⟨a', by grind, h'⟩
  · intro i a hi
    by_cases hil : i = r.size
    · have : a = .case 0 := by grind
      subst this; simp [argOf]
    · exact h.args i a (by grind)
  · intro i a k hi hs
    by_cases hil : i = r.size
    · have : a = .case 0 := by grind
      subst this; simp [slotOf] at hs
    · exact h.slots i a k (by grind) hs
  · intro s hs
    rcases List.mem_cons.mp hs with rfl | hs
    · exact ⟨.case 0, by grind, rfl⟩
    · obtain ⟨a', h, h'⟩ := h.subsC s hs; exact ⟨a', by grind, h'⟩
  · intro s hs b hb
    rcases List.mem_cons.mp hs with rfl | hs
    · rw [hbk] at hb; cases hb
    · obtain ⟨a', h, h'⟩ := h.subsB s hs b hb; exact ⟨a', by grind, h'⟩

/-- arm `|`: `push(Break(0))`, `result[sub.case] = Case(len - sub.case - 1)`, `push(Case(0))` -/
theorem RInv.sub_case {r sub subs M sub'} (h : RInv r (sub :: subs) M)
    (hoff : r.size + 1 - sub.case - 1 < 256)
    (hc : sub'.case = r.size + 1) (hbk : sub'.brks = sub.brks ++ [r.size]) :
    RInv (((r.push (.brk 0)).setIfInBounds sub.case (.case (r.size + 1 - sub.case - 1))).push (.case 0)) (sub' :: subs) M
    ∧ sub.case < r.size := by
  have h1 := h.first
  obtain ⟨a, hb, ha⟩ := h.subsC sub (by simp)
  have hbs : sub.case < r.size := by grind
  refine ⟨⟨?_, ?_, ?_, ?_, ?_, ?_, ?_, ?_⟩, hbs⟩
  · grind [isCaseOrNop]
  · intro i k hi
    have hi' : r[i]? = some (.push k) := by grind
    obtain ⟨b', hb', hn⟩ := h.adj i k hi'
    by_cases hil2 : i + 1 = sub.case
    · have hbj : b' = a := by grind
      subst hbj
      unfold PushNext at hn; grind [isCaseOrNop]
    · exact ⟨b', by grind, hn⟩
  · intro i n hi
    by_cases hil : i = r.size
    · have : n = 0 := by grind
      grind
    · have : r[i]? = some (.brk n) := by grind
      have := h.brkT i n this
      grind
  · intro i n hi
    by_cases hil : i = r.size + 1
    · exact Or.inl ⟨sub', by simp, by omega⟩
    · by_cases hic : i = sub.case
      · have : n = r.size + 1 - sub.case - 1 := by grind
        refine Or.inr ⟨.case 0, ?_, rfl⟩
        have : i + 1 + n = r.size + 1 := by omega
        grind
      · have hi' : r[i]? = some (.case n) := by grind
        rcases h.caseT i n hi' with ⟨s, hs, hsi⟩ | ⟨a', h, h'⟩
        · rcases List.mem_cons.mp hs with rfl | hs
          · exact absurd hsi.symm hic
          · exact Or.inl ⟨s, List.mem_cons_of_mem _ hs, hsi⟩
        · by_cases ht : i + 1 + n = sub.case
          · exact Or.inr ⟨.case (r.size + 1 - sub.case - 1), by grind, rfl⟩
          · exact Or.inr ⟨a', by grind, h'⟩
  · intro i a' hi
    by_cases hil : i = r.size + 1
    · have : a' = .case 0 := by grind
      subst this; simp [argOf]
    · by_cases hic : i = sub.case
      · have : a' = .case (r.size + 1 - sub.case - 1) := by grind
        subst this; simp [argOf]; omega
      · by_cases hib : i = r.size
        · have : a' = .brk 0 := by grind
          subst this; simp [argOf]
        · exact h.args i a' (by grind)
  · intro i a' k hi hs
    by_cases hil : i = r.size + 1
    · have : a' = .case 0 := by grind
      subst this; simp [slotOf] at hs
    · by_cases hic : i = sub.case
      · have : a' = .case (r.size + 1 - sub.case - 1) := by grind
        subst this; simp [slotOf] at hs
      · by_cases hib : i = r.size
        · have : a' = .brk 0 := by grind
          subst this; simp [slotOf] at hs
        · exact h.slots i a' k (by grind) hs
  · intro s hs
    rcases List.mem_cons.mp hs with rfl | hs
    · exact ⟨.case 0, by grind, rfl⟩
    · obtain ⟨a', h, h'⟩ := h.subsC s (List.mem_cons_of_mem _ hs)
      by_cases hbb : s.case = sub.case
      · exact ⟨.case (r.size + 1 - sub.case - 1), by grind, rfl⟩
      · exact ⟨a', by grind, h'⟩
  · intro s hs b hb'
    rcases List.mem_cons.mp hs with rfl | hs
    · rw [hbk] at hb'
      rcases List.mem_append.mp hb' with hb' | hb'
      · obtain ⟨a', h, h'⟩ := h.subsB sub (by simp) b hb'
        exact ⟨a', by grind [brk_not_caseOrNop], h'⟩
      · have : b = r.size := by simpa using hb'
        exact ⟨.brk 0, by grind, rfl⟩
    · obtain ⟨a', h, h'⟩ := h.subsB s (List.mem_cons_of_mem _ hs) b hb'
      exact ⟨a', by grind [brk_not_caseOrNop], h'⟩

/-! ## The loop invariant of `parse_helper` -/

theorem maxNext_le {subs : List Sub} (h : ∀ s ∈ subs, s.saveNext ≤ 255) : maxNext subs ≤ 255 := by
  induction subs with
  | nil => simp [maxNext]
  | cons s ss ih =>
    have h1 := h s (by simp)
    have h2 := ih (fun s hs => h s (List.mem_cons_of_mem _ hs))
    simp only [maxNext]; omega

structure Inv (st : PSt) : Prop where
  r : RInv st.result st.subs (max st.save (maxNext st.subs))
  save_le : st.save ≤ 255
  depth_le : st.depth ≤ 255
  subs_le : ∀ s ∈ st.subs, s.save ≤ 255 ∧ s.saveNext ≤ 255 ∧ s.depth ≤ 255

theorem Inv.hi_le {st} (h : Inv st) : max st.save (maxNext st.subs) ≤ 255 := by
  have := h.save_le
  have := maxNext_le (fun s hs => (h.subs_le s hs).2.1)
  omega

/-- a step that neither panics nor breaks `P` -/
def Res.Good {α : Type} (P : α → Prop) : Res α → Prop
  | .ok a => P a
  | .err _ => True
  | .panic _ => False

theorem Inv.pushA {st a} (h : Inv st) (hp : isPlain a = true) (ha : argOf a < 256) (hs : slotOf a = none) :
    Inv (pushA st a) :=
  ⟨h.r.push_plain hp ha (by simp [hs]), h.save_le, h.depth_le, h.subs_le⟩

theorem opOpen_good {st} (h : Inv st) : (opOpen st).Good Inv := by
  unfold opOpen
  split
  · trivial
  · split
    · omega
    · split
      · next hb => exact ⟨h.r.open_ hb (Or.inl ⟨rfl, rfl⟩), h.save_le, by simp; omega, h.subs_le⟩
      · next hb => exact ⟨h.r.open_ hb (Or.inr (Or.inl ⟨rfl, rfl⟩)), h.save_le, by simp; omega, h.subs_le⟩
      · next hb => exact ⟨h.r.open_ hb (Or.inr (Or.inr ⟨rfl, rfl⟩)), h.save_le, by simp; omega, h.subs_le⟩
      · trivial

theorem opClose_good {st} (h : Inv st) : (opClose st).Good Inv := by
  unfold opClose
  split
  · trivial
  · split
    · omega
    · exact ⟨h.r.push_plain rfl (by simp [argOf]) (by simp [slotOf]), h.save_le, by have := h.depth_le; simp; omega, h.subs_le⟩

theorem opSubStart_good {st} (h : Inv st) : (opSubStart st).Good Inv := by
  unfold opSubStart
  refine ⟨?_, h.save_le, h.depth_le, ?_⟩
  · have := h.r.sub_start (sub := { case := st.result.size, brks := [], save := st.save, saveNext := 0, depth := st.depth }) rfl rfl
    simpa [maxNext] using this
  · intro s hs
    rcases List.mem_cons.mp hs with rfl | hs
    · exact ⟨h.save_le, by simp, h.depth_le⟩
    · exact h.subs_le s hs

theorem opSubCase_good {st} (h : Inv st) : (opSubCase st).Good Inv := by
  unfold opSubCase
  split
  · trivial
  · next sub subs hsubs =>
    have hr := h.r
    rw [hsubs] at hr
    have hsl := h.subs_le
    rw [hsubs] at hsl
    have hsub := hsl sub (by simp)
    simp only [Array.size_push, Array.size_setIfInBounds]
    by_cases hoff : st.result.size + 1 - sub.case - 1 ≥ 256
    · have hc : sub.case < st.result.size := by
        obtain ⟨a, ha, _⟩ := hr.subsC sub (by simp); grind
      rw [if_neg (by omega), if_pos hoff]; trivial
    · obtain ⟨hr', hc⟩ := hr.sub_case (sub' := { sub with saveNext := max sub.saveNext st.save, brks := sub.brks ++ [st.result.size], case := st.result.size + 1 })
        (by omega) rfl rfl
      rw [if_neg (by omega), if_neg hoff, if_neg (by omega)]
      refine ⟨?_, hsub.1, hsub.2.2, ?_⟩
      · refine hr'.mono ?_
        simp only [maxNext]; omega
      · intro s hs
        rcases List.mem_cons.mp hs with rfl | hs
        · have := h.save_le
          exact ⟨hsub.1, by simp; omega, hsub.2.2⟩
        · exact hsl s (List.mem_cons_of_mem _ hs)

theorem fillBrks_good {subs M} : ∀ (brks : List Nat) (r : Array Atom), RInv r subs M →
    (∀ b ∈ brks, ∃ a, r[b]? = some a ∧ isBrk a = true) →
    (fillBrks r brks).Good (fun r' => RInv r' subs M) := by
  intro brks
  induction brks with
  | nil => intro r h _; exact h
  | cons b bs ih =>
    intro r h hb
    obtain ⟨a, ha, hab⟩ := hb b (by simp)
    have hbs : b < r.size := by grind
    unfold fillBrks
    rw [if_neg (by omega)]
    by_cases hoff : r.size - b - 1 ≥ 256
    · rw [if_pos hoff]; trivial
    · rw [if_neg hoff, if_neg (by omega)]
      apply ih _ (h.set_brk ha hab (by omega))
      intro b' hb'
      obtain ⟨a', ha', hab'⟩ := hb b' (List.mem_cons_of_mem _ hb')
      by_cases hbb : b' = b
      · exact ⟨.brk (r.size - b - 1), by grind, rfl⟩
      · exact ⟨a', by grind, hab'⟩

theorem opSubEnd_good {st} (h : Inv st) : (opSubEnd st).Good Inv := by
  unfold opSubEnd
  split
  · trivial
  · next sub subs hsubs =>
    have hr := h.r
    rw [hsubs] at hr
    have hsl := h.subs_le
    rw [hsubs] at hsl
    have hsub := hsl sub (by simp)
    obtain ⟨hr', hc⟩ := hr.set_nop
    rw [if_neg (by omega)]
    have hb : ∀ b ∈ sub.brks, ∃ a, (st.result.setIfInBounds sub.case .nop)[b]? = some a ∧ isBrk a = true := by
      intro b hb
      obtain ⟨a, ha, hab⟩ := hr.subsB sub (by simp) b hb
      obtain ⟨a', ha', hab'⟩ := hr.subsC sub (by simp)
      exact ⟨a, by grind [brk_not_caseOrNop], hab⟩
    have := fillBrks_good sub.brks _ hr' hb
    dsimp only
    generalize fillBrks (st.result.setIfInBounds sub.case .nop) sub.brks = fb at this ⊢
    revert this
    cases fb with
    | ok r' =>
      intro hr''
      show Inv _
      refine ⟨?_, ?_, hsub.2.2, fun s hs => hsl s (List.mem_cons_of_mem _ hs)⟩
      · refine RInv.mono hr'' ?_
        simp only [maxNext]; omega
      · have := h.save_le; simp; omega
    | err k => intro _; trivial
    | panic s => intro h; exact h

theorem opSlot_good {st} {mk : Nat → Atom} (h : Inv st)
    (hmk : ∀ n, isPlain (mk n) = true ∧ argOf (mk n) = n ∧ slotOf (mk n) = some n) :
    (opSlot st mk).Good Inv := by
  unfold opSlot
  split
  · trivial
  · split
    · omega
    · obtain ⟨h1, h2, h3⟩ := hmk st.save
      refine ⟨?_, by simp; omega, h.depth_le, h.subs_le⟩
      refine (h.r.mono (M' := max (st.save + 1) (maxNext st.subs)) (by omega)).push_plain h1 (by omega) ?_
      intro k hk
      rw [h3] at hk
      cases hk
      omega

theorem opSkip_inv {st} (h : Inv st) : Inv (opSkip st).1 := by
  have hplain : Inv (pushA st (.skip 1)) := h.pushA rfl (by simp [argOf]) rfl
  unfold opSkip
  split
  · split
    · next n hb =>
      split
      · exact ⟨h.r.skip_inc hb (by omega), h.save_le, h.depth_le, h.subs_le⟩
      · exact hplain
    · exact hplain
  · exact hplain

theorem manyLower_good : ∀ (cs : List UInt8) (lb : Nat) (seen : Bool), lb < 16384 →
    (manyLower cs lb seen).Good (fun p => p.1 < 16384 ∧ p.2.2.2 <:+ cs) := by
  intro cs
  induction cs with
  | nil => intro lb seen _; trivial
  | cons c cs ih =>
    intro lb seen hlb
    unfold manyLower
    dsimp only
    split
    · exact ⟨hlb, List.suffix_cons c cs⟩
    · split
      · rw [if_neg (by omega), if_neg (by omega)]
        split
        · trivial
        · next hlt =>
          have := ih (lb * 10 + (c.toNat - 48)) true (by omega)
          revert this
          cases manyLower cs (lb * 10 + (c.toNat - 48)) true with
          | ok p => intro ⟨h1, h2⟩; exact ⟨h1, h2.trans (List.suffix_cons c cs)⟩
          | err k => intro _; trivial
          | panic s => intro h; exact h
      · trivial

theorem manyUpper_good : ∀ (cs : List UInt8) (ub : Nat), ub < 16384 →
    (manyUpper cs ub).Good (fun p => p.1 < 16384 ∧ p.2 <:+ cs) := by
  intro cs
  induction cs with
  | nil => intro ub _; trivial
  | cons c cs ih =>
    intro ub hub
    unfold manyUpper
    dsimp only
    split
    · exact ⟨hub, List.suffix_cons c cs⟩
    · split
      · rw [if_neg (by omega), if_neg (by omega)]
        split
        · trivial
        · next hlt =>
          have := ih (ub * 10 + (c.toNat - 48)) (by omega)
          revert this
          cases manyUpper cs (ub * 10 + (c.toNat - 48)) with
          | ok p => intro ⟨h1, h2⟩; exact ⟨h1, h2.trans (List.suffix_cons c cs)⟩
          | err k => intro _; trivial
          | panic s => intro h; exact h
      · trivial

theorem RInv.emitRange {r subs M n} {mk : Nat → Atom} (h : RInv r subs M)
    (hmk : ∀ x, isPlain (mk x) = true ∧ argOf (mk x) = x ∧ slotOf (mk x) = none) :
    RInv (emitRange r n mk) subs M := by
  unfold Pelite.Pattern.emitRange
  obtain ⟨h1, h2, h3⟩ := hmk (n % 256)
  dsimp only
  split
  · exact (h.push_plain rfl (by simp [argOf]; omega) (by simp [slotOf])).push_plain h1 (by omega) (by simp [h3])
  · exact h.push_plain h1 (by omega) (by simp [h3])

/-- what every arm guarantees about its successor state -/
def NextOK (rest : List UInt8) (nx : Next) : Prop := Inv nx.st ∧ nx.rest <:+ rest

theorem liftSt_good {rest} {x : Res PSt} (h : x.Good Inv) : (liftSt rest x).Good (NextOK rest) := by
  cases x with
  | ok st => exact ⟨h, List.suffix_refl _⟩
  | err k => trivial
  | panic s => exact h

theorem opMany_good {st rest} (h : Inv st) : (opMany st rest).Good (NextOK rest) := by
  unfold opMany
  have hl := manyLower_good rest 0 false (by omega)
  revert hl
  cases manyLower rest 0 false with
  | err k => intro _; trivial
  | panic s => intro h; exact h
  | ok p =>
    obtain ⟨lb, seen, chr, rest1⟩ := p
    intro ⟨hlb, hsuf⟩
    dsimp only at hlb hsuf ⊢
    have hskip : ∀ x, isPlain (Atom.skip x) = true ∧ argOf (Atom.skip x) = x ∧ slotOf (Atom.skip x) = none :=
      fun x => ⟨rfl, rfl, rfl⟩
    have hmany : ∀ x, isPlain (Atom.many x) = true ∧ argOf (Atom.many x) = x ∧ slotOf (Atom.many x) = none :=
      fun x => ⟨rfl, rfl, rfl⟩
    have hr1 : RInv (if lb > 0 then emitRange st.result lb .skip else st.result) st.subs (max st.save (maxNext st.subs)) := by
      split
      · exact h.r.emitRange hskip
      · exact h.r
    split
    · trivial
    · split
      · exact ⟨⟨hr1, h.save_le, h.depth_le, h.subs_le⟩, hsuf⟩
      · have hu := manyUpper_good rest1 0 (by omega)
        revert hu
        cases manyUpper rest1 0 with
        | err k => intro _; trivial
        | panic s => intro h; exact h
        | ok q =>
          obtain ⟨ub, rest2⟩ := q
          intro ⟨hub, hsuf2⟩
          dsimp only at hub hsuf2 ⊢
          split
          · rw [if_neg (by omega)]
            exact ⟨⟨hr1.emitRange hmany, h.save_le, h.depth_le, h.subs_le⟩, hsuf2.trans hsuf⟩
          · trivial

theorem opHex_good {st chr rest} (h : Inv st) (hc : (48 ≤ chr ∧ chr ≤ 57) ∨ (65 ≤ chr ∧ chr ≤ 70) ∨ (97 ≤ chr ∧ chr ≤ 102)) :
    (opHex st chr rest).Good (NextOK rest) := by
  unfold opHex
  rw [if_neg (by omega)]
  dsimp only
  have hhi : (if chr ≥ 97 then chr - 97 + 10 else if chr ≥ 65 then chr - 65 + 10 else chr - 48) < 16 := by
    split
    · omega
    · split <;> omega
  generalize (if chr ≥ 97 then chr - 97 + 10 else if chr ≥ 65 then chr - 65 + 10 else chr - 48) = hi at hhi ⊢
  rw [if_neg (by omega)]
  cases rest with
  | nil => trivial
  | cons c rest =>
    dsimp only
    have hlo : ∀ lo, (if c.toNat ≥ 97 ∧ c.toNat ≤ 102 then some (c.toNat - 97 + 10)
      else if c.toNat ≥ 65 ∧ c.toNat ≤ 70 then some (c.toNat - 65 + 10)
      else if c.toNat ≥ 48 ∧ c.toNat ≤ 57 then some (c.toNat - 48) else none) = some lo → lo < 16 := by
      intro lo
      split
      · intro h; cases h; omega
      · split
        · intro h; cases h; omega
        · split
          · intro h; cases h; omega
          · intro h; cases h
    revert hlo
    generalize (if c.toNat ≥ 97 ∧ c.toNat ≤ 102 then some (c.toNat - 97 + 10)
      else if c.toNat ≥ 65 ∧ c.toNat ≤ 70 then some (c.toNat - 65 + 10)
      else if c.toNat ≥ 48 ∧ c.toNat ≤ 57 then some (c.toNat - 48) else none) = lo?
    intro hlo
    cases lo? with
    | none => trivial
    | some lo =>
      have := hlo lo rfl
      dsimp only
      rw [if_neg (by omega)]
      exact ⟨h.pushA rfl (by simp [argOf]; omega) rfl, List.suffix_cons c rest⟩

theorem quoted_good {subs M} : ∀ (cs : List UInt8) (r : Array Atom), RInv r subs M →
    ∀ r' rest', quoted cs r = some (r', rest') → RInv r' subs M ∧ rest' <:+ cs := by
  intro cs
  induction cs with
  | nil => intro r _ r' rest' h; simp [quoted] at h
  | cons c cs ih =>
    intro r hr r' rest' h
    unfold quoted at h
    split at h
    · obtain ⟨h1, h2⟩ := ih _ (hr.push_plain rfl (by simp [argOf]; exact UInt8.toNat_lt c) (by simp [slotOf])) r' rest' h
      exact ⟨h1, h2.trans (List.suffix_cons c cs)⟩
    · cases h
      exact ⟨hr, List.suffix_cons c cs⟩

theorem opQuote_good {st rest} (h : Inv st) : (opQuote st rest).Good (NextOK rest) := by
  unfold opQuote
  split
  · trivial
  · next r rest' hq =>
    obtain ⟨h1, h2⟩ := quoted_good rest st.result h.r r rest' hq
    exact ⟨⟨h1, h.save_le, h.depth_le, h.subs_le⟩, h2⟩

theorem opAligned_good {st rest} (h : Inv st) : (opAligned st rest).Good (NextOK rest) := by
  unfold opAligned
  cases rest with
  | nil => trivial
  | cons o rest =>
    dsimp only
    split
    · exact ⟨h.pushA rfl (by simp [argOf]; omega) rfl, List.suffix_cons o rest⟩
    · split
      · rw [if_neg (by omega)]
        exact ⟨h.pushA rfl (by simp [argOf]; omega) rfl, List.suffix_cons o rest⟩
      · split
        · rw [if_neg (by omega)]
          exact ⟨h.pushA rfl (by simp [argOf]; omega) rfl, List.suffix_cons o rest⟩
        · trivial

theorem opRead_good {st rest} {mk1 mk2 mk4 : Nat → Atom} (h : Inv st)
    (h1 : ∀ n, isPlain (mk1 n) = true ∧ argOf (mk1 n) = n ∧ slotOf (mk1 n) = some n)
    (h2 : ∀ n, isPlain (mk2 n) = true ∧ argOf (mk2 n) = n ∧ slotOf (mk2 n) = some n)
    (h4 : ∀ n, isPlain (mk4 n) = true ∧ argOf (mk4 n) = n ∧ slotOf (mk4 n) = some n) :
    (opRead st rest mk1 mk2 mk4).Good (NextOK rest) := by
  unfold opRead
  cases rest with
  | nil => trivial
  | cons c rest =>
    dsimp only
    have key : ∀ mk : Nat → Atom, (∀ n, isPlain (mk n) = true ∧ argOf (mk n) = n ∧ slotOf (mk n) = some n) →
        Res.Good (NextOK (c :: rest)) (match opSlot st mk with
          | .ok st => .ok ⟨st, rest, true⟩
          | .err k => .err k
          | .panic s => .panic s) := by
      intro mk hmk
      have := opSlot_good h hmk
      revert this
      cases opSlot st mk with
      | ok st' => intro h'; exact ⟨h', List.suffix_cons c rest⟩
      | err k => intro _; trivial
      | panic s => intro h; exact h
    have hmk : ∀ mk, (if c.toNat = 49 then some mk1 else if c.toNat = 50 then some mk2
        else if c.toNat = 52 then some mk4 else none) = some mk →
        ∀ n, isPlain (mk n) = true ∧ argOf (mk n) = n ∧ slotOf (mk n) = some n := by
      intro mk
      split
      · intro h; cases h; exact h1
      · split
        · intro h; cases h; exact h2
        · split
          · intro h; cases h; exact h4
          · intro h; cases h
    revert hmk
    generalize (if c.toNat = 49 then some mk1 else if c.toNat = 50 then some mk2
        else if c.toNat = 52 then some mk4 else none) = mk?
    intro hmk
    cases mk? with
    | none => trivial
    | some mk => exact key mk (hmk mk rfl)

theorem classify_hex : ∀ c < 256, classify c = .hex → (48 ≤ c ∧ c ≤ 57) ∨ (65 ≤ c ∧ c ≤ 70) ∨ (97 ≤ c ∧ c ≤ 102) := by
  decide +kernel

/-- every arm of the `match`: no panic, the invariant is kept, the iterator only moves forward -/
theorem tok_good {st} (chr : Nat) (rest : List UInt8) (h : Inv st) (hchr : chr < 256) : (tok chr rest st).Good (NextOK rest) := by
  unfold tok
  split
  · exact ⟨h.pushA rfl (by simp [argOf]) rfl, List.suffix_refl _⟩
  · exact ⟨h.pushA rfl (by simp [argOf]) rfl, List.suffix_refl _⟩
  · exact ⟨h.pushA rfl (by simp [argOf]) rfl, List.suffix_refl _⟩
  · exact liftSt_good (opOpen_good h)
  · exact liftSt_good (opClose_good h)
  · exact liftSt_good (opSubStart_good h)
  · exact liftSt_good (opSubCase_good h)
  · exact liftSt_good (opSubEnd_good h)
  · exact opMany_good h
  · next hc => exact opHex_good h (classify_hex chr hchr hc)
  · exact opQuote_good h
  · exact liftSt_good (opSlot_good h (fun n => ⟨rfl, rfl, rfl⟩))
  · exact ⟨opSkip_inv h, List.suffix_refl _⟩
  · exact opAligned_good h
  · exact opRead_good h (fun n => ⟨rfl, rfl, rfl⟩) (fun n => ⟨rfl, rfl, rfl⟩) (fun n => ⟨rfl, rfl, rfl⟩)
  · exact opRead_good h (fun n => ⟨rfl, rfl, rfl⟩) (fun n => ⟨rfl, rfl, rfl⟩) (fun n => ⟨rfl, rfl, rfl⟩)
  · exact liftSt_good (opSlot_good h (fun n => ⟨rfl, rfl, rfl⟩))
  · exact ⟨h, List.suffix_refl _⟩
  · trivial

/-! ## Trimming -/

theorem trim_spec (r : Array Atom) :
    (trim r).size ≤ r.size ∧ (∀ i : Nat, i < (trim r).size → (trim r)[i]? = r[i]?) ∧
    (∀ (i : Nat) a, (trim r).size ≤ i → r[i]? = some a → isRedundant a = true) ∧
    (∀ a, (trim r).back? = some a → isRedundant a = false) := by
  fun_induction trim r with
  | case1 r hpos hred ih =>
    obtain ⟨h1, h2, h3, h4⟩ := ih
    refine ⟨by simp at h1; omega, ?_, ?_, h4⟩
    · intro i hi
      rw [h2 i hi]
      have : i < r.size - 1 := by simp at h1; omega
      grind
    · intro i a hi ha
      by_cases hil : i = r.size - 1
      · subst hil
        have : a = r[r.size - 1] := by grind
        rw [this]; exact hred
      · exact h3 i a hi (by grind)
  | case2 r hpos hred =>
    refine ⟨Nat.le_refl _, fun _ _ => rfl, ?_, ?_⟩
    · intro i a hi ha; grind
    · intro a ha
      have : a = r[r.size - 1] := by grind
      rw [this]; simpa using hred
  | case3 r hpos =>
    refine ⟨Nat.le_refl _, fun _ _ => rfl, ?_, ?_⟩
    · intro i a hi ha; grind
    · intro a ha; grind

/-! ## The loop -/

/-- the untrimmed result vector of a successful parse: all sub-patterns closed, slots below the final
save counter `M ≤ 255` -/
def FinalOK (r0 : Array Atom) : Prop := ∃ M, M ≤ 255 ∧ RInv r0 [] M

theorem finish_good {st} (h : Inv st) :
    match finish st with
    | .ok r => FinalOK st.result ∧ r = trim st.result
    | .err k => k = .stackError ∨ k = .subPattern
    | .panic _ => False := by
  unfold finish
  by_cases hd : st.depth ≠ 0
  · rw [if_pos hd]; exact Or.inl rfl
  · rw [if_neg hd]
    by_cases hs : st.subs.length ≠ 0
    · rw [if_pos hs]; exact Or.inr rfl
    · rw [if_neg hs]
      have hsubs : st.subs = [] := by
        cases hst : st.subs with
        | nil => rfl
        | cons a b => rw [hst] at hs; simp at hs
      refine ⟨⟨_, h.hi_le, ?_⟩, rfl⟩
      have := h.r
      rw [hsubs] at this ⊢
      exact this

theorem parseLoop_good (s : List UInt8) : ∀ (fuel : Nat) (rest pat : List UInt8) (st : PSt),
    Inv st → rest.length < fuel → rest <:+ pat → pat <:+ s →
    match parseLoop fuel rest pat st with
    | .ok r => ∃ r0, FinalOK r0 ∧ r = trim r0
    | .err k pat' => pat' <:+ s ∧ (0 < pat'.length ∨ k = .stackError ∨ k = .subPattern)
    | .panic _ => False
    | .diverge => False := by
  intro fuel
  induction fuel with
  | zero => intro rest pat st _ h; omega
  | succ fuel ih =>
    intro rest pat st hinv hfuel hrp hps
    unfold parseLoop
    cases rest with
    | nil =>
      dsimp only
      have := finish_good hinv
      revert this
      cases finish st with
      | ok r => intro ⟨h1, h2⟩; exact ⟨_, h1, h2⟩
      | err k => intro h; exact ⟨hps, Or.inr h⟩
      | panic site => intro h; exact h
    | cons c rest =>
      dsimp only
      have := tok_good c.toNat rest hinv (UInt8.toNat_lt c)
      revert this
      cases tok c.toNat rest st with
      | ok nx =>
        intro ⟨h1, h2⟩
        have hlen := h2.length_le
        have hnxpat : nx.rest <:+ pat := (h2.trans (List.suffix_cons c rest)).trans hrp
        apply ih nx.rest _ nx.st h1 (by simp at hfuel; omega)
        · split
          · exact List.suffix_refl _
          · exact hnxpat
        · split
          · exact hnxpat.trans hps
          · exact hps
      | err k =>
        intro _
        refine ⟨hps, Or.inl ?_⟩
        have := hrp.length_le
        simp at this; omega
      | panic site => intro h; exact h

theorem initSt_inv : Inv initSt := by
  refine ⟨⟨?_, ?_, ?_, ?_, ?_, ?_, ?_, ?_⟩, ?_, ?_, ?_⟩ <;> simp [initSt, maxNext]
  · intro i k h
    have : i = 0 := by
      rcases Nat.eq_zero_or_pos i with h0 | h0
      · exact h0
      · simp [Nat.ne_of_gt h0] at h
    subst this; simp at h
  · intro i n h
    have : i = 0 := by
      rcases Nat.eq_zero_or_pos i with h0 | h0
      · exact h0
      · simp [Nat.ne_of_gt h0] at h
    subst this; simp at h
  · intro i n h
    have : i = 0 := by
      rcases Nat.eq_zero_or_pos i with h0 | h0
      · exact h0
      · simp [Nat.ne_of_gt h0] at h
    subst this; simp at h
  · intro i a h
    have : i = 0 := by
      rcases Nat.eq_zero_or_pos i with h0 | h0
      · exact h0
      · simp [Nat.ne_of_gt h0] at h
    subst this; simp at h; subst h; simp [argOf]
  · intro i a k h hk
    have : i = 0 := by
      rcases Nat.eq_zero_or_pos i with h0 | h0
      · exact h0
      · simp [Nat.ne_of_gt h0] at h
    subst this; simp at h; subst h; simp [slotOf] at hk; omega

/-- Main lemma about `parse`: never a panic, never out of fuel; an error position is an offset into
the input; a success is the trimmed form of a vector satisfying the final invariant. -/
theorem parse_good (s : List UInt8) :
    match parse s with
    | .ok atoms => ∃ r0, FinalOK r0 ∧ atoms = (trim r0).toList
    | .err k pos => pos ≤ s.length ∧ (pos < s.length ∨ k = .stackError ∨ k = .subPattern)
    | .panic _ => False
    | .diverge => False := by
  unfold parse
  have := parseLoop_good s (s.length + 1) s s initSt initSt_inv (by omega) (List.suffix_refl _) (List.suffix_refl _)
  revert this
  cases parseLoop (s.length + 1) s s initSt with
  | ok r => intro ⟨r0, h1, h2⟩; exact ⟨r0, h1, by rw [h2]⟩
  | err k pat =>
    intro ⟨h1, h2⟩
    have := h1.length_le
    dsimp only
    rw [if_neg (by omega)]
    dsimp only
    refine ⟨by omega, ?_⟩
    rcases h2 with h2 | h2
    · exact Or.inl (by omega)
    · exact Or.inr h2
  | panic site => intro h; exact h
  | diverge => intro h; exact h

/-! ## List-level statements about the result -/

/-- Structural well-formedness of an (untrimmed) parser output. -/
structure WellFormed (l : List Atom) : Prop where
  /-- the pattern starts by recording the match position in slot 0 -/
  first : l[0]? = some (.save 0)
  /-- `Push(k)` is directly followed by another `Push(k)` (from `{{`) or by the jump atom it belongs to -/
  adj : ∀ (i k : Nat), l[i]? = some (.push k) → ∃ b, l[i+1]? = some b ∧ PushNext k b
  /-- `Case(n)` at `i` points at the `Case`/`Nop` that starts the next alternative, inside the list -/
  caseT : ∀ (i n : Nat), l[i]? = some (.case n) → ∃ a, l[i+1+n]? = some a ∧ isCaseOrNop a = true
  /-- `Break(n)` at `i` points inside the list or exactly at its end -/
  brkT : ∀ (i n : Nat), l[i]? = some (.brk n) → i + 1 + n ≤ l.length
  /-- every argument fits a `u8` -/
  args : ∀ a ∈ l, argOf a < 256
  /-- every slot index is below 255 -/
  slots : ∀ a ∈ l, ∀ k, slotOf a = some k → k < 255

theorem FinalOK.wellFormed {r0 : Array Atom} (h : FinalOK r0) : WellFormed r0.toList := by
  obtain ⟨M, hM, h⟩ := h
  refine ⟨?_, ?_, ?_, ?_, ?_, ?_⟩
  · simpa using h.first
  · intro i k hi
    obtain ⟨b, hb, hn⟩ := h.adj i k (by simpa using hi)
    exact ⟨b, by simpa using hb, hn⟩
  · intro i n hi
    rcases h.caseT i n (by simpa using hi) with ⟨s, hs, _⟩ | ⟨a, ha, hc⟩
    · cases hs
    · exact ⟨a, by simpa using ha, hc⟩
  · intro i n hi
    simpa using h.brkT i n (by simpa using hi)
  · intro a ha
    obtain ⟨i, hi⟩ := List.mem_iff_getElem?.mp ha
    exact h.args i a (by simpa using hi)
  · intro a ha k hk
    obtain ⟨i, hi⟩ := List.mem_iff_getElem?.mp ha
    have := h.slots i a k (by simpa using hi) hk
    omega

theorem trim_append (r : Array Atom) :
    ∃ tail, r.toList = (trim r).toList ++ tail ∧ (∀ a ∈ tail, isRedundant a = true) ∧
      (∀ a, (trim r).toList[(trim r).toList.length - 1]? = some a → isRedundant a = false) := by
  obtain ⟨h1, h2, h3, h4⟩ := trim_spec r
  refine ⟨r.toList.drop (trim r).size, ?_, ?_, ?_⟩
  · apply List.ext_getElem?
    intro i
    rw [List.getElem?_append]
    split
    · next hi =>
      simp at hi
      have := h2 i hi
      simp [this]
    · next hi =>
      simp at hi
      simp
      congr 1
      omega
  · intro a ha
    obtain ⟨i, hi⟩ := List.mem_iff_getElem?.mp ha
    rw [List.getElem?_drop] at hi
    have hi' : r[(trim r).size + i]? = some a := by simpa using hi
    exact h3 _ a (by omega) hi'
  · intro a ha
    apply h4 a
    rw [Array.back?_eq_getElem?]
    simpa using ha

/-- Shape of a successful parse: the returned atoms are the untrimmed, well-formed vector minus a tail
of redundant atoms (`Skip`, `Rangext`, `Pop`, `Many`), and they do not end in a redundant atom. -/
theorem parse_ok_struct {s : List UInt8} {atoms : List Atom} (h : parse s = .ok atoms) :
    ∃ tail, WellFormed (atoms ++ tail) ∧ (∀ a ∈ tail, isRedundant a = true) ∧
      (∀ a, atoms[atoms.length - 1]? = some a → isRedundant a = false) := by
  have := parse_good s
  rw [h] at this
  obtain ⟨r0, hf, rfl⟩ := this
  obtain ⟨tail, h1, h2, h3⟩ := trim_append r0
  exact ⟨tail, by rw [← h1]; exact hf.wellFormed, h2, h3⟩

theorem pushNext_not_redundant {k b} (h : PushNext k b) : isRedundant b = false := by
  rcases h with rfl | ⟨_, rfl⟩ | ⟨_, rfl⟩ | ⟨_, rfl⟩ <;> rfl

theorem caseOrNop_not_redundant {a} (h : isCaseOrNop a = true) : isRedundant a = false := by
  cases a <;> simp [isCaseOrNop] at h <;> rfl

/-- an element of `l ++ tail` that is not redundant lies in `l` when the whole tail is redundant -/
theorem getElem?_append_of_not_redundant {l tail : List Atom} {i : Nat} {a : Atom}
    (ht : ∀ a ∈ tail, isRedundant a = true) (h : (l ++ tail)[i]? = some a) (ha : isRedundant a = false) :
    l[i]? = some a := by
  rw [List.getElem?_append] at h
  split at h
  · exact h
  · have := ht a (List.mem_of_getElem? h)
    rw [ha] at this; cases this

theorem getElem?_append_left' {l tail : List Atom} {i : Nat} {a : Atom} (h : l[i]? = some a) :
    (l ++ tail)[i]? = some a := by
  have : i < l.length := by
    rcases Nat.lt_or_ge i l.length with h' | h'
    · exact h'
    · rw [List.getElem?_eq_none h'] at h; cases h
  rw [List.getElem?_append_left this]; exact h

/-! ## `save_len` -/

theorem saveLen_eq (l : List Atom) :
    saveLen l = l.foldl (fun m a => match slotOf a with | some s => max m (s + 1) | none => m) 0 := by
  unfold saveLen
  congr 1
  funext m a
  cases a <;> rfl

theorem foldl_slot_ge (l : List Atom) (m0 : Nat) :
    m0 ≤ l.foldl (fun m a => match slotOf a with | some s => max m (s + 1) | none => m) m0 := by
  induction l generalizing m0 with
  | nil => exact Nat.le_refl _
  | cons a l ih =>
    simp only [List.foldl_cons]
    refine Nat.le_trans ?_ (ih _)
    split
    · exact Nat.le_max_left _ _
    · exact Nat.le_refl _

theorem foldl_slot_mem (l : List Atom) (m0 : Nat) (a : Atom) (ha : a ∈ l) (k : Nat) (hk : slotOf a = some k) :
    k + 1 ≤ l.foldl (fun m a => match slotOf a with | some s => max m (s + 1) | none => m) m0 := by
  induction l generalizing m0 with
  | nil => cases ha
  | cons b l ih =>
    simp only [List.foldl_cons]
    rcases List.mem_cons.mp ha with rfl | ha
    · refine Nat.le_trans ?_ (foldl_slot_ge l _)
      rw [hk]; exact Nat.le_max_right _ _
    · exact ih _ ha

theorem foldl_slot_le (l : List Atom) (m0 M : Nat) (h0 : m0 ≤ M)
    (h : ∀ a ∈ l, ∀ k, slotOf a = some k → k < M) :
    l.foldl (fun m a => match slotOf a with | some s => max m (s + 1) | none => m) m0 ≤ M := by
  induction l generalizing m0 with
  | nil => exact h0
  | cons b l ih =>
    simp only [List.foldl_cons]
    apply ih
    · split
      · next s hs => have := h b (by simp) s hs; exact Nat.max_le.mpr ⟨h0, this⟩
      · exact h0
    · intro a ha; exact h a (List.mem_cons_of_mem _ ha)

/-- the advertised save length covers every slot an atom of the pattern touches -/
theorem saveLen_covers {l : List Atom} {a : Atom} (ha : a ∈ l) {k : Nat} (hk : slotOf a = some k) :
    k < saveLen l := by
  rw [saveLen_eq]
  exact foldl_slot_mem l 0 a ha k hk

theorem saveLen_le {l : List Atom} {M : Nat} (h : ∀ a ∈ l, ∀ k, slotOf a = some k → k < M) : saveLen l ≤ M := by
  rw [saveLen_eq]
  exact foldl_slot_le l 0 M (Nat.zero_le _) h

/-! ## `Push`/`Pop` balance (only for inputs without `(`: see the counterexamples in Thm/C11Parse) -/

/-- same number of `Push` and of `Pop` atoms -/
def SameCnt (r r' : Array Atom) : Prop :=
  r'.countP isPush = r.countP isPush ∧ r'.countP isPop = r.countP isPop

theorem SameCnt.refl (r : Array Atom) : SameCnt r r := ⟨rfl, rfl⟩
theorem SameCnt.trans {a b c : Array Atom} (h1 : SameCnt a b) (h2 : SameCnt b c) : SameCnt a c :=
  ⟨h2.1.trans h1.1, h2.2.trans h1.2⟩
theorem SameCnt.push {r : Array Atom} {a : Atom} (h1 : isPush a = false) (h2 : isPop a = false) :
    SameCnt r (r.push a) := by
  unfold SameCnt; simp [h1, h2]

theorem setLast_push (ys : Array Atom) (j a : Atom) : setLast (ys.push j) a = ys.push a := by
  unfold setLast
  apply Array.ext_getElem?
  intro i
  grind

/-- the balance invariant: no sub-pattern open and `#Push = #Pop + depth` -/
def Bal (st : PSt) : Prop :=
  st.subs = [] ∧ st.result.countP isPush = st.result.countP isPop + st.depth

theorem Bal.of_same {st st' : PSt} (h : Bal st) (hs : st'.subs = st.subs) (hd : st'.depth = st.depth)
    (hc : SameCnt st.result st'.result) : Bal st' := by
  unfold Bal at *
  rw [hs, hd, hc.1, hc.2]; exact h

theorem opOpen_bal {st st'} (h : Bal st) (ho : opOpen st = .ok st') : Bal st' := by
  unfold opOpen at ho
  split at ho
  · cases ho
  · split at ho
    · cases ho
    · have key : ∀ (k : Nat) (j : Atom), isPush j = false → isPop j = false → st.result.back? = some j →
          Bal { st with depth := st.depth + 1, result := (setLast st.result (.push k)).push j } := by
        intro k j hj1 hj2 hb
        obtain ⟨ys, hys⟩ := Array.back?_eq_some_iff.mp hb
        obtain ⟨h1, h2⟩ := h
        refine ⟨h1, ?_⟩
        rw [hys] at h2
        simp only [hys, setLast_push, Array.countP_push, isPush, isPop] at h2 ⊢
        simp at h2 ⊢
        omega
      split at ho
      · next hb => cases ho; exact key 1 _ rfl rfl hb
      · next hb => cases ho; exact key 4 _ rfl rfl hb
      · next hb => cases ho; exact key 0 _ rfl rfl hb
      · cases ho

theorem opClose_bal {st st'} (h : Bal st) (ho : opClose st = .ok st') : Bal st' := by
  unfold opClose at ho
  split at ho
  · cases ho
  · split at ho
    · cases ho
    · cases ho
      obtain ⟨h1, h2⟩ := h
      refine ⟨h1, ?_⟩
      simp only [Array.countP_push, isPush, isPop]
      simp
      omega

theorem opSlot_bal {st st'} {mk : Nat → Atom} (h : Bal st) (hmk : ∀ n, isPush (mk n) = false ∧ isPop (mk n) = false)
    (ho : opSlot st mk = .ok st') : Bal st' := by
  unfold opSlot at ho
  split at ho
  · cases ho
  · split at ho
    · cases ho
    · cases ho
      exact h.of_same rfl rfl (SameCnt.push (hmk _).1 (hmk _).2)

theorem opSkip_bal {st} (h : Bal st) : Bal (opSkip st).1 := by
  have hplain : Bal (pushA st (.skip 1)) := h.of_same rfl rfl (SameCnt.push rfl rfl)
  unfold opSkip
  split
  · split
    · next n hb =>
      split
      · obtain ⟨ys, hys⟩ := Array.back?_eq_some_iff.mp hb
        refine h.of_same rfl rfl ?_
        simp only [hys, setLast_push]
        unfold SameCnt
        simp [isPush, isPop]
      · exact hplain
    · exact hplain
  · exact hplain

theorem emitRange_same {r : Array Atom} {n : Nat} {mk : Nat → Atom}
    (hmk : ∀ n, isPush (mk n) = false ∧ isPop (mk n) = false) : SameCnt r (emitRange r n mk) := by
  unfold emitRange
  dsimp only
  split
  · exact (SameCnt.push rfl rfl).trans (SameCnt.push (hmk _).1 (hmk _).2)
  · exact SameCnt.push (hmk _).1 (hmk _).2

/-- `P` holds of the result when the step succeeds -/
def Res.OkP {α : Type} (P : α → Prop) : Res α → Prop
  | .ok a => P a
  | _ => True

theorem opMany_bal {st rest nx} (h : Bal st) (ho : opMany st rest = .ok nx) : Bal nx.st := by
  have key : (opMany st rest).OkP (fun nx => Bal nx.st) := by
    unfold opMany
    cases manyLower rest 0 false with
    | err k => trivial
    | panic s => trivial
    | ok p =>
      obtain ⟨lb, seen, chr, rest1⟩ := p
      dsimp only
      have hr1 : SameCnt st.result (if lb > 0 then emitRange st.result lb .skip else st.result) := by
        split
        · exact emitRange_same (fun _ => ⟨rfl, rfl⟩)
        · exact SameCnt.refl _
      split
      · trivial
      · split
        · exact h.of_same rfl rfl hr1
        · cases manyUpper rest1 0 with
          | err k => trivial
          | panic s => trivial
          | ok q =>
            obtain ⟨ub, rest2⟩ := q
            dsimp only
            split
            · split
              · trivial
              · exact h.of_same rfl rfl (hr1.trans (emitRange_same (fun _ => ⟨rfl, rfl⟩)))
            · trivial
  rw [ho] at key; exact key

theorem opHex_bal {st chr rest nx} (h : Bal st) (ho : opHex st chr rest = .ok nx) : Bal nx.st := by
  have key : (opHex st chr rest).OkP (fun nx => Bal nx.st) := by
    unfold opHex
    split
    · trivial
    · dsimp only
      generalize (if chr ≥ 97 then chr - 97 + 10 else if chr ≥ 65 then chr - 65 + 10 else chr - 48) = hi
      by_cases hh : hi ≥ 256
      · rw [if_pos hh]; trivial
      · rw [if_neg hh]
        cases rest with
        | nil => trivial
        | cons c rest =>
          dsimp only
          generalize (if c.toNat ≥ 97 ∧ c.toNat ≤ 102 then some (c.toNat - 97 + 10)
            else if c.toNat ≥ 65 ∧ c.toNat ≤ 70 then some (c.toNat - 65 + 10)
            else if c.toNat ≥ 48 ∧ c.toNat ≤ 57 then some (c.toNat - 48) else none) = lo?
          cases lo? with
          | none => trivial
          | some lo =>
            dsimp only
            by_cases hv : hi * 16 % 256 + lo ≥ 256
            · rw [if_pos hv]; trivial
            · rw [if_neg hv]
              exact h.of_same rfl rfl (SameCnt.push rfl rfl)
  rw [ho] at key; exact key

theorem quoted_same : ∀ (cs : List UInt8) (r r' : Array Atom) (rest' : List UInt8),
    quoted cs r = some (r', rest') → SameCnt r r' := by
  intro cs
  induction cs with
  | nil => intro r r' rest' h; simp [quoted] at h
  | cons c cs ih =>
    intro r r' rest' h
    unfold quoted at h
    split at h
    · exact (SameCnt.push rfl rfl).trans (ih _ _ _ h)
    · cases h; exact SameCnt.refl _

theorem opQuote_bal {st rest nx} (h : Bal st) (ho : opQuote st rest = .ok nx) : Bal nx.st := by
  unfold opQuote at ho
  split at ho
  · cases ho
  · next r rest' hq =>
    cases ho
    exact h.of_same rfl rfl (quoted_same _ _ _ _ hq)

theorem opAligned_bal {st rest nx} (h : Bal st) (ho : opAligned st rest = .ok nx) : Bal nx.st := by
  have hplain : ∀ n, Bal (pushA st (.aligned n)) := fun n => h.of_same rfl rfl (SameCnt.push rfl rfl)
  unfold opAligned at ho
  split at ho
  · cases ho
  · dsimp only at ho
    split at ho
    · cases ho; exact hplain _
    · split at ho
      · split at ho
        · cases ho
        · cases ho; exact hplain _
      · split at ho
        · split at ho
          · cases ho
          · cases ho; exact hplain _
        · cases ho

theorem opRead_bal {st rest nx} {mk1 mk2 mk4 : Nat → Atom} (h : Bal st)
    (h1 : ∀ n, isPush (mk1 n) = false ∧ isPop (mk1 n) = false)
    (h2 : ∀ n, isPush (mk2 n) = false ∧ isPop (mk2 n) = false)
    (h4 : ∀ n, isPush (mk4 n) = false ∧ isPop (mk4 n) = false)
    (ho : opRead st rest mk1 mk2 mk4 = .ok nx) : Bal nx.st := by
  unfold opRead at ho
  split at ho
  · cases ho
  · next c rest =>
    dsimp only at ho
    have hmk : ∀ mk, (if c.toNat = 49 then some mk1 else if c.toNat = 50 then some mk2
        else if c.toNat = 52 then some mk4 else none) = some mk →
        ∀ n, isPush (mk n) = false ∧ isPop (mk n) = false := by
      intro mk
      split
      · intro h; cases h; exact h1
      · split
        · intro h; cases h; exact h2
        · split
          · intro h; cases h; exact h4
          · intro h; cases h
    revert hmk ho
    generalize (if c.toNat = 49 then some mk1 else if c.toNat = 50 then some mk2
        else if c.toNat = 52 then some mk4 else none) = mk?
    intro ho hmk
    cases mk? with
    | none => cases ho
    | some mk =>
      dsimp only at ho
      cases hs : opSlot st mk with
      | ok st' => rw [hs] at ho; cases ho; exact opSlot_bal h (hmk mk rfl) hs
      | err k => rw [hs] at ho; cases ho
      | panic site => rw [hs] at ho; cases ho

theorem classify_subStart : ∀ c < 256, classify c = .subStart → c = 40 := by
  decide +kernel

theorem liftSt_ok {rest x nx} (h : liftSt rest x = .ok nx) : x = .ok nx.st := by
  cases x with
  | ok st => cases h; rfl
  | err k => cases h
  | panic s => cases h

theorem tok_bal {st chr rest nx} (hchr : chr < 256) (hc : chr ≠ 40) (h : Bal st) (ht : tok chr rest st = .ok nx) :
    Bal nx.st := by
  unfold tok at ht
  split at ht
  · cases ht; exact h.of_same rfl rfl (SameCnt.push rfl rfl)
  · cases ht; exact h.of_same rfl rfl (SameCnt.push rfl rfl)
  · cases ht; exact h.of_same rfl rfl (SameCnt.push rfl rfl)
  · exact opOpen_bal h (liftSt_ok ht)
  · exact opClose_bal h (liftSt_ok ht)
  · next hcl => exact absurd (classify_subStart chr hchr hcl) hc
  · have := liftSt_ok ht
    unfold opSubCase at this
    rw [h.1] at this; cases this
  · have := liftSt_ok ht
    unfold opSubEnd at this
    rw [h.1] at this; cases this
  · exact opMany_bal h ht
  · exact opHex_bal h ht
  · exact opQuote_bal h ht
  · exact opSlot_bal h (fun _ => ⟨rfl, rfl⟩) (liftSt_ok ht)
  · cases ht; exact opSkip_bal h
  · exact opAligned_bal h ht
  · exact opRead_bal h (fun _ => ⟨rfl, rfl⟩) (fun _ => ⟨rfl, rfl⟩) (fun _ => ⟨rfl, rfl⟩) ht
  · exact opRead_bal h (fun _ => ⟨rfl, rfl⟩) (fun _ => ⟨rfl, rfl⟩) (fun _ => ⟨rfl, rfl⟩) ht
  · exact opSlot_bal h (fun _ => ⟨rfl, rfl⟩) (liftSt_ok ht)
  · cases ht; exact h
  · cases ht

theorem parseLoop_bal : ∀ (fuel : Nat) (rest pat : List UInt8) (st : PSt) (r : Array Atom),
    Inv st → Bal st → (∀ c ∈ rest, c ≠ (40 : UInt8)) → parseLoop fuel rest pat st = .ok r →
    ∃ r0, r = trim r0 ∧ r0.countP isPush = r0.countP isPop := by
  intro fuel
  induction fuel with
  | zero => intro rest pat st r _ _ _ h; simp [parseLoop] at h
  | succ fuel ih =>
    intro rest pat st r hinv hbal hno h
    unfold parseLoop at h
    cases rest with
    | nil =>
      dsimp only at h
      unfold finish at h
      by_cases hd : st.depth ≠ 0
      · rw [if_pos hd] at h; cases h
      · rw [if_neg hd] at h
        by_cases hs : st.subs.length ≠ 0
        · rw [if_pos hs] at h; cases h
        · rw [if_neg hs] at h
          cases h
          refine ⟨st.result, rfl, ?_⟩
          have := hbal.2
          omega
    | cons c rest =>
      dsimp only at h
      have hg := tok_good c.toNat rest hinv (UInt8.toNat_lt c)
      cases ht : tok c.toNat rest st with
      | ok nx =>
        rw [ht] at h hg
        dsimp only at h
        obtain ⟨h1, h2⟩ := hg
        have hc40 : c.toNat ≠ 40 := by
          intro hc
          apply hno c (by simp)
          exact UInt8.toNat_inj.mp hc
        refine ih _ _ _ _ h1 (tok_bal (UInt8.toNat_lt c) hc40 hbal ht) ?_ h
        intro c' hc'
        exact hno c' (List.mem_cons_of_mem _ (h2.subset hc'))
      | err k => rw [ht] at h; cases h
      | panic site => rw [ht] at h; cases h

theorem initSt_bal : Bal initSt := by
  refine ⟨rfl, ?_⟩
  decide

/-- for a pattern string without the byte `(`: the untrimmed result has as many `Push` as `Pop` atoms -/
theorem parse_balanced_of_no_paren {s : List UInt8} {atoms : List Atom} (hno : ∀ c ∈ s, c ≠ (40 : UInt8))
    (h : parse s = .ok atoms) :
    ∃ tail, (∀ a ∈ tail, isRedundant a = true) ∧
      (atoms ++ tail).countP isPush = (atoms ++ tail).countP isPop := by
  unfold parse at h
  cases hl : parseLoop (s.length + 1) s s initSt with
  | ok r =>
    rw [hl] at h
    cases h
    obtain ⟨r0, rfl, hcnt⟩ := parseLoop_bal _ _ _ _ _ initSt_inv initSt_bal hno hl
    obtain ⟨tail, h1, h2, _⟩ := trim_append r0
    refine ⟨tail, h2, ?_⟩
    rw [← h1]
    simpa [Array.countP_toList] using hcnt
  | err k pat => rw [hl] at h; dsimp only at h; split at h <;> cases h
  | panic site => rw [hl] at h; cases h
  | diverge => rw [hl] at h; cases h

/-! ## Consequences of well-formedness -/

/-- the jump atom `Push(k)` was made from -/
def jumpFor (k : Nat) (b : Atom) : Prop := (k = 1 ∧ b = .jump1) ∨ (k = 4 ∧ b = .jump4) ∨ (k = 0 ∧ b = .ptr)

/-- every `Push(k)` starts a run of `Push(k)` atoms that ends in the jump atom it was made from -/
theorem WellFormed.push_run {l : List Atom} (h : WellFormed l) :
    ∀ (d i k : Nat), l.length - i ≤ d → l[i]? = some (.push k) →
      ∃ j b, i < j ∧ (∀ m, i ≤ m → m < j → l[m]? = some (.push k)) ∧ l[j]? = some b ∧ jumpFor k b := by
  intro d
  induction d with
  | zero =>
    intro i k hd hi
    have : i < l.length := by
      rcases Nat.lt_or_ge i l.length with h' | h'
      · exact h'
      · rw [List.getElem?_eq_none h'] at hi; cases hi
    omega
  | succ d ih =>
    intro i k hd hi
    have hlt : i < l.length := by
      rcases Nat.lt_or_ge i l.length with h' | h'
      · exact h'
      · rw [List.getElem?_eq_none h'] at hi; cases hi
    obtain ⟨b, hb, hn⟩ := h.adj i k hi
    rcases hn with rfl | hj
    · obtain ⟨j, b', hj1, hj2, hj3, hj4⟩ := ih (i + 1) k (by omega) hb
      refine ⟨j, b', by omega, ?_, hj3, hj4⟩
      intro m hm1 hm2
      by_cases hmi : m = i
      · subst hmi; exact hi
      · exact hj2 m (by omega) hm2
    · refine ⟨i + 1, b, by omega, ?_, hb, hj⟩
      intro m hm1 hm2
      have : m = i := by omega
      subst this; exact hi

theorem WellFormed.push_arg {l : List Atom} (h : WellFormed l) {i k : Nat} (hi : l[i]? = some (.push k)) :
    k = 0 ∨ k = 1 ∨ k = 4 := by
  obtain ⟨j, b, _, _, _, hj⟩ := h.push_run (l.length - i) i k (Nat.le_refl _) hi
  rcases hj with ⟨h, _⟩ | ⟨h, _⟩ | ⟨h, _⟩ <;> omega

/-- What survives trimming: everything except that `Break` targets may now lie beyond the end. -/
structure TrimmedOK (atoms : List Atom) : Prop where
  first : atoms[0]? = some (.save 0)
  adj : ∀ (i k : Nat), atoms[i]? = some (.push k) → ∃ b, atoms[i+1]? = some b ∧ PushNext k b
  caseT : ∀ (i n : Nat), atoms[i]? = some (.case n) → ∃ a, atoms[i+1+n]? = some a ∧ isCaseOrNop a = true
  args : ∀ a ∈ atoms, argOf a < 256
  slots : ∀ a ∈ atoms, ∀ k, slotOf a = some k → k < 255
  last : ∀ a, atoms[atoms.length - 1]? = some a → isRedundant a = false

theorem trimmedOK_of {atoms tail : List Atom} (h : WellFormed (atoms ++ tail))
    (ht : ∀ a ∈ tail, isRedundant a = true)
    (hl : ∀ a, atoms[atoms.length - 1]? = some a → isRedundant a = false) : TrimmedOK atoms := by
  refine ⟨?_, ?_, ?_, ?_, ?_, hl⟩
  · exact getElem?_append_of_not_redundant ht h.first rfl
  · intro i k hi
    obtain ⟨b, hb, hn⟩ := h.adj i k (getElem?_append_left' hi)
    exact ⟨b, getElem?_append_of_not_redundant ht hb (pushNext_not_redundant hn), hn⟩
  · intro i n hi
    obtain ⟨a, ha, hc⟩ := h.caseT i n (getElem?_append_left' hi)
    exact ⟨a, getElem?_append_of_not_redundant ht ha (caseOrNop_not_redundant hc), hc⟩
  · intro a ha; exact h.args a (List.mem_append_left _ ha)
  · intro a ha; exact h.slots a (List.mem_append_left _ ha)

/-! ## `*pat` only ever points directly behind an ASCII byte (soundness of `from_utf8_unchecked`) -/

/-- `rest'` is what remains of `c :: rest` after consuming a token whose last byte is ASCII -/
def EndsAscii (c : Nat) (rest rest' : List UInt8) : Prop :=
  (rest' = rest ∧ c < 128) ∨ ∃ mid b, rest = mid ++ b :: rest' ∧ b.toNat < 128

theorem classify_ascii : ∀ c < 256, classify c ≠ .other → c < 128 := by
  decide +kernel

theorem manyLower_ascii : ∀ (cs : List UInt8) (lb : Nat) (seen : Bool),
    (manyLower cs lb seen).OkP (fun p => ∃ mid b, cs = mid ++ b :: p.2.2.2 ∧ b.toNat < 128) := by
  intro cs
  induction cs with
  | nil => intro lb seen; trivial
  | cons c cs ih =>
    intro lb seen
    unfold manyLower
    dsimp only
    split
    · exact ⟨[], c, rfl, by omega⟩
    · split
      · split
        · trivial
        · split
          · trivial
          · split
            · trivial
            · have := ih (lb * 10 + (c.toNat - 48)) true
              revert this
              cases manyLower cs (lb * 10 + (c.toNat - 48)) true with
              | ok p => intro ⟨mid, b, h1, h2⟩; exact ⟨c :: mid, b, by rw [h1]; rfl, h2⟩
              | err k => intro _; trivial
              | panic s => intro _; trivial
      · trivial

theorem manyUpper_ascii : ∀ (cs : List UInt8) (ub : Nat),
    (manyUpper cs ub).OkP (fun p => ∃ mid b, cs = mid ++ b :: p.2 ∧ b.toNat < 128) := by
  intro cs
  induction cs with
  | nil => intro ub; trivial
  | cons c cs ih =>
    intro ub
    unfold manyUpper
    dsimp only
    split
    · exact ⟨[], c, rfl, by omega⟩
    · split
      · split
        · trivial
        · split
          · trivial
          · split
            · trivial
            · have := ih (ub * 10 + (c.toNat - 48))
              revert this
              cases manyUpper cs (ub * 10 + (c.toNat - 48)) with
              | ok p => intro ⟨mid, b, h1, h2⟩; exact ⟨c :: mid, b, by rw [h1]; rfl, h2⟩
              | err k => intro _; trivial
              | panic s => intro _; trivial
      · trivial

theorem opMany_ascii (st : PSt) (rest : List UInt8) :
    (opMany st rest).OkP (fun nx => ∃ mid b, rest = mid ++ b :: nx.rest ∧ b.toNat < 128) := by
  unfold opMany
  have hl := manyLower_ascii rest 0 false
  revert hl
  cases manyLower rest 0 false with
  | err k => intro _; trivial
  | panic s => intro _; trivial
  | ok p =>
    obtain ⟨lb, seen, chr, rest1⟩ := p
    intro ⟨mid, b, h1, h2⟩
    dsimp only at h1 ⊢
    split
    · trivial
    · split
      · exact ⟨mid, b, h1, h2⟩
      · have hu := manyUpper_ascii rest1 0
        revert hu
        cases manyUpper rest1 0 with
        | err k => intro _; trivial
        | panic s => intro _; trivial
        | ok q =>
          obtain ⟨ub, rest2⟩ := q
          intro ⟨mid2, b2, h3, h4⟩
          dsimp only at h3 ⊢
          split
          · split
            · trivial
            · exact ⟨mid ++ b :: mid2, b2, by rw [h1, h3]; simp, h4⟩
          · trivial

theorem opHex_ascii (st : PSt) (chr : Nat) (rest : List UInt8) :
    (opHex st chr rest).OkP (fun nx => ∃ mid b, rest = mid ++ b :: nx.rest ∧ b.toNat < 128) := by
  unfold opHex
  split
  · trivial
  · dsimp only
    generalize (if chr ≥ 97 then chr - 97 + 10 else if chr ≥ 65 then chr - 65 + 10 else chr - 48) = hi
    by_cases hh : hi ≥ 256
    · rw [if_pos hh]; trivial
    · rw [if_neg hh]
      cases rest with
      | nil => trivial
      | cons c rest =>
        dsimp only
        have hlo : ∀ lo, (if c.toNat ≥ 97 ∧ c.toNat ≤ 102 then some (c.toNat - 97 + 10)
          else if c.toNat ≥ 65 ∧ c.toNat ≤ 70 then some (c.toNat - 65 + 10)
          else if c.toNat ≥ 48 ∧ c.toNat ≤ 57 then some (c.toNat - 48) else none) = some lo → c.toNat < 128 := by
          intro lo
          split
          · intro _; omega
          · split
            · intro _; omega
            · split
              · intro _; omega
              · intro h; cases h
        revert hlo
        generalize (if c.toNat ≥ 97 ∧ c.toNat ≤ 102 then some (c.toNat - 97 + 10)
          else if c.toNat ≥ 65 ∧ c.toNat ≤ 70 then some (c.toNat - 65 + 10)
          else if c.toNat ≥ 48 ∧ c.toNat ≤ 57 then some (c.toNat - 48) else none) = lo?
        intro hlo
        cases lo? with
        | none => trivial
        | some lo =>
          dsimp only
          by_cases hv : hi * 16 % 256 + lo ≥ 256
          · rw [if_pos hv]; trivial
          · rw [if_neg hv]
            exact ⟨[], c, rfl, hlo lo rfl⟩

theorem quoted_ascii : ∀ (cs : List UInt8) (r r' : Array Atom) (rest' : List UInt8),
    quoted cs r = some (r', rest') → ∃ mid b, cs = mid ++ b :: rest' ∧ b.toNat < 128 := by
  intro cs
  induction cs with
  | nil => intro r r' rest' h; simp [quoted] at h
  | cons c cs ih =>
    intro r r' rest' h
    unfold quoted at h
    split at h
    · obtain ⟨mid, b, h1, h2⟩ := ih _ _ _ h
      exact ⟨c :: mid, b, by rw [h1]; rfl, h2⟩
    · next hc =>
      cases h
      exact ⟨[], c, rfl, by omega⟩

theorem opQuote_ascii (st : PSt) (rest : List UInt8) :
    (opQuote st rest).OkP (fun nx => ∃ mid b, rest = mid ++ b :: nx.rest ∧ b.toNat < 128) := by
  unfold opQuote
  split
  · trivial
  · next r rest' hq => exact quoted_ascii _ _ _ _ hq

theorem opAligned_ascii (st : PSt) (rest : List UInt8) :
    (opAligned st rest).OkP (fun nx => ∃ mid b, rest = mid ++ b :: nx.rest ∧ b.toNat < 128) := by
  unfold opAligned
  cases rest with
  | nil => trivial
  | cons o rest =>
    dsimp only
    split
    · exact ⟨[], o, rfl, by omega⟩
    · split
      · split
        · trivial
        · exact ⟨[], o, rfl, by omega⟩
      · split
        · split
          · trivial
          · exact ⟨[], o, rfl, by omega⟩
        · trivial

theorem opRead_ascii (st : PSt) (rest : List UInt8) (mk1 mk2 mk4 : Nat → Atom) :
    (opRead st rest mk1 mk2 mk4).OkP (fun nx => ∃ mid b, rest = mid ++ b :: nx.rest ∧ b.toNat < 128) := by
  unfold opRead
  cases rest with
  | nil => trivial
  | cons c rest =>
    dsimp only
    have hmk : ∀ mk, (if c.toNat = 49 then some mk1 else if c.toNat = 50 then some mk2
        else if c.toNat = 52 then some mk4 else none) = some mk → c.toNat < 128 := by
      intro mk
      split
      · intro _; omega
      · split
        · intro _; omega
        · split
          · intro _; omega
          · intro h; cases h
    revert hmk
    generalize (if c.toNat = 49 then some mk1 else if c.toNat = 50 then some mk2
        else if c.toNat = 52 then some mk4 else none) = mk?
    intro hmk
    cases mk? with
    | none => trivial
    | some mk =>
      dsimp only
      cases opSlot st mk with
      | ok st' => exact ⟨[], c, rfl, hmk mk rfl⟩
      | err k => trivial
      | panic s => trivial

theorem liftSt_rest {rest x nx} (h : liftSt rest x = .ok nx) : nx.rest = rest := by
  cases x with
  | ok st => cases h; rfl
  | err k => cases h
  | panic s => cases h

/-- every successfully consumed token ends with an ASCII byte -/
theorem tok_ascii {st chr rest nx} (hchr : chr < 256) (ht : tok chr rest st = .ok nx) :
    EndsAscii chr rest nx.rest := by
  have hcls : classify chr ≠ .other → chr < 128 := classify_ascii chr hchr
  unfold tok at ht
  split at ht
  · next hc => cases ht; exact Or.inl ⟨rfl, hcls (by rw [hc]; decide)⟩
  · next hc => cases ht; exact Or.inl ⟨rfl, hcls (by rw [hc]; decide)⟩
  · next hc => cases ht; exact Or.inl ⟨rfl, hcls (by rw [hc]; decide)⟩
  · next hc => exact Or.inl ⟨liftSt_rest ht, hcls (by rw [hc]; decide)⟩
  · next hc => exact Or.inl ⟨liftSt_rest ht, hcls (by rw [hc]; decide)⟩
  · next hc => exact Or.inl ⟨liftSt_rest ht, hcls (by rw [hc]; decide)⟩
  · next hc => exact Or.inl ⟨liftSt_rest ht, hcls (by rw [hc]; decide)⟩
  · next hc => exact Or.inl ⟨liftSt_rest ht, hcls (by rw [hc]; decide)⟩
  · have := opMany_ascii st rest; rw [ht] at this; exact Or.inr this
  · have := opHex_ascii st chr rest; rw [ht] at this; exact Or.inr this
  · have := opQuote_ascii st rest; rw [ht] at this; exact Or.inr this
  · next hc => exact Or.inl ⟨liftSt_rest ht, hcls (by rw [hc]; decide)⟩
  · next hc => cases ht; exact Or.inl ⟨rfl, hcls (by rw [hc]; decide)⟩
  · have := opAligned_ascii st rest; rw [ht] at this; exact Or.inr this
  · have := opRead_ascii st rest .readI8 .readI16 .readI32; rw [ht] at this; exact Or.inr this
  · have := opRead_ascii st rest .readU8 .readU16 .readU32; rw [ht] at this; exact Or.inr this
  · next hc => exact Or.inl ⟨liftSt_rest ht, hcls (by rw [hc]; decide)⟩
  · next hc => cases ht; exact Or.inl ⟨rfl, hcls (by rw [hc]; decide)⟩
  · cases ht

/-- the states of the `while let` loop reachable on input `s`: (iterator, `*pat`, locals) -/
inductive Reach (s : List UInt8) : List UInt8 → List UInt8 → PSt → Prop
  | init : Reach s s s initSt
  | step {c rest pat st nx} : Reach s (c :: rest) pat st → tok c.toNat rest st = .ok nx →
      Reach s nx.rest (if nx.upd then nx.rest else pat) nx.st

/-- `pat` is the whole input or starts directly behind an ASCII byte of it -/
def Bnd (s pat : List UInt8) : Prop := pat = s ∨ ∃ pre b, s = pre ++ b :: pat ∧ b.toNat < 128

theorem Reach.bnd {s rest pat st} (h : Reach s rest pat st) : (∃ pre, s = pre ++ rest) ∧ Bnd s pat := by
  induction h with
  | init => exact ⟨⟨[], rfl⟩, Or.inl rfl⟩
  | step hr ht ih =>
    rename_i c rest pat st nx
    obtain ⟨⟨pre, hpre⟩, hb⟩ := ih
    have ha := tok_ascii (UInt8.toNat_lt c) ht
    have hsuf : ∃ pre', s = pre' ++ nx.rest ∧ ∃ pre'' b, s = pre'' ++ b :: nx.rest ∧ b.toNat < 128 := by
      rcases ha with ⟨h1, h2⟩ | ⟨mid, b, h1, h2⟩
      · exact ⟨pre ++ [c], by rw [hpre, h1]; simp, pre, c, by rw [hpre, h1], h2⟩
      · exact ⟨pre ++ c :: mid ++ [b], by rw [hpre, h1]; simp, pre ++ c :: mid, b, by rw [hpre, h1]; simp, h2⟩
    obtain ⟨pre', h1, pre'', b, h2, h3⟩ := hsuf
    refine ⟨⟨pre', h1⟩, ?_⟩
    split
    · exact Or.inr ⟨pre'', b, h2, h3⟩
    · exact hb

theorem parseLoop_err_reach (s : List UInt8) : ∀ (fuel : Nat) (rest pat : List UInt8) (st : PSt),
    Reach s rest pat st → ∀ k pat', parseLoop fuel rest pat st = .err k pat' → ∃ rest' st', Reach s rest' pat' st' := by
  intro fuel
  induction fuel with
  | zero => intro rest pat st _ k pat' h; simp [parseLoop] at h
  | succ fuel ih =>
    intro rest pat st hr k pat' h
    unfold parseLoop at h
    cases rest with
    | nil =>
      dsimp only at h
      cases hf : finish st with
      | ok r => rw [hf] at h; cases h
      | err k' => rw [hf] at h; cases h; exact ⟨_, _, hr⟩
      | panic site => rw [hf] at h; cases h
    | cons c rest =>
      dsimp only at h
      cases ht : tok c.toNat rest st with
      | ok nx => rw [ht] at h; exact ih _ _ _ (Reach.step hr ht) k pat' h
      | err k' => rw [ht] at h; cases h; exact ⟨_, _, hr⟩
      | panic site => rw [ht] at h; cases h

/-- an error position is 0 or directly behind an ASCII byte: a char boundary of any UTF-8 input -/
theorem parse_err_boundary {s : List UInt8} {k : PatErr} {pos : Nat} (h : parse s = .err k pos) :
    pos = 0 ∨ ∃ b, s[pos - 1]? = some b ∧ b.toNat < 128 := by
  unfold parse at h
  cases hl : parseLoop (s.length + 1) s s initSt with
  | ok r => rw [hl] at h; cases h
  | err k' pat =>
    rw [hl] at h
    dsimp only at h
    split at h
    · cases h
    · cases h
      obtain ⟨rest', st', hr⟩ := parseLoop_err_reach s _ _ _ _ Reach.init _ _ hl
      rcases hr.bnd.2 with rfl | ⟨pre, b, h1, h2⟩
      · left; omega
      · right
        refine ⟨b, ?_, h2⟩
        have : s.length - pat.length - 1 = pre.length := by rw [h1]; simp; omega
        rw [this, h1]
        simp
  | panic site => rw [hl] at h; cases h
  | diverge => rw [hl] at h; cases h

-- The lemmas about the macro's literal unescaper (`unescape`, `escapeWith`, `Spec.rustLitValue`) are in
-- Lemmas/RustLiteral.lean.

end Pelite.Pattern
