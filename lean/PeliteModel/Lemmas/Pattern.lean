import PeliteModel.Model.Pattern
/-!
Helper lemmas for the pattern parser model: the loop invariant `Inv` of `parse_helper`, its
preservation by every arm of the `match`, absence of panics, and the facts about trimming.
Core-only.
-/
namespace Pelite.Pattern

/-! ## Vocabulary -/

def isCaseOrNop : Atom → Bool | .case _ | .nop => true | _ => false
def isBrk : Atom → Bool | .brk _ => true | _ => false
/-- atoms that are neither `Push` nor sub-pattern bookkeeping -/
def isPlain : Atom → Bool | .push _ | .brk _ | .case _ => false | _ => true
def isPush : Atom → Bool | .push _ => true | _ => false
def isPop : Atom → Bool | .pop => true | _ => false

/-- the save slot an atom reads or writes (exactly the atoms `save_len` looks at) -/
def slotOf : Atom → Option Nat
  | .save s | .pir s | .check s | .zero s | .readI8 s | .readI16 s | .readI32 s
  | .readU8 s | .readU16 s | .readU32 s => some s
  | _ => none

/-- the `u8` argument of an atom (0 when it has none) -/
def argOf : Atom → Nat
  | .byte n | .save n | .push n | .fuzzy n | .skip n | .back n | .rangext n | .many n | .pir n | .check n
  | .aligned n | .readI8 n | .readU8 n | .readI16 n | .readU16 n | .readI32 n | .readU32 n | .zero n
  | .case n | .brk n => n
  | _ => 0

/-- what may directly follow `Push(k)`: the same `Push(k)` again (from `{{`) or the jump atom it was made from -/
def PushNext (k : Nat) (b : Atom) : Prop :=
  b = .push k ∨ (k = 1 ∧ b = .jump1) ∨ (k = 4 ∧ b = .jump4) ∨ (k = 0 ∧ b = .ptr)

def maxNext : List Sub → Nat
  | [] => 0
  | s :: ss => max s.saveNext (maxNext ss)

/-- Invariant of the result vector relative to the open sub-patterns and the save high-water mark `M`. -/
structure RInv (r : Array Atom) (subs : List Sub) (M : Nat) : Prop where
  first : r[0]? = some (.save 0)
  adj : ∀ (i k : Nat), r[i]? = some (.push k) → ∃ b, r[i+1]? = some b ∧ PushNext k b
  brkT : ∀ (i n : Nat), r[i]? = some (.brk n) → i + 1 + n ≤ r.size
  caseT : ∀ (i n : Nat), r[i]? = some (.case n) →
    (∃ s ∈ subs, s.case = i) ∨ (∃ a, r[i+1+n]? = some a ∧ isCaseOrNop a = true)
  args : ∀ (i : Nat) a, r[i]? = some a → argOf a < 256
  slots : ∀ (i : Nat) a k, r[i]? = some a → slotOf a = some k → k < M
  subsC : ∀ s ∈ subs, ∃ a, r[s.case]? = some a ∧ isCaseOrNop a = true
  subsB : ∀ s ∈ subs, ∀ b ∈ s.brks, ∃ a, r[b]? = some a ∧ isBrk a = true

theorem brk_not_caseOrNop {a : Atom} (h : isBrk a = true) (h' : isCaseOrNop a = true) : False := by
  cases a <;> simp [isBrk, isCaseOrNop] at h h'

theorem get_push_inv {r : Array Atom} {i : Nat} {a b} (h : (r.push b)[i]? = some a) :
    r[i]? = some a ∨ (i = r.size ∧ a = b) := by grind

theorem RInv.mono {r subs M M'} (h : RInv r subs M) (hM : M ≤ M') : RInv r subs M' :=
  ⟨h.first, h.adj, h.brkT, h.caseT, h.args, fun i a k h1 h2 => Nat.lt_of_lt_of_le (h.slots i a k h1 h2) hM,
   h.subsC, h.subsB⟩

theorem RInv.size_pos {r subs M} (h : RInv r subs M) : 0 < r.size := by
  have := h.first; grind

/-- the last atom is never a `Push` (a `Push` always has a successor) -/
theorem RInv.back_not_push {r subs M k} (h : RInv r subs M) : r.back? ≠ some (.push k) := by
  intro hb
  obtain ⟨b, hb', _⟩ := h.adj (r.size - 1) k (by grind)
  have := h.size_pos
  grind

/-- `result.push(a)` for an atom that is neither `Push`, `Case` nor `Break` -/
theorem RInv.push_plain {r subs M a} (h : RInv r subs M) (hp : isPlain a = true) (ha : argOf a < 256)
    (hs : ∀ k, slotOf a = some k → k < M) : RInv (r.push a) subs M := by
  have h1 := h.first
  refine ⟨?_, ?_, ?_, ?_, ?_, ?_, ?_, ?_⟩
  · grind
  · intro i k hi
    have : r[i]? = some (.push k) := by grind [isPlain]
    obtain ⟨b, hb, hn⟩ := h.adj i k this
    exact ⟨b, by grind, hn⟩
  · intro i n hi
    have : r[i]? = some (.brk n) := by grind [isPlain]
    have := h.brkT i n this
    grind
  · intro i n hi
    have : r[i]? = some (.case n) := by grind [isPlain]
    rcases h.caseT i n this with h | ⟨a', h, h'⟩
    · exact Or.inl h
    · exact Or.inr ⟨a', by grind, h'⟩
  · intro i a' hi
    rcases get_push_inv hi with hi | ⟨_, rfl⟩
    · exact h.args i a' hi
    · exact ha
  · intro i a' k hi hk
    rcases get_push_inv hi with hi | ⟨_, rfl⟩
    · exact h.slots i a' k hi hk
    · exact hs k hk
  · intro s hs; obtain ⟨a', h, h'⟩ := h.subsC s hs; exact ⟨a', by grind, h'⟩
  · intro s hs b hb; obtain ⟨a', h, h'⟩ := h.subsB s hs b hb; exact ⟨a', by grind, h'⟩

/-- arm `{`: `mem::replace(last, Push(k))` then `push(jump)` -/
theorem RInv.open_ {r subs M k j} (h : RInv r subs M) (hb : r.back? = some j)
    (hj : (k = 1 ∧ j = .jump1) ∨ (k = 4 ∧ j = .jump4) ∨ (k = 0 ∧ j = .ptr)) :
    RInv ((setLast r (.push k)).push j) subs M := by
  have hsz := h.size_pos
  have h1 := h.first
  have hlast : r[r.size - 1]? = some j := by grind
  have hjplain : isPlain j = true ∧ isCaseOrNop j = false ∧ isBrk j = false ∧ slotOf j = none ∧ argOf j = 0 ∧ j ≠ .save 0 := by
    rcases hj with ⟨_, rfl⟩ | ⟨_, rfl⟩ | ⟨_, rfl⟩ <;> simp [isPlain, isCaseOrNop, isBrk, slotOf, argOf]
  unfold setLast
  refine ⟨?_, ?_, ?_, ?_, ?_, ?_, ?_, ?_⟩
  · grind
  · intro i k' hi
    by_cases hil : i = r.size - 1
    · subst hil
      refine ⟨j, by grind, ?_⟩
      have : k' = k := by grind
      subst this
      unfold PushNext; grind
    · have hi' : r[i]? = some (.push k') := by grind [isPlain]
      obtain ⟨b, hb', hn⟩ := h.adj i k' hi'
      by_cases hil2 : i + 1 = r.size - 1
      · have hbj : b = j := by grind
        subst hbj
        have : k' = k := by unfold PushNext at hn; grind
        subst this
        exact ⟨.push k', by grind, Or.inl rfl⟩
      · exact ⟨b, by grind, hn⟩
  · intro i n hi
    have : r[i]? = some (.brk n) := by grind [isPlain]
    have := h.brkT i n this
    grind
  · intro i n hi
    have : r[i]? = some (.case n) := by grind [isPlain]
    rcases h.caseT i n this with h | ⟨a', h, h'⟩
    · exact Or.inl h
    · exact Or.inr ⟨a', by grind, h'⟩
  · intro i a hi
    by_cases hil : i = r.size - 1
    · have : a = .push k := by grind
      subst this; simp [argOf]; omega
    · by_cases hil2 : i = r.size
      · have : a = j := by grind
        subst this; omega
      · exact h.args i a (by grind)
  · intro i a k' hi hs
    by_cases hil : i = r.size - 1
    · have : a = .push k := by grind
      subst this; simp [slotOf] at hs
    · by_cases hil2 : i = r.size
      · have : a = j := by grind
        subst this; grind
      · exact h.slots i a k' (by grind) hs
  · intro s hs; obtain ⟨a', h, h'⟩ := h.subsC s hs; exact ⟨a', by grind, h'⟩
  · intro s hs b hb; obtain ⟨a', h, h'⟩ := h.subsB s hs b hb; exact ⟨a', by grind, h'⟩

/-- arm `?`, coalescing: the last atom `Skip(n)` becomes `Skip(n+1)` -/
theorem RInv.skip_inc {r subs M n} (h : RInv r subs M) (hb : r.back? = some (.skip n)) (hn : n < 255) :
    RInv (setLast r (.skip (n + 1))) subs M := by
  have hsz := h.size_pos
  have h1 := h.first
  have hlast : r[r.size - 1]? = some (.skip n) := by grind
  unfold setLast
  refine ⟨?_, ?_, ?_, ?_, ?_, ?_, ?_, ?_⟩
  · grind
  · intro i k' hi
    have hi' : r[i]? = some (.push k') := by grind
    obtain ⟨b, hb', hn⟩ := h.adj i k' hi'
    by_cases hil2 : i + 1 = r.size - 1
    · have hbj : b = .skip n := by grind
      subst hbj
      unfold PushNext at hn; grind
    · exact ⟨b, by grind, hn⟩
  · intro i n hi
    have : r[i]? = some (.brk n) := by grind
    have := h.brkT i n this
    grind
  · intro i n hi
    have : r[i]? = some (.case n) := by grind
    rcases h.caseT i n this with h | ⟨a', h, h'⟩
    · exact Or.inl h
    · exact Or.inr ⟨a', by grind [isCaseOrNop], h'⟩
  · intro i a hi
    by_cases hil : i = r.size - 1
    · have : a = .skip (n + 1) := by grind
      subst this; simp [argOf]; omega
    · exact h.args i a (by grind)
  · intro i a k' hi hs
    by_cases hil : i = r.size - 1
    · have : a = .skip (n + 1) := by grind
      subst this; simp [slotOf] at hs
    · exact h.slots i a k' (by grind) hs
  · intro s hs; obtain ⟨a', h, h'⟩ := h.subsC s hs; exact ⟨a', by grind [isCaseOrNop], h'⟩
  · intro s hs b hb; obtain ⟨a', h, h'⟩ := h.subsB s hs b hb; exact ⟨a', by grind [isBrk], h'⟩

/-- arm `)`: `result[brk] = Break(result.len() - brk - 1)` -/
theorem RInv.set_brk {r subs M b a} (h : RInv r subs M) (hb : r[b]? = some a) (ha : isBrk a = true)
    (hoff : r.size - b - 1 < 256) : RInv (r.setIfInBounds b (.brk (r.size - b - 1))) subs M := by
  have h1 := h.first
  have hbs : b < r.size := by grind
  refine ⟨?_, ?_, ?_, ?_, ?_, ?_, ?_, ?_⟩
  · grind [isBrk]
  · intro i k' hi
    have hi' : r[i]? = some (.push k') := by grind
    obtain ⟨b', hb', hn⟩ := h.adj i k' hi'
    by_cases hil2 : i + 1 = b
    · have hbj : b' = a := by grind
      subst hbj
      unfold PushNext at hn; grind [isBrk]
    · exact ⟨b', by grind, hn⟩
  · intro i n hi
    by_cases hib : i = b
    · have : n = r.size - b - 1 := by grind
      grind
    · have : r[i]? = some (.brk n) := by grind
      have := h.brkT i n this
      grind
  · intro i n hi
    have : r[i]? = some (.case n) := by grind
    rcases h.caseT i n this with h | ⟨a', h, h'⟩
    · exact Or.inl h
    · exact Or.inr ⟨a', by grind [brk_not_caseOrNop], h'⟩
  · intro i a' hi
    by_cases hil : i = b
    · have : a' = .brk (r.size - b - 1) := by grind
      subst this; simp [argOf]; omega
    · exact h.args i a' (by grind)
  · intro i a' k' hi hs
    by_cases hil : i = b
    · have : a' = .brk (r.size - b - 1) := by grind
      subst this; simp [slotOf] at hs
    · exact h.slots i a' k' (by grind) hs
  · intro s hs; obtain ⟨a', h, h'⟩ := h.subsC s hs; exact ⟨a', by grind [brk_not_caseOrNop], h'⟩
  · intro s hs b' hb'; obtain ⟨a', h, h'⟩ := h.subsB s hs b' hb'
    by_cases hbb : b' = b
    · exact ⟨.brk (r.size - b - 1), by grind, rfl⟩
    · exact ⟨a', by grind, h'⟩

/-- arm `)`: the popped sub-pattern's last case becomes `Nop` -/
theorem RInv.set_nop {r sub subs M} (h : RInv r (sub :: subs) M) :
    RInv (r.setIfInBounds sub.case .nop) subs M ∧ sub.case < r.size := by
  have h1 := h.first
  obtain ⟨a, hb, ha⟩ := h.subsC sub (by simp)
  have hbs : sub.case < r.size := by grind
  refine ⟨⟨?_, ?_, ?_, ?_, ?_, ?_, ?_, ?_⟩, hbs⟩
  · grind [isCaseOrNop]
  · intro i k' hi
    have hi' : r[i]? = some (.push k') := by grind
    obtain ⟨b', hb', hn⟩ := h.adj i k' hi'
    by_cases hil2 : i + 1 = sub.case
    · have hbj : b' = a := by grind
      subst hbj
      unfold PushNext at hn; grind [isCaseOrNop]
    · exact ⟨b', by grind, hn⟩
  · intro i n hi
    have : r[i]? = some (.brk n) := by grind
    have := h.brkT i n this
    grind
  · intro i n hi
    have hic : i ≠ sub.case := by grind
    have : r[i]? = some (.case n) := by grind
    rcases h.caseT i n this with ⟨s, hs, hsi⟩ | ⟨a', h, h'⟩
    · rcases List.mem_cons.mp hs with rfl | hs
      · exact absurd hsi.symm hic
      · exact Or.inl ⟨s, hs, hsi⟩
    · by_cases ht : i + 1 + n = sub.case
      · exact Or.inr ⟨.nop, by grind, rfl⟩
      · exact Or.inr ⟨a', by grind, h'⟩
  · intro i a' hi
    by_cases hil : i = sub.case
    · have : a' = .nop := by grind
      subst this; simp [argOf]
    · exact h.args i a' (by grind)
  · intro i a' k' hi hs
    by_cases hil : i = sub.case
    · have : a' = .nop := by grind
      subst this; simp [slotOf] at hs
    · exact h.slots i a' k' (by grind) hs
  · intro s hs; obtain ⟨a', h, h'⟩ := h.subsC s (List.mem_cons_of_mem _ hs)
    by_cases hbb : s.case = sub.case
    · exact ⟨.nop, by grind, rfl⟩
    · exact ⟨a', by grind, h'⟩
  · intro s hs b' hb'; obtain ⟨a', h, h'⟩ := h.subsB s (List.mem_cons_of_mem _ hs) b' hb'
    exact ⟨a', by grind [brk_not_caseOrNop], h'⟩

/-- arm `(`: a new sub-pattern whose `Case(0)` is pushed -/
theorem RInv.sub_start {r subs M sub} (h : RInv r subs M) (hc : sub.case = r.size) (hbk : sub.brks = []) :
    RInv (r.push (.case 0)) (sub :: subs) M := by
  have h1 := h.first
  refine ⟨?_, ?_, ?_, ?_, ?_, ?_, ?_, ?_⟩
  · grind
  · intro i k hi
    have : r[i]? = some (.push k) := by grind
    obtain ⟨b, hb, hn⟩ := h.adj i k this
    exact ⟨b, by grind, hn⟩
  · intro i n hi
    have : r[i]? = some (.brk n) := by grind
    have := h.brkT i n this
    grind
  · intro i n hi
    by_cases hil : i = r.size
    · exact Or.inl ⟨sub, by simp, by omega⟩
    · have : r[i]? = some (.case n) := by grind
      rcases h.caseT i n this with ⟨s, hs, hsi⟩ | ⟨a', h, h'⟩
      · exact Or.inl ⟨s, List.mem_cons_of_mem _ hs, hsi⟩
      · exact Or.inr ⟨a', by grind, h'⟩
  · intro i a hi
    by_cases hil : i = r.size
    · have : a = .case 0 := by grind
      subst this; simp [argOf]
    · exact h.args i a (by grind)
  · intro i a k hi hs
    by_cases hil : i = r.size
    · have : a = .case 0 := by grind
      subst this; simp [slotOf] at hs
    · exact h.slots i a k (by grind) hs
  · intro s hs
    rcases List.mem_cons.mp hs with rfl | hs
    · exact ⟨.case 0, by grind, rfl⟩
    · obtain ⟨a', h, h'⟩ := h.subsC s hs; exact ⟨a', by grind, h'⟩
  · intro s hs b hb
    rcases List.mem_cons.mp hs with rfl | hs
    · rw [hbk] at hb; cases hb
    · obtain ⟨a', h, h'⟩ := h.subsB s hs b hb; exact ⟨a', by grind, h'⟩

/-- arm `|`: `push(Break(0))`, `result[sub.case] = Case(len - sub.case - 1)`, `push(Case(0))` -/
theorem RInv.sub_case {r sub subs M sub'} (h : RInv r (sub :: subs) M)
    (hoff : r.size + 1 - sub.case - 1 < 256)
    (hc : sub'.case = r.size + 1) (hbk : sub'.brks = sub.brks ++ [r.size]) :
    RInv (((r.push (.brk 0)).setIfInBounds sub.case (.case (r.size + 1 - sub.case - 1))).push (.case 0)) (sub' :: subs) M
    ∧ sub.case < r.size := by
  have h1 := h.first
  obtain ⟨a, hb, ha⟩ := h.subsC sub (by simp)
  have hbs : sub.case < r.size := by grind
  refine ⟨⟨?_, ?_, ?_, ?_, ?_, ?_, ?_, ?_⟩, hbs⟩
  · grind [isCaseOrNop]
  · intro i k hi
    have hi' : r[i]? = some (.push k) := by grind
    obtain ⟨b', hb', hn⟩ := h.adj i k hi'
    by_cases hil2 : i + 1 = sub.case
    · have hbj : b' = a := by grind
      subst hbj
      unfold PushNext at hn; grind [isCaseOrNop]
    · exact ⟨b', by grind, hn⟩
  · intro i n hi
    by_cases hil : i = r.size
    · have : n = 0 := by grind
      grind
    · have : r[i]? = some (.brk n) := by grind
      have := h.brkT i n this
      grind
  · intro i n hi
    by_cases hil : i = r.size + 1
    · exact Or.inl ⟨sub', by simp, by omega⟩
    · by_cases hic : i = sub.case
      · have : n = r.size + 1 - sub.case - 1 := by grind
        refine Or.inr ⟨.case 0, ?_, rfl⟩
        have : i + 1 + n = r.size + 1 := by omega
        grind
      · have hi' : r[i]? = some (.case n) := by grind
        rcases h.caseT i n hi' with ⟨s, hs, hsi⟩ | ⟨a', h, h'⟩
        · rcases List.mem_cons.mp hs with rfl | hs
          · exact absurd hsi.symm hic
          · exact Or.inl ⟨s, List.mem_cons_of_mem _ hs, hsi⟩
        · by_cases ht : i + 1 + n = sub.case
          · exact Or.inr ⟨.case (r.size + 1 - sub.case - 1), by grind, rfl⟩
          · exact Or.inr ⟨a', by grind, h'⟩
  · intro i a' hi
    by_cases hil : i = r.size + 1
    · have : a' = .case 0 := by grind
      subst this; simp [argOf]
    · by_cases hic : i = sub.case
      · have : a' = .case (r.size + 1 - sub.case - 1) := by grind
        subst this; simp [argOf]; omega
      · by_cases hib : i = r.size
        · have : a' = .brk 0 := by grind
          subst this; simp [argOf]
        · exact h.args i a' (by grind)
  · intro i a' k hi hs
    by_cases hil : i = r.size + 1
    · have : a' = .case 0 := by grind
      subst this; simp [slotOf] at hs
    · by_cases hic : i = sub.case
      · have : a' = .case (r.size + 1 - sub.case - 1) := by grind
        subst this; simp [slotOf] at hs
      · by_cases hib : i = r.size
        · have : a' = .brk 0 := by grind
          subst this; simp [slotOf] at hs
        · exact h.slots i a' k (by grind) hs
  · intro s hs
    rcases List.mem_cons.mp hs with rfl | hs
    · exact ⟨.case 0, by grind, rfl⟩
    · obtain ⟨a', h, h'⟩ := h.subsC s (List.mem_cons_of_mem _ hs)
      by_cases hbb : s.case = sub.case
      · exact ⟨.case (r.size + 1 - sub.case - 1), by grind, rfl⟩
      · exact ⟨a', by grind, h'⟩
  · intro s hs b hb'
    rcases List.mem_cons.mp hs with rfl | hs
    · rw [hbk] at hb'
      rcases List.mem_append.mp hb' with hb' | hb'
      · obtain ⟨a', h, h'⟩ := h.subsB sub (by simp) b hb'
        exact ⟨a', by grind [brk_not_caseOrNop], h'⟩
      · have : b = r.size := by simpa using hb'
        exact ⟨.brk 0, by grind, rfl⟩
    · obtain ⟨a', h, h'⟩ := h.subsB s (List.mem_cons_of_mem _ hs) b hb'
      exact ⟨a', by grind [brk_not_caseOrNop], h'⟩

end Pelite.Pattern
