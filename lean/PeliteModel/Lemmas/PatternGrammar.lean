import PeliteModel.Lemmas.PatternParse
/-!
# The parser model agrees with the reference compiler on EVERY string of the reference grammar

`Lemmas/PatternParse.lean` proves `parse (render sty p) = ok (compile p)` for the four global spelling styles.
Here the same is proved over every string the reference READER (`readPat`, Spec/PatternSem.lean) accepts:
hex digits in any case per digit, `@` operands in either case per occurrence, decimals with leading zeros,
white space runs of SPACE / TAB / LF / CR anywhere between items.

    parse_of_readPat : readPat s = some p → WF p = true → parse s = .ok (compile p)

Architecture (the goals of `PatternParse.lean`, generalised from `renderItem sty it ++ tail` to an arbitrary
input / rest pair):
* `ItemGoalR it inp rest`, `SeqGoalR items inp rest`, `AltsGoalR bodies inp rest` (the latter's input ends with
  the closing `)`);
* per-token NORMALISATION facts — the parser depends on a hex digit only through `hexVal`, on an `@` operand
  only through `alignVal`, on a decimal only through the value `readDec` computes (`tok_hex_val`,
  `opAligned_val`, `manyLower_of_readDec`, `manyUpper_of_readDec`);
* items whose spelling does not depend on the style reuse the `item_*` lemmas (`ItemGoal.toR`);
* the composite lemmas (`item_groupR`, `alts_lastR`, `alts_consR`, `item_altR`, `seq_consR`) are the
  `PatternParse.lean` proofs over the generalised goals;
* the recursion is an induction on the reader's fuel (`read_goals`).

Also here: `DecidableEq Item` (the nested inductive has no derived instance), so that `readPat s = some p` can
be evaluated by `decide +kernel` in examples.
-/
namespace Pelite.PatSem
open Pelite.Pattern

/-! ## Decidable equality of trees (the nested inductive `Item` has no derived instance) -/

mutual
def beqItem : Item → Item → Bool
  | .ws a, .ws b => decide (a = b)
  | .byte a, .byte b => decide (a = b)
  | .str a, .str b => decide (a = b)
  | .any, .any => true
  | .skip a, .skip b => decide (a = b)
  | .range a a', .range b b' => decide (a = b) && decide (a' = b')
  | .jump a, .jump b => decide (a = b)
  | .save, .save => true
  | .aligned a, .aligned b => decide (a = b)
  | .readI a, .readI b => decide (a = b)
  | .readU a, .readU b => decide (a = b)
  | .zero, .zero => true
  | .group j g body, .group j' g' body' => decide (j = j') && decide (g = g') && beqItems body body'
  | .alt bs, .alt bs' => beqAlts bs bs'
  | _, _ => false
def beqItems : List Item → List Item → Bool
  | [], [] => true
  | a :: r, b :: r' => beqItem a b && beqItems r r'
  | _, _ => false
def beqAlts : List (List Item) → List (List Item) → Bool
  | [], [] => true
  | a :: r, b :: r' => beqItems a b && beqAlts r r'
  | _, _ => false
end

mutual
theorem beqItem_sound : ∀ (a b : Item), beqItem a b = true → a = b
  | .ws a, b, h => by cases b <;> simp_all [beqItem]
  | .byte a, b, h => by cases b <;> simp_all [beqItem]
  | .str a, b, h => by cases b <;> simp_all [beqItem]
  | .any, b, h => by cases b <;> simp_all [beqItem]
  | .skip a, b, h => by cases b <;> simp_all [beqItem]
  | .range a a', b, h => by cases b <;> simp_all [beqItem]
  | .jump a, b, h => by cases b <;> simp_all [beqItem]
  | .save, b, h => by cases b <;> simp_all [beqItem]
  | .aligned a, b, h => by cases b <;> simp_all [beqItem]
  | .readI a, b, h => by cases b <;> simp_all [beqItem]
  | .readU a, b, h => by cases b <;> simp_all [beqItem]
  | .zero, b, h => by cases b <;> simp_all [beqItem]
  | .group j g body, b, h => by
    cases b <;> simp [beqItem] at h
    obtain ⟨⟨rfl, rfl⟩, h3⟩ := h
    rw [beqItems_sound body _ h3]
  | .alt bs, b, h => by
    cases b <;> simp [beqItem] at h
    rw [beqAlts_sound bs _ h]
theorem beqItems_sound : ∀ (a b : List Item), beqItems a b = true → a = b
  | [], b, h => by cases b <;> simp_all [beqItems]
  | a :: r, b, h => by
    cases b <;> simp [beqItems] at h
    rw [beqItem_sound a _ h.1, beqItems_sound r _ h.2]
theorem beqAlts_sound : ∀ (a b : List (List Item)), beqAlts a b = true → a = b
  | [], b, h => by cases b <;> simp_all [beqAlts]
  | a :: r, b, h => by
    cases b <;> simp [beqAlts] at h
    rw [beqItems_sound a _ h.1, beqAlts_sound r _ h.2]
end

mutual
theorem beqItem_refl : ∀ a : Item, beqItem a a = true
  | .ws _ | .byte _ | .str _ | .any | .skip _ | .range _ _ | .jump _ | .save | .aligned _ | .readI _ | .readU _ | .zero => by
    simp [beqItem]
  | .group _ _ body => by simp [beqItem, beqItems_refl body]
  | .alt bs => by simp [beqItem, beqAlts_refl bs]
theorem beqItems_refl : ∀ a : List Item, beqItems a a = true
  | [] => by simp [beqItems]
  | a :: r => by simp [beqItems, beqItem_refl a, beqItems_refl r]
theorem beqAlts_refl : ∀ a : List (List Item), beqAlts a a = true
  | [] => by simp [beqAlts]
  | a :: r => by simp [beqAlts, beqItems_refl a, beqAlts_refl r]
end

instance : DecidableEq Item := fun a b =>
  decidable_of_iff (beqItem a b = true) ⟨beqItem_sound a b, fun h => h ▸ beqItem_refl a⟩

/-! ## The generalised goals -/

def ItemGoalR (it : Item) (inp rest : List UInt8) : Prop :=
  ∀ (st : PSt) (base : List Atom) (pend : Option Nat),
    wfItem st.depth it = true → slotsItem st.save it ≤ 255 → offsItem st.save it = true →
    Rel st base pend →
    ∃ st1 base1 pend1, Steps inp st rest st1 ∧ Rel st1 base1 pend1 ∧
      st1.save = slotsItem st.save it ∧ st1.depth = st.depth ∧ st1.subs = st.subs ∧
      ∀ r, base ++ comp st.save pend (it :: r) = base1 ++ comp (slotsItem st.save it) pend1 r

def SeqGoalR (items : List Item) (inp rest : List UInt8) : Prop :=
  ∀ (st : PSt) (base : List Atom) (pend : Option Nat),
    wfItems st.depth items = true → slotsItems st.save items ≤ 255 → offsItems st.save items = true →
    Rel st base pend →
    ∃ st1, Steps inp st rest st1 ∧
      st1.result = (base ++ comp st.save pend items).toArray ∧
      st1.save = slotsItems st.save items ∧ st1.depth = st.depth ∧ st1.subs = st.subs ∧
      st1.subEnd ≤ st1.result.size

/-- `inp` = `b1 | … | bn )` followed by `rest` -/
def AltsGoalR (bodies : List (List Item)) (inp rest : List UInt8) : Prop :=
  ∀ (st : PSt) (P : List Atom) (sub : Sub) (subs0 : List Sub),
    bodies ≠ [] → wfAlts st.depth bodies = true → slotsAlts st.save bodies ≤ 255 →
    offsAlts st.save bodies = true →
    st.result = (P ++ [Atom.case 0]).toArray → st.subs = sub :: subs0 → sub.case = P.length →
    (∀ i ∈ sub.brks, i < P.length ∧ P.length + (compAlts st.save bodies).length < i + 257) →
    sub.save = st.save → sub.depth = st.depth → st.subEnd ≤ P.length + 1 →
    ∃ st1, Steps inp st rest st1 ∧
      st1.result = (patch (P.length + (compAlts st.save bodies).length) P sub.brks
                      ++ compAlts st.save bodies).toArray ∧
      st1.save = max sub.saveNext (slotsAlts st.save bodies) ∧ st1.depth = st.depth ∧ st1.subs = subs0 ∧
      st1.subEnd = st1.result.size

/-- the rendered-string goals are instances -/
theorem ItemGoal.toR {sty : Style} {it : Item} (h : ItemGoal sty it) (tail : List UInt8) :
    ItemGoalR it (renderItem sty it ++ tail) tail :=
  fun st base pend => h st base pend tail

theorem SeqGoal.toR {sty : Style} {items : List Item} (h : SeqGoal sty items) (tail : List UInt8) :
    SeqGoalR items (render sty items ++ tail) tail :=
  fun st base pend => h st base pend tail

theorem ItemGoalR.of_eq {it : Item} {inp inp' rest : List UInt8} (h : ItemGoalR it inp' rest) (e : inp = inp') :
    ItemGoalR it inp rest := e ▸ h

/-- items that push exactly one atom (which is not a `Skip`) -/
theorem itemGoalR_push {it : Item} {inp rest : List UInt8} (a : Nat → Atom)
    (hsteps : ∀ (st : PSt), wfItem st.depth it = true → slotsItem st.save it ≤ 255 →
      ∃ st1, Steps inp st rest st1 ∧ st1.result = st.result.push (a st.save) ∧
        st1.save = slotsItem st.save it ∧ st1.depth = st.depth ∧ st1.subs = st.subs ∧ st1.subEnd = st.subEnd)
    (hns : ∀ k n, a k ≠ .skip n)
    (hcomp : ∀ k pend r, comp k pend (it :: r) = flush pend ++ a k :: comp (slotsItem k it) none r) :
    ItemGoalR it inp rest := by
  intro st base pend hwf hsl _ hrel
  obtain ⟨st1, hs, hr, hsv, hd, hsb, hse⟩ := hsteps st hwf hsl
  refine ⟨st1, base ++ flush pend ++ [a st.save], none, hs, hrel.push_of hr hse (hns _), hsv, hd, hsb, ?_⟩
  intro r; rw [hcomp]; simp

/-! ## Token normalisation: hex digits -/

/-- what the parser computes from a hex digit of value `v` -/
def hexSpec (c : UInt8) (v : Nat) : Prop :=
  v < 16 ∧ classify c.toNat = .hex ∧
  ¬ (c.toNat < 97 ∧ c.toNat < 65 ∧ c.toNat < 48) ∧
  (if c.toNat ≥ 97 then c.toNat - 97 + 10 else if c.toNat ≥ 65 then c.toNat - 65 + 10 else c.toNat - 48) = v ∧
  (if c.toNat ≥ 97 ∧ c.toNat ≤ 102 then some (c.toNat - 97 + 10)
    else if c.toNat ≥ 65 ∧ c.toNat ≤ 70 then some (c.toNat - 65 + 10)
    else if c.toNat ≥ 48 ∧ c.toNat ≤ 57 then some (c.toNat - 48)
    else none) = some v

instance (c : UInt8) (v : Nat) : Decidable (hexSpec c v) := by unfold hexSpec; infer_instance

theorem hexVal_all : ∀ n, n < 256 →
    (hexVal (UInt8.ofNat n)).all (fun v => decide (hexSpec (UInt8.ofNat n) v)) = true := by
  decide +kernel

theorem hexVal_spec {c : UInt8} {v : Nat} (h : hexVal c = some v) : hexSpec c v := by
  have := hexVal_all c.toNat c.toNat_lt
  rw [UInt8.ofNat_toNat, h] at this
  simpa using this

/-- **the parser depends on a hex digit only through its value** -/
theorem tok_hex_val {c d : UInt8} {hi lo : Nat} (hc : hexVal c = some hi) (hd : hexVal d = some lo)
    (tail : List UInt8) (st : PSt) :
    Pelite.Pattern.tok c.toNat (d :: tail) st = .ok ⟨pushA st (.byte (hi * 16 + lo)), tail, true⟩ := by
  obtain ⟨hhi, h1, h2, h3, _⟩ := hexVal_spec hc
  obtain ⟨hlo, _, _, _, h4⟩ := hexVal_spec hd
  simp only [Pelite.Pattern.tok, h1, opHex]
  rw [if_neg h2]
  rw [h3, h4]
  dsimp only
  rw [if_neg (by omega), if_neg (by omega)]
  have e : hi * 16 % 256 + lo = hi * 16 + lo := by omega
  rw [e]

theorem item_byteR {c d : UInt8} {hi lo : Nat} (hc : hexVal c = some hi) (hd : hexVal d = some lo)
    (rest : List UInt8) : ItemGoalR (.byte (hi * 16 + lo)) (c :: d :: rest) rest := by
  apply itemGoalR_push (fun _ => .byte (hi * 16 + lo))
  · intro st _ _
    refine ⟨pushA st (.byte (hi * 16 + lo)), ?_, rfl, by simp [slotsItem, pushA], rfl, rfl, rfl⟩
    exact Steps.tok' (tok_hex_val hc hd rest st) (by simp)
  · intro k n; simp
  · intro k pend r; simp [comp, slotsItem]

/-! ## Token normalisation: `@` operands -/

def alignSpec (c : UInt8) (n : Nat) : Prop :=
  n < 36 ∧
  ((c.toNat ≥ 48 ∧ c.toNat ≤ 57 ∧ c.toNat - 48 = n) ∨
   (¬ (c.toNat ≥ 48 ∧ c.toNat ≤ 57) ∧ c.toNat ≥ 65 ∧ c.toNat ≤ 90 ∧ 10 + (c.toNat - 65) = n) ∨
   (¬ (c.toNat ≥ 48 ∧ c.toNat ≤ 57) ∧ ¬ (c.toNat ≥ 65 ∧ c.toNat ≤ 90) ∧ c.toNat ≥ 97 ∧ c.toNat ≤ 122 ∧
      10 + (c.toNat - 97) = n))

instance (c : UInt8) (n : Nat) : Decidable (alignSpec c n) := by unfold alignSpec; infer_instance

theorem alignVal_all : ∀ n, n < 256 →
    (alignVal (UInt8.ofNat n)).all (fun v => decide (alignSpec (UInt8.ofNat n) v)) = true := by
  decide +kernel

theorem alignVal_spec {c : UInt8} {n : Nat} (h : alignVal c = some n) : alignSpec c n := by
  have := alignVal_all c.toNat c.toNat_lt
  rw [UInt8.ofNat_toNat, h] at this
  simpa using this

/-- **the parser depends on an `@` operand only through its value** -/
theorem opAligned_val {o : UInt8} {n : Nat} (h : alignVal o = some n) (tail : List UInt8) (st : PSt) :
    opAligned st (o :: tail) = .ok ⟨pushA st (.aligned n), tail, true⟩ := by
  obtain ⟨_, hs⟩ := alignVal_spec h
  unfold opAligned
  dsimp only
  rcases hs with ⟨h1, h2, h3⟩ | ⟨h0, h1, h2, h3⟩ | ⟨h0, h0', h1, h2, h3⟩
  · rw [if_pos ⟨h1, h2⟩, h3]
  · rw [if_neg h0, if_pos ⟨h1, h2⟩, if_neg (by omega), h3]
  · rw [if_neg h0, if_neg h0', if_pos ⟨h1, h2⟩, if_neg (by omega), h3]

theorem item_alignedR {o : UInt8} {n : Nat} (h : alignVal o = some n) (rest : List UInt8) :
    ItemGoalR (.aligned n) (64 :: o :: rest) rest := by
  apply itemGoalR_push (fun _ => .aligned n)
  · intro st _ _
    refine ⟨pushA st (.aligned n), ?_, rfl, by simp [slotsItem, pushA], rfl, rfl, rfl⟩
    exact Steps.tok' (upd := true) (by simp [Pelite.Pattern.tok, classify, opAligned_val h]) (Nat.le_succ _)
  · intro k n; simp
  · intro k pend r; simp [comp, slotsItem]

/-! ## Token normalisation: decimal numbers -/

theorem readDec_facts : ∀ (cs : List UInt8) (n : Nat) (seen : Bool) (m : Nat) (rest : List UInt8),
    readDec cs n seen = some (m, rest) → n ≤ m ∧ rest.length ≤ cs.length ∧ rest ≠ []
  | [], _, _, _, _, h => by simp [readDec] at h
  | c :: cs, n, seen, m, rest, h => by
    rw [readDec] at h
    split at h
    · split at h
      · have := readDec_facts cs _ true m rest h
        simp only [List.length_cons]
        refine ⟨by omega, by omega, this.2.2⟩
      · simp at h
    · split at h
      · simp only [Option.some.injEq, Prod.mk.injEq] at h
        obtain ⟨rfl, rfl⟩ := h
        simp
      · simp at h

theorem digit_cond {c : UInt8} : (48 ≤ c ∧ c ≤ 57) ↔ (48 ≤ c.toNat ∧ c.toNat ≤ 57) := by
  simp [UInt8.le_iff_toNat_le]

/-- **the parser depends on a decimal only through its value** (first number of a bracket) -/
theorem manyLower_of_readDec : ∀ (cs : List UInt8) (n : Nat) (seen : Bool) (m : Nat) (d : UInt8) (rest : List UInt8),
    readDec cs n seen = some (m, d :: rest) → m < 16384 → (d = 93 ∨ d = 45) →
    manyLower cs n seen = .ok (m, true, d.toNat, rest)
  | [], _, _, _, _, _, h, _, _ => by simp [readDec] at h
  | c :: cs, n, seen, m, d, rest, h, hm, hd => by
    have hmono := (readDec_facts _ _ _ _ _ h).1
    rw [readDec] at h
    rw [manyLower]
    dsimp only
    split at h
    · next hdig =>
      have hdig' := digit_cond.mp hdig
      split at h
      · have hmono2 := (readDec_facts _ _ _ _ _ h).1
        rw [if_neg (by omega), if_pos hdig', if_neg (by omega), if_neg (by omega), if_neg (by omega)]
        exact manyLower_of_readDec cs _ true m d rest h hm hd
      · simp at h
    · next hdig =>
      split at h
      · next hseen =>
        simp only [Option.some.injEq, Prod.mk.injEq, List.cons.injEq] at h
        obtain ⟨rfl, rfl, rfl⟩ := h
        have hc : c.toNat = 45 ∨ c.toNat = 93 := by
          rcases hd with rfl | rfl
          · right; rfl
          · left; rfl
        rw [if_pos hc, hseen]
      · simp at h

/-- **the parser depends on a decimal only through its value** (second number of a bracket) -/
theorem manyUpper_of_readDec : ∀ (cs : List UInt8) (n : Nat) (seen : Bool) (m : Nat) (rest : List UInt8),
    readDec cs n seen = some (m, 93 :: rest) → m < 16384 →
    manyUpper cs n = .ok (m, rest)
  | [], _, _, _, _, h, _ => by simp [readDec] at h
  | c :: cs, n, seen, m, rest, h, hm => by
    have hmono := (readDec_facts _ _ _ _ _ h).1
    rw [readDec] at h
    rw [manyUpper]
    dsimp only
    split at h
    · next hdig =>
      have hdig' := digit_cond.mp hdig
      split at h
      · have hmono2 := (readDec_facts _ _ _ _ _ h).1
        rw [if_neg (by omega), if_pos hdig', if_neg (by omega), if_neg (by omega), if_neg (by omega)]
        exact manyUpper_of_readDec cs _ true m rest h hm
      · simp at h
    · next hdig =>
      split at h
      · simp only [Option.some.injEq, Prod.mk.injEq, List.cons.injEq] at h
        obtain ⟨rfl, rfl, rfl⟩ := h
        rw [if_pos (show (93 : UInt8).toNat = 93 from rfl)]
      · simp at h

theorem opMany_skip_read (st : PSt) {cs : List UInt8} {n : Nat} {rest : List UInt8}
    (h : readDec cs 0 false = some (n, 93 :: rest)) (hn : n < 16384) :
    opMany st cs
      = .ok ⟨{ st with result := if n > 0 then emitRange st.result n .skip else st.result }, rest, false⟩ := by
  unfold opMany
  rw [manyLower_of_readDec cs 0 false n 93 rest h hn (Or.inl rfl)]
  simp

theorem opMany_range_read (st : PSt) {cs mid rest : List UInt8} {a b : Nat}
    (h1 : readDec cs 0 false = some (a, 45 :: mid)) (h2 : readDec mid 0 false = some (b, 93 :: rest))
    (hab : a < b) (hb : b < 16384) :
    opMany st cs
      = .ok ⟨{ st with result := emitRange (if a > 0 then emitRange st.result a .skip else st.result) (b - a) .many },
          rest, true⟩ := by
  unfold opMany
  rw [manyLower_of_readDec cs 0 false a 45 mid h1 (by omega) (Or.inr rfl)]
  simp [manyUpper_of_readDec mid 0 false b rest h2 hb, hab]
  omega

theorem item_skipR {cs : List UInt8} {n : Nat} {rest : List UInt8}
    (h : readDec cs 0 false = some (n, 93 :: rest)) : ItemGoalR (.skip n) (91 :: cs) rest := by
  intro st base pend hwf _ _ hrel
  have hn : n < 16384 := by simpa [wfItem] using hwf
  have hlen := (readDec_facts _ _ _ _ _ h).2.1
  have htok : Pelite.Pattern.tok (91 : UInt8).toNat cs st = opMany st cs := by
    simp [Pelite.Pattern.tok, classify]
  rw [opMany_skip_read st h hn] at htok
  have hsteps := Steps.tok' htok (by simp at hlen; omega)
  by_cases h0 : n = 0
  · subst h0
    refine ⟨_, base, pend, hsteps, ⟨by simp [hrel.res], hrel.sub_le, hrel.last⟩, by simp [slotsItem], rfl, rfl, ?_⟩
    intro r; simp [comp, slotsItem]
  · rw [if_pos (by omega), hrel.res, emitRange_toArray _ _ _ (by omega)] at hsteps
    refine ⟨_, base ++ flush pend ++ rangext n, some (n % 256), hsteps,
      ⟨by simp [flush], ?_, by simp⟩, by simp [slotsItem], rfl, rfl, ?_⟩
    · have := hrel.sub_le; simp; omega
    · intro r; simp [comp, slotsItem, h0]

theorem item_rangeR {cs mid rest : List UInt8} {a b : Nat}
    (h1 : readDec cs 0 false = some (a, 45 :: mid)) (h2 : readDec mid 0 false = some (b, 93 :: rest)) :
    ItemGoalR (.range a b) (91 :: cs) rest := by
  intro st base pend hwf _ _ hrel
  have hab : a < b ∧ b < 16384 := by simpa [wfItem] using hwf
  have hlen1 := (readDec_facts _ _ _ _ _ h1).2.1
  have hlen2 := (readDec_facts _ _ _ _ _ h2).2.1
  have htok : Pelite.Pattern.tok (91 : UInt8).toNat cs st = opMany st cs := by
    simp [Pelite.Pattern.tok, classify]
  rw [opMany_range_read st h1 h2 hab.1 hab.2] at htok
  have hsteps := Steps.tok' htok (by simp at hlen1 hlen2; omega)
  have hres : emitRange (if a > 0 then emitRange st.result a .skip else st.result) (b - a) .many
      = (base ++ flush pend ++ ((if a = 0 then [] else rangext a ++ [Atom.skip (a % 256)]) ++ rangext (b - a)
          ++ [Atom.many ((b - a) % 256)])).toArray := by
    rw [hrel.res]
    by_cases h0 : a = 0
    · subst h0; simp [emitRange_toArray _ _ _ (show b < 65536 by omega)]
    · rw [if_pos (by omega), if_neg h0, emitRange_toArray _ _ _ (show a < 65536 by omega),
        emitRange_toArray _ _ _ (show b - a < 65536 by omega)]
      simp
  rw [hres] at hsteps
  refine ⟨_, _, none, hsteps, hrel.append_of rfl rfl ?_, by simp [slotsItem], rfl, rfl, ?_⟩
  · intro n; simp [← List.append_assoc]
  · intro r
    by_cases h0 : a = 0 <;> simp [comp, slotsItem, h0]

/-! ## Sequences -/

theorem seq_nilR (inp : List UInt8) : SeqGoalR [] inp inp := by
  intro st base pend _ _ _ hrel
  refine ⟨st, Steps.refl _ _, by simp [comp, hrel.res], by simp [slotsItems], rfl, rfl, ?_⟩
  have := hrel.sub_le; rw [hrel.res]; simp; omega

theorem seq_consR {it : Item} {r : List Item} {inp mid rest : List UInt8}
    (hi : ItemGoalR it inp mid) (hr : SeqGoalR r mid rest) : SeqGoalR (it :: r) inp rest := by
  intro st base pend hwf hsl hoff hrel
  simp only [wfItems, Bool.and_eq_true] at hwf
  simp only [slotsItems] at hsl
  simp only [offsItems, Bool.and_eq_true] at hoff
  have hsl1 : slotsItem st.save it ≤ 255 := Nat.le_trans (slotsItems_ge r _) hsl
  obtain ⟨st1, base1, pend1, hs1, hrel1, hsv1, hd1, hsb1, hc⟩ := hi st base pend hwf.1 hsl1 hoff.1 hrel
  obtain ⟨st2, hs2, hres2, hsv2, hd2, hsb2, hse2⟩ :=
    hr st1 base1 pend1 (by rw [hd1]; exact hwf.2) (by rw [hsv1]; exact hsl) (by rw [hsv1]; exact hoff.2) hrel1
  refine ⟨st2, hs1.trans hs2, ?_, ?_, by rw [hd2, hd1], by rw [hsb2, hsb1], hse2⟩
  · rw [hres2, hsv1, hc]
  · rw [hsv2, hsv1, slotsItems]

/-! ## `j { body }` -/

theorem item_groupR {j : Jump} {gap : List UInt8} {body : List Item} {inp rest : List UInt8}
    (hb : SeqGoalR body inp (125 :: rest)) :
    ItemGoalR (.group j gap body) (j.chr :: (gap ++ 123 :: inp)) rest := by
  intro st base pend hwf hsl hoff hrel
  simp only [wfItem, Bool.and_eq_true, decide_eq_true_eq] at hwf
  obtain ⟨⟨hgap, hd⟩, hwfb⟩ := hwf
  simp only [slotsItem] at hsl ⊢
  simp only [offsItem] at hoff
  -- the jump symbol
  have s1 := Steps.tok' (tok_jump j (gap ++ 123 :: inp) st) (Nat.le_refl _)
  -- the gap
  have s2 := steps_ws gap (123 :: inp) (pushA st j.atom) hgap
  -- `{`
  have hopen := opOpen_ok (st := st) (l := base ++ flush pend) j hrel.res hd
  have s3 := Steps.tok' (c := 123) (rest := inp) (st := pushA st j.atom) (upd := true)
    (st' := { st with depth := st.depth + 1, result := (base ++ flush pend ++ [Atom.push j.push, j.atom]).toArray })
    (by simp [Pelite.Pattern.tok, classify, hopen, liftSt]) (Nat.le_refl _)
  -- the body
  have hrelb : Rel { st with depth := st.depth + 1, result := (base ++ flush pend ++ [Atom.push j.push, j.atom]).toArray }
      (base ++ flush pend ++ [Atom.push j.push, j.atom]) none := by
    refine hrel.append_of (st1 := { st with depth := st.depth + 1, result := (base ++ flush pend ++ [Atom.push j.push, j.atom]).toArray }) rfl rfl ?_
    intro n; cases j <;> simp [Jump.atom]
  obtain ⟨st4, s4, hres4, hsv4, hd4, hsb4, hse4⟩ :=
    hb { st with depth := st.depth + 1, result := (base ++ flush pend ++ [Atom.push j.push, j.atom]).toArray }
      _ none hwfb hsl hoff hrelb
  simp only at hres4 hsv4 hd4 hsb4
  -- `}`
  have hclose : opClose st4 = .ok { st4 with depth := st4.depth - 1, result := st4.result.push .pop } := by
    unfold opClose; rw [if_neg (by omega), if_neg (by omega)]
  have s5 := Steps.tok' (c := 125) (rest := rest) (st := st4) (upd := true)
    (st' := { st4 with depth := st4.depth - 1, result := st4.result.push .pop })
    (by simp [Pelite.Pattern.tok, classify, hclose, liftSt]) (Nat.le_refl _)
  refine ⟨_, base ++ flush pend ++ [Atom.push j.push, j.atom] ++ comp st.save none body ++ [Atom.pop], none,
    (((s1.trans s2).trans s3).trans s4).trans s5, ⟨by simp [hres4, flush], ?_, fun _ => Or.inr (fun n => by rw [List.getLast?_concat]; simp)⟩,
    hsv4, by simp [hd4], hsb4, ?_⟩
  · rw [hres4] at hse4; simp at hse4 ⊢; omega
  · intro r; simp [comp]

/-! ## `( b1 | … | bn )` -/

theorem alts_lastR {b : List Item} {inp rest : List UInt8} (hb : SeqGoalR b inp (41 :: rest)) :
    AltsGoalR [b] inp rest := by
  intro st P sub subs0 _ hwf hsl hoff hres hsubs hcase hbrks hsave hdepth hse
  simp only [wfAlts, Bool.and_eq_true, and_true] at hwf
  simp only [offsAlts] at hoff
  have hmono := slotsItems_ge b st.save
  have hsl' : slotsAlts st.save [b] = slotsItems st.save b := by simp [slotsAlts]; omega
  rw [hsl'] at hsl ⊢
  simp only [compAlts, List.length_cons] at hbrks ⊢
  obtain ⟨st2, s2, hres2, hsv2, hd2, hsb2, hse2⟩ :=
    hb st (P ++ [Atom.case 0]) none hwf hsl hoff (rel_case hres hse)
  have hres2' : st2.result = (P ++ Atom.case 0 :: comp st.save none b).toArray := by rw [hres2]; simp
  have hend := opSubEnd_ok (st := st2) (hsb2.trans hsubs) hres2' hcase
    (by intro i hi; have := hbrks i hi; omega)
  have s3 := Steps.tok' (c := 41) (rest := rest) (st := st2) (upd := true) (st' := _)
    (by simp only [Pelite.Pattern.tok, classify]; simp [hend, liftSt]; rfl) (Nat.le_refl _)
  refine ⟨_, s2.trans s3, ?_, by simp [hsv2], by simp [hdepth], rfl, ?_⟩
  · rw [show P.length + ((comp st.save none b).length + 1) = P.length + 1 + (comp st.save none b).length by omega]
  · simp [patch_length]; omega

theorem alts_consR {b : List Item} {bs : List (List Item)} {inp mid rest : List UInt8} (hne : bs ≠ [])
    (hb : SeqGoalR b inp (124 :: mid)) (hbs : AltsGoalR bs mid rest) : AltsGoalR (b :: bs) inp rest := by
  intro st P sub subs0 _ hwf hsl hoff hres hsubs hcase hbrks hsave hdepth hse
  have hne' : bs = [] → False := hne
  simp only [wfAlts, Bool.and_eq_true] at hwf
  rw [offsAlts.eq_3 _ _ _ hne'] at hoff
  simp only [Bool.and_eq_true, decide_eq_true_eq, code] at hoff
  obtain ⟨⟨⟨hoffb, hlen1⟩, hlen2⟩, hoffbs⟩ := hoff
  replace hlen1 : (comp st.save none b).length + 1 < 256 := of_decide_eq_true hlen1
  simp only [slotsAlts] at hsl ⊢
  rw [compAlts.eq_3 _ _ _ hne'] at hbrks ⊢
  simp only [List.length_cons, List.length_append] at hbrks ⊢
  -- the alternative
  obtain ⟨st2, s2, hres2, hsv2, hd2, hsb2, hse2⟩ :=
    hb st (P ++ [Atom.case 0]) none hwf.1 (by omega) hoffb (rel_case hres hse)
  have hres2' : st2.result = (P ++ Atom.case 0 :: comp st.save none b).toArray := by rw [hres2]; simp
  -- `|`
  obtain ⟨st3, sub3, hcasep, hres3, hsubs3, hcase3, hbrks3, hsave3, hdepth3, hnext3, hsv3, hd3, hse3⟩ :=
    opSubCase_ok' (st := st2) (hsb2.trans hsubs) hres2' hcase hlen1
  have s3 := Steps.tok' (c := 124) (rest := mid) (st := st2) (upd := true) (st' := st3)
    (by simp only [Pelite.Pattern.tok, classify]; simp [hcasep, liftSt]) (Nat.le_refl _)
  -- the remaining alternatives
  have hk3 : st3.save = st.save := hsv3.trans hsave
  have hdd3 : st3.depth = st.depth := hd3.trans hdepth
  obtain ⟨st4, s4, hres4, hsv4, hd4, hsb4, hse4⟩ :=
    hbs st3 _ sub3 subs0 hne
      (by rw [hdd3]; exact hwf.2) (by rw [hk3]; omega) (by rw [hk3]; exact hoffbs) hres3 hsubs3 hcase3
      (by
        intro i hi
        rw [hbrks3] at hi
        simp only [List.mem_append, List.mem_singleton] at hi
        simp only [hk3, List.length_append, List.length_cons, List.length_nil]
        rcases hi with hi | hi
        · have := hbrks i hi; omega
        · omega)
      (by rw [hsave3, hk3, hsave]) (by rw [hdepth3, hdd3, hdepth])
      (by rw [hse3]; rw [hres2] at hse2; simp at hse2 ⊢; omega)
  rw [hk3] at hres4 hsv4
  refine ⟨st4, (s2.trans s3).trans s4, ?_, ?_, hd4.trans hdd3, hsb4, hse4⟩
  · rw [hres4, hbrks3, patch_snoc]
    rw [patch_step _ _ _ _ (fun i hi => (hbrks i hi).1)]
  · rw [hsv4, hnext3, hsv2]; omega

theorem item_altR {bodies : List (List Item)} {inp rest : List UInt8} (ha : AltsGoalR bodies inp rest) :
    ItemGoalR (.alt bodies) (40 :: inp) rest := by
  intro st base pend hwf hsl hoff hrel
  simp only [wfItem, Bool.and_eq_true, Bool.not_eq_true', List.isEmpty_eq_false_iff] at hwf
  simp only [slotsItem] at hsl ⊢
  simp only [offsItem] at hoff
  -- `(`
  have s1 := Steps.tok' (c := 40) (rest := inp) (st := st) (upd := true)
    (st' := { st with
      subs := { case := (base ++ flush pend).length, brks := [], save := st.save, saveNext := 0, depth := st.depth }
                :: st.subs,
      result := ((base ++ flush pend) ++ [Atom.case 0]).toArray })
    (by simp [Pelite.Pattern.tok, classify, opSubStart, liftSt, hrel.res]) (Nat.le_refl _)
  obtain ⟨st2, s2, hres2, hsv2, hd2, hsb2, hse2⟩ :=
    ha { st with
          subs := { case := (base ++ flush pend).length, brks := [], save := st.save, saveNext := 0, depth := st.depth }
                    :: st.subs,
          result := ((base ++ flush pend) ++ [Atom.case 0]).toArray }
      (base ++ flush pend)
      { case := (base ++ flush pend).length, brks := [], save := st.save, saveNext := 0, depth := st.depth }
      st.subs hwf.1 hwf.2 hsl hoff rfl rfl rfl (by simp) rfl rfl
      (by have := hrel.sub_le; simp; omega)
  simp only [patch, List.foldl_nil] at hres2
  refine ⟨st2, base ++ flush pend ++ compAlts st.save bodies, none, s1.trans s2,
    ⟨by simp [hres2, flush], ?_, fun _ => Or.inl ?_⟩, by simp [hsv2], hd2, hsb2, ?_⟩
  · rw [hse2, hres2]; simp
  · rw [hse2, hres2]; simp
  · intro r; simp [comp]


/-! ## Items whose spelling does not depend on the style -/

theorem dropWhile_head_false {α : Type} (p : α → Bool) : ∀ (l : List α) {a : α} {r : List α},
    l.dropWhile p = a :: r → p a = false
  | [], _, _, h => by simp at h
  | x :: l, a, r, h => by
    by_cases hx : p x = true
    · rw [List.dropWhile_cons_of_pos hx] at h; exact dropWhile_head_false p l h
    · rw [List.dropWhile_cons_of_neg hx] at h
      simp only [List.cons.injEq] at h
      rw [← h.1]; simpa using hx

theorem split_at_dropWhile {α : Type} (p : α → Bool) (l : List α) {a : α} {r : List α}
    (h : l.dropWhile p = a :: r) : l = l.takeWhile p ++ a :: r := by
  rw [← h, List.takeWhile_append_dropWhile]

theorem item_wsR (inp : List UInt8) :
    ItemGoalR (.ws (inp.takeWhile isWsByte)) inp (inp.dropWhile isWsByte) :=
  ((item_ws {} (inp.takeWhile isWsByte)).toR (inp.dropWhile isWsByte)).of_eq
    (by simp [renderItem, List.takeWhile_append_dropWhile])

theorem item_anyR (cs : List UInt8) : ItemGoalR .any (63 :: cs) cs := (item_any {}).toR cs
theorem item_saveR (cs : List UInt8) : ItemGoalR .save (39 :: cs) cs := (item_save {}).toR cs
theorem item_zeroR (cs : List UInt8) : ItemGoalR .zero (122 :: cs) cs := (item_zero {}).toR cs
theorem item_jumpR (j : Jump) (cs : List UInt8) : ItemGoalR (.jump j) (j.chr :: cs) cs := (item_jump {} j).toR cs

theorem item_strR {cs : List UInt8} {q : UInt8} {rest : List UInt8} (h : cs.dropWhile (· ≠ 34) = q :: rest) :
    ItemGoalR (.str (cs.takeWhile (· ≠ 34))) (34 :: cs) rest := by
  have hq : q = 34 := by simpa using dropWhile_head_false _ cs h
  subst hq
  refine ((item_str {} (cs.takeWhile (· ≠ 34))).toR rest).of_eq ?_
  have := split_at_dropWhile _ cs h
  simp only [renderItem, List.cons_append, List.append_assoc, List.nil_append]
  rw [← this]

theorem item_readR {c o : UInt8} (hc : c = 105 ∨ c = 117) (ho : o = 49 ∨ o = 50 ∨ o = 52) (rest : List UInt8) :
    ItemGoalR (if c = 105 then Item.readI (o.toNat - 48) else Item.readU (o.toNat - 48)) (c :: o :: rest) rest := by
  rcases hc with rfl | rfl <;> rcases ho with rfl | rfl | rfl
  · exact (item_readI {} 1).toR rest
  · exact (item_readI {} 2).toR rest
  · exact (item_readI {} 4).toR rest
  · exact (item_readU {} 1).toR rest
  · exact (item_readU {} 2).toR rest
  · exact (item_readU {} 4).toR rest

theorem jumpOf_chr {c : UInt8} {j : Jump} (h : jumpOf c = some j) : c = j.chr := by
  unfold jumpOf at h
  split at h
  · cases h; simpa [Jump.chr]
  split at h
  · cases h; simpa [Jump.chr]
  split at h
  · cases h; simpa [Jump.chr]
  · simp at h

/-! ## The recursion: induction on the reader's fuel -/

theorem cont_inv {it : Item} {o : Option (List Item × List UInt8)} {items : List Item} {rest : List UInt8}
    (h : Option.map (fun x => (it :: x.fst, x.snd)) o = some (items, rest)) :
    ∃ its, items = it :: its ∧ o = some (its, rest) := by
  simp only [Option.map_eq_some_iff, Prod.mk.injEq] at h
  obtain ⟨⟨its, r⟩, ho, rfl, rfl⟩ := h
  exact ⟨its, rfl, ho⟩

/-- the statement for sequences at a given fuel -/
def SeqIH (fuel : Nat) : Prop :=
  ∀ inp items rest, readSeq fuel inp = some (items, rest) → SeqGoalR items inp rest
/-- the statement for alternatives at a given fuel -/
def AltsIH (fuel : Nat) : Prop :=
  ∀ inp bodies rest, readAlts fuel inp = some (bodies, rest) → bodies ≠ [] ∧ AltsGoalR bodies inp rest

theorem seq_branch {fuel : Nat} (ihS : SeqIH fuel) {it : Item} {inp mid : List UInt8} {items : List Item}
    {rest : List UInt8} (hi : ItemGoalR it inp mid)
    (h : Option.map (fun x => (it :: x.fst, x.snd)) (readSeq fuel mid) = some (items, rest)) :
    SeqGoalR items inp rest := by
  obtain ⟨its, rfl, hrec⟩ := cont_inv h
  exact seq_consR hi (ihS _ _ _ hrec)

theorem readSeq_step {fuel : Nat} (ihS : SeqIH fuel) (ihA : AltsIH fuel) : SeqIH (fuel + 1) := by
  intro inp items rest h
  cases inp with
  | nil =>
    rw [readSeq.eq_def] at h
    simp only [Option.some.injEq, Prod.mk.injEq] at h
    obtain ⟨rfl, rfl⟩ := h
    exact seq_nilR []
  | cons c cs =>
    rw [readSeq.eq_def] at h
    dsimp only at h
    by_cases h1 : c = 125 ∨ c = 124 ∨ c = 41
    · rw [if_pos h1] at h
      simp only [Option.some.injEq, Prod.mk.injEq] at h
      obtain ⟨rfl, rfl⟩ := h
      exact seq_nilR _
    rw [if_neg h1] at h
    by_cases h2 : isWsByte c = true
    · rw [if_pos h2] at h
      exact seq_branch ihS (item_wsR (c :: cs)) h
    rw [if_neg h2] at h
    by_cases h3 : c = 63
    · rw [if_pos h3] at h; subst h3
      exact seq_branch ihS (item_anyR cs) h
    rw [if_neg h3] at h
    by_cases h4 : c = 39
    · rw [if_pos h4] at h; subst h4
      exact seq_branch ihS (item_saveR cs) h
    rw [if_neg h4] at h
    by_cases h5 : c = 122
    · rw [if_pos h5] at h; subst h5
      exact seq_branch ihS (item_zeroR cs) h
    rw [if_neg h5] at h
    by_cases h6 : c = 34
    · rw [if_pos h6] at h; subst h6
      split at h
      · next q r hq => exact seq_branch ihS (item_strR hq) h
      · simp at h
    rw [if_neg h6] at h
    by_cases h7 : c = 64
    · rw [if_pos h7] at h; subst h7
      split at h
      · next o r =>
        simp only [Option.bind_eq_some_iff] at h
        obtain ⟨n, hn, h⟩ := h
        exact seq_branch ihS (item_alignedR hn r) h
      · simp at h
    rw [if_neg h7] at h
    by_cases h8 : c = 105 ∨ c = 117
    · rw [if_pos h8] at h
      split at h
      · next o r =>
        split at h
        · next ho => exact seq_branch ihS (item_readR h8 ho r) h
        · simp at h
      · simp at h
    rw [if_neg h8] at h
    by_cases h9 : c = 91
    · rw [if_pos h9] at h; subst h9
      split at h
      · next a d r hd1 =>
        split at h
        · next hd => subst hd; exact seq_branch ihS (item_skipR hd1) h
        split at h
        · next hd =>
          subst hd
          split at h
          · next b e r' hd2 =>
            split at h
            · next he => subst he; exact seq_branch ihS (item_rangeR hd1 hd2) h
            · simp at h
          · simp at h
        · simp at h
      · simp at h
    rw [if_neg h9] at h
    by_cases h10 : c = 40
    · rw [if_pos h10] at h; subst h10
      split at h
      · next bs r hA => exact seq_branch ihS (item_altR (ihA _ _ _ hA).2) h
      · simp at h
    rw [if_neg h10] at h
    split at h
    · next j hj =>
      have hc := jumpOf_chr hj
      subst hc
      split at h
      · next r0 hdw =>
        split at h
        · next body r' hbody =>
          have hcs := split_at_dropWhile _ cs hdw
          refine seq_branch ihS ((item_groupR (gap := cs.takeWhile isWsByte) (ihS _ _ _ hbody)).of_eq ?_) h
          rw [← hcs]
        · simp at h
      · exact seq_branch ihS (item_jumpR j cs) h
    · split at h
      · next hi d r hhi =>
        simp only [Option.bind_eq_some_iff] at h
        obtain ⟨lo, hlo, h⟩ := h
        exact seq_branch ihS (item_byteR hhi hlo r) h
      · simp at h

theorem readAlts_step {fuel : Nat} (ihS : SeqIH fuel) (ihA : AltsIH fuel) : AltsIH (fuel + 1) := by
  intro inp bodies rest h
  rw [readAlts.eq_def] at h
  dsimp only at h
  split at h
  · next b d r hb =>
    split at h
    · next hd =>
      subst hd
      simp only [Option.some.injEq, Prod.mk.injEq] at h
      obtain ⟨rfl, rfl⟩ := h
      exact ⟨by simp, alts_lastR (ihS _ _ _ hb)⟩
    split at h
    · next hd =>
      subst hd
      simp only [Option.map_eq_some_iff, Prod.mk.injEq] at h
      obtain ⟨⟨bs, r'⟩, hbs, rfl, rfl⟩ := h
      obtain ⟨hne, hg⟩ := ihA _ _ _ hbs
      exact ⟨by simp, alts_consR hne (ihS _ _ _ hb) hg⟩
    · simp at h
  · simp at h

theorem read_goals : ∀ fuel : Nat, SeqIH fuel ∧ AltsIH fuel
  | 0 => ⟨fun inp items rest h => by simp [readSeq] at h, fun inp bodies rest h => by simp [readAlts] at h⟩
  | fuel + 1 =>
    have ih := read_goals fuel
    ⟨readSeq_step ih.1 ih.2, readAlts_step ih.1 ih.2⟩


theorem readPat_inv {s : List UInt8} {p : Pat} (h : readPat s = some p) :
    readSeq (s.length + 1) s = some (p, []) := by
  unfold readPat at h
  split at h
  · next q hq => simp only [Option.some.injEq] at h; subst h; exact hq
  · simp at h

/-- the parser run on a string the reader maps to `items` ends in the state the reference compiler describes -/
theorem parse_of_readSeq {fuel : Nat} {s : List UInt8} {p : Pat} (h : readSeq fuel s = some (p, []))
    (hwf : WF p = true) : parse s = .ok (compile p) := by
  simp only [WF, Bool.and_eq_true, decide_eq_true_eq] at hwf
  obtain ⟨⟨hwf, hsl⟩, hoff⟩ := hwf
  have hrel : Rel initSt [Atom.save 0] none :=
    ⟨rfl, by simp [initSt], fun _ => Or.inr (by simp)⟩
  obtain ⟨st1, s1, hres, _, hd, hsb, _⟩ := (read_goals fuel).1 s p [] h initSt [Atom.save 0] none hwf hsl hoff hrel
  obtain ⟨fuel', pat', he, hf⟩ := s1 (s.length + 1) s (Nat.le_refl _)
  unfold parse
  rw [he]
  cases fuel' with
  | zero => simp at hf
  | succ f =>
    have hfin : finish st1 = .ok (trim st1.result) := by
      unfold finish
      rw [if_neg (by rw [hd]; simp [initSt]), if_neg (by rw [hsb]; simp [initSt])]
    rw [parseLoop]
    simp only [hfin]
    rw [trim_toList, hres]
    simp [compile, compileRaw, code, initSt]

/-- **every string of the reference grammar**: the parser maps it to the reference compiler's output for the
tree the reference reader assigns to it -/
theorem parse_of_readPat (s : List UInt8) (p : Pat) (h : readPat s = some p) (hwf : WF p = true) :
    parse s = .ok (compile p) :=
  parse_of_readSeq (readPat_inv h) hwf

end Pelite.PatSem
