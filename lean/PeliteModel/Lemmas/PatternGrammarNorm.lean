import PeliteModel.Lemmas.PatternGrammarRT
/-!
# White space normalisation of pattern trees

`normItems p` drops the empty `ws` items of `p` and merges adjacent ones, at every nesting level.  It is the
tree the reference reader assigns to every rendering of `p` (`readPat_render_norm`), it has the same renderings,
the same reference code (`comp`), the same slot numbering and it is well formed when `p` is.
-/
namespace Pelite.PatSem
open Pelite.Pattern

/-- put the white space `s` in front of an (already normal) sequence -/
def consWs (s : List UInt8) : List Item → List Item
  | .ws t :: r => .ws (s ++ t) :: r
  | r => if s.isEmpty then r else .ws s :: r

mutual
def normItems : List Item → List Item
  | [] => []
  | .ws s :: r => consWs s (normItems r)
  | .group j g body :: r => .group j g (normItems body) :: normItems r
  | .alt bs :: r => .alt (normAlts bs) :: normItems r
  | it :: r => it :: normItems r
def normAlts : List (List Item) → List (List Item)
  | [] => []
  | b :: bs => normItems b :: normAlts bs
end

/-- **the white-space-normal form of a tree** -/
def wsNorm (p : Pat) : Pat := normItems p

/-! ## `consWs` -/

theorem consWs_cases (s : List UInt8) (r : List Item) :
    (∃ t r', r = .ws t :: r' ∧ consWs s r = .ws (s ++ t) :: r') ∨
    (headIsWs r = false ∧ s = [] ∧ consWs s r = r) ∨
    (headIsWs r = false ∧ s ≠ [] ∧ consWs s r = .ws s :: r) := by
  cases r with
  | nil => by_cases hs : s = [] <;> simp [consWs, headIsWs, hs]
  | cons it r' =>
    cases it <;> first
      | exact Or.inl ⟨_, _, rfl, rfl⟩
      | (by_cases hs : s = [] <;> simp [consWs, headIsWs, Item.isWs, hs])

theorem render_consWs (sty : Style) (s : List UInt8) (r : List Item) :
    render sty (consWs s r) = s ++ render sty r := by
  rcases consWs_cases s r with ⟨t, r', rfl, e⟩ | ⟨_, rfl, e⟩ | ⟨_, _, e⟩ <;> rw [e] <;> simp [render, renderItem]

theorem comp_consWs (s : List UInt8) (r : List Item) (k : Nat) (pend : Option Nat) :
    comp k pend (consWs s r) = comp k pend r := by
  rcases consWs_cases s r with ⟨t, r', rfl, e⟩ | ⟨_, rfl, e⟩ | ⟨_, _, e⟩ <;> rw [e] <;> simp [comp]

theorem slots_consWs (s : List UInt8) (r : List Item) (k : Nat) :
    slotsItems k (consWs s r) = slotsItems k r := by
  rcases consWs_cases s r with ⟨t, r', rfl, e⟩ | ⟨_, rfl, e⟩ | ⟨_, _, e⟩ <;> rw [e] <;> simp [slotsItems, slotsItem]

theorem offs_consWs (s : List UInt8) (r : List Item) (k : Nat) :
    offsItems k (consWs s r) = offsItems k r := by
  rcases consWs_cases s r with ⟨t, r', rfl, e⟩ | ⟨_, rfl, e⟩ | ⟨_, _, e⟩ <;> rw [e] <;>
    simp [offsItems, offsItem, slotsItem]

theorem wf_consWs (d : Nat) (s : List UInt8) (r : List Item) (hs : s.all isWsByte = true) (hr : wfItems d r = true) :
    wfItems d (consWs s r) = true := by
  rcases consWs_cases s r with ⟨t, r', rfl, e⟩ | ⟨_, rfl, e⟩ | ⟨_, _, e⟩ <;> rw [e]
  · simp only [wfItems, wfItem, Bool.and_eq_true, List.all_append] at hr ⊢
    exact ⟨⟨hs, hr.1⟩, hr.2⟩
  · exact hr
  · simp only [wfItems, wfItem, Bool.and_eq_true]; exact ⟨hs, hr⟩

theorem wsNorm_consWs (s : List UInt8) (r : List Item) (hr : wsNormItems r = true) :
    wsNormItems (consWs s r) = true := by
  rcases consWs_cases s r with ⟨t, r', rfl, e⟩ | ⟨hh, rfl, e⟩ | ⟨hh, hs, e⟩ <;> rw [e]
  · obtain ⟨h1, h2, h3⟩ := wsNorm_cons hr
    have ht : t ≠ [] := by simpa [wsNormItem] using h1
    simp [wsNormItems, wsNormItem, Item.isWs, h2 rfl, h3, ht]
  · exact hr
  · simp [wsNormItems, wsNormItem, Item.isWs, hh, hr, hs]

/-! ## The normal form has the same renderings, slots, code; it is normal and well formed -/

mutual
theorem render_norm (sty : Style) : ∀ items : List Item, render sty (normItems items) = render sty items
  | [] => by simp [normItems]
  | .ws s :: r => by rw [normItems, render_consWs, render_norm sty r]; simp [render, renderItem]
  | .group j g body :: r => by
    rw [normItems]; simp only [render, renderItem]; rw [render_norm sty body, render_norm sty r]
  | .alt bs :: r => by
    rw [normItems]; simp only [render, renderItem]; rw [renderAlts_norm sty bs, render_norm sty r]
  | .byte _ :: r | .str _ :: r | .any :: r | .skip _ :: r | .range _ _ :: r | .jump _ :: r | .save :: r
  | .aligned _ :: r | .readI _ :: r | .readU _ :: r | .zero :: r => by
    rw [normItems] <;> first | (intros; contradiction) | (simp only [render]; rw [render_norm sty r])
theorem renderAlts_norm (sty : Style) : ∀ bs : List (List Item), renderAlts sty (normAlts bs) = renderAlts sty bs
  | [] => by simp [normAlts]
  | [b] => by simp only [normAlts, renderAlts]; exact render_norm sty b
  | b :: b' :: bs => by
    have ih := renderAlts_norm sty (b' :: bs)
    simp only [normAlts] at ih ⊢
    have hne : (normItems b' :: normAlts bs) = [] → False := by simp
    have hne2 : (b' :: bs) = [] → False := by simp
    rw [renderAlts.eq_3 _ _ _ hne, renderAlts.eq_3 _ _ _ hne2, render_norm sty b, ih]
end

mutual
theorem slots_norm : ∀ (items : List Item) (k : Nat), slotsItems k (normItems items) = slotsItems k items
  | [], _ => by simp [normItems]
  | .ws s :: r, k => by rw [normItems, slots_consWs, slots_norm r]; simp [slotsItems, slotsItem]
  | .group j g body :: r, k => by
    rw [normItems]; simp only [slotsItems, slotsItem]; rw [slots_norm body, slots_norm r]
  | .alt bs :: r, k => by
    rw [normItems]; simp only [slotsItems, slotsItem]; rw [slotsAlts_norm bs, slots_norm r]
  | .byte _ :: r, k | .str _ :: r, k | .any :: r, k | .skip _ :: r, k | .range _ _ :: r, k | .jump _ :: r, k
  | .save :: r, k | .aligned _ :: r, k | .readI _ :: r, k | .readU _ :: r, k | .zero :: r, k => by
    rw [normItems] <;> first | (intros; contradiction) | (simp only [slotsItems]; rw [slots_norm r])
theorem slotsAlts_norm : ∀ (bs : List (List Item)) (k : Nat), slotsAlts k (normAlts bs) = slotsAlts k bs
  | [], _ => by simp [normAlts]
  | b :: bs, k => by simp only [normAlts, slotsAlts]; rw [slots_norm b, slotsAlts_norm bs]
end

mutual
theorem comp_norm : ∀ (items : List Item) (k : Nat) (pend : Option Nat),
    comp k pend (normItems items) = comp k pend items
  | [], _, _ => by simp [normItems]
  | .ws s :: r, k, pend => by rw [normItems, comp_consWs, comp_norm r]; simp [comp]
  | .group j g body :: r, k, pend => by
    rw [normItems]; simp only [comp]; rw [comp_norm body, comp_norm r, slots_norm body]
  | .alt bs :: r, k, pend => by
    rw [normItems]; simp only [comp]; rw [compAlts_norm bs, comp_norm r, slotsAlts_norm bs]
  | .byte _ :: r, k, pend | .jump _ :: r, k, pend | .save :: r, k, pend
  | .aligned _ :: r, k, pend | .readI _ :: r, k, pend | .readU _ :: r, k, pend | .zero :: r, k, pend
  | .range _ _ :: r, k, pend => by
    rw [normItems] <;> first | (intros; contradiction) | (simp only [comp]; rw [comp_norm r])
  | .any :: r, k, pend => by
    rw [normItems] <;> first
      | (intros; contradiction)
      | (cases pend <;> simp only [comp] <;> simp only [comp_norm r])
  | .str _ :: r, k, pend | .skip _ :: r, k, pend => by
    rw [normItems] <;> first | (intros; contradiction) | (simp only [comp]; rw [comp_norm r, comp_norm r])
theorem compAlts_norm : ∀ (bs : List (List Item)) (k : Nat), compAlts k (normAlts bs) = compAlts k bs
  | [], _ => by simp [normAlts]
  | [b], k => by simp only [normAlts, compAlts]; rw [comp_norm b]
  | b :: b' :: bs, k => by
    have ih := compAlts_norm (b' :: bs) k
    simp only [normAlts] at ih ⊢
    have hne : (normItems b' :: normAlts bs) = [] → False := by simp
    have hne2 : (b' :: bs) = [] → False := by simp
    rw [compAlts.eq_3 _ _ _ hne, compAlts.eq_3 _ _ _ hne2, comp_norm b, ih]
end

theorem isEmpty_normAlts (bs : List (List Item)) : (normAlts bs).isEmpty = bs.isEmpty := by
  cases bs <;> simp [normAlts]

mutual
theorem wf_norm : ∀ (items : List Item) (d : Nat), wfItems d items = true → wfItems d (normItems items) = true
  | [], _, _ => by simp [normItems, wfItems]
  | .ws s :: r, d, h => by
    obtain ⟨h1, h2⟩ := wfItems_cons h
    rw [normItems]; exact wf_consWs d s _ (by simpa [wfItem] using h1) (wf_norm r d h2)
  | .group j g body :: r, d, h => by
    obtain ⟨h1, h2⟩ := wfItems_cons h
    simp only [wfItem, Bool.and_eq_true] at h1
    rw [normItems]; simp only [wfItems, wfItem, Bool.and_eq_true]
    exact ⟨⟨h1.1, wf_norm body (d + 1) h1.2⟩, wf_norm r d h2⟩
  | .alt bs :: r, d, h => by
    obtain ⟨h1, h2⟩ := wfItems_cons h
    simp only [wfItem, Bool.and_eq_true] at h1
    rw [normItems]; simp only [wfItems, wfItem, Bool.and_eq_true]
    exact ⟨⟨by rw [isEmpty_normAlts]; exact h1.1, wfAlts_norm bs d h1.2⟩, wf_norm r d h2⟩
  | .byte _ :: r, d, h | .str _ :: r, d, h | .any :: r, d, h | .skip _ :: r, d, h | .range _ _ :: r, d, h
  | .jump _ :: r, d, h | .save :: r, d, h | .aligned _ :: r, d, h | .readI _ :: r, d, h | .readU _ :: r, d, h
  | .zero :: r, d, h => by
    rw [normItems] <;> first
      | (intros; contradiction)
      | (obtain ⟨h1, h2⟩ := wfItems_cons h
         simp only [wfItems, Bool.and_eq_true]; exact ⟨h1, wf_norm r d h2⟩)
theorem wfAlts_norm : ∀ (bs : List (List Item)) (d : Nat), wfAlts d bs = true → wfAlts d (normAlts bs) = true
  | [], _, _ => by simp [normAlts, wfAlts]
  | b :: bs, d, h => by
    simp only [wfAlts, Bool.and_eq_true] at h
    simp only [normAlts, wfAlts, Bool.and_eq_true]
    exact ⟨wf_norm b d h.1, wfAlts_norm bs d h.2⟩
end

mutual
theorem offs_norm : ∀ (items : List Item) (k : Nat), offsItems k (normItems items) = offsItems k items
  | [], _ => by simp [normItems]
  | .ws s :: r, k => by rw [normItems, offs_consWs, offs_norm r]; simp [offsItems, offsItem, slotsItem]
  | .group j g body :: r, k => by
    rw [normItems]; simp only [offsItems, offsItem, slotsItem]; rw [offs_norm body, slots_norm body, offs_norm r]
  | .alt bs :: r, k => by
    rw [normItems]; simp only [offsItems, offsItem, slotsItem]; rw [offsAlts_norm bs, slotsAlts_norm bs, offs_norm r]
  | .byte _ :: r, k | .str _ :: r, k | .any :: r, k | .skip _ :: r, k | .range _ _ :: r, k | .jump _ :: r, k
  | .save :: r, k | .aligned _ :: r, k | .readI _ :: r, k | .readU _ :: r, k | .zero :: r, k => by
    rw [normItems] <;> first | (intros; contradiction) | (simp only [offsItems]; rw [offs_norm r])
theorem offsAlts_norm : ∀ (bs : List (List Item)) (k : Nat), offsAlts k (normAlts bs) = offsAlts k bs
  | [], _ => by simp [normAlts]
  | [b], k => by simp only [normAlts, offsAlts]; rw [offs_norm b]
  | b :: b' :: bs, k => by
    have ih := offsAlts_norm (b' :: bs) k
    have ic := compAlts_norm (b' :: bs) k
    simp only [normAlts] at ih ic ⊢
    have hne : (normItems b' :: normAlts bs) = [] → False := by simp
    have hne2 : (b' :: bs) = [] → False := by simp
    rw [offsAlts.eq_3 _ _ _ hne, offsAlts.eq_3 _ _ _ hne2, offs_norm b, ih, ic, code, code, comp_norm b]
end

mutual
theorem normal_norm : ∀ items : List Item, wsNormItems (normItems items) = true
  | [] => by simp [normItems, wsNormItems]
  | .ws s :: r => by rw [normItems]; exact wsNorm_consWs s _ (normal_norm r)
  | .group j g body :: r => by
    rw [normItems]; simp [wsNormItems, wsNormItem, Item.isWs, normal_norm body, normal_norm r]
  | .alt bs :: r => by
    rw [normItems]; simp [wsNormItems, wsNormItem, Item.isWs, normalAlts_norm bs, normal_norm r]
  | .byte _ :: r | .str _ :: r | .any :: r | .skip _ :: r | .range _ _ :: r | .jump _ :: r | .save :: r
  | .aligned _ :: r | .readI _ :: r | .readU _ :: r | .zero :: r => by
    rw [normItems] <;> first
      | (intros; contradiction)
      | simp [wsNormItems, wsNormItem, Item.isWs, normal_norm r]
theorem normalAlts_norm : ∀ bs : List (List Item), wsNormAlts (normAlts bs) = true
  | [] => by simp [normAlts, wsNormAlts]
  | b :: bs => by simp [normAlts, wsNormAlts, normal_norm b, normalAlts_norm bs]
end

/- normal trees are fixed points -/
mutual
theorem norm_of_normal : ∀ items : List Item, wsNormItems items = true → normItems items = items
  | [], _ => by simp [normItems]
  | .ws s :: r, h => by
    obtain ⟨h1, h2, h3⟩ := wsNorm_cons h
    have hs : s ≠ [] := by simpa [wsNormItem] using h1
    rw [normItems, norm_of_normal r h3]
    rcases consWs_cases s r with ⟨t, r', rfl, _⟩ | ⟨_, hs', _⟩ | ⟨_, _, e⟩
    · simp [headIsWs, Item.isWs] at h2
    · exact absurd hs' hs
    · exact e
  | .group j g body :: r, h => by
    obtain ⟨h1, _, h3⟩ := wsNorm_cons h
    rw [normItems, norm_of_normal body (by simpa [wsNormItem] using h1), norm_of_normal r h3]
  | .alt bs :: r, h => by
    obtain ⟨h1, _, h3⟩ := wsNorm_cons h
    rw [normItems, normAlts_of_normal bs (by simpa [wsNormItem] using h1), norm_of_normal r h3]
  | .byte _ :: r, h | .str _ :: r, h | .any :: r, h | .skip _ :: r, h | .range _ _ :: r, h | .jump _ :: r, h
  | .save :: r, h | .aligned _ :: r, h | .readI _ :: r, h | .readU _ :: r, h | .zero :: r, h => by
    rw [normItems] <;> first
      | (intros; contradiction)
      | rw [norm_of_normal r (wsNorm_cons h).2.2]
theorem normAlts_of_normal : ∀ bs : List (List Item), wsNormAlts bs = true → normAlts bs = bs
  | [], _ => by simp [normAlts]
  | b :: bs, h => by
    simp only [wsNormAlts, Bool.and_eq_true] at h
    rw [normAlts, norm_of_normal b h.1, normAlts_of_normal bs h.2]
end

/-! ## Summary for whole patterns -/

theorem render_wsNorm (sty : Style) (p : Pat) : render sty (wsNorm p) = render sty p := render_norm sty p

theorem compile_wsNorm (p : Pat) : compile (wsNorm p) = compile p := by
  simp only [compile, compileRaw, code, wsNorm, comp_norm]

theorem WF_wsNorm (p : Pat) (h : WF p = true) : WF (wsNorm p) = true := by
  simp only [WF, Bool.and_eq_true, decide_eq_true_eq] at h ⊢
  simp only [wsNorm, slots_norm, offs_norm]
  exact ⟨⟨wf_norm p 0 h.1.1, h.1.2⟩, h.2⟩

theorem wsNormal_wsNorm (p : Pat) : wsNormal (wsNorm p) = true := normal_norm p

theorem wsNorm_of_wsNormal (p : Pat) (h : wsNormal p = true) : wsNorm p = p := norm_of_normal p h

/-- **the reader's tree of every rendering** of a (locally) well-formed tree is its white space normal form -/
theorem readPat_render_norm (sty : Style) (p : Pat) (d : Nat) (hwf : wfItems d p = true) :
    readPat (render sty p) = some (wsNorm p) := by
  rw [← render_wsNorm]
  exact readPat_render sty _ d (wf_norm p d hwf) (wsNormal_wsNorm p)

end Pelite.PatSem
