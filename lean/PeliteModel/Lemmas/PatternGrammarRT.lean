import PeliteModel.Lemmas.PatternGrammar
/-!
# Reader / renderer round trip: `readPat (render sty p) = some p` for white-space-normal trees

The reference reader turns every maximal white space run into ONE `ws` item, so `render` followed by `readPat`
is the identity only on trees whose white space is normalised: no empty `ws`, no two adjacent `ws` items
(`wsNormal`).  Everything else `WF` already demands (operands in range, quoted text free of `"`, …).
-/
namespace Pelite.PatSem
open Pelite.Pattern

/-! ## The normal form -/

def Item.isWs : Item → Bool
  | .ws _ => true
  | _ => false

def headIsWs : List Item → Bool
  | it :: _ => it.isWs
  | [] => false

/- white space normal form: what the reader produces — every `ws` item is a non-empty, maximal run -/
mutual
def wsNormItem : Item → Bool
  | .ws s => !s.isEmpty
  | .group _ _ body => wsNormItems body
  | .alt bodies => wsNormAlts bodies
  | _ => true
def wsNormItems : List Item → Bool
  | [] => true
  | it :: r => wsNormItem it && !(it.isWs && headIsWs r) && wsNormItems r
def wsNormAlts : List (List Item) → Bool
  | [] => true
  | b :: bs => wsNormItems b && wsNormAlts bs
end

/-- **white-space-normal tree**: no empty `ws` item and no two adjacent `ws` items, at every nesting level
(the gap of a `group` is unconstrained) -/
def wsNormal (p : Pat) : Bool := wsNormItems p

/-! ## What may follow an item -/

/-- the text does not begin with white space or `{` -/
def startOK : List UInt8 → Bool
  | [] => true
  | c :: _ => !isWsByte c && c != 123

/-- behind optional white space no `{` follows (so a jump symbol in front is not read as a group) -/
def GapOK (l : List UInt8) : Prop := ∀ r0, l.dropWhile isWsByte ≠ 123 :: r0

/-- the text is empty or begins with `}`, `|`, `)` -/
def TailOK (tail : List UInt8) : Prop := tail = [] ∨ ∃ c r, tail = c :: r ∧ (c = 125 ∨ c = 124 ∨ c = 41)

theorem TailOK.startOK {tail : List UInt8} (h : TailOK tail) : startOK tail = true := by
  rcases h with rfl | ⟨c, r, rfl, hc | hc | hc⟩ <;> subst_vars <;> simp [Pelite.PatSem.startOK, isWsByte]

theorem startOK_takeWhile {l : List UInt8} (h : startOK l = true) : l.takeWhile isWsByte = [] := by
  cases l with
  | nil => rfl
  | cons c l => simp [startOK] at h; simp [List.takeWhile, h.1]

theorem startOK_dropWhile {l : List UInt8} (h : startOK l = true) : l.dropWhile isWsByte = l := by
  cases l with
  | nil => rfl
  | cons c l => simp [startOK] at h; simp [List.dropWhile, h.1]

theorem gapOK_of_startOK {l : List UInt8} (h : startOK l = true) : GapOK l := by
  intro r0 e
  rw [startOK_dropWhile h] at e
  subst e
  simp [startOK] at h

/-- the first byte of every item other than white space -/
theorem hexDigit_start : ∀ (up : Bool) (n : Nat), n < 16 →
    isWsByte (hexDigit up n) = false ∧ hexDigit up n ≠ 123 := by decide

theorem startOK_renderItem (sty : Style) (d : Nat) : ∀ (it : Item) (rest : List UInt8), it.isWs = false →
    wfItem d it = true → startOK (renderItem sty it ++ rest) = true
  | .ws _, _, h, _ => by simp [Item.isWs] at h
  | .byte b, rest, _, hwf => by
    have hb : b < 256 := by simpa [wfItem] using hwf
    have := hexDigit_start sty.upperHex (b / 16) (by omega)
    simp [renderItem, startOK, this.1, this.2]
  | .str _, _, _, _ => by simp [renderItem, startOK, isWsByte]
  | .any, _, _, _ => by simp [renderItem, startOK, isWsByte]
  | .skip _, _, _, _ => by simp [renderItem, startOK, isWsByte]
  | .range _ _, _, _, _ => by simp [renderItem, startOK, isWsByte]
  | .jump j, _, _, _ => by cases j <;> simp [renderItem, startOK, isWsByte, Jump.chr]
  | .save, _, _, _ => by simp [renderItem, startOK, isWsByte]
  | .aligned _, _, _, _ => by simp [renderItem, startOK, isWsByte]
  | .readI _, _, _, _ => by simp [renderItem, startOK, isWsByte]
  | .readU _, _, _, _ => by simp [renderItem, startOK, isWsByte]
  | .zero, _, _, _ => by simp [renderItem, startOK, isWsByte]
  | .group j _ _, _, _, _ => by cases j <;> simp [renderItem, startOK, isWsByte, Jump.chr]
  | .alt _, _, _, _ => by simp [renderItem, startOK, isWsByte]

theorem startOK_render (sty : Style) (d : Nat) (items : List Item) (tail : List UInt8)
    (hh : headIsWs items = false) (hwf : wfItems d items = true) (ht : startOK tail = true) :
    startOK (render sty items ++ tail) = true := by
  cases items with
  | nil => simpa [render] using ht
  | cons it r =>
    simp only [wfItems, Bool.and_eq_true] at hwf
    rw [render, List.append_assoc]
    exact startOK_renderItem sty d it _ (by simpa [headIsWs] using hh) hwf.1

theorem gapOK_render (sty : Style) (d : Nat) (items : List Item) (tail : List UInt8)
    (hwf : wfItems d items = true) (hn : wsNormItems items = true) (ht : startOK tail = true) :
    GapOK (render sty items ++ tail) := by
  by_cases hh : headIsWs items = false
  · exact gapOK_of_startOK (startOK_render sty d items tail hh hwf ht)
  · cases items with
    | nil => simp [headIsWs] at hh
    | cons it r =>
      cases it with
      | ws s =>
        simp only [wfItems, wfItem, Bool.and_eq_true] at hwf
        simp only [wsNormItems, Item.isWs, Bool.true_and, Bool.and_eq_true, Bool.not_eq_true'] at hn
        intro r0
        rw [render, renderItem, List.append_assoc, List.dropWhile_append_of_pos (by simpa using hwf.1)]
        exact gapOK_of_startOK (startOK_render sty d r tail hn.1.2 hwf.2 ht) r0
      | _ => simp [headIsWs, Item.isWs] at hh

/-! ## One reader step per item kind -/

/-- the continuation of the reader after an item -/
abbrev contR (it : Item) (o : Option (List Item × List UInt8)) : Option (List Item × List UInt8) :=
  o.map (fun x => (it :: x.1, x.2))

theorem rt_stop (f : Nat) (tail : List UInt8) (h : TailOK tail) : readSeq (f + 1) tail = some ([], tail) := by
  rcases h with rfl | ⟨c, r, rfl, hc⟩
  · rw [readSeq.eq_def]
  · rw [readSeq.eq_def]; dsimp only; rw [if_pos hc]

theorem rt_ws (f : Nat) (s rest : List UInt8) (hne : s ≠ []) (hs : s.all isWsByte = true) (hr : startOK rest = true) :
    readSeq (f + 1) (s ++ rest) = contR (.ws s) (readSeq f rest) := by
  have h1 : (s ++ rest).takeWhile isWsByte = s := by
    rw [List.takeWhile_append_of_pos (by simpa using hs), startOK_takeWhile hr]; simp
  have h2 : (s ++ rest).dropWhile isWsByte = rest := by
    rw [List.dropWhile_append_of_pos (by simpa using hs), startOK_dropWhile hr]
  cases s with
  | nil => exact absurd rfl hne
  | cons c s =>
    simp only [List.all_cons, Bool.and_eq_true] at hs
    have hc : ¬ (c = 125 ∨ c = 124 ∨ c = 41) := by
      rcases isWsByte_cases hs.1 with h | h | h | h <;>
        (intro hx; rcases hx with rfl | rfl | rfl <;> simp at h)
    rw [List.cons_append] at h1 h2 ⊢
    rw [readSeq.eq_def]; dsimp only
    rw [if_neg hc, if_pos hs.1, h1, h2]

theorem rt_any (f : Nat) (rest : List UInt8) : readSeq (f + 1) (63 :: rest) = contR .any (readSeq f rest) := by
  rw [readSeq.eq_def]; simp [isWsByte]

theorem rt_save (f : Nat) (rest : List UInt8) : readSeq (f + 1) (39 :: rest) = contR .save (readSeq f rest) := by
  rw [readSeq.eq_def]; simp [isWsByte]

theorem rt_zero (f : Nat) (rest : List UInt8) : readSeq (f + 1) (122 :: rest) = contR .zero (readSeq f rest) := by
  rw [readSeq.eq_def]; simp [isWsByte]

theorem rt_str (f : Nat) (bs rest : List UInt8) (h : bs.all (· ≠ 34) = true) :
    readSeq (f + 1) (34 :: (bs ++ 34 :: rest)) = contR (.str bs) (readSeq f rest) := by
  have h1 : (bs ++ 34 :: rest).takeWhile (· ≠ 34) = bs := by
    rw [List.takeWhile_append_of_pos (by simpa using h)]; simp
  have h2 : (bs ++ 34 :: rest).dropWhile (· ≠ 34) = 34 :: rest := by
    rw [List.dropWhile_append_of_pos (by simpa using h)]; simp
  rw [readSeq.eq_def]; dsimp only; rw [h1, h2]; simp [isWsByte]

/-- hex digits: not an operator character, and `hexVal` inverts `hexDigit` -/
theorem hexDigit_read : ∀ (up : Bool) (n : Nat), n < 16 →
    ¬ (hexDigit up n = 125 ∨ hexDigit up n = 124 ∨ hexDigit up n = 41) ∧ isWsByte (hexDigit up n) = false ∧
    hexDigit up n ≠ 63 ∧ hexDigit up n ≠ 39 ∧ hexDigit up n ≠ 122 ∧ hexDigit up n ≠ 34 ∧ hexDigit up n ≠ 64 ∧
    ¬ (hexDigit up n = 105 ∨ hexDigit up n = 117) ∧ hexDigit up n ≠ 91 ∧ hexDigit up n ≠ 40 ∧
    jumpOf (hexDigit up n) = none ∧ hexVal (hexDigit up n) = some n := by decide

theorem rt_byte (f : Nat) (up : Bool) (b : Nat) (hb : b < 256) (rest : List UInt8) :
    readSeq (f + 1) (hexDigit up (b / 16) :: hexDigit up (b % 16) :: rest) = contR (.byte b) (readSeq f rest) := by
  obtain ⟨h1, h2, h3, h4, h5, h6, h7, h8, h9, h10, h11, h12⟩ := hexDigit_read up (b / 16) (by omega)
  have h13 := (hexDigit_read up (b % 16) (by omega)).2.2.2.2.2.2.2.2.2.2.2
  rw [readSeq.eq_def]; dsimp only
  rw [if_neg h1, h2]
  simp only [Bool.false_eq_true, ↓reduceIte, if_neg h3, if_neg h4, if_neg h5, if_neg h6, if_neg h7, if_neg h8, if_neg h9,
    if_neg h10, h11, h12, h13, Option.bind_some]
  have e : b / 16 * 16 + b % 16 = b := by omega
  rw [e]

theorem alignChr_read : ∀ (uh ua : Bool) (n : Nat), n < 36 → alignVal (alignChr ⟨uh, ua⟩ n) = some n := by decide

theorem rt_aligned (f : Nat) (sty : Style) (n : Nat) (hn : n < 36) (rest : List UInt8) :
    readSeq (f + 1) (64 :: alignChr sty n :: rest) = contR (.aligned n) (readSeq f rest) := by
  rw [readSeq.eq_def]; simp [isWsByte, alignChr_read sty.upperHex sty.upperAlign n hn]

theorem rt_readI (f : Nat) (w : Nat) (hw : w = 1 ∨ w = 2 ∨ w = 4) (rest : List UInt8) :
    readSeq (f + 1) (105 :: (48 + w).toUInt8 :: rest) = contR (.readI w) (readSeq f rest) := by
  rcases hw with rfl | rfl | rfl <;> (rw [readSeq.eq_def]; simp [isWsByte])

theorem rt_readU (f : Nat) (w : Nat) (hw : w = 1 ∨ w = 2 ∨ w = 4) (rest : List UInt8) :
    readSeq (f + 1) (117 :: (48 + w).toUInt8 :: rest) = contR (.readU w) (readSeq f rest) := by
  rcases hw with rfl | rfl | rfl <;> (rw [readSeq.eq_def]; simp [isWsByte])

/-! ### decimals -/

theorem readDec_digit (d : Nat) (cs : List UInt8) (n : Nat) (seen : Bool) (hd : d < 10) (hn : n < 100000) :
    readDec ((48 + d).toUInt8 :: cs) n seen = readDec cs (n * 10 + d) true := by
  have ht := digit_toNat d hd
  have hc : 48 ≤ (48 + d).toUInt8 ∧ (48 + d).toUInt8 ≤ 57 := by rw [digit_cond, ht]; omega
  rw [readDec, if_pos hc, if_pos hn, ht]
  congr 1; omega

theorem readDec_decDigits : ∀ (fuel n : Nat) (acc rest : List UInt8), n < 10 ^ (fuel + 1) → n < 100000 →
    readDec (decDigits (fuel + 1) n acc ++ rest) 0 false = readDec (acc ++ rest) n true
  | 0, n, acc, rest, h, _ => by
    have hn : n < 10 := by simpa using h
    rw [decDigits, if_pos hn, List.cons_append, readDec_digit n _ 0 false hn (by omega)]; simp
  | fuel + 1, n, acc, rest, h, h2 => by
    rw [decDigits]
    split
    · next hn => rw [List.cons_append, readDec_digit n _ 0 false hn (by omega)]; simp
    · next hn =>
      have h10 : n / 10 < 10 ^ (fuel + 1) := by rw [Nat.pow_succ] at h; omega
      rw [readDec_decDigits fuel (n / 10) _ rest h10 (by omega), List.cons_append,
        readDec_digit (n % 10) _ (n / 10) true (by omega) (by omega)]
      congr 1; omega

/-- the reader's value of the canonical spelling -/
theorem readDec_dec (n : Nat) (hn : n < 16384) (c : UInt8) (hc : c = 45 ∨ c = 93) (rest : List UInt8) :
    readDec (dec n ++ c :: rest) 0 false = some (n, c :: rest) := by
  rw [dec, readDec_decDigits 5 n [] _ (by omega) (by omega), List.nil_append, readDec]
  rcases hc with rfl | rfl <;> simp

theorem rt_skip (f : Nat) (n : Nat) (hn : n < 16384) (rest : List UInt8) :
    readSeq (f + 1) (91 :: (dec n ++ 93 :: rest)) = contR (.skip n) (readSeq f rest) := by
  rw [readSeq.eq_def]; dsimp only
  rw [readDec_dec n hn 93 (Or.inr rfl)]
  simp [isWsByte]

theorem rt_range (f : Nat) (a b : Nat) (ha : a < 16384) (hb : b < 16384) (rest : List UInt8) :
    readSeq (f + 1) (91 :: (dec a ++ 45 :: (dec b ++ 93 :: rest))) = contR (.range a b) (readSeq f rest) := by
  rw [readSeq.eq_def]; dsimp only
  rw [readDec_dec a ha 45 (Or.inl rfl)]
  simp [isWsByte, readDec_dec b hb 93 (Or.inr rfl)]

/-! ### jumps, groups, alternatives -/

theorem jump_read : ∀ j : Jump,
    ¬ (j.chr = 125 ∨ j.chr = 124 ∨ j.chr = 41) ∧ isWsByte j.chr = false ∧
    j.chr ≠ 63 ∧ j.chr ≠ 39 ∧ j.chr ≠ 122 ∧ j.chr ≠ 34 ∧ j.chr ≠ 64 ∧
    ¬ (j.chr = 105 ∨ j.chr = 117) ∧ j.chr ≠ 91 ∧ j.chr ≠ 40 ∧ jumpOf j.chr = some j := by
  intro j; cases j <;> decide

theorem rt_jump (f : Nat) (j : Jump) (rest : List UInt8) (hg : GapOK rest) :
    readSeq (f + 1) (j.chr :: rest) = contR (.jump j) (readSeq f rest) := by
  obtain ⟨h1, h2, h3, h4, h5, h6, h7, h8, h9, h10, h11⟩ := jump_read j
  rw [readSeq.eq_def]; dsimp only
  rw [if_neg h1, h2]
  simp only [Bool.false_eq_true, ↓reduceIte, if_neg h3, if_neg h4, if_neg h5, if_neg h6, if_neg h7, if_neg h8, if_neg h9,
    if_neg h10, h11]
  split
  · next r0 hd => exact absurd hd (hg r0)
  · rfl

theorem rt_group (f : Nat) (j : Jump) (gap : List UInt8) (body : List Item) (inner rest : List UInt8)
    (hgap : gap.all isWsByte = true) (hb : readSeq f inner = some (body, 125 :: rest)) :
    readSeq (f + 1) (j.chr :: (gap ++ 123 :: inner)) = contR (.group j gap body) (readSeq f rest) := by
  obtain ⟨h1, h2, h3, h4, h5, h6, h7, h8, h9, h10, h11⟩ := jump_read j
  have e1 : (gap ++ 123 :: inner).takeWhile isWsByte = gap := by
    rw [List.takeWhile_append_of_pos (by simpa using hgap)]; simp [isWsByte]
  have e2 : (gap ++ 123 :: inner).dropWhile isWsByte = 123 :: inner := by
    rw [List.dropWhile_append_of_pos (by simpa using hgap)]; simp [isWsByte]
  rw [readSeq.eq_def]; dsimp only
  rw [if_neg h1, h2]
  simp only [Bool.false_eq_true, ↓reduceIte, if_neg h3, if_neg h4, if_neg h5, if_neg h6, if_neg h7, if_neg h8, if_neg h9,
    if_neg h10, h11, e1, e2, hb]

theorem rt_alt (f : Nat) (bodies : List (List Item)) (inner rest : List UInt8)
    (hb : readAlts f inner = some (bodies, rest)) :
    readSeq (f + 1) (40 :: inner) = contR (.alt bodies) (readSeq f rest) := by
  rw [readSeq.eq_def]; dsimp only
  simp [isWsByte, hb]

/-! ## The recursion over the tree -/

theorem rt_cons {sty : Style} {it : Item} {r : List Item} {tail : List UInt8} {fuel : Nat}
    (hlen : 1 ≤ (renderItem sty it).length)
    (hstep : ∀ f, (render sty (it :: r)).length ≤ f →
      readSeq (f + 1) (renderItem sty it ++ (render sty r ++ tail)) = contR it (readSeq f (render sty r ++ tail)))
    (ih : ∀ f, (render sty r).length + 1 ≤ f → readSeq f (render sty r ++ tail) = some (r, tail))
    (hf : (render sty (it :: r)).length + 1 ≤ fuel) :
    readSeq fuel (render sty (it :: r) ++ tail) = some (it :: r, tail) := by
  cases fuel with
  | zero => simp at hf
  | succ f =>
    have hf' : (render sty (it :: r)).length ≤ f := by omega
    rw [render, List.append_assoc, hstep f (by rw [render]; exact hf')]
    rw [render, List.length_append] at hf'
    rw [ih f (by omega)]
    rfl

theorem wfItems_cons {d : Nat} {it : Item} {r : List Item} (h : wfItems d (it :: r) = true) :
    wfItem d it = true ∧ wfItems d r = true := by
  simpa [wfItems] using h

theorem wsNorm_cons {it : Item} {r : List Item} (h : wsNormItems (it :: r) = true) :
    wsNormItem it = true ∧ (it.isWs = true → headIsWs r = false) ∧ wsNormItems r = true := by
  simp only [wsNormItems, Bool.and_eq_true, Bool.not_eq_true', Bool.and_eq_false_iff] at h
  refine ⟨h.1.1, ?_, h.2⟩
  intro hi
  rcases h.1.2 with h' | h'
  · rw [hi] at h'; cases h'
  · exact h'

mutual
theorem rt_seq (sty : Style) : ∀ (items : List Item) (d fuel : Nat) (tail : List UInt8),
    wfItems d items = true → wsNormItems items = true → TailOK tail → (render sty items).length + 1 ≤ fuel →
    readSeq fuel (render sty items ++ tail) = some (items, tail)
  | [], _, fuel, tail, _, _, ht, hf => by
    cases fuel with
    | zero => simp at hf
    | succ f => simpa [render] using rt_stop f tail ht
  | .ws s :: r, d, fuel, tail, hwf, hn, ht, hf => by
    obtain ⟨hw1, hw2⟩ := wfItems_cons hwf
    obtain ⟨hn1, hn2, hn3⟩ := wsNorm_cons hn
    have hs : s ≠ [] := by simpa [wsNormItem] using hn1
    have hlen : 1 ≤ s.length := by cases s with | nil => exact absurd rfl hs | cons => simp
    exact rt_cons (by simpa [renderItem] using hlen)
      (fun f _ => by
        simpa [renderItem] using rt_ws f s _ hs (by simpa [wfItem] using hw1)
          (startOK_render sty d r tail (hn2 rfl) hw2 ht.startOK))
      (fun f hf' => rt_seq sty r d f tail hw2 hn3 ht hf') hf
  | .byte b :: r, d, fuel, tail, hwf, hn, ht, hf => by
    obtain ⟨hw1, hw2⟩ := wfItems_cons hwf
    exact rt_cons (by simp [renderItem])
      (fun f _ => by simpa [renderItem] using rt_byte f sty.upperHex b (by simpa [wfItem] using hw1) _)
      (fun f hf' => rt_seq sty r d f tail hw2 (wsNorm_cons hn).2.2 ht hf') hf
  | .str bs :: r, d, fuel, tail, hwf, hn, ht, hf => by
    obtain ⟨hw1, hw2⟩ := wfItems_cons hwf
    exact rt_cons (by simp [renderItem])
      (fun f _ => by simpa [renderItem] using rt_str f bs _ (by simpa [wfItem] using hw1))
      (fun f hf' => rt_seq sty r d f tail hw2 (wsNorm_cons hn).2.2 ht hf') hf
  | .any :: r, d, fuel, tail, hwf, hn, ht, hf =>
    rt_cons (by simp [renderItem]) (fun f _ => by simpa [renderItem] using rt_any f _)
      (fun f hf' => rt_seq sty r d f tail (wfItems_cons hwf).2 (wsNorm_cons hn).2.2 ht hf') hf
  | .skip n :: r, d, fuel, tail, hwf, hn, ht, hf => by
    obtain ⟨hw1, hw2⟩ := wfItems_cons hwf
    exact rt_cons (by simp [renderItem])
      (fun f _ => by simpa [renderItem] using rt_skip f n (by simpa [wfItem] using hw1) _)
      (fun f hf' => rt_seq sty r d f tail hw2 (wsNorm_cons hn).2.2 ht hf') hf
  | .range a b :: r, d, fuel, tail, hwf, hn, ht, hf => by
    obtain ⟨hw1, hw2⟩ := wfItems_cons hwf
    have hab : a < b ∧ b < 16384 := by simpa [wfItem] using hw1
    exact rt_cons (by simp [renderItem])
      (fun f _ => by simpa [renderItem] using rt_range f a b (by omega) hab.2 _)
      (fun f hf' => rt_seq sty r d f tail hw2 (wsNorm_cons hn).2.2 ht hf') hf
  | .jump j :: r, d, fuel, tail, hwf, hn, ht, hf => by
    obtain ⟨hw1, hw2⟩ := wfItems_cons hwf
    exact rt_cons (by simp [renderItem])
      (fun f _ => by
        simpa [renderItem] using rt_jump f j _ (gapOK_render sty d r tail hw2 (wsNorm_cons hn).2.2 ht.startOK))
      (fun f hf' => rt_seq sty r d f tail hw2 (wsNorm_cons hn).2.2 ht hf') hf
  | .save :: r, d, fuel, tail, hwf, hn, ht, hf =>
    rt_cons (by simp [renderItem]) (fun f _ => by simpa [renderItem] using rt_save f _)
      (fun f hf' => rt_seq sty r d f tail (wfItems_cons hwf).2 (wsNorm_cons hn).2.2 ht hf') hf
  | .aligned n :: r, d, fuel, tail, hwf, hn, ht, hf => by
    obtain ⟨hw1, hw2⟩ := wfItems_cons hwf
    exact rt_cons (by simp [renderItem])
      (fun f _ => by simpa [renderItem] using rt_aligned f sty n (by simpa [wfItem] using hw1) _)
      (fun f hf' => rt_seq sty r d f tail hw2 (wsNorm_cons hn).2.2 ht hf') hf
  | .readI w :: r, d, fuel, tail, hwf, hn, ht, hf => by
    obtain ⟨hw1, hw2⟩ := wfItems_cons hwf
    exact rt_cons (by simp [renderItem])
      (fun f _ => by simpa [renderItem] using rt_readI f w (by simpa [wfItem, or_assoc] using hw1) _)
      (fun f hf' => rt_seq sty r d f tail hw2 (wsNorm_cons hn).2.2 ht hf') hf
  | .readU w :: r, d, fuel, tail, hwf, hn, ht, hf => by
    obtain ⟨hw1, hw2⟩ := wfItems_cons hwf
    exact rt_cons (by simp [renderItem])
      (fun f _ => by simpa [renderItem] using rt_readU f w (by simpa [wfItem, or_assoc] using hw1) _)
      (fun f hf' => rt_seq sty r d f tail hw2 (wsNorm_cons hn).2.2 ht hf') hf
  | .zero :: r, d, fuel, tail, hwf, hn, ht, hf =>
    rt_cons (by simp [renderItem]) (fun f _ => by simpa [renderItem] using rt_zero f _)
      (fun f hf' => rt_seq sty r d f tail (wfItems_cons hwf).2 (wsNorm_cons hn).2.2 ht hf') hf
  | .group j gap body :: r, d, fuel, tail, hwf, hn, ht, hf => by
    obtain ⟨hw1, hw2⟩ := wfItems_cons hwf
    obtain ⟨hn1, _, hn3⟩ := wsNorm_cons hn
    simp only [wfItem, Bool.and_eq_true, decide_eq_true_eq] at hw1
    simp only [wsNormItem] at hn1
    exact rt_cons (by simp [renderItem])
      (fun f hf' => by
        have hb := rt_seq sty body (d + 1) f (125 :: (render sty r ++ tail)) hw1.2 hn1
          (Or.inr ⟨125, _, rfl, Or.inl rfl⟩)
          (by simp [render, renderItem] at hf'; omega)
        simpa [renderItem] using rt_group f j gap body _ _ hw1.1.1 hb)
      (fun f hf' => rt_seq sty r d f tail hw2 hn3 ht hf') hf
  | .alt bodies :: r, d, fuel, tail, hwf, hn, ht, hf => by
    obtain ⟨hw1, hw2⟩ := wfItems_cons hwf
    obtain ⟨hn1, _, hn3⟩ := wsNorm_cons hn
    simp only [wfItem, Bool.and_eq_true, Bool.not_eq_true', List.isEmpty_eq_false_iff] at hw1
    simp only [wsNormItem] at hn1
    exact rt_cons (by simp [renderItem])
      (fun f hf' => by
        have hb := rt_alts sty bodies d f (render sty r ++ tail) hw1.1 hw1.2 hn1
          (by simp [render, renderItem] at hf'; omega)
        simpa [renderItem] using rt_alt f bodies _ _ hb)
      (fun f hf' => rt_seq sty r d f tail hw2 hn3 ht hf') hf
theorem rt_alts (sty : Style) : ∀ (bodies : List (List Item)) (d fuel : Nat) (tail : List UInt8),
    bodies ≠ [] → wfAlts d bodies = true → wsNormAlts bodies = true → (renderAlts sty bodies).length + 2 ≤ fuel →
    readAlts fuel (renderAlts sty bodies ++ 41 :: tail) = some (bodies, tail)
  | [], _, _, _, hne, _, _, _ => absurd rfl hne
  | [b], d, fuel, tail, _, hwf, hn, hf => by
    cases fuel with
    | zero => simp at hf
    | succ f =>
      simp only [wfAlts, Bool.and_true] at hwf
      simp only [wsNormAlts, Bool.and_true] at hn
      simp only [renderAlts] at hf ⊢
      have hb := rt_seq sty b d f (41 :: tail) hwf hn (Or.inr ⟨41, _, rfl, Or.inr (Or.inr rfl)⟩) (by omega)
      rw [readAlts.eq_def]; simp [hb]
  | b :: b' :: bs, d, fuel, tail, _, hwf, hn, hf => by
    cases fuel with
    | zero => simp at hf
    | succ f =>
      simp only [wfAlts, Bool.and_eq_true] at hwf
      simp only [wsNormAlts, Bool.and_eq_true] at hn
      have hr : renderAlts sty (b :: b' :: bs) = render sty b ++ 124 :: renderAlts sty (b' :: bs) := by
        rw [renderAlts]; simp
      rw [hr] at hf ⊢
      simp only [List.length_append, List.length_cons] at hf
      have hb := rt_seq sty b d f (124 :: (renderAlts sty (b' :: bs) ++ 41 :: tail)) hwf.1 hn.1
        (Or.inr ⟨124, _, rfl, Or.inr (Or.inl rfl)⟩) (by omega)
      have hbs := rt_alts sty (b' :: bs) d f tail (by simp) (by simpa [wfAlts] using hwf.2)
        (by simpa [wsNormAlts] using hn.2) (by omega)
      rw [List.append_assoc, List.cons_append]
      rw [readAlts.eq_def]; simp [hb, hbs]
end

/-- **round trip on white-space-normal trees** (any depth index: only the local conditions of `wfItems` matter) -/
theorem readPat_render (sty : Style) (p : Pat) (d : Nat) (hwf : wfItems d p = true) (hn : wsNormal p = true) :
    readPat (render sty p) = some p := by
  have h := rt_seq sty p d ((render sty p).length + 1) [] hwf hn (Or.inl rfl) (Nat.le_refl _)
  rw [List.append_nil] at h
  unfold readPat
  rw [h]

end Pelite.PatSem
