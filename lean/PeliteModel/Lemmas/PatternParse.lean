import PeliteModel.Spec.PatternSem
import PeliteModel.Lemmas.Pattern
/-!
# T1: the parser model agrees with the reference compiler on every rendered well-formed tree

`parse_render : WF p = true → parse (render sty p) = .ok (compile p)` for every tree `p` (arbitrary
nesting) and every spelling style.  No hypothesis beyond `WF` is needed.

Proof architecture
* `Steps inp st inp' st'` : `parseLoop`, started on `inp` in state `st` with fuel `≥ |inp| + 1` (any
  `pat`), reaches `inp'` / `st'` with fuel `≥ |inp'| + 1`; reflexive, transitive, one token = one step.
* `Rel st base pend` ties the parser state to the arguments of `comp`: `result = base ++ flush pend`,
  `subEnd ≤ |base|`, and when `pend = none` a following `?` cannot be merged (`subEnd = |base|` or the
  last atom is not a `Skip`).
* `ItemGoal` / `SeqGoal` / `AltsGoal` are the statements for one item / a sequence / the remaining
  alternatives of a `( | )`; every item kind has a non-recursive lemma (`item_*`), the recursion over the
  nested tree is the small `mutual` block `itemGoal` / `seqGoal` / `altsGoal`.
* alternatives: `patch sz P brks` is the list-level effect of `fillBrks`; `AltsGoal` is generalised over
  the prefix `P` already emitted (with its `Break(0)` placeholders at the indices `sub.brks`).
-/
namespace Pelite.PatSem
open Pelite.Pattern

/-! ## Running the loop over a prefix of the input -/

/-- the loop, started on `inp` in state `st` with enough fuel, reaches `inp'` in state `st'` with enough fuel -/
def Steps (inp : List UInt8) (st : PSt) (inp' : List UInt8) (st' : PSt) : Prop :=
  ∀ fuel pat, inp.length + 1 ≤ fuel →
    ∃ fuel' pat', parseLoop fuel inp pat st = parseLoop fuel' inp' pat' st' ∧ inp'.length + 1 ≤ fuel'

theorem Steps.refl (inp : List UInt8) (st : PSt) : Steps inp st inp st :=
  fun fuel pat h => ⟨fuel, pat, rfl, h⟩

theorem Steps.trans {a b c : List UInt8} {s t u : PSt} (h1 : Steps a s b t) (h2 : Steps b t c u) :
    Steps a s c u := by
  intro fuel pat h
  obtain ⟨f1, p1, e1, l1⟩ := h1 fuel pat h
  obtain ⟨f2, p2, e2, l2⟩ := h2 f1 p1 l1
  exact ⟨f2, p2, e1.trans e2, l2⟩

theorem Steps.tok {c : UInt8} {rest : List UInt8} {st : PSt} {nx : Next}
    (h : tok c.toNat rest st = .ok nx) (hl : nx.rest.length ≤ rest.length) :
    Steps (c :: rest) st nx.rest nx.st := by
  intro fuel pat hf
  cases fuel with
  | zero => simp at hf
  | succ f =>
    refine ⟨f, if nx.upd then nx.rest else pat, ?_, ?_⟩
    · rw [parseLoop]; simp only [h]
    · simp at hf; omega

theorem Steps.tok' {c : UInt8} {rest rest' : List UInt8} {st st' : PSt} {upd : Bool}
    (h : Pelite.Pattern.tok c.toNat rest st = .ok ⟨st', rest', upd⟩) (hl : rest'.length ≤ rest.length) :
    Steps (c :: rest) st rest' st' :=
  Steps.tok (nx := ⟨st', rest', upd⟩) h hl

/-! ## UInt8 facts -/

theorem digit_toNat : ∀ n, n < 10 → ((48 + n).toUInt8).toNat = 48 + n := by decide

theorem isWsByte_cases {c : UInt8} (h : isWsByte c = true) : c.toNat = 32 ∨ c.toNat = 9 ∨ c.toNat = 10 ∨ c.toNat = 13 := by
  simp [isWsByte] at h
  rcases h with ((h | h) | h) | h <;> subst h <;> simp

theorem tok_ws {c : UInt8} (h : isWsByte c = true) (rest : List UInt8) (st : PSt) :
    Pelite.Pattern.tok c.toNat rest st = .ok ⟨st, rest, true⟩ := by
  rcases isWsByte_cases h with h | h | h | h <;> rw [h] <;> simp [Pelite.Pattern.tok, classify]

theorem steps_ws : ∀ (s : List UInt8) (tail : List UInt8) (st : PSt), s.all isWsByte = true →
    Steps (s ++ tail) st tail st
  | [], tail, st, _ => Steps.refl _ _
  | c :: s, tail, st, h => by
    simp only [List.all_cons, Bool.and_eq_true] at h
    exact (Steps.tok' (tok_ws h.1 (s ++ tail) st) (Nat.le_refl _)).trans (steps_ws s tail st h.2)


/-! ## The invariant tying the parser state to `comp`'s arguments -/

structure Rel (st : PSt) (base : List Atom) (pend : Option Nat) : Prop where
  res : st.result = (base ++ flush pend).toArray
  sub_le : st.subEnd ≤ base.length
  last : pend = none → st.subEnd = base.length ∨ ∀ n, base.getLast? ≠ some (.skip n)

theorem Rel.append_of {st st1 : PSt} {base pend} {as : List Atom} (h : Rel st base pend)
    (hr : st1.result = (base ++ flush pend ++ as).toArray) (hse : st1.subEnd = st.subEnd)
    (ha : ∀ n, (base ++ flush pend ++ as).getLast? ≠ some (.skip n)) :
    Rel st1 (base ++ flush pend ++ as) none := by
  refine ⟨by simp [hr, flush], ?_, fun _ => Or.inr ha⟩
  rw [hse]; have := h.sub_le; simp; omega

theorem Rel.push_of {st st1 : PSt} {base pend} {a : Atom} (h : Rel st base pend)
    (hr : st1.result = st.result.push a) (hse : st1.subEnd = st.subEnd) (ha : ∀ n, a ≠ .skip n) :
    Rel st1 (base ++ flush pend ++ [a]) none := by
  apply h.append_of _ hse
  · intro n; simp; exact fun h => ha n h
  · rw [hr, h.res]; simp

def ItemGoal (sty : Style) (it : Item) : Prop :=
  ∀ (st : PSt) (base : List Atom) (pend : Option Nat) (tail : List UInt8),
    wfItem st.depth it = true → slotsItem st.save it ≤ 255 → offsItem st.save it = true →
    Rel st base pend →
    ∃ st1 base1 pend1, Steps (renderItem sty it ++ tail) st tail st1 ∧ Rel st1 base1 pend1 ∧
      st1.save = slotsItem st.save it ∧ st1.depth = st.depth ∧ st1.subs = st.subs ∧
      ∀ r, base ++ comp st.save pend (it :: r) = base1 ++ comp (slotsItem st.save it) pend1 r

def SeqGoal (sty : Style) (items : List Item) : Prop :=
  ∀ (st : PSt) (base : List Atom) (pend : Option Nat) (tail : List UInt8),
    wfItems st.depth items = true → slotsItems st.save items ≤ 255 → offsItems st.save items = true →
    Rel st base pend →
    ∃ st1, Steps (render sty items ++ tail) st tail st1 ∧
      st1.result = (base ++ comp st.save pend items).toArray ∧
      st1.save = slotsItems st.save items ∧ st1.depth = st.depth ∧ st1.subs = st.subs ∧
      st1.subEnd ≤ st1.result.size

/-- items that push exactly one atom (which is not a `Skip`) -/
theorem itemGoal_push {sty : Style} {it : Item} (a : Nat → Atom)
    (hsteps : ∀ (st : PSt) (tail : List UInt8), wfItem st.depth it = true → slotsItem st.save it ≤ 255 →
      ∃ st1, Steps (renderItem sty it ++ tail) st tail st1 ∧ st1.result = st.result.push (a st.save) ∧
        st1.save = slotsItem st.save it ∧ st1.depth = st.depth ∧ st1.subs = st.subs ∧ st1.subEnd = st.subEnd)
    (hns : ∀ k n, a k ≠ .skip n)
    (hcomp : ∀ k pend r, comp k pend (it :: r) = flush pend ++ a k :: comp (slotsItem k it) none r) :
    ItemGoal sty it := by
  intro st base pend tail hwf hsl _ hrel
  obtain ⟨st1, hs, hr, hsv, hd, hsb, hse⟩ := hsteps st tail hwf hsl
  refine ⟨st1, base ++ flush pend ++ [a st.save], none, hs, hrel.push_of hr hse (hns _), hsv, hd, hsb, ?_⟩
  intro r; rw [hcomp]; simp

/-! ### white space -/

theorem item_ws (sty : Style) (s : List UInt8) : ItemGoal sty (.ws s) := by
  intro st base pend tail hwf _ _ hrel
  refine ⟨st, base, pend, ?_, hrel, by simp [slotsItem], rfl, rfl, ?_⟩
  · simp only [renderItem]; exact steps_ws s tail st (by simpa [wfItem] using hwf)
  · intro r; simp [comp, slotsItem]

/-! ### hex byte -/

theorem hexDigit_facts : ∀ (up : Bool) (n : Nat), n < 16 →
    classify (hexDigit up n).toNat = .hex ∧
    ¬ ((hexDigit up n).toNat < 97 ∧ (hexDigit up n).toNat < 65 ∧ (hexDigit up n).toNat < 48) ∧
    (if (hexDigit up n).toNat ≥ 97 then (hexDigit up n).toNat - 97 + 10
      else if (hexDigit up n).toNat ≥ 65 then (hexDigit up n).toNat - 65 + 10 else (hexDigit up n).toNat - 48) = n ∧
    (if (hexDigit up n).toNat ≥ 97 ∧ (hexDigit up n).toNat ≤ 102 then some ((hexDigit up n).toNat - 97 + 10)
      else if (hexDigit up n).toNat ≥ 65 ∧ (hexDigit up n).toNat ≤ 70 then some ((hexDigit up n).toNat - 65 + 10)
      else if (hexDigit up n).toNat ≥ 48 ∧ (hexDigit up n).toNat ≤ 57 then some ((hexDigit up n).toNat - 48)
      else none) = some n := by decide

theorem tok_hex (up : Bool) (b : Nat) (hb : b < 256) (tail : List UInt8) (st : PSt) :
    Pelite.Pattern.tok (hexDigit up (b / 16)).toNat (hexDigit up (b % 16) :: tail) st
      = .ok ⟨pushA st (.byte b), tail, true⟩ := by
  obtain ⟨h1, h2, h3, _⟩ := hexDigit_facts up (b / 16) (by omega)
  obtain ⟨_, _, _, h4⟩ := hexDigit_facts up (b % 16) (by omega)
  simp only [Pelite.Pattern.tok, h1, opHex]
  rw [if_neg h2]
  rw [h3, h4]
  dsimp only
  rw [if_neg (by omega), if_neg (by omega)]
  have e : b / 16 * 16 % 256 + b % 16 = b := by omega
  rw [e]

theorem item_byte (sty : Style) (b : Nat) : ItemGoal sty (.byte b) := by
  apply itemGoal_push (fun _ => .byte b)
  · intro st tail hwf _
    have hb : b < 256 := by simpa [wfItem] using hwf
    refine ⟨pushA st (.byte b), ?_, rfl, by simp [slotsItem, pushA], rfl, rfl, rfl⟩
    simp only [renderItem, List.cons_append, List.nil_append]
    exact Steps.tok' (tok_hex _ b hb tail st) (by simp)
  · intro k n; simp
  · intro k pend r; simp [comp, slotsItem]


/-! ### quoted text -/

theorem quoted_spec : ∀ (bs : List UInt8) (tail : List UInt8) (l : List Atom), bs.all (· ≠ 34) = true →
    quoted (bs ++ 34 :: tail) l.toArray = some ((l ++ bs.map (fun c => Atom.byte c.toNat)).toArray, tail)
  | [], tail, l, _ => by simp [quoted]
  | c :: bs, tail, l, h => by
    simp only [List.all_cons, Bool.and_eq_true, decide_eq_true_eq] at h
    have hc : c.toNat ≠ 34 := fun e => h.1 (UInt8.toNat_inj.mp (by simpa using e))
    simp only [List.cons_append, quoted, if_pos hc, List.push_toArray]
    rw [quoted_spec bs tail _ h.2]; simp

theorem item_str (sty : Style) (bs : List UInt8) : ItemGoal sty (.str bs) := by
  intro st base pend tail hwf _ _ hrel
  have hq : bs.all (· ≠ 34) = true := by simpa [wfItem] using hwf
  have htok : Pelite.Pattern.tok (34 : UInt8).toNat (bs ++ 34 :: tail) st
      = .ok ⟨{ st with result := (base ++ flush pend ++ bs.map (fun c => Atom.byte c.toNat)).toArray }, tail, true⟩ := by
    simp [Pelite.Pattern.tok, classify, opQuote, hrel.res, quoted_spec bs tail _ hq]
  have hsteps := Steps.tok' htok (by simp; omega)
  have hr : renderItem sty (.str bs) ++ tail = 34 :: (bs ++ 34 :: tail) := by simp [renderItem]
  rw [hr]
  by_cases hbs : bs = []
  · subst hbs
    refine ⟨_, base, pend, hsteps, ⟨by simp, hrel.sub_le, hrel.last⟩, by simp [slotsItem], rfl, rfl, ?_⟩
    intro r; simp [comp, slotsItem]
  · refine ⟨_, _, none, hsteps, hrel.append_of rfl rfl ?_, by simp [slotsItem], rfl, rfl, ?_⟩
    · intro n
      rw [List.getLast?_append, List.getLast?_map]
      cases h : bs.getLast? with
      | none => exact absurd (List.getLast?_eq_none_iff.mp h) hbs
      | some c => simp
    · intro r; simp [comp, slotsItem, hbs]


/-! ### `?` -/

theorem setLast_append_singleton (l : List Atom) (a b : Atom) :
    setLast (l ++ [a]).toArray b = (l ++ [b]).toArray := by
  simp [setLast]

theorem opSkip_merge {st : PSt} {base : List Atom} {n : Nat} (hr : st.result = (base ++ [Atom.skip n]).toArray)
    (hs : st.subEnd ≤ base.length) (hn : n ≠ 0 ∧ n < 255) :
    opSkip st = ({ st with result := (base ++ [Atom.skip (n + 1)]).toArray }, false) := by
  unfold opSkip
  rw [if_pos (by rw [hr]; simp; omega)]
  have hb : st.result.back? = some (.skip n) := by rw [hr]; simp
  rw [hb]; dsimp only
  rw [if_pos hn, hr, setLast_append_singleton]

theorem opSkip_nomerge {st : PSt} {base : List Atom} {n : Nat} (hr : st.result = (base ++ [Atom.skip n]).toArray)
    (hn : ¬ (n ≠ 0 ∧ n < 255)) :
    opSkip st = (pushA st (.skip 1), true) := by
  unfold opSkip
  have hb : st.result.back? = some (.skip n) := by rw [hr]; simp
  rw [hb]; dsimp only
  rw [if_neg hn]; simp

theorem opSkip_fresh {st : PSt} {base : List Atom} (hr : st.result = base.toArray)
    (_hs : st.subEnd ≤ base.length)
    (hl : st.subEnd = base.length ∨ ∀ n, base.getLast? ≠ some (.skip n)) :
    opSkip st = (pushA st (.skip 1), true) := by
  unfold opSkip
  split
  · next hgt =>
    have hl' : ∀ n, st.result.back? ≠ some (.skip n) := by
      rcases hl with hl | hl
      · rw [hr] at hgt; simp at hgt; omega
      · intro n; rw [hr]; simpa using hl n
    split
    · next n hb => exact absurd hb (hl' n)
    · rfl
  · rfl

theorem item_any (sty : Style) : ItemGoal sty .any := by
  intro st base pend tail _ _ _ hrel
  have htok : Pelite.Pattern.tok (63 : UInt8).toNat tail st = .ok ⟨(opSkip st).1, tail, (opSkip st).2⟩ := by
    simp [Pelite.Pattern.tok, classify]
  have hsteps := Steps.tok' htok (Nat.le_refl _)
  simp only [renderItem, List.cons_append, List.nil_append]
  cases pend with
  | some n =>
    have hr : st.result = (base ++ [Atom.skip n]).toArray := by simpa [flush] using hrel.res
    by_cases hn : n ≠ 0 ∧ n < 255
    · rw [opSkip_merge hr hrel.sub_le hn] at hsteps
      refine ⟨_, base, some (n + 1), hsteps, ⟨by simp [flush], hrel.sub_le, by simp⟩, by simp [slotsItem], rfl, rfl, ?_⟩
      intro r; simp [comp, slotsItem, hn]
    · rw [opSkip_nomerge hr hn] at hsteps
      refine ⟨_, base ++ [Atom.skip n], some 1, hsteps, ⟨by simp [flush, pushA, hr], ?_, by simp⟩, by simp [slotsItem, pushA], rfl, rfl, ?_⟩
      · have := hrel.sub_le; simp [pushA]; omega
      · intro r; simp [comp, slotsItem, hn]
  | none =>
    have hr : st.result = base.toArray := by simpa [flush] using hrel.res
    rw [opSkip_fresh hr hrel.sub_le (hrel.last rfl)] at hsteps
    refine ⟨_, base, some 1, hsteps, ⟨by simp [flush, pushA, hr], hrel.sub_le, by simp⟩, by simp [slotsItem, pushA], rfl, rfl, ?_⟩
    intro r; simp [comp, slotsItem]

/-! ### `%`, `$`, `*` -/

theorem tok_jump (j : Jump) (tail : List UInt8) (st : PSt) :
    Pelite.Pattern.tok j.chr.toNat tail st = .ok ⟨pushA st j.atom, tail, true⟩ := by
  cases j <;> simp [Pelite.Pattern.tok, classify, Jump.chr, Jump.atom]

theorem item_jump (sty : Style) (j : Jump) : ItemGoal sty (.jump j) := by
  apply itemGoal_push (fun _ => j.atom)
  · intro st tail _ _
    refine ⟨pushA st j.atom, ?_, rfl, by simp [slotsItem, pushA], rfl, rfl, rfl⟩
    simp only [renderItem, List.cons_append, List.nil_append]
    exact Steps.tok' (tok_jump j tail st) (Nat.le_refl _)
  · intro k n; cases j <;> simp [Jump.atom]
  · intro k pend r; simp [comp, slotsItem]

/-! ### `'`, `z`, `i?`, `u?` -/

theorem opSlot_ok {st : PSt} (mk : Nat → Atom) (h : st.save < 255) :
    opSlot st mk = .ok { st with result := st.result.push (mk st.save), save := st.save + 1 } := by
  unfold opSlot; rw [if_neg (by omega), if_neg (by omega)]

theorem item_save (sty : Style) : ItemGoal sty .save := by
  apply itemGoal_push (fun k => .save k)
  · intro st tail _ hsl
    have hk : st.save < 255 := by simp [slotsItem] at hsl; omega
    refine ⟨{ st with result := st.result.push (.save st.save), save := st.save + 1 }, ?_, rfl, by simp [slotsItem], rfl, rfl, rfl⟩
    simp only [renderItem, List.cons_append, List.nil_append]
    exact Steps.tok' (upd := true) (by simp [Pelite.Pattern.tok, classify, opSlot_ok _ hk, liftSt]) (Nat.le_refl _)
  · intro k n; simp
  · intro k pend r; simp [comp, slotsItem]

theorem item_zero (sty : Style) : ItemGoal sty .zero := by
  apply itemGoal_push (fun k => .zero k)
  · intro st tail _ hsl
    have hk : st.save < 255 := by simp [slotsItem] at hsl; omega
    refine ⟨{ st with result := st.result.push (.zero st.save), save := st.save + 1 }, ?_, rfl, by simp [slotsItem], rfl, rfl, rfl⟩
    simp only [renderItem, List.cons_append, List.nil_append]
    exact Steps.tok' (upd := true) (by simp [Pelite.Pattern.tok, classify, opSlot_ok _ hk, liftSt]) (Nat.le_refl _)
  · intro k n; simp
  · intro k pend r; simp [comp, slotsItem]

theorem item_readI (sty : Style) (w : Nat) : ItemGoal sty (.readI w) := by
  apply itemGoal_push (fun k => readAtom true w k)
  · intro st tail hwf hsl
    have hk : st.save < 255 := by simp [slotsItem] at hsl; omega
    have hw : w = 1 ∨ w = 2 ∨ w = 4 := by simpa [wfItem, or_assoc] using hwf
    refine ⟨{ st with result := st.result.push (readAtom true w st.save), save := st.save + 1 }, ?_, rfl, by simp [slotsItem], rfl, rfl, rfl⟩
    simp only [renderItem, List.cons_append, List.nil_append]
    rcases hw with rfl | rfl | rfl <;>
    exact Steps.tok' (upd := true) (by simp [Pelite.Pattern.tok, classify, opRead, opSlot_ok _ hk, readAtom]) (Nat.le_succ _)
  · intro k n; unfold readAtom; split <;> simp
  · intro k pend r; simp [comp, slotsItem]

theorem item_readU (sty : Style) (w : Nat) : ItemGoal sty (.readU w) := by
  apply itemGoal_push (fun k => readAtom false w k)
  · intro st tail hwf hsl
    have hk : st.save < 255 := by simp [slotsItem] at hsl; omega
    have hw : w = 1 ∨ w = 2 ∨ w = 4 := by simpa [wfItem, or_assoc] using hwf
    refine ⟨{ st with result := st.result.push (readAtom false w st.save), save := st.save + 1 }, ?_, rfl, by simp [slotsItem], rfl, rfl, rfl⟩
    simp only [renderItem, List.cons_append, List.nil_append]
    rcases hw with rfl | rfl | rfl <;>
    exact Steps.tok' (upd := true) (by simp [Pelite.Pattern.tok, classify, opRead, opSlot_ok _ hk, readAtom]) (Nat.le_succ _)
  · intro k n; unfold readAtom; split <;> simp
  · intro k pend r; simp [comp, slotsItem]

/-! ### `@n` -/

theorem alignChr_facts : ∀ (ua : Bool) (uh : Bool) (n : Nat), n < 36 →
    (n < 10 ∧ (alignChr ⟨uh, ua⟩ n).toNat = 48 + n) ∨
    (10 ≤ n ∧ (alignChr ⟨uh, ua⟩ n).toNat = 55 + n) ∨
    (10 ≤ n ∧ (alignChr ⟨uh, ua⟩ n).toNat = 87 + n) := by decide

theorem opAligned_ok (sty : Style) (n : Nat) (hn : n < 36) (tail : List UInt8) (st : PSt) :
    opAligned st (alignChr sty n :: tail) = .ok ⟨pushA st (.aligned n), tail, true⟩ := by
  obtain ⟨uh, ua⟩ := sty
  unfold opAligned
  dsimp only
  rcases alignChr_facts ua uh n hn with ⟨h1, h2⟩ | ⟨h1, h2⟩ | ⟨h1, h2⟩ <;> rw [h2]
  · rw [if_pos (by omega)]; congr 4; omega
  · rw [if_neg (by omega), if_pos (by omega), if_neg (by omega)]; congr 4; omega
  · rw [if_neg (by omega), if_neg (by omega), if_pos (by omega), if_neg (by omega)]; congr 4; omega

theorem item_aligned (sty : Style) (n : Nat) : ItemGoal sty (.aligned n) := by
  apply itemGoal_push (fun _ => .aligned n)
  · intro st tail hwf _
    have hn : n < 36 := by simpa [wfItem] using hwf
    refine ⟨pushA st (.aligned n), ?_, rfl, by simp [slotsItem, pushA], rfl, rfl, rfl⟩
    simp only [renderItem, List.cons_append, List.nil_append]
    exact Steps.tok' (upd := true) (by simp [Pelite.Pattern.tok, classify, opAligned_ok sty n hn]) (Nat.le_succ _)
  · intro k n; simp
  · intro k pend r; simp [comp, slotsItem]


/-! ### `[n]`, `[a-b]` -/

theorem manyLower_digit (d : Nat) (cs : List UInt8) (lb : Nat) (seen : Bool) (hd : d < 10)
    (hlb : lb * 10 + d < 16384) :
    manyLower ((48 + d).toUInt8 :: cs) lb seen = manyLower cs (lb * 10 + d) true := by
  rw [manyLower]
  simp only [digit_toNat d hd]
  rw [if_neg (by omega), if_pos (by omega), if_neg (by omega), if_neg (by omega)]
  have e : 48 + d - 48 = d := by omega
  rw [e, if_neg (by omega)]

theorem manyUpper_digit (d : Nat) (cs : List UInt8) (ub : Nat) (hd : d < 10)
    (hub : ub * 10 + d < 16384) :
    manyUpper ((48 + d).toUInt8 :: cs) ub = manyUpper cs (ub * 10 + d) := by
  rw [manyUpper]
  simp only [digit_toNat d hd]
  rw [if_neg (by omega), if_pos (by omega), if_neg (by omega), if_neg (by omega)]
  have e : 48 + d - 48 = d := by omega
  rw [e, if_neg (by omega)]

theorem manyLower_decDigits : ∀ (fuel n : Nat) (acc rest : List UInt8), n < 10 ^ (fuel + 1) → n < 16384 →
    manyLower (decDigits (fuel + 1) n acc ++ rest) 0 false = manyLower (acc ++ rest) n true
  | 0, n, acc, rest, h, _ => by
    have hn : n < 10 := by simpa using h
    rw [decDigits, if_pos hn, List.cons_append, manyLower_digit n _ 0 false hn (by omega)]; simp
  | fuel + 1, n, acc, rest, h, h2 => by
    rw [decDigits]
    split
    · next hn => rw [List.cons_append, manyLower_digit n _ 0 false hn (by omega)]; simp
    · next hn =>
      have h10 : n / 10 < 10 ^ (fuel + 1) := by rw [Nat.pow_succ] at h; omega
      rw [manyLower_decDigits fuel (n / 10) _ rest h10 (by omega), List.cons_append,
        manyLower_digit (n % 10) _ (n / 10) true (by omega) (by omega)]
      congr 1; omega

theorem manyUpper_decDigits : ∀ (fuel n : Nat) (acc rest : List UInt8), n < 10 ^ (fuel + 1) → n < 16384 →
    manyUpper (decDigits (fuel + 1) n acc ++ rest) 0 = manyUpper (acc ++ rest) n
  | 0, n, acc, rest, h, _ => by
    have hn : n < 10 := by simpa using h
    rw [decDigits, if_pos hn, List.cons_append, manyUpper_digit n _ 0 hn (by omega)]; simp
  | fuel + 1, n, acc, rest, h, h2 => by
    rw [decDigits]
    split
    · next hn => rw [List.cons_append, manyUpper_digit n _ 0 hn (by omega)]; simp
    · next hn =>
      have h10 : n / 10 < 10 ^ (fuel + 1) := by rw [Nat.pow_succ] at h; omega
      rw [manyUpper_decDigits fuel (n / 10) _ rest h10 (by omega), List.cons_append,
        manyUpper_digit (n % 10) _ (n / 10) (by omega) (by omega)]
      congr 1; omega

theorem manyLower_dec (n : Nat) (hn : n < 16384) (c : UInt8) (hc : c.toNat = 45 ∨ c.toNat = 93) (rest : List UInt8) :
    manyLower (dec n ++ c :: rest) 0 false = .ok (n, true, c.toNat, rest) := by
  rw [dec, manyLower_decDigits 5 n [] _ (by omega) hn, List.nil_append, manyLower, if_pos hc]

theorem manyUpper_dec (n : Nat) (hn : n < 16384) (rest : List UInt8) :
    manyUpper (dec n ++ 93 :: rest) 0 = .ok (n, rest) := by
  rw [dec, manyUpper_decDigits 5 n [] _ (by omega) hn, List.nil_append, manyUpper]; simp

theorem emitRange_toArray (l : List Atom) (n : Nat) (mk : Nat → Atom) (hn : n < 65536) :
    emitRange l.toArray n mk = (l ++ rangext n ++ [mk (n % 256)]).toArray := by
  unfold emitRange rangext
  have e : n / 256 % 256 = n / 256 := by omega
  split <;> simp [e]

theorem opMany_skip (st : PSt) (n : Nat) (hn : n < 16384) (tail : List UInt8) :
    opMany st (dec n ++ 93 :: tail)
      = .ok ⟨{ st with result := if n > 0 then emitRange st.result n .skip else st.result }, tail, false⟩ := by
  unfold opMany
  rw [manyLower_dec n hn 93 (Or.inr rfl)]
  simp

theorem opMany_range (st : PSt) (a b : Nat) (hab : a < b) (hb : b < 16384) (tail : List UInt8) :
    opMany st (dec a ++ 45 :: (dec b ++ 93 :: tail))
      = .ok ⟨{ st with result := emitRange (if a > 0 then emitRange st.result a .skip else st.result) (b - a) .many },
          tail, true⟩ := by
  unfold opMany
  rw [manyLower_dec a (by omega) 45 (Or.inl rfl)]
  simp [manyUpper_dec b hb, hab]
  omega


theorem item_skip (sty : Style) (n : Nat) : ItemGoal sty (.skip n) := by
  intro st base pend tail hwf _ _ hrel
  have hn : n < 16384 := by simpa [wfItem] using hwf
  have htok : Pelite.Pattern.tok (91 : UInt8).toNat (dec n ++ 93 :: tail) st = opMany st (dec n ++ 93 :: tail) := by
    simp [Pelite.Pattern.tok, classify]
  rw [opMany_skip st n hn tail] at htok
  have hsteps := Steps.tok' htok (by simp; omega)
  have hr : renderItem sty (.skip n) ++ tail = 91 :: (dec n ++ 93 :: tail) := by simp [renderItem]
  rw [hr]
  by_cases h0 : n = 0
  · subst h0
    refine ⟨_, base, pend, hsteps, ⟨by simp [hrel.res], hrel.sub_le, hrel.last⟩, by simp [slotsItem], rfl, rfl, ?_⟩
    intro r; simp [comp, slotsItem]
  · rw [if_pos (by omega), hrel.res, emitRange_toArray _ _ _ (by omega)] at hsteps
    refine ⟨_, base ++ flush pend ++ rangext n, some (n % 256), hsteps,
      ⟨by simp [flush], ?_, by simp⟩, by simp [slotsItem], rfl, rfl, ?_⟩
    · have := hrel.sub_le; simp; omega
    · intro r; simp [comp, slotsItem, h0]

theorem item_range (sty : Style) (a b : Nat) : ItemGoal sty (.range a b) := by
  intro st base pend tail hwf _ _ hrel
  have hab : a < b ∧ b < 16384 := by simpa [wfItem] using hwf
  have htok : Pelite.Pattern.tok (91 : UInt8).toNat (dec a ++ 45 :: (dec b ++ 93 :: tail)) st
      = opMany st (dec a ++ 45 :: (dec b ++ 93 :: tail)) := by
    simp [Pelite.Pattern.tok, classify]
  rw [opMany_range st a b hab.1 hab.2 tail] at htok
  have hsteps := Steps.tok' htok (by simp; omega)
  have hr : renderItem sty (.range a b) ++ tail = 91 :: (dec a ++ 45 :: (dec b ++ 93 :: tail)) := by simp [renderItem]
  rw [hr]
  have hres : emitRange (if a > 0 then emitRange st.result a .skip else st.result) (b - a) .many
      = (base ++ flush pend ++ ((if a = 0 then [] else rangext a ++ [Atom.skip (a % 256)]) ++ rangext (b - a)
          ++ [Atom.many ((b - a) % 256)])).toArray := by
    rw [hrel.res]
    by_cases h0 : a = 0
    · subst h0; simp [emitRange_toArray _ _ _ (show b < 65536 by omega)]
    · rw [if_pos (by omega), if_neg h0, emitRange_toArray _ _ _ (show a < 65536 by omega),
        emitRange_toArray _ _ _ (show b - a < 65536 by omega)]
      simp
  rw [hres] at hsteps
  refine ⟨_, _, none, hsteps, hrel.append_of rfl rfl ?_, by simp [slotsItem], rfl, rfl, ?_⟩
  · intro n; simp [← List.append_assoc]
  · intro r
    by_cases h0 : a = 0 <;> simp [comp, slotsItem, h0]


/-! ## Sequences -/

mutual
theorem slotsItem_ge : ∀ (it : Item) (k : Nat), k ≤ slotsItem k it
  | .ws _, k | .byte _, k | .str _, k | .any, k | .skip _, k | .range _ _, k | .jump _, k | .aligned _, k => by
    simp [slotsItem]
  | .save, k | .readI _, k | .readU _, k | .zero, k => by simp [slotsItem]
  | .group _ _ body, k => by rw [slotsItem]; exact slotsItems_ge body k
  | .alt bodies, k => by rw [slotsItem]; exact slotsAlts_ge bodies k
theorem slotsItems_ge : ∀ (items : List Item) (k : Nat), k ≤ slotsItems k items
  | [], k => by simp [slotsItems]
  | it :: r, k => by rw [slotsItems]; exact Nat.le_trans (slotsItem_ge it k) (slotsItems_ge r _)
theorem slotsAlts_ge : ∀ (bs : List (List Item)) (k : Nat), k ≤ slotsAlts k bs
  | [], k => by simp [slotsAlts]
  | b :: bs, k => by rw [slotsAlts]; have := slotsItems_ge b k; omega
end

theorem seq_nil (sty : Style) : SeqGoal sty [] := by
  intro st base pend tail _ _ _ hrel
  refine ⟨st, Steps.refl _ _, by simp [comp, hrel.res], by simp [slotsItems], rfl, rfl, ?_⟩
  have := hrel.sub_le; rw [hrel.res]; simp; omega

theorem seq_cons {sty : Style} {it : Item} {r : List Item} (hi : ItemGoal sty it) (hr : SeqGoal sty r) :
    SeqGoal sty (it :: r) := by
  intro st base pend tail hwf hsl hoff hrel
  simp only [wfItems, Bool.and_eq_true] at hwf
  simp only [slotsItems] at hsl
  simp only [offsItems, Bool.and_eq_true] at hoff
  have hsl1 : slotsItem st.save it ≤ 255 := Nat.le_trans (slotsItems_ge r _) hsl
  obtain ⟨st1, base1, pend1, hs1, hrel1, hsv1, hd1, hsb1, hc⟩ :=
    hi st base pend (render sty r ++ tail) hwf.1 hsl1 hoff.1 hrel
  obtain ⟨st2, hs2, hres2, hsv2, hd2, hsb2, hse2⟩ :=
    hr st1 base1 pend1 tail (by rw [hd1]; exact hwf.2) (by rw [hsv1]; exact hsl) (by rw [hsv1]; exact hoff.2) hrel1
  refine ⟨st2, ?_, ?_, ?_, by rw [hd2, hd1], by rw [hsb2, hsb1], hse2⟩
  · rw [render, List.append_assoc]; exact hs1.trans hs2
  · rw [hres2, hsv1, hc]
  · rw [hsv2, hsv1, slotsItems]

/-! ## `j { body }` -/

theorem opOpen_ok {st : PSt} {l : List Atom} (j : Jump) (hr : st.result = l.toArray)
    (hd : st.depth < 255) :
    opOpen (pushA st j.atom)
      = .ok { st with depth := st.depth + 1, result := (l ++ [Atom.push j.push, j.atom]).toArray } := by
  unfold opOpen
  have hb : (pushA st j.atom).result.back? = some j.atom := by simp [pushA]
  have hd' : (pushA st j.atom).depth = st.depth := rfl
  rw [if_neg (by omega), if_neg (by omega), hb]
  cases j <;> simp [Jump.atom, Jump.push, pushA, hr, setLast_append_singleton]

theorem item_group {sty : Style} {j : Jump} {gap : List UInt8} {body : List Item} (hb : SeqGoal sty body) :
    ItemGoal sty (.group j gap body) := by
  intro st base pend tail hwf hsl hoff hrel
  simp only [wfItem, Bool.and_eq_true, decide_eq_true_eq] at hwf
  obtain ⟨⟨hgap, hd⟩, hwfb⟩ := hwf
  simp only [slotsItem] at hsl ⊢
  simp only [offsItem] at hoff
  have hr : renderItem sty (.group j gap body) ++ tail
      = j.chr :: (gap ++ 123 :: (render sty body ++ 125 :: tail)) := by simp [renderItem]
  rw [hr]
  -- the jump symbol
  have s1 := Steps.tok' (tok_jump j (gap ++ 123 :: (render sty body ++ 125 :: tail)) st) (Nat.le_refl _)
  -- the gap
  have s2 := steps_ws gap (123 :: (render sty body ++ 125 :: tail)) (pushA st j.atom) hgap
  -- `{`
  have hopen := opOpen_ok (st := st) (l := base ++ flush pend) j hrel.res hd
  have s3 := Steps.tok' (c := 123) (rest := render sty body ++ 125 :: tail) (st := pushA st j.atom) (upd := true)
    (st' := { st with depth := st.depth + 1, result := (base ++ flush pend ++ [Atom.push j.push, j.atom]).toArray })
    (by simp [Pelite.Pattern.tok, classify, hopen, liftSt]) (Nat.le_refl _)
  -- the body
  have hrelb : Rel { st with depth := st.depth + 1, result := (base ++ flush pend ++ [Atom.push j.push, j.atom]).toArray }
      (base ++ flush pend ++ [Atom.push j.push, j.atom]) none := by
    refine hrel.append_of (st1 := { st with depth := st.depth + 1, result := (base ++ flush pend ++ [Atom.push j.push, j.atom]).toArray }) rfl rfl ?_
    intro n; cases j <;> simp [Jump.atom]
  obtain ⟨st4, s4, hres4, hsv4, hd4, hsb4, hse4⟩ :=
    hb { st with depth := st.depth + 1, result := (base ++ flush pend ++ [Atom.push j.push, j.atom]).toArray }
      _ none (125 :: tail) hwfb hsl hoff hrelb
  simp only at hres4 hsv4 hd4 hsb4
  -- `}`
  have hclose : opClose st4 = .ok { st4 with depth := st4.depth - 1, result := st4.result.push .pop } := by
    unfold opClose; rw [if_neg (by omega), if_neg (by omega)]
  have s5 := Steps.tok' (c := 125) (rest := tail) (st := st4) (upd := true)
    (st' := { st4 with depth := st4.depth - 1, result := st4.result.push .pop })
    (by simp [Pelite.Pattern.tok, classify, hclose, liftSt]) (Nat.le_refl _)
  refine ⟨_, base ++ flush pend ++ [Atom.push j.push, j.atom] ++ comp st.save none body ++ [Atom.pop], none,
    (((s1.trans s2).trans s3).trans s4).trans s5, ⟨by simp [hres4, flush], ?_, fun _ => Or.inr (fun n => by rw [List.getLast?_concat]; simp)⟩,
    hsv4, by simp [hd4], hsb4, ?_⟩
  · rw [hres4] at hse4; simp at hse4 ⊢; omega
  · intro r; simp [comp]


/-! ## `( b1 | … | bn )` -/

/-- the list-level effect of `fillBrks`: every recorded placeholder at index `i` becomes `Break(sz - i - 1)` -/
def patch (sz : Nat) (l : List Atom) (brks : List Nat) : List Atom :=
  brks.foldl (fun l i => l.set i (Atom.brk (sz - i - 1))) l

theorem patch_length (sz : Nat) : ∀ (brks : List Nat) (l : List Atom), (patch sz l brks).length = l.length
  | [], l => rfl
  | i :: brks, l => by
    have := patch_length sz brks (l.set i (Atom.brk (sz - i - 1)))
    simpa [patch] using this

theorem patch_append (sz : Nat) (l2 : List Atom) : ∀ (brks : List Nat) (l1 : List Atom),
    (∀ i ∈ brks, i < l1.length) → patch sz (l1 ++ l2) brks = patch sz l1 brks ++ l2
  | [], l1, _ => rfl
  | i :: brks, l1, h => by
    have hi : i < l1.length := h i (by simp)
    have := patch_append sz l2 brks (l1.set i (Atom.brk (sz - i - 1)))
      (fun i' hi' => by rw [List.length_set]; exact h i' (by simp [hi']))
    simpa [patch, List.set_append_left _ _ hi] using this

theorem patch_snoc (sz : Nat) (l : List Atom) (brks : List Nat) (j : Nat) :
    patch sz l (brks ++ [j]) = (patch sz l brks).set j (Atom.brk (sz - j - 1)) := by
  simp [patch, List.foldl_append]

theorem fillBrks_spec : ∀ (brks : List Nat) (l : List Atom),
    (∀ i ∈ brks, i < l.length ∧ l.length < i + 257) →
    fillBrks l.toArray brks = .ok (patch l.length l brks).toArray
  | [], l, _ => by simp [fillBrks, patch]
  | i :: brks, l, h => by
    obtain ⟨h1, h2⟩ := h i (by simp)
    have ih := fillBrks_spec brks (l.set i (Atom.brk (l.length - i - 1)))
      (fun i' hi' => by rw [List.length_set]; exact h i' (by simp [hi']))
    rw [List.length_set] at ih
    rw [fillBrks]
    simp only [List.size_toArray]
    rw [if_neg (by omega), if_neg (by omega), if_neg (by omega)]
    simpa [patch] using ih

theorem opSubEnd_ok {st : PSt} {sub : Sub} {subs0 : List Sub} {P : List Atom} {c : Atom} {rest : List Atom}
    (hs : st.subs = sub :: subs0) (hr : st.result = (P ++ c :: rest).toArray) (hc : sub.case = P.length)
    (hb : ∀ i ∈ sub.brks, i < P.length ∧ P.length + 1 + rest.length < i + 257) :
    opSubEnd st = .ok { result := (patch (P.length + 1 + rest.length) P sub.brks ++ Atom.nop :: rest).toArray,
                        save := max sub.saveNext st.save, depth := sub.depth, subs := subs0,
                        subEnd := P.length + 1 + rest.length } := by
  unfold opSubEnd
  rw [hs]; dsimp only
  rw [if_neg (by rw [hr, hc]; simp)]
  have e : st.result.setIfInBounds sub.case Atom.nop = (P ++ Atom.nop :: rest).toArray := by
    rw [hr, hc]; simp
  have hlen : (P ++ Atom.nop :: rest).length = P.length + 1 + rest.length := by simp; omega
  rw [e, fillBrks_spec sub.brks _ (by rw [hlen]; intro i hi; have := hb i hi; omega)]
  dsimp only
  rw [hlen, patch_append _ _ _ _ (fun i hi => (hb i hi).1)]
  simp [patch_length]; omega

theorem opSubCase_ok {st : PSt} {sub : Sub} {subs0 : List Sub} {P : List Atom} {c : Atom} {cb : List Atom}
    (hs : st.subs = sub :: subs0) (hr : st.result = (P ++ c :: cb).toArray) (hc : sub.case = P.length)
    (hlen : cb.length + 1 < 256) :
    opSubCase st = .ok { st with
      save := sub.save, depth := sub.depth,
      subs := { sub with saveNext := max sub.saveNext st.save, brks := sub.brks ++ [P.length + 1 + cb.length],
                         case := P.length + 1 + cb.length + 1 } :: subs0,
      result := ((P ++ Atom.case (cb.length + 1) :: cb ++ [Atom.brk 0]) ++ [Atom.case 0]).toArray } := by
  unfold opSubCase
  rw [hs]; dsimp only
  have hsz : (st.result.push (Atom.brk 0)).size = P.length + 1 + cb.length + 1 := by rw [hr]; simp; omega
  have hsz0 : st.result.size = P.length + 1 + cb.length := by rw [hr]; simp; omega
  rw [hsz, hc, hsz0]
  rw [if_neg (by omega), if_neg (by omega), if_neg (by omega)]
  have e : P.length + 1 + cb.length + 1 - P.length - 1 = cb.length + 1 := by omega
  rw [e]
  have e2 : (st.result.push (Atom.brk 0)).setIfInBounds P.length (Atom.case (cb.length + 1))
      = (P ++ Atom.case (cb.length + 1) :: cb ++ [Atom.brk 0]).toArray := by
    rw [hr]; simp
  rw [e2]
  simp; omega


def AltsGoal (sty : Style) (bodies : List (List Item)) : Prop :=
  ∀ (st : PSt) (P : List Atom) (sub : Sub) (subs0 : List Sub) (tail : List UInt8),
    bodies ≠ [] → wfAlts st.depth bodies = true → slotsAlts st.save bodies ≤ 255 →
    offsAlts st.save bodies = true →
    st.result = (P ++ [Atom.case 0]).toArray → st.subs = sub :: subs0 → sub.case = P.length →
    (∀ i ∈ sub.brks, i < P.length ∧ P.length + (compAlts st.save bodies).length < i + 257) →
    sub.save = st.save → sub.depth = st.depth → st.subEnd ≤ P.length + 1 →
    ∃ st1, Steps (renderAlts sty bodies ++ 41 :: tail) st tail st1 ∧
      st1.result = (patch (P.length + (compAlts st.save bodies).length) P sub.brks
                      ++ compAlts st.save bodies).toArray ∧
      st1.save = max sub.saveNext (slotsAlts st.save bodies) ∧ st1.depth = st.depth ∧ st1.subs = subs0 ∧
      st1.subEnd = st1.result.size

theorem alts_nil (sty : Style) : AltsGoal sty [] := by
  intro st P sub subs0 tail h; exact absurd rfl h

theorem rel_case {st : PSt} {P : List Atom} (hr : st.result = (P ++ [Atom.case 0]).toArray)
    (hse : st.subEnd ≤ P.length + 1) : Rel st (P ++ [Atom.case 0]) none :=
  ⟨by simp [hr, flush], by simp; omega, fun _ => Or.inr (fun n => by rw [List.getLast?_concat]; simp)⟩

theorem alts_last {sty : Style} {b : List Item} (hb : SeqGoal sty b) : AltsGoal sty [b] := by
  intro st P sub subs0 tail _ hwf hsl hoff hres hsubs hcase hbrks hsave hdepth hse
  simp only [wfAlts, Bool.and_eq_true, and_true] at hwf
  simp only [offsAlts] at hoff
  have hmono := slotsItems_ge b st.save
  have hsl' : slotsAlts st.save [b] = slotsItems st.save b := by simp [slotsAlts]; omega
  rw [hsl'] at hsl ⊢
  simp only [compAlts, List.length_cons] at hbrks ⊢
  obtain ⟨st2, s2, hres2, hsv2, hd2, hsb2, hse2⟩ :=
    hb st (P ++ [Atom.case 0]) none (41 :: tail) hwf hsl hoff (rel_case hres hse)
  have hres2' : st2.result = (P ++ Atom.case 0 :: comp st.save none b).toArray := by rw [hres2]; simp
  have hend := opSubEnd_ok (st := st2) (hsb2.trans hsubs) hres2' hcase
    (by intro i hi; have := hbrks i hi; omega)
  have s3 := Steps.tok' (c := 41) (rest := tail) (st := st2) (upd := true) (st' := _)
    (by simp only [Pelite.Pattern.tok, classify]; simp [hend, liftSt]; rfl) (Nat.le_refl _)
  refine ⟨_, by simp only [renderAlts]; exact s2.trans s3, ?_, by simp [hsv2], by simp [hdepth], rfl, ?_⟩
  · rw [show P.length + ((comp st.save none b).length + 1) = P.length + 1 + (comp st.save none b).length by omega]
  · simp [patch_length]; omega


theorem opSubCase_ok' {st : PSt} {sub : Sub} {subs0 : List Sub} {P : List Atom} {c : Atom} {cb : List Atom}
    (hs : st.subs = sub :: subs0) (hr : st.result = (P ++ c :: cb).toArray) (hc : sub.case = P.length)
    (hlen : cb.length + 1 < 256) :
    ∃ st3 sub3, opSubCase st = .ok st3 ∧
      st3.result = ((P ++ Atom.case (cb.length + 1) :: cb ++ [Atom.brk 0]) ++ [Atom.case 0]).toArray ∧
      st3.subs = sub3 :: subs0 ∧ sub3.case = (P ++ Atom.case (cb.length + 1) :: cb ++ [Atom.brk 0]).length ∧
      sub3.brks = sub.brks ++ [P.length + 1 + cb.length] ∧ sub3.save = sub.save ∧ sub3.depth = sub.depth ∧
      sub3.saveNext = max sub.saveNext st.save ∧ st3.save = sub.save ∧ st3.depth = sub.depth ∧
      st3.subEnd = st.subEnd :=
  ⟨_, _, opSubCase_ok hs hr hc hlen, rfl, rfl, by simp; omega, rfl, rfl, rfl, rfl, rfl, rfl, rfl⟩

theorem patch_step (P cb ca : List Atom) (brks : List Nat) (hb : ∀ i ∈ brks, i < P.length) :
    (patch ((P ++ Atom.case (cb.length + 1) :: cb ++ [Atom.brk 0]).length + ca.length)
        (P ++ Atom.case (cb.length + 1) :: cb ++ [Atom.brk 0]) brks).set (P.length + 1 + cb.length)
        (Atom.brk ((P ++ Atom.case (cb.length + 1) :: cb ++ [Atom.brk 0]).length + ca.length
          - (P.length + 1 + cb.length) - 1)) ++ ca
      = patch (P.length + (cb.length + (ca.length + 1) + 1)) P brks
          ++ Atom.case (cb.length + 1) :: (cb ++ Atom.brk ca.length :: ca) := by
  have hl : (P ++ Atom.case (cb.length + 1) :: cb ++ [Atom.brk 0]).length = P.length + cb.length + 2 := by
    simp; omega
  rw [hl]
  have e1 : P.length + cb.length + 2 + ca.length = P.length + (cb.length + (ca.length + 1) + 1) := by omega
  have e2 : P.length + (cb.length + (ca.length + 1) + 1) - (P.length + 1 + cb.length) - 1 = ca.length := by omega
  rw [e1, e2]
  rw [show P ++ Atom.case (cb.length + 1) :: cb ++ [Atom.brk 0]
      = P ++ ((Atom.case (cb.length + 1) :: cb) ++ [Atom.brk 0]) by simp]
  rw [patch_append _ _ _ _ hb, List.set_append_right _ _ (by rw [patch_length]; omega), patch_length]
  have e3 : P.length + 1 + cb.length - P.length = (Atom.case (cb.length + 1) :: cb).length := by simp; omega
  rw [e3]; simp

theorem alts_cons {sty : Style} {b : List Item} {bs : List (List Item)} (hne : bs ≠ [])
    (hb : SeqGoal sty b) (hbs : AltsGoal sty bs) : AltsGoal sty (b :: bs) := by
  intro st P sub subs0 tail _ hwf hsl hoff hres hsubs hcase hbrks hsave hdepth hse
  have hne' : bs = [] → False := hne
  simp only [wfAlts, Bool.and_eq_true] at hwf
  rw [offsAlts.eq_3 _ _ _ hne'] at hoff
  simp only [Bool.and_eq_true, decide_eq_true_eq, code] at hoff
  obtain ⟨⟨⟨hoffb, hlen1⟩, hlen2⟩, hoffbs⟩ := hoff
  replace hlen1 : (comp st.save none b).length + 1 < 256 := of_decide_eq_true hlen1
  simp only [slotsAlts] at hsl ⊢
  rw [compAlts.eq_3 _ _ _ hne'] at hbrks ⊢
  rw [renderAlts.eq_3 _ _ _ hne']
  simp only [List.length_cons, List.length_append] at hbrks ⊢
  -- the alternative
  obtain ⟨st2, s2, hres2, hsv2, hd2, hsb2, hse2⟩ :=
    hb st (P ++ [Atom.case 0]) none (124 :: (renderAlts sty bs ++ 41 :: tail)) hwf.1 (by omega) hoffb
      (rel_case hres hse)
  have hres2' : st2.result = (P ++ Atom.case 0 :: comp st.save none b).toArray := by rw [hres2]; simp
  -- `|`
  obtain ⟨st3, sub3, hcasep, hres3, hsubs3, hcase3, hbrks3, hsave3, hdepth3, hnext3, hsv3, hd3, hse3⟩ :=
    opSubCase_ok' (st := st2) (hsb2.trans hsubs) hres2' hcase hlen1
  have s3 := Steps.tok' (c := 124) (rest := renderAlts sty bs ++ 41 :: tail) (st := st2) (upd := true) (st' := st3)
    (by simp only [Pelite.Pattern.tok, classify]; simp [hcasep, liftSt]) (Nat.le_refl _)
  -- the remaining alternatives
  have hk3 : st3.save = st.save := hsv3.trans hsave
  have hdd3 : st3.depth = st.depth := hd3.trans hdepth
  obtain ⟨st4, s4, hres4, hsv4, hd4, hsb4, hse4⟩ :=
    hbs st3 _ sub3 subs0 tail hne
      (by rw [hdd3]; exact hwf.2) (by rw [hk3]; omega) (by rw [hk3]; exact hoffbs) hres3 hsubs3 hcase3
      (by
        intro i hi
        rw [hbrks3] at hi
        simp only [List.mem_append, List.mem_singleton] at hi
        simp only [hk3, List.length_append, List.length_cons, List.length_nil]
        rcases hi with hi | hi
        · have := hbrks i hi; omega
        · omega)
      (by rw [hsave3, hk3, hsave]) (by rw [hdepth3, hdd3, hdepth])
      (by rw [hse3]; rw [hres2] at hse2; simp at hse2 ⊢; omega)
  rw [hk3] at hres4 hsv4
  refine ⟨st4, ?_, ?_, ?_, hd4.trans hdd3, hsb4, hse4⟩
  · rw [List.append_assoc]; exact (s2.trans s3).trans s4
  · rw [hres4, hbrks3, patch_snoc]
    rw [patch_step _ _ _ _ (fun i hi => (hbrks i hi).1)]
  · rw [hsv4, hnext3, hsv2]; omega


theorem item_alt {sty : Style} {bodies : List (List Item)} (ha : AltsGoal sty bodies) :
    ItemGoal sty (.alt bodies) := by
  intro st base pend tail hwf hsl hoff hrel
  simp only [wfItem, Bool.and_eq_true, Bool.not_eq_true', List.isEmpty_eq_false_iff] at hwf
  simp only [slotsItem] at hsl ⊢
  simp only [offsItem] at hoff
  have hr : renderItem sty (.alt bodies) ++ tail = 40 :: (renderAlts sty bodies ++ 41 :: tail) := by
    simp [renderItem]
  rw [hr]
  -- `(`
  have s1 := Steps.tok' (c := 40) (rest := renderAlts sty bodies ++ 41 :: tail) (st := st) (upd := true)
    (st' := { st with
      subs := { case := (base ++ flush pend).length, brks := [], save := st.save, saveNext := 0, depth := st.depth }
                :: st.subs,
      result := ((base ++ flush pend) ++ [Atom.case 0]).toArray })
    (by simp [Pelite.Pattern.tok, classify, opSubStart, liftSt, hrel.res]) (Nat.le_refl _)
  obtain ⟨st2, s2, hres2, hsv2, hd2, hsb2, hse2⟩ :=
    ha { st with
          subs := { case := (base ++ flush pend).length, brks := [], save := st.save, saveNext := 0, depth := st.depth }
                    :: st.subs,
          result := ((base ++ flush pend) ++ [Atom.case 0]).toArray }
      (base ++ flush pend)
      { case := (base ++ flush pend).length, brks := [], save := st.save, saveNext := 0, depth := st.depth }
      st.subs tail hwf.1 hwf.2 hsl hoff rfl rfl rfl (by simp) rfl rfl
      (by have := hrel.sub_le; simp; omega)
  simp only [patch, List.foldl_nil] at hres2
  refine ⟨st2, base ++ flush pend ++ compAlts st.save bodies, none, s1.trans s2,
    ⟨by simp [hres2, flush], ?_, fun _ => Or.inl ?_⟩, by simp [hsv2], hd2, hsb2, ?_⟩
  · rw [hse2, hres2]; simp
  · rw [hse2, hres2]; simp
  · intro r; simp [comp]

/-! ## The recursion over the tree -/

mutual
theorem itemGoal (sty : Style) : ∀ it : Item, ItemGoal sty it
  | .ws s => item_ws sty s
  | .byte b => item_byte sty b
  | .str bs => item_str sty bs
  | .any => item_any sty
  | .skip n => item_skip sty n
  | .range a b => item_range sty a b
  | .jump j => item_jump sty j
  | .save => item_save sty
  | .aligned n => item_aligned sty n
  | .readI w => item_readI sty w
  | .readU w => item_readU sty w
  | .zero => item_zero sty
  | .group _ _ body => item_group (seqGoal sty body)
  | .alt bodies => item_alt (altsGoal sty bodies)
theorem seqGoal (sty : Style) : ∀ items : List Item, SeqGoal sty items
  | [] => seq_nil sty
  | it :: r => seq_cons (itemGoal sty it) (seqGoal sty r)
theorem altsGoal (sty : Style) : ∀ bodies : List (List Item), AltsGoal sty bodies
  | [] => alts_nil sty
  | [b] => alts_last (seqGoal sty b)
  | b :: b' :: bs => alts_cons (by simp) (seqGoal sty b) (altsGoal sty (b' :: bs))
end

/-! ## Trimming and the top level -/

theorem isRedundant_eq : ∀ a : Atom, isRedundant a = redundant a := by
  intro a; cases a <;> rfl

theorem trim_reverse : ∀ l : List Atom, (trim l.reverse.toArray).toList = (l.dropWhile redundant).reverse
  | [] => by rw [trim]; simp
  | a :: l => by
    rw [trim]
    simp only [List.reverse_cons, List.size_toArray, List.length_append, List.length_reverse, List.length_cons,
      List.length_nil, Nat.zero_add, ↓reduceDIte, Nat.zero_lt_succ]
    have e : (l.reverse ++ [a]).toArray[l.length + 1 - 1] = a := by simp
    rw [e, isRedundant_eq]
    by_cases h : redundant a = true
    · rw [if_pos h, List.dropWhile_cons_of_pos h]
      have : (l.reverse ++ [a]).toArray.pop = l.reverse.toArray := by simp
      rw [this]; exact trim_reverse l
    · rw [if_neg h, List.dropWhile_cons_of_neg h]; simp

theorem trim_toList (r : Array Atom) : (trim r).toList = trimEnd r.toList := by
  have := trim_reverse r.toList.reverse
  simpa [trimEnd] using this

/-- **T1**: the parser maps every spelling of a well-formed tree to the reference compiler's output. -/
theorem parse_render (sty : Style) (p : Pat) (h : WF p = true) :
    parse (render sty p) = .ok (compile p) := by
  simp only [WF, Bool.and_eq_true, decide_eq_true_eq] at h
  obtain ⟨⟨hwf, hsl⟩, hoff⟩ := h
  have hrel : Rel initSt [Atom.save 0] none :=
    ⟨rfl, by simp [initSt], fun _ => Or.inr (by simp)⟩
  obtain ⟨st1, s1, hres, _, hd, hsb, _⟩ := seqGoal sty p initSt [Atom.save 0] none [] hwf hsl hoff hrel
  rw [List.append_nil] at s1
  obtain ⟨fuel', pat', he, hf⟩ := s1 ((render sty p).length + 1) (render sty p) (Nat.le_refl _)
  unfold parse
  rw [he]
  cases fuel' with
  | zero => simp at hf
  | succ f =>
    have hfin : finish st1 = .ok (trim st1.result) := by
      unfold finish
      rw [if_neg (by rw [hd]; simp [initSt]), if_neg (by rw [hsb]; simp [initSt])]
    rw [parseLoop]
    simp only [hfin]
    rw [trim_toList, hres]
    simp [compile, compileRaw, code, initSt]

theorem parse_showPat (p : Pat) (h : WF p = true) : parse (showPat p) = .ok (compile p) :=
  parse_render {} p h

theorem parse_showPatUpper (p : Pat) (h : WF p = true) : parse (showPatUpper p) = .ok (compile p) :=
  parse_render { upperHex := true, upperAlign := true } p h


/-! ## Non-vacuity: the theorem applies to nested trees (and the parser really produces these atoms) -/

/-- `e8 ${ ( [2-300] 41 | ' "ab" ? ? ) @4 } u4 [3] ?` -/
def exTree1 : Pat :=
  [.byte 0xe8, .ws [32], .group .j4 [] [.ws [32], .alt [[.range 2 300, .byte 0x41], [.save, .str [97, 98], .any, .any]],
    .aligned 4], .readU 4, .skip 3, .any]

example : parse (render ⟨true, false⟩ exTree1) = .ok (compile exTree1) := parse_render _ exTree1 (by decide +kernel)

/-- nested alternatives and groups: `( %{ ( z | i1 ) } | *{ [256] "" ? } | 0f ) '` -/
def exTree2 : Pat :=
  [.alt [[.group .j1 [] [.alt [[.zero], [.readI 1]]]], [.group .ptr [9] [.skip 256, .str [], .any]], [.byte 15]], .save]

example : parse (showPat exTree2) = .ok (compile exTree2) := parse_showPat exTree2 (by decide +kernel)
example : parse (showPatUpper exTree2) = .ok (compile exTree2) := parse_showPatUpper exTree2 (by decide +kernel)

example : compile exTree2 =
    [.save 0, .case 9, .push 1, .jump1, .case 2, .zero 1, .brk 2, .nop, .readI8 1, .pop, .brk 10,
     .case 7, .push 0, .ptr, .rangext 1, .skip 0, .skip 1, .pop, .brk 2, .nop, .byte 15, .save 2] := by decide +kernel

end Pelite.PatSem
